//go:build verif

package circl_test

// C01 level 0 (no deviation): for every scheme x key seed x encapsulation seed
//   - derivation and encapsulation are pure functions of the seeds (repeated calls, fresh buffers),
//   - all advertised sizes equal the actual lengths,
//   - Decapsulate(sk, ct) returns exactly the encapsulated secret,
//   - marshalled-and-restored keys are Equal, re-marshal to the same bytes and behave identically,
//   - the decapsulation model of /verif/ref/c01kem (exact specification) returns the same secret.

import (
	"bytes"
	"fmt"
	"strings"
	"sync"
	"testing"

	"github.com/cloudflare/circl/internal/verifmc"
	"github.com/cloudflare/circl/internal/verifref/c01kem"
)

func TestVerifC01_roundtrip(t *testing.T) {
	r := verifmc.Start(t, "C01", "roundtrip")
	defer r.Finish()
	r.Rule("product scheme x key seed x encapsulation seed over SEEDS(SeedSize) x SEEDS(EncapsulationSeedSize); " +
		"non-trivial = distinct (scheme, key seed, encapsulation seed) whose derivation, encapsulation and decapsulation all ran")
	all, aliased := c01Schemes(t)
	nk, ne := r.Pick(3, 0), r.Pick(2, 0)
	if r.Config() != "default" && !r.Thorough() {
		nk, ne = 2, 1
	}
	r.Set("schemes", len(all))
	r.Set("hpke_ids_aliasing_registry_entries", aliased)
	names := []string{}
	for _, s := range all {
		names = append(names, s.tag+" <"+s.origin+">")
	}
	r.Set("scheme_list", names)

	type job struct {
		s  *c01Scheme
		ki int
	}
	var jobs []job
	for _, s := range all {
		ks := c01Take(verifmc.Seeds(s.s.SeedSize(), r.Seed()), nk)
		for ki := range ks {
			jobs = append(jobs, job{s, ki})
		}
	}
	r.Set("key_seeds_per_scheme", len(c01Take(verifmc.Seeds(32, r.Seed()), nk)))
	r.Set("enc_seeds_per_key", len(c01Take(verifmc.Seeds(32, r.Seed()), ne)))
	if nk != 0 || ne != 0 {
		r.NotExhaustive(fmt.Sprintf("quick tier uses the first %d key seeds and %d encapsulation seeds of the seed alphabet", nk, ne))
	}

	var mu sync.Mutex
	pkSeen := map[string]string{} // marshalled public key -> case, per scheme (distinct seeds give distinct keys: counted, not demanded)

	verifmc.ParallelFor(len(jobs), func(ji int) {
		j := jobs[ji]
		s, sch, m := j.s, j.s.s, j.s.m
		rep := c01Reporter{r, s.tag}
		kseed := verifmc.Seeds(sch.SeedSize(), r.Seed())[j.ki]
		kcase := fmt.Sprintf("%s/k%d", s.tag, j.ki)
		if r.Replaying() && !strings.HasPrefix(r.ReplayCase(), kcase+"/") && r.ReplayCase() != kcase {
			return
		}
		payload := func(extra map[string]interface{}) map[string]interface{} {
			p := map[string]interface{}{"key_seed": verifmc.FullHex(kseed)}
			for k, v := range extra {
				p[k] = v
			}
			return p
		}

		// ---- derivation: pure, sizes, marshal round trip
		k, problem := c01Derive(sch, kseed)
		r.Eval(1)
		if problem != "" {
			rep.viol("derive-failed", "seed", kcase, payload(nil), "key seed %x: %s", kseed, problem)
			return
		}
		reps := c01Reps(s.tag)
		differing := 0
		for i := 1; i < reps; i++ {
			k2, problem := c01Derive(sch, kseed)
			r.Eval(1)
			if problem != "" {
				rep.viol("derive-failed", "seed", kcase, payload(nil), "derivation #%d from key seed %x: %s", i, kseed, problem)
				return
			}
			if !bytes.Equal(k2.pkb, k.pkb) || !bytes.Equal(k2.skb, k.skb) {
				differing++
				continue
			}
			if !k2.pk.Equal(k.pk) || !k.pk.Equal(k2.pk) || !k2.sk.Equal(k.sk) || !k.sk.Equal(k2.sk) {
				rep.viol("derive-not-equal", "seed", kcase, payload(nil),
					"two derivations from key seed %x marshal identically but Equal reports false", kseed)
			}
		}
		r.Count("derivations_repeated", reps-1)
		if differing > 0 {
			rep.viol("derive-impure", "seed", kcase, payload(map[string]interface{}{"repetitions": reps, "differing": differing}),
				"DeriveKeyPair is not a function of the seed: %d of %d repeated derivations from key seed %x gave a different key pair", differing, reps-1, kseed)
			return
		}
		if len(k.pkb) != sch.PublicKeySize() || len(k.skb) != sch.PrivateKeySize() {
			rep.viol("size", "keys", kcase, payload(nil), "marshalled key sizes pk=%d sk=%d, advertised %d / %d",
				len(k.pkb), len(k.skb), sch.PublicKeySize(), sch.PrivateKeySize())
		}
		if len(k.skb) != m.SKSize() || sch.CiphertextSize() != m.CTSize() || sch.SharedKeySize() != m.SSSize() {
			rep.viol("size", "model", kcase, payload(nil), "sizes sk=%d ct=%d ss=%d differ from the specification's %d / %d / %d",
				len(k.skb), sch.CiphertextSize(), sch.SharedKeySize(), m.SKSize(), m.CTSize(), m.SSSize())
			return
		}
		// restored keys: Equal both ways, re-marshal to the same bytes
		for _, x := range []struct {
			what string
			ok   func() bool
		}{
			{"UnmarshalBinaryPublicKey(pk bytes) is not Equal to pk", func() bool { return k.pk2.Equal(k.pk) && k.pk.Equal(k.pk2) }},
			{"UnmarshalBinaryPrivateKey(sk bytes) is not Equal to sk", func() bool { return k.sk2.Equal(k.sk) && k.sk.Equal(k.sk2) }},
			{"restored public key marshals differently", func() bool { b, err := k.pk2.MarshalBinary(); return err == nil && bytes.Equal(b, k.pkb) }},
			{"restored private key marshals differently", func() bool { b, err := k.sk2.MarshalBinary(); return err == nil && bytes.Equal(b, k.skb) }},
			{"sk.Public() differs from the derived public key", func() bool {
				p := k.sk.Public()
				b, err := p.MarshalBinary()
				return err == nil && bytes.Equal(b, k.pkb) && p.Equal(k.pk) && k.pk.Equal(p)
			}},
			{"restored sk.Public() differs from the derived public key", func() bool {
				p := k.sk2.Public()
				b, err := p.MarshalBinary()
				return err == nil && bytes.Equal(b, k.pkb) && p.Equal(k.pk)
			}},
		} {
			ok := false
			if p, what := verifmc.Try(func() { ok = x.ok() }); p {
				rep.viol("panic", "marshal-roundtrip", kcase, payload(nil), "%s: panic %s", x.what, what)
			} else if !ok {
				rep.viol("marshal-roundtrip", "keys", kcase, payload(nil), "key seed %x: %s", kseed, x.what)
			}
		}
		mu.Lock()
		if prev, dup := pkSeen[s.tag+string(k.pkb)]; dup && prev != kcase {
			r.Count("public_keys_shared_by_two_seeds", 1)
		}
		pkSeen[s.tag+string(k.pkb)] = kcase
		mu.Unlock()

		// ---- encapsulation / decapsulation
		eseeds := c01Take(verifmc.Seeds(sch.EncapsulationSeedSize(), r.Seed()), ne)
		seenCT := map[string]int{}
		for ei, eseed := range eseeds {
			ecase := fmt.Sprintf("%s/e%d", kcase, ei)
			if r.Replaying() && r.ReplayCase() != ecase && r.ReplayCase() != kcase {
				continue
			}
			pl := payload(map[string]interface{}{"enc_seed": verifmc.FullHex(eseed)})
			enc := c01Encaps(sch, k.pk, eseed)
			r.Eval(1)
			if enc.failed() {
				rep.viol("encaps-failed", "seed", ecase, pl, "EncapsulateDeterministically(key seed %x, enc seed %x): %s", kseed, eseed, enc)
				continue
			}
			if len(enc.ct) != sch.CiphertextSize() || len(enc.ss) != sch.SharedKeySize() {
				rep.viol("size", "encaps", ecase, pl, "ct=%d ss=%d bytes, advertised %d / %d", len(enc.ct), len(enc.ss), sch.CiphertextSize(), sch.SharedKeySize())
				continue
			}
			ereps := 2
			if reps > 3 {
				ereps = reps
			}
			impure := 0
			for i := 1; i < ereps; i++ {
				if e2 := c01Encaps(sch, k.pk, eseed); !e2.same(enc) {
					impure++
				}
				r.Eval(1)
			}
			if impure > 0 {
				rep.viol("encaps-impure", "seed", ecase, pl, "EncapsulateDeterministically is not a function of (pk, seed): %d of %d repetitions differ", impure, ereps-1)
				continue
			}
			for _, x := range []struct {
				what string
				res  c01Res
			}{
				{"encapsulation to the restored public key", c01Encaps(sch, k.pk2, eseed)},
				{"encapsulation to sk.Public()", c01Encaps(sch, k.sk.Public(), eseed)},
			} {
				r.Eval(1)
				if !x.res.same(enc) {
					rep.viol("marshal-roundtrip", "encaps", ecase, pl, "%s differs: %s, want %s", x.what, x.res, enc)
				}
			}
			for _, x := range []struct {
				what, class string
				res         c01Res
			}{
				{"Decapsulate(sk, ct)", "roundtrip", c01Decaps(sch, k.sk, c01Clone(enc.ct))},
				{"Decapsulate(sk, ct) repeated", "decaps-impure", c01Decaps(sch, k.sk, c01Clone(enc.ct))},
				{"Decapsulate(restored sk, ct)", "marshal-roundtrip", c01Decaps(sch, k.sk2, c01Clone(enc.ct))},
			} {
				r.Eval(1)
				if x.res.failed() || !bytes.Equal(x.res.ss, enc.ss) {
					rep.viol(x.class, "honest", ecase, pl, "%s = %s, encapsulated secret %x (key seed %x, enc seed %x)", x.what, x.res, enc.ss, kseed, eseed)
				}
			}
			// the specification model agrees on the honest path (this also binds the model's key layout)
			if m.Parts[0].Label() == "FrodoKEM-640-SHAKE" {
				if want := c01kem.FrodoHonestSS(k.pkb, eseed, enc.ct); !bytes.Equal(want, enc.ss) {
					rep.viol("model-differs", "honest", ecase, pl, "secret %x, FrodoKEM specification SHAKE128(ct||k) gives %x", enc.ss, want)
				}
			} else if want, fail := m.Full(k.skb, enc.ct); fail || !bytes.Equal(want, enc.ss) {
				rep.viol("model-differs", "honest", ecase, pl, "secret %x, specification model gives %x (fail=%v)", enc.ss, want, fail)
			}
			r.Count("model_agreed_on_honest_ciphertext", 1)
			seenCT[string(enc.ct)]++
			r.Distinct(s.tag, j.ki, ei)
			if ji == 0 && ei == 0 {
				r.Sample(map[string]interface{}{"scheme": s.tag, "key_seed": verifmc.Hex(kseed), "enc_seed": verifmc.Hex(eseed),
					"ct": verifmc.Hex(enc.ct), "ss": verifmc.Hex(enc.ss)})
			}
		}
		r.Count("distinct_ciphertexts", len(seenCT))
	})
	r.RequireCounter("model_agreed_on_honest_ciphertext", int64(len(all)))
	r.RequireCounter("derivations_repeated", 64)
}
