//go:build verif

package circl_test

// C10: no byte string makes a parser, verifier, opener or decapsulator panic.
//
// Registry of untrusted-bytes entry points of the public API (files zz_verif_c10_rows_*),
// run by the c10kit supervisor: every case executes in a worker child process of this test
// binary, so panics are recovered and fatal errors / hangs are attributed to their case.

import (
	"errors"
	"os"
	"reflect"
	"strings"
	"testing"

	"github.com/cloudflare/circl/internal/verifmc"
	kit "github.com/cloudflare/circl/internal/verifref/c10kit"
)

var errC10False = errors.New("returned false")

var c10Msg = []byte("verif C10 message")

func c10Bool(ok bool) error {
	if ok {
		return nil
	}
	return errC10False
}

// c10TypeID returns "<pkg path relative to the module>.<type name>" of a value (pointers removed).
func c10TypeID(v interface{}) string {
	t := reflect.TypeOf(v)
	for t.Kind() == reflect.Ptr {
		t = t.Elem()
	}
	p := strings.TrimPrefix(t.PkgPath(), "github.com/cloudflare/circl/")
	n := t.Name()
	if i := strings.IndexByte(n, '['); i >= 0 {
		n = n[:i]
	}
	return p + "." + n
}

func c10Shake(label string, n int) []byte { return verifmc.Shake("c10/"+label, n) }

func c10Must(err error) {
	if err != nil {
		panic("c10 setup: " + err.Error())
	}
}

// c10Units maps unit name -> row table constructor. The tables are pure data + lazy Setup
// closures, so supervisor and workers build identical ones.
var c10Units = map[string]func() []*kit.Row{}

func c10AllRows() []*kit.Row {
	var all []*kit.Row
	for _, u := range c10UnitOrder {
		all = append(all, c10Units[u]()...)
	}
	return all
}

var c10UnitOrder []string

func c10Register(unit string, f func() []*kit.Row) {
	c10Units[unit] = f
	c10UnitOrder = append(c10UnitOrder, unit)
}

// TestC10Worker is the child-process side; it does nothing unless started by a supervisor.
func TestC10Worker(t *testing.T) {
	unit := os.Getenv("VERIF_C10_CHILD")
	if unit == "" {
		t.Skip("worker side of TestVerifC10_*")
	}
	f := c10Units[unit]
	if f == nil {
		t.Fatalf("unknown unit %q", unit)
	}
	kit.WorkerMain(t, f())
}

func c10Run(t *testing.T, unit string) {
	t.Parallel() // units overlap: each has its own worker pool, the tail of one unit is filled by the others
	kit.RunUnit(t, unit, "TestC10Worker", c10Units[unit]())
}
