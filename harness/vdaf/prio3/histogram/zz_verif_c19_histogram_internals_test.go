//go:build verif

package histogram

// C19, internals-only part for this type: the malicious-client unit. It is the ONLY C19 file of this
// package that names unexported identifiers (flpHistogram and its constructor): the client is the package's own
// FLP with nothing but Encode replaced, so the real Prove and the real sharding code run on an arbitrary
// encoded measurement. If a refactoring renames those identifiers the driver leaves this file out and
// the exported-API units (zz_verif_c19_histogram_test.go, package histogram_test) still run. Self-contained on purpose.

import (
	"fmt"
	"testing"

	"github.com/cloudflare/circl/internal/verifmc"
	"github.com/cloudflare/circl/internal/verifref/prio"
	"github.com/cloudflare/circl/vdaf/prio3/internal/prio3"
	"github.com/cloudflare/circl/vdaf/prio3/internal/verifc19"
)

// c19Evil shares an arbitrary encoded measurement with the real proof system.
type c19Evil struct{ *flpHistogram }

func (c19Evil) Encode(v Vec) (Vec, error) { return append(Vec{}, v...), nil }

func c19Sys() *verifc19.Sys[uint64, []uint64, Vec, Fp] {
	return &verifc19.Sys[uint64, []uint64, Vec, Fp]{
		Make: func(i prio.Inst, n uint8) (verifc19.VDAF[uint64, []uint64, Vec, Fp], error) {
			h, err := New(n, i.Length, i.Chunk, verifc19.Ctx)
			if err != nil {
				return nil, err
			}
			if h == nil {
				return nil, fmt.Errorf("New returned nil without an error")
			}
			return h, nil
		},
		MakeEvil: func(i prio.Inst, n uint8) (verifc19.EvilSharder[Vec, Fp], error) {
			p, err := prio3.New[c19Evil, Vec, []uint64, Vec, Fp, *Fp](c19Evil{newFlpHistogram(i.Length, i.Chunk)}, 4, n, verifc19.Ctx)
			if err != nil {
				return nil, err
			}
			return &p, nil
		},
		ToM:   func(m []uint64) uint64 { return m[0] },
		FromA: func(a *[]uint64) []uint64 { return *a },
		Order: new(Fp).Order(),
	}
}

func c19H(length, chunk uint) prio.Inst {
	return prio.Inst{Kind: prio.Histogram, Length: length, Chunk: chunk}
}

func TestVerifC19_histogram_malicious(t *testing.T) {
	verifc19.SkipNarrow(t)
	r := verifmc.Start(t, "C19", "histogram_malicious")
	defer r.Finish()
	plan := verifc19.InvalidPlan{
		Insts: []prio.Inst{
			c19H(1, 1), c19H(2, 1), c19H(2, 2),
			c19H(4, 1), c19H(4, 2), c19H(4, 3), c19H(4, 4), c19H(4, 5),
			c19H(6, 4),
		},
		Shares:     []int{2, 3},
		Seeds:      r.Pick(2, 3),
		ProductCap: r.Pick(4096, 65536),
		SetLimit:   4096,
	}
	if r.Thorough() {
		plan.Insts = append(plan.Insts, c19H(8, 3), c19H(100, 10))
		plan.AltLight = []prio.Inst{c19H(100, 10)}
		plan.Shares = []int{2, 3, 9}
	}
	c19Sys().UnitMalicious(r, t, plan)
}
