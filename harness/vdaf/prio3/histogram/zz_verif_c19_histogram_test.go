//go:build verif

package histogram_test

// C19, exported-API units (package histogram_test: the compiler guarantees nothing unexported is named) for Prio3Histogram. Generic machinery: vdaf/prio3/internal/verifc19 (overlay only); oracles: verifref/prio.

import (
	"fmt"
	"testing"

	"github.com/cloudflare/circl/internal/verifmc"
	"github.com/cloudflare/circl/internal/verifref/prio"
	"github.com/cloudflare/circl/vdaf/prio3/histogram"
	"github.com/cloudflare/circl/vdaf/prio3/internal/verifc19"
)

func c19Sys() *verifc19.Sys[uint64, []uint64, histogram.Vec, histogram.Fp] {
	return &verifc19.Sys[uint64, []uint64, histogram.Vec, histogram.Fp]{
		Make: func(i prio.Inst, n uint8) (verifc19.VDAF[uint64, []uint64, histogram.Vec, histogram.Fp], error) {
			h, err := histogram.New(n, i.Length, i.Chunk, verifc19.Ctx)
			if err != nil {
				return nil, err
			}
			if h == nil {
				return nil, fmt.Errorf("New returned nil without an error")
			}
			return h, nil
		},
		ToM:   func(m []uint64) uint64 { return m[0] },
		FromA: func(a *[]uint64) []uint64 { return *a },
		Order: new(histogram.Fp).Order(),
	}
}

func c19H(length, chunk uint) prio.Inst {
	return prio.Inst{Kind: prio.Histogram, Length: length, Chunk: chunk}
}

func TestVerifC19_histogram_ctor(t *testing.T) {
	r := verifmc.Start(t, "C19", "histogram_ctor")
	defer r.Finish()
	var insts []prio.Inst
	for _, l := range []uint{5, 1, 2, 0, 100} {
		for _, c := range []uint{0, 1, 2, 5, 6, 101} {
			insts = append(insts, c19H(l, c))
		}
	}
	c19Sys().UnitCtor(r, insts, []int{2, 3, 255, 0, 1})
}

func TestVerifC19_histogram_agg(t *testing.T) {
	r := verifmc.Start(t, "C19", "histogram_agg")
	defer r.Finish()
	plan := verifc19.AggPlan{
		Insts: []prio.Inst{
			c19H(1, 1), c19H(2, 1), c19H(2, 3),
			c19H(4, 1), c19H(4, 2), c19H(4, 3), c19H(4, 4), c19H(4, 5),
			c19H(8, 3), c19H(100, 10),
		},
		FullShares:    []int{2, 3},
		LightShares:   []int{4, 8, 9, 255},
		MaxBatch:      3,
		RTMaxBatch:    2,
		Seeds:         r.Pick(2, 5),
		DomainLimit:   8,
		SweepInsts:    []prio.Inst{c19H(4, 2)},
		HistoryInsts:  []prio.Inst{c19H(4, 2), c19H(2, 1)},
		HistoryShares: []int{2, 3},
	}
	if r.Thorough() {
		plan.FullShares = []int{2, 3, 4, 9}
		plan.LightShares = []int{5, 8, 16, 128, 254, 255}
		plan.MaxBatch = 4
	}
	c19Sys().UnitAgg(r, t, plan)
}

func TestVerifC19_histogram_invalid(t *testing.T) {
	verifc19.SkipNarrow(t)
	r := verifmc.Start(t, "C19", "histogram_invalid")
	defer r.Finish()
	plan := verifc19.InvalidPlan{
		Insts: []prio.Inst{
			c19H(1, 1), c19H(2, 1), c19H(2, 2),
			c19H(4, 1), c19H(4, 2), c19H(4, 3), c19H(4, 4), c19H(4, 5),
			c19H(6, 4),
		},
		Shares:     []int{2, 3},
		Seeds:      r.Pick(2, 3),
		ProductCap: r.Pick(4096, 65536),
		SetLimit:   4096,
	}
	if r.Thorough() {
		plan.Insts = append(plan.Insts, c19H(8, 3), c19H(100, 10))
		plan.AltLight = []prio.Inst{c19H(100, 10)}
		plan.Shares = []int{2, 3, 9}
	}
	c19Sys().UnitInvalid(r, t, plan)
}

func TestVerifC19_histogram_codec(t *testing.T) {
	r := verifmc.Start(t, "C19", "histogram_codec")
	defer r.Finish()
	c19Sys().UnitCodec(r, t, []prio.Inst{c19H(2, 1), c19H(4, 2), c19H(6, 4)}, []int{2, 3})
}
