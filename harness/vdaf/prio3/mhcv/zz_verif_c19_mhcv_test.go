//go:build verif

package mhcv_test

// C19, exported-API units (package mhcv_test: the compiler guarantees nothing unexported is named) for Prio3MultihotCountVec. Generic machinery: vdaf/prio3/internal/verifc19 (overlay only); oracles: verifref/prio.

import (
	"fmt"
	"testing"

	"github.com/cloudflare/circl/internal/verifmc"
	"github.com/cloudflare/circl/internal/verifref/prio"
	"github.com/cloudflare/circl/vdaf/prio3/internal/verifc19"
	"github.com/cloudflare/circl/vdaf/prio3/mhcv"
)

func c19Sys() *verifc19.Sys[[]bool, []uint64, mhcv.Vec, mhcv.Fp] {
	return &verifc19.Sys[[]bool, []uint64, mhcv.Vec, mhcv.Fp]{
		Make: func(i prio.Inst, n uint8) (verifc19.VDAF[[]bool, []uint64, mhcv.Vec, mhcv.Fp], error) {
			m, err := mhcv.New(n, i.Length, i.MaxWeight, i.Chunk, verifc19.Ctx)
			if err != nil {
				return nil, err
			}
			if m == nil {
				return nil, fmt.Errorf("New returned nil without an error")
			}
			return m, nil
		},
		ToM: func(m []uint64) []bool {
			b := make([]bool, len(m))
			for k := range m {
				b[k] = m[k] == 1
			}
			return b
		},
		FromA: func(a *[]uint64) []uint64 { return *a },
		Order: new(mhcv.Fp).Order(),
	}
}

func c19M(length, maxWeight, chunk uint) prio.Inst {
	return prio.Inst{Kind: prio.MultihotCountVec, Length: length, MaxWeight: maxWeight, Chunk: chunk}
}

func TestVerifC19_mhcv_ctor(t *testing.T) {
	r := verifmc.Start(t, "C19", "mhcv_ctor")
	defer r.Finish()
	var insts []prio.Inst
	for _, l := range []uint{5, 1, 2, 0} {
		for _, w := range []uint{0, 1, 2, 5, 6} {
			for _, c := range []uint{0, 1, 2, 5, 9} {
				insts = append(insts, c19M(l, w, c))
			}
		}
	}
	c19Sys().UnitCtor(r, insts, []int{2, 3, 255, 0, 1})
}

func TestVerifC19_mhcv_agg(t *testing.T) {
	r := verifmc.Start(t, "C19", "mhcv_agg")
	defer r.Finish()
	plan := verifc19.AggPlan{
		Insts: []prio.Inst{
			c19M(1, 1, 1), c19M(2, 1, 1), c19M(2, 2, 3),
			c19M(3, 1, 2), c19M(3, 2, 1), c19M(3, 2, 2), c19M(3, 2, 5), c19M(3, 2, 6), c19M(3, 3, 2),
			c19M(4, 2, 1), c19M(4, 2, 2), c19M(4, 4, 3), c19M(10, 2, 3),
		},
		FullShares:    []int{2, 3},
		LightShares:   []int{4, 8, 9, 255},
		MaxBatch:      3,
		RTMaxBatch:    2,
		Seeds:         r.Pick(2, 5),
		DomainLimit:   8,
		SweepInsts:    []prio.Inst{c19M(3, 2, 2)},
		HistoryInsts:  []prio.Inst{c19M(3, 2, 2), c19M(2, 1, 1)},
		HistoryShares: []int{2, 3},
	}
	if r.Thorough() {
		plan.FullShares = []int{2, 3, 4, 9}
		plan.LightShares = []int{5, 8, 16, 128, 254, 255}
	}
	c19Sys().UnitAgg(r, t, plan)
}

func TestVerifC19_mhcv_invalid(t *testing.T) {
	verifc19.SkipNarrow(t)
	r := verifmc.Start(t, "C19", "mhcv_invalid")
	defer r.Finish()
	plan := verifc19.InvalidPlan{
		Insts: []prio.Inst{
			c19M(1, 1, 1), c19M(2, 1, 1), c19M(2, 2, 3),
			c19M(3, 1, 2), c19M(3, 2, 1), c19M(3, 2, 2), c19M(3, 2, 5), c19M(3, 2, 6), c19M(3, 3, 2),
			c19M(4, 2, 3),
		},
		Shares:     []int{2, 3},
		Seeds:      r.Pick(2, 3),
		ProductCap: r.Pick(4096, 65536),
		SetLimit:   4096,
	}
	if r.Thorough() {
		plan.Insts = append(plan.Insts, c19M(4, 4, 3), c19M(10, 2, 3))
		plan.Shares = []int{2, 3, 9}
	}
	c19Sys().UnitInvalid(r, t, plan)
}

func TestVerifC19_mhcv_codec(t *testing.T) {
	r := verifmc.Start(t, "C19", "mhcv_codec")
	defer r.Finish()
	c19Sys().UnitCodec(r, t, []prio.Inst{c19M(2, 1, 1), c19M(3, 2, 2), c19M(4, 2, 3)}, []int{2, 3})
}
