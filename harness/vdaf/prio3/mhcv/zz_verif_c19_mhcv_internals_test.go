//go:build verif

package mhcv

// C19, internals-only part for this type: the malicious-client unit. It is the ONLY C19 file of this
// package that names unexported identifiers (flpMultiHotCountVec and its constructor): the client is the package's own
// FLP with nothing but Encode replaced, so the real Prove and the real sharding code run on an arbitrary
// encoded measurement. If a refactoring renames those identifiers the driver leaves this file out and
// the exported-API units (zz_verif_c19_mhcv_test.go, package mhcv_test) still run. Self-contained on purpose.

import (
	"fmt"
	"testing"

	"github.com/cloudflare/circl/internal/verifmc"
	"github.com/cloudflare/circl/internal/verifref/prio"
	"github.com/cloudflare/circl/vdaf/prio3/internal/prio3"
	"github.com/cloudflare/circl/vdaf/prio3/internal/verifc19"
)

// c19Evil shares an arbitrary encoded measurement with the real proof system.
type c19Evil struct{ *flpMultiHotCountVec }

func (c19Evil) Encode(v Vec) (Vec, error) { return append(Vec{}, v...), nil }

func c19Sys() *verifc19.Sys[[]bool, []uint64, Vec, Fp] {
	return &verifc19.Sys[[]bool, []uint64, Vec, Fp]{
		Make: func(i prio.Inst, n uint8) (verifc19.VDAF[[]bool, []uint64, Vec, Fp], error) {
			m, err := New(n, i.Length, i.MaxWeight, i.Chunk, verifc19.Ctx)
			if err != nil {
				return nil, err
			}
			if m == nil {
				return nil, fmt.Errorf("New returned nil without an error")
			}
			return m, nil
		},
		MakeEvil: func(i prio.Inst, n uint8) (verifc19.EvilSharder[Vec, Fp], error) {
			f, err := newFlpMultiCountHotVec(i.Length, i.MaxWeight, i.Chunk)
			if err != nil {
				return nil, err
			}
			p, err := prio3.New[c19Evil, Vec, []uint64, Vec, Fp, *Fp](c19Evil{f}, 5, n, verifc19.Ctx)
			if err != nil {
				return nil, err
			}
			return &p, nil
		},
		ToM: func(m []uint64) []bool {
			b := make([]bool, len(m))
			for k := range m {
				b[k] = m[k] == 1
			}
			return b
		},
		FromA: func(a *[]uint64) []uint64 { return *a },
		Order: new(Fp).Order(),
	}
}

func c19M(length, maxWeight, chunk uint) prio.Inst {
	return prio.Inst{Kind: prio.MultihotCountVec, Length: length, MaxWeight: maxWeight, Chunk: chunk}
}

func TestVerifC19_mhcv_malicious(t *testing.T) {
	verifc19.SkipNarrow(t)
	r := verifmc.Start(t, "C19", "mhcv_malicious")
	defer r.Finish()
	plan := verifc19.InvalidPlan{
		Insts: []prio.Inst{
			c19M(1, 1, 1), c19M(2, 1, 1), c19M(2, 2, 3),
			c19M(3, 1, 2), c19M(3, 2, 1), c19M(3, 2, 2), c19M(3, 2, 5), c19M(3, 2, 6), c19M(3, 3, 2),
			c19M(4, 2, 3),
		},
		Shares:     []int{2, 3},
		Seeds:      r.Pick(2, 3),
		ProductCap: r.Pick(4096, 65536),
		SetLimit:   4096,
	}
	if r.Thorough() {
		plan.Insts = append(plan.Insts, c19M(4, 4, 3), c19M(10, 2, 3))
		plan.Shares = []int{2, 3, 9}
	}
	c19Sys().UnitMalicious(r, t, plan)
}
