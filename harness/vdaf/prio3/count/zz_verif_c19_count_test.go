//go:build verif

package count_test

// C19, exported-API units (package count_test: the compiler guarantees nothing unexported is named) for Prio3Count. Generic machinery: vdaf/prio3/internal/verifc19 (overlay only); oracles: verifref/prio.

import (
	"fmt"
	"testing"

	"github.com/cloudflare/circl/internal/verifmc"
	"github.com/cloudflare/circl/internal/verifref/prio"
	"github.com/cloudflare/circl/vdaf/prio3/count"
	"github.com/cloudflare/circl/vdaf/prio3/internal/verifc19"
)

func c19Sys() *verifc19.Sys[bool, uint64, count.Vec, count.Fp] {
	return &verifc19.Sys[bool, uint64, count.Vec, count.Fp]{
		Make: func(i prio.Inst, n uint8) (verifc19.VDAF[bool, uint64, count.Vec, count.Fp], error) {
			c, err := count.New(n, verifc19.Ctx)
			if err != nil {
				return nil, err
			}
			if c == nil {
				return nil, fmt.Errorf("New returned nil without an error")
			}
			return c, nil
		},
		ToM:   func(m []uint64) bool { return m[0] == 1 },
		FromA: func(a *uint64) []uint64 { return []uint64{*a} },
		Order: count.Fp{}.Order(),
	}
}

var c19Inst = prio.Inst{Kind: prio.Count}

func TestVerifC19_count_ctor(t *testing.T) {
	r := verifmc.Start(t, "C19", "count_ctor")
	defer r.Finish()
	c19Sys().UnitCtor(r, []prio.Inst{c19Inst}, []int{2, 3, 4, 8, 9, 16, 128, 254, 255, 0, 1})
}

func TestVerifC19_count_agg(t *testing.T) {
	r := verifmc.Start(t, "C19", "count_agg")
	defer r.Finish()
	plan := verifc19.AggPlan{
		Insts:         []prio.Inst{c19Inst},
		FullShares:    []int{2, 3, 4, 8, 9},
		LightShares:   []int{5, 16, 128, 254, 255},
		MaxBatch:      r.Pick(5, 8),
		RTMaxBatch:    2,
		Seeds:         5,
		DomainLimit:   8,
		SweepInsts:    []prio.Inst{c19Inst},
		HistoryInsts:  []prio.Inst{c19Inst},
		HistoryShares: []int{2, 3},
	}
	if r.Thorough() {
		plan.FullShares = []int{2, 3, 4, 5, 6, 7, 8, 9, 10, 255}
		plan.LightShares = []int{16, 128, 254}
	}
	c19Sys().UnitAgg(r, t, plan)
}

func TestVerifC19_count_invalid(t *testing.T) {
	verifc19.SkipNarrow(t)
	r := verifmc.Start(t, "C19", "count_invalid")
	defer r.Finish()
	plan := verifc19.InvalidPlan{
		Insts:      []prio.Inst{c19Inst},
		Shares:     []int{2, 3, 9},
		Seeds:      5,
		ProductCap: 4096,
		SetLimit:   4096,
	}
	if r.Thorough() {
		plan.Shares = []int{2, 3, 4, 8, 9, 255}
	}
	c19Sys().UnitInvalid(r, t, plan)
}

func TestVerifC19_count_codec(t *testing.T) {
	r := verifmc.Start(t, "C19", "count_codec")
	defer r.Finish()
	c19Sys().UnitCodec(r, t, []prio.Inst{c19Inst}, []int{2, 3})
}
