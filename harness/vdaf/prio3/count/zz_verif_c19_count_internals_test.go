//go:build verif

package count

// C19, internals-only part for this type: the malicious-client unit. It is the ONLY C19 file of this
// package that names unexported identifiers (flpCount and its constructor): the client is the package's own
// FLP with nothing but Encode replaced, so the real Prove and the real sharding code run on an arbitrary
// encoded measurement. If a refactoring renames those identifiers the driver leaves this file out and
// the exported-API units (zz_verif_c19_count_test.go, package count_test) still run. Self-contained on purpose.

import (
	"fmt"
	"testing"

	"github.com/cloudflare/circl/internal/verifmc"
	"github.com/cloudflare/circl/internal/verifref/prio"
	"github.com/cloudflare/circl/vdaf/prio3/internal/prio3"
	"github.com/cloudflare/circl/vdaf/prio3/internal/verifc19"
)

// c19Evil shares an arbitrary encoded measurement with the real proof system.
type c19Evil struct{ *flpCount }

func (c19Evil) Encode(v Vec) (Vec, error) { return append(Vec{}, v...), nil }

func c19Sys() *verifc19.Sys[bool, uint64, Vec, Fp] {
	return &verifc19.Sys[bool, uint64, Vec, Fp]{
		Make: func(i prio.Inst, n uint8) (verifc19.VDAF[bool, uint64, Vec, Fp], error) {
			c, err := New(n, verifc19.Ctx)
			if err != nil {
				return nil, err
			}
			if c == nil {
				return nil, fmt.Errorf("New returned nil without an error")
			}
			return c, nil
		},
		MakeEvil: func(i prio.Inst, n uint8) (verifc19.EvilSharder[Vec, Fp], error) {
			p, err := prio3.New[c19Evil, Vec, uint64, Vec, Fp, *Fp](c19Evil{newFlpCount()}, 1, n, verifc19.Ctx)
			if err != nil {
				return nil, err
			}
			return &p, nil
		},
		ToM:   func(m []uint64) bool { return m[0] == 1 },
		FromA: func(a *uint64) []uint64 { return []uint64{*a} },
		Order: Fp{}.Order(),
	}
}

var c19Inst = prio.Inst{Kind: prio.Count}

func TestVerifC19_count_malicious(t *testing.T) {
	verifc19.SkipNarrow(t)
	r := verifmc.Start(t, "C19", "count_malicious")
	defer r.Finish()
	plan := verifc19.InvalidPlan{
		Insts:      []prio.Inst{c19Inst},
		Shares:     []int{2, 3, 9},
		Seeds:      5,
		ProductCap: 4096,
		SetLimit:   4096,
	}
	if r.Thorough() {
		plan.Shares = []int{2, 3, 4, 8, 9, 255}
	}
	c19Sys().UnitMalicious(r, t, plan)
}
