//go:build verif

package sumvec_test

// C19, exported-API units (package sumvec_test: the compiler guarantees nothing unexported is named) for Prio3SumVec. Generic machinery: vdaf/prio3/internal/verifc19 (overlay only); oracles: verifref/prio.

import (
	"fmt"
	"testing"

	"github.com/cloudflare/circl/internal/verifmc"
	"github.com/cloudflare/circl/internal/verifref/prio"
	"github.com/cloudflare/circl/vdaf/prio3/internal/verifc19"
	"github.com/cloudflare/circl/vdaf/prio3/sumvec"
)

func c19Sys() *verifc19.Sys[[]uint64, []uint64, sumvec.Vec, sumvec.Fp] {
	return &verifc19.Sys[[]uint64, []uint64, sumvec.Vec, sumvec.Fp]{
		Make: func(i prio.Inst, n uint8) (verifc19.VDAF[[]uint64, []uint64, sumvec.Vec, sumvec.Fp], error) {
			s, err := sumvec.New(n, i.Length, i.Bits, i.Chunk, verifc19.Ctx)
			if err != nil {
				return nil, err
			}
			if s == nil {
				return nil, fmt.Errorf("New returned nil without an error")
			}
			return s, nil
		},
		ToM:   func(m []uint64) []uint64 { return append([]uint64{}, m...) },
		FromA: func(a *[]uint64) []uint64 { return *a },
		Order: new(sumvec.Fp).Order(),
	}
}

func c19SV(length, bits, chunk uint) prio.Inst {
	return prio.Inst{Kind: prio.SumVec, Length: length, Bits: bits, Chunk: chunk}
}

func TestVerifC19_sumvec_ctor(t *testing.T) {
	r := verifmc.Start(t, "C19", "sumvec_ctor")
	defer r.Finish()
	var insts []prio.Inst
	for _, l := range []uint{5, 1, 2, 0} {
		for _, b := range []uint{8, 1, 63, 64, 65, 0} {
			seen := map[uint]bool{}
			for _, c := range []uint{0, 1, 2, l * b, l*b + 1} {
				if !seen[c] {
					seen[c] = true
					insts = append(insts, c19SV(l, b, c))
				}
			}
		}
	}
	c19Sys().UnitCtor(r, insts, []int{2, 3, 255, 0, 1})
}

func TestVerifC19_sumvec_agg(t *testing.T) {
	r := verifmc.Start(t, "C19", "sumvec_agg")
	defer r.Finish()
	plan := verifc19.AggPlan{
		Insts: []prio.Inst{
			c19SV(3, 1, 1), c19SV(3, 1, 2), c19SV(3, 1, 3), c19SV(3, 1, 4),
			c19SV(1, 2, 1), c19SV(1, 3, 2),
			c19SV(3, 2, 1), c19SV(3, 2, 2), c19SV(3, 2, 6), c19SV(3, 2, 7),
			c19SV(2, 64, 11), c19SV(2, 63, 126),
		},
		FullShares:    []int{2, 3},
		LightShares:   []int{4, 8, 9, 255},
		MaxBatch:      3,
		RTMaxBatch:    2,
		Seeds:         r.Pick(2, 5),
		DomainLimit:   8,
		SweepInsts:    []prio.Inst{c19SV(3, 1, 2)},
		HistoryInsts:  []prio.Inst{c19SV(3, 1, 2), c19SV(2, 2, 3)},
		HistoryShares: []int{2, 3},
	}
	if r.Thorough() {
		plan.FullShares = []int{2, 3, 4, 9}
		plan.LightShares = []int{5, 8, 16, 128, 254, 255}
	}
	c19Sys().UnitAgg(r, t, plan)
}

func TestVerifC19_sumvec_invalid(t *testing.T) {
	verifc19.SkipNarrow(t)
	r := verifmc.Start(t, "C19", "sumvec_invalid")
	defer r.Finish()
	plan := verifc19.InvalidPlan{
		Insts: []prio.Inst{
			c19SV(3, 1, 1), c19SV(3, 1, 2), c19SV(3, 1, 4),
			c19SV(2, 2, 1), c19SV(2, 2, 2), c19SV(2, 2, 3), c19SV(2, 2, 4), c19SV(2, 2, 5),
			c19SV(3, 2, 4),
		},
		Shares:     []int{2, 3},
		Seeds:      r.Pick(2, 3),
		ProductCap: r.Pick(4096, 65536),
		SetLimit:   4096,
	}
	if r.Thorough() {
		plan.Insts = append(plan.Insts, c19SV(2, 4, 3), c19SV(2, 64, 11))
		plan.AltLight = []prio.Inst{c19SV(2, 64, 11)}
		plan.Shares = []int{2, 3, 9}
	}
	c19Sys().UnitInvalid(r, t, plan)
}

func TestVerifC19_sumvec_codec(t *testing.T) {
	r := verifmc.Start(t, "C19", "sumvec_codec")
	defer r.Finish()
	c19Sys().UnitCodec(r, t, []prio.Inst{c19SV(3, 1, 2), c19SV(2, 2, 3), c19SV(2, 8, 5)}, []int{2, 3})
}
