//go:build verif

package sum

// C19, internals-only part for this type: the malicious-client unit. It is the ONLY C19 file of this
// package that names unexported identifiers (flpSum and its constructor): the client is the package's own
// FLP with nothing but Encode replaced, so the real Prove and the real sharding code run on an arbitrary
// encoded measurement. If a refactoring renames those identifiers the driver leaves this file out and
// the exported-API units (zz_verif_c19_sum_test.go, package sum_test) still run. Self-contained on purpose.

import (
	"fmt"
	"math/big"
	"testing"

	"github.com/cloudflare/circl/internal/verifmc"
	"github.com/cloudflare/circl/internal/verifref/prio"
	"github.com/cloudflare/circl/vdaf/prio3/internal/prio3"
	"github.com/cloudflare/circl/vdaf/prio3/internal/verifc19"
)

// c19Evil shares an arbitrary encoded measurement with the real proof system.
type c19Evil struct{ *flpSum }

func (c19Evil) Encode(v Vec) (Vec, error) { return append(Vec{}, v...), nil }

func c19Sys() *verifc19.Sys[uint64, uint64, Vec, Fp] {
	return &verifc19.Sys[uint64, uint64, Vec, Fp]{
		Make: func(i prio.Inst, n uint8) (verifc19.VDAF[uint64, uint64, Vec, Fp], error) {
			s, err := New(n, i.Max, verifc19.Ctx)
			if err != nil {
				return nil, err
			}
			if s == nil {
				return nil, fmt.Errorf("New returned nil without an error")
			}
			return s, nil
		},
		MakeEvil: func(i prio.Inst, n uint8) (verifc19.EvilSharder[Vec, Fp], error) {
			f, err := newFlpSum(i.Max)
			if err != nil {
				return nil, err
			}
			p, err := prio3.New[c19Evil, Vec, uint64, Vec, Fp, *Fp](c19Evil{f}, 2, n, verifc19.Ctx)
			if err != nil {
				return nil, err
			}
			return &p, nil
		},
		ToM:   func(m []uint64) uint64 { return m[0] },
		FromA: func(a *uint64) []uint64 { return []uint64{*a} },
		Order: Fp{}.Order(),
	}
}

func c19Sum(max uint64) prio.Inst { return prio.Inst{Kind: prio.Sum, Max: max} }

func TestVerifC19_sum_ctor(t *testing.T) {
	r := verifmc.Start(t, "C19", "sum_ctor")
	defer r.Finish()
	s := c19Sys()
	p := prio.F64.P.Uint64()
	var insts []prio.Inst
	for _, m := range []uint64{0, 1, 2, 3, 255, 256, 1 << 32, 1<<63 - 2, 1<<63 - 1, 1 << 63, 1<<63 + 1, p - 1, p, p + 1, 1<<64 - 2, 1<<64 - 1} {
		insts = append(insts, c19Sum(m))
	}
	s.UnitCtor(r, insts, []int{2, 3, 255, 0, 1})

	// Consequence of an accepted bound with 2^bits >= modulus, shown on the real code: a measurement
	// above the bound is accepted. Only runs while the constructor accepts such a bound.
	for _, max := range []uint64{1 << 63, p - 1} {
		inst := c19Sum(max)
		caseID := fmt.Sprintf("wrap|%s", inst)
		if !r.Want(caseID) {
			continue
		}
		var v verifc19.VDAF[uint64, uint64, Vec, Fp]
		var ev verifc19.EvilSharder[Vec, Fp]
		var err, err2 error
		if p, _ := verifmc.Try(func() { v, err = s.Make(inst, 2); ev, err2 = s.MakeEvil(inst, 2) }); p || err != nil || err2 != nil {
			r.Count("wrap_demo_skipped_constructor_refuses", 1)
			continue
		}
		r.Eval(1)
		// m' = max+1 is outside [0, max]. Its "offset encoding" b = m' + offset = 2^64 does not fit 64 bits,
		// but 2^64 mod p = 2^32-1 does: encode (bits of m', bits of 2^32-1).
		mPrime := new(big.Int).Add(new(big.Int).SetUint64(max), big.NewInt(1))
		b := new(big.Int).Mod(new(big.Int).Lsh(big.NewInt(1), 64), prio.F64.P)
		var vec []*big.Int
		for k := 0; k < 64; k++ {
			vec = append(vec, big.NewInt(int64(mPrime.Bit(k))))
		}
		for k := 0; k < 64; k++ {
			vec = append(vec, big.NewInt(int64(b.Bit(k))))
		}
		params := v.Params()
		vk, nonce, rnd := verifc19.Material(params.RandSize(), r.Seed(), 3, 0)
		vv := make(Vec, len(vec))
		if err := vv.UnmarshalBinary(prio.F64.EncVec(vec)); err != nil {
			t.Fatal(err)
		}
		var res verifc19.Result[Vec, Fp]
		if p, what := verifmc.Try(func() {
			pub, in, err := ev.Shard(vv, &nonce, rnd)
			if err != nil {
				panic(err)
			}
			res = verifc19.Prepare(v, &vk, &nonce, pub, in, nil, false)
		}); p {
			r.Outcome("wrap-demo:panic:" + verifmc.PanicClass(what))
			continue
		}
		if res.Accepted() {
			r.Violation("C19|Sum.prepare|out-of-range-measurement-accepted|bound with 2^bits >= modulus", caseID,
				fmt.Sprintf("%s: a report encoding the measurement %s > max is accepted by both aggregators (bits of max+offset wrap modulo the field)", inst, mPrime),
				map[string]interface{}{"instance": inst.String(), "measurement": mPrime.String(), "second_half_encodes": b.String()})
		} else {
			r.Outcome("wrap-demo:rejected:" + res.Where)
		}
	}
}

func TestVerifC19_sum_malicious(t *testing.T) {
	verifc19.SkipNarrow(t)
	r := verifmc.Start(t, "C19", "sum_malicious")
	defer r.Finish()
	plan := verifc19.InvalidPlan{
		Insts:      []prio.Inst{c19Sum(1), c19Sum(2), c19Sum(3), c19Sum(5), c19Sum(7), c19Sum(255)},
		Shares:     []int{2, 3},
		Seeds:      r.Pick(2, 3),
		ProductCap: r.Pick(4096, 65536),
		SetLimit:   4096,
	}
	if r.Thorough() {
		plan.Insts = append(plan.Insts, c19Sum(1<<32), c19Sum(1<<63-1))
		plan.Shares = []int{2, 3, 9}
	}
	c19Sys().UnitMalicious(r, t, plan)
	c19WrapDemo(t, r)
}

// c19WrapDemo shows on the real code what an accepted bound with 2^bits >= modulus leads to.
func c19WrapDemo(t *testing.T, r *verifmc.Run) {
	s := c19Sys()
	p := prio.F64.P.Uint64()
	// Consequence of an accepted bound with 2^bits >= modulus, shown on the real code: a measurement
	// above the bound is accepted. Only runs while the constructor accepts such a bound.
	for _, max := range []uint64{1 << 63, p - 1} {
		inst := c19Sum(max)
		caseID := fmt.Sprintf("wrap|%s", inst)
		if !r.Want(caseID) {
			continue
		}
		var v verifc19.VDAF[uint64, uint64, Vec, Fp]
		var ev verifc19.EvilSharder[Vec, Fp]
		var err, err2 error
		if p, _ := verifmc.Try(func() { v, err = s.Make(inst, 2); ev, err2 = s.MakeEvil(inst, 2) }); p || err != nil || err2 != nil {
			r.Count("wrap_demo_skipped_constructor_refuses", 1)
			continue
		}
		r.Eval(1)
		// m' = max+1 is outside [0, max]. Its "offset encoding" b = m' + offset = 2^64 does not fit 64 bits,
		// but 2^64 mod p = 2^32-1 does: encode (bits of m', bits of 2^32-1).
		mPrime := new(big.Int).Add(new(big.Int).SetUint64(max), big.NewInt(1))
		b := new(big.Int).Mod(new(big.Int).Lsh(big.NewInt(1), 64), prio.F64.P)
		var vec []*big.Int
		for k := 0; k < 64; k++ {
			vec = append(vec, big.NewInt(int64(mPrime.Bit(k))))
		}
		for k := 0; k < 64; k++ {
			vec = append(vec, big.NewInt(int64(b.Bit(k))))
		}
		params := v.Params()
		vk, nonce, rnd := verifc19.Material(params.RandSize(), r.Seed(), 3, 0)
		vv := make(Vec, len(vec))
		if err := vv.UnmarshalBinary(prio.F64.EncVec(vec)); err != nil {
			t.Fatal(err)
		}
		var res verifc19.Result[Vec, Fp]
		if p, what := verifmc.Try(func() {
			pub, in, err := ev.Shard(vv, &nonce, rnd)
			if err != nil {
				panic(err)
			}
			res = verifc19.Prepare(v, &vk, &nonce, pub, in, nil, false)
		}); p {
			r.Outcome("wrap-demo:panic:" + verifmc.PanicClass(what))
			continue
		}
		if res.Accepted() {
			r.Violation("C19|Sum.prepare|out-of-range-measurement-accepted|bound with 2^bits >= modulus", caseID,
				fmt.Sprintf("%s: a report encoding the measurement %s > max is accepted by both aggregators (bits of max+offset wrap modulo the field)", inst, mPrime),
				map[string]interface{}{"instance": inst.String(), "measurement": mPrime.String(), "second_half_encodes": b.String()})
		} else {
			r.Outcome("wrap-demo:rejected:" + res.Where)
		}
	}
}
