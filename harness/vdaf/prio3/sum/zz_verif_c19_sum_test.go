//go:build verif

package sum_test

// C19, exported-API units (package sum_test: the compiler guarantees nothing unexported is named) for Prio3Sum: constructor table, exact aggregates of all small batches,
// single-field alterations, decoder round trips. The generic machinery
// is in vdaf/prio3/internal/verifc19 (overlay only); oracles in verifref/prio.

import (
	"fmt"
	"testing"

	"github.com/cloudflare/circl/internal/verifmc"
	"github.com/cloudflare/circl/internal/verifref/prio"
	"github.com/cloudflare/circl/vdaf/prio3/internal/verifc19"
	"github.com/cloudflare/circl/vdaf/prio3/sum"
)

func c19Sys() *verifc19.Sys[uint64, uint64, sum.Vec, sum.Fp] {
	return &verifc19.Sys[uint64, uint64, sum.Vec, sum.Fp]{
		Make: func(i prio.Inst, n uint8) (verifc19.VDAF[uint64, uint64, sum.Vec, sum.Fp], error) {
			s, err := sum.New(n, i.Max, verifc19.Ctx)
			if err != nil {
				return nil, err
			}
			if s == nil {
				return nil, fmt.Errorf("New returned nil without an error")
			}
			return s, nil
		},
		ToM:   func(m []uint64) uint64 { return m[0] },
		FromA: func(a *uint64) []uint64 { return []uint64{*a} },
		Order: sum.Fp{}.Order(),
	}
}

func c19Sum(max uint64) prio.Inst { return prio.Inst{Kind: prio.Sum, Max: max} }

func TestVerifC19_sum_ctor(t *testing.T) {
	r := verifmc.Start(t, "C19", "sum_ctor")
	defer r.Finish()
	s := c19Sys()
	p := prio.F64.P.Uint64()
	var insts []prio.Inst
	for _, m := range []uint64{0, 1, 2, 3, 255, 256, 1 << 32, 1<<63 - 2, 1<<63 - 1, 1 << 63, 1<<63 + 1, p - 1, p, p + 1, 1<<64 - 2, 1<<64 - 1} {
		insts = append(insts, c19Sum(m))
	}
	s.UnitCtor(r, insts, []int{2, 3, 255, 0, 1})

}

func TestVerifC19_sum_agg(t *testing.T) {
	r := verifmc.Start(t, "C19", "sum_agg")
	defer r.Finish()
	plan := verifc19.AggPlan{
		Insts:         []prio.Inst{c19Sum(1), c19Sum(2), c19Sum(3), c19Sum(6), c19Sum(7), c19Sum(255), c19Sum(1 << 32), c19Sum(1<<63 - 1)},
		FullShares:    []int{2, 3},
		LightShares:   []int{4, 8, 9, 255},
		MaxBatch:      r.Pick(3, 4),
		RTMaxBatch:    2,
		Seeds:         r.Pick(3, 5),
		DomainLimit:   8,
		SweepInsts:    []prio.Inst{c19Sum(2), c19Sum(3)},
		HistoryInsts:  []prio.Inst{c19Sum(2), c19Sum(1000)},
		HistoryShares: []int{2, 3},
	}
	if r.Thorough() {
		plan.FullShares = []int{2, 3, 4, 9}
		plan.LightShares = []int{5, 8, 16, 128, 254, 255}
	}
	c19Sys().UnitAgg(r, t, plan)
}

func TestVerifC19_sum_invalid(t *testing.T) {
	verifc19.SkipNarrow(t)
	r := verifmc.Start(t, "C19", "sum_invalid")
	defer r.Finish()
	plan := verifc19.InvalidPlan{
		Insts:      []prio.Inst{c19Sum(1), c19Sum(2), c19Sum(3), c19Sum(5), c19Sum(7), c19Sum(255)},
		Shares:     []int{2, 3},
		Seeds:      r.Pick(2, 3),
		ProductCap: r.Pick(4096, 65536),
		SetLimit:   4096,
	}
	if r.Thorough() {
		plan.Insts = append(plan.Insts, c19Sum(1<<32), c19Sum(1<<63-1))
		plan.Shares = []int{2, 3, 9}
	}
	c19Sys().UnitInvalid(r, t, plan)
}

func TestVerifC19_sum_codec(t *testing.T) {
	r := verifmc.Start(t, "C19", "sum_codec")
	defer r.Finish()
	c19Sys().UnitCodec(r, t, []prio.Inst{c19Sum(2), c19Sum(5), c19Sum(255)}, []int{2, 3})
}
