//go:build verif

// Package verifc19 is the generic driver of the C19 harnesses (Prio3 aggregates
// are exact; invalid reports are rejected). It exists only in the /verif
// overlay. The five per-type test packages (count, sum, sumvec, histogram,
// mhcv) supply constructors and tables; everything else is here:
//
//   - the honest pipeline shard -> prepare at every aggregator -> aggregate ->
//     unshard, optionally passing every protocol message through
//     MarshalBinary/UnmarshalBinary,
//   - a hook that alters exactly one protocol message (on its marshalled form,
//     through the public API) for one or all aggregators,
//   - the malicious-client flow: an encoded measurement that is NOT in the valid
//     set is proved honestly (real Prove, real sharding) and must be rejected,
//   - the constructor table.
//
// Oracles come from verifref/prio (plain integer aggregates, draft-13
// encodings, valid sets, admissibility rules); no circl code is used to decide.
package verifc19

import (
	"bytes"
	"encoding"
	"fmt"
	"math/big"
	"os"
	"sort"
	"strings"
	"sync"
	"time"

	"github.com/cloudflare/circl/internal/verifmc"
	"github.com/cloudflare/circl/internal/verifref/prio"
	"github.com/cloudflare/circl/vdaf/prio3/arith"
	"github.com/cloudflare/circl/vdaf/prio3/internal/prio3"
)

// Ctx is the application context string used by every instance.
var Ctx = []byte("verif-C19 context")

// VDAF is the public API shared by the five Prio3 types.
type VDAF[M, A any, V arith.Vec[V, E], E arith.Elt] interface {
	Params() prio3.Params
	Shard(M, *prio3.Nonce, []byte) (prio3.PublicShare, []prio3.InputShare[V, E], error)
	PrepInit(*prio3.VerifyKey, *prio3.Nonce, uint8, prio3.PublicShare, prio3.InputShare[V, E]) (*prio3.PrepState[V, E], *prio3.PrepShare[V, E], error)
	PrepSharesToPrep([]prio3.PrepShare[V, E]) (*prio3.PrepMessage, error)
	PrepNext(*prio3.PrepState[V, E], *prio3.PrepMessage) (*prio3.OutShare[V, E], error)
	AggregateInit() prio3.AggShare[V, E]
	AggregateUpdate(*prio3.AggShare[V, E], *prio3.OutShare[V, E])
	Unshard([]prio3.AggShare[V, E], uint) (*A, error)
}

// EvilSharder shards an already encoded measurement (any field vector of the
// right length) with the real Prove / real secret sharing: the strongest
// client-side adversary that follows the proof system honestly.
type EvilSharder[V arith.Vec[V, E], E arith.Elt] interface {
	Shard(V, *prio3.Nonce, []byte) (prio3.PublicShare, []prio3.InputShare[V, E], error)
}

// Sys binds one Prio3 type to the driver. Instances are NOT goroutine safe
// (they own a XOF state), so every job makes its own.
type Sys[M, A any, V arith.Vec[V, E], E arith.Elt] struct {
	Make     func(inst prio.Inst, shares uint8) (VDAF[M, A, V, E], error)
	MakeEvil func(inst prio.Inst, shares uint8) (EvilSharder[V, E], error)
	ToM      func([]uint64) M
	FromA    func(*A) []uint64
	// Order is the field modulus as reported by circl (big endian), checked against the reference.
	Order []byte
}

func tag(inst prio.Inst, shares int) string { return fmt.Sprintf("%s/shares=%d", inst, shares) }

// NumSeeds is the size of the seed alphabet (5 fixed, +2 when VERIF_SEED is set).
func NumSeeds(seed int64) int { return len(verifmc.Seeds(1, seed)) }

// Material derives verify key, nonce and sharding randomness of the report at
// position pos of a batch from the seed alphabet entry seedIdx.
func Material(randSize uint, seed int64, seedIdx, pos int) (vk prio3.VerifyKey, nonce prio3.Nonce, rnd []byte) {
	copy(vk[:], seeds(32, seed)[seedIdx])
	copy(nonce[:], seeds(16, seed)[seedIdx])
	nonce[15] ^= byte(pos)
	rnd = append([]byte{}, seeds(int(randSize), seed)[seedIdx]...)
	rnd[0] ^= byte(pos)
	return
}

var seedCache sync.Map // [2]int64{n, seed} -> [][]byte

func seeds(n int, seed int64) [][]byte {
	k := [2]int64{int64(n), seed}
	if v, ok := seedCache.Load(k); ok {
		return v.([][]byte)
	}
	v, _ := seedCache.LoadOrStore(k, verifmc.Seeds(n, seed))
	return v.([][]byte)
}

// Stage names the protocol message an alteration applies to.
type Stage int

const (
	StNonce Stage = iota + 1
	StPub
	StInput
	StPrepShare
	StPrepMsg
)

// Alt alters one marshalled message. Agg < 0: the altered message reaches every aggregator.
type Alt struct {
	Stage Stage
	Agg   int
	Name  string
	F     func([]byte) []byte
}

func (a *Alt) hit(st Stage, agg int) func([]byte) []byte {
	if a != nil && a.Stage == st && (a.Agg < 0 || a.Agg == agg) {
		return a.F
	}
	return nil
}

// Result of preparing one report.
type Result[V arith.Vec[V, E], E arith.Elt] struct {
	Out   []*prio3.OutShare[V, E] // per aggregator; nil = this aggregator produced no output share
	Where string                  // first refusal ("" when nobody refused)
	RT    string                  // first marshal round-trip failure of an unaltered message
}

func (r *Result[V, E]) Accepted() bool {
	for _, o := range r.Out {
		if o == nil {
			return false
		}
	}
	return true
}

func (r *Result[V, E]) AnyOutput() bool {
	for _, o := range r.Out {
		if o != nil {
			return true
		}
	}
	return false
}

type message interface {
	encoding.BinaryMarshaler
	encoding.BinaryUnmarshaler
}

// pass hands a message to its consumer. Untouched when neither altered nor in
// round-trip mode; otherwise marshalled, optionally altered, and unmarshalled
// into a fresh object. refused = the altered bytes were refused by UnmarshalBinary.
func pass[T message](orig T, fresh func() T, altF func([]byte) []byte, rt bool, name string, rtFail *string) (out T, refused bool) {
	if altF == nil && !rt {
		return orig, false
	}
	setRT := func(s string) {
		if *rtFail == "" {
			*rtFail = name + ": " + s
		}
	}
	b, err := orig.MarshalBinary()
	if err != nil {
		setRT("MarshalBinary: " + err.Error())
		return orig, false
	}
	if altF != nil {
		b = altF(b)
	}
	y := fresh()
	if err := y.UnmarshalBinary(b); err != nil {
		if altF != nil {
			return orig, true
		}
		setRT("UnmarshalBinary(MarshalBinary(x)): " + err.Error())
		return orig, false
	}
	if altF == nil {
		b2, err := y.MarshalBinary()
		if err != nil || !bytes.Equal(b, b2) {
			setRT(fmt.Sprintf("re-marshalled form differs (err=%v)", err))
		}
	}
	return y, false
}

// Prepare runs the preparation phase of one report at every aggregator.
func Prepare[M, A any, V arith.Vec[V, E], E arith.Elt](
	v VDAF[M, A, V, E], vk *prio3.VerifyKey, nonce *prio3.Nonce,
	pub prio3.PublicShare, in []prio3.InputShare[V, E], alt *Alt, rt bool,
) (res Result[V, E]) {
	params := v.Params()
	n := len(in)
	res.Out = make([]*prio3.OutShare[V, E], n)
	refuse := func(w string) {
		if res.Where == "" {
			res.Where = w
		}
	}
	states := make([]*prio3.PrepState[V, E], n)
	pshares := make([]prio3.PrepShare[V, E], n)
	for i := 0; i < n; i++ {
		nonceI := *nonce
		if f := alt.hit(StNonce, i); f != nil {
			b := f(append([]byte{}, nonceI[:]...))
			if len(b) != len(nonceI) {
				refuse("length:nonce")
				return
			}
			copy(nonceI[:], b)
		}
		pubP, refused := pass(&pub, func() *prio3.PublicShare { return new(prio3.PublicShare).New(&params) },
			alt.hit(StPub, i), rt, "public-share", &res.RT)
		if refused {
			refuse("unmarshal:public-share")
			return
		}
		inP, refused := pass(&in[i], func() *prio3.InputShare[V, E] { return new(prio3.InputShare[V, E]).New(&params, uint(i)) },
			alt.hit(StInput, i), rt, "input-share", &res.RT)
		if refused {
			refuse("unmarshal:input-share")
			return
		}
		st, ps, err := v.PrepInit(vk, &nonceI, uint8(i), *pubP, *inP)
		if err != nil {
			refuse("PrepInit:" + err.Error())
			return
		}
		st, _ = pass(st, func() *prio3.PrepState[V, E] { return new(prio3.PrepState[V, E]).New(&params) },
			nil, rt, "prep-state", &res.RT)
		ps, refused = pass(ps, func() *prio3.PrepShare[V, E] { return new(prio3.PrepShare[V, E]).New(&params) },
			alt.hit(StPrepShare, i), rt, "prep-share", &res.RT)
		if refused {
			refuse("unmarshal:prep-share")
			return
		}
		states[i], pshares[i] = st, *ps
	}
	msg, err := v.PrepSharesToPrep(pshares)
	if err != nil {
		refuse("PrepSharesToPrep:" + err.Error())
		return
	}
	for i := 0; i < n; i++ {
		m, refused := pass(msg, func() *prio3.PrepMessage { return new(prio3.PrepMessage).New(&params) },
			alt.hit(StPrepMsg, i), rt, "prep-message", &res.RT)
		if refused {
			refuse("unmarshal:prep-message")
			continue
		}
		out, err := v.PrepNext(states[i], m)
		if err != nil {
			refuse("PrepNext:" + err.Error())
			continue
		}
		if out == nil {
			refuse("PrepNext:nil output share")
			continue
		}
		out, _ = pass(out, func() *prio3.OutShare[V, E] { return new(prio3.OutShare[V, E]).New(&params) },
			nil, rt, "out-share", &res.RT)
		res.Out[i] = out
	}
	return
}

// RunBatch is the complete honest protocol on a batch of measurements.
// fail != "" describes the first thing that went wrong before Unshard.
func (s *Sys[M, A, V, E]) RunBatch(v VDAF[M, A, V, E], seed int64, seedIdx int, batch [][]uint64, rt bool,
) (got []uint64, unshardErr error, fail string) {
	params := v.Params()
	shares := int(params.Shares())
	aggs := make([]prio3.AggShare[V, E], shares)
	for i := range aggs {
		aggs[i] = v.AggregateInit()
	}
	for pos, m := range batch {
		vk, nonce, rnd := Material(params.RandSize(), seed, seedIdx, pos)
		pub, in, err := v.Shard(s.ToM(m), &nonce, rnd)
		if err != nil {
			return nil, nil, "shard-error:" + err.Error()
		}
		if len(in) != shares {
			return nil, nil, fmt.Sprintf("shard-count:%d input shares", len(in))
		}
		res := Prepare(v, &vk, &nonce, pub, in, nil, rt)
		if res.RT != "" {
			return nil, nil, "roundtrip:" + res.RT
		}
		if !res.Accepted() {
			return nil, nil, "valid-report-rejected:" + res.Where
		}
		for i := range aggs {
			v.AggregateUpdate(&aggs[i], res.Out[i])
		}
	}
	if rt {
		var rtFail string
		for i := range aggs {
			a, _ := pass(&aggs[i], func() *prio3.AggShare[V, E] { return new(prio3.AggShare[V, E]).New(&params) },
				nil, true, "agg-share", &rtFail)
			aggs[i] = *a
		}
		if rtFail != "" {
			return nil, nil, "roundtrip:" + rtFail
		}
	}
	a, err := v.Unshard(aggs, uint(len(batch)))
	if err != nil {
		return nil, err, ""
	}
	if a == nil {
		return nil, nil, "unshard:nil aggregate without error"
	}
	return s.FromA(a), nil, ""
}

func class(s string) string {
	if i := strings.Index(s, ":"); i > 0 {
		return s[:i]
	}
	return s
}

// CheckBatch runs one batch and compares with the plain aggregate.
func (s *Sys[M, A, V, E]) CheckBatch(r *verifmc.Run, v VDAF[M, A, V, E], inst prio.Inst, seedIdx int, batch [][]uint64, rt bool) {
	params := v.Params()
	shares := int(params.Shares())
	caseID := fmt.Sprintf("agg|%s|seed%d|rt=%v|%v", tag(inst, shares), seedIdx, rt, batch)
	if !r.Want(caseID) {
		return
	}
	r.Eval(1)
	r.Distinct(caseID)
	want := inst.Aggregate(batch)
	payload := map[string]interface{}{"instance": inst.String(), "aggregators": shares, "seed_index": seedIdx,
		"batch": fmt.Sprint(batch), "marshal_round_trip": rt, "want": fmt.Sprint(want)}
	key := func(cls string) string {
		return fmt.Sprintf("C19|%s.aggregate|%s|%s", inst.Kind, cls, tag(inst, shares))
	}
	var got []uint64
	var uerr error
	var fail string
	if p, what := verifmc.Try(func() { got, uerr, fail = s.RunBatch(v, r.Seed(), seedIdx, batch, rt) }); p {
		if !inst.BelowModulus(want) {
			r.Outcome("aggregate>=modulus:panic(no demand)")
			return
		}
		r.Violation(key("panic:"+verifmc.PanicClass(what)), caseID, fmt.Sprintf("%s batch %v: panic: %s", tag(inst, shares), batch, what), payload)
		return
	}
	if fail != "" {
		r.Violation(key(fail), caseID, fmt.Sprintf("%s batch %v (round trip %v): %s", tag(inst, shares), batch, rt, fail), payload)
		return
	}
	switch {
	case !inst.BelowModulus(want):
		// the property makes no demand when the true aggregate is not below the modulus
		r.Count("aggregate_ge_modulus_no_demand", 1)
		r.Outcome("aggregate>=modulus(no demand)")
		return
	case !prio.FitsUint64(want):
		// below the modulus but not representable in the uint64 result type: an error is accepted, a wrong value is not
		r.Count("aggregate_exceeds_uint64", 1)
		if uerr != nil {
			r.Outcome("aggregate>2^64:error")
			return
		}
		r.Violation(key("unrepresentable-aggregate-returned-as-value"), caseID,
			fmt.Sprintf("%s batch %v: true aggregate %v does not fit uint64 but Unshard returned %v without error", tag(inst, shares), batch, want, got), payload)
		return
	}
	if uerr != nil {
		r.Violation(key("unshard-error"), caseID, fmt.Sprintf("%s batch %v: Unshard: %v", tag(inst, shares), batch, uerr), payload)
		return
	}
	ok := len(got) == len(want)
	for k := 0; ok && k < len(got); k++ {
		ok = want[k].IsUint64() && want[k].Uint64() == got[k]
	}
	if !ok {
		r.Violation(key("aggregate-mismatch"), caseID,
			fmt.Sprintf("%s batch %v (round trip %v): aggregate %v, want %v", tag(inst, shares), batch, rt, got, want), payload)
		return
	}
	r.Outcome("aggregate-exact")
	r.Count("aggregates_exact", 1)
	if len(batch) > 0 {
		r.Count("nonempty_batches_exact", 1)
	}
}

// Narrow reports the 32-bit configuration (GOARCH=386, about 3x slower): there the units keep what can
// depend on the word size (constructor tables, wide instances, InvUint64) and drop the rest.
func Narrow() bool { return os.Getenv("VERIF_CONFIG") == "x86_32" }

// SkipNarrow skips a unit under the 32-bit configuration (call before verifmc.Start).
func SkipNarrow(t interface{ Skip(...interface{}) }) {
	if Narrow() {
		t.Skip("unit not run under x86_32: nothing in it depends on the word size beyond what the _agg/_ctor units cover")
	}
}

// guardedFor is ParallelFor with a backstop: a panic that escapes a job (the library refused or blew up on
// something the harness took for granted) becomes a violation carrying the panic site, never a crash of the run.
func guardedFor(r *verifmc.Run, n int, name func(i int) string, f func(i int)) {
	verifmc.ParallelFor(n, func(i int) {
		if p, what := verifmc.Try(func() { f(i) }); p {
			r.Violation(fmt.Sprintf("C19|%s/%s|unexpected-panic:%s|%s", r.Prop, r.Unit, verifmc.PanicClass(what), verifmc.PanicSite(what)),
				"job|"+name(i), fmt.Sprintf("%s: job %s: unexpected panic: %s", r.Unit, name(i), what), map[string]interface{}{"job": name(i)})
		}
	})
}

// boundaryName names the boundary field elements for violation keys.
func boundaryName(f *prio.Field, v *big.Int) string {
	switch d := new(big.Int).Sub(v, f.P); {
	case v.Sign() >= 0 && v.Cmp(big.NewInt(2)) <= 0:
		return v.String()
	case d.Cmp(big.NewInt(-1)) == 0:
		return "p-1"
	case d.Cmp(big.NewInt(-2)) == 0:
		return "p-2"
	case d.Sign() == 0:
		return "p"
	case d.Cmp(big.NewInt(1)) == 0:
		return "p+1"
	case v.BitLen() == 8*f.Size && new(big.Int).Add(v, big.NewInt(1)).BitLen() > 8*f.Size:
		return "2^" + fmt.Sprint(8*f.Size) + "-1"
	}
	return "other"
}

// refusedBoundary names the first boundary element of vec (for the key of a refused canonical vector).
func refusedBoundary(f *prio.Field, vec []*big.Int) string {
	best := "small"
	for _, e := range vec {
		if n := boundaryName(f, f.Mod(e)); n == "p-1" || n == "p-2" {
			return n
		} else if n != "other" && best == "small" {
			best = n
		}
	}
	return best
}

// Batches calls f for every ordered batch of size 0..maxLen over dom.
func Batches(dom [][]uint64, maxLen int, f func(batch [][]uint64)) {
	var rec func(cur [][]uint64)
	rec = func(cur [][]uint64) {
		f(cur)
		if len(cur) == maxLen {
			return
		}
		for _, m := range dom {
			rec(append(append([][]uint64{}, cur...), m))
		}
	}
	rec(nil)
}

// AggPlan is the table of one aggregation unit.
type AggPlan struct {
	Insts       []prio.Inst
	FullShares  []int // every batch up to MaxBatch over the domain
	LightShares []int // every batch up to size 2 over {first, last} of the domain
	MaxBatch    int
	RTMaxBatch  int // batches up to this size are also run with every message passed through marshal/unmarshal
	Seeds       int // how many entries of the seed alphabet
	DomainLimit int
	// SweepInsts: for each of these (small) instances EVERY number of aggregators 2..255 prepares the
	// batches [last] and [first last] of the measurement domain (the property quantifies over 2..255).
	SweepInsts []prio.Inst
	// HistoryInsts: collection histories (repeated Unshard, aggregation continued after an intermediate
	// Unshard, with and without marshalling the aggregate shares in between) for these instances.
	HistoryInsts  []prio.Inst
	HistoryShares []int
}

// UnitAgg: exact aggregates of all small batches.
func (s *Sys[M, A, V, E]) UnitAgg(r *verifmc.Run, t interface{ Fatalf(string, ...interface{}) }, plan AggPlan) {
	r.Rule("case = (instance, number of aggregators, seed-alphabet entry for verify key/nonces/sharding randomness, ordered batch of valid measurements, " +
		"without and (for batches up to max_batch_with_marshal_round_trip) with a marshal round trip of every protocol message); every batch of size 0..max_batch over the measurement domain " +
		"(complete domain when it has <= domain_limit values, else the declared sub-alphabet with the extremes) is run through shard, " +
		"prepare at every aggregator, aggregate, unshard on the real code and compared with the plain integer aggregate; non-trivial = each distinct case")
	s.checkOrder(t, plan.Insts[0])
	if Narrow() {
		// 32-bit build: the first instance plus every wide one (MEAS_LEN > 32: measurements or entries >= 2^32),
		// 2 and 3 aggregators with batches up to 2, 9 aggregators over the extremes, one seed entry, one history instance.
		keep := []prio.Inst{plan.Insts[0]}
		for _, i := range plan.Insts[1:] {
			if i.MeasLen() > 32 {
				keep = append(keep, i)
			}
		}
		plan.Insts, plan.FullShares, plan.LightShares = keep, []int{2, 3}, []int{9}
		plan.MaxBatch, plan.RTMaxBatch, plan.Seeds, plan.SweepInsts = 2, 2, 1, nil
		if len(plan.HistoryInsts) > 1 {
			plan.HistoryInsts = plan.HistoryInsts[:1]
		}
		r.Set("narrowed_for_32_bit", "first instance + instances with MEAS_LEN > 32; no aggregator sweep")
	}
	nSeeds := plan.Seeds
	if n := NumSeeds(r.Seed()); nSeeds > n || (r.Seed() != 0 && !Narrow()) {
		nSeeds = n
	}
	type job struct {
		inst    prio.Inst
		shares  int
		seedIdx int
		light   bool
		kind    int // 0 batches, 1 aggregator sweep, 2 collection histories
	}
	var jobs []job
	doms := map[string]interface{}{}
	for _, inst := range plan.SweepInsts {
		for sh := 2; sh <= 255; sh++ {
			jobs = append(jobs, job{inst: inst, shares: sh, seedIdx: 3, kind: 1})
		}
	}
	for _, inst := range plan.HistoryInsts {
		for _, sh := range plan.HistoryShares {
			for _, si := range []int{1, 3} {
				jobs = append(jobs, job{inst: inst, shares: sh, seedIdx: si, kind: 2})
			}
		}
	}
	for _, inst := range plan.Insts {
		dom, complete := inst.Domain(plan.DomainLimit)
		doms[inst.String()] = map[string]interface{}{"domain_size": len(dom), "complete": complete}
		if !complete {
			r.NotExhaustive(fmt.Sprintf("%s: measurement domain exceeds %d values; batches range over the declared sub-alphabet %v", inst, plan.DomainLimit, dom))
		}
		for si := 0; si < nSeeds; si++ {
			for _, sh := range plan.FullShares {
				jobs = append(jobs, job{inst: inst, shares: sh, seedIdx: si})
			}
		}
		for _, sh := range plan.LightShares {
			jobs = append(jobs, job{inst: inst, shares: sh, seedIdx: 3, light: true})
			if sh <= 16 || r.Thorough() {
				jobs = append(jobs, job{inst: inst, shares: sh, seedIdx: 1, light: true})
			}
		}
	}
	sort.SliceStable(jobs, func(a, b int) bool { // heavy jobs first: no long tail in ParallelFor
		return (jobs[a].inst.MeasLen()+4)*jobs[a].shares > (jobs[b].inst.MeasLen()+4)*jobs[b].shares
	})
	r.Set("instances", doms)
	r.Set("aggregators_full_batches", plan.FullShares)
	r.Set("aggregators_batches_up_to_2_over_extremes", plan.LightShares)
	r.Set("max_batch", plan.MaxBatch)
	r.Set("max_batch_note", "quick tier: instances with MEAS_LEN > 32 use max_batch 2; more than 16 aggregators: batches up to size 1 (thorough: 2) over {first,last}")
	r.Set("max_batch_with_marshal_round_trip", plan.RTMaxBatch)
	r.Set("seed_alphabet", nSeeds)
	r.Set("domain_limit", plan.DomainLimit)
	var sweep, hist []string
	for _, i := range plan.SweepInsts {
		sweep = append(sweep, i.String())
	}
	for _, i := range plan.HistoryInsts {
		hist = append(hist, i.String())
	}
	r.Set("aggregators_2_to_255_complete_for", sweep)
	r.Set("collection_histories_for", hist)
	r.Set("collection_histories_aggregators", plan.HistoryShares)
	guardedFor(r, len(jobs), func(ji int) string { return tag(jobs[ji].inst, jobs[ji].shares) }, func(ji int) {
		j := jobs[ji]
		if r.Expired() {
			return
		}
		v, err := s.Make(j.inst, uint8(j.shares))
		if err != nil {
			r.Violation(fmt.Sprintf("C19|%s.New|admissible-rejected|%s", j.inst.Kind, tag(j.inst, j.shares)), "ctor|"+tag(j.inst, j.shares),
				fmt.Sprintf("%s: constructor refused admissible parameters: %v", tag(j.inst, j.shares), err), nil)
			return
		}
		if os.Getenv("VERIF_C19_TIMING") != "" {
			t0 := time.Now()
			defer func() {
				fmt.Fprintf(os.Stderr, "timing agg %s seed%d light=%v %.2fs\n", tag(j.inst, j.shares), j.seedIdx, j.light, time.Since(t0).Seconds())
			}()
		}
		dom, _ := j.inst.Domain(plan.DomainLimit)
		if j.kind == 1 {
			first, last := dom[0], dom[len(dom)-1]
			s.CheckBatch(r, v, j.inst, j.seedIdx, [][]uint64{last}, false)
			s.CheckBatch(r, v, j.inst, j.seedIdx, [][]uint64{first, last}, false)
			if j.shares <= 16 {
				s.CheckBatch(r, v, j.inst, j.seedIdx, [][]uint64{last}, true)
			}
			r.Count("aggregator_counts_swept", 1)
			return
		}
		if j.kind == 2 {
			ext := [][]uint64{dom[0], dom[len(dom)-1]}
			Batches(ext, 2, func(a [][]uint64) {
				Batches(ext, 2, func(b [][]uint64) {
					for _, marshal := range []bool{false, true} {
						s.CheckHistory(r, v, j.inst, j.seedIdx, a, b, marshal)
					}
				})
			})
			return
		}
		maxLen := plan.MaxBatch
		if j.light {
			maxLen = 2
			if j.shares > 16 && !r.Thorough() {
				maxLen = 1
			}
			if len(dom) > 2 {
				dom = [][]uint64{dom[0], dom[len(dom)-1]}
			}
		} else if j.inst.MeasLen() > 32 && !r.Thorough() && maxLen > 2 {
			maxLen = 2
		}
		Batches(dom, maxLen, func(batch [][]uint64) {
			s.CheckBatch(r, v, j.inst, j.seedIdx, batch, false)
			if len(batch) <= plan.RTMaxBatch {
				s.CheckBatch(r, v, j.inst, j.seedIdx, batch, true)
			}
			if ji == 0 && len(batch) == 2 { // one job only: samples stay the same on every run
				r.Sample(map[string]interface{}{"instance": j.inst.String(), "aggregators": j.shares, "batch": fmt.Sprint(batch), "aggregate": fmt.Sprint(j.inst.Aggregate(batch))})
			}
		})
	})
	r.RequireCounter("nonempty_batches_exact", 1)
	if len(plan.SweepInsts) > 0 {
		r.RequireCounter("aggregator_counts_swept", int64(254*len(plan.SweepInsts)))
	}
	if len(plan.HistoryInsts) > 0 {
		r.RequireCounter("collection_histories_exact", 1)
	}
}

// aggregateInto shards, prepares and aggregates the batch into aggs (report positions start at pos0).
func (s *Sys[M, A, V, E]) aggregateInto(v VDAF[M, A, V, E], aggs []prio3.AggShare[V, E], seed int64, seedIdx, pos0 int, batch [][]uint64) string {
	params := v.Params()
	for k, m := range batch {
		vk, nonce, rnd := Material(params.RandSize(), seed, seedIdx, pos0+k)
		pub, in, err := v.Shard(s.ToM(m), &nonce, rnd)
		if err != nil {
			return "shard-error:" + err.Error()
		}
		res := Prepare(v, &vk, &nonce, pub, in, nil, false)
		if !res.Accepted() {
			return "valid-report-rejected:" + res.Where
		}
		for i := range aggs {
			v.AggregateUpdate(&aggs[i], res.Out[i])
		}
	}
	return ""
}

func aggBytes[V arith.Vec[V, E], E arith.Elt](aggs []prio3.AggShare[V, E]) []byte {
	var all []byte
	for i := range aggs {
		b, err := aggs[i].MarshalBinary()
		if err != nil {
			all = append(all, []byte("marshal error: "+err.Error())...)
		}
		all = append(all, 0xAA)
		all = append(all, b...)
	}
	return all
}

// CheckHistory: a collection history on one set of aggregate shares.
//
//	aggregate batch A; Unshard (= aggregate of A); Unshard again (same result); the aggregate shares
//	must be byte-for-byte what they were before the two calls; optionally pass every aggregate share
//	through MarshalBinary/UnmarshalBinary; continue aggregating batch B into the SAME shares;
//	Unshard (= aggregate of A followed by B); Unshard again (same).
//
// Every Unshard only reads its arguments in the specification, so each of them must return the plain
// aggregate of the reports aggregated so far.
func (s *Sys[M, A, V, E]) CheckHistory(r *verifmc.Run, v VDAF[M, A, V, E], inst prio.Inst, seedIdx int, a, b [][]uint64, marshal bool) {
	params := v.Params()
	shares := int(params.Shares())
	caseID := fmt.Sprintf("hist|%s|seed%d|marshal=%v|%v+%v", tag(inst, shares), seedIdx, marshal, a, b)
	if !r.Want(caseID) {
		return
	}
	r.Eval(1)
	r.Distinct(caseID)
	r.Trace(1)
	key := func(cls string) string {
		return fmt.Sprintf("C19|%s.aggregate|history:%s|%s", inst.Kind, cls, tag(inst, shares))
	}
	payload := map[string]interface{}{"instance": inst.String(), "aggregators": shares, "seed_index": seedIdx,
		"batch_A": fmt.Sprint(a), "batch_B": fmt.Sprint(b), "aggregate_shares_marshalled_between": marshal}
	ab := append(append([][]uint64{}, a...), b...)
	if !inst.BelowModulus(inst.Aggregate(ab)) || !prio.FitsUint64(inst.Aggregate(ab)) {
		r.Outcome("history:aggregate not representable (no demand)")
		return
	}
	var fail, cls string
	equal := func(got []uint64, want []*big.Int) bool {
		if len(got) != len(want) {
			return false
		}
		for k := range got {
			if !want[k].IsUint64() || want[k].Uint64() != got[k] {
				return false
			}
		}
		return true
	}
	panicked, what := verifmc.Try(func() {
		aggs := make([]prio3.AggShare[V, E], shares)
		for i := range aggs {
			aggs[i] = v.AggregateInit()
		}
		unshard := func(step string, n int, want []*big.Int) bool {
			before := aggBytes(aggs)
			got, err := v.Unshard(aggs, uint(n))
			if err != nil || got == nil {
				cls, fail = "unshard-error", fmt.Sprintf("%s: Unshard: %v", step, err)
				return false
			}
			if !equal(s.FromA(got), want) {
				cls, fail = "wrong-aggregate@"+step, fmt.Sprintf("%s: Unshard returned %v, want %v", step, s.FromA(got), want)
				return false
			}
			if !bytes.Equal(before, aggBytes(aggs)) {
				cls, fail = "unshard-modified-aggregate-shares", fmt.Sprintf("%s: Unshard changed the caller's aggregate shares", step)
				return false
			}
			return true
		}
		if f := s.aggregateInto(v, aggs, r.Seed(), seedIdx, 0, a); f != "" {
			cls, fail = class(f), f
			return
		}
		wantA := inst.Aggregate(a)
		if !unshard("first-collection", len(a), wantA) || !unshard("repeated-collection", len(a), wantA) {
			return
		}
		if marshal {
			var rtFail string
			for i := range aggs {
				x, _ := pass(&aggs[i], func() *prio3.AggShare[V, E] { return new(prio3.AggShare[V, E]).New(&params) }, nil, true, "agg-share", &rtFail)
				aggs[i] = *x
			}
			if rtFail != "" {
				cls, fail = "roundtrip", rtFail
				return
			}
		}
		if f := s.aggregateInto(v, aggs, r.Seed(), seedIdx, len(a), b); f != "" {
			cls, fail = class(f), f
			return
		}
		wantAB := inst.Aggregate(ab)
		if !unshard("later-collection", len(ab), wantAB) || !unshard("repeated-later-collection", len(ab), wantAB) {
			return
		}
	})
	if panicked {
		r.Violation(key("panic:"+verifmc.PanicClass(what)), caseID, fmt.Sprintf("%s history A=%v B=%v: panic: %s", tag(inst, shares), a, b, what), payload)
		return
	}
	if fail != "" {
		r.Violation(key(cls), caseID, fmt.Sprintf("%s: aggregate A=%v, collect twice, continue with B=%v, collect twice (marshal between: %v): %s",
			tag(inst, shares), a, b, marshal, fail), payload)
		return
	}
	r.Count("collection_histories_exact", 1)
	r.Outcome("history-exact")
}

func (s *Sys[M, A, V, E]) checkOrder(t interface{ Fatalf(string, ...interface{}) }, inst prio.Inst) {
	if s.Order != nil && new(big.Int).SetBytes(s.Order).Cmp(inst.Field().P) != 0 {
		t.Fatalf("reference modulus of %s differs from the order circl reports: %x", inst.Field().Name, s.Order)
	}
}

// CheckCtor checks one row of the constructor table.
func (s *Sys[M, A, V, E]) CheckCtor(r *verifmc.Run, inst prio.Inst, shares int) {
	caseID := "ctor|" + tag(inst, shares)
	if !r.Want(caseID) {
		return
	}
	r.Eval(1)
	r.Distinct(caseID)
	exp, why := inst.Ctor(shares)
	var v VDAF[M, A, V, E]
	var err error
	panicked, what := verifmc.Try(func() { v, err = s.Make(inst, uint8(shares)) })
	outcome := "success"
	switch {
	case panicked:
		outcome = "panic"
	case err != nil:
		outcome = "error"
	}
	r.Outcome(exp.String() + "->" + outcome)
	r.Count("rows_"+exp.String(), 1)
	payload := map[string]interface{}{"instance": inst.String(), "aggregators": shares, "expected": exp.String(), "why": why, "observed": outcome}
	entry := fmt.Sprintf("C19|%s.New|", inst.Kind)
	switch exp {
	case prio.MustFail:
		switch outcome {
		case "panic":
			r.Violation(entry+"panic:"+verifmc.PanicClass(what)+"|"+why, caseID,
				fmt.Sprintf("New(%s): panics instead of reporting an error (%s): %s", tag(inst, shares), why, what), payload)
		case "success":
			r.Violation(entry+"degenerate-accepted|"+why, caseID,
				fmt.Sprintf("New(%s): succeeds although the parameters are degenerate (%s)", tag(inst, shares), why), payload)
		default:
			r.Count("degenerate_rows_refused", 1)
		}
	case prio.MustSucceed:
		switch outcome {
		case "panic":
			r.Violation(entry+"panic:"+verifmc.PanicClass(what)+"|admissible", caseID,
				fmt.Sprintf("New(%s): panics on admissible parameters: %s", tag(inst, shares), what), payload)
		case "error":
			r.Violation(entry+"admissible-rejected|"+tag(inst, shares), caseID,
				fmt.Sprintf("New(%s): refuses admissible parameters: %v", tag(inst, shares), err), payload)
		default:
			r.Count("admissible_rows_accepted", 1)
			// the instance must be usable: aggregate {max, min} once (skipped for many aggregators x long encodings: cost only)
			if shares <= 3 || inst.MeasLen() <= 16 {
				dom, _ := inst.Domain(8)
				s.CheckBatch(r, v, inst, 3, [][]uint64{dom[len(dom)-1], dom[0]}, false)
				r.Count("admissible_rows_used", 1)
			}
		}
	default:
		if outcome == "panic" {
			r.Violation(entry+"panic:"+verifmc.PanicClass(what)+"|undecided-row:"+why, caseID,
				fmt.Sprintf("New(%s): panics (%s): %s", tag(inst, shares), why, what), payload)
		}
	}
	r.Sample(payload)
}

// helpers on marshalled messages -------------------------------------------------

func flipBit(bit int) func([]byte) []byte {
	return func(b []byte) []byte { return verifmc.Flip(b, bit) }
}

func dropLast(b []byte) []byte { return append([]byte{}, b[:len(b)-1]...) }
func append00(b []byte) []byte { return append(append([]byte{}, b...), 0) }

// elemAlts are the alterations of field element j at byte offset off.
func elemAlts(f *prio.Field, off, j int) []Alt {
	var out []Alt
	for _, d := range []int64{1, -1, 2} {
		d := d
		out = append(out, Alt{Name: fmt.Sprintf("elem%d%+d", j, d), F: func(b []byte) []byte {
			c := append([]byte{}, b...)
			copy(c[off+j*f.Size:], f.AddElem(b[off:], j, d)[j*f.Size:(j+1)*f.Size])
			return c
		}})
	}
	// a non-canonical encoding of the same position: the modulus itself
	pBytes := make([]byte, f.Size)
	be := f.P.FillBytes(make([]byte, f.Size))
	for i := range be {
		pBytes[len(be)-1-i] = be[i]
	}
	out = append(out, Alt{Name: fmt.Sprintf("elem%d=p", j), F: func(b []byte) []byte {
		c := append([]byte{}, b...)
		copy(c[off+j*f.Size:], pBytes)
		return c
	}})
	return out
}

// sumOut decodes and sums the output shares of all aggregators (mod p).
func sumOut[V arith.Vec[V, E], E arith.Elt](f *prio.Field, outs []*prio3.OutShare[V, E]) ([]*big.Int, error) {
	var acc []*big.Int
	for _, o := range outs {
		b, err := o.MarshalBinary()
		if err != nil {
			return nil, err
		}
		vec, ok := f.DecVec(b)
		if !ok {
			return nil, fmt.Errorf("output share is not a canonical vector")
		}
		if acc == nil {
			acc = make([]*big.Int, len(vec))
			for k := range acc {
				acc[k] = new(big.Int)
			}
		}
		if len(vec) != len(acc) {
			return nil, fmt.Errorf("output shares of different lengths")
		}
		for k := range vec {
			acc[k] = f.Mod(new(big.Int).Add(acc[k], vec[k]))
		}
	}
	return acc, nil
}

func outBytes[V arith.Vec[V, E], E arith.Elt](outs []*prio3.OutShare[V, E]) []byte {
	var all []byte
	for _, o := range outs {
		if o == nil {
			all = append(all, 0xEE)
			continue
		}
		b, _ := o.MarshalBinary()
		all = append(all, b...)
	}
	return all
}

func marshalShares[V arith.Vec[V, E], E arith.Elt](pub prio3.PublicShare, in []prio3.InputShare[V, E]) ([]byte, error) {
	all, err := pub.MarshalBinary()
	if err != nil {
		return nil, err
	}
	for i := range in {
		b, err := in[i].MarshalBinary()
		if err != nil {
			return nil, err
		}
		all = append(all, 0xAA)
		all = append(all, b...)
	}
	return all, nil
}

// InvalidPlan is the table of one "invalid reports" unit.
type InvalidPlan struct {
	Insts      []prio.Inst
	Shares     []int
	Seeds      int
	ProductCap int // the complete product alphabet^MEAS_LEN is enumerated when it has at most this many members
	SetLimit   int // instances whose measurement domain has at most this many members take part in the malicious-client flow
	AltLight   []prio.Inst
}

// evilAlphabet is the per-coordinate alphabet of encoded measurements.
func evilAlphabet(f *prio.Field) []*big.Int {
	return []*big.Int{big.NewInt(0), big.NewInt(1), big.NewInt(2), new(big.Int).Sub(f.P, big.NewInt(1))}
}

// EvilVectors enumerates encoded measurements: the complete product when small,
// and in any case every vector within two deviations of a valid encoding.
func EvilVectors(inst prio.Inst, valid map[string][]uint64, productCap int, f func(vec []*big.Int, how string)) (productComplete bool) {
	fld := inst.Field()
	alpha := evilAlphabet(fld)
	n := inst.MeasLen()
	seen := map[string]bool{}
	emit := func(vec []*big.Int, how string) {
		k := inst.Key(vec)
		if seen[k] {
			return
		}
		seen[k] = true
		f(vec, how)
	}
	total := 1
	for i := 0; i < n && total <= productCap; i++ {
		total *= len(alpha)
	}
	if n > 0 && total <= productCap {
		productComplete = true
		sizes := make([]int, n)
		for i := range sizes {
			sizes[i] = len(alpha)
		}
		verifmc.Product(sizes, func(idx []int) bool {
			vec := make([]*big.Int, n)
			for i, a := range idx {
				vec[i] = alpha[a]
			}
			emit(vec, "product")
			return true
		})
	}
	// wider per-coordinate alphabet for deviations
	wide := append(append([]*big.Int{}, alpha...),
		big.NewInt(3), new(big.Int).Sub(fld.P, big.NewInt(2)),
		new(big.Int).Rsh(new(big.Int).Add(fld.P, big.NewInt(1)), 1), // 1/2
		new(big.Int).Lsh(big.NewInt(1), 32), new(big.Int).Lsh(big.NewInt(1), 63))
	dom, _ := inst.Domain(1 << 30)
	if len(dom) > 16 {
		dom = [][]uint64{dom[0], dom[1], dom[len(dom)/2], dom[len(dom)-2], dom[len(dom)-1]}
	}
	for _, m := range dom {
		base := inst.Encode(m)
		emit(base, "valid")
		for j := 0; j < n; j++ {
			for _, a := range wide {
				v1 := append([]*big.Int{}, base...)
				v1[j] = a
				emit(v1, "1-deviation")
			}
		}
		if n <= 24 {
			for j := 0; j < n; j++ {
				for k := j + 1; k < n; k++ {
					for _, a := range alpha {
						for _, b := range alpha {
							v2 := append([]*big.Int{}, base...)
							v2[j], v2[k] = a, b
							emit(v2, "2-deviations")
						}
					}
				}
			}
		}
	}
	return
}

// CheckEvil: one encoded measurement, honestly proved and shared by a malicious client.
func (s *Sys[M, A, V, E]) CheckEvil(r *verifmc.Run, v VDAF[M, A, V, E], ev EvilSharder[V, E], inst prio.Inst,
	seedIdx int, vec []*big.Int, how string, valid map[string][]uint64,
) {
	params := v.Params()
	shares := int(params.Shares())
	fld := inst.Field()
	vkey := inst.Key(vec)
	caseID := fmt.Sprintf("evil|%s|seed%d|%s", tag(inst, shares), seedIdx, vkey)
	if !r.Want(caseID) {
		return
	}
	r.Eval(1)
	r.Distinct(caseID)
	m, isValid := valid[vkey]
	payload := map[string]interface{}{"instance": inst.String(), "aggregators": shares, "seed_index": seedIdx,
		"encoded_measurement_hex": vkey, "in_valid_set": isValid, "built_as": how}
	key := func(cls string) string { return fmt.Sprintf("C19|%s.prepare|%s|%s", inst.Kind, cls, tag(inst, shares)) }
	vk, nonce, rnd := Material(params.RandSize(), r.Seed(), seedIdx, 0)
	var res Result[V, E]
	var shardErr error
	var evilBytes []byte
	vv := arith.NewVec[V](uint(len(vec)))
	if err := vv.UnmarshalBinary(fld.EncVec(vec)); err != nil {
		// every entry is reduced mod p, so this is a canonical vector: the decoder refuses a valid encoding
		r.Violation(fmt.Sprintf("C19|%s.%s.Vec.UnmarshalBinary|canonical-element-refused|%s", inst.Kind, fld.Name, refusedBoundary(fld, vec)), caseID,
			fmt.Sprintf("%s: Vec.UnmarshalBinary refuses the canonical field vector %s: %v", tag(inst, shares), vkey, err), payload)
		return
	}
	panicked, what := verifmc.Try(func() {
		pub, in, err := ev.Shard(vv, &nonce, rnd)
		if err != nil {
			shardErr = err
			return
		}
		evilBytes, _ = marshalShares(pub, in)
		res = Prepare(v, &vk, &nonce, pub, in, nil, false)
	})
	if panicked {
		if isValid {
			r.Violation(key("panic:"+verifmc.PanicClass(what)), caseID, fmt.Sprintf("%s: panic while preparing a valid report: %s", tag(inst, shares), what), payload)
		} else {
			// a panic is not a rejection "during preparation" with an error
			r.Violation(key("invalid-report-panic:"+verifmc.PanicClass(what)), caseID, fmt.Sprintf("%s: panic while preparing an invalid report %s: %s", tag(inst, shares), vkey, what), payload)
		}
		return
	}
	if shardErr != nil {
		// the wrapper replaces only Encode: sharding a canonical vector can only fail inside the library (XOF sampling, proof)
		r.Violation(key("shard-of-canonical-vector-failed"), caseID,
			fmt.Sprintf("%s: sharding the canonical encoded measurement %s (in valid set: %v) fails: %v", tag(inst, shares), vkey, isValid, shardErr), payload)
		return
	}
	if !isValid {
		if res.AnyOutput() {
			r.Violation(key("invalid-measurement-accepted"), caseID,
				fmt.Sprintf("%s: a report whose encoded measurement %s is outside the valid set yields output shares (accepted=%v, first refusal %q)",
					tag(inst, shares), vkey, res.Accepted(), res.Where), payload)
			return
		}
		r.Count("invalid_measurements_rejected", 1)
		r.Outcome("invalid(" + how + ")->" + res.Where)
		return
	}
	// valid: the honest client must produce byte-identical shares, and the report must be accepted with the right contribution
	var honestBytes []byte
	if p, what := verifmc.Try(func() {
		pub, in, err := v.Shard(s.ToM(m), &nonce, rnd)
		if err != nil {
			panic("Shard: " + err.Error())
		}
		honestBytes, _ = marshalShares(pub, in)
	}); p {
		r.Violation(key("valid-shard-failed"), caseID, fmt.Sprintf("%s: Shard(%v) failed: %s", tag(inst, shares), m, what), payload)
		return
	}
	if !bytes.Equal(honestBytes, evilBytes) {
		r.Violation(key("encoding-differs-from-draft"), caseID,
			fmt.Sprintf("%s: Shard(%v) does not share the draft's encoding %s of the measurement", tag(inst, shares), m, vkey), payload)
		return
	}
	if !res.Accepted() {
		r.Violation(key("valid-report-rejected:"+class(res.Where)), caseID, fmt.Sprintf("%s: valid measurement %v rejected: %s", tag(inst, shares), m, res.Where), payload)
		return
	}
	sum, err := sumOut(fld, res.Out)
	want := inst.Contribution(m)
	ok := err == nil && len(sum) == len(want)
	for k := 0; ok && k < len(sum); k++ {
		ok = sum[k].Cmp(fld.Mod(want[k])) == 0
	}
	if !ok {
		r.Violation(key("output-shares-wrong"), caseID, fmt.Sprintf("%s: output shares of measurement %v sum to %v (err %v), want %v", tag(inst, shares), m, sum, err, want), payload)
		return
	}
	r.Count("valid_measurements_accepted", 1)
	r.Outcome("valid->accepted")
}

// altList builds every single-field alteration of every protocol message of one report.
func altList(inst prio.Inst, params *prio3.Params, light bool) []Alt {
	fld := inst.Field()
	shares := int(params.Shares())
	jr := params.JointRandLength() > 0
	L, P, VL := int(params.MeasurementLength()), int(params.ProofLength()), int(params.VerifierLength())
	var out []Alt
	add := func(st Stage, agg int, prefix string, alts ...Alt) {
		for _, a := range alts {
			a.Stage, a.Agg, a.Name = st, agg, prefix+":"+a.Name
			out = append(out, a)
		}
	}
	bitAlts := func(off, nbytes int, what string) []Alt {
		var as []Alt
		for bit := 0; bit < nbytes*8; bit++ {
			if light && bit%8 != 0 && bit >= 8 && bit < nbytes*8-8 {
				continue // light: every bit of the first and last byte, bit 0 of the others
			}
			as = append(as, Alt{Name: fmt.Sprintf("%s.bit%d", what, bit), F: flipBit(off*8 + bit)})
		}
		return as
	}
	lenAlts := []Alt{{Name: "drop-last-byte", F: dropLast}, {Name: "append-00", F: append00}}
	aggName := func(i int) string {
		if i < 0 {
			return "all"
		}
		return fmt.Sprintf("agg%d", i)
	}
	// leader input share: meas share | proof share | blind
	for j := 0; j < L; j++ {
		add(StInput, 0, "input@agg0/meas", elemAlts(fld, 0, j)...)
	}
	for j := 0; j < P; j++ {
		add(StInput, 0, "input@agg0/proof", elemAlts(fld, L*fld.Size, j)...)
	}
	if jr {
		add(StInput, 0, "input@agg0", bitAlts((L+P)*fld.Size, 32, "blind")...)
	}
	add(StInput, 0, "input@agg0", lenAlts...)
	// helper input shares: seed | blind
	for i := 1; i < shares; i++ {
		p := fmt.Sprintf("input@agg%d", i)
		add(StInput, i, p, bitAlts(0, 32, "seed")...)
		if jr {
			add(StInput, i, p, bitAlts(32, 32, "blind")...)
		}
		add(StInput, i, p, lenAlts...)
	}
	// public share: joint randomness parts
	if jr {
		for _, who := range []int{-1, 0, shares - 1} {
			p := "public@" + aggName(who)
			for part := 0; part < shares; part++ {
				add(StPub, who, p, bitAlts(32*part, 32, fmt.Sprintf("part%d", part))...)
			}
			add(StPub, who, p, lenAlts...)
		}
	} else {
		add(StPub, -1, "public@all", Alt{Name: "append-00", F: append00})
	}
	// nonce
	for _, who := range []int{-1, 0, shares - 1} {
		add(StNonce, who, "nonce@"+aggName(who), bitAlts(0, 16, "nonce")...)
	}
	// prep shares: verifier share | joint rand part
	for i := 0; i < shares; i++ {
		p := fmt.Sprintf("prepshare@agg%d", i)
		for j := 0; j < VL; j++ {
			add(StPrepShare, i, p+"/verifier", elemAlts(fld, 0, j)...)
		}
		if jr {
			add(StPrepShare, i, p, bitAlts(VL*fld.Size, 32, "jointrandpart")...)
		}
		add(StPrepShare, i, p, lenAlts...)
	}
	// prep message: joint randomness seed
	for _, who := range []int{-1, 0, shares - 1} {
		p := "prepmsg@" + aggName(who)
		if jr {
			add(StPrepMsg, who, p, bitAlts(0, 32, "jointrand")...)
			add(StPrepMsg, who, p, lenAlts...)
		} else {
			add(StPrepMsg, who, p, Alt{Name: "append-00", F: append00})
		}
	}
	return out
}

func altGroup(name string) string {
	g := name
	if i := strings.LastIndex(g, ":"); i > 0 {
		g = g[:i]
	}
	// strip the aggregator index so that classes are stable across aggregator counts
	for _, p := range []string{"@agg0", "@all"} {
		if strings.Contains(g, p) {
			return g
		}
	}
	if i := strings.Index(g, "@agg"); i > 0 {
		j := i + 4
		for j < len(g) && g[j] >= '0' && g[j] <= '9' {
			j++
		}
		g = g[:i] + "@helper" + g[j:]
	}
	return g
}

// CheckAlterations: every single-field alteration of every protocol message of
// one valid report must make the report be refused by every aggregator that
// consumes the altered data, and must leave the instance able to prepare the
// unaltered report with identical output.
func (s *Sys[M, A, V, E]) CheckAlterations(r *verifmc.Run, v VDAF[M, A, V, E], inst prio.Inst, seedIdx int, meas []uint64, light bool) (sample interface{}) {
	params := v.Params()
	shares := int(params.Shares())
	vk, nonce, rnd := Material(params.RandSize(), r.Seed(), seedIdx, 0)
	base := fmt.Sprintf("alt|%s|seed%d|%v", tag(inst, shares), seedIdx, meas)
	key := func(cls, group string) string {
		return fmt.Sprintf("C19|%s.prepare|%s|%s|%s", inst.Kind, cls, group, inst)
	}
	pub, in, err := v.Shard(s.ToM(meas), &nonce, rnd)
	if err != nil {
		r.Violation(key("valid-shard-failed", "base"), base, fmt.Sprintf("%s: Shard(%v): %v", tag(inst, shares), meas, err), nil)
		return
	}
	var baseRes Result[V, E]
	if p, what := verifmc.Try(func() { baseRes = Prepare(v, &vk, &nonce, pub, in, nil, false) }); p || !baseRes.Accepted() {
		r.Violation(key("valid-report-rejected", "base"), base, fmt.Sprintf("%s: unaltered report of %v not accepted: %s %s", tag(inst, shares), meas, baseRes.Where, what), nil)
		return
	}
	baseline := outBytes(baseRes.Out)
	check := func(caseID, name string, consumers func(i int) bool, run func() Result[V, E]) {
		if !r.Want(caseID) {
			return
		}
		r.Eval(1)
		r.Distinct(caseID)
		group := altGroup(name)
		payload := map[string]interface{}{"instance": inst.String(), "aggregators": shares, "seed_index": seedIdx,
			"measurement": fmt.Sprint(meas), "alteration": name}
		var res Result[V, E]
		if p, what := verifmc.Try(func() { res = run() }); p {
			r.Violation(key("altered-report-panic:"+verifmc.PanicClass(what), group), caseID,
				fmt.Sprintf("%s: alteration %s of the report of %v: panic: %s", tag(inst, shares), name, meas, what), payload)
			return
		}
		leaked := -1
		for i, o := range res.Out {
			if o != nil && consumers(i) {
				leaked = i
				break
			}
		}
		if leaked >= 0 {
			r.Violation(key("altered-report-accepted", group), caseID,
				fmt.Sprintf("%s: report of %v with alteration %s: aggregator %d still produced an output share (first refusal: %q)",
					tag(inst, shares), meas, name, leaked, res.Where), payload)
		} else {
			r.Count("altered_reports_rejected", 1)
			r.Count("rejected_at_"+class(res.Where), 1)
			if strings.HasPrefix(res.Where, "PrepNext:") && strings.Contains(res.Where, "joint") {
				r.Count("rejected_by_joint_rand_check_in_PrepNext", 1)
			}
			r.Outcome(group + "->" + res.Where)
		}
		// the refused report must contribute nothing: the same instance still prepares the unaltered report identically
		var again Result[V, E]
		if p, what := verifmc.Try(func() { again = Prepare(v, &vk, &nonce, pub, in, nil, false) }); p || !bytes.Equal(outBytes(again.Out), baseline) {
			r.Violation(key("instance-disturbed-by-refused-report", group), caseID,
				fmt.Sprintf("%s: after alteration %s the unaltered report of %v prepares differently (%s %s)", tag(inst, shares), name, meas, again.Where, what), payload)
		}
	}
	all := func(int) bool { return true }
	for _, a := range altList(inst, &params, light) {
		a := a
		consumers := all
		if a.Stage == StNonce && a.Agg < 0 && params.JointRandLength() == 0 {
			// Without joint randomness nothing in a report depends on the nonce: the "altered" report IS the
			// honest report for the other nonce, so no implementation can refuse it. What can be demanded
			// (and is): the honest client's shares do not depend on the nonce, and the report is accepted
			// under the new nonce with the same output shares.
			caseID := base + "|" + a.Name
			if !r.Want(caseID) {
				continue
			}
			r.Eval(1)
			r.Distinct(caseID)
			var n2 prio3.Nonce
			copy(n2[:], a.F(nonce[:]))
			var res Result[V, E]
			same := false
			p, what := verifmc.Try(func() {
				pub2, in2, err := v.Shard(s.ToM(meas), &n2, rnd)
				if err != nil {
					panic(err)
				}
				b1, _ := marshalShares(pub, in)
				b2, _ := marshalShares(pub2, in2)
				same = bytes.Equal(b1, b2)
				res = Prepare(v, &vk, &n2, pub, in, nil, false)
			})
			if p || !same || !res.Accepted() || !bytes.Equal(outBytes(res.Out), baseline) {
				r.Violation(key("nonce-independent-report-not-accepted", altGroup(a.Name)), caseID,
					fmt.Sprintf("%s: report of %v under nonce alteration %s: shares identical=%v accepted=%v %s %s", tag(inst, shares), meas, a.Name, same, res.Accepted(), res.Where, what), nil)
			} else {
				r.Count("nonce_change_is_another_honest_report_accepted", 1)
				r.Outcome("nonce@all(no joint randomness)->accepted: identical to the honest report under the new nonce")
			}
			continue
		}
		if a.Stage == StPrepMsg && a.Agg >= 0 {
			consumers = func(i int) bool { return i == a.Agg }
		}
		check(base+"|"+a.Name, a.Name, consumers, func() Result[V, E] { return Prepare(v, &vk, &nonce, pub, in, &a, false) })
	}
	// input shares handed to the wrong aggregator
	for i := 0; i < shares; i++ {
		for j := i + 1; j < shares; j++ {
			i, j := i, j
			name := fmt.Sprintf("input@swap:agg%d<->agg%d", i, j)
			bi, _ := in[i].MarshalBinary()
			bj, _ := in[j].MarshalBinary()
			if bytes.Equal(bi, bj) {
				// the structured all-00 / all-FF sharding randomness gives every helper the same seed: swapping changes nothing
				r.Count("swap_of_identical_shares_skipped", 1)
				continue
			}
			check(base+"|"+name, name, all, func() Result[V, E] {
				sw := append([]prio3.InputShare[V, E]{}, in...)
				sw[i], sw[j] = sw[j], sw[i]
				return Prepare(v, &vk, &nonce, pub, sw, nil, false)
			})
		}
	}
	return map[string]interface{}{"instance": inst.String(), "aggregators": shares, "measurement": fmt.Sprint(meas),
		"alterations": len(altList(inst, &params, light)), "example": "input@agg0/meas:elem0+1"}
}

// UnitInvalid: every single-field alteration of every protocol message of valid reports (exported API only).
func (s *Sys[M, A, V, E]) UnitInvalid(r *verifmc.Run, t interface{ Fatalf(string, ...interface{}) }, plan InvalidPlan) {
	r.Rule("every single-field alteration (each field element +1,-1,+2,=p; each bit of every seed/blind/joint-rand part/nonce; length -1/+1 byte; shares swapped) of every protocol message " +
		"(input shares, public share, nonce, prep shares, prep message) of a valid report, delivered to one or all aggregators, must be refused by every consumer, after which the same instance must prepare the unaltered report identically; " +
		"non-trivial = each distinct (instance, aggregators, seed, measurement, alteration)")
	s.unitInvalid(r, t, plan, false, true)
	r.RequireCounter("altered_reports_rejected", 1)
}

// UnitMalicious: the malicious-client flow (needs MakeEvil, i.e. the package's unexported FLP type).
func (s *Sys[M, A, V, E]) UnitMalicious(r *verifmc.Run, t interface{ Fatalf(string, ...interface{}) }, plan InvalidPlan) {
	r.Rule("malicious client: an encoded measurement (field vector) is proved with the real Prove and shared with the real sharding code (only Encode of the package's FLP replaced); " +
		"vectors = complete product {0,1,2,p-1}^MEAS_LEN when it has <= product_cap members, plus every vector within one deviation (9-value alphabet) and two deviations " +
		"({0,1,2,p-1}) of a valid encoding; members of the reference valid set must be accepted with byte-identical shares to the honest client and the right contribution, all others refused; " +
		"non-trivial = each distinct (instance, aggregators, seed, vector)")
	s.unitInvalid(r, t, plan, true, false)
	r.RequireCounter("invalid_measurements_rejected", 1)
	r.RequireCounter("valid_measurements_accepted", 1)
}

func (s *Sys[M, A, V, E]) unitInvalid(r *verifmc.Run, t interface{ Fatalf(string, ...interface{}) }, plan InvalidPlan, doEvil, doAlt bool) {
	s.checkOrder(t, plan.Insts[0])
	nSeeds := plan.Seeds
	if n := NumSeeds(r.Seed()); nSeeds > n || r.Seed() != 0 {
		nSeeds = n
	}
	type job struct {
		inst    prio.Inst
		shares  int
		seedIdx int
		kind    int // 0 evil, 1 alterations
		meas    []uint64
		light   bool
	}
	var jobs []job
	info := map[string]interface{}{}
	isLight := func(inst prio.Inst) bool {
		for _, l := range plan.AltLight {
			if l == inst {
				return true
			}
		}
		return false
	}
	for _, inst := range plan.Insts {
		dom, _ := inst.Domain(8)
		_, small := inst.ValidEncodedSet(plan.SetLimit)
		info[inst.String()] = map[string]interface{}{"meas_len": inst.MeasLen(), "malicious_client_flow": small, "alterations_light": isLight(inst)}
		if isLight(inst) && doAlt {
			r.NotExhaustive(fmt.Sprintf("%s: bit flips of 32-byte seeds restricted to every bit of the first and last byte and bit 0 of the other bytes", inst))
		}
		for _, sh := range plan.Shares {
			ns := nSeeds
			if sh > 3 && ns > 2 {
				ns = 2 // more than three aggregators: first two seed-alphabet entries only (cost)
			}
			light := isLight(inst)
			if sh > 9 && !light && doAlt {
				light = true
				r.NotExhaustive(fmt.Sprintf("%d aggregators: bit flips of 32-byte seeds restricted to every bit of the first and last byte and bit 0 of the other bytes", sh))
			}
			for si := 0; si < ns; si++ {
				if small && doEvil {
					jobs = append(jobs, job{inst: inst, shares: sh, seedIdx: si, kind: 0})
				}
				bases := [][]uint64{dom[0], dom[len(dom)-1]}
				if len(dom) == 1 {
					bases = bases[:1]
				}
				if !doAlt {
					bases = nil
				}
				for _, m := range bases {
					jobs = append(jobs, job{inst: inst, shares: sh, seedIdx: si, kind: 1, meas: m, light: light})
				}
			}
		}
	}
	sort.SliceStable(jobs, func(a, b int) bool {
		return (jobs[a].inst.MeasLen()+4)*jobs[a].shares > (jobs[b].inst.MeasLen()+4)*jobs[b].shares
	})
	r.Set("instances", info)
	r.Set("aggregators", plan.Shares)
	r.Set("seed_alphabet", nSeeds)
	r.Set("seed_alphabet_note", "more than three aggregators: the first two entries only")
	r.Set("product_cap", plan.ProductCap)
	samples := make([]interface{}, len(jobs))
	guardedFor(r, len(jobs), func(ji int) string { return tag(jobs[ji].inst, jobs[ji].shares) }, func(ji int) {
		j := jobs[ji]
		if r.Expired() {
			return
		}
		v, err := s.Make(j.inst, uint8(j.shares))
		if err != nil {
			r.Violation(fmt.Sprintf("C19|%s.New|admissible-rejected|%s", j.inst.Kind, tag(j.inst, j.shares)), "ctor|"+tag(j.inst, j.shares),
				fmt.Sprintf("%s: constructor refused admissible parameters: %v", tag(j.inst, j.shares), err), nil)
			return
		}
		if j.kind == 1 {
			samples[ji] = s.CheckAlterations(r, v, j.inst, j.seedIdx, j.meas, j.light)
			return
		}
		ev, err := s.MakeEvil(j.inst, uint8(j.shares))
		if err != nil {
			r.Violation(fmt.Sprintf("C19|%s.New|admissible-rejected(internal flp)|%s", j.inst.Kind, tag(j.inst, j.shares)), "ctor-evil|"+tag(j.inst, j.shares),
				fmt.Sprintf("%s: internal prio3.New with the package's own FLP refused admissible parameters: %v", tag(j.inst, j.shares), err), nil)
			return
		}
		valid, _ := j.inst.ValidEncodedSet(plan.SetLimit)
		nVec, firstInvalid := 0, ""
		complete := EvilVectors(j.inst, valid, plan.ProductCap, func(vec []*big.Int, how string) {
			nVec++
			if _, ok := valid[j.inst.Key(vec)]; !ok && firstInvalid == "" {
				firstInvalid = j.inst.Key(vec)
			}
			s.CheckEvil(r, v, ev, j.inst, j.seedIdx, vec, how, valid)
		})
		if complete {
			r.Count("complete_products", 1)
		}
		samples[ji] = map[string]interface{}{"instance": j.inst.String(), "aggregators": j.shares, "valid_encodings": len(valid), "product_complete": complete,
			"encoded_measurements_submitted": nVec, "first_invalid_one_hex": firstInvalid}
	})
	for k := len(samples) - 1; k >= 0; k-- { // smallest jobs first, in job order: the same samples on every run
		if samples[k] != nil {
			r.Sample(samples[k])
		}
	}
}

// UnitCtor: the constructor table.
func (s *Sys[M, A, V, E]) UnitCtor(r *verifmc.Run, insts []prio.Inst, shares []int) {
	r.Rule("complete table: every listed parameter tuple x every listed number of aggregators; expected class from the reference " +
		"(must-fail: fewer than two aggregators, zero chunk length, Sum bound with 2^bits >= modulus; must-succeed: all parameters positive and in range; " +
		"either: rows the statement does not decide); a must-succeed row is also used once (aggregate of {max, min}); non-trivial = each distinct row")
	r.Set("parameter_tuples", len(insts))
	r.Set("aggregator_counts", shares)
	for _, inst := range insts {
		for _, sh := range shares {
			s.CheckCtor(r, inst, sh)
		}
	}
	r.RequireCounter("rows_must-fail", 1)
	r.RequireCounter("rows_must-succeed", 1)
}

// ---------------------------------------------------------------------------------------------
// Decoder round trip of boundary field elements in every protocol message.

type codecMsg struct {
	name  string
	bytes []byte
	off   int // byte offset of the field-element area
	n     int // number of field elements
	fresh func() message
}

// UnitCodec: for every protocol message type of an honest report, every field-element position is
// overwritten with each boundary value. Canonical values {0, 1, p-2, p-1} are valid messages: UnmarshalBinary
// must accept them and MarshalBinary must give the same bytes back ("every protocol message survives a
// marshal/unmarshal round trip"). Non-canonical values {p, p+1, 2^k-1} must be refused. Seed-only
// messages (helper input share, public share, prep message) must round-trip with all-00 and all-FF seeds.
// Aggregate shares carrying p-1 must also unshard to the right aggregate.
func (s *Sys[M, A, V, E]) UnitCodec(r *verifmc.Run, t interface{ Fatalf(string, ...interface{}) }, insts []prio.Inst, sharesList []int) {
	r.Rule("for each instance and number of aggregators: the messages of one honest report (leader and helper input share, public share, prep state, prep share, prep message, " +
		"output share, aggregate share); every field-element position x {0, 1, p-2, p-1} must decode and re-encode to the same bytes, x {p, p+1, 2^k-1} must be refused; " +
		"seed areas all-00 / all-FF must round-trip; aggregate shares (p-1,..) + (a+1,..) must unshard to a; non-trivial = each distinct (instance, aggregators, message, position, value)")
	s.checkOrder(t, insts[0])
	type job struct {
		inst   prio.Inst
		shares int
	}
	var jobs []job
	for _, i := range insts {
		for _, sh := range sharesList {
			jobs = append(jobs, job{i, sh})
		}
	}
	var names []string
	for _, i := range insts {
		names = append(names, i.String())
	}
	r.Set("instances", names)
	r.Set("aggregators", sharesList)
	r.Set("accepted_values", []string{"0", "1", "p-2", "p-1"})
	r.Set("refused_values", []string{"p", "p+1", "2^k-1"})
	guardedFor(r, len(jobs), func(i int) string { return tag(jobs[i].inst, jobs[i].shares) }, func(ji int) {
		j := jobs[ji]
		inst, shares := j.inst, j.shares
		fld := inst.Field()
		v, err := s.Make(inst, uint8(shares))
		if err != nil {
			r.Violation(fmt.Sprintf("C19|%s.New|admissible-rejected|%s", inst.Kind, tag(inst, shares)), "ctor|"+tag(inst, shares), err.Error(), nil)
			return
		}
		params := v.Params()
		dom, _ := inst.Domain(8)
		meas := dom[len(dom)-1]
		vk, nonce, rnd := Material(params.RandSize(), r.Seed(), 3, 0)
		pub, in, err := v.Shard(s.ToM(meas), &nonce, rnd)
		if err != nil {
			r.Violation(fmt.Sprintf("C19|%s.prepare|valid-shard-failed|codec|%s", inst.Kind, inst), "codec|"+tag(inst, shares), err.Error(), nil)
			return
		}
		states := make([]*prio3.PrepState[V, E], shares)
		pshares := make([]prio3.PrepShare[V, E], shares)
		for i := 0; i < shares; i++ {
			st, ps, err := v.PrepInit(&vk, &nonce, uint8(i), pub, in[i])
			if err != nil {
				r.Violation(fmt.Sprintf("C19|%s.prepare|valid-report-rejected|codec|%s", inst.Kind, inst), "codec|"+tag(inst, shares), "PrepInit: "+err.Error(), nil)
				return
			}
			states[i], pshares[i] = st, *ps
		}
		msg, err := v.PrepSharesToPrep(pshares)
		if err != nil {
			r.Violation(fmt.Sprintf("C19|%s.prepare|valid-report-rejected|codec|%s", inst.Kind, inst), "codec|"+tag(inst, shares), "PrepSharesToPrep: "+err.Error(), nil)
			return
		}
		out, err := v.PrepNext(states[0], msg)
		if err != nil || out == nil {
			r.Violation(fmt.Sprintf("C19|%s.prepare|valid-report-rejected|codec|%s", inst.Kind, inst), "codec|"+tag(inst, shares), fmt.Sprintf("PrepNext: %v", err), nil)
			return
		}
		agg := v.AggregateInit()
		v.AggregateUpdate(&agg, out)
		mb := func(m message) []byte {
			b, err := m.MarshalBinary()
			if err != nil {
				panic("MarshalBinary of an honest message: " + err.Error())
			}
			return b
		}
		L, P, VL, OL := int(params.MeasurementLength()), int(params.ProofLength()), int(params.VerifierLength()), int(params.OutputLength())
		msgs := []codecMsg{
			{"InputShare(leader)", mb(&in[0]), 0, L + P, func() message { return new(prio3.InputShare[V, E]).New(&params, 0) }},
			{"PrepShare", mb(&pshares[0]), 0, VL, func() message { return new(prio3.PrepShare[V, E]).New(&params) }},
			{"PrepState", mb(states[0]), 0, OL, func() message { return new(prio3.PrepState[V, E]).New(&params) }},
			{"OutShare", mb(out), 0, OL, func() message { return new(prio3.OutShare[V, E]).New(&params) }},
			{"AggShare", mb(&agg), 0, OL, func() message { return new(prio3.AggShare[V, E]).New(&params) }},
		}
		pm1 := new(big.Int).Sub(fld.P, big.NewInt(1))
		accept := []*big.Int{big.NewInt(0), big.NewInt(1), new(big.Int).Sub(fld.P, big.NewInt(2)), pm1}
		allFF := new(big.Int).Sub(new(big.Int).Lsh(big.NewInt(1), uint(8*fld.Size)), big.NewInt(1))
		refuse := []*big.Int{fld.P, new(big.Int).Add(fld.P, big.NewInt(1)), allFF}
		rawLE := func(x *big.Int) []byte { // little endian, NOT reduced
			be := x.FillBytes(make([]byte, fld.Size))
			for a, b := 0, len(be)-1; a < b; a, b = a+1, b-1 {
				be[a], be[b] = be[b], be[a]
			}
			return be
		}
		for _, m := range msgs {
			if len(m.bytes) < m.off+m.n*fld.Size {
				r.Violation(fmt.Sprintf("C19|%s.%s.MarshalBinary|unexpected-length|%s", inst.Kind, m.name, inst), "codec|"+tag(inst, shares),
					fmt.Sprintf("%s: %s marshals to %d bytes, layout expects at least %d", tag(inst, shares), m.name, len(m.bytes), m.off+m.n*fld.Size), nil)
				continue
			}
			for pos := 0; pos < m.n; pos++ {
				for _, val := range append(append([]*big.Int{}, accept...), refuse...) {
					mustAccept := val.Cmp(fld.P) < 0
					vn := boundaryName(fld, val)
					caseID := fmt.Sprintf("codec|%s|%s|elem%d=%s", tag(inst, shares), m.name, pos, vn)
					if !r.Want(caseID) {
						continue
					}
					r.Eval(1)
					r.Distinct(caseID)
					b := append([]byte{}, m.bytes...)
					copy(b[m.off+pos*fld.Size:], rawLE(val))
					y := m.fresh()
					var uerr error
					var b2 []byte
					if p, what := verifmc.Try(func() {
						uerr = y.UnmarshalBinary(b)
						if uerr == nil {
							b2, _ = y.MarshalBinary()
						}
					}); p {
						r.Violation(fmt.Sprintf("C19|%s.%s.UnmarshalBinary|panic:%s|%s", inst.Kind, m.name, verifmc.PanicClass(what), vn), caseID,
							fmt.Sprintf("%s: %s with element %d = %s: panic: %s", tag(inst, shares), m.name, pos, vn, what), nil)
						continue
					}
					payload := map[string]interface{}{"instance": inst.String(), "aggregators": shares, "message": m.name, "element": pos, "value": vn, "bytes_hex": verifmc.Hex(b)}
					switch {
					case mustAccept && uerr != nil:
						r.Violation(fmt.Sprintf("C19|%s.%s.UnmarshalBinary|canonical-element-refused|%s", inst.Kind, m.name, vn), caseID,
							fmt.Sprintf("%s: a valid %s whose field element %d is %s (%s) is refused by UnmarshalBinary: %v", tag(inst, shares), m.name, pos, vn, fld.Name, uerr), payload)
					case mustAccept && !bytes.Equal(b, b2):
						r.Violation(fmt.Sprintf("C19|%s.%s.UnmarshalBinary|round-trip-differs|%s", inst.Kind, m.name, vn), caseID,
							fmt.Sprintf("%s: %s with element %d = %s does not re-marshal to the same bytes", tag(inst, shares), m.name, pos, vn), payload)
					case !mustAccept && uerr == nil:
						r.Violation(fmt.Sprintf("C19|%s.%s.UnmarshalBinary|noncanonical-element-accepted|%s", inst.Kind, m.name, vn), caseID,
							fmt.Sprintf("%s: %s with the non-canonical element %d = %s is accepted", tag(inst, shares), m.name, pos, vn), payload)
					case mustAccept:
						r.Count("canonical_boundary_accepted", 1)
						r.Count("accepted_in_"+m.name, 1)
						if vn == "p-1" {
							r.Count("p_minus_1_accepted", 1)
						}
					default:
						r.Count("noncanonical_refused", 1)
					}
				}
			}
		}
		// seed-only areas: any 32 bytes are valid
		seedMsgs := []codecMsg{
			{"InputShare(helper)", mb(&in[1]), 0, 0, func() message { return new(prio3.InputShare[V, E]).New(&params, 1) }},
			{"PublicShare", mb(&pub), 0, 0, func() message { return new(prio3.PublicShare).New(&params) }},
			{"PrepMessage", mb(msg), 0, 0, func() message { return new(prio3.PrepMessage).New(&params) }},
		}
		if params.JointRandLength() > 0 {
			seedMsgs = append(seedMsgs, codecMsg{"InputShare(leader).blind", mb(&in[0]), (L + P) * fld.Size, 0, func() message { return new(prio3.InputShare[V, E]).New(&params, 0) }})
		}
		for _, m := range seedMsgs {
			for _, fill := range []byte{0x00, 0xff} {
				caseID := fmt.Sprintf("codec|%s|%s|seeds=%02x", tag(inst, shares), m.name, fill)
				if !r.Want(caseID) {
					continue
				}
				r.Eval(1)
				r.Distinct(caseID)
				b := append([]byte{}, m.bytes...)
				for k := m.off; k < len(b); k++ {
					b[k] = fill
				}
				y := m.fresh()
				var uerr error
				var b2 []byte
				if p, what := verifmc.Try(func() {
					uerr = y.UnmarshalBinary(b)
					if uerr == nil {
						b2, _ = y.MarshalBinary()
					}
				}); p || uerr != nil || !bytes.Equal(b, b2) {
					r.Violation(fmt.Sprintf("C19|%s.%s.UnmarshalBinary|seed-bytes-refused-or-changed|%02x", inst.Kind, m.name, fill), caseID,
						fmt.Sprintf("%s: %s with seed bytes all %02x: err=%v panic=%q same=%v", tag(inst, shares), m.name, fill, uerr, what, bytes.Equal(b, b2)), nil)
					continue
				}
				r.Count("seed_messages_round_trip", 1)
			}
		}
		// aggregate shares holding p-1 must unshard: share0 = (p-1,..), share1 = (a_k+1,..), others 0 -> aggregate a
		caseID := fmt.Sprintf("codec|%s|unshard-with-p-1", tag(inst, shares))
		if r.Want(caseID) {
			r.Eval(1)
			r.Distinct(caseID)
			want := make([]uint64, OL)
			v0, v1, vz := make([]*big.Int, OL), make([]*big.Int, OL), make([]*big.Int, OL)
			for k := range want {
				want[k] = uint64(k + 1)
				v0[k], v1[k], vz[k] = pm1, big.NewInt(int64(k+2)), big.NewInt(0)
			}
			var got []uint64
			var fail string
			if p, what := verifmc.Try(func() {
				aggs := make([]prio3.AggShare[V, E], shares)
				for i := range aggs {
					src := vz
					if i == 0 {
						src = v0
					} else if i == 1 {
						src = v1
					}
					a := new(prio3.AggShare[V, E]).New(&params)
					if err := a.UnmarshalBinary(fld.EncVec(src)); err != nil {
						fail = fmt.Sprintf("AggShare.UnmarshalBinary of aggregator %d: %v", i, err)
						return
					}
					aggs[i] = *a
				}
				res, err := v.Unshard(aggs, 1)
				if err != nil || res == nil {
					fail = fmt.Sprintf("Unshard: %v", err)
					return
				}
				got = s.FromA(res)
			}); p {
				fail = "panic: " + what
			}
			if fail == "" && fmt.Sprint(got) != fmt.Sprint(want) {
				fail = fmt.Sprintf("Unshard gives %v, want %v", got, want)
			}
			if fail != "" {
				r.Violation(fmt.Sprintf("C19|%s.aggregate|aggregate-shares-with-p-1-not-unsharded|%s", inst.Kind, fld.Name), caseID,
					fmt.Sprintf("%s: valid aggregate shares (p-1,..),(a+1,..) for a=%v: %s", tag(inst, shares), want, fail), nil)
			} else {
				r.Count("unshard_with_p_minus_1_exact", 1)
			}
		}
		if ji == 0 {
			r.Sample(map[string]interface{}{"instance": inst.String(), "aggregators": shares, "messages": []string{"InputShare(leader)", "InputShare(helper)", "PublicShare", "PrepState", "PrepShare", "PrepMessage", "OutShare", "AggShare"},
				"leader_share_elements": L + P, "p_minus_1_hex_le": fmt.Sprintf("%x", rawLE(pm1))})
		}
	})
	r.RequireCounter("p_minus_1_accepted", 1)
	r.RequireCounter("noncanonical_refused", 1)
	r.RequireCounter("seed_messages_round_trip", 1)
	r.RequireCounter("unshard_with_p_minus_1_exact", 1)
}
