//go:build verif

package prio3_test

// C19 refcheck: binds the reference model verifref/prio (field moduli and
// element encoding, measurement encodings + truncation, plain aggregates) to
// the draft's own test vectors shipped in ./testdata (Prio3*.json), without
// running any circl Prio3 code. A failure here is a broken reference
// (t.Fatal), never an alarm.

import (
	"encoding/hex"
	"encoding/json"
	"fmt"
	"math/big"
	"os"
	"path/filepath"
	"strings"
	"testing"

	"github.com/cloudflare/circl/internal/verifmc"
	"github.com/cloudflare/circl/internal/verifref/prio"
)

type c19Vector struct {
	AggResult json.RawMessage `json:"agg_result"`
	AggShares []string        `json:"agg_shares"`
	Shares    int             `json:"shares"`
	MaxMeas   uint64          `json:"max_measurement"`
	Length    uint            `json:"length"`
	Bits      uint            `json:"bits"`
	ChunkLen  uint            `json:"chunk_length"`
	MaxWeight uint            `json:"max_weight"`
	Prep      []struct {
		Measurement json.RawMessage `json:"measurement"`
		OutShares   [][]string      `json:"out_shares"`
		InputShares []string        `json:"input_shares"`
		PublicShare string          `json:"public_share"`
	} `json:"prep"`
}

func c19ParseMeas(kind prio.Kind, raw json.RawMessage) ([]uint64, error) {
	switch kind {
	case prio.Count, prio.Sum, prio.Histogram:
		var v uint64
		if err := json.Unmarshal(raw, &v); err != nil {
			return nil, err
		}
		return []uint64{v}, nil
	case prio.SumVec:
		var v []uint64
		err := json.Unmarshal(raw, &v)
		return v, err
	default:
		var b []bool
		if err := json.Unmarshal(raw, &b); err != nil {
			return nil, err
		}
		v := make([]uint64, len(b))
		for i := range b {
			if b[i] {
				v[i] = 1
			}
		}
		return v, nil
	}
}

func TestVerifC19_refcheck(t *testing.T) {
	r := verifmc.Start(t, "C19", "refcheck")
	defer r.Finish()
	r.Rule("every Prio3*.json vector of the repository (draft-13 vectors): the reference's truncate(encode(measurement)) must equal the sum of the recorded " +
		"output shares, the reference aggregate must equal agg_result and the sum of the recorded aggregate shares; field moduli are checked to be the draft's primes; " +
		"non-trivial = each distinct (file, report)")

	// the moduli: p64 = 2^64-2^32+1, p128 = 2^66*4611686018427387897+1 (draft-13 section 6.1.2, table 3), prime, with the stated 2-adicity
	p64, _ := new(big.Int).SetString("18446744069414584321", 10)
	p128, _ := new(big.Int).SetString("340282366920938462946865773367900766209", 10)
	if prio.F64.P.Cmp(p64) != 0 || prio.F128.P.Cmp(p128) != 0 || !p64.ProbablyPrime(32) || !p128.ProbablyPrime(32) {
		t.Fatal("reference field moduli are not the draft's primes")
	}
	for _, c := range []struct {
		f *prio.Field
		k uint
	}{{prio.F64, 32}, {prio.F128, 66}} {
		pm1 := new(big.Int).Sub(c.f.P, big.NewInt(1))
		if pm1.TrailingZeroBits() != c.k {
			t.Fatalf("%s: 2-adicity %d, want %d", c.f.Name, pm1.TrailingZeroBits(), c.k)
		}
	}

	files, err := filepath.Glob("./testdata/Prio3*.json")
	if err != nil || len(files) < 10 {
		t.Fatalf("test vectors not found: %v (%d files)", err, len(files))
	}
	for _, fn := range files {
		raw, err := os.ReadFile(fn)
		if err != nil {
			t.Fatal(err)
		}
		var v c19Vector
		if err := json.Unmarshal(raw, &v); err != nil {
			t.Fatalf("%s: %v", fn, err)
		}
		name := strings.Split(strings.TrimPrefix(filepath.Base(fn), "Prio3"), "_")[0]
		var inst prio.Inst
		switch name {
		case "Count":
			inst = prio.Inst{Kind: prio.Count}
		case "Sum":
			inst = prio.Inst{Kind: prio.Sum, Max: v.MaxMeas}
		case "SumVec":
			inst = prio.Inst{Kind: prio.SumVec, Length: v.Length, Bits: v.Bits, Chunk: v.ChunkLen}
		case "Histogram":
			inst = prio.Inst{Kind: prio.Histogram, Length: v.Length, Chunk: v.ChunkLen}
		case "MultihotCountVec":
			inst = prio.Inst{Kind: prio.MultihotCountVec, Length: v.Length, MaxWeight: v.MaxWeight, Chunk: v.ChunkLen}
		default:
			t.Fatalf("unknown vector file %s", fn)
		}
		fld := inst.Field()
		if exp, _ := inst.Ctor(v.Shares); exp != prio.MustSucceed {
			t.Fatalf("%s: the reference does not classify the vector's parameters %s/shares=%d as admissible", fn, inst, v.Shares)
		}
		sumHex := func(hs []string) []*big.Int {
			var acc []*big.Int
			for _, h := range hs {
				b, err := hex.DecodeString(h)
				if err != nil {
					t.Fatal(err)
				}
				vec, ok := fld.DecVec(b)
				if !ok {
					t.Fatalf("%s: non-canonical field vector in the vector file (reference decoding wrong?)", fn)
				}
				if acc == nil {
					acc = make([]*big.Int, len(vec))
					for k := range acc {
						acc[k] = new(big.Int)
					}
				}
				if len(vec) != len(acc) {
					t.Fatalf("%s: share lengths differ", fn)
				}
				for k := range vec {
					acc[k] = fld.Mod(new(big.Int).Add(acc[k], vec[k]))
				}
			}
			return acc
		}
		eq := func(a, b []*big.Int) bool {
			if len(a) != len(b) {
				return false
			}
			for k := range a {
				if fld.Mod(a[k]).Cmp(fld.Mod(b[k])) != 0 {
					return false
				}
			}
			return true
		}
		var batch [][]uint64
		for pi, p := range v.Prep {
			m, err := c19ParseMeas(inst.Kind, p.Measurement)
			if err != nil {
				t.Fatalf("%s: measurement: %v", fn, err)
			}
			if !inst.ValidMeas(m) {
				t.Fatalf("%s: the reference calls the vector's measurement %v invalid", fn, m)
			}
			enc := inst.Encode(m)
			if len(enc) != inst.MeasLen() {
				t.Fatalf("%s: reference MEAS_LEN %d but encoding has %d elements", fn, inst.MeasLen(), len(enc))
			}
			if len(p.OutShares) != v.Shares {
				t.Fatalf("%s: %d out share lists for %d aggregators", fn, len(p.OutShares), v.Shares)
			}
			var flat []string
			for _, o := range p.OutShares {
				flat = append(flat, strings.Join(o, ""))
			}
			got := sumHex(flat)
			if !eq(got, inst.Truncate(enc)) || !eq(got, inst.Contribution(m)) || len(got) != inst.OutLen() {
				t.Fatalf("%s report %d: recorded output shares sum to %v; reference truncate(encode(%v)) = %v, contribution %v",
					fn, pi, got, m, inst.Truncate(enc), inst.Contribution(m))
			}
			// the leader's input share starts with MEAS_LEN field elements; helpers are one or two 32-byte seeds
			lb, _ := hex.DecodeString(p.InputShares[0])
			if len(lb) < inst.MeasLen()*fld.Size {
				t.Fatalf("%s: leader share shorter than MEAS_LEN elements", fn)
			}
			wantHelper, wantPub := 32, 0
			if inst.JointRand() {
				wantHelper, wantPub = 64, 32*v.Shares
			}
			for _, h := range p.InputShares[1:] {
				if len(h)/2 != wantHelper {
					t.Fatalf("%s: helper share of %d bytes, reference layout expects %d", fn, len(h)/2, wantHelper)
				}
			}
			if len(p.PublicShare)/2 != wantPub {
				t.Fatalf("%s: public share of %d bytes, reference layout expects %d", fn, len(p.PublicShare)/2, wantPub)
			}
			batch = append(batch, m)
			r.Eval(1)
			r.Distinct(fn, pi)
		}
		want := inst.Aggregate(batch)
		var res []*big.Int
		if inst.OutLen() == 1 && (inst.Kind == prio.Count || inst.Kind == prio.Sum) {
			var x uint64
			if err := json.Unmarshal(v.AggResult, &x); err != nil {
				t.Fatalf("%s: agg_result: %v", fn, err)
			}
			res = []*big.Int{new(big.Int).SetUint64(x)}
		} else {
			var xs []uint64
			if err := json.Unmarshal(v.AggResult, &xs); err != nil {
				t.Fatalf("%s: agg_result: %v", fn, err)
			}
			for _, x := range xs {
				res = append(res, new(big.Int).SetUint64(x))
			}
		}
		if !eq(want, res) || !inst.BelowModulus(want) {
			t.Fatalf("%s: reference aggregate %v, vector says %v", fn, want, res)
		}
		if got := sumHex(v.AggShares); !eq(got, want) {
			t.Fatalf("%s: recorded aggregate shares sum to %v, reference aggregate %v", fn, got, want)
		}
		r.Count("vector_files", 1)
		r.Sample(map[string]string{"file": filepath.Base(fn), "instance": inst.String(), "reports": fmt.Sprint(len(v.Prep)), "aggregate": fmt.Sprint(want)})
	}
	r.RequireCounter("vector_files", 10)
}
