//go:build verif

package arith_test

// C19 (number of aggregators): every validity circuit divides by the number of
// aggregators with Fp.InvUint64. Complete sweep of InvUint64(x) for x = 1..2^16
// in Field64 and Field128 against math/big (and against x * InvUint64(x) == 1
// on the real multiplication).

import (
	"bytes"
	"fmt"
	"math/big"
	"testing"

	"github.com/cloudflare/circl/internal/verifmc"
	"github.com/cloudflare/circl/internal/verifref/prio"
	"github.com/cloudflare/circl/vdaf/prio3/arith"
	"github.com/cloudflare/circl/vdaf/prio3/arith/fp128"
	"github.com/cloudflare/circl/vdaf/prio3/arith/fp64"
)

func c19InvSweep[E arith.Elt, F arith.Fp[E]](r *verifmc.Run, fld *prio.Field, limit uint64) {
	verifmc.ParallelFor(16, func(w int) {
		for x := uint64(1 + w); x <= limit; x += 16 {
			caseID := fmt.Sprintf("inv|%s|%d", fld.Name, x)
			if !r.Want(caseID) {
				continue
			}
			r.Eval(1)
			r.Distinct(caseID)
			inv, xe, prod := F(new(E)), F(new(E)), F(new(E))
			var got []byte
			var isOne bool
			if p, what := verifmc.Try(func() {
				inv.InvUint64(x)
				if err := xe.SetUint64(x); err != nil {
					panic(err)
				}
				prod.Mul(inv, xe)
				isOne = prod.IsOne()
				got, _ = inv.MarshalBinary()
			}); p {
				r.Violation(fmt.Sprintf("C19|%s.InvUint64|panic:%s|x in 1..2^16", fld.Name, verifmc.PanicClass(what)), caseID,
					fmt.Sprintf("%s InvUint64(%d) panics: %s", fld.Name, x, what), map[string]interface{}{"x": x})
				continue
			}
			want := fld.Enc(new(big.Int).ModInverse(new(big.Int).SetUint64(x), fld.P))
			if !isOne || !bytes.Equal(got, want) {
				cls := "other"
				switch {
				case x <= 8:
					cls = "table 1..8"
				case x&(x-1) == 0:
					cls = "power of two"
				case x <= 255:
					cls = "9..255"
				}
				r.Violation(fmt.Sprintf("C19|%s.InvUint64|wrong-inverse|%s", fld.Name, cls), caseID,
					fmt.Sprintf("%s: InvUint64(%d) = %x (little endian), want 1/%d = %x; x*InvUint64(x)==1: %v", fld.Name, x, got, x, want, isOne),
					map[string]interface{}{"field": fld.Name, "x": x})
				continue
			}
			r.Count("inverses_exact", 1)
			if x >= 2 && x <= 255 {
				r.Count("aggregator_counts_exact", 1)
			}
		}
	})
}

func TestVerifC19_arith_invuint64(t *testing.T) {
	r := verifmc.Start(t, "C19", "arith_invuint64")
	defer r.Finish()
	r.Rule("complete: InvUint64(x) for every x in 1..2^16 in Field64 and Field128, compared with the modular inverse from math/big (canonical little-endian encoding) " +
		"and with x*InvUint64(x) == 1 on the real multiplication; covers every possible number of aggregators 2..255; non-trivial = each distinct (field, x)")
	if new(big.Int).SetBytes(fp64.Fp{}.Order()).Cmp(prio.F64.P) != 0 || new(big.Int).SetBytes(new(fp128.Fp).Order()).Cmp(prio.F128.P) != 0 {
		t.Fatal("reference moduli differ from the orders circl reports")
	}
	const limit = 1 << 16
	r.Set("x_range", "1..65536")
	c19InvSweep[fp64.Fp, *fp64.Fp](r, prio.F64, limit)
	c19InvSweep[fp128.Fp, *fp128.Fp](r, prio.F128, limit)
	r.Sample(map[string]interface{}{"field": "Field64", "x": 16, "inverse_hex_le": fmt.Sprintf("%x", prio.F64.Enc(new(big.Int).ModInverse(big.NewInt(16), prio.F64.P)))})
	r.RequireCounter("inverses_exact", 1)
	r.RequireCounter("aggregator_counts_exact", 1)
}
