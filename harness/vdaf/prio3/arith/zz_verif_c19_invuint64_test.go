//go:build verif

package arith_test

// C19 (number of aggregators): every validity circuit divides by the number of
// aggregators with Fp.InvUint64. Complete sweep of InvUint64(x) for x = 1..2^16
// in Field64 and Field128 against math/big (and against x * InvUint64(x) == 1
// on the real multiplication).

import (
	"bytes"
	"fmt"
	"math/big"
	"testing"

	"github.com/cloudflare/circl/internal/verifmc"
	"github.com/cloudflare/circl/internal/verifref/prio"
	"github.com/cloudflare/circl/vdaf/prio3/arith"
	"github.com/cloudflare/circl/vdaf/prio3/arith/fp128"
	"github.com/cloudflare/circl/vdaf/prio3/arith/fp64"
)

func c19InvSweep[E arith.Elt, F arith.Fp[E]](r *verifmc.Run, fld *prio.Field, limit uint64) {
	verifmc.ParallelFor(16, func(w int) {
		for x := uint64(1 + w); x <= limit; x += 16 {
			caseID := fmt.Sprintf("inv|%s|%d", fld.Name, x)
			if !r.Want(caseID) {
				continue
			}
			r.Eval(1)
			r.Distinct(caseID)
			inv, xe, prod := F(new(E)), F(new(E)), F(new(E))
			var got []byte
			var isOne bool
			if p, what := verifmc.Try(func() {
				inv.InvUint64(x)
				if err := xe.SetUint64(x); err != nil {
					panic(err)
				}
				prod.Mul(inv, xe)
				isOne = prod.IsOne()
				got, _ = inv.MarshalBinary()
			}); p {
				r.Violation(fmt.Sprintf("C19|%s.InvUint64|panic:%s|x in 1..2^16", fld.Name, verifmc.PanicClass(what)), caseID,
					fmt.Sprintf("%s InvUint64(%d) panics: %s", fld.Name, x, what), map[string]interface{}{"x": x})
				continue
			}
			want := fld.Enc(new(big.Int).ModInverse(new(big.Int).SetUint64(x), fld.P))
			if !isOne || !bytes.Equal(got, want) {
				cls := "other"
				switch {
				case x <= 8:
					cls = "table 1..8"
				case x&(x-1) == 0:
					cls = "power of two"
				case x <= 255:
					cls = "9..255"
				}
				r.Violation(fmt.Sprintf("C19|%s.InvUint64|wrong-inverse|%s", fld.Name, cls), caseID,
					fmt.Sprintf("%s: InvUint64(%d) = %x (little endian), want 1/%d = %x; x*InvUint64(x)==1: %v", fld.Name, x, got, x, want, isOne),
					map[string]interface{}{"field": fld.Name, "x": x})
				continue
			}
			r.Count("inverses_exact", 1)
			if x >= 2 && x <= 255 {
				r.Count("aggregator_counts_exact", 1)
			}
		}
	})
}

func TestVerifC19_arith_invuint64(t *testing.T) {
	r := verifmc.Start(t, "C19", "arith_invuint64")
	defer r.Finish()
	r.Rule("complete: InvUint64(x) for every x in 1..2^16 in Field64 and Field128, compared with the modular inverse from math/big (canonical little-endian encoding) " +
		"and with x*InvUint64(x) == 1 on the real multiplication; covers every possible number of aggregators 2..255; non-trivial = each distinct (field, x)")
	if new(big.Int).SetBytes(fp64.Fp{}.Order()).Cmp(prio.F64.P) != 0 || new(big.Int).SetBytes(new(fp128.Fp).Order()).Cmp(prio.F128.P) != 0 {
		t.Fatal("reference moduli differ from the orders circl reports")
	}
	const limit = 1 << 16
	r.Set("x_range", "1..65536")
	c19InvSweep[fp64.Fp, *fp64.Fp](r, prio.F64, limit)
	c19InvSweep[fp128.Fp, *fp128.Fp](r, prio.F128, limit)
	r.Sample(map[string]interface{}{"field": "Field64", "x": 16, "inverse_hex_le": fmt.Sprintf("%x", prio.F64.Enc(new(big.Int).ModInverse(big.NewInt(16), prio.F64.P)))})
	r.RequireCounter("inverses_exact", 1)
	r.RequireCounter("aggregator_counts_exact", 1)
}

// c19CodecSweep: decoder round trip of every limb-boundary value, as a single element and at every
// position of a 3-element vector. Values below p must decode, re-encode to the same bytes and behave
// as that integer (x+1 compared with math/big); values >= p must be refused.
func c19CodecSweep[V arith.Vec[V, E], E arith.Elt, F arith.Fp[E]](r *verifmc.Run, fld *prio.Field, vals []*big.Int) {
	raw := func(x *big.Int) []byte {
		be := x.FillBytes(make([]byte, fld.Size))
		for a, b := 0, len(be)-1; a < b; a, b = a+1, b-1 {
			be[a], be[b] = be[b], be[a]
		}
		return be
	}
	one := F(new(E))
	one.SetOne()
	for _, val := range vals {
		canonical := val.Cmp(fld.P) < 0
		name := fmt.Sprintf("%x", val)
		if d := new(big.Int).Sub(val, fld.P); d.IsInt64() && d.Int64() >= -2 && d.Int64() <= 1 {
			name = map[int64]string{-2: "p-2", -1: "p-1", 0: "p", 1: "p+1"}[d.Int64()]
		}
		for pos := -1; pos < 3; pos++ { // -1: single element
			caseID := fmt.Sprintf("codec|%s|%s|pos%d", fld.Name, name, pos)
			if !r.Want(caseID) {
				continue
			}
			r.Eval(1)
			r.Distinct(caseID)
			what := "Fp.UnmarshalBinary"
			var err error
			var back, plus1 []byte
			var b []byte
			panicked, pw := verifmc.Try(func() {
				if pos < 0 {
					b = raw(val)
					x := F(new(E))
					if err = x.UnmarshalBinary(b); err == nil {
						back, _ = x.MarshalBinary()
						x.AddAssign((*E)(one))
						plus1, _ = x.MarshalBinary()
					}
					return
				}
				what = "Vec.UnmarshalBinary"
				for k := 0; k < 3; k++ {
					if k == pos {
						b = append(b, raw(val)...)
					} else {
						b = append(b, raw(big.NewInt(1))...)
					}
				}
				v := arith.NewVec[V](3)
				if err = v.UnmarshalBinary(b); err == nil {
					back, _ = v.MarshalBinary()
					x := F(&v[pos])
					x.AddAssign((*E)(one))
					plus1, _ = x.MarshalBinary()
				}
			})
			key := func(cls string) string { return fmt.Sprintf("C19|%s.%s|%s|%s", fld.Name, what, cls, name) }
			payload := map[string]interface{}{"field": fld.Name, "value_hex": fmt.Sprintf("%x", val), "position": pos, "bytes_hex": fmt.Sprintf("%x", b)}
			switch {
			case panicked:
				r.Violation(key("panic:"+verifmc.PanicClass(pw)), caseID, fmt.Sprintf("%s %s of %s: panic: %s", fld.Name, what, name, pw), payload)
			case canonical && err != nil:
				r.Violation(key("canonical-element-refused"), caseID,
					fmt.Sprintf("%s: %s refuses the valid field element %s (bytes %x, position %d): %v", fld.Name, what, name, raw(val), pos, err), payload)
			case canonical && (!bytes.Equal(back, b) || !bytes.Equal(plus1, fld.Enc(new(big.Int).Add(val, big.NewInt(1))))):
				r.Violation(key("decoded-value-wrong"), caseID,
					fmt.Sprintf("%s: %s of %s: re-encoded %x, x+1 = %x", fld.Name, what, name, back, plus1), payload)
			case !canonical && err == nil:
				r.Violation(key("noncanonical-element-accepted"), caseID, fmt.Sprintf("%s: %s accepts %s >= p", fld.Name, what, name), payload)
			case canonical:
				r.Count("canonical_accepted", 1)
			default:
				r.Count("noncanonical_refused", 1)
			}
		}
	}
}

func TestVerifC19_arith_codec(t *testing.T) {
	r := verifmc.Start(t, "C19", "arith_codec")
	defer r.Finish()
	r.Rule("complete product of limb-boundary values (Field64: 12 values around 0, 2^32, p, 2^64; Field128: high limb in {0,1,P1-1,P1,P1+1,2^64-1} x low limb in {0,1,2,2^64-2,2^64-1}) " +
		"decoded as a single element and at each position of a 3-element vector; below p: accepted, same bytes back, x+1 as in math/big; from p on: refused; non-trivial = each distinct (field, value, position)")
	u := func(x uint64) *big.Int { return new(big.Int).SetUint64(x) }
	p64 := prio.F64.P.Uint64()
	var v64 []*big.Int
	for _, x := range []uint64{0, 1, 2, 1<<32 - 1, 1 << 32, 1<<32 + 1, p64 - 2, p64 - 1, p64, p64 + 1, 1<<64 - 2, 1<<64 - 1} {
		v64 = append(v64, u(x))
	}
	hiP := new(big.Int).Rsh(prio.F128.P, 64).Uint64()
	var v128 []*big.Int
	for _, hi := range []uint64{0, 1, hiP - 1, hiP, hiP + 1, 1<<64 - 1} {
		for _, lo := range []uint64{0, 1, 2, 1<<64 - 2, 1<<64 - 1} {
			v128 = append(v128, new(big.Int).Add(new(big.Int).Lsh(u(hi), 64), u(lo)))
		}
	}
	c19CodecSweep[fp64.Vec, fp64.Fp, *fp64.Fp](r, prio.F64, v64)
	c19CodecSweep[fp128.Vec, fp128.Fp, *fp128.Fp](r, prio.F128, v128)
	r.Sample(map[string]interface{}{"field": "Field128", "p_minus_1_bytes_le": fmt.Sprintf("%x", prio.F128.Enc(new(big.Int).Sub(prio.F128.P, big.NewInt(1))))})
	r.RequireCounter("canonical_accepted", 1)
	r.RequireCounter("noncanonical_refused", 1)
}
