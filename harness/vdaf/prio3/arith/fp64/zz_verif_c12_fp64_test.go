//go:build verif

package fp64_test

// C12 for the Prio3 field of SIZEBITS bits (fiat-crypto Montgomery code, pure Go):
// every exported scalar operation of PKGNAME.Fp against math/big, operands
// entered through UnmarshalBinary (little-endian, canonical).

import (
	"fmt"
	"math/big"
	"os"
	"testing"

	"github.com/cloudflare/circl/internal/verifmc"
	bf "github.com/cloudflare/circl/internal/verifref/bigfield"
	fp "github.com/cloudflare/circl/vdaf/prio3/arith/fp64"
)

var c12P = bf.P64

const c12Name = "prio3.fp64"

// c12ConstReader repeats one encoding for ever.
type c12ConstReader []byte

func (c c12ConstReader) Read(p []byte) (int, error) {
	for i := range p {
		p[i] = c[i%len(c)]
	}
	return len(p), nil
}

func TestVerifC12_fp64(t *testing.T) {
	if c := os.Getenv("VERIF_CONFIG"); c != "" && c != "default" {
		t.Skip("pure Go code: identical in every configuration; run under default only")
	}
	r := verifmc.Start(t, "C12", "fp64")
	defer r.Finish()
	if bad := bf.SelfCheck(); len(bad) != 0 {
		t.Fatalf("reference constants not bound: %v", bad)
	}
	P := c12P
	var zero fp.Fp
	if new(big.Int).SetBytes(zero.Order()).Cmp(P) != 0 {
		t.Fatalf("Fp.Order() differs from the VDAF modulus")
	}
	e := func(x bf.Elem) *fp.Fp { return x.(*fp.Fp) }
	f := &bf.Field{
		Prop: "C12", Name: c12Name, P: P, Hex: 2 * fp.Size,
		New: func() bf.Elem { return new(fp.Fp) },
		Load: func(z bf.Elem, v *big.Int) bool {
			if v.Sign() < 0 || v.Cmp(P) >= 0 {
				return false
			}
			return e(z).UnmarshalBinary(bf.LE(v, fp.Size)) == nil
		},
		Copy: func(d, s bf.Elem) { *e(d) = *e(s) },
		Raw: func(x bf.Elem) *big.Int {
			b, err := e(x).MarshalBinary()
			if err != nil || len(b) != fp.Size {
				panic(fmt.Sprint("MarshalBinary: ", err, len(b)))
			}
			return bf.FromLE(b)
		},
		Same: func(a, b bf.Elem) bool { return *e(a) == *e(b) },
		Junk: bf.Pseudo(c12Name+"-junk", 0, P),
		Par:  verifmc.ParallelFor,
	}
	// 32-bit words: the modulus has structure at 32-bit boundaries (2^64-2^32+1; 2^128-28*2^64+1)
	words := []uint64{0, 1, 2, 27, 28, 29, 1<<31 - 1, 1 << 31, 1<<32 - 29, 1<<32 - 28, 1<<32 - 2, 1<<32 - 1}
	if r.Thorough() {
		words = append(words, 3, 1<<16, 1<<30, 0x55555555, 0xaaaaaaaa, 1<<32-3)
	}
	nw := fp.Size / 4
	var lim []bf.Operand
	idx := make([]int, nw)
	maxFull := 2 // product over the top two and bottom two words, middle words tied to 00/FF
	var rec func(k int)
	rec = func(k int) {
		if k == nw {
			v := new(big.Int)
			for i := nw - 1; i >= 0; i-- {
				v.Lsh(v, 32).Or(v, new(big.Int).SetUint64(words[idx[i]]))
			}
			lim = append(lim, bf.Operand{V: v, Name: "words"})
			return
		}
		if nw > 2*maxFull && k >= maxFull && k < nw-maxFull {
			for _, w := range []int{0, len(words) - 1} {
				idx[k] = w
				rec(k + 1)
			}
			return
		}
		for w := range words {
			idx[k] = w
			rec(k + 1)
		}
	}
	if nw <= 4 {
		maxFull = 1
		if nw == 2 {
			maxFull = 1
		}
	}
	rec(0)
	ia := bf.IntAlphabet(P, 32, 32, c12Name)
	all := f.Prepare("e", bf.Append(P, ia, lim))
	pairs := all
	if all.Len() > r.Pick(700, 2500) {
		pairs = f.Prepare("e", bf.Append(P, ia, bf.Thin(lim, r.Pick(700, 2500)-len(ia))))
	}
	small := f.Prepare("k", bf.Thin(all.Ops, r.Pick(60, 160)))
	f.CheckAccepted(r, "UnmarshalBinary", all)
	r.Set("elements", all.Len())
	r.Set("pair_elements", pairs.Len())
	r.Rule("operands: residues below the modulus entered through UnmarshalBinary: 32-bit-word products over a 12/18-value word list (top and bottom words free, middle words tied to 00/FF), the integer alphabet around every 32/16-bit boundary (and modulus minus those, R, R^2, 1/R), 32 pseudo-random; ALL ordered pairs of the pair list for Add/Sub/Mul and the *Assign forms, junk-filled outputs, aliasing z=x, z=y, x=y, z=x=y; pair sweeps above 1.5e6 cases are counted by the ordered_pairs counters instead of being hashed into distinct_nontrivial; codec sweep: every alphabet value plus boundary integers of the encoding (0.., p-3..p+3, 2^bits-3.., p with each limb replaced by boundary words, high limb at each boundary x low limbs 00/FF) through Fp/Vec (first, middle, last position)/Poly decoding, re-encoding and rejection sampling; a distinct case is one (operation, operand tuple)")
	r.NotExhaustive("operands are the declared alphabet, not all residues")

	bin := []bf.BinOp{
		{Name: "Add", Do: func(z, x, y bf.Elem) { e(z).Add(e(x), e(y)) }, Ref: bf.RefAdd, Canon: true},
		{Name: "Sub", Do: func(z, x, y bf.Elem) { e(z).Sub(e(x), e(y)) }, Ref: bf.RefSub, Canon: true},
		{Name: "Mul", Do: func(z, x, y bf.Elem) { e(z).Mul(e(x), e(y)) }, Ref: bf.RefMul, Canon: true},
		{Name: "AddAssign", Do: func(z, x, y bf.Elem) { *e(z) = *e(x); e(z).AddAssign(e(y)) }, Ref: bf.RefAdd, Canon: true, NoAlias: true},
		{Name: "SubAssign", Do: func(z, x, y bf.Elem) { *e(z) = *e(x); e(z).SubAssign(e(y)) }, Ref: bf.RefSub, Canon: true, NoAlias: true},
		{Name: "MulAssign", Do: func(z, x, y bf.Elem) { *e(z) = *e(x); e(z).MulAssign(e(y)) }, Ref: bf.RefMul, Canon: true, NoAlias: true},
	}
	for _, op := range bin {
		f.CheckBin(r, op, pairs, pairs, op.Name == "Mul" && bf.HashPairs(pairs.Len()*pairs.Len()))
	}
	r.Count("ordered_pairs", pairs.Len()*pairs.Len())
	un := []bf.UnOp{
		{Name: "Sqr", Do: func(z, x bf.Elem) { e(z).Sqr(e(x)) }, Ref: bf.RefSqr, Canon: true},
		{Name: "Inv", Do: func(z, x bf.Elem) { e(z).Inv(e(x)) }, Ref: bf.RefInv, Canon: true},
		{Name: "MulAssign(self)", Do: func(z, x bf.Elem) { *e(z) = *e(x); e(z).MulAssign(e(z)) }, Ref: bf.RefSqr, Canon: true},
		{Name: "AddAssign(self)", Do: func(z, x bf.Elem) { *e(z) = *e(x); e(z).AddAssign(e(z)) }, Ref: func(out, x, p *big.Int) bool { out.Lsh(x, 1).Mod(out, p); return true }, Canon: true},
		{Name: "SubAssign(self)", Do: func(z, x bf.Elem) { *e(z) = *e(x); e(z).SubAssign(e(z)) }, Ref: func(out, x, p *big.Int) bool { out.SetInt64(0); return true }, Canon: true},
		{Name: "SetOne", Do: func(z, x bf.Elem) { e(z).SetOne() }, Ref: func(out, x, p *big.Int) bool { out.SetInt64(1); return true }, Canon: true},
	}
	for _, op := range un {
		f.CheckUn(r, op, all, true)
	}
	f.CheckPred(r, bf.Pred{Name: "IsZero", Do: func(x bf.Elem) bool { return e(x).IsZero() }, Ref: bf.RefIsZero}, all)
	f.CheckPred(r, bf.Pred{Name: "IsOne", Do: func(x bf.Elem) bool { return e(x).IsOne() }, Ref: bf.RefIsOne}, all)
	f.CheckBitFlips(r, bf.BitFlip{Coords: 1, Bits: 8 * fp.Size, P: P, R: bf.Pow2(8 * fp.Size), Limit: P,
		IsZero: func(x bf.Elem) bool { return e(x).IsZero() }, IsOne: func(x bf.Elem) bool { return e(x).IsOne() }, IsEqual: func(x, y bf.Elem) bool { return e(x).IsEqual(e(y)) }},
		[]bf.Operand{{V: new(big.Int), Name: "0"}, {V: big.NewInt(1), Name: "1"}, {V: new(big.Int).Sub(P, big.NewInt(1)), Name: "p-1"}, {V: bf.Pseudo("prio3-pred", 0, P), Name: "pseudo0"}, {V: bf.Pseudo("prio3-pred", 1, P), Name: "pseudo1"}})
	r.RequireCounter(c12Name+".predicates.one-bit-neighbours", int64(4*(8*fp.Size-1)))
	r.RequireCounter(c12Name+".IsZero.true", 1)
	r.RequireCounter(c12Name+".IsOne.true", 1)
	neq := 0
	for i := 0; i < small.Len(); i++ {
		for j := 0; j < small.Len(); j++ {
			r.Eval(1)
			neq++
			if got, want := e(small.E[i]).IsEqual(e(small.E[j])), small.Red[i].Cmp(small.Red[j]) == 0; got != want {
				r.Violation("C12|"+c12Name+".IsEqual|wrong-flag|-|reduced", fmt.Sprintf("%s.IsEqual#k%d,k%d", c12Name, i, j), "IsEqual wrong", nil)
			}
		}
	}
	r.Count(c12Name+".IsEqual", neq)

	// SetUint64 / GetUint64 / InvUint64
	u64 := []uint64{0, 1, 2, 3, 4, 5, 6, 7, 8, 9, 10, 255, 1<<32 - 1, 1 << 32, 1<<32 + 1, 1<<63 - 1, 1 << 63, 0xffffffff00000000, 0xffffffff00000001, 0xffffffff00000002, ^uint64(0) - 1, ^uint64(0)}
	for i, nn := range u64 {
		v := new(big.Int).SetUint64(nn)
		z := new(fp.Fp)
		*z = *e(all.E[all.Len()/2])
		err := z.SetUint64(nn)
		r.Eval(1)
		cid := fmt.Sprintf("%s.SetUint64#%d", c12Name, i)
		r.Distinct(cid)
		if v.Cmp(P) >= 0 {
			// not a residue: must be refused (a silently reduced value would also be a correct residue)
			if err == nil {
				f.Expect(r, "SetUint64", "above-modulus-accepted", cid, z, v, true, v)
			}
		} else {
			if err != nil {
				r.Violation("C12|"+c12Name+".SetUint64|refused-residue|-|reduced", cid, fmt.Sprintf("SetUint64(%d): %v", nn, err), nil)
				continue
			}
			f.Expect(r, "SetUint64", "-", cid, z, v, true, v)
			got, gerr := z.GetUint64()
			if gerr != nil || got != nn {
				r.Violation("C12|"+c12Name+".GetUint64|wrong-value|-|reduced", cid, fmt.Sprintf("GetUint64 after SetUint64(%d) = %d, %v", nn, got, gerr), nil)
			}
			if nn != 0 {
				iz := new(fp.Fp)
				iz.InvUint64(nn)
				f.Expect(r, "InvUint64", "-", cid, iz, new(big.Int).ModInverse(v, P), true, v)
			}
		}
	}
	// GetUint64 on every element: the value when it fits in 64 bits, an error otherwise
	for i := 0; i < all.Len(); i++ {
		x := *e(all.E[i])
		got, err := x.GetUint64()
		r.Eval(1)
		fits := all.Red[i].IsUint64()
		if fits != (err == nil) || (fits && got != all.Red[i].Uint64()) {
			r.Violation("C12|"+c12Name+".GetUint64|wrong-value|-|reduced", fmt.Sprintf("%s.GetUint64#e%d", c12Name, i), fmt.Sprintf("GetUint64(%x) = %d, %v", all.Red[i], got, err), nil)
		}
	}
	// InvTwoN(n) = 2^-n, SetRootOfUnityTwoN(n): order exactly 2^n
	two := big.NewInt(2)
	for n := uint(0); n <= 130; n++ {
		z := new(fp.Fp)
		z.InvTwoN(n)
		r.Eval(1)
		w := new(big.Int).Exp(two, new(big.Int).SetUint64(uint64(n)), P)
		w.ModInverse(w, P)
		f.Expect(r, "InvTwoN", "-", fmt.Sprintf("%s.InvTwoN#%d", c12Name, n), z, w, true, new(big.Int).SetUint64(uint64(n)))
	}
	nr := zero.OrderRootUnity()
	for n := uint(0); n <= nr; n++ {
		z := new(fp.Fp)
		z.SetRootOfUnityTwoN(n)
		r.Eval(1)
		w := f.Raw(z)
		ord := new(big.Int).Lsh(big.NewInt(1), n)
		ok := new(big.Int).Exp(w, ord, P).Cmp(big.NewInt(1)) == 0
		if n > 0 {
			ok = ok && new(big.Int).Exp(w, new(big.Int).Rsh(ord, 1), P).Cmp(new(big.Int).Sub(P, big.NewInt(1))) == 0
		}
		if !ok || w.Cmp(P) >= 0 {
			r.Violation("C12|"+c12Name+".SetRootOfUnityTwoN|wrong-order|-|reduced", fmt.Sprintf("%s.SetRootOfUnityTwoN#%d", c12Name, n), fmt.Sprintf("root %x does not have order 2^%d", w, n), nil)
		}
	}
	r.Count(c12Name+".roots-of-unity", int(nr)+1)
	// 2^nr must divide p-1 exactly to the claimed depth
	if new(big.Int).Mod(new(big.Int).Sub(P, big.NewInt(1)), new(big.Int).Lsh(big.NewInt(1), nr)).Sign() != 0 {
		t.Fatalf("2^%d does not divide p-1", nr)
	}
	// ---- conversion from and to bytes: Fp, Vec and Poly codecs, rejection sampling ----
	// every alphabet value plus boundary integers of the encoding: MarshalBinary(UnmarshalBinary(enc(v))) = enc(v) for v < p,
	// UnmarshalBinary refuses exactly the values >= p, at the first / middle / last position of a vector
	encLim := bf.Pow2(8 * fp.Size)
	var cod []bf.Operand
	cod = append(cod, all.Ops...)
	cod = append(cod, bf.Around(new(big.Int), 0, 3, "0")...)
	cod = append(cod, bf.Around(P, -3, 3, "p")...)
	cod = append(cod, bf.Around(encLim, -3, -1, "2^bits")...)
	cod = append(cod, bf.Around(new(big.Int).Rsh(encLim, 1), -1, 1, "2^(bits-1)")...)
	pl := bf.ToLimbs(P, fp.Size/8)
	for i := range pl { // p with limb i replaced by boundary words, and +-1 on it
		for _, w := range []uint64{0, 1, pl[i] - 1, pl[i], pl[i] + 1, 1<<63 - 1, 1 << 63, ^uint64(0) - 1, ^uint64(0)} {
			l := append([]uint64{}, pl...)
			l[i] = w
			cod = append(cod, bf.Operand{V: bf.FromLimbs(l), Name: "p[limb" + fmt.Sprint(i) + "=w]"})
		}
	}
	for _, hi := range []uint64{0, 1, pl[len(pl)-1] - 1, pl[len(pl)-1], pl[len(pl)-1] + 1, ^uint64(0)} { // high limb at each boundary x low limbs 00 / FF
		for _, lo := range []uint64{0, ^uint64(0)} {
			l := make([]uint64, len(pl))
			for i := range l {
				l[i] = lo
			}
			l[len(l)-1] = hi
			cod = append(cod, bf.Operand{V: bf.FromLimbs(l), Name: "hi-boundary"})
		}
	}
	cod = bf.Append(encLim, cod)
	filler := bf.LE(bf.Pseudo(c12Name+"-filler", 0, P), fp.Size)
	var nAcc, nRef int
	codecBad := func(fn, class, cid, what string, v *big.Int) {
		rng := "reduced"
		if v.Cmp(P) >= 0 {
			rng = "unreduced"
		}
		r.Violation("C12|"+c12Name+"."+fn+"|"+class+"|-|"+rng, cid, what, map[string]string{"value": v.Text(16)})
	}
	for ci, o := range cod {
		v := o.V
		enc := bf.LE(v, fp.Size)
		valid := v.Cmp(P) < 0
		cid := fmt.Sprintf("%s.codec#%d", c12Name, ci)
		if r.Replaying() && r.ReplayCase() != cid {
			continue
		}
		r.Distinct(cid)
		// scalar
		z := new(fp.Fp)
		err := z.UnmarshalBinary(enc)
		r.Eval(1)
		switch {
		case valid && err != nil:
			codecBad("UnmarshalBinary", "refuses-canonical-value", cid, fmt.Sprintf("Fp.UnmarshalBinary(%x) (value %x < p): %v", enc, v, err), v)
		case !valid && err == nil:
			codecBad("UnmarshalBinary", "accepts-value-above-modulus", cid, fmt.Sprintf("Fp.UnmarshalBinary(%x) (value %x >= p) accepted", enc, v), v)
		case valid:
			nAcc++
			out, merr := z.MarshalBinary()
			if merr != nil || string(out) != string(enc) {
				codecBad("MarshalBinary", "round-trip", cid, fmt.Sprintf("MarshalBinary(UnmarshalBinary(%x)) = %x, %v", enc, out, merr), v)
			}
		default:
			nRef++
		}
		// vectors and polynomials: the value at the first, middle and last position of 5 elements
		for _, pos := range []int{0, 2, 4} {
			buf := make([]byte, 0, 5*fp.Size)
			for k := 0; k < 5; k++ {
				if k == pos {
					buf = append(buf, enc...)
				} else {
					buf = append(buf, filler...)
				}
			}
			vec := make(fp.Vec, 5)
			verr := vec.UnmarshalBinary(buf)
			r.Eval(1)
			if valid != (verr == nil) {
				codecBad("Vec.UnmarshalBinary", map[bool]string{true: "refuses-canonical-value", false: "accepts-value-above-modulus"}[valid], cid,
					fmt.Sprintf("Vec.UnmarshalBinary with %x at position %d of 5: err=%v", enc, pos, verr), v)
				continue
			}
			if valid {
				out, merr := vec.MarshalBinary()
				if merr != nil || string(out) != string(buf) {
					codecBad("Vec.MarshalBinary", "round-trip", cid, fmt.Sprintf("Vec round trip with %x at position %d changed the bytes", enc, pos), v)
				}
				if f.Raw(&vec[pos]).Cmp(v) != 0 {
					codecBad("Vec.UnmarshalBinary", "wrong-value", cid, fmt.Sprintf("Vec.UnmarshalBinary position %d holds %x, want %x", pos, f.Raw(&vec[pos]), v), v)
				}
				// Poly shares the representation: evaluate at 1 gives the coefficient sum
				pol := fp.Poly(vec)
				var onE fp.Fp
				onE.SetOne()
				sum := pol.Evaluate(&onE)
				want := new(big.Int).Mul(bf.FromLE(filler), big.NewInt(4))
				want.Add(want, v).Mod(want, P)
				if f.Raw(&sum).Cmp(want) != 0 {
					codecBad("Poly.Evaluate", "wrong-value", cid, fmt.Sprintf("Poly(decoded).Evaluate(1) = %x, want %x", f.Raw(&sum), want), v)
				}
			}
			// wrong total length must be refused
			if vec.UnmarshalBinary(buf[:len(buf)-1]) == nil || vec.UnmarshalBinary(append(buf, 0)) == nil {
				codecBad("Vec.UnmarshalBinary", "accepts-wrong-length", cid, "Vec.UnmarshalBinary accepted a truncated / extended string", v)
			}
		}
		// rejection sampling sees the same range check: a reader that only produces enc
		var rz fp.Fp
		rerr := rz.Random(c12ConstReader(enc))
		rv := make(fp.Vec, 3)
		rverr := rv.Random(c12ConstReader(enc))
		r.Eval(2)
		if valid != (rerr == nil) || valid != (rverr == nil) || (valid && (f.Raw(&rz).Cmp(v) != 0 || f.Raw(&rv[2]).Cmp(v) != 0)) {
			codecBad("Random", map[bool]string{true: "refuses-canonical-value", false: "accepts-value-above-modulus"}[valid], cid,
				fmt.Sprintf("Random from a stream of %x: err=%v/%v value %x", enc, rerr, rverr, f.Raw(&rz)), v)
		}
	}
	r.Count(c12Name+".codec.values", len(cod))
	r.Count(c12Name+".codec.accepted", nAcc)
	r.Count(c12Name+".codec.refused", nRef)
	r.RequireCounter(c12Name+".codec.accepted", 100)
	r.RequireCounter(c12Name+".codec.refused", 5)
	for i := 0; i < 3; i++ {
		k := i*all.Len()/3 + 5
		r.Sample(map[string]string{"element": all.Ops[k].Name, "value": all.Ops[k].V.Text(16)})
	}
}
