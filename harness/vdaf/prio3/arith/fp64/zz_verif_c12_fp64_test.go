//go:build verif

package fp64_test

// C12 for the Prio3 field of SIZEBITS bits (fiat-crypto Montgomery code, pure Go):
// every exported scalar operation of PKGNAME.Fp against math/big, operands
// entered through UnmarshalBinary (little-endian, canonical).

import (
	"fmt"
	"math/big"
	"os"
	"testing"

	"github.com/cloudflare/circl/internal/verifmc"
	bf "github.com/cloudflare/circl/internal/verifref/bigfield"
	fp "github.com/cloudflare/circl/vdaf/prio3/arith/fp64"
)

var c12P = bf.P64

const c12Name = "prio3.fp64"

func TestVerifC12_fp64(t *testing.T) {
	if c := os.Getenv("VERIF_CONFIG"); c != "" && c != "default" {
		t.Skip("pure Go code: identical in every configuration; run under default only")
	}
	r := verifmc.Start(t, "C12", "fp64")
	defer r.Finish()
	if bad := bf.SelfCheck(); len(bad) != 0 {
		t.Fatalf("reference constants not bound: %v", bad)
	}
	P := c12P
	var zero fp.Fp
	if new(big.Int).SetBytes(zero.Order()).Cmp(P) != 0 {
		t.Fatalf("Fp.Order() differs from the VDAF modulus")
	}
	e := func(x bf.Elem) *fp.Fp { return x.(*fp.Fp) }
	f := &bf.Field{
		Prop: "C12", Name: c12Name, P: P, Hex: 2 * fp.Size,
		New: func() bf.Elem { return new(fp.Fp) },
		Load: func(z bf.Elem, v *big.Int) bool {
			if v.Sign() < 0 || v.Cmp(P) >= 0 {
				return false
			}
			return e(z).UnmarshalBinary(bf.LE(v, fp.Size)) == nil
		},
		Copy: func(d, s bf.Elem) { *e(d) = *e(s) },
		Raw: func(x bf.Elem) *big.Int {
			b, err := e(x).MarshalBinary()
			if err != nil || len(b) != fp.Size {
				panic(fmt.Sprint("MarshalBinary: ", err, len(b)))
			}
			return bf.FromLE(b)
		},
		Same: func(a, b bf.Elem) bool { return *e(a) == *e(b) },
		Junk: bf.Pseudo(c12Name+"-junk", 0, P),
		Par:  verifmc.ParallelFor,
	}
	// 32-bit words: the modulus has structure at 32-bit boundaries (2^64-2^32+1; 2^128-28*2^64+1)
	words := []uint64{0, 1, 2, 27, 28, 29, 1<<31 - 1, 1 << 31, 1<<32 - 29, 1<<32 - 28, 1<<32 - 2, 1<<32 - 1}
	if r.Thorough() {
		words = append(words, 3, 1<<16, 1<<30, 0x55555555, 0xaaaaaaaa, 1<<32-3)
	}
	nw := fp.Size / 4
	var lim []bf.Operand
	idx := make([]int, nw)
	maxFull := 2 // product over the top two and bottom two words, middle words tied to 00/FF
	var rec func(k int)
	rec = func(k int) {
		if k == nw {
			v := new(big.Int)
			for i := nw - 1; i >= 0; i-- {
				v.Lsh(v, 32).Or(v, new(big.Int).SetUint64(words[idx[i]]))
			}
			lim = append(lim, bf.Operand{V: v, Name: "words"})
			return
		}
		if nw > 2*maxFull && k >= maxFull && k < nw-maxFull {
			for _, w := range []int{0, len(words) - 1} {
				idx[k] = w
				rec(k + 1)
			}
			return
		}
		for w := range words {
			idx[k] = w
			rec(k + 1)
		}
	}
	if nw <= 4 {
		maxFull = 1
		if nw == 2 {
			maxFull = 1
		}
	}
	rec(0)
	ia := bf.IntAlphabet(P, 32, 32, c12Name)
	all := f.Prepare("e", bf.Append(P, ia, lim))
	pairs := all
	if all.Len() > r.Pick(700, 2500) {
		pairs = f.Prepare("e", bf.Append(P, ia, bf.Thin(lim, r.Pick(700, 2500)-len(ia))))
	}
	small := f.Prepare("k", bf.Thin(all.Ops, r.Pick(60, 160)))
	r.Set("elements", all.Len())
	r.Set("pair_elements", pairs.Len())
	r.Rule("operands: residues below the modulus entered through UnmarshalBinary: 32-bit-word products over a 12/18-value word list (top and bottom words free, middle words tied to 00/FF), the integer alphabet around every 32/16-bit boundary (and modulus minus those, R, R^2, 1/R), 32 pseudo-random; ALL ordered pairs of the pair list for Add/Sub/Mul and the *Assign forms, junk-filled outputs, aliasing z=x, z=y, x=y, z=x=y; pair sweeps above 1.5e6 cases are counted by the ordered_pairs counters instead of being hashed into distinct_nontrivial; a distinct case is one (operation, operand tuple)")
	r.NotExhaustive("operands are the declared alphabet, not all residues")

	bin := []bf.BinOp{
		{Name: "Add", Do: func(z, x, y bf.Elem) { e(z).Add(e(x), e(y)) }, Ref: bf.RefAdd, Canon: true},
		{Name: "Sub", Do: func(z, x, y bf.Elem) { e(z).Sub(e(x), e(y)) }, Ref: bf.RefSub, Canon: true},
		{Name: "Mul", Do: func(z, x, y bf.Elem) { e(z).Mul(e(x), e(y)) }, Ref: bf.RefMul, Canon: true},
		{Name: "AddAssign", Do: func(z, x, y bf.Elem) { *e(z) = *e(x); e(z).AddAssign(e(y)) }, Ref: bf.RefAdd, Canon: true, NoAlias: true},
		{Name: "SubAssign", Do: func(z, x, y bf.Elem) { *e(z) = *e(x); e(z).SubAssign(e(y)) }, Ref: bf.RefSub, Canon: true, NoAlias: true},
		{Name: "MulAssign", Do: func(z, x, y bf.Elem) { *e(z) = *e(x); e(z).MulAssign(e(y)) }, Ref: bf.RefMul, Canon: true, NoAlias: true},
	}
	for _, op := range bin {
		f.CheckBin(r, op, pairs, pairs, op.Name == "Mul" && bf.HashPairs(pairs.Len()*pairs.Len()))
	}
	r.Count("ordered_pairs", pairs.Len()*pairs.Len())
	un := []bf.UnOp{
		{Name: "Sqr", Do: func(z, x bf.Elem) { e(z).Sqr(e(x)) }, Ref: bf.RefSqr, Canon: true},
		{Name: "Inv", Do: func(z, x bf.Elem) { e(z).Inv(e(x)) }, Ref: bf.RefInv, Canon: true},
		{Name: "MulAssign(self)", Do: func(z, x bf.Elem) { *e(z) = *e(x); e(z).MulAssign(e(z)) }, Ref: bf.RefSqr, Canon: true},
		{Name: "AddAssign(self)", Do: func(z, x bf.Elem) { *e(z) = *e(x); e(z).AddAssign(e(z)) }, Ref: func(out, x, p *big.Int) bool { out.Lsh(x, 1).Mod(out, p); return true }, Canon: true},
		{Name: "SubAssign(self)", Do: func(z, x bf.Elem) { *e(z) = *e(x); e(z).SubAssign(e(z)) }, Ref: func(out, x, p *big.Int) bool { out.SetInt64(0); return true }, Canon: true},
		{Name: "SetOne", Do: func(z, x bf.Elem) { e(z).SetOne() }, Ref: func(out, x, p *big.Int) bool { out.SetInt64(1); return true }, Canon: true},
	}
	for _, op := range un {
		f.CheckUn(r, op, all, true)
	}
	f.CheckPred(r, bf.Pred{Name: "IsZero", Do: func(x bf.Elem) bool { return e(x).IsZero() }, Ref: bf.RefIsZero}, all)
	f.CheckPred(r, bf.Pred{Name: "IsOne", Do: func(x bf.Elem) bool { return e(x).IsOne() }, Ref: bf.RefIsOne}, all)
	r.RequireCounter(c12Name+".IsZero.true", 1)
	r.RequireCounter(c12Name+".IsOne.true", 1)
	neq := 0
	for i := 0; i < small.Len(); i++ {
		for j := 0; j < small.Len(); j++ {
			r.Eval(1)
			neq++
			if got, want := e(small.E[i]).IsEqual(e(small.E[j])), small.Red[i].Cmp(small.Red[j]) == 0; got != want {
				r.Violation("C12|"+c12Name+".IsEqual|wrong-flag|-|reduced", fmt.Sprintf("%s.IsEqual#k%d,k%d", c12Name, i, j), "IsEqual wrong", nil)
			}
		}
	}
	r.Count(c12Name+".IsEqual", neq)

	// SetUint64 / GetUint64 / InvUint64
	u64 := []uint64{0, 1, 2, 3, 4, 5, 6, 7, 8, 9, 10, 255, 1<<32 - 1, 1 << 32, 1<<32 + 1, 1<<63 - 1, 1 << 63, 0xffffffff00000000, 0xffffffff00000001, 0xffffffff00000002, ^uint64(0) - 1, ^uint64(0)}
	for i, nn := range u64 {
		v := new(big.Int).SetUint64(nn)
		z := new(fp.Fp)
		*z = *e(all.E[all.Len()/2])
		err := z.SetUint64(nn)
		r.Eval(1)
		cid := fmt.Sprintf("%s.SetUint64#%d", c12Name, i)
		r.Distinct(cid)
		if v.Cmp(P) >= 0 {
			// not a residue: must be refused (a silently reduced value would also be a correct residue)
			if err == nil {
				f.Expect(r, "SetUint64", "above-modulus-accepted", cid, z, v, true, v)
			}
		} else {
			if err != nil {
				r.Violation("C12|"+c12Name+".SetUint64|refused-residue|-|reduced", cid, fmt.Sprintf("SetUint64(%d): %v", nn, err), nil)
				continue
			}
			f.Expect(r, "SetUint64", "-", cid, z, v, true, v)
			got, gerr := z.GetUint64()
			if gerr != nil || got != nn {
				r.Violation("C12|"+c12Name+".GetUint64|wrong-value|-|reduced", cid, fmt.Sprintf("GetUint64 after SetUint64(%d) = %d, %v", nn, got, gerr), nil)
			}
			if nn != 0 {
				iz := new(fp.Fp)
				iz.InvUint64(nn)
				f.Expect(r, "InvUint64", "-", cid, iz, new(big.Int).ModInverse(v, P), true, v)
			}
		}
	}
	// GetUint64 on every element: the value when it fits in 64 bits, an error otherwise
	for i := 0; i < all.Len(); i++ {
		x := *e(all.E[i])
		got, err := x.GetUint64()
		r.Eval(1)
		fits := all.Red[i].IsUint64()
		if fits != (err == nil) || (fits && got != all.Red[i].Uint64()) {
			r.Violation("C12|"+c12Name+".GetUint64|wrong-value|-|reduced", fmt.Sprintf("%s.GetUint64#e%d", c12Name, i), fmt.Sprintf("GetUint64(%x) = %d, %v", all.Red[i], got, err), nil)
		}
	}
	// InvTwoN(n) = 2^-n, SetRootOfUnityTwoN(n): order exactly 2^n
	two := big.NewInt(2)
	for n := uint(0); n <= 130; n++ {
		z := new(fp.Fp)
		z.InvTwoN(n)
		r.Eval(1)
		w := new(big.Int).Exp(two, new(big.Int).SetUint64(uint64(n)), P)
		w.ModInverse(w, P)
		f.Expect(r, "InvTwoN", "-", fmt.Sprintf("%s.InvTwoN#%d", c12Name, n), z, w, true, new(big.Int).SetUint64(uint64(n)))
	}
	nr := zero.OrderRootUnity()
	for n := uint(0); n <= nr; n++ {
		z := new(fp.Fp)
		z.SetRootOfUnityTwoN(n)
		r.Eval(1)
		w := f.Raw(z)
		ord := new(big.Int).Lsh(big.NewInt(1), n)
		ok := new(big.Int).Exp(w, ord, P).Cmp(big.NewInt(1)) == 0
		if n > 0 {
			ok = ok && new(big.Int).Exp(w, new(big.Int).Rsh(ord, 1), P).Cmp(new(big.Int).Sub(P, big.NewInt(1))) == 0
		}
		if !ok || w.Cmp(P) >= 0 {
			r.Violation("C12|"+c12Name+".SetRootOfUnityTwoN|wrong-order|-|reduced", fmt.Sprintf("%s.SetRootOfUnityTwoN#%d", c12Name, n), fmt.Sprintf("root %x does not have order 2^%d", w, n), nil)
		}
	}
	r.Count(c12Name+".roots-of-unity", int(nr)+1)
	// 2^nr must divide p-1 exactly to the claimed depth
	if new(big.Int).Mod(new(big.Int).Sub(P, big.NewInt(1)), new(big.Int).Lsh(big.NewInt(1), nr)).Sign() != 0 {
		t.Fatalf("2^%d does not divide p-1", nr)
	}
	// UnmarshalBinary of non-canonical strings: refused, or the right residue
	for k := int64(0); k <= 1; k++ {
		for d := int64(-2); d <= 2; d++ {
			v := new(big.Int).Add(new(big.Int).Mul(P, big.NewInt(k)), big.NewInt(d))
			if v.Sign() < 0 || v.BitLen() > 8*fp.Size {
				continue
			}
			z := new(fp.Fp)
			r.Eval(1)
			if err := z.UnmarshalBinary(bf.LE(v, fp.Size)); err == nil {
				f.Expect(r, "UnmarshalBinary", "accepted", fmt.Sprintf("%s.UnmarshalBinary#%dp%+d", c12Name, k, d), z, v, true, v)
				r.Count(c12Name+".UnmarshalBinary.accepted", 1)
			} else {
				r.Count(c12Name+".UnmarshalBinary.refused", 1)
			}
		}
	}
	allff := make([]byte, fp.Size)
	for i := range allff {
		allff[i] = 0xff
	}
	if err := new(fp.Fp).UnmarshalBinary(allff); err == nil {
		r.Count(c12Name+".UnmarshalBinary.accepted", 1)
	} else {
		r.Count(c12Name+".UnmarshalBinary.refused", 1)
	}
	for i := 0; i < 3; i++ {
		k := i*all.Len()/3 + 5
		r.Sample(map[string]string{"element": all.Ops[k].Name, "value": all.Ops[k].V.Text(16)})
	}
}
