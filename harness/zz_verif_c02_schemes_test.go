//go:build verif

package circl_test

// C02: signatures - honest ones verify; any altered key, message, context, mode or signature fails.
//
// Every scheme of sign/schemes is driven through the public sign.Scheme API by the
// scheme-independent enumerator internal/verifref/c02kit: for each base case
// (seed x message x context) the honest tuple must verify (size, determinism,
// key encoding round trip), and every single alteration of one coordinate
// (complete families: every other key, every bit of the encoded key, every other
// message, every bit of the message, every other context, every bit of the
// signature, every truncation length, appended bytes, S + k*L, hint
// re-encodings) must be refused without a panic. The oracle is exact; there is
// no reference model. sign/bls is covered in harness/sign/bls.

import (
	"encoding"
	"fmt"
	"math/big"
	"sort"
	"strings"
	"testing"

	"github.com/cloudflare/circl/internal/verifmc"
	kit "github.com/cloudflare/circl/internal/verifref/c02kit"
	"github.com/cloudflare/circl/internal/verifref/eddsa"
	"github.com/cloudflare/circl/sign"
	dil2 "github.com/cloudflare/circl/sign/dilithium/mode2"
	dil3 "github.com/cloudflare/circl/sign/dilithium/mode3"
	dil5 "github.com/cloudflare/circl/sign/dilithium/mode5"
	"github.com/cloudflare/circl/sign/ed25519"
	"github.com/cloudflare/circl/sign/ed448"
	"github.com/cloudflare/circl/sign/mldsa/mldsa44"
	"github.com/cloudflare/circl/sign/mldsa/mldsa65"
	"github.com/cloudflare/circl/sign/mldsa/mldsa87"
	"github.com/cloudflare/circl/sign/schemes"
)

var (
	// group orders, from RFC 8032 (sections 5.1 and 5.2)
	c02L25519, _ = new(big.Int).SetString("7237005577332262213973186563042994240857116359379907606001950938285454250989", 10)
	c02L448, _   = new(big.Int).SetString("181709681073901722637330951972001133588410340171829515070372549795146003961539585716195755291692375963310293709091662304773755859649779", 10)

	// field moduli 2^255-19 and 2^448-2^224-1
	c02P25519 = new(big.Int).Sub(new(big.Int).Lsh(big.NewInt(1), 255), big.NewInt(19))
	c02P448   = new(big.Int).Sub(new(big.Int).Sub(new(big.Int).Lsh(big.NewInt(1), 448), new(big.Int).Lsh(big.NewInt(1), 224)), big.NewInt(1))

	c02Ctx255 = strings.Repeat("c", 255)
	c02Ctx256 = strings.Repeat("c", 256)

	c02AllMsgLens = []int{0, 1, 32, 136, 137, 300}
)

// c02DilParams: hint layout (K polynomials, omega indices) and signature size of the Dilithium part.
type c02DilParams struct{ k, omega, sigSize int }

// c02SchemeFacts is what the harness has to know about a scheme beyond the sign.Scheme interface:
// where a reducible scalar and a packed hint sit in the signature.
var c02SchemeFacts = map[string]struct {
	family  string
	scalars []kit.Scalar
	dil     *c02DilParams
	dilOff  int
	// offsets of the EdDSA public key inside the encoded key and of R inside the signature (-1: none); is448 selects the field
	edPK, edR int
	is448     bool
}{
	"Ed25519":            {edPK: 0, edR: 0, family: "eddsa", scalars: []kit.Scalar{{Off: 32, Len: 32, Order: c02L25519}}},
	"Ed448":              {edPK: 0, edR: 0, is448: true, family: "eddsa", scalars: []kit.Scalar{{Off: 57, Len: 57, Order: c02L448}}},
	"Dilithium2":         {edPK: -1, edR: -1, family: "dilithium", dil: &c02DilParams{4, 80, dil2.SignatureSize}},
	"Dilithium3":         {edPK: -1, edR: -1, family: "dilithium", dil: &c02DilParams{6, 55, dil3.SignatureSize}},
	"Dilithium5":         {edPK: -1, edR: -1, family: "dilithium", dil: &c02DilParams{8, 75, dil5.SignatureSize}},
	"ML-DSA-44":          {edPK: -1, edR: -1, family: "mldsa", dil: &c02DilParams{4, 80, mldsa44.SignatureSize}},
	"ML-DSA-65":          {edPK: -1, edR: -1, family: "mldsa", dil: &c02DilParams{6, 55, mldsa65.SignatureSize}},
	"ML-DSA-87":          {edPK: -1, edR: -1, family: "mldsa", dil: &c02DilParams{8, 75, mldsa87.SignatureSize}},
	"Ed25519-Dilithium2": {edPK: dil2.PublicKeySize, edR: dil2.SignatureSize, family: "hybrids", dil: &c02DilParams{4, 80, dil2.SignatureSize}, scalars: []kit.Scalar{{Off: dil2.SignatureSize + 32, Len: 32, Order: c02L25519}}},
	"Ed448-Dilithium3":   {edPK: dil3.PublicKeySize, edR: dil3.SignatureSize, is448: true, family: "hybrids", dil: &c02DilParams{6, 55, dil3.SignatureSize}, scalars: []kit.Scalar{{Off: dil3.SignatureSize + 57, Len: 57, Order: c02L448}}},
}

// c02WrapSigner: RFC 8032 signing by the independent model ref/eddsa (bound to the RFC vectors by C05's refcheck and,
// here, to the real signer on every base case), which hashes the context length octet modulo 256.
func c02WrapSigner(v *eddsa.Variant) func(seed, msg []byte, ctx string) []byte {
	return func(seed, msg []byte, ctx string) []byte {
		sc, prefix := v.Expand(seed)
		return v.SignRaw(sc, prefix, v.PublicKey(seed), msg, []byte(ctx))
	}
}

// c02EdCoords: the y coordinate of an RFC 8032 point encoding at offset off (the top bit of the slot is the sign of x).
// y + k*p is offered wherever it still fits below the sign bit: for edwards25519 that needs y < 19 (never the case for
// the keys of the alphabet - the family is then empty), for edwards448 the 57-byte slot always has room (k up to 127).
func c02EdCoords(off int, is448 bool) []kit.Scalar {
	if is448 {
		return []kit.Scalar{{Off: off, Len: 57, Bits: 455, Order: c02P448}}
	}
	return []kit.Scalar{{Off: off, Len: 32, Bits: 255, Order: c02P25519}}
}

func c02Opts(ctx string, alt bool) *sign.SignatureOpts {
	if ctx == "" && alt {
		return nil // nil options and empty context are the same request
	}
	return &sign.SignatureOpts{Context: ctx}
}

// c02SchemeSubject wraps a registered scheme. Schemes without context support get no context alphabet.
func c02SchemeSubject(sch sign.Scheme) *kit.Subject {
	f := c02SchemeFacts[sch.Name()]
	s := &kit.Subject{
		Name: sch.Name(), SeedSize: sch.SeedSize(), PKSize: sch.PublicKeySize(), SigSize: sch.SignatureSize(),
		Deterministic: true, // the Scheme API of every registered scheme signs deterministically
		Derive: func(seed []byte) (interface{}, interface{}) {
			pk, sk := sch.DeriveKey(seed)
			return pk, sk
		},
		EncodePK: func(pk interface{}) []byte {
			b, err := pk.(sign.PublicKey).MarshalBinary()
			if err != nil {
				panic(err)
			}
			return b
		},
		DecodePK: func(b []byte) (interface{}, error) {
			pk, err := sch.UnmarshalBinaryPublicKey(b)
			if err != nil {
				return nil, err
			}
			return pk, nil
		},
		Sign: func(sk interface{}, msg []byte, ctx string) ([]byte, error) {
			return sch.Sign(sk.(sign.PrivateKey), msg, c02Opts(ctx, len(msg)%2 == 0)), nil
		},
		Verify: func(pk interface{}, msg, sig []byte, ctx string) bool {
			return sch.Verify(pk.(sign.PublicKey), msg, sig, c02Opts(ctx, len(msg)%2 == 1))
		},
		Scalars: f.scalars,
	}
	if sch.SupportsContext() {
		s.Contexts = []string{"", "a", c02Ctx255}
		s.BadContexts = []string{c02Ctx256}
		if sch.Name() == "Ed448" {
			s.WrapSign = c02WrapSigner(eddsa.Ed448)
		}
	}
	// public keys that are objects with UnmarshalBinary (Dilithium, ML-DSA, the hybrids) get the reuse history
	if pk0, _ := sch.DeriveKey(make([]byte, sch.SeedSize())); pk0 != nil {
		if _, ok := pk0.(encoding.BinaryUnmarshaler); ok {
			s.DecodePKInto = func(pk interface{}, b []byte) error { return pk.(encoding.BinaryUnmarshaler).UnmarshalBinary(b) }
		}
	}
	if f.edPK >= 0 {
		s.PKCoords, s.SigCoords = c02EdCoords(f.edPK, f.is448), c02EdCoords(f.edR, f.is448)
	}
	if f.dil != nil {
		s.Hint = &kit.Hint{Off: f.dilOff + f.dil.sigSize - f.dil.omega - f.dil.k, Omega: f.dil.omega, K: f.dil.k}
	}
	return s
}

// c02Plan: the base cases and flip policy of a tier. big = the subjects have multi-kilobyte keys and
// signatures: every bit is flipped on a diagonal of the base cases (each seed and each message length
// once), the declared sub-alphabet on the others.
func c02Plan(r *verifmc.Run, big bool) kit.Plan {
	p := kit.Plan{AllMsgLens: c02AllMsgLens, SmallLimit: 256, Stride: 16, MsgFlipLimit: 512}
	primary := r.Config() == "default"
	switch {
	case r.Thorough() && primary:
		p.Seeds = nil // all
		p.MsgLens = []int{0, 1, 137, 300}
		p.Pairs = true
		if big {
			p.FullFlipBases = []int{0, 5, 10, 15, 16} // (s0,m0) (s1,m1) (s2,m137) (s3,m300) (s4,m0)
		}
	case r.Thorough() && r.Config() == "purego":
		p.Seeds = nil
		p.MsgLens = []int{0, 137}
		if big {
			p.FullFlipBases = []int{0}
		}
	case primary:
		p.Seeds = []int{0, 3}
		p.MsgLens = []int{0, 137}
		if big {
			p.FullFlipBases = []int{0} // (s0,m0)
		}
	default:
		// secondary configurations (purego in the quick tier, alloff in the thorough tier): one base case per
		// subject; strings over 256 bytes get the declared bit sub-alphabet, every other family is complete
		p.Seeds = []int{3}
		p.MsgLens = []int{137}
		if big {
			p.FullFlipBases = []int{}
		}
	}
	return p
}

func c02Floors(r *verifmc.Run, subjects int, scalars, hints, ctx bool) {
	if r.Replaying() {
		return
	}
	r.RequireCounter("honest_verified", int64(subjects))
	for _, c := range []string{"alt_pk-other", "alt_pk-flip", "altered_pk_decoded", "alt_msg-other", "alt_msg-flip", "alt_msg-edit",
		"alt_sig-flip", "alt_sig-trunc", "alt_sig-append", "alt_sig-degenerate"} {
		r.RequireCounter(c, int64(subjects))
	}
	if scalars {
		r.RequireCounter("alt_sig-scalar", int64(subjects))
	}
	if hints {
		r.RequireCounter("history_pk_reuse", int64(subjects))
		r.RequireCounter("alt_sig-hint", int64(subjects))
		r.RequireCounter("hint_duplicate_index_cases", int64(subjects))
	}
	if ctx {
		r.RequireCounter("alt_ctx-other", int64(subjects))
		r.RequireCounter("alt_badctx-verify", int64(subjects))
		r.RequireCounter("badctx_sign_refused", int64(subjects))
		r.RequireCounter("alt_longctx-related", int64(4*subjects))
		r.RequireCounter("alt_ctx-neighbour", int64(30*subjects))
		r.RequireCounter("longctx_sign_refused", int64(4*subjects))
	}
}

func c02RunFamily(t *testing.T, family string, big bool) {
	r := verifmc.Start(t, "C02", family)
	defer r.Finish()
	r.Rule("base case = (scheme, seed of the fixed seed alphabet, message verifmc.Msg(n), context); a case = one base case (must verify, " +
		"advertised size, deterministic, key encoding round trip) or one single alteration of exactly one coordinate of it (must be refused, no panic); " +
		"non-trivial = distinct (scheme, base case, alteration class, alteration site/value)")
	p := c02Plan(r, big)
	n := 0
	var names []string
	scal, hint, ctx := true, true, true
	for _, sch := range schemes.All() {
		if c02SchemeFacts[sch.Name()].family != family {
			continue
		}
		s := c02SchemeSubject(sch)
		kit.Run(r, s, p)
		n++
		names = append(names, sch.Name())
		scal = scal && len(s.Scalars) > 0
		hint = hint && s.Hint != nil
		ctx = ctx && len(s.Contexts) > 0
	}
	if n == 0 {
		t.Fatalf("no registered scheme in family %s", family)
	}
	r.Set("schemes", names)
	r.Set("seed_alphabet", "verifmc.Seeds: 00^n, FF^n, 00 01 02.., SHAKE256(verif0), SHAKE256(verif1)")
	r.Set("plan", fmt.Sprintf("seeds=%v msgLens=%v otherMsgLens=%v fullFlipBases(nil=all)=%v smallLimit=%d stride=%d pairs=%v", p.Seeds, p.MsgLens, p.AllMsgLens, p.FullFlipBases, p.SmallLimit, p.Stride, p.Pairs))
	c02Floors(r, n, scal, hint, ctx)
}

func TestVerifC02_eddsa(t *testing.T)     { c02RunFamily(t, "eddsa", false) }
func TestVerifC02_dilithium(t *testing.T) { c02RunFamily(t, "dilithium", true) }
func TestVerifC02_mldsa(t *testing.T)     { c02RunFamily(t, "mldsa", true) }
func TestVerifC02_hybrids(t *testing.T)   { c02RunFamily(t, "hybrids", true) }

// TestVerifC02_registry: the units above cover exactly the registered schemes, and what each
// scheme advertises agrees with the packages (so a scheme added to sign/schemes cannot be missed silently).
func TestVerifC02_registry(t *testing.T) {
	r := verifmc.Start(t, "C02", "registry")
	defer r.Finish()
	r.Rule("one case per registered scheme: known to the harness, sizes equal the package constants, ByName finds it")
	var got []string
	for _, sch := range schemes.All() {
		got = append(got, sch.Name())
		r.Eval(1)
		r.Distinct(sch.Name())
		if _, ok := c02SchemeFacts[sch.Name()]; !ok {
			r.Violation("C02|registry|scheme-not-covered|"+sch.Name(), sch.Name(), "scheme "+sch.Name()+" is registered in sign/schemes but unknown to the C02 harness", nil)
		}
		if schemes.ByName(sch.Name()) != sch {
			r.Violation("C02|registry|ByName|"+sch.Name(), sch.Name(), "schemes.ByName does not return the registered scheme", nil)
		}
	}
	sort.Strings(got)
	var want []string
	for n := range c02SchemeFacts {
		want = append(want, n)
	}
	sort.Strings(want)
	if strings.Join(got, ",") != strings.Join(want, ",") {
		r.Violation("C02|registry|scheme-set", "set", fmt.Sprintf("registered %v, harness covers %v", got, want), nil)
	}
	sizes := map[string][3]int{
		"Ed25519": {ed25519.PublicKeySize, ed25519.SignatureSize, ed25519.SeedSize}, "Ed448": {ed448.PublicKeySize, ed448.SignatureSize, ed448.SeedSize},
		"Dilithium2": {dil2.PublicKeySize, dil2.SignatureSize, dil2.SeedSize}, "Dilithium3": {dil3.PublicKeySize, dil3.SignatureSize, dil3.SeedSize},
		"Dilithium5": {dil5.PublicKeySize, dil5.SignatureSize, dil5.SeedSize}, "ML-DSA-44": {mldsa44.PublicKeySize, mldsa44.SignatureSize, mldsa44.SeedSize},
		"ML-DSA-65": {mldsa65.PublicKeySize, mldsa65.SignatureSize, mldsa65.SeedSize}, "ML-DSA-87": {mldsa87.PublicKeySize, mldsa87.SignatureSize, mldsa87.SeedSize},
	}
	for _, sch := range schemes.All() {
		if w, ok := sizes[sch.Name()]; ok {
			if g := [3]int{sch.PublicKeySize(), sch.SignatureSize(), sch.SeedSize()}; g != w {
				r.Violation("C02|registry|sizes|"+sch.Name(), sch.Name(), fmt.Sprintf("scheme advertises %v, package constants %v", g, w), nil)
			}
		}
	}
	r.Set("schemes", got)
	r.Count("schemes", len(got))
	r.RequireCounter("schemes", 10)
}
