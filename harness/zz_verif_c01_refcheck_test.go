//go:build verif

package circl_test

// C01 refcheck: binds the decapsulation model /verif/ref/c01kem to authoritative data before
// the other units are believed. No circl KEM code is called here; a failure is a broken check.
//
//  (a) ML-KEM: every NIST ACVP decapsulation vector of kem/mlkem/testdata (valid and modified
//      ciphertexts): model.Full == expected K, and K == J(z||c) exactly on the vectors that the
//      reference reports as rejected (this is the "fast" implicit-rejection formula),
//  (b) Kyber round 3: KDF(z||H(c)) against the full reference decapsulation on altered ciphertexts,
//  (c) X25519 / X448: RFC 7748 vectors shipped in dh/x*/testdata against the math/big ladder and
//      crypto/ecdh; every low-order u of the alteration alphabet gives the all-zero output,
//  (d) HPKE DHKEM(P-256, P-384, X25519, X448), X-Wing: (skRm, enc) -> shared_secret of the vectors
//      copied from Go 1.26 crypto/hpke; X25519Kyber768Draft00: the vectors shipped in hpke/testdata,
//      through both the Fast and the Full evaluation.

import (
	"bytes"
	"compress/gzip"
	"encoding/hex"
	"encoding/json"
	"io"
	"os"
	"path/filepath"
	"testing"

	"github.com/cloudflare/circl/internal/verifmc"
	"github.com/cloudflare/circl/internal/verifref/c01kem"
	"github.com/cloudflare/circl/internal/verifref/mlkem"
	"github.com/cloudflare/circl/internal/verifref/xladder"
)

type c01Hex []byte

func (h *c01Hex) UnmarshalJSON(b []byte) error {
	var s string
	if err := json.Unmarshal(b, &s); err != nil {
		return err
	}
	v, err := hex.DecodeString(s)
	*h = v
	return err
}

func c01ReadGz(t *testing.T, path string) []byte {
	f, err := os.Open(path)
	if err != nil {
		t.Fatal(err)
	}
	defer f.Close()
	z, err := gzip.NewReader(f)
	if err != nil {
		t.Fatal(err)
	}
	b, err := io.ReadAll(z)
	if err != nil {
		t.Fatal(err)
	}
	return b
}

func TestVerifC01_refcheck(t *testing.T) {
	r := verifmc.Start(t, "C01", "refcheck")
	defer r.Finish()
	r.Rule("reference model only (no circl KEM code): ACVP ML-KEM decapsulation vectors, RFC 7748 vectors, HPKE / X-Wing / X25519Kyber768 vectors; " +
		"non-trivial = each vector and each altered ciphertext on which two independent evaluations of the model are compared")

	// ---- (a) ACVP decapsulation vectors
	var prompt struct {
		TestGroups []struct {
			TestType     string `json:"testType"`
			ParameterSet string `json:"parameterSet"`
			Dk           c01Hex `json:"dk"`
			Tests        []struct {
				TcID int    `json:"tcId"`
				C    c01Hex `json:"c"`
			} `json:"tests"`
		} `json:"testGroups"`
	}
	var results struct {
		TestGroups []struct {
			Tests []struct {
				TcID int    `json:"tcId"`
				K    c01Hex `json:"k"`
			} `json:"tests"`
		} `json:"testGroups"`
	}
	dir := "kem/mlkem/testdata/ML-KEM-encapDecap-FIPS203"
	if err := json.Unmarshal(c01ReadGz(t, filepath.Join(dir, "prompt.json.gz")), &prompt); err != nil {
		t.Fatal(err)
	}
	if err := json.Unmarshal(c01ReadGz(t, filepath.Join(dir, "expectedResults.json.gz")), &results); err != nil {
		t.Fatal(err)
	}
	want := map[int][]byte{}
	for _, g := range results.TestGroups {
		for _, tc := range g.Tests {
			want[tc.TcID] = tc.K
		}
	}
	for _, g := range prompt.TestGroups {
		if g.TestType != "VAL" {
			continue
		}
		m := c01kem.Lookup(g.ParameterSet)
		if m == nil {
			t.Fatalf("no model for ACVP parameter set %q", g.ParameterSet)
		}
		var p *mlkem.Params
		for _, q := range mlkem.All {
			if "ML-KEM-"+q.Name == g.ParameterSet {
				p = q
			}
		}
		for _, tc := range g.Tests {
			full, fail := m.Full(g.Dk, tc.C)
			if fail || !bytes.Equal(full, want[tc.TcID]) {
				t.Fatalf("model.Full differs from ACVP decapsulation tcId %d (%s)", tc.TcID, g.ParameterSet)
			}
			rej := mlkem.Rejected(p, g.Dk, tc.C)
			fast, _ := m.Fast(g.Dk, tc.C, nil)
			if rej != bytes.Equal(fast, want[tc.TcID]) {
				t.Fatalf("J(z||c) formula: ACVP tcId %d (%s) rejected=%v but formula match=%v", tc.TcID, g.ParameterSet, rej, !rej)
			}
			if rej {
				r.Count("acvp_rejecting_vectors_equal_formula", 1)
			} else {
				r.Count("acvp_accepting_vectors", 1)
			}
			r.Eval(2)
			r.Distinct("acvp", tc.TcID)
		}
	}
	r.RequireCounter("acvp_rejecting_vectors_equal_formula", 6)
	r.RequireCounter("acvp_accepting_vectors", 6)

	// ---- (b) rejection formulas against the full reference on altered ciphertexts (both families)
	for _, name := range []string{"Kyber512", "Kyber768", "Kyber1024", "ML-KEM-512", "ML-KEM-768", "ML-KEM-1024"} {
		m := c01kem.Lookup(name)
		var p *mlkem.Params
		for _, q := range mlkem.All {
			if q.CTSize() == m.CTSize() {
				p = q
			}
		}
		d, z, m0 := verifmc.Shake("c01-ref-d/"+name, 32), verifmc.Shake("c01-ref-z/"+name, 32), verifmc.Shake("c01-ref-m/"+name, 32)
		var sk, ct []byte
		if name[0] == 'K' {
			var pk []byte
			pk, sk = mlkem.KyberKeyGen(p, d, z)
			_, ct = mlkem.KyberEncaps(p, pk, m0)
		} else {
			var ek []byte
			ek, sk = mlkem.KeyGenInternal(p, d, z)
			_, ct = mlkem.EncapsInternal(p, ek, m0)
		}
		alts := [][]byte{bytes.Repeat([]byte{0}, len(ct)), bytes.Repeat([]byte{0xff}, len(ct))}
		for i := 0; i < 24; i++ {
			alts = append(alts, verifmc.Flip(ct, (i*len(ct)*8)/24))
		}
		alts = append(alts, verifmc.Flip(ct, len(ct)*8-1))
		for _, a := range alts {
			full, _ := m.Full(sk, a)
			fast, _ := m.Fast(sk, a, ct)
			if !bytes.Equal(full, fast) {
				t.Fatalf("%s: rejection formula differs from the full reference decapsulation on an altered ciphertext", name)
			}
			r.Eval(2)
			r.Distinct(name, a)
			r.Count("formula_equals_full_reference", 1)
		}
		// and the honest ciphertext is accepted by Full, and by Fast when told which one is honest
		full, _ := m.Full(sk, ct)
		fast, _ := m.Fast(sk, ct, ct)
		rejv, _ := m.Fast(sk, ct, nil)
		if !bytes.Equal(full, fast) || bytes.Equal(full, rejv) {
			t.Fatalf("%s: honest ciphertext handling of the model is inconsistent", name)
		}
	}

	// ---- (c) RFC 7748
	for _, x := range []struct {
		file string
		c    *xladder.Curve
	}{{"dh/x25519/testdata/rfc7748_kat_test.json", xladder.X25519}, {"dh/x448/testdata/rfc7748_kat_test.json", xladder.X448}} {
		raw, err := os.ReadFile(x.file)
		if err != nil {
			t.Fatal(err)
		}
		var vecs []struct {
			Input, Output, Scalar c01Hex
		}
		if err := json.Unmarshal(raw, &vecs); err != nil {
			t.Fatal(err)
		}
		if len(vecs) == 0 {
			t.Fatalf("%s is empty", x.file)
		}
		for _, v := range vecs {
			if got := x.c.X(v.Scalar, v.Input); !bytes.Equal(got, v.Output) {
				t.Fatalf("%s: ladder differs from RFC 7748 vector", x.file)
			}
			if x.c.Size == 32 {
				if got, fail := c01kem.StdX25519(v.Scalar, v.Input); fail || !bytes.Equal(got, v.Output) {
					t.Fatalf("crypto/ecdh X25519 differs from RFC 7748 vector")
				}
			}
			r.Eval(1)
			r.Distinct(x.file, v.Scalar, v.Input)
			r.Count("rfc7748_vectors", 1)
		}
		for _, k := range [][]byte{verifmc.Shake("c01-ref-k0", x.c.Size), verifmc.Shake("c01-ref-k1", x.c.Size)} {
			for _, u := range c01LowOrderU(x.c.Size) {
				if !xladder.IsZero(x.c.X(k, u)) {
					t.Fatalf("u = %x is in the low-order alphabet but X(k, u) != 0", u)
				}
				if x.c.Size == 32 {
					if _, fail := c01kem.StdX25519(k, u); !fail {
						t.Fatalf("crypto/ecdh accepts the low-order u = %x", u)
					}
				}
				r.Eval(1)
				r.Count("low_order_u_confirmed", 1)
			}
		}
	}

	// ---- (d) HPKE / X-Wing / X25519Kyber768 vectors
	type vec struct {
		KemID        int    `json:"kem_id"`
		SkRm         c01Hex `json:"skRm"`
		Enc          c01Hex `json:"enc"`
		SharedSecret c01Hex `json:"shared_secret"`
	}
	load := func(path string) []vec {
		raw, err := os.ReadFile(path)
		if err != nil {
			t.Fatal(err)
		}
		var v []vec
		if err := json.Unmarshal(raw, &v); err != nil {
			t.Fatal(err)
		}
		return v
	}
	byID := map[int]string{0x10: "HPKE_KEM_P256_HKDF_SHA256", 0x11: "HPKE_KEM_P384_HKDF_SHA384", 0x12: "HPKE_KEM_P521_HKDF_SHA512",
		0x20: "HPKE_KEM_X25519_HKDF_SHA256", 0x21: "HPKE_KEM_X448_HKDF_SHA512", 0x30: "HPKE_KEM_X25519_KYBER768_HKDF_SHA256", 0x647a: "X-Wing"}
	vd := os.Getenv("VERIF_DIR")
	if vd == "" {
		vd = "/verif"
	}
	vecs := append(load(filepath.Join(vd, "ref/testdata/hpke_pq_go126.json")), load("hpke/testdata/hybrid-x25119-kyber768-test-vectors.json")...)
	for _, v := range vecs {
		name, ok := byID[v.KemID]
		if !ok || len(v.SharedSecret) == 0 {
			continue
		}
		m := c01kem.Lookup(name)
		if len(v.SkRm) != m.SKSize() || len(v.Enc) != m.CTSize() {
			t.Fatalf("%s vector has sizes sk=%d enc=%d, model %d / %d", name, len(v.SkRm), len(v.Enc), m.SKSize(), m.CTSize())
		}
		full, fail := m.Full(v.SkRm, v.Enc)
		if fail || !bytes.Equal(full, v.SharedSecret) {
			t.Fatalf("%s: model.Full differs from the vector's shared_secret", name)
		}
		fast, fail := m.Fast(v.SkRm, v.Enc, v.Enc)
		if fail || !bytes.Equal(fast, v.SharedSecret) {
			t.Fatalf("%s: model.Fast differs from the vector's shared_secret", name)
		}
		r.Eval(2)
		r.Distinct("kemvec", v.KemID, v.Enc)
		r.Count("kem_vectors/"+name, 1)
	}
	for _, name := range []string{"HPKE_KEM_P256_HKDF_SHA256", "HPKE_KEM_P384_HKDF_SHA384", "HPKE_KEM_X25519_HKDF_SHA256",
		"HPKE_KEM_X448_HKDF_SHA512", "HPKE_KEM_X25519_KYBER768_HKDF_SHA256", "X-Wing"} {
		r.RequireCounter("kem_vectors/"+name, 1)
	}
	r.RequireCounter("rfc7748_vectors", 4)
	r.Set("not_bound_to_a_vector", []string{"HPKE_KEM_P521_HKDF_SHA512 (bound through ref/hpke by the C07 refcheck only)",
		"FrodoKEM-640-SHAKE (only the final SHAKE128(ct||k) step is modelled; checked against the honest path in the roundtrip unit)",
		"kem/hybrid TLS schemes (concatenations of components that are bound individually)"})
	r.Sample(map[string]interface{}{"bound_to": []string{"ACVP ML-KEM-encapDecap-FIPS203 (VAL groups)", "dh/x25519 + dh/x448 rfc7748_kat_test.json",
		"ref/testdata/hpke_pq_go126.json", "hpke/testdata/hybrid-x25119-kyber768-test-vectors.json"}})
}
