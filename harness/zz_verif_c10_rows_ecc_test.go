//go:build verif

package circl_test

// C10 registry rows, family "ecc": group / curve / field element decoders, isogeny key importers,
// DLEQ / Schnorr proofs, OPRF keys and finalisation, simplest OT round 3.

import (
	"bytes"
	"crypto"
	"crypto/elliptic"
	crand "crypto/rand"
	"encoding"
	"errors"
	"math/big"
	"strings"
	"testing"

	"github.com/cloudflare/circl/dh/csidh"
	"github.com/cloudflare/circl/dh/sidh"
	"github.com/cloudflare/circl/ecc/bls12381"
	"github.com/cloudflare/circl/ecc/bls12381/ff"
	"github.com/cloudflare/circl/ecc/goldilocks"
	"github.com/cloudflare/circl/group"
	"github.com/cloudflare/circl/internal/verifmc"
	kit "github.com/cloudflare/circl/internal/verifref/c10kit"
	"github.com/cloudflare/circl/oprf"
	"github.com/cloudflare/circl/ot/simot"
	"github.com/cloudflare/circl/zk/dl"
	"github.com/cloudflare/circl/zk/dleq"
)

var errC10EccLen = errors.New("c10 ecc: documented length precondition not met (guarded by the row)")

func c10EccMB(m encoding.BinaryMarshaler) []byte {
	b, err := m.MarshalBinary()
	c10Must(err)
	return b
}

func c10EccCat(x ...[]byte) []byte {
	var o []byte
	for _, y := range x {
		o = append(o, y...)
	}
	return o
}

func c10EccFill(n int, b byte) []byte { return bytes.Repeat([]byte{b}, n) }

// c10EccLenExtras: strings around the 255-byte limit of domain separation tags and far beyond.
func c10EccLenExtras() []kit.Named {
	var out []kit.Named
	for _, n := range []int{254, 255, 256, 257, 511, 65535, 65536, 65537} {
		out = append(out, kit.Named{Name: "len" + big.NewInt(int64(n)).String(), Data: c10Shake("ecc/len", n)})
	}
	return out
}

// ---------------------------------------------------------------------------------------------
// group

type c10EccGroup struct {
	name         string
	g            group.Group
	w            bool // short Weierstrass (wG) group
	eltID, sclID string
	h            crypto.Hash
	eltCost      int
	mulCost      int // cost class of a DLEQ verification (six scalar multiplications, three hashes to scalars)
}

func c10EccGroups() []c10EccGroup {
	return []c10EccGroup{
		{"P256", group.P256, true, "group.wElt", "group.wScl", crypto.SHA256, kit.Medium, kit.Slow},
		{"P384", group.P384, true, "group.wElt", "group.wScl", crypto.SHA384, kit.Slow, kit.Slow},
		{"P521", group.P521, true, "group.wElt", "group.wScl", crypto.SHA512, kit.Slow, kit.VSlow},
		{"Ristretto255", group.Ristretto255, false, "group.ristrettoElement", "group.ristrettoScalar", crypto.SHA512, kit.Medium, kit.Slow},
	}
}

func c10EccScalar(g group.Group, label string) group.Scalar {
	return g.HashToScalar(c10Shake("ecc/scalar/"+label, 48), []byte("verif-c10-ecc"))
}

func c10EccElement(g group.Group, label string) group.Element {
	return g.NewElement().MulGen(c10EccScalar(g, label))
}

func c10EccCompressed(e group.Element) []byte {
	b, err := e.MarshalBinaryCompress()
	c10Must(err)
	return b
}

// c10EccUseElt uses an accepted element lightly.
func c10EccUseElt(g group.Group, e group.Element) {
	_, _ = e.MarshalBinary()
	_, _ = e.MarshalBinaryCompress()
	_ = e.IsIdentity()
	d := g.NewElement().Add(e, e)
	_, _ = d.MarshalBinary()
}

// c10EccUseScl uses an accepted scalar lightly.
func c10EccUseScl(g group.Group, s group.Scalar) {
	_, _ = s.MarshalBinary()
	_ = s.IsZero()
	d := g.NewScalar().Add(s, s)
	_, _ = d.MarshalBinary()
}

// c10EccForeignElts: encodings of elements of every other group.
func c10EccForeignElts(self string) []kit.Named {
	var out []kit.Named
	for _, o := range c10EccGroups() {
		if o.name == self {
			continue
		}
		e := c10EccElement(o.g, "foreign")
		out = append(out, kit.Named{Name: "element-of-" + o.name, Data: c10EccMB(e)})
		if o.w {
			out = append(out, kit.Named{Name: "compressed-element-of-" + o.name, Data: c10EccCompressed(e)})
		}
	}
	return out
}

func c10EccForeignScls(self string) []kit.Named {
	var out []kit.Named
	for _, o := range c10EccGroups() {
		if o.name == self {
			continue
		}
		out = append(out, kit.Named{Name: "scalar-of-" + o.name, Data: c10EccMB(c10EccScalar(o.g, "foreign"))})
	}
	return out
}

func c10EccGroupOrder(gi c10EccGroup) *big.Int {
	switch gi.name {
	case "P256":
		return elliptic.P256().Params().N
	case "P384":
		return elliptic.P384().Params().N
	case "P521":
		return elliptic.P521().Params().N
	}
	// ristretto255: 2^252 + 27742317777372353535851937790883648493
	n, _ := new(big.Int).SetString("1000000000000000000000000000000014def9dea2f79cd65812631a5cf5d3ed", 16)
	return n
}

func c10EccRev(b []byte) []byte {
	o := make([]byte, len(b))
	for i := range b {
		o[len(b)-1-i] = b[i]
	}
	return o
}

func c10RowsEccGroup() []*kit.Row {
	var rows []*kit.Row
	for _, gi := range c10EccGroups() {
		gi := gi
		g := gi.g
		// one row per encoding format (the quick tier alters only the first base of a row that is not cheap)
		formats := []string{"compressed", "uncompressed", "identity"}
		if !gi.w {
			formats = []string{"element", "identity"}
		}
		for fi, format := range formats {
			fi, format := fi, format
			cost := gi.eltCost
			if format == "identity" {
				cost = kit.Medium
			}
			rows = append(rows, &kit.Row{Name: "group[" + gi.name + "].Element.UnmarshalBinary#" + format, Cost: cost,
				Covers: []string{gi.eltID + ".UnmarshalBinary"},
				Note:   "accepted elements are then marshalled, tested for identity and added to themselves",
				Setup: func() *kit.Inst {
					e := c10EccElement(g, "elt1/"+gi.name)
					e2 := c10EccElement(g, "elt2/"+gi.name)
					sl := int(g.Params().ScalarLength)
					var bases [][]byte
					extras := c10EccForeignElts(gi.name)
					extras = append(extras, kit.Named{Name: "own-scalar", Data: c10EccMB(c10EccScalar(g, "x"))})
					if gi.w {
						unc, cmp := c10EccMB(e), c10EccCompressed(e2)
						bases = [][][]byte{{cmp, c10EccCompressed(e)}, {unc, c10EccMB(e2)}, {{0x00}}}[fi]
						x, y := unc[1:1+sl], unc[1+sl:]
						ones := c10EccFill(sl, 0xff)
						extras = append(extras,
							kit.Named{Name: "uncompressed-tag-compressed-length", Data: c10EccCat([]byte{4}, x)},
							kit.Named{Name: "compressed-tag-uncompressed-length", Data: c10EccCat([]byte{2}, x, y)},
							kit.Named{Name: "compressed-tag3-uncompressed-length", Data: c10EccCat([]byte{3}, x, y)},
							kit.Named{Name: "identity-tag-compressed-length", Data: c10EccCat([]byte{0}, x)},
							kit.Named{Name: "identity-tag-uncompressed-length", Data: c10EccCat([]byte{0}, x, y)},
							kit.Named{Name: "uncompressed-zero-zero", Data: c10EccCat([]byte{4}, c10EccFill(2*sl, 0))},
							kit.Named{Name: "compressed-x-zero", Data: c10EccCat([]byte{2}, c10EccFill(sl, 0))},
							kit.Named{Name: "compressed-x-all-ones", Data: c10EccCat([]byte{3}, ones)},
							kit.Named{Name: "uncompressed-all-ones", Data: c10EccCat([]byte{4}, ones, ones)},
							kit.Named{Name: "uncompressed-y-all-ones", Data: c10EccCat([]byte{4}, x, ones)},
							kit.Named{Name: "hybrid-tag6", Data: c10EccCat([]byte{6}, x, y)},
							kit.Named{Name: "hybrid-tag7", Data: c10EccCat([]byte{7}, x, y)},
							kit.Named{Name: "two-bytes-00-00", Data: []byte{0, 0}},
						)
					} else {
						bases = [][][]byte{{c10EccMB(e), c10EccMB(e2)}, {c10EccMB(g.Identity())}}[fi]
						extras = append(extras,
							kit.Named{Name: "negative-field-element", Data: c10EccCat([]byte{1}, c10EccFill(31, 0))},
							kit.Named{Name: "p-minus-1", Data: c10EccCat([]byte{0xec}, c10EccFill(30, 0xff), []byte{0x7f})},
							kit.Named{Name: "p", Data: c10EccCat([]byte{0xed}, c10EccFill(30, 0xff), []byte{0x7f})},
						)
					}
					return &kit.Inst{Bases: bases, Extras: extras,
						Call: func(in []byte) error {
							x := g.NewElement()
							if err := x.UnmarshalBinary(in); err != nil {
								return err
							}
							c10EccUseElt(g, x)
							return nil
						}}
				}})
		}
		rows = append(rows, &kit.Row{Name: "group[" + gi.name + "].Scalar.UnmarshalBinary", Cost: kit.Cheap,
			Covers: []string{gi.sclID + ".UnmarshalBinary"},
			Note:   "accepted scalars are then marshalled, tested for zero and added to themselves",
			Setup: func() *kit.Inst {
				s := c10EccScalar(g, "scl1/"+gi.name)
				s2 := c10EccScalar(g, "scl2/"+gi.name)
				sl := int(g.Params().ScalarLength)
				n := c10EccGroupOrder(gi)
				enc := func(v *big.Int, l int) []byte {
					b := v.FillBytes(make([]byte, l))
					if !gi.w {
						b = c10EccRev(b)
					}
					return b
				}
				n1 := new(big.Int).Add(n, big.NewInt(1))
				nm1 := new(big.Int).Sub(n, big.NewInt(1))
				extras := c10EccForeignScls(gi.name)
				extras = append(extras,
					kit.Named{Name: "order", Data: enc(n, sl)},
					kit.Named{Name: "order+1", Data: enc(n1, sl)},
					kit.Named{Name: "order-1", Data: enc(nm1, sl)},
					kit.Named{Name: "order-with-leading-zero-byte", Data: enc(n, sl+1)},
					kit.Named{Name: "one-with-leading-zero-bytes", Data: enc(big.NewInt(1), sl+8)},
					kit.Named{Name: "own-element", Data: c10EccMB(c10EccElement(g, "x"))},
					kit.Named{Name: "own-compressed-element", Data: c10EccCompressed(c10EccElement(g, "x"))},
					kit.Named{Name: "twice-the-length", Data: c10Shake("ecc/scl2x/"+gi.name, 2*sl)},
				)
				return &kit.Inst{Bases: [][]byte{c10EccMB(s), c10EccMB(s2), c10EccMB(g.NewScalar())}, Extras: extras,
					Call: func(in []byte) error {
						x := g.NewScalar()
						if err := x.UnmarshalBinary(in); err != nil {
							return err
						}
						c10EccUseScl(g, x)
						return nil
					}}
			}})
	}
	return rows
}

// ---------------------------------------------------------------------------------------------
// ecc/goldilocks

func c10RowsEccGoldilocks() []*kit.Row {
	type mat struct {
		bases  [][]byte
		extras []kit.Named
	}
	mk := func() *mat {
		var c goldilocks.Curve
		var k goldilocks.Scalar
		k.FromBytes(c10Shake("ecc/goldilocks/k", 56))
		p := c.ScalarBaseMult(&k)
		m := &mat{bases: [][]byte{c10EccMB(p), c10EccMB(c.Generator()), c10EccMB(c.Identity())}}
		// p = 2^448 - 2^224 - 1, little endian
		pm := c10EccFill(56, 0xff)
		pm[28] = 0xfe
		pm1 := append([]byte{}, pm...)
		pm1[0] = 0xfe
		m.extras = []kit.Named{
			{Name: "y=p", Data: c10EccCat(pm, []byte{0})},
			{Name: "y=p,sign", Data: c10EccCat(pm, []byte{0x80})},
			{Name: "y=p-1", Data: c10EccCat(pm1, []byte{0})},
			{Name: "y=p-1,sign", Data: c10EccCat(pm1, []byte{0x80})},
			{Name: "y=1,sign (x=0 with sign bit)", Data: c10EccCat([]byte{1}, c10EccFill(55, 0), []byte{0x80})},
			{Name: "y=0", Data: c10EccFill(57, 0)},
			{Name: "56-bytes", Data: c10EccMB(p)[:56]},
			{Name: "ristretto-element", Data: c10EccMB(c10EccElement(group.Ristretto255, "x"))},
			{Name: "p521-element", Data: c10EccMB(c10EccElement(group.P521, "x"))},
			{Name: "low-bits-of-last-byte-set", Data: c10EccCat(c10EccMB(p)[:56], []byte{0x7f})},
		}
		return m
	}
	use := func(p *goldilocks.Point) {
		var c goldilocks.Curve
		_ = p.IsIdentity()
		_ = c.IsOnCurve(p)
		q := *p
		q.Double()
		_, _ = q.MarshalBinary()
		_, _ = p.MarshalBinary()
	}
	var rows []*kit.Row
	for fi, format := range []string{"", "#identity"} {
		fi, format := fi, format
		pick := func(m *mat) [][]byte {
			if fi == 0 {
				return m.bases[:2]
			}
			return m.bases[2:]
		}
		rows = append(rows,
			&kit.Row{Name: "ecc/goldilocks.FromBytes" + format, Cost: kit.Medium, Covers: []string{"ecc/goldilocks.FromBytes"},
				Setup: func() *kit.Inst {
					m := mk()
					return &kit.Inst{Bases: pick(m), Extras: m.extras,
						Call: func(in []byte) error {
							p, err := goldilocks.FromBytes(in)
							if err != nil {
								return err
							}
							use(p)
							return nil
						}}
				}},
			&kit.Row{Name: "ecc/goldilocks.Point.UnmarshalBinary" + format, Cost: kit.Medium, Covers: []string{"ecc/goldilocks.Point.UnmarshalBinary"},
				Setup: func() *kit.Inst {
					m := mk()
					return &kit.Inst{Bases: pick(m), Extras: m.extras,
						Call: func(in []byte) error {
							var p goldilocks.Point
							if err := p.UnmarshalBinary(in); err != nil {
								return err
							}
							use(&p)
							return nil
						}}
				}})
	}
	return rows
}

// ---------------------------------------------------------------------------------------------
// ecc/bls12381 and ecc/bls12381/ff

func c10EccBlsScalar(label string) *bls12381.Scalar {
	var k bls12381.Scalar
	k.SetBytes(c10Shake("ecc/bls/scalar/"+label, 48))
	return &k
}

func c10EccFp(label string) *ff.Fp {
	var z ff.Fp
	z.SetBytes(c10Shake("ecc/bls/fp/"+label, 64))
	return &z
}

func c10EccFp2(label string) *ff.Fp2 {
	return &ff.Fp2{*c10EccFp(label + "/0"), *c10EccFp(label + "/1")}
}

func c10EccFp6(label string) *ff.Fp6 {
	return &ff.Fp6{*c10EccFp2(label + "/0"), *c10EccFp2(label + "/1"), *c10EccFp2(label + "/2")}
}

func c10EccFp12(label string) *ff.Fp12 {
	return &ff.Fp12{*c10EccFp6(label + "/0"), *c10EccFp6(label + "/1")}
}

var c10EccFpOrderHex = "1a0111ea397fe69a4b1ba7b6434bacd764774b84f38512bf6730d2a0f6b0f6241eabfffeb153ffffb9feffffffffaaab"

var c10EccBlsScOrderHex = "73eda753299d7d483339d80809a1d80553bda402fffe5bfeffffffff00000001"

func c10EccHexInt(h string) *big.Int {
	n, ok := new(big.Int).SetString(h, 16)
	if !ok {
		panic("c10 setup: bad hex")
	}
	return n
}

func c10RowsEccBls() []*kit.Row {
	type pts struct {
		g1c, g1u, g1ic, g1iu []byte
		g2c, g2u, g2ic, g2iu []byte
		gt, gtOne            []byte
	}
	mk := func() *pts {
		p := &pts{}
		var a bls12381.G1
		a.ScalarMult(c10EccBlsScalar("g1"), bls12381.G1Generator())
		var b bls12381.G2
		b.ScalarMult(c10EccBlsScalar("g2"), bls12381.G2Generator())
		var i1 bls12381.G1
		i1.SetIdentity()
		var i2 bls12381.G2
		i2.SetIdentity()
		p.g1c, p.g1u, p.g1ic, p.g1iu = a.BytesCompressed(), a.Bytes(), i1.BytesCompressed(), i1.Bytes()
		p.g2c, p.g2u, p.g2ic, p.g2iu = b.BytesCompressed(), b.Bytes(), i2.BytesCompressed(), i2.Bytes()
		p.gt = c10EccMB(bls12381.Pair(&a, &b))
		var one bls12381.Gt
		one.SetIdentity()
		p.gtOne = c10EccMB(one)
		return p
	}
	fpP := c10EccHexInt(c10EccFpOrderHex).FillBytes(make([]byte, 48))
	// hostile encodings shared by G1 (fs = 48) and G2 (fs = 96): coordinate size fs, x bytes xb
	hostile := func(fs int, cmp, unc []byte) []kit.Named {
		xP := c10EccCat(c10EccFill(fs-48, 0), fpP) // x = p (G1) or x = (0, p) (G2): out of range
		xPc := append([]byte{}, xP...)
		xPc[0] |= 0x80
		return []kit.Named{
			{Name: "compressed-flag-with-uncompressed-length", Data: c10EccCat([]byte{unc[0] | 0x80}, unc[1:])},
			{Name: "uncompressed-flag-with-compressed-length", Data: c10EccCat([]byte{cmp[0] & 0x1f}, cmp[1:])},
			{Name: "uncompressed-infinity-flag-with-compressed-length", Data: c10EccCat([]byte{0x40}, c10EccFill(fs-1, 0))},
			{Name: "uncompressed-infinity-flag-one-byte-short", Data: c10EccCat([]byte{0x40}, c10EccFill(2*fs-2, 0))},
			{Name: "compressed-infinity-with-sign", Data: c10EccCat([]byte{0xe0}, c10EccFill(fs-1, 0))},
			{Name: "compressed-infinity-nonzero-tail", Data: c10EccCat([]byte{0xc0}, c10EccFill(fs-2, 0), []byte{1})},
			{Name: "uncompressed-infinity-nonzero-y", Data: c10EccCat([]byte{0x40}, c10EccFill(2*fs-2, 0), []byte{1})},
			{Name: "compressed-x-out-of-range", Data: xPc},
			{Name: "uncompressed-x-out-of-range", Data: c10EccCat(xP, unc[fs:])},
			{Name: "uncompressed-y-out-of-range", Data: c10EccCat(unc[:fs], xP)},
			{Name: "uncompressed-zero-zero", Data: c10EccFill(2*fs, 0)},
			{Name: "compressed-x-zero", Data: c10EccCat([]byte{0x80}, c10EccFill(fs-1, 0))},
		}
	}
	g1call := func(in []byte) error {
		var g bls12381.G1
		if err := g.SetBytes(in); err != nil {
			return err
		}
		_ = g.IsIdentity()
		_ = g.Bytes()
		_ = g.BytesCompressed()
		g.Double()
		_ = g.Bytes()
		return nil
	}
	g2call := func(in []byte) error {
		var g bls12381.G2
		if err := g.SetBytes(in); err != nil {
			return err
		}
		_ = g.IsIdentity()
		_ = g.Bytes()
		_ = g.BytesCompressed()
		g.Double()
		_ = g.Bytes()
		return nil
	}
	var rows []*kit.Row
	// one row per encoding format (the quick tier alters only the first base of a row that is not cheap)
	for fi, format := range []string{"compressed", "uncompressed"} {
		fi, format := fi, format
		rows = append(rows,
			&kit.Row{Name: "ecc/bls12381.G1.SetBytes#" + format, Cost: kit.Medium, Covers: []string{"ecc/bls12381.G1.SetBytes"},
				Setup: func() *kit.Inst {
					p := mk()
					ex := hostile(48, p.g1c, p.g1u)
					ex = append(ex, kit.Named{Name: "g2-compressed", Data: p.g2c}, kit.Named{Name: "g2-uncompressed", Data: p.g2u})
					return &kit.Inst{Bases: [][]byte{[][]byte{p.g1c, p.g1u}[fi]}, Call: g1call, Extras: ex}
				}},
			&kit.Row{Name: "ecc/bls12381.G2.SetBytes#" + format, Cost: kit.Slow, Covers: []string{"ecc/bls12381.G2.SetBytes"},
				Setup: func() *kit.Inst {
					p := mk()
					ex := hostile(96, p.g2c, p.g2u)
					ex = append(ex, kit.Named{Name: "g1-compressed", Data: p.g1c}, kit.Named{Name: "g1-uncompressed", Data: p.g1u},
						kit.Named{Name: "g1-uncompressed-with-compressed-flag", Data: c10EccCat([]byte{p.g1u[0] | 0x80}, p.g1u[1:])})
					return &kit.Inst{Bases: [][]byte{[][]byte{p.g2c, p.g2u}[fi]}, Call: g2call, Extras: ex}
				}})
	}
	rows = append(rows, []*kit.Row{
		{Name: "ecc/bls12381.G1.SetBytes#infinity", Cost: kit.Cheap, Covers: []string{"ecc/bls12381.G1.SetBytes"},
			Note: "bases: the compressed and the uncompressed encoding of the identity",
			Setup: func() *kit.Inst {
				p := mk()
				return &kit.Inst{Bases: [][]byte{p.g1ic, p.g1iu}, Call: g1call,
					Extras: []kit.Named{{Name: "g2-infinity-compressed", Data: p.g2ic}, {Name: "g2-infinity-uncompressed", Data: p.g2iu}}}
			}},
		{Name: "ecc/bls12381.G2.SetBytes#infinity", Cost: kit.Cheap, Covers: []string{"ecc/bls12381.G2.SetBytes"},
			Note: "bases: the compressed and the uncompressed encoding of the identity",
			Setup: func() *kit.Inst {
				p := mk()
				return &kit.Inst{Bases: [][]byte{p.g2ic, p.g2iu}, Call: g2call,
					Extras: []kit.Named{{Name: "g1-infinity-compressed", Data: p.g1ic}, {Name: "g1-infinity-uncompressed", Data: p.g1iu}}}
			}},
		{Name: "ecc/bls12381.Gt.UnmarshalBinary", Cost: kit.Medium, Covers: []string{"ecc/bls12381.Gt.UnmarshalBinary"},
			Note: "accepted values are then marshalled, compared with the identity and squared; bases: a pairing value, the identity",
			Setup: func() *kit.Inst {
				p := mk()
				return &kit.Inst{Bases: [][]byte{p.gt, p.gtOne},
					Call: func(in []byte) error {
						var z bls12381.Gt
						if err := z.UnmarshalBinary(in); err != nil {
							return err
						}
						_ = z.IsIdentity()
						_, _ = z.MarshalBinary()
						var s bls12381.Gt
						s.Sqr(&z)
						_, _ = s.MarshalBinary()
						return nil
					},
					Extras: []kit.Named{{Name: "fp12-not-a-root-of-unity", Data: c10EccMB(*c10EccFp12("gt"))},
						{Name: "zero", Data: c10EccFill(576, 0)},
						{Name: "first-coefficient-out-of-range", Data: c10EccCat(fpP, p.gt[48:])},
						{Name: "last-coefficient-out-of-range", Data: c10EccCat(p.gt[:528], fpP)},
						{Name: "g2-uncompressed", Data: p.g2u}}}
			}},
	}...)
	// ---- ff binary decoders
	type ffDec struct {
		name  string
		bases func() [][]byte
		call  func(in []byte) error
	}
	decs := []ffDec{
		{"Fp", func() [][]byte { return [][]byte{c10EccMB(c10EccFp("a")), c10EccMB(&ff.Fp{})} },
			func(in []byte) error {
				var z ff.Fp
				if err := z.UnmarshalBinary(in); err != nil {
					return err
				}
				_, _ = z.MarshalBinary()
				return nil
			}},
		{"Fp2", func() [][]byte { return [][]byte{c10EccMB(*c10EccFp2("a")), c10EccMB(ff.Fp2{})} },
			func(in []byte) error {
				var z ff.Fp2
				if err := z.UnmarshalBinary(in); err != nil {
					return err
				}
				_, _ = z.MarshalBinary()
				return nil
			}},
		{"Fp6", func() [][]byte { return [][]byte{c10EccMB(*c10EccFp6("a"))} },
			func(in []byte) error {
				var z ff.Fp6
				if err := z.UnmarshalBinary(in); err != nil {
					return err
				}
				_, _ = z.MarshalBinary()
				return nil
			}},
		{"Fp12", func() [][]byte { return [][]byte{c10EccMB(*c10EccFp12("a"))} },
			func(in []byte) error {
				var z ff.Fp12
				if err := z.UnmarshalBinary(in); err != nil {
					return err
				}
				_, _ = z.MarshalBinary()
				return nil
			}},
		{"Scalar", func() [][]byte { return [][]byte{c10EccMB(c10EccBlsScalar("a")), c10EccMB(&ff.Scalar{})} },
			func(in []byte) error {
				var z ff.Scalar
				if err := z.UnmarshalBinary(in); err != nil {
					return err
				}
				_, _ = z.MarshalBinary()
				return nil
			}},
		{"URoot", func() [][]byte { p := mk(); return [][]byte{p.gt, p.gtOne} },
			func(in []byte) error {
				var z ff.URoot
				if err := z.UnmarshalBinary(in); err != nil {
					return err
				}
				_ = z.IsIdentity()
				_, _ = z.MarshalBinary()
				return nil
			}},
	}
	scN := c10EccHexInt(c10EccBlsScOrderHex).FillBytes(make([]byte, 32))
	for _, d := range decs {
		d := d
		rows = append(rows, &kit.Row{Name: "ecc/bls12381/ff." + d.name + ".UnmarshalBinary", Cost: kit.Cheap,
			Covers: []string{"ecc/bls12381/ff." + d.name + ".UnmarshalBinary"},
			Setup: func() *kit.Inst {
				bases := d.bases()
				b := bases[0]
				var ex []kit.Named
				if d.name == "Scalar" {
					ex = append(ex, kit.Named{Name: "order", Data: scN},
						kit.Named{Name: "order-then-garbage", Data: c10EccCat(scN, scN)},
						kit.Named{Name: "fp-element", Data: c10EccMB(c10EccFp("a"))})
				} else {
					ex = append(ex, kit.Named{Name: "first-coefficient=p", Data: c10EccCat(fpP, b[48:])},
						kit.Named{Name: "last-coefficient=p", Data: c10EccCat(b[:len(b)-48], fpP)},
						kit.Named{Name: "scalar", Data: c10EccMB(c10EccBlsScalar("a"))})
				}
				return &kit.Inst{Bases: bases, Call: d.call, Extras: ex}
			}})
	}
	// ---- string parsers
	strExtras := func(orderHex string) []kit.Named {
		n := c10EccHexInt(orderHex)
		nm1 := new(big.Int).Sub(n, big.NewInt(1))
		x := []kit.Named{
			{Name: "order-decimal", Data: []byte(n.String())},
			{Name: "order-hex", Data: []byte("0x" + orderHex)},
			{Name: "order-minus-1-decimal", Data: []byte(nm1.String())},
			{Name: "order-minus-1-hex", Data: []byte("0x" + nm1.Text(16))},
			{Name: "order-minus-1-octal", Data: []byte("0o" + nm1.Text(8))},
			{Name: "order-minus-1-binary", Data: []byte("0b" + nm1.Text(2))},
			{Name: "negative", Data: []byte("-1")},
			{Name: "negative-zero", Data: []byte("-0")},
			{Name: "plus", Data: []byte("+5")},
			{Name: "sign-only", Data: []byte("-")},
			{Name: "prefix-only", Data: []byte("0x")},
			{Name: "underscores", Data: []byte("1_000_000")},
			{Name: "underscore-only", Data: []byte("_")},
			{Name: "leading-zeros-octal", Data: []byte("0777")},
			{Name: "invalid-octal", Data: []byte("089")},
			{Name: "float", Data: []byte("1e10")},
			{Name: "hex-float", Data: []byte("0x1p10")},
			{Name: "spaces", Data: []byte(" 12 ")},
			{Name: "nul", Data: []byte("12\x0034")},
			{Name: "non-ascii-digits", Data: []byte("١٢٣")},
			{Name: "invalid-utf8", Data: []byte{0xff, 0xfe, 0x31}},
			{Name: "10000-nines", Data: []byte(strings.Repeat("9", 10000))},
			{Name: "100000-hex-f", Data: []byte("0x" + strings.Repeat("f", 100000))},
			{Name: "10000-zeros-then-1", Data: []byte(strings.Repeat("0", 10000) + "1")},
			{Name: "hex-zeros-then-1", Data: []byte("0x" + strings.Repeat("0", 10000) + "1")},
		}
		return x
	}
	strBases := func(label string) [][]byte {
		v := new(big.Int).SetBytes(c10Shake("ecc/bls/str/"+label, 30))
		return [][]byte{[]byte(v.String()), []byte("0x" + v.Text(16)), []byte("0")}
	}
	rows = append(rows,
		&kit.Row{Name: "ecc/bls12381/ff.Fp.SetString#s", Cost: kit.Cheap, Covers: []string{"ecc/bls12381/ff.Fp.SetString"},
			Setup: func() *kit.Inst {
				return &kit.Inst{Bases: strBases("fp"), Extras: strExtras(c10EccFpOrderHex),
					Call: func(in []byte) error {
						var z ff.Fp
						if err := z.SetString(string(in)); err != nil {
							return err
						}
						_, _ = z.MarshalBinary()
						return nil
					}}
			}},
		&kit.Row{Name: "ecc/bls12381/ff.Scalar.SetString#s", Cost: kit.Cheap, Covers: []string{"ecc/bls12381/ff.Scalar.SetString"},
			Setup: func() *kit.Inst {
				return &kit.Inst{Bases: strBases("sc"), Extras: strExtras(c10EccBlsScOrderHex),
					Call: func(in []byte) error {
						var z ff.Scalar
						if err := z.SetString(string(in)); err != nil {
							return err
						}
						_, _ = z.MarshalBinary()
						return nil
					}}
			}},
		&kit.Row{Name: "ecc/bls12381/ff.Fp2.SetString#s0", Cost: kit.Cheap, Covers: []string{"ecc/bls12381/ff.Fp2.SetString"},
			Setup: func() *kit.Inst {
				return &kit.Inst{Bases: strBases("fp2/0"), Extras: strExtras(c10EccFpOrderHex),
					Call: func(in []byte) error {
						var z ff.Fp2
						if err := z.SetString(string(in), "0x1234"); err != nil {
							return err
						}
						_, _ = z.MarshalBinary()
						return nil
					}}
			}},
		&kit.Row{Name: "ecc/bls12381/ff.Fp2.SetString#s1", Cost: kit.Cheap, Covers: []string{"ecc/bls12381/ff.Fp2.SetString"},
			Setup: func() *kit.Inst {
				return &kit.Inst{Bases: strBases("fp2/1"), Extras: strExtras(c10EccFpOrderHex),
					Call: func(in []byte) error {
						var z ff.Fp2
						if err := z.SetString("0x1234", string(in)); err != nil {
							return err
						}
						_, _ = z.MarshalBinary()
						return nil
					}}
			}},
	)
	return rows
}

// ---------------------------------------------------------------------------------------------
// dh/csidh

func c10RowsEccCsidh() []*kit.Row {
	type keys struct{ sk, pk []byte }
	mk := func() *keys {
		rng := verifmc.NewDetReader("c10/ecc/csidh")
		var prv csidh.PrivateKey
		var pub csidh.PublicKey
		c10Must(csidh.GeneratePrivateKey(&prv, rng))
		csidh.GeneratePublicKey(&pub, &prv, rng)
		k := &keys{sk: make([]byte, csidh.PrivateKeySize), pk: make([]byte, csidh.PublicKeySize)}
		if !prv.Export(k.sk) || !pub.Export(k.pk) {
			panic("c10 setup: csidh export")
		}
		return k
	}
	// p (little endian, 8 x 64-bit limbs) is not needed exactly: fillFF is >= p, fill00 is the
	// starting curve; the singular curves a = +-2 are built in the Montgomery domain by Validate itself.
	return []*kit.Row{
		{Name: "dh/csidh.PrivateKey.Import", Cost: kit.Cheap, Covers: []string{"dh/csidh.PrivateKey.Import"},
			Setup: func() *kit.Inst {
				k := mk()
				return &kit.Inst{Bases: [][]byte{k.sk, make([]byte, csidh.PrivateKeySize)},
					Call: func(in []byte) error {
						var prv csidh.PrivateKey
						if !prv.Import(in) {
							return errC10False
						}
						out := make([]byte, csidh.PrivateKeySize)
						prv.Export(out)
						return nil
					},
					Extras: []kit.Named{{Name: "public-key", Data: k.pk}, {Name: "38-bytes", Data: c10EccCat(k.sk, []byte{1})}}}
			}},
		{Name: "dh/csidh.PublicKey.Import", Cost: kit.Cheap, Covers: []string{"dh/csidh.PublicKey.Import"},
			Setup: func() *kit.Inst {
				k := mk()
				return &kit.Inst{Bases: [][]byte{k.pk, make([]byte, csidh.PublicKeySize)},
					Call: func(in []byte) error {
						var pub csidh.PublicKey
						if !pub.Import(in) {
							return errC10False
						}
						out := make([]byte, csidh.PublicKeySize)
						pub.Export(out)
						return nil
					},
					Extras: []kit.Named{{Name: "private-key", Data: k.sk}}}
			}},
		{Name: "dh/csidh.PublicKey.Import(+Validate)", Cost: kit.VSlow, Covers: []string{"dh/csidh.PublicKey.Import"},
			Note: "the imported key is then validated (csidh.Validate with a deterministic reader); an invalid key is a rejection",
			Setup: func() *kit.Inst {
				k := mk()
				return &kit.Inst{Bases: [][]byte{k.pk},
					Call: func(in []byte) error {
						var pub csidh.PublicKey
						if !pub.Import(in) {
							return errC10False
						}
						return c10Bool(csidh.Validate(&pub, verifmc.NewDetReader("c10/ecc/csidh/validate")))
					},
					Extras: []kit.Named{{Name: "private-key", Data: k.sk}, {Name: "a=0", Data: make([]byte, csidh.PublicKeySize)}}}
			}},
	}
}

// ---------------------------------------------------------------------------------------------
// dh/sidh

type c10EccSidhField struct {
	name   string
	id     uint8
	kem    func() *sidh.KEM
	dsCost int // one DeriveSecret
}

func c10EccSidhFields() []c10EccSidhField {
	return []c10EccSidhField{
		{"Fp434", sidh.Fp434, func() *sidh.KEM { return sidh.NewSike434(verifmc.NewDetReader("c10/ecc/sike434")) }, kit.Slow},
		{"Fp503", sidh.Fp503, func() *sidh.KEM { return sidh.NewSike503(verifmc.NewDetReader("c10/ecc/sike503")) }, kit.Slow},
		{"Fp751", sidh.Fp751, func() *sidh.KEM { return sidh.NewSike751(verifmc.NewDetReader("c10/ecc/sike751")) }, kit.VSlow},
	}
}

type c10EccSidhVariant struct {
	name string
	v    sidh.KeyVariant
}

func c10EccSidhVariants() []c10EccSidhVariant {
	return []c10EccSidhVariant{{"A", sidh.KeyVariantSidhA}, {"B", sidh.KeyVariantSidhB}, {"SIKE", sidh.KeyVariantSike}}
}

type c10EccSidhKeys struct {
	prv      *sidh.PrivateKey
	pub      *sidh.PublicKey
	psk, ppk []byte
}

func c10EccSidhKeygen(f c10EccSidhField, v c10EccSidhVariant, label string) *c10EccSidhKeys {
	k := &c10EccSidhKeys{prv: sidh.NewPrivateKey(f.id, v.v), pub: sidh.NewPublicKey(f.id, v.v)}
	c10Must(k.prv.Generate(verifmc.NewDetReader("c10/ecc/sidh/" + f.name + "/" + v.name + "/" + label)))
	k.prv.GeneratePublicKey(k.pub)
	k.psk = make([]byte, k.prv.Size())
	k.prv.Export(k.psk)
	k.ppk = make([]byte, k.pub.Size())
	k.pub.Export(k.ppk)
	return k
}

func c10RowsEccSidh() []*kit.Row {
	var rows []*kit.Row
	for _, f := range c10EccSidhFields() {
		f := f
		for _, v := range c10EccSidhVariants() {
			v := v
			n := "dh/sidh[" + f.name + "," + v.name + "]"
			rows = append(rows, &kit.Row{Name: n + ".PrivateKey.Import", Cost: kit.Cheap, Covers: []string{"dh/sidh.PrivateKey.Import"},
				Setup: func() *kit.Inst {
					k := c10EccSidhKeygen(f, v, "1")
					k2 := c10EccSidhKeygen(f, v, "2")
					var ex []kit.Named
					ex = append(ex, kit.Named{Name: "own-public-key", Data: k.ppk})
					for _, o := range c10EccSidhVariants() {
						if o.name != v.name {
							ex = append(ex, kit.Named{Name: "private-key-of-variant-" + o.name, Data: c10EccSidhKeygen(f, o, "1").psk})
						}
					}
					return &kit.Inst{Bases: [][]byte{k.psk, k2.psk}, Extras: ex,
						Call: func(in []byte) error {
							prv := sidh.NewPrivateKey(f.id, v.v)
							if err := prv.Import(in); err != nil {
								return err
							}
							out := make([]byte, prv.Size())
							prv.Export(out)
							return nil
						}}
				}})
			rows = append(rows, &kit.Row{Name: n + ".PublicKey.Import", Cost: kit.Cheap, Covers: []string{"dh/sidh.PublicKey.Import"},
				Setup: func() *kit.Inst {
					k := c10EccSidhKeygen(f, v, "1")
					k2 := c10EccSidhKeygen(f, v, "2")
					var ex []kit.Named
					ex = append(ex, kit.Named{Name: "own-private-key", Data: k.psk})
					for _, o := range c10EccSidhFields() {
						if o.name != f.name {
							ex = append(ex, kit.Named{Name: "public-key-of-" + o.name, Data: c10EccSidhKeygen(o, v, "1").ppk})
						}
					}
					return &kit.Inst{Bases: [][]byte{k.ppk, k2.ppk}, Extras: ex,
						Call: func(in []byte) error {
							pub := sidh.NewPublicKey(f.id, v.v)
							if err := pub.Import(in); err != nil {
								return err
							}
							out := make([]byte, pub.Size())
							pub.Export(out)
							return nil
						}}
				}})
		}
		vA, vB, vS := c10EccSidhVariants()[0], c10EccSidhVariants()[1], c10EccSidhVariants()[2]
		rows = append(rows, &kit.Row{Name: "dh/sidh[" + f.name + ",B].PublicKey.Import(+DeriveSecret)", Cost: f.dsCost,
			Covers: []string{"dh/sidh.PublicKey.Import"},
			Note:   "the imported 3-torsion public key is then used in PrivateKey(A).DeriveSecret (Import documents that it performs no validation)",
			Setup: func() *kit.Inst {
				a := c10EccSidhKeygen(f, vA, "1")
				b := c10EccSidhKeygen(f, vB, "1")
				return &kit.Inst{Bases: [][]byte{b.ppk},
					Extras: []kit.Named{{Name: "own-public-key-variant-A", Data: a.ppk}},
					Call: func(in []byte) error {
						pub := sidh.NewPublicKey(f.id, vB.v)
						if err := pub.Import(in); err != nil {
							return err
						}
						ss := make([]byte, a.prv.SharedSecretSize())
						a.prv.DeriveSecret(ss, pub)
						return nil
					}}
			}})
		rows = append(rows, &kit.Row{Name: "dh/sidh[" + f.name + "].KEM.Decapsulate#ciphertext", Cost: kit.VSlow,
			Covers: []string{"dh/sidh.KEM.Decapsulate"},
			Note: "Decapsulate documents: \"Decapsulation may panic in case input is wrongly formatted, in particular, size of the " +
				"'ciphertext' must be exactly equal to c.CiphertextSize()\"; the row guards that length (other lengths are reported as rejected " +
				"without calling Decapsulate), so only same-length contents reach the entry point",
			Setup: func() *kit.Inst {
				k := c10EccSidhKeygen(f, vS, "kem")
				kem := f.kem()
				ct := make([]byte, kem.CiphertextSize())
				ss := make([]byte, kem.SharedSecretSize())
				c10Must(kem.Encapsulate(ct, ss, k.pub))
				ct2 := make([]byte, kem.CiphertextSize())
				c10Must(kem.Encapsulate(ct2, ss, k.pub))
				dec := f.kem()
				return &kit.Inst{Bases: [][]byte{ct, ct2},
					Extras: []kit.Named{{Name: "public-key-then-zeros", Data: c10EccCat(k.ppk, make([]byte, len(ct)-len(k.ppk)))}},
					Call: func(in []byte) error {
						if len(in) != dec.CiphertextSize() {
							return errC10EccLen
						}
						out := make([]byte, dec.SharedSecretSize())
						return dec.Decapsulate(out, k.prv, k.pub, in)
					}}
			}})
	}
	return rows
}

// ---------------------------------------------------------------------------------------------
// zk/dleq and zk/dl

func c10RowsEccZk() []*kit.Row {
	var rows []*kit.Row
	for _, gi := range c10EccGroups() {
		gi := gi
		g := gi.g
		rows = append(rows, &kit.Row{Name: "zk/dleq[" + gi.name + "].Proof.UnmarshalBinary(+Verify)", Cost: gi.mulCost,
			Covers: []string{"zk/dleq.Proof.UnmarshalBinary"},
			Note:   "an accepted proof is then checked with Verifier.Verify; a proof that does not verify is a rejection",
			Setup: func() *kit.Inst {
				params := dleq.Params{G: g, H: gi.h, DST: []byte("verif-c10-dleq")}
				k := c10EccScalar(g, "dleq/k")
				a := g.Generator()
				ka := g.NewElement().Mul(a, k)
				b := c10EccElement(g, "dleq/b")
				kb := g.NewElement().Mul(b, k)
				pr, err := dleq.Prover{Params: params}.ProveWithRandomness(k, a, ka, b, kb, c10EccScalar(g, "dleq/r"))
				c10Must(err)
				pr2, err := dleq.Prover{Params: params}.ProveWithRandomness(k, a, ka, b, kb, c10EccScalar(g, "dleq/r2"))
				c10Must(err)
				enc, enc2 := c10EccMB(pr), c10EccMB(pr2)
				sl := int(g.Params().ScalarLength)
				ex := []kit.Named{
					{Name: "first-scalar-then-over-long-second", Data: c10EccCat(enc, c10Shake("ecc/dleq/tail", sl))},
					{Name: "three-scalars", Data: c10EccCat(enc, enc[:sl])},
				}
				for _, o := range c10EccGroups() {
					if o.name != gi.name {
						ex = append(ex, kit.Named{Name: "two-scalars-of-" + o.name,
							Data: c10EccCat(c10EccMB(c10EccScalar(o.g, "f1")), c10EccMB(c10EccScalar(o.g, "f2")))})
					}
				}
				ver := dleq.Verifier{Params: params}
				return &kit.Inst{Bases: [][]byte{enc, enc2}, Extras: ex,
					Call: func(in []byte) error {
						var p dleq.Proof
						if err := p.UnmarshalBinary(g, in); err != nil {
							return err
						}
						return c10Bool(ver.Verify(a, ka, b, kb, &p))
					}}
			}})
		rows = append(rows, &kit.Row{Name: "zk/dl[" + gi.name + "].Verify#proof", Cost: kit.Slow, Covers: []string{"zk/dl.Verify"},
			Note: "dl.Proof has no decoder of its own: the row decodes V (compressed element) || R (scalar) with the group decoders, " +
				"only for the exact total length, and passes the result to dl.Verify",
			Setup: func() *kit.Inst {
				k := c10EccScalar(g, "dl/k")
				G := g.Generator()
				kG := g.NewElement().Mul(G, k)
				uid, oi := []byte("verif-c10-user"), []byte("verif-c10-other-info")
				var pr dl.Proof
				c10EccWithDetRand("dl/"+gi.name, func() {
					pr = dl.Prove(g, G, kG, k, uid, oi, verifmc.NewDetReader("c10/ecc/dl/"+gi.name))
				})
				enc := c10EccCat(c10EccCompressed(pr.V), c10EccMB(pr.R))
				cl, sl := int(g.Params().CompressedElementLength), int(g.Params().ScalarLength)
				return &kit.Inst{Bases: [][]byte{enc},
					Call: func(in []byte) error {
						if len(in) != cl+sl {
							return errC10EccLen
						}
						V, R := g.NewElement(), g.NewScalar()
						if err := V.UnmarshalBinary(in[:cl]); err != nil {
							return err
						}
						if err := R.UnmarshalBinary(in[cl:]); err != nil {
							return err
						}
						return c10Bool(dl.Verify(g, G, kG, dl.Proof{V: V, R: R}, uid, oi))
					}}
			}})
	}
	// userID / otherInfo are hashed (otherInfo is the hash-to-scalar domain separation tag): one group is enough
	g := group.P256
	mkdl := func() (G, kG group.Element, pr dl.Proof, uid, oi []byte) {
		k := c10EccScalar(g, "dl/k")
		G = g.Generator()
		kG = g.NewElement().Mul(G, k)
		uid, oi = []byte("verif-c10-user"), []byte("verif-c10-other-info")
		pr = dl.Prove(g, G, kG, k, uid, oi, verifmc.NewDetReader("c10/ecc/dl/P256"))
		return
	}
	rows = append(rows,
		&kit.Row{Name: "zk/dl[P256].Verify#userID", Cost: kit.Medium, Covers: []string{"zk/dl.Verify"},
			Setup: func() *kit.Inst {
				G, kG, pr, uid, oi := mkdl()
				return &kit.Inst{Bases: [][]byte{uid}, Extras: c10EccLenExtras(),
					Call: func(in []byte) error { return c10Bool(dl.Verify(g, G, kG, pr, in, oi)) }}
			}},
		&kit.Row{Name: "zk/dl[P256].Verify#otherInfo", Cost: kit.Medium, Covers: []string{"zk/dl.Verify"},
			Note: "otherInfo is used as a hash-to-field domain separation tag: lengths around 255 and far beyond",
			Setup: func() *kit.Inst {
				G, kG, pr, uid, oi := mkdl()
				return &kit.Inst{Bases: [][]byte{oi}, Extras: c10EccLenExtras(),
					Call: func(in []byte) error { return c10Bool(dl.Verify(g, G, kG, pr, uid, in)) }}
			}})
	return rows
}

// ---------------------------------------------------------------------------------------------
// oprf

type c10EccSuite struct {
	name string
	s    oprf.Suite
	gi   c10EccGroup
	cost int // one full evaluation
}

func c10EccSuites() []c10EccSuite {
	gs := c10EccGroups()
	return []c10EccSuite{
		{"P256-SHA256", oprf.SuiteP256, gs[0], kit.Slow},
		{"P384-SHA384", oprf.SuiteP384, gs[1], kit.Slow},
		{"P521-SHA512", oprf.SuiteP521, gs[2], kit.Slow},
		{"ristretto255-SHA512", oprf.SuiteRistretto255, gs[3], kit.Medium},
	}
}

func c10RowsEccOprf() []*kit.Row {
	var rows []*kit.Row
	key := func(su c10EccSuite, mode oprf.Mode, label string) *oprf.PrivateKey {
		k, err := oprf.DeriveKey(su.s, mode, c10Shake("ecc/oprf/seed/"+su.name+"/"+label, 32), []byte("verif-c10"))
		c10Must(err)
		return k
	}
	for _, su := range c10EccSuites() {
		su := su
		n := "oprf[" + su.name + "]"
		g := su.gi.g
		rows = append(rows, &kit.Row{Name: n + ".PrivateKey.UnmarshalBinary", Cost: su.gi.eltCost,
			Covers: []string{"oprf.PrivateKey.UnmarshalBinary"},
			Note:   "an accepted key is then marshalled and its public key computed and marshalled",
			Setup: func() *kit.Inst {
				k1, k2 := key(su, oprf.BaseMode, "1"), key(su, oprf.VerifiableMode, "2")
				sl := int(g.Params().ScalarLength)
				ex := c10EccForeignScls(su.gi.name)
				ex = append(ex, kit.Named{Name: "own-public-key", Data: c10EccMB(k1.Public())},
					kit.Named{Name: "twice-the-length", Data: c10Shake("ecc/oprf/sk2x/"+su.name, 2*sl)},
					kit.Named{Name: "zero", Data: make([]byte, sl)})
				return &kit.Inst{Bases: [][]byte{c10EccMB(k1), c10EccMB(k2)}, Extras: ex,
					Call: func(in []byte) error {
						k := new(oprf.PrivateKey)
						if err := k.UnmarshalBinary(su.s, in); err != nil {
							return err
						}
						_, _ = k.MarshalBinary()
						_, _ = k.Public().MarshalBinary()
						return nil
					}}
			}})
		pkFormats := []string{"", "#uncompressed", "#identity"} // MarshalBinary emits the compressed form
		if !su.gi.w {
			pkFormats = []string{"", "#identity"}
		}
		for _, format := range pkFormats {
			format := format
			rows = append(rows, &kit.Row{Name: n + ".PublicKey.UnmarshalBinary" + format, Cost: su.gi.eltCost,
				Covers: []string{"oprf.PublicKey.UnmarshalBinary"},
				Setup: func() *kit.Inst {
					k1, k2 := key(su, oprf.BaseMode, "1"), key(su, oprf.VerifiableMode, "2")
					ex := c10EccForeignElts(su.gi.name)
					ex = append(ex, kit.Named{Name: "own-private-key", Data: c10EccMB(k1)})
					var bases [][]byte
					switch format {
					case "":
						bases = [][]byte{c10EccMB(k1.Public()), c10EccMB(k2.Public())}
					case "#uncompressed":
						bases = [][]byte{c10EccMB(c10EccElement(g, "oprf/pk-uncompressed"))}
					default:
						bases = [][]byte{c10EccMB(g.Identity())}
					}
					return &kit.Inst{Bases: bases, Extras: ex,
						Call: func(in []byte) error {
							k := new(oprf.PublicKey)
							if err := k.UnmarshalBinary(su.s, in); err != nil {
								return err
							}
							_, _ = k.MarshalBinary()
							return nil
						}}
				}})
		}
		input, info := []byte("verif-c10-in"), []byte("verif-c10-info")
		longs := func() []kit.Named {
			return []kit.Named{{Name: "len65535", Data: c10Shake("ecc/oprf/long", 65535)}, {Name: "len65536", Data: c10Shake("ecc/oprf/long", 65536)},
				{Name: "len65537", Data: c10Shake("ecc/oprf/long", 65537)}, {Name: "len131072", Data: c10Shake("ecc/oprf/long", 131072)}}
		}
		// Server / VerifiableServer share the signature VerifyFinalize(input, expectedOutput)
		type vf struct {
			typ string
			mk  func() (call func(input, out []byte) bool, out []byte)
		}
		for _, v := range []vf{
			{"Server", func() (func(input, out []byte) bool, []byte) {
				s := oprf.NewServer(su.s, key(su, oprf.BaseMode, "1"))
				out, err := s.FullEvaluate(input)
				c10Must(err)
				return s.VerifyFinalize, out
			}},
			{"VerifiableServer", func() (func(input, out []byte) bool, []byte) {
				s := oprf.NewVerifiableServer(su.s, key(su, oprf.VerifiableMode, "1"))
				out, err := s.FullEvaluate(input)
				c10Must(err)
				return s.VerifyFinalize, out
			}},
		} {
			v := v
			rows = append(rows, &kit.Row{Name: n + "." + v.typ + ".VerifyFinalize#input", Cost: su.cost,
				Covers: []string{"oprf." + v.typ + ".VerifyFinalize"},
				Setup: func() *kit.Inst {
					call, out := v.mk()
					return &kit.Inst{Bases: [][]byte{input}, Extras: longs(),
						Call: func(in []byte) error { return c10Bool(call(in, out)) }}
				}})
			rows = append(rows, &kit.Row{Name: n + "." + v.typ + ".VerifyFinalize#expectedOutput", Cost: su.cost,
				Covers: []string{"oprf." + v.typ + ".VerifyFinalize"},
				Setup: func() *kit.Inst {
					call, out := v.mk()
					return &kit.Inst{Bases: [][]byte{out}, Extras: longs()[:2],
						Call: func(in []byte) error { return c10Bool(call(input, in)) }}
				}})
		}
		mkpo := func() (oprf.PartialObliviousServer, []byte) {
			s := oprf.NewPartialObliviousServer(su.s, key(su, oprf.PartialObliviousMode, "1"))
			out, err := s.FullEvaluate(input, info)
			c10Must(err)
			return s, out
		}
		cov := []string{"oprf.PartialObliviousServer.VerifyFinalize"}
		rows = append(rows,
			&kit.Row{Name: n + ".PartialObliviousServer.VerifyFinalize#input", Cost: su.cost, Covers: cov,
				Setup: func() *kit.Inst {
					s, out := mkpo()
					return &kit.Inst{Bases: [][]byte{input}, Extras: longs(),
						Call: func(in []byte) error { return c10Bool(s.VerifyFinalize(in, info, out)) }}
				}},
			&kit.Row{Name: n + ".PartialObliviousServer.VerifyFinalize#info", Cost: su.cost, Covers: cov,
				Note: "info longer than 65535 bytes is documented to fail (ErrInvalidInfo)",
				Setup: func() *kit.Inst {
					s, out := mkpo()
					return &kit.Inst{Bases: [][]byte{info}, Extras: longs(),
						Call: func(in []byte) error { return c10Bool(s.VerifyFinalize(input, in, out)) }}
				}},
			&kit.Row{Name: n + ".PartialObliviousServer.VerifyFinalize#expectedOutput", Cost: su.cost, Covers: cov,
				Setup: func() *kit.Inst {
					s, out := mkpo()
					return &kit.Inst{Bases: [][]byte{out}, Extras: longs()[:2],
						Call: func(in []byte) error { return c10Bool(s.VerifyFinalize(input, info, in)) }}
				}})
	}
	return rows
}

// ---------------------------------------------------------------------------------------------
// ot/simot

// c10EccWithDetRand runs f with crypto/rand.Reader replaced by a deterministic stream (set-up only,
// single goroutine, restored afterwards). Needed where circl draws from crypto/rand behind the API:
// ot/simot, and the ristretto255 group, whose Random* methods ignore their reader argument.
func c10EccWithDetRand(label string, f func()) {
	old := crand.Reader
	crand.Reader = verifmc.NewDetReader("c10/ecc/detrand/" + label)
	defer func() { crand.Reader = old }()
	f()
}

// c10EccSimot runs rounds 0..2 of one simplest-OT instance. The package draws its randomness from
// crypto/rand.Reader only, so the global reader is replaced by a deterministic stream for the
// duration of the set-up (single goroutine, restored afterwards).
func c10EccSimot(choice int) (r *simot.Receiver, e0, e1 []byte) {
	g := group.P256
	var s simot.Sender
	r = new(simot.Receiver)
	c10EccWithDetRand("simot/"+string(rune('0'+choice)), func() {
		A := s.InitSender(g, c10Shake("ecc/simot/m0", 16), c10Shake("ecc/simot/m1", 16), 0)
		B := r.Round1Receiver(g, choice, 0, A)
		e0, e1 = s.Round2Sender(B)
	})
	return r, append([]byte{}, e0...), append([]byte{}, e1...)
}

func c10RowsEccSimot() []*kit.Row {
	cov := []string{"ot/simot.Receiver.Round3Receiver"}
	return []*kit.Row{
		{Name: "ot/simot.Receiver.Round3Receiver#e0(choice=0)", Cost: kit.Medium, Covers: cov,
			Note: "e1 is the honest ciphertext; rounds 0-2 run with crypto/rand.Reader replaced by a deterministic stream",
			Setup: func() *kit.Inst {
				r, e0, e1 := c10EccSimot(0)
				return &kit.Inst{Bases: [][]byte{e0}, Extras: []kit.Named{{Name: "the-other-ciphertext", Data: e1}},
					Call: func(in []byte) error { return r.Round3Receiver(in, e1, 0) }}
			}},
		{Name: "ot/simot.Receiver.Round3Receiver#e1(choice=1)", Cost: kit.Medium, Covers: cov,
			Note: "e0 is the honest ciphertext",
			Setup: func() *kit.Inst {
				r, e0, e1 := c10EccSimot(1)
				return &kit.Inst{Bases: [][]byte{e1}, Extras: []kit.Named{{Name: "the-other-ciphertext", Data: e0}},
					Call: func(in []byte) error { return r.Round3Receiver(e0, in, 1) }}
			}},
		{Name: "ot/simot.Receiver.Round3Receiver#e0=e1(choice=0)", Cost: kit.Medium, Covers: cov,
			Note: "both ciphertexts are the untrusted string (equal lengths), so every length reaches the AEAD open",
			Setup: func() *kit.Inst {
				r, e0, e1 := c10EccSimot(0)
				return &kit.Inst{Bases: [][]byte{e0}, Extras: []kit.Named{{Name: "the-other-ciphertext", Data: e1}},
					Call: func(in []byte) error { return r.Round3Receiver(in, in, 0) }}
			}},
	}
}

// ---------------------------------------------------------------------------------------------

func c10RowsEcc() []*kit.Row {
	rows := c10RowsEccGroup()
	rows = append(rows, c10RowsEccGoldilocks()...)
	rows = append(rows, c10RowsEccBls()...)
	rows = append(rows, c10RowsEccCsidh()...)
	rows = append(rows, c10RowsEccSidh()...)
	rows = append(rows, c10RowsEccZk()...)
	rows = append(rows, c10RowsEccOprf()...)
	rows = append(rows, c10RowsEccSimot()...)
	return rows
}

func init() { c10Register("ecc", c10RowsEcc) }

func TestVerifC10_ecc(t *testing.T) { c10Run(t, "ecc") }
