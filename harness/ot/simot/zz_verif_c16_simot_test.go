//go:build verif

package simot

// C16 (ot/simot part): in 1-out-of-2 oblivious transfer of two equal-length
// messages the receiver obtains exactly the chosen message and cannot decrypt
// the other one with the key it derives. In-package: the derived keys are
// unexported fields. simot draws its randomness from crypto/rand itself; the
// oracle does not depend on it.

import (
	"bytes"
	"fmt"
	"testing"

	"github.com/cloudflare/circl/internal/verifc16"
	"github.com/cloudflare/circl/internal/verifmc"
)

func c16Contents(n int) [][]byte {
	return [][]byte{make([]byte, n), bytes.Repeat([]byte{0xff}, n), verifmc.Msg(n)}
}

func TestVerifC16_simot(t *testing.T) {
	r := verifmc.Start(t, "C16", "simot")
	defer r.Finish()
	r.Rule("full product group in {ristretto255,P-256,P-384,P-521} x choice in {0,1} x length in {0,1,15,16,17,32} x (m0,m1) in {00..,FF..,Msg}^2 (equal lengths; pairs with m0 = m1 included); " +
		"oracles: Round3 succeeds and returns exactly m_choice; the receiver's key equals the sender's k_choice and differs from k_(1-choice); decrypting e_(1-choice) with the receiver's key fails " +
		"(directly and through Round3Receiver with the other selector); ciphertext lengths are 12+len+16; three single-bit flips of e_choice are refused; non-trivial = distinct (group, choice, m0, m1)")
	groups := verifc16.Groups()
	lens := []int{0, 1, 15, 16, 17, 32}
	type job struct{ gi, choice, li, i0, i1 int }
	var jobs []job
	for gi := range groups {
		verifmc.Product([]int{2, len(lens), 3, 3}, func(x []int) bool {
			jobs = append(jobs, job{gi, x[0], x[1], x[2], x[3]})
			return true
		})
	}
	r.Set("cases", len(jobs))
	var col verifc16.Collector
	verifmc.ParallelFor(len(jobs), func(ji int) {
		j := jobs[ji]
		g := groups[j.gi]
		n := lens[j.li]
		cs := c16Contents(n)
		m0, m1 := append([]byte{}, cs[j.i0]...), append([]byte{}, cs[j.i1]...)
		ms := [2][]byte{m0, m1}
		id := fmt.Sprintf("%s/choice=%d/len=%d/m0=%d,m1=%d", g.Name, j.choice, n, j.i0, j.i1)
		if !r.Want(id) {
			return
		}
		rp := map[string]interface{}{"group": g.Name, "choice": j.choice, "m0": verifc16.Hx(m0), "m1": verifc16.Hx(m1)}
		fail := func(class, what string) {
			col.Add("C16|simot|"+class+"|"+fmt.Sprintf("choice=%d", j.choice), id, id+": "+what, rp)
		}
		var sender Sender
		var receiver Receiver
		var e0, e1 []byte
		if p, what := verifmc.Try(func() {
			A := sender.InitSender(g.G, m0, m1, 0)
			B := receiver.Round1Receiver(g.G, j.choice, 0, A)
			e0, e1 = sender.Round2Sender(B)
		}); p {
			fail("panic:"+verifmc.PanicClass(what), what)
			return
		}
		r.Eval(1)
		r.Distinct(g.Name, j.choice, m0, []byte{0xfe}, m1)
		es := [2][]byte{e0, e1}
		if len(e0) != 12+n+16 || len(e1) != 12+n+16 {
			fail("ciphertext-length", fmt.Sprintf("len(e0)=%d len(e1)=%d for %d-byte messages", len(e0), len(e1), n))
		}
		// a second receiver in the same state, for the attempt to open the other message
		other := receiver
		other.kR = make([]byte, keyLength)
		other.mc = nil
		tamper := receiver
		tamper.kR = make([]byte, keyLength)
		var err error
		if p, what := verifmc.Try(func() { err = receiver.Round3Receiver(e0, e1, j.choice) }); p {
			fail("panic:"+verifmc.PanicClass(what), what)
			return
		}
		if err != nil {
			fail("chosen-message-not-decrypted", "Round3Receiver: "+err.Error())
			return
		}
		if got := receiver.Returnmc(); !bytes.Equal(got, ms[j.choice]) {
			fail("wrong-message", fmt.Sprintf("receiver obtained %x, chosen message is %x", got, ms[j.choice]))
			return
		}
		r.Count("chosen_message_obtained", 1)
		ks := [2][]byte{sender.k0, sender.k1}
		if !bytes.Equal(receiver.kR, ks[j.choice]) {
			fail("receiver-key-differs-from-k_choice", fmt.Sprintf("kR=%x k_choice=%x", receiver.kR, ks[j.choice]))
		}
		if bytes.Equal(receiver.kR, ks[1-j.choice]) || bytes.Equal(sender.k0, sender.k1) {
			fail("receiver-key-equals-other-key", fmt.Sprintf("kR=%x k0=%x k1=%x", receiver.kR, sender.k0, sender.k1))
		}
		if pt, err := aesDecGCM(receiver.kR, es[1-j.choice]); err == nil {
			fail("other-message-decrypts", fmt.Sprintf("e_(1-choice) opens under the receiver's key to %x", pt))
		} else {
			r.Count("other_message_refused", 1)
		}
		if pt, err := aesDecGCM(receiver.kR, es[j.choice]); err != nil || !bytes.Equal(pt, ms[j.choice]) {
			fail("chosen-ciphertext-does-not-open-under-receiver-key", fmt.Sprintf("err=%v pt=%x", err, pt))
		}
		// the same through the public entry point: select the other ciphertext
		if p, what := verifmc.Try(func() { err = other.Round3Receiver(e0, e1, 1-j.choice) }); p {
			fail("panic:"+verifmc.PanicClass(what), what)
		} else if err == nil {
			fail("other-message-decrypts", fmt.Sprintf("Round3Receiver with the other selector returned %x", other.Returnmc()))
		} else if other.Returnmc() != nil {
			fail("failed-round3-releases-data", fmt.Sprintf("%x", other.Returnmc()))
		} else {
			r.Count("other_selector_refused", 1)
		}
		r.Eval(2)
		// tampering with the chosen ciphertext (nonce, body or tag bit)
		if g.Level(r.Thorough()) >= 1 || (j.i0 == 2 && j.i1 == 0) {
			bits := []int{0, 12 * 8, (len(e0) - 1) * 8}
			for _, b := range bits {
				t0, t1 := append([]byte{}, e0...), append([]byte{}, e1...)
				if j.choice == 0 {
					t0 = verifmc.Flip(t0, b)
				} else {
					t1 = verifmc.Flip(t1, b)
				}
				tr := tamper
				tr.kR = make([]byte, keyLength)
				if p, _ := verifmc.Try(func() { err = tr.Round3Receiver(t0, t1, j.choice) }); !p && err == nil {
					fail("tampered-ciphertext-accepted", fmt.Sprintf("bit %d of e_choice flipped, Round3Receiver returned %x", b, tr.Returnmc()))
				} else {
					r.Count("tampered_refused", 1)
				}
				r.Eval(1)
			}
		}
		if ji == 100 {
			r.Sample(map[string]interface{}{"case": id, "e0": verifc16.Hx(e0), "e1": verifc16.Hx(e1), "kR": verifc16.Hx(receiver.kR)})
		}
	})
	col.Flush(r)
	if !r.Thorough() {
		r.Set("note", "bit-flip tampering on P-521 only for one message pair per (choice, length) in the quick tier")
	}
	r.RequireCounter("chosen_message_obtained", int64(len(jobs)))
	r.RequireCounter("other_message_refused", int64(len(jobs)))
	r.RequireCounter("other_selector_refused", int64(len(jobs)))
}
