//go:build verif

package simot_test

// C16 (ot/simot part), exported API only (this file and the histories file name no
// unexported identifier): in 1-out-of-2 oblivious transfer of two equal-length
// messages the receiver obtains exactly the chosen message; asking the same
// receiver state for the other ciphertext fails; a tampered ciphertext is refused.
// The part that needs the receiver's derived key lives in
// zz_verif_c16_simot_keys_test.go (in-package). simot draws its randomness from
// crypto/rand itself; the oracle does not depend on it.

import (
	"bytes"
	"fmt"
	"testing"

	"github.com/cloudflare/circl/internal/verifc16"
	"github.com/cloudflare/circl/internal/verifmc"
	"github.com/cloudflare/circl/ot/simot"
)

func c16Contents(n int) [][]byte {
	return [][]byte{make([]byte, n), bytes.Repeat([]byte{0xff}, n), verifmc.Msg(n)}
}

func TestVerifC16_simot(t *testing.T) {
	r := verifmc.Start(t, "C16", "simot")
	defer r.Finish()
	r.Rule("full product group in {ristretto255,P-256,P-384,P-521} x choice in {0,1} x length in {0,1,15,16,17,32} x (m0,m1) in {00..,FF..,Msg}^2 (equal lengths; pairs with m0 = m1 included); " +
		"oracles (exported API): Round3Receiver succeeds and Returnmc is exactly m_choice; a copy of the receiver's state asked for the other ciphertext (Round3Receiver with the other selector) fails and releases nothing; " +
		"ciphertext lengths are 12+len+16; three single-bit flips of e_choice are refused; non-trivial = distinct (group, choice, m0, m1)")
	groups := verifc16.Groups()
	lens := []int{0, 1, 15, 16, 17, 32}
	type job struct{ gi, choice, li, i0, i1 int }
	var jobs []job
	for gi := range groups {
		verifmc.Product([]int{2, len(lens), 3, 3}, func(x []int) bool {
			jobs = append(jobs, job{gi, x[0], x[1], x[2], x[3]})
			return true
		})
	}
	r.Set("cases", len(jobs))
	var col verifc16.Collector
	verifmc.ParallelFor(len(jobs), func(ji int) {
		j := jobs[ji]
		g := groups[j.gi]
		n := lens[j.li]
		cs := c16Contents(n)
		m0, m1 := append([]byte{}, cs[j.i0]...), append([]byte{}, cs[j.i1]...)
		ms := [2][]byte{m0, m1}
		id := fmt.Sprintf("%s/choice=%d/len=%d/m0=%d,m1=%d", g.Name, j.choice, n, j.i0, j.i1)
		if !r.Want(id) {
			return
		}
		rp := map[string]interface{}{"group": g.Name, "choice": j.choice, "m0": verifc16.Hx(m0), "m1": verifc16.Hx(m1)}
		fail := func(class, what string) {
			col.Add("C16|simot|"+class+"|"+fmt.Sprintf("choice=%d", j.choice), id, id+": "+what, rp)
		}
		var sender simot.Sender
		var receiver simot.Receiver
		var e0, e1 []byte
		if p, what := verifmc.Try(func() {
			A := sender.InitSender(g.G, m0, m1, 0)
			B := receiver.Round1Receiver(g.G, j.choice, 0, A)
			e0, e1 = sender.Round2Sender(B)
		}); p {
			fail("panic:"+verifmc.PanicClass(what), what)
			return
		}
		r.Eval(1)
		r.Distinct(g.Name, j.choice, m0, []byte{0xfe}, m1)
		if len(e0) != 12+n+16 || len(e1) != 12+n+16 {
			fail("ciphertext-length", fmt.Sprintf("len(e0)=%d len(e1)=%d for %d-byte messages", len(e0), len(e1), n))
		}
		// copies of the receiver's state (before round 3): one for the attempt to open the other message, one per tampering
		other := receiver
		tamper := receiver
		var err error
		if p, what := verifmc.Try(func() { err = receiver.Round3Receiver(e0, e1, j.choice) }); p {
			fail("panic:"+verifmc.PanicClass(what), what)
			return
		}
		if err != nil {
			fail("chosen-message-not-decrypted", "Round3Receiver: "+err.Error())
			return
		}
		if got := receiver.Returnmc(); !bytes.Equal(got, ms[j.choice]) {
			fail("wrong-message", fmt.Sprintf("receiver obtained %x, chosen message is %x", got, ms[j.choice]))
			return
		}
		r.Count("chosen_message_obtained", 1)
		if p, what := verifmc.Try(func() { err = other.Round3Receiver(e0, e1, 1-j.choice) }); p {
			fail("panic:"+verifmc.PanicClass(what), what)
		} else if err == nil {
			fail("other-message-decrypts", fmt.Sprintf("Round3Receiver with the other selector returned %x", other.Returnmc()))
		} else if other.Returnmc() != nil {
			fail("failed-round3-releases-data", fmt.Sprintf("%x", other.Returnmc()))
		} else {
			r.Count("other_selector_refused", 1)
		}
		r.Eval(2)
		if g.Level(r.Thorough()) >= 1 || (j.i0 == 2 && j.i1 == 0) {
			for _, b := range []int{0, 12 * 8, (len(e0) - 1) * 8} {
				t0, t1 := append([]byte{}, e0...), append([]byte{}, e1...)
				if j.choice == 0 {
					t0 = verifmc.Flip(t0, b)
				} else {
					t1 = verifmc.Flip(t1, b)
				}
				tr := tamper
				if p, _ := verifmc.Try(func() { err = tr.Round3Receiver(t0, t1, j.choice) }); !p && err == nil {
					fail("tampered-ciphertext-accepted", fmt.Sprintf("bit %d of e_choice flipped, Round3Receiver returned %x", b, tr.Returnmc()))
				} else {
					r.Count("tampered_refused", 1)
				}
				r.Eval(1)
			}
		}
		if ji == 100 {
			r.Sample(map[string]interface{}{"case": id, "e0": verifc16.Hx(e0), "e1": verifc16.Hx(e1)})
		}
	})
	col.Flush(r)
	if !r.Thorough() {
		r.Set("note", "bit-flip tampering on P-521 only for one message pair per (choice, length) in the quick tier")
	}
	r.RequireCounter("chosen_message_obtained", int64(len(jobs)))
	r.RequireCounter("other_selector_refused", int64(len(jobs)))
}
