//go:build verif

package simot

// C16 (ot/simot part), histories: ONE Sender and ONE Receiver object reused for
// every sequence of 2..3 transfers; every transfer must behave like a transfer
// between fresh objects (the receiver obtains exactly m_choice, its key is
// k_choice and not the other key, the other ciphertext does not open).

import (
	"bytes"
	"fmt"
	"strings"
	"testing"

	"github.com/cloudflare/circl/internal/verifc16"
	"github.com/cloudflare/circl/internal/verifmc"
)

func TestVerifC16_simot_histories(t *testing.T) {
	r := verifmc.Start(t, "C16", "simot_histories")
	defer r.Finish()
	r.Rule("per group: one Sender and one Receiver object driven through every sequence of 2..3 transfers over the step alphabet choice in {0,1} x message pair in {(Msg(16), FF^16), (00^32, Msg(32))} " +
		"(P-521 quick: sequences of 2); after each transfer: Round3 succeeds with exactly m_choice, receiver key = sender's k_choice != k_(1-choice), e_(1-choice) does not open under the receiver's key; " +
		"state = the two reused objects; non-trivial = distinct (group, sequence)")
	groups := verifc16.Groups()
	pairs := [][2][]byte{{verifmc.Msg(16), bytes.Repeat([]byte{0xff}, 16)}, {make([]byte, 32), verifmc.Msg(32)}}
	type job struct {
		gi  int
		seq []int // step = choice*2 + pair
	}
	var jobs []job
	for gi, g := range groups {
		maxLen := 3
		if g.Level(r.Thorough()) == 0 {
			maxLen = 2
		}
		var rec func(cur []int)
		rec = func(cur []int) {
			if len(cur) >= 2 {
				jobs = append(jobs, job{gi, append([]int{}, cur...)})
			}
			if len(cur) == maxLen {
				return
			}
			for s := 0; s < 4; s++ {
				rec(append(cur, s))
			}
		}
		rec(nil)
	}
	r.Set("histories", len(jobs))
	if !r.Thorough() {
		r.NotExhaustive("quick tier: histories of 2 transfers only on P-521")
	}
	var col verifc16.Collector
	verifmc.ParallelFor(len(jobs), func(ji int) {
		j := jobs[ji]
		g := groups[j.gi]
		names := make([]string, len(j.seq))
		for i, s := range j.seq {
			names[i] = fmt.Sprintf("c%d/p%d", s/2, s%2)
		}
		id := g.Name + "/" + strings.Join(names, ",")
		if !r.Want(id) {
			return
		}
		r.Trace(1)
		r.Distinct(id)
		var sender Sender
		var receiver Receiver
		for ti, s := range j.seq {
			choice, pi := s/2, s%2
			m0, m1 := append([]byte{}, pairs[pi][0]...), append([]byte{}, pairs[pi][1]...)
			ms := [2][]byte{m0, m1}
			fail := func(class, what string) {
				first := "first-transfer"
				if ti > 0 {
					first = "reused-objects"
				}
				col.Add(fmt.Sprintf("C16|simot|%s|%s/choice=%d", class, first, choice), id, fmt.Sprintf("%s: transfer %d (choice %d, pair %d): %s", id, ti, choice, pi, what),
					map[string]interface{}{"group": g.Name, "history(choice/pair)": names, "failing_transfer": ti})
			}
			var e0, e1 []byte
			var err error
			if p, what := verifmc.Try(func() {
				A := sender.InitSender(g.G, m0, m1, ti)
				B := receiver.Round1Receiver(g.G, choice, ti, A)
				e0, e1 = sender.Round2Sender(B)
				err = receiver.Round3Receiver(e0, e1, choice)
			}); p {
				fail("panic:"+verifmc.PanicClass(what), what)
				return
			}
			r.Eval(1)
			r.Transition(1)
			if err != nil {
				fail("chosen-message-not-decrypted", "Round3Receiver: "+err.Error())
				return
			}
			if got := receiver.Returnmc(); !bytes.Equal(got, ms[choice]) {
				fail("wrong-message", fmt.Sprintf("receiver obtained %x, chosen message is %x", got, ms[choice]))
				return
			}
			ks := [2][]byte{sender.k0, sender.k1}
			es := [2][]byte{e0, e1}
			if !bytes.Equal(receiver.kR, ks[choice]) {
				fail("receiver-key-differs-from-k_choice", fmt.Sprintf("kR=%x k_choice=%x", receiver.kR, ks[choice]))
			}
			if bytes.Equal(receiver.kR, ks[1-choice]) {
				fail("receiver-key-equals-other-key", fmt.Sprintf("kR=%x", receiver.kR))
			}
			if pt, err := aesDecGCM(receiver.kR, es[1-choice]); err == nil {
				fail("other-message-decrypts", fmt.Sprintf("e_(1-choice) opens under the receiver's key to %x", pt))
			}
			r.Count("transfers_correct", 1)
		}
	})
	col.Flush(r)
	r.RequireCounter("transfers_correct", 500)
}
