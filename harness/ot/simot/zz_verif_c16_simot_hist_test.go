//go:build verif

package simot_test

// C16 (ot/simot part), histories, exported API only: ONE Sender and ONE Receiver
// object reused for every sequence of 2..3 transfers; every transfer must behave
// like a transfer between fresh objects (the receiver obtains exactly m_choice;
// a copy of its state asked for the other ciphertext fails).

import (
	"bytes"
	"fmt"
	"strings"
	"testing"

	"github.com/cloudflare/circl/internal/verifc16"
	"github.com/cloudflare/circl/internal/verifmc"
	"github.com/cloudflare/circl/ot/simot"
)

func TestVerifC16_simot_histories(t *testing.T) {
	r := verifmc.Start(t, "C16", "simot_histories")
	defer r.Finish()
	r.Rule("per group: one Sender and one Receiver object driven through every sequence of 2..3 transfers over the step alphabet choice in {0,1} x message pair in {(Msg(16), FF^16), (00^32, Msg(32))} " +
		"(P-521 quick: sequences of 2); after each transfer: Round3Receiver succeeds with exactly m_choice, and a copy of the receiver's state (taken before round 3) asked for the other ciphertext fails; " +
		"state = the two reused objects; non-trivial = distinct (group, sequence)")
	groups := verifc16.Groups()
	pairs := [][2][]byte{{verifmc.Msg(16), bytes.Repeat([]byte{0xff}, 16)}, {make([]byte, 32), verifmc.Msg(32)}}
	type job struct {
		gi  int
		seq []int // step = choice*2 + pair
	}
	var jobs []job
	for gi, g := range groups {
		maxLen := 3
		if g.Level(r.Thorough()) == 0 {
			maxLen = 2
		}
		var rec func(cur []int)
		rec = func(cur []int) {
			if len(cur) >= 2 {
				jobs = append(jobs, job{gi, append([]int{}, cur...)})
			}
			if len(cur) == maxLen {
				return
			}
			for s := 0; s < 4; s++ {
				rec(append(cur, s))
			}
		}
		rec(nil)
	}
	r.Set("histories", len(jobs))
	if !r.Thorough() {
		r.NotExhaustive("quick tier: histories of 2 transfers only on P-521")
	}
	var col verifc16.Collector
	verifmc.ParallelFor(len(jobs), func(ji int) {
		j := jobs[ji]
		g := groups[j.gi]
		names := make([]string, len(j.seq))
		for i, s := range j.seq {
			names[i] = fmt.Sprintf("c%d/p%d", s/2, s%2)
		}
		id := g.Name + "/" + strings.Join(names, ",")
		if !r.Want(id) {
			return
		}
		r.Trace(1)
		r.Distinct(id)
		var sender simot.Sender
		var receiver simot.Receiver
		for ti, s := range j.seq {
			choice, pi := s/2, s%2
			m0, m1 := append([]byte{}, pairs[pi][0]...), append([]byte{}, pairs[pi][1]...)
			ms := [2][]byte{m0, m1}
			fail := func(class, what string) {
				first := "first-transfer"
				if ti > 0 {
					first = "reused-objects"
				}
				col.Add(fmt.Sprintf("C16|simot|%s|%s/choice=%d", class, first, choice), id, fmt.Sprintf("%s: transfer %d (choice %d, pair %d): %s", id, ti, choice, pi, what),
					map[string]interface{}{"group": g.Name, "history(choice/pair)": names, "failing_transfer": ti})
			}
			var e0, e1 []byte
			var err, errOther error
			var other simot.Receiver
			if p, what := verifmc.Try(func() {
				A := sender.InitSender(g.G, m0, m1, ti)
				B := receiver.Round1Receiver(g.G, choice, ti, A)
				e0, e1 = sender.Round2Sender(B)
				other = receiver
				err = receiver.Round3Receiver(e0, e1, choice)
			}); p {
				fail("panic:"+verifmc.PanicClass(what), what)
				return
			}
			r.Eval(1)
			r.Transition(1)
			if err != nil {
				fail("chosen-message-not-decrypted", "Round3Receiver: "+err.Error())
				return
			}
			if got := receiver.Returnmc(); !bytes.Equal(got, ms[choice]) {
				fail("wrong-message", fmt.Sprintf("receiver obtained %x, chosen message is %x", got, ms[choice]))
				return
			}
			if p, what := verifmc.Try(func() { errOther = other.Round3Receiver(e0, e1, 1-choice) }); p {
				fail("panic:"+verifmc.PanicClass(what), what)
				return
			} else if errOther == nil {
				fail("other-message-decrypts", fmt.Sprintf("Round3Receiver with the other selector returned %x", other.Returnmc()))
			}
			r.Count("transfers_correct", 1)
		}
	})
	col.Flush(r)
	r.RequireCounter("transfers_correct", 500)
}
