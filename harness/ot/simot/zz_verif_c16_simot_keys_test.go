//go:build verif

package simot

// C16 (ot/simot part), the one clause that needs internals: the receiver cannot
// decrypt the other message WITH THE KEY IT DERIVES. In-package (names the
// unexported fields Receiver.kR, Sender.k0/k1 and aesDecGCM); self-contained so
// that a refactoring of those internals only drops this file. Everything that can
// be said through the exported API is in zz_verif_c16_simot_test.go and
// zz_verif_c16_simot_hist_test.go.

import (
	"bytes"
	"fmt"
	"testing"

	"github.com/cloudflare/circl/internal/verifc16"
	"github.com/cloudflare/circl/internal/verifmc"
)

func TestVerifC16_simot_keys(t *testing.T) {
	r := verifmc.Start(t, "C16", "simot_keys")
	defer r.Finish()
	r.Rule("full product group x choice in {0,1} x length in {0,1,16,32} x (m0,m1) in {00..,Msg}^2, each as a first transfer and as the second transfer of reused Sender/Receiver objects (after a transfer with the other choice); " +
		"oracles on the derived keys: the receiver's key equals the sender's k_choice, differs from k_(1-choice), k0 != k1, e_(1-choice) does not open under the receiver's key and e_choice opens to m_choice; " +
		"non-trivial = distinct (group, choice, length, m0, m1, fresh/reused)")
	groups := verifc16.Groups()
	lens := []int{0, 1, 16, 32}
	type job struct{ gi, choice, li, i0, i1, reused int }
	var jobs []job
	for gi := range groups {
		verifmc.Product([]int{2, len(lens), 2, 2, 2}, func(x []int) bool {
			jobs = append(jobs, job{gi, x[0], x[1], x[2], x[3], x[4]})
			return true
		})
	}
	r.Set("cases", len(jobs))
	var col verifc16.Collector
	verifmc.ParallelFor(len(jobs), func(ji int) {
		j := jobs[ji]
		g := groups[j.gi]
		n := lens[j.li]
		cs := [][]byte{make([]byte, n), verifmc.Msg(n)}
		ms := [2][]byte{append([]byte{}, cs[j.i0]...), append([]byte{}, cs[j.i1]...)}
		id := fmt.Sprintf("%s/choice=%d/len=%d/m0=%d,m1=%d/reused=%d", g.Name, j.choice, n, j.i0, j.i1, j.reused)
		if !r.Want(id) {
			return
		}
		fail := func(class, what string) {
			col.Add(fmt.Sprintf("C16|simot|%s|choice=%d", class, j.choice), id, id+": "+what, map[string]interface{}{"group": g.Name, "choice": j.choice, "m0": verifc16.Hx(ms[0]), "m1": verifc16.Hx(ms[1])})
		}
		var sender Sender
		var receiver Receiver
		var es [2][]byte
		var err error
		run := func(choice int, m0, m1 []byte) bool {
			p, what := verifmc.Try(func() {
				A := sender.InitSender(g.G, m0, m1, 0)
				B := receiver.Round1Receiver(g.G, choice, 0, A)
				es[0], es[1] = sender.Round2Sender(B)
				err = receiver.Round3Receiver(es[0], es[1], choice)
			})
			if p {
				fail("panic:"+verifmc.PanicClass(what), what)
			}
			return !p
		}
		if j.reused == 1 && !run(1-j.choice, verifmc.Msg(24), make([]byte, 24)) {
			return
		}
		if !run(j.choice, ms[0], ms[1]) {
			return
		}
		r.Eval(1)
		r.Distinct(id)
		if err != nil {
			// completeness is the exported-API units' subject; without a finished round 3 there is no derived key to judge
			r.Outcome("round3-failed(judged by unit simot)")
			return
		}
		ks := [2][]byte{sender.k0, sender.k1}
		if !bytes.Equal(receiver.kR, ks[j.choice]) {
			fail("receiver-key-differs-from-k_choice", fmt.Sprintf("kR=%x k_choice=%x", receiver.kR, ks[j.choice]))
		}
		if bytes.Equal(receiver.kR, ks[1-j.choice]) || bytes.Equal(sender.k0, sender.k1) {
			fail("receiver-key-equals-other-key", fmt.Sprintf("kR=%x k0=%x k1=%x", receiver.kR, sender.k0, sender.k1))
		}
		if pt, err := aesDecGCM(receiver.kR, es[1-j.choice]); err == nil {
			fail("other-message-decrypts", fmt.Sprintf("e_(1-choice) opens under the receiver's key to %x", pt))
		} else {
			r.Count("other_message_refused_under_derived_key", 1)
		}
		if pt, err := aesDecGCM(receiver.kR, es[j.choice]); err != nil || !bytes.Equal(pt, ms[j.choice]) {
			fail("chosen-ciphertext-does-not-open-under-receiver-key", fmt.Sprintf("err=%v pt=%x", err, pt))
		}
	})
	col.Flush(r)
	r.RequireCounter("other_message_refused_under_derived_key", int64(len(jobs)))
}
