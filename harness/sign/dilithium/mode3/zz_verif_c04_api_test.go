//go:build verif

package mode3_test

// C04 adapter for the exported Dilithium round-3.1 entry points (shared harness: sign/internal/verifc04).

import (
	"testing"

	"github.com/cloudflare/circl/sign"
	. "github.com/cloudflare/circl/sign/dilithium/mode3"
	"github.com/cloudflare/circl/sign/internal/verifc04"
)

func TestVerifC04_api(t *testing.T) {
	verifc04.PublicAPI(t, &verifc04.API{
		Scheme: Scheme(),
		NewKeyFromSeed: func(seed *[32]byte) (sign.PublicKey, sign.PrivateKey) {
			pk, sk := NewKeyFromSeed(seed)
			return pk, sk
		},
		SignTo: func(sk sign.PrivateKey, msg, ctx []byte, randomized bool, sig []byte) error {
			SignTo(sk.(*PrivateKey), msg, sig)
			return nil
		},
		Verify: func(pk sign.PublicKey, msg, ctx, sig []byte) bool { return Verify(pk.(*PublicKey), msg, sig) },
	})
}
