//go:build verif

package dilithium

// C14 for the Dilithium / ML-DSA polynomial layer: every Poly method that has an AVX2 routine (NTT,
// InvNTT, MulHat, Add, Sub, PackLe16, ReduceLe2Q, Normalize, NormalizeAssumingLe2Q, Exceeds,
// MulBy2toD) on a fixed alphabet of polynomials under each configuration. Both NTTs reduce lazily
// (documented bounds 18q / 2q), so results are observed after Normalize, the way the schemes use them.
// Documented preconditions (inputs below 2q, Exceeds on normalized input, ...) are respected.

import (
	"encoding/binary"
	"fmt"
	"testing"

	"github.com/cloudflare/circl/internal/verifc14"
	"github.com/cloudflare/circl/internal/verifmc"
)

func c14Raw(p *Poly) []byte {
	b := make([]byte, 4*N)
	for i, v := range p {
		binary.LittleEndian.PutUint32(b[4*i:], v)
	}
	return b
}

func c14Norm(p *Poly) []byte {
	q := *p
	q.Normalize()
	return c14Raw(&q)
}

type c14P struct {
	name string
	p    Poly
}

func c14Polys(thorough bool) []c14P {
	var out []c14P
	add := func(name string, f func(i int) uint32) {
		var p Poly
		for i := range p {
			p[i] = f(i)
		}
		out = append(out, c14P{name, p})
	}
	for _, v := range []uint32{0, 1, Q - 1, Q, Q + 1, 2*Q - 1, (Q - 1) / 2, 1 << 22} {
		v := v
		add(fmt.Sprintf("const%d", v), func(int) uint32 { return v })
	}
	add("alt0/2q-1", func(i int) uint32 { return uint32(i&1) * (2*Q - 1) })
	add("alt-quads", func(i int) uint32 { return uint32((i>>2)&1) * (2*Q - 1) })
	for _, k := range []uint64{1, 65537, 8380417 / 3, 12345677} {
		k := k
		add(fmt.Sprintf("ramp%d", k), func(i int) uint32 { return uint32((uint64(i) * k) % (2 * Q)) })
	}
	step := 8
	if thorough {
		step = 1
	}
	for i := 0; i < N; i++ {
		if i%step != 0 && i != N-1 && i != 1 {
			continue
		}
		for _, v := range []uint32{1, Q - 1, 2*Q - 1} {
			i, v := i, v
			add(fmt.Sprintf("e%d*%d", i, v), func(j int) uint32 {
				if j == i {
					return v
				}
				return 0
			})
		}
	}
	for k := 0; k < 8; k++ {
		s := verifmc.Shake(fmt.Sprintf("c14-dilithium-poly-%d", k), 4*N)
		add(fmt.Sprintf("pseudo%d", k), func(i int) uint32 { return binary.LittleEndian.Uint32(s[4*i:]) % (2 * Q) })
	}
	return out
}

// c14Words: the uint32 boundary alphabet for the reductions: k*q-2..k*q+2 for every k <= 512, k*2^23-1..+1, powers of two, the top of the range.
func c14Words() []uint32 {
	seen := map[uint32]bool{}
	var out []uint32
	add := func(v uint64) {
		if v < 1<<32 && !seen[uint32(v)] {
			seen[uint32(v)] = true
			out = append(out, uint32(v))
		}
	}
	for k := uint64(0); k <= 513; k++ {
		for dlt := int64(-2); dlt <= 2; dlt++ {
			if v := int64(k*Q) + dlt; v >= 0 {
				add(uint64(v))
			}
			if v := int64(k<<23) + dlt; v >= 0 {
				add(uint64(v))
			}
		}
	}
	for s := uint(0); s < 32; s++ {
		add(1<<s - 1)
		add(1 << s)
		add(1<<s + 1)
	}
	for dlt := uint64(0); dlt < 16; dlt++ {
		add(1<<32 - 1 - dlt)
	}
	s := verifmc.Shake("c14-dilithium-words", 4*512)
	for i := 0; i < 512; i++ {
		add(uint64(binary.LittleEndian.Uint32(s[4*i:])))
	}
	return out
}

func TestVerifC14_dilithium_poly(t *testing.T) {
	c := verifc14.Start(t, "dilithium_poly")
	c.Backend("sign/internal/dilithium: cpu.X86.HasAVX2", c14Backend(), verifc14.Avx2Sel)
	r := c.R
	polys := c14Polys(r.Thorough())
	key := append(append([]c14P{}, polys[:14]...), polys[len(polys)-8:]...)
	words := c14Words()
	r.Set("polynomials", len(polys))
	r.Set("key_polynomials", len(key))
	r.Set("reduction_words", len(words))
	r.Rule("polynomials with coefficients < 2q: constants {0,1,q-1,q,q+1,2q-1,(q-1)/2,2^22}, alternating patterns, ramps, unit vectors e_i * {1,q-1,2q-1} (every 8th i quick, all 256 thorough), 8 SHAKE polynomials; " +
		"per polynomial: NTT, InvNTT, InvNTT(Normalize(NTT)), MulHat/Add/Sub against every key polynomial (results observed after Normalize); " +
		"ReduceLe2Q / Normalize on the word alphabet {kq-2..kq+2, k*2^23-2..+2 for k<=513, 2^s-1..2^s+1, top 16 words, 512 SHAKE words} at four lane rotations; NormalizeAssumingLe2Q on the words below 2q; " +
		"Exceeds on single-coefficient polynomials at bound-1, bound, q-bound, q-bound+1 for 10 bounds at 9 positions; PackLe16 on all 16 nibble values at every position class; MulBy2toD on words below 2^19")
	r.NotExhaustive("declared polynomial and word alphabets")

	hats := make([]Poly, len(key))
	for i := range key {
		hats[i] = key[i].p
		hats[i].NTT()
	}
	type job struct {
		kind string
		i    int
	}
	var jobs []job
	for i := range polys {
		jobs = append(jobs, job{"poly", i})
	}
	nblocks := (len(words) + N - 1) / N
	for i := 0; i < nblocks; i++ {
		jobs = append(jobs, job{"words", i})
	}
	bounds := []uint32{1, 2, 78, 1 << 17, 1<<17 - 78, 1 << 19, 1<<19 - 120, (Q - 1) / 8, (Q - 1) / 2, (Q-1)/2 + 1}
	for i := range bounds {
		jobs = append(jobs, job{"exceeds", i})
	}
	jobs = append(jobs, job{"packle16", 0}, job{"mulby2tod", 0})
	verifmc.ParallelFor(len(jobs), func(ji int) {
		j := jobs[ji]
		switch j.kind {
		case "poly":
			P := polys[j.i]
			c.Case("NTT#"+P.name, func(d *verifc14.D) {
				a := P.p
				a.NTT()
				d.Bytes("ntt", c14Norm(&a))
				b := P.p
				b.InvNTT()
				d.Bytes("invntt", c14Norm(&b))
				a.Normalize()
				a.InvNTT()
				d.Bytes("invntt(ntt)", c14Norm(&a))
				d.Exec(3)
			})
			c.Case("MulHat#"+P.name, func(d *verifc14.D) {
				a := P.p
				a.NTT() // bounded by 18q: a legal MulHat operand
				for k := range hats {
					var m Poly
					m.MulHat(&a, &hats[k])
					d.Bytes(key[k].name, c14Norm(&m))
					m.ReduceLe2Q()
					m.InvNTT()
					d.Bytes(key[k].name+".inv", c14Norm(&m))
					d.Exec(2)
				}
				m := a
				m.MulHat(&m, &hats[1])
				d.Bytes("inplace-a", c14Norm(&m))
				m = a
				m.MulHat(&hats[1], &m)
				d.Bytes("inplace-b", c14Norm(&m))
			})
			c.Case("AddSub#"+P.name, func(d *verifc14.D) {
				for k := range key {
					var s, df Poly
					s.Add(&P.p, &key[k].p)
					df.Sub(&P.p, &key[k].p)
					d.Bytes(key[k].name+".add", c14Raw(&s)) // plain word addition, no reduction: raw
					d.Bytes(key[k].name+".sub", c14Norm(&df))
					d.Exec(2)
				}
				s := P.p
				s.Add(&s, &s)
				d.Bytes("add-inplace", c14Raw(&s))
				s = P.p
				s.Sub(&s, &key[3].p)
				d.Bytes("sub-inplace", c14Norm(&s))
			})
		case "words":
			c.Case(fmt.Sprintf("Reduce#words-block%d", j.i), func(d *verifc14.D) {
				var p Poly
				for k := range p {
					p[k] = words[(j.i*N+k)%len(words)]
				}
				for _, rot := range []int{0, 1, 3, 7} {
					var pr Poly
					for k := range pr {
						pr[(k+rot)%N] = p[k]
					}
					a := pr
					a.ReduceLe2Q()
					for _, v := range a {
						if v >= 2*Q {
							d.Bytes("ReduceLe2Q result not below 2q", []byte{1})
						}
					}
					a.NormalizeAssumingLe2Q()
					d.Bytes(fmt.Sprintf("reducele2q.rot%d", rot), c14Raw(&a))
					a = pr
					a.Normalize()
					d.Bytes(fmt.Sprintf("normalize.rot%d", rot), c14Raw(&a))
					// NormalizeAssumingLe2Q on the words that satisfy its precondition (others replaced by word mod 2q computed here)
					var le Poly
					for k := range le {
						le[k] = pr[k] % (2 * Q)
					}
					le.NormalizeAssumingLe2Q()
					d.Bytes(fmt.Sprintf("le2q.rot%d", rot), c14Raw(&le))
					d.Exec(3)
				}
			})
		case "exceeds":
			bound := bounds[j.i]
			c.Case(fmt.Sprintf("Exceeds#bound=%d", bound), func(d *verifc14.D) {
				vals := []uint32{0, 1, bound - 1, bound, bound + 1, Q - bound - 1, Q - bound, Q - bound + 1, (Q - 1) / 2, (Q + 1) / 2, Q - 1}
				for _, pos := range []int{0, 1, 7, 8, 15, 16, 127, 128, 255} {
					for _, v := range vals {
						if v >= Q {
							continue
						}
						var p Poly
						p[pos] = v
						d.Bool(fmt.Sprintf("%d@%d", v, pos), p.Exceeds(bound))
						d.Exec(1)
					}
				}
				for _, P := range key { // full polynomials
					a := P.p
					a.Normalize()
					d.Bool(P.name, a.Exceeds(bound))
					d.Exec(1)
				}
			})
		case "packle16":
			c.Case("PackLe16#nibbles", func(d *verifc14.D) {
				for sh := 0; sh < 16; sh++ {
					var p Poly
					for k := range p {
						p[k] = uint32((k*7 + sh + k/16) % 16)
					}
					buf := make([]byte, PolyLe16Size)
					p.PackLe16(buf)
					d.Bytes(fmt.Sprintf("pattern%d", sh), buf)
					d.Exec(1)
				}
			})
		case "mulby2tod":
			c.Case("MulBy2toD#words", func(d *verifc14.D) {
				for sh := 0; sh < 8; sh++ {
					var p, out Poly
					for k := range p {
						p[k] = words[(k*5+sh*N)%len(words)] & (1<<(32-D) - 1)
					}
					out.MulBy2toD(&p)
					d.Bytes(fmt.Sprintf("pattern%d", sh), c14Raw(&out))
					d.Exec(1)
				}
			})
		}
	})
	c.Finish(300)
}
