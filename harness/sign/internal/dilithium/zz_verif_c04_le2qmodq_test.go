//go:build verif

package dilithium

// C04: sweep of the unexported scalar helper le2qModQ (the only unexported name this file uses), in a
// file of its own so that renaming it costs only this unit.

import (
	"fmt"
	"testing"

	"github.com/cloudflare/circl/internal/verifmc"
	"github.com/cloudflare/circl/sign/internal/verifc04"
)

func TestVerifC04_scalar_le2qModQ(t *testing.T) {
	r := verifmc.Start(t, "C04", "scalar-le2qModQ")
	defer r.Finish()
	r.Rule("unexported scalar le2qModQ(x) = x mod q on its whole documented domain [0,2q); oracle = %; distinct = 2^16-aligned block")
	replay, replaying := verifc04.ReplayChunk(r)
	verifc04.Chunks64(2*Q, func(lo uint64) {
		if replaying && lo != replay {
			return
		}
		for i := uint64(0); i < 256 && lo+i < 2*Q; i++ {
			x := uint32(lo + i)
			if y := le2qModQ(x); y != x%Q {
				r.Violation("C04|common.le2qModQ|wrong", fmt.Sprintf("le2qModQ/%d", x), fmt.Sprintf("le2qModQ(%d) = %d, want %d", x, y, x%Q), map[string]interface{}{"x": x})
			}
		}
		r.Eval(256)
		if lo&0xffff == 0 {
			r.Distinct("le2q", lo>>16)
		}
	})
	r.Count("points_le2qModQ", 2*Q)
	r.Sample(map[string]interface{}{"fn": "le2qModQ", "x": 2*Q - 1, "want": Q - 1})
}
