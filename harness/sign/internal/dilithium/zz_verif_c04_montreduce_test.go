//go:build verif

package dilithium

// C04: sweep of the unexported scalar helper montReduceLe2Q (the only unexported name this file uses), in a
// file of its own so that renaming it costs only this unit.

import (
	"fmt"
	"testing"

	"github.com/cloudflare/circl/internal/verifmc"
	"github.com/cloudflare/circl/sign/internal/verifc04"
)

func TestVerifC04_scalar_montReduceLe2Q(t *testing.T) {
	r := verifmc.Start(t, "C04", "scalar-montReduceLe2Q")
	defer r.Finish()
	r.Rule("unexported scalar montReduceLe2Q(x): y <= 2q and y*2^32 = x (mod q) for x = a*b, a in a 16-value operand alphabet, b over all of [0,2q) (products below 2^32 q), " +
		"and for x = hi*2^32 + lo, lo in an 8-value boundary alphabet, hi on a stride of [0,q); distinct = (operand, 2^16-aligned block)")
	ok := func(x uint64, y uint32) bool { return y <= 2*Q && (uint64(y)%Q)*((1<<32)%Q)%Q == x%Q }
	malpha := []uint32{0, 1, 2, 3, Q - 1, Q, Q + 1, 2*Q - 1, 2 * Q, 18*Q - 1, 18 * Q, 1<<23 - 1, 1 << 23, 1<<31 - 1, 1 << 31, 1<<32 - 1}
	verifc04.Chunks64(2*Q, func(lo uint64) {
		n := 0
		for i := uint64(0); i < 256; i++ {
			b := lo + i
			for _, a := range malpha {
				x := uint64(a) * b
				if x >= uint64(Q)<<32 {
					continue
				}
				n++
				if y := montReduceLe2Q(x); !ok(x, y) {
					r.Violation("C04|common.montReduceLe2Q|wrong", fmt.Sprintf("montReduceLe2Q/%d", x), fmt.Sprintf("montReduceLe2Q(%d) = %d", x, y), map[string]interface{}{"x": x})
				}
			}
		}
		r.Eval(n)
		if lo&0xffff == 0 {
			r.Distinct("mont", lo>>16)
		}
	})
	for _, j := range []uint64{0, 1, Q - 1, Q, 2*Q - 1, 2 * Q, 1<<32 - 1, 1<<32 - 2} {
		for hi := uint64(0); hi < Q; hi += 4099 {
			x := hi<<32 | j
			if y := montReduceLe2Q(x); !ok(x, y) {
				r.Violation("C04|common.montReduceLe2Q|wrong", fmt.Sprintf("montReduceLe2Q/%d", x), fmt.Sprintf("montReduceLe2Q(%d) = %d", x, y), map[string]interface{}{"x": x})
			}
			r.Eval(1)
		}
		r.Distinct("mont-hi", j)
	}
	r.Sample(map[string]interface{}{"fn": "montReduceLe2Q", "x": uint64(Q-1) * uint64(Q-1)})
}
