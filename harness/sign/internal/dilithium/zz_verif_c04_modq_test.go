//go:build verif

package dilithium

// C04: sweep of the unexported scalar helper modQ (the only unexported name this file uses), in a
// file of its own so that renaming it costs only this unit.

import (
	"fmt"
	"sync/atomic"
	"testing"

	"github.com/cloudflare/circl/internal/verifmc"
	"github.com/cloudflare/circl/sign/internal/verifc04"
)

func TestVerifC04_scalar_modQ(t *testing.T) {
	r := verifmc.Start(t, "C04", "scalar-modQ")
	defer r.Finish()
	r.Rule("unexported scalar modQ(x) = x mod q on all 2^32 inputs (thorough; quick: [0,2^26) and +-2^20 around 2^31 and below 2^32); oracle = %; distinct = 2^16-aligned block, point count in counters")
	full := r.Thorough()
	replay, replaying := verifc04.ReplayChunk(r)
	var points atomic.Int64
	verifc04.Chunks64(1<<32, func(lo uint64) {
		if replaying && lo != replay {
			return
		}
		if !full && !(lo < 1<<26 || (lo >= 1<<31-1<<20 && lo < 1<<31+1<<20) || lo >= 1<<32-1<<20) {
			return
		}
		for i := uint64(0); i < 256; i++ {
			x := uint32(lo + i)
			if y := modQ(x); y != x%Q {
				r.Violation("C04|common.modQ|wrong", fmt.Sprintf("modQ/%d", x), fmt.Sprintf("modQ(%d) = %d, want %d", x, y, x%Q), map[string]interface{}{"x": x})
			}
		}
		points.Add(256)
		r.Eval(256)
		if lo&0xffff == 0 {
			r.Distinct("modQ", lo>>16)
		}
	})
	r.Count("points_modQ", int(points.Load()))
	r.Sample(map[string]interface{}{"fn": "modQ", "x": uint32(1<<32 - 1), "want": uint32(1<<32-1) % Q})
	if !full {
		r.NotExhaustive("quick tier: sub-domain [0,2^26) + bands; the thorough tier sweeps all 2^32 inputs")
	}
}
