//go:build verif

package dilithium_test

// External test package: only exported names of sign/internal/dilithium are used here (the
// compiler enforces it). The unexported scalar helpers modQ, le2qModQ and montReduceLe2Q are swept
// in files of their own (zz_verif_c04_{modq,le2qmodq,montreduce}_test.go).
//
// C04 (ML-DSA / Dilithium equal FIPS 204 / round 3.1): complete sweeps of the shared field,
// rounding, packing and NTT helpers, each through the Poly-level entry point so that the
// generic and the AVX2 routine (config default vs purego / noavx2) are both decided.

import (
	"fmt"
	"sync/atomic"
	"testing"

	"github.com/cloudflare/circl/internal/verifmc"
	ref "github.com/cloudflare/circl/internal/verifref/mldsa"
	. "github.com/cloudflare/circl/sign/internal/dilithium"
	"github.com/cloudflare/circl/sign/internal/verifc04"
)

func TestVerifC04_refcheck(t *testing.T) { verifc04.RefCheck(t) }

// TestVerifC04_field: the two modular reductions, Normalize, Power2Round and the norm test
// over their whole domains.
func TestVerifC04_field(t *testing.T) {
	r := verifmc.Start(t, "C04", "field")
	defer r.Finish()
	r.Rule("whole-domain sweeps: ReduceLe2Q and Poly.Normalize on all 2^32 inputs (thorough; quick: [0,2^26) + bands at 2^31, 2^32), Poly.NormalizeAssumingLe2Q on [0,2q), Poly.Power2Round on [0,q), Exceeds on [0,q) x the 8 distinct bounds the six parameter sets use, " +
		"exported scalar ReduceLe2Q and Poly-level (AVX2 when enabled) entry points (the unexported scalar helpers have units of their own); oracle = integer arithmetic with %; distinct = (function, 2^16-aligned block of the domain), exact point counts in counters")
	viol := func(fn, class string, x uint64, what string) {
		r.Violation("C04|common."+fn+"|"+class, fmt.Sprintf("%s/%d", fn, x), what, map[string]interface{}{"fn": fn, "x": x})
	}
	replayX := uint64(1 << 63)
	if lo, ok := verifc04.ReplayChunk(r); ok {
		replayX = lo
	}
	want := func(lo uint64) bool { return replayX == 1<<63 || replayX == lo }

	// ReduceLe2Q and Normalize over all 2^32 inputs (quick tier: [0, 2^26) and +-2^20 around 2^31 and below 2^32).
	full := r.Thorough()
	inQuick := func(lo uint64) bool {
		return lo < 1<<26 || (lo >= 1<<31-1<<20 && lo < 1<<31+1<<20) || lo >= 1<<32-1<<20
	}
	var reducePoints atomic.Int64
	verifc04.Chunks64(1<<32, func(lo uint64) {
		if !want(lo) || (!full && !inQuick(lo)) {
			return
		}
		reducePoints.Add(256)
		var a, b Poly
		for i := range a {
			a[i] = uint32(lo) + uint32(i)
		}
		b = a
		a.ReduceLe2Q()
		b.Normalize()
		for i := range a {
			x := uint32(lo) + uint32(i)
			if a[i] >= 2*Q || a[i]%Q != x%Q {
				viol("Poly.ReduceLe2Q", "wrong", uint64(x), fmt.Sprintf("Poly.ReduceLe2Q(%d) = %d, want < 2q and congruent to %d", x, a[i], x%Q))
			}
			if b[i] != x%Q {
				viol("Poly.Normalize", "wrong", uint64(x), fmt.Sprintf("Poly.Normalize(%d) = %d, want %d", x, b[i], x%Q))
			}
			if y := ReduceLe2Q(x); y >= 2*Q || y%Q != x%Q {
				viol("ReduceLe2Q", "wrong", uint64(x), fmt.Sprintf("ReduceLe2Q(%d) = %d", x, y))
			}
		}
		r.Eval(2 + 256)
		if lo&0xffff == 0 {
			r.Distinct("reduce", lo>>16)
		}
	})
	r.Count("points_ReduceLe2Q", int(reducePoints.Load()))
	r.Count("points_Normalize", int(reducePoints.Load()))
	if !full {
		r.NotExhaustive("quick tier: ReduceLe2Q / Normalize swept on [0,2^26) and bands around 2^31 and 2^32 (2^26+3*2^20 points); the thorough tier sweeps all 2^32 inputs")
	}

	// le2qModQ over its documented domain [0, 2q).
	verifc04.Chunks64(2*Q, func(lo uint64) {
		if !want(lo) {
			return
		}
		var a Poly
		for i := range a {
			a[i] = uint32(lo) + uint32(i)
			if a[i] >= 2*Q {
				a[i] = 2*Q - 1
			}
		}
		b := a
		a.NormalizeAssumingLe2Q()
		for i := range a {
			if a[i] != b[i]%Q {
				viol("Poly.NormalizeAssumingLe2Q", "wrong", uint64(b[i]), fmt.Sprintf("Poly.NormalizeAssumingLe2Q(%d) = %d, want %d", b[i], a[i], b[i]%Q))
			}
		}
		r.Eval(1)
		if lo&0xffff == 0 {
			r.Distinct("le2q", lo>>16)
		}
	})
	r.Count("points_NormalizeAssumingLe2Q", 2*Q)

	// Power2Round over [0, q).
	verifc04.Chunks64(Q, func(lo uint64) {
		if !want(lo) {
			return
		}
		var a, a0, a1 Poly
		for i := range a {
			a[i] = uint32(lo) + uint32(i)
			if a[i] >= Q {
				a[i] = Q - 1
			}
		}
		a.Power2Round(&a0, &a1)
		for i := range a {
			r1, r0 := ref.Power2Round(int64(a[i]))
			if int64(a1[i]) != r1 || int64(a0[i]) != Q+r0 {
				viol("Poly.Power2Round", "wrong", uint64(a[i]), fmt.Sprintf("Power2Round(%d) = (r1=%d, r0+q=%d), FIPS 204 Algorithm 35 gives (r1=%d, r0=%d)", a[i], a1[i], a0[i], r1, r0))
			}
		}
		r.Eval(1)
		if lo&0xffff == 0 {
			r.Distinct("p2r", lo>>16)
		}
	})
	r.Count("points_Power2Round", Q)

	// Exceeds: every bound any parameter set uses (and its neighbours), x over the whole [0,q)
	// at a position that rotates with x; plus every position for x in the bands around +-bound.
	bset := map[uint32]bool{}
	var bounds []uint32
	for _, p := range ref.All {
		for _, b := range []int{p.Gamma1 - p.Beta(), p.Gamma2 - p.Beta(), p.Gamma2} {
			if v := uint32(b); !bset[v] {
				bset[v] = true
				bounds = append(bounds, v)
			}
		}
	}
	r.Set("exceeds_bounds", len(bounds))
	norm := func(x uint32) uint32 {
		if x > (Q-1)/2 {
			return Q - x
		}
		return x
	}
	verifc04.Chunks64(Q, func(lo uint64) {
		if !want(lo) {
			return
		}
		for i := uint32(0); i < 256; i++ {
			x := uint32(lo) + i
			if x >= Q {
				break
			}
			var a Poly
			a[x%N] = x
			for _, b := range bounds {
				if got := a.Exceeds(b); got != (norm(x) >= b) {
					viol("Poly.Exceeds", fmt.Sprintf("bound=%d", b), uint64(x), fmt.Sprintf("Exceeds(%d) on coefficient %d (norm %d) at position %d = %v", b, x, norm(x), x%N, got))
				}
			}
			r.Eval(len(bounds))
		}
		if lo&0xffff == 0 {
			r.Distinct("exceeds", lo>>16)
		}
	})
	r.Count("points_Exceeds", Q*len(bounds))
	verifmc.ParallelFor(len(bounds), func(bi int) {
		b := bounds[bi]
		for pos := 0; pos < N; pos++ {
			for d := -2; d <= 2; d++ {
				for _, x := range []uint32{uint32(int(b) + d), uint32(Q - int(b) + d)} {
					if x >= Q || !want(uint64(x)&^255) {
						continue
					}
					// background just below the bound so that only the probed coefficient decides
					var a Poly
					for i := range a {
						a[i] = b - 1
						if i%2 == 1 {
							a[i] = Q - (b - 1)
						}
					}
					a[pos] = x
					if got := a.Exceeds(b); got != (norm(x) >= b) {
						viol("Poly.Exceeds", fmt.Sprintf("bound=%d", b), uint64(x), fmt.Sprintf("Exceeds(%d) with coefficient %d (norm %d) at position %d, all others at norm bound-1, = %v", b, x, norm(x), pos, got))
					}
					r.Eval(1)
					r.Distinct("exceeds-pos", b, pos, x)
				}
			}
		}
	})

	// Add, Sub, MulBy2toD (AVX2 variants exist): value alphabet x full sweep of the other operand.
	alpha := []uint32{0, 1, 2, Q - 1, Q, Q + 1, 2*Q - 1}
	verifc04.Chunks64(2*Q, func(lo uint64) {
		if !want(lo) {
			return
		}
		var a, b, s, d Poly
		for i := range b {
			b[i] = uint32(lo) + uint32(i)
			if b[i] >= 2*Q {
				b[i] = 2*Q - 1
			}
		}
		for _, av := range alpha {
			for i := range a {
				a[i] = av
			}
			s.Add(&a, &b)
			d.Sub(&a, &b)
			for i := range a {
				if s[i] != a[i]+b[i] {
					viol("Poly.Add", "wrong", uint64(b[i]), fmt.Sprintf("Add(%d,%d) = %d", a[i], b[i], s[i]))
				}
				if (uint64(d[i])+uint64(b[i]))%Q != uint64(a[i])%Q || d[i] > 4*Q {
					viol("Poly.Sub", "wrong", uint64(b[i]), fmt.Sprintf("Sub(%d,%d) = %d, not congruent to the difference (or above 4q)", a[i], b[i], d[i]))
				}
			}
			r.Eval(2)
		}
		if lo&0xffff == 0 {
			r.Distinct("addsub", lo>>16)
		}
	})
	for lo := uint32(0); lo < 1024; lo += 256 {
		var a, m Poly
		for i := range a {
			a[i] = lo + uint32(i)
		}
		m.MulBy2toD(&a)
		for i := range a {
			if m[i] != a[i]<<D {
				viol("Poly.MulBy2toD", "wrong", uint64(a[i]), fmt.Sprintf("MulBy2toD(%d) = %d", a[i], m[i]))
			}
		}
		r.Eval(1)
		r.Distinct("mul2d", lo)
	}

	// MulHat on the documented domain a*b < 2^32 q: operand alphabet x full [0,2q) plus the 18q band.
	malpha := []uint32{0, 1, 2, 3, Q - 1, Q, Q + 1, 2*Q - 1, 2 * Q, 18*Q - 1, 18 * Q, 1<<23 - 1, 1 << 23, 1<<31 - 1, 1 << 31, 1<<32 - 1}
	verifc04.Chunks64(2*Q, func(lo uint64) {
		if !want(lo) {
			return
		}
		var a, b, m Poly
		for i := range b {
			b[i] = uint32(lo) + uint32(i)
		}
		for _, av := range malpha {
			for i := range a {
				a[i] = av
				if uint64(av)*uint64(b[i]) >= uint64(Q)<<32 {
					a[i] = 1
				}
			}
			m.MulHat(&a, &b)
			for i := range a {
				prod := uint64(a[i]) * uint64(b[i])
				// m * 2^32 = a*b (mod q), m <= 2q
				if m[i] > 2*Q || (uint64(m[i])%Q)*((1<<32)%Q)%Q != prod%Q {
					viol("Poly.MulHat", "wrong", uint64(b[i]), fmt.Sprintf("MulHat(%d,%d) = %d: not the Montgomery product below 2q", a[i], b[i], m[i]))
				}
			}
			r.Eval(1 + 256)
		}
		if lo&0xffff == 0 {
			r.Distinct("mulhat", lo>>16)
		}
	})
	r.Sample(map[string]interface{}{"fn": "Power2Round", "x": Q - 1, "note": "r1, r0 compared with Algorithm 35 for every x in [0,q)"})
	r.Sample(map[string]interface{}{"fn": "Exceeds", "bounds": bounds})
}

// TestVerifC04_ntt: the NTT pipeline the scheme uses, InvNTT(MulHat(NTT(a), NTT(b))), against the
// product in Z_q[X]/(X^256+1): all pairs of monomials v X^i, w X^j and a set of dense operands.
func TestVerifC04_ntt(t *testing.T) {
	r := verifmc.Start(t, "C04", "ntt")
	defer r.Finish()
	vals := []uint32{1, 2, (Q - 1) / 2, Q - 1, 2*Q - 1}
	r.Rule("Normalize(InvNTT(MulHat(NTT(a),NTT(b)))) = a*b mod (X^256+1, q) for all a = v X^i, b = w X^j, i,j < 256, v,w in {1,2,(q-1)/2,q-1,2q-1}, " +
		"and for all pairs of 10 dense operands (oracle: schoolbook product of the reference); NTT output bound 18q checked; distinct = (i,j,v,w) resp. operand pair")
	r.Set("alphabet_values", vals)
	// forward transforms of all monomials
	hat := make([]Poly, N*len(vals))
	verifmc.ParallelFor(len(hat), func(k int) {
		hat[k][k/len(vals)] = vals[k%len(vals)]
		hat[k].NTT()
		for _, c := range hat[k] {
			if c >= 18*Q {
				r.Violation("C04|common.Poly.NTT|bound", fmt.Sprintf("ntt/mono/%d", k), fmt.Sprintf("NTT of %d X^%d has a coefficient %d >= 18q", vals[k%len(vals)], k/len(vals), c), nil)
				break
			}
		}
		r.Eval(1)
	})
	verifmc.ParallelFor(N*len(vals), func(ka int) {
		i, v := ka/len(vals), vals[ka%len(vals)]
		if !r.Want(fmt.Sprintf("ntt/%d/%d", i, v)) {
			return
		}
		for kb := 0; kb < N*len(vals); kb++ {
			j, w := kb/len(vals), vals[kb%len(vals)]
			var p Poly
			p.MulHat(&hat[ka], &hat[kb])
			p.InvNTT()
			p.Normalize()
			var want Poly
			c := uint32(uint64(v%Q) * uint64(w%Q) % Q)
			if i+j < N {
				want[i+j] = c
			} else {
				want[i+j-N] = (Q - c) % Q
			}
			r.Eval(1)
			if p != want {
				r.Violation("C04|common.NTT-pipeline|monomial-product", fmt.Sprintf("ntt/%d/%d", i, v),
					fmt.Sprintf("InvNTT(MulHat(NTT(%d X^%d), NTT(%d X^%d))) is not %d X^%d (mod X^256+1)", v, i, w, j, c, (i+j)%N),
					map[string]interface{}{"i": i, "v": v, "j": j, "w": w})
			}
		}
		r.Count("monomial_pairs", N*len(vals))
		r.Distinct("mono", i, v)
	})
	// dense operands
	mk := func(label string, max uint32) Poly {
		var a Poly
		b := verifmc.Shake(label, 4*N)
		for i := range a {
			a[i] = (uint32(b[4*i]) | uint32(b[4*i+1])<<8 | uint32(b[4*i+2])<<16 | uint32(b[4*i+3])<<24) % max
		}
		return a
	}
	var dense []Poly
	for _, v := range []uint32{1, Q - 1, 2*Q - 1} {
		var a Poly
		for i := range a {
			a[i] = v
		}
		dense = append(dense, a)
	}
	var alt, ramp Poly
	for i := range alt {
		alt[i] = uint32(i%2) * (2*Q - 1)
		ramp[i] = uint32(i) * 65521 % (2 * Q)
	}
	dense = append(dense, alt, ramp, mk("c04-dense-0", Q), mk("c04-dense-1", Q), mk("c04-dense-2", 2*Q), mk("c04-dense-3", 2*Q), mk("c04-dense-4", 5))
	toRef := func(a *Poly) *ref.Poly {
		var o ref.Poly
		for i := range a {
			o[i] = int64(a[i] % Q)
		}
		return &o
	}
	verifmc.ParallelFor(len(dense)*len(dense), func(k int) {
		a, b := dense[k/len(dense)], dense[k%len(dense)]
		want := ref.Schoolbook(toRef(&a), toRef(&b))
		ah, bh := a, b
		ah.NTT()
		bh.NTT()
		var p Poly
		p.MulHat(&ah, &bh)
		p.InvNTT()
		p.Normalize()
		r.Eval(1)
		r.Distinct("dense", k)
		if *toRef(&p) != *want {
			r.Violation("C04|common.NTT-pipeline|dense-product", fmt.Sprintf("ntt/dense/%d", k),
				fmt.Sprintf("product of dense operands %d and %d differs from the schoolbook product", k/len(dense), k%len(dense)), nil)
		}
		// a sum of L products as in PolyDotHat followed by ReduceLe2Q, InvNTT
		var acc, tt Poly
		for l := 0; l < 7; l++ {
			tt.MulHat(&ah, &bh)
			acc.Add(&tt, &acc)
		}
		acc.ReduceLe2Q()
		acc.InvNTT()
		acc.Normalize()
		var want7 ref.Poly
		for i := range want7 {
			want7[i] = want[i] * 7 % Q
		}
		if *toRef(&acc) != want7 {
			r.Violation("C04|common.NTT-pipeline|dot-product", fmt.Sprintf("ntt/dense/%d", k),
				fmt.Sprintf("sum of 7 products of dense operands %d and %d (PolyDotHat shape) differs from 7 x the schoolbook product", k/len(dense), k%len(dense)), nil)
		}
	})
	r.Sample(map[string]interface{}{"a": "2q-1 X^255", "b": "2q-1 X^255", "product": "-(1) X^254 mod q"})
}

// TestVerifC04_commonpack: t1, t0 and 4-bit packing against SimpleBitPack / BitPack.
func TestVerifC04_commonpack(t *testing.T) {
	r := verifmc.Start(t, "C04", "commonpack")
	defer r.Finish()
	r.Rule("PackT1/UnpackT1 (10 bit), PackT0/UnpackT0 (13 bit, 2^12 - x), PackLe16 (4 bit): every encodable value (pack) and every bit pattern (unpack) of one coefficient slot, " +
		"at every position of the first packing period and at the last position with two backgrounds, plus a boundary alphabet at all 256 positions; oracle = Algorithms 16-19; distinct = (field, direction, position, background, 1024-aligned value block)")
	id := func(v uint32) uint32 { return v }
	verifc04.SweepFieldStd(r, "common", verifc04.Field{Name: "T1", C: 10, MaxEnc: 1023},
		verifc04.PackFns{Pack: func(p *verifc04.P, b []byte) { (*Poly)(p).PackT1(b) }, Unpack: func(p *verifc04.P, b []byte) { (*Poly)(p).UnpackT1(b) }, ToImpl: id}, 4)
	// PackT0 documents its input range as (q-2^(d-1), q+2^(d-1)]
	t0in := func(v uint32) uint32 {
		if v <= 1<<(D-1) {
			return Q + v
		}
		return v
	}
	verifc04.SweepFieldStd(r, "common", verifc04.Field{Name: "T0", C: 13, B: 1 << (D - 1), Signed: true, MaxEnc: 8191},
		verifc04.PackFns{Pack: func(p *verifc04.P, b []byte) { (*Poly)(p).PackT0(b) }, Unpack: func(p *verifc04.P, b []byte) { (*Poly)(p).UnpackT0(b) }, ToImpl: t0in}, 8)
	verifc04.SweepFieldStd(r, "common", verifc04.Field{Name: "Le16", C: 4, MaxEnc: 15},
		verifc04.PackFns{Pack: func(p *verifc04.P, b []byte) { (*Poly)(p).PackLe16(b) }, ToImpl: id}, 16)
	r.RequireCounter("fields_swept", 6)
	r.Sample(map[string]interface{}{"field": "T0", "slot_bits": 13, "positions_full_domain": 9, "positions_boundary_alphabet": 256})
}
