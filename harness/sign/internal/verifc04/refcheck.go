//go:build verif

// Package verifc04 holds the parameter-set independent part of the C04
// harness (ML-DSA / Dilithium equal FIPS 204 / round 3.1). It imports no circl
// code: the in-package test files of the six parameter sets and of the common
// dilithium package hand their functions over as closures (Impl, API), so the
// same enumeration runs against every parameter set.
package verifc04

import (
	"bytes"
	"compress/gzip"
	"encoding/hex"
	"encoding/json"
	"fmt"
	"io"
	"os"
	"path/filepath"
	"testing"

	"github.com/cloudflare/circl/internal/verifmc"
	ref "github.com/cloudflare/circl/internal/verifref/mldsa"
)

func repoRoot() string {
	if r := os.Getenv("VERIF_REPO"); r != "" {
		return r
	}
	return "/repo"
}

func readGz(t testing.TB, rel string, v interface{}) {
	f, err := os.Open(filepath.Join(repoRoot(), rel))
	if err != nil {
		t.Fatalf("fixture %s: %v", rel, err)
	}
	defer f.Close()
	z, err := gzip.NewReader(f)
	if err != nil {
		t.Fatalf("fixture %s: %v", rel, err)
	}
	b, err := io.ReadAll(z)
	if err != nil {
		t.Fatalf("fixture %s: %v", rel, err)
	}
	if err := json.Unmarshal(b, v); err != nil {
		t.Fatalf("fixture %s: %v", rel, err)
	}
}

type hexBytes []byte

func (b *hexBytes) UnmarshalJSON(data []byte) (err error) {
	var s string
	if err = json.Unmarshal(data, &s); err != nil {
		return err
	}
	*b, err = hex.DecodeString(s)
	return err
}

// Digests of the complete official PQCsignKAT transcripts (100 entries) as recorded in
// /repo/sign/dilithium/kat_test.go: round-3.1 reference implementation commit 61b51a7 for
// Dilithium2/3/5 and commit cbcd875 (deterministic signing) for ML-DSA.
var katDigests = map[string][2]string{
	"Dilithium2": {"Dilithium2", "38ed991c5ca11e39ab23945ca37af89e059d16c5474bf8ba96b15cb4e948af2a"},
	"Dilithium3": {"Dilithium3", "8196b32212753f525346201ffec1c7a0a852596fa0b57bd4e2746231dab44d55"},
	"Dilithium5": {"Dilithium5", "7ded97a6e6c809b43b54c248171d7504fa6a0cab651bf288bb00034782667481"},
	"ML-DSA-44":  {"Dilithium2", "14f92c48abc0d63ea263cce3c83183c8360c6ede7cbd5b65bd7c6f31e38f0ea5"},
	"ML-DSA-65":  {"Dilithium3", "595a8eff6988159c94eb5398294458c5d27d21c994fb64cadbee339173abcf63"},
	"ML-DSA-87":  {"Dilithium5", "35e2ce3d88b3311517bf8d41aa2cd24aa0fbda2bb8052ca8af4ad8d7c7344074"},
}

// RefCheck binds the reference model to its specifications before any unit trusts it:
// NIST ACVP keyGen / sigGen / sigVer vectors (FIPS 204, internal interface) for the three ML-DSA
// sets, the digests of the official PQCsignKAT transcripts for all six sets (this is what pins the
// Dilithium 3.1 deltas and the external ML-DSA framing), NTT against the schoolbook product, and
// the sizes of FIPS 204 table 2. Any failure is t.Fatal (broken check), never a violation.
func RefCheck(t *testing.T) {
	r := verifmc.Start(t, "C04", "refcheck")
	defer r.Finish()
	r.Rule("reference model ref/mldsa run on authoritative vectors; non-trivial = each distinct vector / transcript entry")

	sizes := map[string][3]int{"ML-DSA-44": {1312, 2560, 2420}, "ML-DSA-65": {1952, 4032, 3309}, "ML-DSA-87": {2592, 4896, 4627},
		"Dilithium2": {1312, 2528, 2420}, "Dilithium3": {1952, 4000, 3293}, "Dilithium5": {2592, 4864, 4595}}
	for _, p := range ref.All {
		s := sizes[p.Name]
		if p.PKSize() != s[0] || p.SKSize() != s[1] || p.SigSize() != s[2] {
			t.Fatalf("refcheck: %s sizes %d/%d/%d, specification %v", p.Name, p.PKSize(), p.SKSize(), p.SigSize(), s)
		}
	}

	// NTT: InvNTT(NTT(a) o NTT(b)) = a*b in Z_q[X]/(X^256+1), on dense and sparse operands.
	mk := func(label string) *ref.Poly {
		var a ref.Poly
		b := verifmc.Shake(label, 4*ref.N)
		for i := range a {
			a[i] = int64(uint32(b[4*i])|uint32(b[4*i+1])<<8|uint32(b[4*i+2])<<16|uint32(b[4*i+3])<<24) % ref.Q
		}
		return &a
	}
	var ones, top, x1, x255 ref.Poly
	for i := range ones {
		ones[i], top[i] = 1, ref.Q-1
	}
	x1[1], x255[255] = 1, ref.Q-1
	ops := []*ref.Poly{mk("c04-ntt-a"), mk("c04-ntt-b"), &ones, &top, &x1, &x255}
	for i, a := range ops {
		for j, b := range ops {
			if *ref.InvNTT(ref.MulNTT(ref.NTT(a), ref.NTT(b))) != *ref.Schoolbook(a, b) {
				t.Fatalf("refcheck: NTT product differs from schoolbook product (operands %d,%d)", i, j)
			}
			r.Eval(1)
			r.Distinct("ntt", i, j)
		}
		if *ref.InvNTT(ref.NTT(a)) != *a {
			t.Fatalf("refcheck: InvNTT(NTT(a)) != a")
		}
	}

	// ACVP keyGen
	var kgP struct {
		TestGroups []struct {
			ParameterSet string
			Tests        []struct {
				TcID int
				Seed hexBytes
			}
		}
	}
	var kgR struct {
		TestGroups []struct {
			Tests []struct {
				TcID   int
				Pk, Sk hexBytes
			}
		}
	}
	readGz(t, "sign/mldsa/testdata/ML-DSA-keyGen-FIPS204/prompt.json.gz", &kgP)
	readGz(t, "sign/mldsa/testdata/ML-DSA-keyGen-FIPS204/expectedResults.json.gz", &kgR)
	type kgres struct{ pk, sk []byte }
	kg := map[int]kgres{}
	for _, g := range kgR.TestGroups {
		for _, x := range g.Tests {
			kg[x.TcID] = kgres{x.Pk, x.Sk}
		}
	}
	type job func() error
	var jobs []job
	nKG, nSG, nSV := 0, 0, 0
	for _, g := range kgP.TestGroups {
		p := ref.ByName(g.ParameterSet)
		if p == nil {
			t.Fatalf("refcheck: unknown parameter set %q in keyGen vectors", g.ParameterSet)
		}
		for _, x := range g.Tests {
			x, want := x, kg[x.TcID]
			nKG++
			jobs = append(jobs, func() error {
				pk, sk := ref.KeyGen(p, x.Seed)
				if !bytes.Equal(pk, want.pk) || !bytes.Equal(sk, want.sk) {
					return fmt.Errorf("ACVP keyGen tcId %d (%s): reference differs", x.TcID, p.Name)
				}
				return nil
			})
		}
	}
	// ACVP sigGen
	var sgP struct {
		TestGroups []struct {
			ParameterSet  string
			Deterministic bool
			Tests         []struct {
				TcID             int
				Sk, Message, Rnd hexBytes
			}
		}
	}
	var sgR struct {
		TestGroups []struct {
			Tests []struct {
				TcID      int
				Signature hexBytes
			}
		}
	}
	readGz(t, "sign/mldsa/testdata/ML-DSA-sigGen-FIPS204/prompt.json.gz", &sgP)
	readGz(t, "sign/mldsa/testdata/ML-DSA-sigGen-FIPS204/expectedResults.json.gz", &sgR)
	sg := map[int][]byte{}
	for _, g := range sgR.TestGroups {
		for _, x := range g.Tests {
			sg[x.TcID] = x.Signature
		}
	}
	for _, g := range sgP.TestGroups {
		p := ref.ByName(g.ParameterSet)
		if p == nil {
			t.Fatalf("refcheck: unknown parameter set %q in sigGen vectors", g.ParameterSet)
		}
		for _, x := range g.Tests {
			x, want, det := x, sg[x.TcID], g.Deterministic
			nSG++
			jobs = append(jobs, func() error {
				rnd := make([]byte, 32)
				if !det {
					copy(rnd, x.Rnd)
				}
				sig, _ := ref.SignInternal(p, x.Sk, x.Message, rnd)
				if !bytes.Equal(sig, want) {
					return fmt.Errorf("ACVP sigGen tcId %d (%s): reference differs", x.TcID, p.Name)
				}
				return nil
			})
		}
	}
	// ACVP sigVer
	var svP struct {
		TestGroups []struct {
			ParameterSet string
			Pk           hexBytes
			Tests        []struct {
				TcID               int
				Message, Signature hexBytes
			}
		}
	}
	var svR struct {
		TestGroups []struct {
			Tests []struct {
				TcID       int
				TestPassed bool
			}
		}
	}
	readGz(t, "sign/mldsa/testdata/ML-DSA-sigVer-FIPS204/prompt.json.gz", &svP)
	readGz(t, "sign/mldsa/testdata/ML-DSA-sigVer-FIPS204/expectedResults.json.gz", &svR)
	sv := map[int]bool{}
	for _, g := range svR.TestGroups {
		for _, x := range g.Tests {
			sv[x.TcID] = x.TestPassed
		}
	}
	for _, g := range svP.TestGroups {
		p := ref.ByName(g.ParameterSet)
		if p == nil {
			t.Fatalf("refcheck: unknown parameter set %q in sigVer vectors", g.ParameterSet)
		}
		pk := g.Pk
		for _, x := range g.Tests {
			x, want := x, sv[x.TcID]
			nSV++
			jobs = append(jobs, func() error {
				got := ref.NewVerifier(p, pk).VerifyInternal(x.Message, x.Signature)
				if (got == ref.OK) != want {
					return fmt.Errorf("ACVP sigVer tcId %d (%s): reference says %q, vector says %v", x.TcID, p.Name, got, want)
				}
				r.Outcome("sigVer:" + string(got))
				return nil
			})
		}
	}
	if nKG < 75 || nSG < 60 || nSV < 45 {
		t.Fatalf("refcheck: vector files smaller than expected (%d keyGen, %d sigGen, %d sigVer)", nKG, nSG, nSV)
	}
	// KAT transcripts: complete (100 entries each), which is what the recorded digests cover.
	katDone := 0
	{
		for _, p := range ref.All {
			p, d := p, katDigests[p.Name]
			katDone++
			jobs = append(jobs, func() error {
				if got := ref.KATDigest(p, d[0], 100); got != d[1] {
					return fmt.Errorf("PQCsignKAT transcript of %s: reference digest %s, official %s", p.Name, got, d[1])
				}
				return nil
			})
		}
	}
	errs := make([]error, len(jobs))
	verifmc.ParallelFor(len(jobs), func(i int) { errs[i] = jobs[i]() })
	for _, e := range errs {
		if e != nil {
			t.Fatalf("refcheck: %v", e)
		}
	}
	r.Eval(len(jobs))
	for i := range jobs {
		r.Distinct("vec", i)
	}
	r.Count("acvp_keygen_vectors", nKG)
	r.Count("acvp_siggen_vectors", nSG)
	r.Count("acvp_sigver_vectors", nSV)
	r.Count("kat_transcripts_100_entries", katDone)
	r.Sample(map[string]interface{}{"acvp_keyGen": nKG, "acvp_sigGen": nSG, "acvp_sigVer": nSV, "kat_transcripts": katDone})
}
