//go:build verif

package verifc04

import (
	"bytes"
	"fmt"
	"testing"

	"github.com/cloudflare/circl/internal/verifmc"
	ref "github.com/cloudflare/circl/internal/verifref/mldsa"
)

func toRefVec(v []P) []*ref.Poly {
	o := make([]*ref.Poly, len(v))
	for i := range v {
		o[i] = new(ref.Poly)
		for j := range v[i] {
			o[i][j] = int64(v[i][j] % Q)
		}
	}
	return o
}

func hintEq(a []P, b []*ref.Poly) bool {
	for i := range a {
		for j := range a[i] {
			if int64(a[i][j]) != b[i][j] {
				return false
			}
		}
	}
	return true
}

// hintBases returns hint vectors covering the shapes of the encoding.
func hintBases(p *ref.Params) [][]P {
	var out [][]P
	mk := func() []P { return make([]P, p.K) }
	out = append(out, mk()) // empty
	// exactly omega ones: all in the first polynomial, all in the last, spread round-robin
	h := mk()
	for j := 0; j < p.Omega; j++ {
		h[0][j] = 1
	}
	out = append(out, h)
	h = mk()
	for j := 0; j < p.Omega; j++ {
		h[p.K-1][N-1-j] = 1
	}
	out = append(out, h)
	h = mk()
	for j := 0; j < p.Omega; j++ {
		h[j%p.K][(j*37+j/p.K)%N] = 1
	}
	out = append(out, h)
	// typical: about omega/2 pseudo-random positions, some polynomials empty
	for s := 0; s < 2; s++ {
		h = mk()
		b := verifmc.Shake(fmt.Sprintf("c04-hint-%s-%d", p.Name, s), 2*p.Omega)
		for j := 0; j < p.Omega/2+s*p.Omega/4; j++ {
			i := int(b[2*j]) % p.K
			if i == 1 {
				i = 0 // leave polynomial 1 empty
			}
			h[i][b[2*j+1]] = 1
		}
		out = append(out, h)
	}
	// index 0 and 255 present (0 is also the padding value)
	h = mk()
	h[0][0], h[0][255], h[p.K-1][0], h[p.K-1][255] = 1, 1, 1, 1
	out = append(out, h)
	return out
}

// Pack decides the per-parameter-set encodings: eta, gamma1 and w1 fields and the hint encoding.
func Pack(t *testing.T, im *Impl) {
	r := verifmc.Start(t, "C04", "pack-"+im.Name)
	defer r.Finish()
	p := im.start(r)
	r.Rule("eta field (pack over [-eta,eta], unpack over all bit patterns incl. out-of-range ones), gamma1 field (pack over (-gamma1,gamma1], unpack over all 2^(1+log gamma1) patterns), w1 field: " +
		"every value of one slot at each position of the first packing period and at the last position, with two backgrounds, + boundary alphabet at all 256 positions; " +
		"hint encoding: PackHint on all single, pair and full-weight hint vectors, UnpackHint on every single-byte substitution (all 256 values at each of the omega+k bytes) of 7 base encodings " +
		"(thorough: also pairs over a boundary alphabet); oracle = Algorithms 16-21; distinct = (field, direction, position, background, 1024-aligned block) resp. (base, byte, value) and (base, byte pair) for the two-byte family (case count in counters)")

	etaIn := func(v uint32) uint32 { // documented input range [q-eta, q+eta]
		if v <= uint32(p.Eta) {
			return Q + v
		}
		return v
	}
	id := func(v uint32) uint32 { return v }
	SweepFieldStd(r, im.Name, Field{Name: "LeqEta", C: p.EtaBits(), B: int64(p.Eta), Signed: true, MaxEnc: uint32(2 * p.Eta)},
		PackFns{Pack: im.PackLeqEta, Unpack: im.UnpackLeqEta, ToImpl: etaIn}, 8)
	SweepFieldStd(r, im.Name, Field{Name: "LeGamma1", C: p.Gamma1Bits(), B: int64(p.Gamma1), Signed: true, MaxEnc: uint32(2*p.Gamma1 - 1)},
		PackFns{Pack: im.PackLeGamma1, Unpack: im.UnpackLeGamma1, ToImpl: id}, 8/(p.Gamma1Bits()-16))
	SweepFieldStd(r, im.Name, Field{Name: "W1", C: p.W1Bits(), MaxEnc: uint32((Q-1)/(2*p.Gamma2) - 1)},
		PackFns{Pack: im.PackW1, ToImpl: id}, 8)
	r.RequireCounter("fields_swept", 6)

	// ---- PackHint
	hsize := p.Omega + p.K
	checkPack := func(h []P, id string) {
		buf := bytes.Repeat([]byte{0xA5}, hsize)
		im.PackHint(h, buf)
		want := ref.HintBitPack(p, toRefVec(h))
		r.Eval(1)
		if !bytes.Equal(buf, want) {
			r.Violation("C04|"+im.Name+"|PackHint|differs-from-Algorithm-20", "packhint/"+id,
				fmt.Sprintf("%s PackHint(%s) = %x, HintBitPack gives %x", im.Name, id, buf, want), nil)
		}
		// and back
		got := make([]P, p.K)
		ok := im.UnpackHint(buf, got)
		if !ok || !hintEq(got, toRefVec(h)) {
			r.Violation("C04|"+im.Name+"|UnpackHint|honest-encoding-refused", "packhint/"+id,
				fmt.Sprintf("%s UnpackHint(PackHint(%s)) ok=%v or differs from the hint", im.Name, id, ok), nil)
		}
	}
	pos := []int{0, 1, 2, 127, 128, 254, 255}
	for i := 0; i < p.K; i++ {
		for j := 0; j < N; j++ {
			h := make([]P, p.K)
			h[i][j] = 1
			checkPack(h, fmt.Sprintf("single/%d/%d", i, j))
			r.Distinct("hp1", i, j)
		}
	}
	for i := 0; i < p.K; i++ {
		for i2 := i; i2 < p.K; i2++ {
			for _, j := range pos {
				for _, j2 := range pos {
					if i == i2 && j2 <= j {
						continue
					}
					h := make([]P, p.K)
					h[i][j], h[i2][j2] = 1, 1
					checkPack(h, fmt.Sprintf("pair/%d/%d/%d/%d", i, j, i2, j2))
					r.Distinct("hp2", i, j, i2, j2)
				}
			}
		}
	}
	bases := hintBases(p)
	for bi, h := range bases {
		checkPack(h, fmt.Sprintf("base/%d", bi))
		r.Distinct("hpb", bi)
	}

	// ---- UnpackHint on malformed encodings
	// checkUnpack returns 0 = both refuse, 1 = both accept, 2 = disagreement (reported)
	checkUnpack := func(y []byte, id string, got []P, want []*ref.Poly) int {
		ok := im.UnpackHint(y, got)
		wok := ref.HintBitUnpackInto(p, y, want)
		switch {
		case ok != wok:
			cls := "accepts-malformed"
			if wok {
				cls = "refuses-wellformed"
			}
			r.Violation("C04|"+im.Name+"|UnpackHint|"+cls, "unpackhint/"+id,
				fmt.Sprintf("%s UnpackHint(%x) ok=%v, HintBitUnpack ok=%v (%s)", im.Name, y, ok, wok, id), map[string]interface{}{"bytes": fmt.Sprintf("%x", y)})
			return 2
		case ok && !hintEq(got, want):
			r.Violation("C04|"+im.Name+"|UnpackHint|wrong-vector", "unpackhint/"+id,
				fmt.Sprintf("%s UnpackHint(%x) decodes to a different hint vector than HintBitUnpack (%s)", im.Name, y, id), map[string]interface{}{"bytes": fmt.Sprintf("%x", y)})
			return 2
		case ok:
			return 1
		}
		return 0
	}
	balpha := []byte{0, 1, 2, 0x7f, 0x80, 0xfe, 0xff, byte(p.Omega - 1), byte(p.Omega), byte(p.Omega + 1)}
	verifmc.ParallelFor(len(bases)*hsize, func(k int) {
		bi, at := k/hsize, k%hsize
		base := ref.HintBitPack(p, toRefVec(bases[bi]))
		var cls [3]int
		got, want := make([]P, p.K), make([]*ref.Poly, p.K)
		for i := range want {
			want[i] = new(ref.Poly)
		}
		y := make([]byte, len(base))
		defer func() {
			r.Eval(cls[0] + cls[1] + cls[2])
			r.Count("unpackhint_refused", cls[0])
			r.Count("unpackhint_accepted", cls[1])
			r.Count("unpackhint_disagree", cls[2])
		}()
		for v := 0; v < 256; v++ {
			copy(y, base)
			y[at] = byte(v)
			id := ""
			if r.Replaying() {
				if id = fmt.Sprintf("sub/%d/%d/%d", bi, at, v); !r.Want("unpackhint/" + id) {
					continue
				}
			}
			if c := checkUnpack(y, id, got, want); c == 2 && id == "" {
				checkUnpack(y, fmt.Sprintf("sub/%d/%d/%d", bi, at, v), got, want)
				cls[2]++
			} else {
				cls[c]++
			}
			r.Distinct("hu1", bi, at, v)
		}
		if r.Thorough() {
			n := 0
			for at2 := at + 1; at2 < hsize; at2++ {
				for _, v := range balpha {
					for _, v2 := range balpha {
						copy(y, base)
						y[at], y[at2] = v, v2
						id := ""
						if r.Replaying() {
							if id = fmt.Sprintf("sub2/%d/%d/%d/%d/%d", bi, at, v, at2, v2); !r.Want("unpackhint/" + id) {
								continue
							}
						}
						if c := checkUnpack(y, id, got, want); c == 2 && id == "" {
							checkUnpack(y, fmt.Sprintf("sub2/%d/%d/%d/%d/%d", bi, at, v, at2, v2), got, want)
							cls[2]++
						} else {
							cls[c]++
						}
						n++
					}
				}
				r.Distinct("hu2", bi, at, at2)
			}
			r.Count("unpackhint_two_byte_cases", n)
		}
	})
	if !r.Thorough() {
		r.NotExhaustive("quick tier: hint encodings with two substituted bytes are enumerated in the thorough tier only")
	}
	for _, o := range []string{"unpackhint_refused", "unpackhint_accepted", "unpackhint_disagree"} {
		if r.Counter(o) > 0 {
			r.Outcome(o)
		}
	}
	r.RequireCounter("unpackhint_accepted", 100)
	r.RequireCounter("unpackhint_refused", 1000)
	r.Sample(map[string]interface{}{"hint_base": fmt.Sprintf("%x", ref.HintBitPack(p, toRefVec(bases[3]))), "alteration": "every byte := every value"})
}
