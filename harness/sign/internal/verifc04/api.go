//go:build verif

package verifc04

import (
	"bytes"
	"crypto"
	"fmt"
	"testing"

	"github.com/cloudflare/circl/internal/verifmc"
	ref "github.com/cloudflare/circl/internal/verifref/mldsa"
	"github.com/cloudflare/circl/sign"
)

// API is what a public package (mldsa44/65/87, mode2/3/5) hands over.
type API struct {
	Scheme         sign.Scheme
	NewKeyFromSeed func(seed *[32]byte) (sign.PublicKey, sign.PrivateKey)
	// SignTo / Verify are the package-level functions; ctx and randomized are ignored by the Dilithium modes.
	SignTo func(sk sign.PrivateKey, msg, ctx []byte, randomized bool, sig []byte) error
	Verify func(pk sign.PublicKey, msg, ctx, sig []byte) bool
}

func mustBytes(t *testing.T, m interface{ MarshalBinary() ([]byte, error) }) []byte {
	b, err := m.MarshalBinary()
	if err != nil {
		t.Fatalf("MarshalBinary: %v", err)
	}
	return b
}

// PublicAPI checks the exported entry points: key bytes, the pure-ML-DSA framing
// 0 || |ctx| || ctx || M for every (message, context) pair of the alphabet, the context length
// limit, the verdict matrix over (message, context) pairs, the hedged path's validity, the
// generic sign.Scheme interface and the crypto.Signer method.
func PublicAPI(t *testing.T, a *API) {
	name := a.Scheme.Name()
	r := verifmc.Start(t, "C04", "api-"+name)
	defer r.Finish()
	p := ref.ByName(name)
	if p == nil {
		t.Fatalf("harness: unknown scheme %q", name)
	}
	r.Set("parameter_set", name)
	r.Rule("keys: xi in SEEDS(32) and two counter seeds whose ExpandA stream contains a candidate == q, via NewKeyFromSeed and Scheme.DeriveKey; messages of length {0,1,65,200} x ctx {nil,\"\",\"a\",255 x FF} (ML-DSA): SignTo, Scheme.Sign, PrivateKey.Sign bytes = reference Sign_internal on M' with rnd = 0; " +
		"verdict matrix: every signature against every (message, ctx) pair = reference verdict; ctx of 256 bytes refused; hedged signatures (crypto/rand) judged by the reference verifier; truncated / extended signatures; key (un)marshalling lengths; " +
		"distinct = (entry point, key, message, ctx)")
	key := func(fn, class string) string { return "C04|" + name + "|" + fn + "|" + class }
	if a.Scheme.PublicKeySize() != p.PKSize() || a.Scheme.PrivateKeySize() != p.SKSize() || a.Scheme.SignatureSize() != p.SigSize() || a.Scheme.SeedSize() != 32 {
		r.Violation(key("Scheme", "sizes"), "sizes", fmt.Sprintf("%s sizes %d/%d/%d differ from the specification %d/%d/%d", name,
			a.Scheme.PublicKeySize(), a.Scheme.PrivateKeySize(), a.Scheme.SignatureSize(), p.PKSize(), p.SKSize(), p.SigSize()), nil)
	}
	if a.Scheme.SupportsContext() != p.MLDSA {
		r.Violation(key("Scheme", "supports-context"), "ctxflag", "SupportsContext does not match the specification family", nil)
	}
	seeds := verifmc.SeedsN(32, r.Seed(), r.Pick(3, 5))
	for _, ks := range BoundaryKeySeeds(p, 2) { // ExpandA consumes a candidate == q (boundary.go)
		ks := ks
		seeds = append(seeds, ks.Seed[:])
		r.Count("boundary_key_seeds", 1)
	}
	r.RequireCounter("boundary_key_seeds", 2)
	msgLens := []int{0, 1, 65, 200}
	ctxs := [][]byte{nil, {}, []byte("a"), bytes.Repeat([]byte{0xff}, 255)}
	if !p.MLDSA {
		ctxs = ctxs[:1]
	}
	format := func(msg, ctx []byte) []byte {
		if !p.MLDSA {
			return msg
		}
		mp, _ := ref.FormatMessage(msg, ctx)
		return mp
	}
	zero := make([]byte, 32)
	verifmc.ParallelFor(len(seeds), func(si int) {
		var seed [32]byte
		copy(seed[:], seeds[si])
		rpk, rsk := ref.KeyGen(p, seed[:])
		ver := ref.NewVerifier(p, rpk)
		pk, sk := a.NewKeyFromSeed(&seed)
		kid := fmt.Sprintf("key/%d", si)
		r.Eval(1)
		r.Distinct("key", si)
		if !bytes.Equal(mustBytes(t, pk), rpk) || !bytes.Equal(mustBytes(t, sk), rsk) {
			r.Violation(key("NewKeyFromSeed", "key-bytes-differ"), kid, fmt.Sprintf("%s NewKeyFromSeed(%x): packed keys differ from KeyGen_internal", name, seed), map[string]interface{}{"seed": verifmc.FullHex(seed[:])})
			return
		}
		pk2, sk2 := a.Scheme.DeriveKey(seed[:])
		if !bytes.Equal(mustBytes(t, pk2), rpk) || !bytes.Equal(mustBytes(t, sk2), rsk) {
			r.Violation(key("Scheme.DeriveKey", "key-bytes-differ"), kid, fmt.Sprintf("%s Scheme.DeriveKey(%x): packed keys differ from KeyGen_internal", name, seed), nil)
		}
		if pub, ok := sk.Public().(sign.PublicKey); !ok || !bytes.Equal(mustBytes(t, pub), rpk) {
			r.Violation(key("PrivateKey.Public", "differs"), kid, name+" sk.Public() differs from the public key", nil)
		}
		// (un)marshalling
		upk, err1 := a.Scheme.UnmarshalBinaryPublicKey(rpk)
		usk, err2 := a.Scheme.UnmarshalBinaryPrivateKey(rsk)
		if err1 != nil || err2 != nil || !bytes.Equal(mustBytes(t, upk), rpk) || !bytes.Equal(mustBytes(t, usk), rsk) {
			r.Violation(key("Unmarshal", "round-trip"), kid, name+" Unmarshal/Marshal of a key pair is not the identity", nil)
			return
		}
		for _, d := range []int{-1, 1} {
			if _, err := a.Scheme.UnmarshalBinaryPublicKey(append([]byte{}, append(rpk, 0)[:len(rpk)+d]...)); err == nil {
				r.Violation(key("UnmarshalBinaryPublicKey", "wrong-length-accepted"), kid, fmt.Sprintf("%s accepts a public key of length %d", name, len(rpk)+d), nil)
			}
			if _, err := a.Scheme.UnmarshalBinaryPrivateKey(append([]byte{}, append(rsk, 0)[:len(rsk)+d]...)); err == nil {
				r.Violation(key("UnmarshalBinaryPrivateKey", "wrong-length-accepted"), kid, fmt.Sprintf("%s accepts a private key of length %d", name, len(rsk)+d), nil)
			}
		}

		type signed struct {
			msg, ctx, sig []byte
		}
		var sigs []signed
		for _, ml := range msgLens {
			for ci, ctx := range ctxs {
				msg := verifmc.Msg(ml)
				id := fmt.Sprintf("sign/%d/%d/%d", si, ml, ci)
				want, _ := ref.SignInternal(p, rsk, format(msg, ctx), zero)
				sigs = append(sigs, signed{msg, ctx, want})
				got := make([]byte, p.SigSize())
				// signing with the unmarshalled key on even cases, the generated key on odd ones
				skx := sk
				if (ml+ci)%2 == 0 {
					skx = usk
				}
				if err := a.SignTo(skx, msg, ctx, false, got); err != nil {
					r.Violation(key("SignTo", "error"), id, fmt.Sprintf("%s SignTo(|msg|=%d, |ctx|=%d) failed: %v", name, ml, len(ctx), err), nil)
					continue
				}
				r.Eval(1)
				r.Distinct("SignTo", si, ml, ci)
				if !bytes.Equal(got, want) {
					r.Violation(key("SignTo", fmt.Sprintf("signature-differs|ctxlen=%d", len(ctx))), id,
						fmt.Sprintf("%s SignTo(|msg|=%d, ctx=%x): signature differs from Sign_internal(sk, 0||len(ctx)||ctx||M, rnd=0) (%s)", name, ml, ctx, firstDiff(got, want)),
						map[string]interface{}{"seed": verifmc.FullHex(seed[:]), "msg": verifmc.FullHex(msg), "ctx": verifmc.FullHex(ctx)})
				}
				var opts *sign.SignatureOpts
				if ctx != nil {
					opts = &sign.SignatureOpts{Context: string(ctx)}
				}
				if g2 := a.Scheme.Sign(sk, msg, opts); !bytes.Equal(g2, want) {
					r.Violation(key("Scheme.Sign", fmt.Sprintf("signature-differs|ctxlen=%d", len(ctx))), id,
						fmt.Sprintf("%s Scheme.Sign(|msg|=%d, ctx=%x): signature differs from the reference (%s)", name, ml, ctx, firstDiff(g2, want)), nil)
				}
				r.Eval(1)
				if len(ctx) == 0 {
					g3, err := sk.Sign(nil, msg, crypto.Hash(0))
					if err != nil || !bytes.Equal(g3, want) {
						r.Violation(key("PrivateKey.Sign", "signature-differs"), id, fmt.Sprintf("%s PrivateKey.Sign(|msg|=%d): err=%v, signature differs from the reference with empty context", name, ml, err), nil)
					}
					r.Eval(1)
				}
				if si == 0 && ml == 1 {
					r.Sample(map[string]interface{}{"entry": "SignTo", "msg": verifmc.Hex(msg), "ctx": verifmc.Hex(ctx), "sig": verifmc.Hex(want)})
				}
			}
		}
		// verdict matrix
		for i, s := range sigs {
			for j, o := range sigs {
				want := ver.VerifyInternal(format(o.msg, o.ctx), s.sig) == ref.OK
				id := fmt.Sprintf("verify/%d/%d/%d", si, i, j)
				got := a.Verify(upk, o.msg, o.ctx, s.sig)
				var opts *sign.SignatureOpts
				if o.ctx != nil {
					opts = &sign.SignatureOpts{Context: string(o.ctx)}
				}
				got2 := a.Scheme.Verify(pk, o.msg, s.sig, opts)
				r.Eval(2)
				r.Distinct("Verify", si, i, j)
				if want {
					r.Count("matrix_valid", 1)
				} else {
					r.Count("matrix_invalid", 1)
				}
				if got != want || got2 != want {
					cls := "refuses-valid"
					if !want {
						cls = "accepts-invalid|message-or-context"
					}
					r.Violation(key("Verify", cls), id,
						fmt.Sprintf("%s Verify/Scheme.Verify = %v/%v, reference %v: signature over (|msg|=%d, ctx=%x) checked against (|msg|=%d, ctx=%x)", name, got, got2, want, len(s.msg), s.ctx, len(o.msg), o.ctx),
						map[string]interface{}{"seed": verifmc.FullHex(seed[:])})
				}
			}
		}
		// length alterations at the exported entry point (first key only: one deterministic case)
		base := sigs[len(sigs)-1]
		for _, alt := range []struct {
			fam string
			sig []byte
		}{{"truncate", base.sig[:len(base.sig)-1]}, {"append-public", append(append([]byte{}, base.sig...), 0)}, {"truncate", nil}} {
			if si != 0 {
				break
			}
			want := ver.VerifyInternal(format(base.msg, base.ctx), alt.sig)
			var got bool
			if pn, what := verifmc.Try(func() { got = a.Verify(pk, base.msg, base.ctx, alt.sig) }); pn {
				r.Violation(key("Verify", "panic|"+alt.fam), "len/"+alt.fam, name+" Verify panicked: "+what, nil)
				continue
			}
			r.Eval(1)
			if got != (want == ref.OK) {
				r.Violation("C04|"+name+"|Verify|accepts-invalid|"+string(want)+"|"+alt.fam, fmt.Sprintf("len/%s/%d", alt.fam, len(alt.sig)),
					fmt.Sprintf("%s Verify accepts a signature of %d bytes (specified: %d) that the reference refuses (%s)", name, len(alt.sig), p.SigSize(), want),
					map[string]interface{}{"seed": verifmc.FullHex(seed[:]), "msg": verifmc.FullHex(base.msg), "ctx": verifmc.FullHex(base.ctx), "sig": verifmc.FullHex(alt.sig)})
			}
		}
		if p.MLDSA {
			// context limit
			long := bytes.Repeat([]byte{'x'}, 256)
			buf := make([]byte, p.SigSize())
			if err := a.SignTo(sk, []byte("m"), long, false, buf); err == nil {
				r.Violation(key("SignTo", "context-256-accepted"), kid, name+" SignTo accepts a 256-byte context", nil)
			}
			s255, _ := ref.SignInternal(p, rsk, format([]byte("m"), long[:255]), zero)
			if a.Verify(pk, []byte("m"), long, s255) {
				r.Violation(key("Verify", "context-256-accepted"), kid, name+" Verify accepts a 256-byte context", nil)
			}
			r.Eval(2)
			// hedged path: rnd comes from crypto/rand, so only validity can be judged
			for i := 0; i < 4; i++ {
				msg := verifmc.Msg(10 + i)
				ctx := ctxs[i%len(ctxs)]
				buf := make([]byte, p.SigSize())
				if err := a.SignTo(sk, msg, ctx, true, buf); err != nil {
					r.Violation(key("SignTo", "hedged-error"), kid, fmt.Sprintf("%s hedged SignTo failed: %v", name, err), nil)
					continue
				}
				r.Eval(1)
				r.Count("hedged_signatures", 1)
				if v := ver.VerifyInternal(format(msg, ctx), buf); v != ref.OK {
					r.Violation(key("SignTo", "hedged-signature-invalid"), kid, fmt.Sprintf("%s hedged SignTo produced a signature the reference verifier refuses (%s)", name, v),
						map[string]interface{}{"seed": verifmc.FullHex(seed[:]), "msg": verifmc.FullHex(msg), "sig": verifmc.FullHex(buf)})
				}
			}
		}
	})
	r.RequireCounter("matrix_valid", int64(len(seeds)*len(msgLens)))
	r.RequireCounter("matrix_invalid", int64(len(seeds)*len(msgLens)))
	r.NotExhaustive("declared alphabet of seeds, messages and contexts; the hedged path draws rnd from crypto/rand and is judged by the reference verifier only")
}

// APISignInternal checks the unexported ML-DSA wrapper unsafeSignInternal (Sign_internal on an
// already formatted message, explicit rnd) against the reference. Own unit, own file in the
// package under test: renaming the wrapper costs only this unit.
func APISignInternal(t *testing.T, sch sign.Scheme, signInternal func(sk sign.PrivateKey, mp []byte, rnd [32]byte) []byte) {
	name := sch.Name()
	r := verifmc.Start(t, "C04", "api-signinternal-"+name)
	defer r.Finish()
	p := ref.ByName(name)
	if p == nil {
		t.Fatalf("harness: unknown scheme %q", name)
	}
	r.Rule("unsafeSignInternal(M', rnd) = reference Sign_internal for keys SEEDS(32)[0..2] x M' in {\"internal-0\", \"internal-1\", empty} x rnd in {0^32, 01 02 03 0..}; distinct = (key, M', rnd)")
	seeds := verifmc.SeedsN(32, r.Seed(), 3)
	for si, seed := range seeds {
		_, rsk := ref.KeyGen(p, seed)
		sk, err := sch.UnmarshalBinaryPrivateKey(rsk)
		if err != nil {
			t.Fatalf("harness: cannot unmarshal a reference private key: %v", err)
		}
		for mi, mp := range [][]byte{[]byte("internal-0"), []byte("internal-1"), {}} {
			for ri, rnd := range [][32]byte{{}, {1, 2, 3}} {
				want, _ := ref.SignInternal(p, rsk, mp, rnd[:])
				got := signInternal(sk, mp, rnd)
				r.Eval(1)
				r.Distinct(si, mi, ri)
				if !bytes.Equal(got, want) {
					r.Violation("C04|"+name+"|unsafeSignInternal|signature-differs", fmt.Sprintf("signinternal/%d/%d/%d", si, mi, ri),
						fmt.Sprintf("%s unsafeSignInternal differs from Sign_internal (%s)", name, firstDiff(got, want)), map[string]interface{}{"seed": verifmc.FullHex(seed), "mprime": verifmc.FullHex(mp), "rnd": verifmc.FullHex(rnd[:])})
				}
			}
		}
	}
	r.Sample(map[string]interface{}{"entry": "unsafeSignInternal", "mprime": "internal-0", "rnd": "000..00 / 010203 00.."})
	r.NotExhaustive("declared alphabet of keys, messages and rnd values")
}

// APIVerifyInternal checks the unexported ML-DSA wrapper unsafeVerifyInternal against the reference verdict.
func APIVerifyInternal(t *testing.T, sch sign.Scheme, verifyInternal func(pk sign.PublicKey, mp, sig []byte) bool) {
	name := sch.Name()
	r := verifmc.Start(t, "C04", "api-verifyinternal-"+name)
	defer r.Finish()
	p := ref.ByName(name)
	if p == nil {
		t.Fatalf("harness: unknown scheme %q", name)
	}
	r.Rule("unsafeVerifyInternal(pk, M', sig) = verdict of the reference Verify_internal for keys SEEDS(32)[0..2], reference signatures over 3 messages, each checked against every message, a flipped c~ bit, a truncated and an extended signature; distinct = (key, signature, variant)")
	seeds := verifmc.SeedsN(32, r.Seed(), 3)
	msgs := [][]byte{[]byte("internal-0"), []byte("internal-1"), {}}
	for si, seed := range seeds {
		rpk, rsk := ref.KeyGen(p, seed)
		pk, err := sch.UnmarshalBinaryPublicKey(rpk)
		if err != nil {
			t.Fatalf("harness: cannot unmarshal a reference public key: %v", err)
		}
		ver := ref.NewVerifier(p, rpk)
		for mi, mp := range msgs {
			sig, _ := ref.SignInternal(p, rsk, mp, make([]byte, 32))
			type variant struct {
				name string
				mp   []byte
				sig  []byte
			}
			vs := []variant{{"flip", mp, verifmc.Flip(sig, 3)}, {"truncated", mp, sig[:len(sig)-1]}, {"extended", mp, append(append([]byte{}, sig...), 0)}}
			for oi, o := range msgs {
				vs = append(vs, variant{fmt.Sprintf("msg%d", oi), o, sig})
			}
			for _, v := range vs {
				want := ver.VerifyInternal(v.mp, v.sig) == ref.OK
				var got bool
				if pn, what := verifmc.Try(func() { got = verifyInternal(pk, v.mp, v.sig) }); pn {
					r.Violation("C04|"+name+"|unsafeVerifyInternal|panic", fmt.Sprintf("verifyinternal/%d/%d/%s", si, mi, v.name), name+" unsafeVerifyInternal panicked: "+what, nil)
					continue
				}
				r.Eval(1)
				r.Distinct(si, mi, v.name)
				if want {
					r.Count("valid", 1)
				} else {
					r.Count("invalid", 1)
				}
				if got != want {
					r.Violation("C04|"+name+"|unsafeVerifyInternal|wrong-verdict", fmt.Sprintf("verifyinternal/%d/%d/%s", si, mi, v.name),
						fmt.Sprintf("%s unsafeVerifyInternal = %v, Verify_internal = %v (variant %s)", name, got, want, v.name), map[string]interface{}{"seed": verifmc.FullHex(seed)})
				}
			}
		}
	}
	r.RequireCounter("valid", 9)
	r.RequireCounter("invalid", 27)
	r.Sample(map[string]interface{}{"entry": "unsafeVerifyInternal", "variants": "same message, other messages, c~ bit flip, truncated, extended"})
	r.NotExhaustive("declared alphabet of keys, messages and alterations")
}
