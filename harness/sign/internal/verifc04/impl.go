//go:build verif

package verifc04

import (
	"fmt"

	"github.com/cloudflare/circl/internal/verifmc"
	ref "github.com/cloudflare/circl/internal/verifref/mldsa"
)

const (
	N = ref.N
	Q = ref.Q
)

// P is the memory layout of circl's dilithium.Poly (pointer-convertible).
type P = [N]uint32

// Key is one key pair of the implementation under test.
type Key interface {
	PK() []byte
	SK() []byte
	// Sign is Sign_internal on the already formatted message; rnd is the hedging value
	// (ignored by the Dilithium 3.1 modes).
	Sign(mp []byte, rnd [32]byte) []byte
	// Verify is Verify_internal.
	Verify(mp, sig []byte) bool
}

// Impl is what an `internal` package of one parameter set hands over.
type Impl struct {
	Name                                         string
	K, L, Eta, Tau, Omega, Gamma1Bits, Gamma2    int
	CTildeSize, TRSize                           int
	PublicKeySize, PrivateKeySize, SignatureSize int
	PolyLeqEtaSize, PolyLeGamma1Size, PolyW1Size int
	NIST, X4                                     bool
	PolyDecompose                                func(p, p0PlusQ, p1 *P)
	PolyMakeHint                                 func(p, p0, p1 *P) uint32
	PolyUseHint                                  func(p, q, hint *P)
	PackLeqEta, UnpackLeqEta                     func(p *P, buf []byte)
	PackLeGamma1, UnpackLeGamma1                 func(p *P, buf []byte)
	PackW1                                       func(p *P, buf []byte)
	PackHint                                     func(v []P, buf []byte)
	UnpackHint                                   func(buf []byte, out []P) bool
	DeriveUniform                                func(p *P, seed *[32]byte, nonce uint16)
	DeriveUniformX4                              func(ps [4]*P, seed *[32]byte, nonces [4]uint16)
	DeriveUniformLeqEta                          func(p *P, seed *[64]byte, nonce uint16)
	DeriveUniformLeGamma1                        func(p *P, seed *[64]byte, nonce uint16)
	VecLDeriveUniformLeGamma1                    func(seed *[64]byte, nonce uint16) []P
	DeriveUniformBall                            func(p *P, seed []byte)
	DeriveUniformBallX4                          func(ps [4]*P, seed []byte)
	MatDerive                                    func(seed *[32]byte) [][]P
	VecLExceeds                                  func(v []P, bound uint32) bool
	KeyFromSeed                                  func(seed *[32]byte) Key
	KeyFromBytes                                 func(pk, sk []byte) Key
	PublicFromPrivate                            func(sk []byte) []byte // sk.Public() packed
}

// Params returns the reference parameter set and cross-checks every constant of the package
// against it (a mismatch is a harness-internal impossibility unless circl's params are wrong,
// in which case every unit would be meaningless: reported as a violation by the caller).
func (im *Impl) Params() (*ref.Params, string) {
	p := ref.ByName(im.Name)
	if p == nil {
		return nil, "unknown parameter set " + im.Name
	}
	chk := []struct {
		what      string
		got, want int
	}{
		{"K", im.K, p.K}, {"L", im.L, p.L}, {"Eta", im.Eta, p.Eta}, {"Tau", im.Tau, p.Tau}, {"Omega", im.Omega, p.Omega},
		{"Gamma1", 1 << uint(im.Gamma1Bits), p.Gamma1}, {"Gamma2", im.Gamma2, p.Gamma2},
		{"CTildeSize", im.CTildeSize, p.CTilde}, {"TRSize", im.TRSize, p.TR},
		{"PublicKeySize", im.PublicKeySize, p.PKSize()}, {"PrivateKeySize", im.PrivateKeySize, p.SKSize()},
		{"SignatureSize", im.SignatureSize, p.SigSize()},
		{"PolyLeqEtaSize", im.PolyLeqEtaSize, 32 * p.EtaBits()}, {"PolyLeGamma1Size", im.PolyLeGamma1Size, 32 * p.Gamma1Bits()},
		{"PolyW1Size", im.PolyW1Size, 32 * p.W1Bits()},
	}
	for _, c := range chk {
		if c.got != c.want {
			return p, fmt.Sprintf("%s: constant %s = %d, specification %d", im.Name, c.what, c.got, c.want)
		}
	}
	if im.NIST != p.MLDSA {
		return p, im.Name + ": NIST flag does not match the specification family"
	}
	return p, ""
}

func (im *Impl) start(r *verifmc.Run) *ref.Params {
	p, bad := im.Params()
	if p == nil {
		panic(bad)
	}
	if bad != "" {
		r.Violation("C04|"+im.Name+"|params|constant", "params", bad, nil)
	}
	r.Set("parameter_set", im.Name)
	return p
}

// ---------------------------------------------------------------- bit-field helpers

// setBits overwrites bits [off, off+c) of b (little-endian bit order of FIPS 204
// BitsToBytes) with the c low bits of v.
func setBits(b []byte, off, c int, v uint32) {
	for i := 0; i < c; i++ {
		bit := byte(v>>uint(i)) & 1
		b[(off+i)/8] = b[(off+i)/8]&^(1<<uint((off+i)%8)) | bit<<uint((off+i)%8)
	}
}

// fillBits returns a string of n slots of c bits, each holding v.
func fillBits(n, c int, v uint32) []byte {
	b := make([]byte, (n*c+7)/8)
	for i := 0; i < n; i++ {
		setBits(b, i*c, c, v)
	}
	return b
}

// Field describes one fixed-width coefficient encoding: slot i holds the c-bit
// integer enc, and the coefficient is (B - enc) mod q for BitPack-style fields
// (Signed) or enc itself for SimpleBitPack-style fields.
type Field struct {
	Name   string
	C      int   // bits per coefficient
	B      int64 // upper end of the range (BitPack's b); unused when !Signed
	Signed bool
	MaxEnc uint32 // largest enc that is a member of the intended range (pack domain = [0, MaxEnc])
}

func (f Field) decode(enc uint32) uint32 {
	if !f.Signed {
		return enc
	}
	return uint32(ref.Mod(f.B - int64(enc)))
}

func (f Field) refPack(w *ref.Poly) []byte {
	if !f.Signed {
		return ref.SimpleBitPack(w, 1<<uint(f.C)-1)
	}
	return ref.BitPack(w, 1<<uint(f.C)-1-int(f.B), int(f.B))
}

func (f Field) refUnpack(b []byte) *ref.Poly {
	if !f.Signed {
		return ref.SimpleBitUnpack(b, 1<<uint(f.C)-1)
	}
	return ref.BitUnpack(b, 1<<uint(f.C)-1-int(f.B), int(f.B))
}

// PackFns adapts one pack/unpack pair. ToImpl turns a coefficient value mod q into the
// representation the pack routine documents as its input; Unpack may be nil.
type PackFns struct {
	Pack   func(p *P, buf []byte)
	Unpack func(p *P, buf []byte)
	ToImpl func(vModQ uint32) uint32
}

// SweepField enumerates, for every position in `positions` and both backgrounds (all slots =
// 0 and all slots = MaxEnc resp. all-ones for unpacking), every encodable value of the slot:
// Pack over [0, MaxEnc] and Unpack over all 2^C bit patterns. The oracle is the slot-wise
// definition of Algorithms 16-19; it is itself cross-checked against the literal bit-array
// reference on a stride of the cases. Returns the number of evaluations.
func SweepField(r *verifmc.Run, scheme string, f Field, fn PackFns, positions []int, encs []uint32, allPatterns bool) {
	size := N * f.C / 8
	keyBase := "C04|" + scheme + "|" + f.Name
	const block = 1 << 15
	type job struct {
		pos, bg int
		lo, hi  uint32 // value block [lo, hi)
	}
	var jobs []job
	top := uint32(1) << uint(f.C)
	for _, pos := range positions {
		for bg := 0; bg < 2; bg++ {
			if encs == nil && f.C > 16 && bg == 1 && pos != 0 && !r.Thorough() {
				continue
			}
			if encs != nil {
				jobs = append(jobs, job{pos, bg, 0, top})
				continue
			}
			for lo := uint32(0); lo < top; lo += block {
				hi := lo + block
				if hi > top {
					hi = top
				}
				jobs = append(jobs, job{pos, bg, lo, hi})
			}
		}
	}
	verifmc.ParallelFor(len(jobs), func(ji int) {
		j := jobs[ji]
		nPack, nUnpack := 0, 0
		defer func() {
			r.Eval(nPack + nUnpack)
			r.Count("pack_points", nPack)
			r.Count("unpack_points", nUnpack)
		}()
		bgEnc := uint32(0)
		if j.bg == 1 {
			bgEnc = f.MaxEnc
		}
		// ---- pack over the domain
		var ip P
		for i := range ip {
			ip[i] = fn.ToImpl(f.decode(bgEnc))
		}
		want := fillBits(N, f.C, bgEnc)
		buf := make([]byte, size)
		packOne := func(enc uint32) {
			ip[j.pos] = fn.ToImpl(f.decode(enc))
			setBits(want, j.pos*f.C, f.C, enc)
			for i := range buf {
				buf[i] = 0xA5
			}
			fn.Pack(&ip, buf)
			nPack++
			if enc&1023 == 0 || encs != nil {
				r.Distinct(scheme, f.Name, "pack", j.pos, j.bg, enc)
			}
			if string(buf) != string(want) {
				r.Violation(keyBase+"|pack|mismatch", fmt.Sprintf("%s/pack/pos=%d/bg=%d/enc=%d", f.Name, j.pos, j.bg, enc),
					fmt.Sprintf("%s %s pack: coefficient %d (mod q) at position %d, background %d: bytes differ from BitPack", scheme, f.Name, f.decode(enc), j.pos, f.decode(bgEnc)),
					map[string]interface{}{"pos": j.pos, "enc": enc, "got": verifmc.Hex(buf), "want": verifmc.Hex(want)})
			}
			if enc%1021 == 0 || enc == f.MaxEnc {
				var rp ref.Poly
				for i := range rp {
					rp[i] = int64(f.decode(bgEnc))
				}
				rp[j.pos] = int64(f.decode(enc))
				if string(f.refPack(&rp)) != string(want) {
					panic("harness: fast pack oracle disagrees with the literal reference for " + f.Name)
				}
			}
		}
		if encs != nil {
			for _, e := range encs {
				if e <= f.MaxEnc {
					packOne(e)
				}
			}
		} else {
			for e := j.lo; e < j.hi && e <= f.MaxEnc; e++ {
				packOne(e)
			}
		}
		// ---- unpack over all bit patterns of the slot
		if fn.Unpack == nil {
			return
		}
		bgPat := uint32(0)
		if j.bg == 1 {
			bgPat = top - 1
		}
		in := fillBits(N, f.C, bgPat)
		var op, exp P
		for i := range exp {
			exp[i] = f.decode(bgPat)
		}
		unpackOne := func(pat uint32) {
			setBits(in, j.pos*f.C, f.C, pat)
			exp[j.pos] = f.decode(pat)
			for i := range op {
				op[i] = 0xdeadbeef
			}
			fn.Unpack(&op, in)
			nUnpack++
			if pat&1023 == 0 || (encs != nil && !allPatterns) {
				r.Distinct(scheme, f.Name, "unpack", j.pos, j.bg, pat)
			}
			if op != exp {
				for i := range op {
					if op[i]%Q != exp[i] {
						r.Violation(keyBase+"|unpack|mismatch", fmt.Sprintf("%s/unpack/pos=%d/bg=%d/pat=%d", f.Name, j.pos, j.bg, pat),
							fmt.Sprintf("%s %s unpack: bit pattern %#x at position %d (background %#x): coefficient %d decodes to %d (mod q), BitUnpack gives %d", scheme, f.Name, pat, j.pos, bgPat, i, op[i]%Q, exp[i]),
							map[string]interface{}{"pos": j.pos, "pattern": pat, "input": verifmc.Hex(in)})
						break
					}
				}
			}
			if pat%1021 == 0 || pat == top-1 {
				rp := f.refUnpack(in)
				for i := range rp {
					if rp[i] != int64(exp[i]) {
						panic("harness: fast unpack oracle disagrees with the literal reference for " + f.Name)
					}
				}
			}
		}
		if encs != nil && !allPatterns {
			for _, e := range encs {
				if e < top {
					unpackOne(e)
				}
			}
		} else {
			for e := j.lo; e < j.hi; e++ {
				unpackOne(e)
			}
		}
	})
	r.Count("fields_swept", 1)
}

// boundaryEncs is the value alphabet used at the positions that do not get the full domain.
func boundaryEncs(f Field) []uint32 {
	top := uint32(1<<uint(f.C) - 1)
	set := map[uint32]bool{}
	var out []uint32
	for _, v := range []uint32{0, 1, 2, f.MaxEnc / 2, f.MaxEnc - 1, f.MaxEnc, f.MaxEnc + 1, top - 1, top, uint32(f.B), uint32(f.B) + 1, uint32(f.B) - 1, 0x55555555 & top, 0xAAAAAAAA & top} {
		if v <= top && !set[v] {
			set[v] = true
			out = append(out, v)
		}
	}
	return out
}

func allPositions() []int {
	p := make([]int, N)
	for i := range p {
		p[i] = i
	}
	return p
}

// periodPositions returns one full period of the packing loop at the start, and the last position.
func periodPositions(period int) []int {
	var p []int
	for i := 0; i < period; i++ {
		p = append(p, i)
	}
	return append(p, N-1)
}

// SweepFieldStd runs the standard plan for a field: the full domain at the positions of the
// first packing period and at the last position, and the boundary alphabet at all 256 positions.
// In the quick tier fields wider than 16 bits get the second background at position 0 only.
func SweepFieldStd(r *verifmc.Run, scheme string, f Field, fn PackFns, period int) {
	SweepField(r, scheme, f, fn, periodPositions(period), nil, true)
	SweepField(r, scheme, f, fn, allPositions(), boundaryEncs(f), false)
}
