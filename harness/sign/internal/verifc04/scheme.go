//go:build verif

package verifc04

import (
	"bytes"
	"fmt"
	"os"
	"testing"

	"github.com/cloudflare/circl/internal/verifmc"
	ref "github.com/cloudflare/circl/internal/verifref/mldsa"
)

// firstDiff describes where two byte strings differ, in terms of the signature / key layout.
func firstDiff(a, b []byte) string {
	if len(a) != len(b) {
		return fmt.Sprintf("lengths %d vs %d", len(a), len(b))
	}
	for i := range a {
		if a[i] != b[i] {
			return fmt.Sprintf("first difference at byte %d of %d", i, len(a))
		}
	}
	return "equal"
}

// edgeCounters lists, per parameter set, counter messages "verif-<i>" (key SEEDS[3], rnd = 0) on
// which the reference's signing loop refuses an attempt only because ||z|| = gamma1-beta exactly
// (first two) resp. only because ||LowBits(w-cs2)|| = gamma2-beta exactly (last two), every other
// condition holding: the inputs on which an off-by-one in one of the signer's norm tests changes
// the signature bytes. Found with VERIF_C04_SEARCH=1; at run time the entries are only hints,
// the counters z_bound_only_cases / r0_bound_only_cases are taken from the reference's trace.
var edgeCounters = map[string][]int{
	"Dilithium2": {12, 15, 168, 272},
	"Dilithium3": {581, 2734, 328, 427},
	"Dilithium5": {121, 144, 35, 41},
	"ML-DSA-44":  {139, 158, 151, 235},
	"ML-DSA-65":  {23, 206, 1, 278},
	"ML-DSA-87":  {131, 264, 132, 730},
}

// craftCt0 lists crafted-key counter messages "verif-craft-<i>" on which the reference's loop
// refuses an attempt because ||c t0|| >= gamma2 (only possible for gamma2 = (q-1)/88). Hints for
// the enumeration like edgeCounters; the counter crafted_rej_ct0 is measured from the trace.
var craftCt0 = map[string][]int{
	"Dilithium2": {879, 1331, 1905, 2062, 2509, 2563},
	"ML-DSA-44":  {116, 152, 157, 175, 221, 711},
}

type signCase struct {
	id    string
	key   int // index into keys
	mp    []byte
	rnd   [32]byte
	unpk  bool // sign with the key re-read from its packed form
	craft bool // sign with the crafted private key (t0 replaced), see craftSK
}

// craftSK returns key #3's private key with its t0 section replaced: the first e polynomials
// have every coefficient 2^12 (the largest encodable value; odd rows alternate 2^12, -(2^12-1)), the others are zero. Sign_internal
// is defined for any private-key byte string; with this t0 the products c*t0 are large, so the
// two late rejection conditions, ||c t0|| >= gamma2 (reachable only for gamma2 = (q-1)/88, where
// tau*2^12 > gamma2) and hint weight > omega, fire often instead of (almost) never.
func craftSK(p *ref.Params, sk []byte) []byte {
	e := map[string]int{"Dilithium2": 2, "ML-DSA-44": 2, "Dilithium3": 4, "ML-DSA-65": 4, "Dilithium5": 5, "ML-DSA-87": 5}[p.Name]
	out := append([]byte{}, sk...)
	off := len(sk) - p.K*32*ref.D
	var big, alt, zero ref.Poly
	for i := range big {
		big[i] = 1 << (ref.D - 1)
		alt[i] = 1 << (ref.D - 1)
		if i%2 == 1 {
			alt[i] = ref.Q - (1<<(ref.D-1) - 1)
		}
	}
	for i := 0; i < p.K; i++ {
		w := &zero
		if i < e {
			w = &big
			if i%2 == 1 {
				w = &alt
			}
		}
		copy(out[off+i*32*ref.D:], ref.BitPack(w, 1<<(ref.D-1)-1, 1<<(ref.D-1)))
	}
	return out
}

// Sign compares key generation and Sign_internal (deterministic and hedged) with the reference,
// byte for byte, and reports from the reference's trace which branches of the rejection loop ran.
func Sign(t *testing.T, im *Impl) {
	r := verifmc.Start(t, "C04", "sign-"+im.Name)
	defer r.Finish()
	p := im.start(r)
	nCounter := r.Pick(300, 3000)
	r.Rule(fmt.Sprintf("keys: xi in SEEDS(32) plus the first two counter seeds LE64(c)||0^24 whose ExpandA stream contains a candidate == q; pk, sk bytes = KeyGen_internal; sk.Public(), Unpack/Pack round trip; signatures: every key x message lengths {0,1,63,64,65,200} x ctx {\"\",\"a\",255 bytes} (M' framing, ML-DSA) "+
		"x rnd {0^32, FF^32, 00..1f} (hedged path; ignored by Dilithium), signed with the generated and with the unpacked key, plus %d counter messages \"verif-i\" under one key, plus counter messages under a crafted private key (t0 := 2^12 in some rows, 0 elsewhere) that drives the c*t0 and hint-weight rejections; "+
		"sig bytes = Sign_internal of the reference; every signature is then verified by the implementation; distinct = (key, M', rnd); rejection-branch counters come from the reference's trace", nCounter))
	key := func(fn, class string) string { return "C04|" + im.Name + "|" + fn + "|" + class }

	seeds := verifmc.Seeds(32, r.Seed())
	// key seeds whose ExpandA consumes a rejection-sampling candidate exactly equal to q (boundary.go)
	for _, ks := range BoundaryKeySeeds(p, 2) {
		ks := ks
		seeds = append(seeds, ks.Seed[:])
		r.Count("boundary_key_seeds", 1)
		r.Sample(map[string]interface{}{"key_seed_with_ExpandA_candidate_eq_q": verifmc.FullHex(ks.Seed[:]), "counter": ks.Counter, "matrix_entry": []int{ks.Row, ks.Col}})
	}
	r.RequireCounter("boundary_key_seeds", 2)
	type kp struct {
		k        Key
		pk, sk   []byte
		rpk, rsk []byte
	}
	keys := make([]kp, len(seeds))
	verifmc.ParallelFor(len(seeds), func(i int) {
		var s [32]byte
		copy(s[:], seeds[i])
		k := im.KeyFromSeed(&s)
		keys[i] = kp{k: k, pk: k.PK(), sk: k.SK()}
		keys[i].rpk, keys[i].rsk = ref.KeyGen(p, s[:])
		r.Eval(1)
		r.Distinct("keygen", i)
		id := fmt.Sprintf("keygen/%d", i)
		if !bytes.Equal(keys[i].pk, keys[i].rpk) {
			r.Violation(key("NewKeyFromSeed", "public-key-differs"), id, fmt.Sprintf("%s NewKeyFromSeed(%x): public key differs from KeyGen_internal (%s)", im.Name, s, firstDiff(keys[i].pk, keys[i].rpk)),
				map[string]interface{}{"seed": verifmc.FullHex(s[:])})
		}
		if !bytes.Equal(keys[i].sk, keys[i].rsk) {
			r.Violation(key("NewKeyFromSeed", "private-key-differs"), id, fmt.Sprintf("%s NewKeyFromSeed(%x): private key differs from KeyGen_internal (%s)", im.Name, s, firstDiff(keys[i].sk, keys[i].rsk)),
				map[string]interface{}{"seed": verifmc.FullHex(s[:])})
		}
		// derived forms, using the reference's bytes as input
		if pub := im.PublicFromPrivate(keys[i].rsk); !bytes.Equal(pub, keys[i].rpk) {
			r.Violation(key("PrivateKey.Public", "differs"), id, fmt.Sprintf("%s Unpack(sk).Public() differs from the public key of the pair (%s)", im.Name, firstDiff(pub, keys[i].rpk)), nil)
		}
		k2 := im.KeyFromBytes(keys[i].rpk, keys[i].rsk)
		if !bytes.Equal(k2.PK(), keys[i].rpk) || !bytes.Equal(k2.SK(), keys[i].rsk) {
			r.Violation(key("Unpack-Pack", "not-identity"), id, fmt.Sprintf("%s Pack(Unpack(key)) differs from the key bytes", im.Name), nil)
		}
	})

	// the message alphabet
	var cases []signCase
	ctxs := [][]byte{{}, []byte("a"), bytes.Repeat([]byte{'c'}, 255)}
	if !p.MLDSA {
		ctxs = ctxs[:1]
	}
	var rnds [3][32]byte
	for i := range rnds[1] {
		rnds[1][i] = 0xff
		rnds[2][i] = byte(i)
	}
	nr := 3
	if !p.MLDSA {
		nr = 2 // the value must be ignored: 0 and FF must give the same signature as the reference's
	}
	for ki := range keys {
		for _, ml := range []int{0, 1, 63, 64, 65, 200} {
			for ci, ctx := range ctxs {
				for ri := 0; ri < nr; ri++ {
					mp := verifmc.Msg(ml)
					if p.MLDSA {
						mp, _ = ref.FormatMessage(mp, ctx)
					}
					for _, unpk := range []bool{false, true} {
						if unpk && (ri != 0 || ci != 0) {
							continue
						}
						cases = append(cases, signCase{fmt.Sprintf("sign/k%d/m%d/c%d/r%d/u%v", ki, ml, ci, ri, unpk), ki, mp, rnds[ri], unpk, false})
					}
				}
			}
		}
	}
	for i := 0; i < nCounter; i++ {
		mp := []byte(fmt.Sprintf("verif-%d", i))
		cases = append(cases, signCase{fmt.Sprintf("sign/counter/%d", i), 3, mp, rnds[0], false, false})
	}
	nCraft := r.Pick(150, 1000)
	for i := 0; i < nCraft; i++ {
		cases = append(cases, signCase{id: fmt.Sprintf("sign/craft/%d", i), key: 3, mp: []byte(fmt.Sprintf("verif-craft-%d", i)), craft: true})
	}
	for _, i := range craftCt0[p.Name] {
		if i >= nCraft {
			cases = append(cases, signCase{id: fmt.Sprintf("sign/craft/%d", i), key: 3, mp: []byte(fmt.Sprintf("verif-craft-%d", i)), craft: true})
		}
	}
	for _, i := range edgeCounters[p.Name] {
		if i >= nCounter {
			cases = append(cases, signCase{fmt.Sprintf("sign/counter/%d", i), 3, []byte(fmt.Sprintf("verif-%d", i)), rnds[0], false, false})
		}
	}
	r.Set("sign_cases", len(cases))
	if os.Getenv("VERIF_C04_SEARCH") != "" {
		const span = 40
		zs, rs := make([]bool, span), make([]bool, span)
		verifmc.ParallelFor(span, func(i int) {
			_, tr := ref.SignInternal(p, keys[3].rsk, []byte(fmt.Sprintf("verif-%d", i)), rnds[0][:])
			zs[i], rs[i] = tr.ZBoundOnly > 0, tr.R0BoundOnly > 0
		})
		var zi, ri []int
		for i := 0; i < span; i++ {
			if zs[i] && len(zi) < 2 {
				zi = append(zi, i)
			}
			if rs[i] && len(ri) < 2 {
				ri = append(ri, i)
			}
		}
		fmt.Printf("EDGE %q: %v,\n", p.Name, append(zi, ri...))
		if p.Tau<<(ref.D-1) > p.Gamma2 {
			csk := craftSK(p, keys[3].rsk)
			hit := make([]bool, 30000)
			verifmc.ParallelFor(len(hit), func(i int) {
				_, tr := ref.SignInternalMode(p, csk, []byte(fmt.Sprintf("verif-craft-%d", i)), rnds[0][:], ref.SignMode{MaxAttempts: 400})
				hit[i] = tr.RejCt0 > 0 && tr.Attempts < 400
			})
			var ci []int
			for i := range hit {
				if hit[i] && len(ci) < 6 {
					ci = append(ci, i)
				}
			}
			fmt.Printf("CRAFTCT0 %q: %v,\n", p.Name, ci)
		}
	}
	unpacked := make([]Key, len(keys))
	verifiers := make([]*ref.Verifier, len(keys))
	for i := range keys {
		unpacked[i] = im.KeyFromBytes(keys[i].rpk, keys[i].rsk)
		verifiers[i] = ref.NewVerifier(p, keys[i].rpk)
	}
	craftedSK := craftSK(p, keys[3].rsk)
	craftedKey := im.KeyFromBytes(keys[3].rpk, craftedSK)
	if !bytes.Equal(craftedKey.SK(), craftedSK) {
		r.Violation(key("Unpack-Pack", "not-identity|crafted-t0"), "craft/key", im.Name+" Pack(Unpack(sk)) differs for a private key whose t0 is all 2^12 / 0", nil)
	}
	verifmc.ParallelFor(len(cases), func(ci int) {
		c := cases[ci]
		if !r.Want(c.id) {
			return
		}
		rsk := keys[c.key].rsk
		if c.craft {
			rsk = craftedSK
		}
		want, tr := ref.SignInternalMode(p, rsk, c.mp, c.rnd[:], ref.SignMode{MaxAttempts: 400})
		k := keys[c.key].k
		if c.unpk {
			k = unpacked[c.key]
		}
		if c.craft {
			k = craftedKey
			if want == nil {
				// the implementation gives up (panics) after 575 attempts by design; not compared
				r.Count("crafted_cases_skipped_over_400_attempts", 1)
				return
			}
			r.Count("crafted_cases", 1)
			r.Count("crafted_rej_ct0", tr.RejCt0)
			r.Count("crafted_rej_hint_weight", tr.RejHint)
			if tr.HintWeight == p.Omega {
				r.Count("crafted_accepted_hint_weight_exactly_omega", 1)
			}
		}
		var got []byte
		if pn, what := verifmc.Try(func() { got = k.Sign(c.mp, c.rnd) }); pn {
			r.Violation(key("SignTo", "panic"), c.id, fmt.Sprintf("%s SignTo panicked: %s (reference signs after %d attempts)", im.Name, what, tr.Attempts), nil)
			return
		}
		r.Eval(1)
		r.Distinct("sig", c.key, c.mp, c.rnd[:])
		r.Count("attempts", tr.Attempts)
		r.Count("rej_z", tr.RejZ)
		r.Count("rej_r0", tr.RejR0)
		r.Count("rej_ct0", tr.RejCt0)
		r.Count("rej_hint_weight", tr.RejHint)
		r.Count("attempts_z_norm_exactly_at_bound", tr.ZAtBound)
		r.Count("accepted_z_norm_bound_minus_1", tr.ZBelowBound)
		r.Count("attempts_r0_norm_exactly_at_bound", tr.R0AtBound)
		r.Count("accepted_r0_norm_bound_minus_1", tr.R0Below)
		r.Count("coefficients_w_in_decompose_corner", tr.CornerW)
		r.Count("coefficients_w_minus_cs2_in_decompose_corner", tr.CornerR)
		r.Count("sampleinball_rejected_bytes", tr.BallRejects)
		if tr.ZBoundOnly > 0 {
			r.Count("z_bound_only_cases", 1)
		}
		if tr.R0BoundOnly > 0 {
			r.Count("r0_bound_only_cases", 1)
		}
		if tr.Attempts > 1 {
			r.Count("signatures_with_restart", 1)
		}
		if tr.HintWeight == p.Omega {
			r.Count("accepted_hint_weight_exactly_omega", 1)
		}
		r.Outcome(fmt.Sprintf("attempts=%d", tr.Attempts))
		if !bytes.Equal(got, want) {
			r.Violation(key("SignTo", "signature-differs"), c.id,
				fmt.Sprintf("%s Sign_internal(key #%d, |M'|=%d, rnd[0]=%#x, unpacked=%v): signature differs from the reference (%s; reference: %d attempts, rejZ=%d rejR0=%d rejCt0=%d rejHint=%d)",
					im.Name, c.key, len(c.mp), c.rnd[0], c.unpk, firstDiff(got, want), tr.Attempts, tr.RejZ, tr.RejR0, tr.RejCt0, tr.RejHint),
				map[string]interface{}{"seed": verifmc.FullHex(seeds[c.key]), "mprime": verifmc.FullHex(c.mp), "rnd": verifmc.FullHex(c.rnd[:])})
			return
		}
		if c.craft {
			return // t0 does not belong to the public key: nothing to verify
		}
		// honest signatures verify (implementation and reference)
		if !k.Verify(c.mp, got) {
			r.Violation(key("Verify", "honest-signature-refused"), c.id, fmt.Sprintf("%s Verify refuses the signature the reference and the implementation both produce (key #%d, |M'|=%d)", im.Name, c.key, len(c.mp)),
				map[string]interface{}{"seed": verifmc.FullHex(seeds[c.key]), "mprime": verifmc.FullHex(c.mp)})
		}
		if ci%8 == 0 {
			if v := verifiers[c.key].VerifyInternal(c.mp, want); v != ref.OK {
				panic("harness: the reference refuses its own signature: " + string(v))
			}
		}
		if ci == 0 {
			r.Sample(map[string]interface{}{"case": c.id, "mprime": verifmc.Hex(c.mp), "sig": verifmc.Hex(got), "attempts": tr.Attempts})
		}
	})
	// Branch floors (from the reference's trace): the z and r0 rejections and restarts must have happened.
	r.RequireCounter("rej_z", 20)
	r.RequireCounter("rej_r0", 20)
	r.RequireCounter("signatures_with_restart", 50)
	r.RequireCounter("crafted_cases", int64(nCraft/2))
	r.RequireCounter("crafted_rej_hint_weight", 10)
	if p.Tau<<(ref.D-1) > p.Gamma2 {
		r.RequireCounter("crafted_rej_ct0", 4)
	}
	if len(edgeCounters[p.Name]) > 0 {
		r.RequireCounter("z_bound_only_cases", 1)
		r.RequireCounter("r0_bound_only_cases", 1)
	}
	r.NotExhaustive("scheme level: seeds, messages and rnd are a declared finite alphabet (the full input space is 2^256 x messages); the c*t0 norm rejection cannot fire for gamma2 = (q-1)/32 (tau*2^12 < gamma2 for every encodable t0) and is driven by a crafted t0 for gamma2 = (q-1)/88")
}
