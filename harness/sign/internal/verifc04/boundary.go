//go:build verif

package verifc04

import (
	"encoding/binary"
	"fmt"
	"sort"
	"sync"

	"github.com/cloudflare/circl/internal/verifmc"
	ref "github.com/cloudflare/circl/internal/verifref/mldsa"
	"golang.org/x/crypto/sha3"
)

// Boundary candidates of the ExpandA rejection sampler. A 23-bit candidate z is kept iff z < q;
// an implementation that slips to z <= q (or compares after masking differently) is only exposed
// by a SHAKE-128 stream that contains z == q among the candidates it consumes, which happens once
// in 2^23 candidates (about one stream in 32 000, one key seed in ~1200). The units therefore
// search such streams deterministically at test time with the scanner below (plain x/crypto
// SHAKE, no circl code), and run scalar, four-way (every lane, every lane mask), whole-matrix and
// key-generation routes on exactly those inputs. The oracle on the hits is the reference sampler
// (ref.RejNTTPoly), whose own statistics must confirm the class the scanner found.

const (
	clsQ       = iota // a consumed candidate == q            (smallest refused)
	clsQm1            // == q-1                               (largest accepted)
	clsQp1            // == q+1
	clsMax            // == 2^23-1                            (largest candidate)
	clsZero           // == 0                                 (smallest accepted)
	clsRejLast        // a candidate refused while 255 coefficients are already set
	clsQLast          // ... and that candidate is exactly q
	nCls
)

var clsNames = [nCls]string{"eq_q", "eq_q_minus_1", "eq_q_plus_1", "eq_2^23-1", "eq_0", "refused_at_last_position", "eq_q_at_last_position"}

// uniScanner classifies RejNTTPoly streams.
type uniScanner struct {
	h   sha3.ShakeHash
	buf [6 * 168]byte
	in  [34]byte
}

func newUniScanner() *uniScanner { return &uniScanner{h: sha3.NewShake128()} }

// scan returns the class mask of the stream SHAKE128(rho || nonce_lo || nonce_hi), looking only at
// the candidates consumed until 256 are accepted.
func (s *uniScanner) scan(rho []byte, nonce uint16) (mask uint32) {
	copy(s.in[:32], rho)
	s.in[32], s.in[33] = byte(nonce), byte(nonce>>8)
	s.h.Reset()
	s.h.Write(s.in[:])
	s.h.Read(s.buf[:])
	acc := 0
	for off := 0; acc < N; off += 3 {
		if off+3 > len(s.buf) {
			// more than 80 refusals in 336 candidates: does not happen; treat as "no class"
			return 0
		}
		z := (uint32(s.buf[off]) | uint32(s.buf[off+1])<<8 | uint32(s.buf[off+2])<<16) & 0x7fffff
		switch z {
		case Q:
			mask |= 1 << clsQ
			if acc == N-1 {
				mask |= 1 << clsQLast
			}
		case Q - 1:
			mask |= 1 << clsQm1
		case Q + 1:
			mask |= 1 << clsQp1
		case 1<<23 - 1:
			mask |= 1 << clsMax
		case 0:
			mask |= 1 << clsZero
		}
		if z < Q {
			acc++
		} else if acc == N-1 {
			mask |= 1 << clsRejLast
		}
	}
	return mask
}

type uniHit struct {
	Rho    [32]byte
	RhoIdx int
	Nonce  uint16
	Mask   uint32
}

func (h uniHit) id() string { return fmt.Sprintf("%d/%#04x", h.RhoIdx, h.Nonce) }

func boundaryRho(label string, i int) (rho [32]byte) {
	copy(rho[:], verifmc.Shake(fmt.Sprintf("%s/%d", label, i), 32))
	return
}

// searchUniform walks rho_i = SHAKE256(label/i), i = 0,1,.., all 2^16 nonces each, until every
// class in `floor` has that many hits (or capRhos is reached). For each class the first hits in
// (i, nonce) order are kept, so the result does not depend on scheduling.
func searchUniform(label string, floor [nCls]int, capRhos int) (hits []uniHit, found [nCls]int, streams int) {
	seen := map[string]bool{}
	for i := 0; i < capRhos; i++ {
		rho := boundaryRho(label, i)
		per := make([][]uniHit, 256)
		verifmc.ParallelFor(256, func(b int) {
			sc := newUniScanner()
			for n := b << 8; n < (b+1)<<8; n++ {
				if m := sc.scan(rho[:], uint16(n)); m != 0 {
					per[b] = append(per[b], uniHit{rho, i, uint16(n), m})
				}
			}
		})
		streams += 1 << 16
		for _, blk := range per {
			for _, h := range blk {
				keep := false
				for c := 0; c < nCls; c++ {
					if h.Mask>>uint(c)&1 == 1 && found[c] < floor[c] {
						found[c]++
						keep = true
					}
				}
				if keep && !seen[h.id()] {
					seen[h.id()] = true
					hits = append(hits, h)
				}
			}
		}
		done := true
		for c := 0; c < nCls; c++ {
			done = done && found[c] >= floor[c]
		}
		if done {
			break
		}
	}
	return
}

// qLastTable: streams in which the candidate refused at the very last position (255 coefficients
// set) is exactly q, as (i, nonce) under the label "c04-boundary-last". One such stream in ~2^23,
// so they were searched once (VERIF_C04_SEARCH=1 prints them); at run time the scanner must
// confirm every entry, otherwise the unit is broken.
var qLastTable = [][2]int{{285, 39674}, {507, 45885}} // first two hits of a 33,292,288-stream search

// boundaryUniformHits returns the inputs of the boundary part of the sampler unit.
var (
	uniOnce   sync.Once
	uniHits   []uniHit
	uniFound  [nCls]int
	uniStream int
)

func boundaryUniformHits() ([]uniHit, [nCls]int, int) {
	uniOnce.Do(func() {
		var floor [nCls]int
		floor[clsQ], floor[clsQm1], floor[clsQp1], floor[clsMax], floor[clsZero], floor[clsRejLast] = 4, 3, 3, 3, 3, 4
		uniHits, uniFound, uniStream = searchUniform("c04-boundary", floor, 24)
		sc := newUniScanner()
		for _, e := range qLastTable {
			rho := boundaryRho("c04-boundary-last", e[0])
			m := sc.scan(rho[:], uint16(e[1]))
			if m>>clsQLast&1 != 1 {
				panic(fmt.Sprintf("harness: qLastTable entry %v is not a q-at-last-position stream", e))
			}
			uniHits = append(uniHits, uniHit{rho, 1000 + e[0], uint16(e[1]), m})
			for c := 0; c < nCls; c++ {
				uniFound[c] += int(m >> uint(c) & 1)
			}
		}
	})
	return uniHits, uniFound, uniStream
}

// BoundaryKeySeed is a key seed xi = LE64(counter) || 0^24 whose matrix seed rho (derived as the
// parameter set prescribes) has an ExpandA stream with a candidate exactly q.
type BoundaryKeySeed struct {
	Counter  uint64
	Seed     [32]byte
	Rho      [32]byte
	Row, Col int
}

var (
	keySeedMu    sync.Mutex
	keySeedCache = map[string][]BoundaryKeySeed{}
)

// BoundaryKeySeeds searches counters 0,1,.. (cap 60000) for the first n such key seeds.
func BoundaryKeySeeds(p *ref.Params, n int) []BoundaryKeySeed {
	keySeedMu.Lock()
	defer keySeedMu.Unlock()
	if c, ok := keySeedCache[p.Name]; ok && len(c) >= n {
		return c[:n]
	}
	var out []BoundaryKeySeed
	const batch = 2048
	for base := uint64(0); base < 60000 && len(out) < n; base += batch {
		res := make([]*BoundaryKeySeed, batch)
		verifmc.ParallelFor(batch, func(k int) {
			var xi [32]byte
			binary.LittleEndian.PutUint64(xi[:], base+uint64(k))
			h := sha3.NewShake256()
			h.Write(xi[:])
			if p.MLDSA {
				h.Write([]byte{byte(p.K), byte(p.L)})
			}
			var rho [32]byte
			h.Read(rho[:])
			sc := newUniScanner()
			for r := 0; r < p.K; r++ {
				for s := 0; s < p.L; s++ {
					if sc.scan(rho[:], uint16(r<<8|s))>>clsQ&1 == 1 {
						res[k] = &BoundaryKeySeed{base + uint64(k), xi, rho, r, s}
						return
					}
				}
			}
		})
		for _, x := range res {
			if x != nil {
				out = append(out, *x)
			}
		}
	}
	sort.Slice(out, func(i, j int) bool { return out[i].Counter < out[j].Counter })
	if len(out) > n {
		out = out[:n]
	}
	keySeedCache[p.Name] = out
	return out
}
