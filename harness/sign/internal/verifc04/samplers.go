//go:build verif

package verifc04

import (
	"fmt"
	"os"
	"testing"

	"github.com/cloudflare/circl/internal/verifmc"
	ref "github.com/cloudflare/circl/internal/verifref/mldsa"
)

func polyEq(a *P, b *ref.Poly) bool {
	for i := range a {
		if int64(a[i]%Q) != b[i] {
			return false
		}
	}
	return true
}

func normalized(a *P) bool {
	for _, c := range a {
		if c >= Q {
			return false
		}
	}
	return true
}

// Samplers compares ExpandA (scalar and four-way), ExpandS, ExpandMask and SampleInBall with
// Algorithms 29-34 over complete nonce ranges.
func Samplers(t *testing.T, im *Impl) {
	r := verifmc.Start(t, "C04", "samplers-"+im.Name)
	defer r.Finish()
	p := im.start(r)
	thorough := r.Thorough()
	r.Rule("PolyDeriveUniform / X4 / Mat.Derive vs RejNTTPoly / ExpandA, PolyDeriveUniformLeqEta vs RejBoundedPoly, PolyDeriveUniformLeGamma1 / VecL vs ExpandMask, PolyDeriveUniformBall (/X4) vs SampleInBall; " +
		"seeds = fixed alphabet SEEDS(32|64); nonces: quick = all (row,col) < 16x16 for A, 0..255 for S, 0..1023 and the 16-bit wrap for the mask; thorough = all 2^16 nonces for one seed; " +
		"c~ = 2^12 counter values + structured seeds; four-way: every non-empty lane mask; boundary candidates: rho_i = SHAKE256(\"c04-boundary/i\") x all 2^16 nonces scanned until the ExpandA streams contain a consumed candidate == q (4 streams), q-1, q+1, 2^23-1, 0 (3 each) and a refusal at the last position (4), run through the scalar route and the four-way route with the stream in every lane under every mask containing it, plus Mat.Derive on the rho of two key seeds with such a stream; eta sampler on 4096 nonces with floors on where the 256th coefficient comes from; mask sampler on 16384 nonces with floors on extreme coefficients; SampleInBall floors on j == i, j == i+1, j == 0; distinct = (sampler, seed, nonce) ; counters give how many cases rejected at least one candidate / crossed a SHAKE block")
	key := func(fn, class string) string { return "C04|" + im.Name + "|" + fn + "|" + class }
	seeds32 := verifmc.Seeds(32, r.Seed())
	seeds64 := verifmc.Seeds(64, r.Seed())
	r.Set("seeds", len(seeds32))
	r.Set("x4_available", im.X4)

	// ---------------- ExpandA
	type aJob struct {
		si    int
		nonce uint16
	}
	var aJobs []aJob
	for si := range seeds32 {
		if thorough && si == 3 {
			for n := 0; n < 1<<16; n++ {
				aJobs = append(aJobs, aJob{si, uint16(n)})
			}
			continue
		}
		for i := 0; i < 16; i++ {
			for j := 0; j < 16; j++ {
				aJobs = append(aJobs, aJob{si, uint16(i<<8 | j)})
			}
		}
	}
	refA := make([]*ref.Poly, len(aJobs))
	verifmc.ParallelFor(len(aJobs), func(k int) {
		j := aJobs[k]
		id := fmt.Sprintf("uniform/%d/%d", j.si, j.nonce)
		if !r.Want(id) {
			return
		}
		var seed [32]byte
		copy(seed[:], seeds32[j.si])
		want, st := ref.RejNTTPoly(append(append([]byte{}, seed[:]...), byte(j.nonce), byte(j.nonce>>8)))
		refA[k] = want
		var got P
		for i := range got {
			got[i] = 0xdeadbeef
		}
		im.DeriveUniform(&got, &seed, j.nonce)
		r.Eval(1)
		r.Distinct("A", j.si, j.nonce)
		if st.Rejected > 0 {
			r.Count("uniform_cases_with_rejection", 1)
		}
		if st.Rejected > 1 {
			r.Count("uniform_cases_with_2plus_rejections", 1)
		}
		if !polyEq(&got, want) || !normalized(&got) {
			r.Violation(key("PolyDeriveUniform", "differs-from-RejNTTPoly"), id,
				fmt.Sprintf("%s PolyDeriveUniform(seed #%d, nonce %#04x) differs from RejNTTPoly (reference rejected %d candidates)", im.Name, j.si, j.nonce, st.Rejected),
				map[string]interface{}{"seed": verifmc.FullHex(seed[:]), "nonce": j.nonce})
		}
	})
	if im.X4 && !r.Replaying() {
		// groups of four consecutive jobs, all lanes; then every lane mask on the first groups of each seed
		groups := len(aJobs) / 4
		verifmc.ParallelFor(groups, func(g int) {
			js := aJobs[4*g : 4*g+4]
			if js[0].si != js[3].si {
				return
			}
			var seed [32]byte
			copy(seed[:], seeds32[js[0].si])
			masks := []int{15}
			if g%64 == 0 {
				masks = []int{1, 2, 3, 4, 5, 6, 7, 8, 9, 10, 11, 12, 13, 14, 15}
			}
			for _, mask := range masks {
				var ps [4]*P
				var out [4]P
				var nonces [4]uint16
				for l := 0; l < 4; l++ {
					nonces[l] = js[l].nonce
					for i := range out[l] {
						out[l][i] = 0xdeadbeef
					}
					if mask>>uint(l)&1 == 1 {
						ps[l] = &out[l]
					}
				}
				im.DeriveUniformX4(ps, &seed, nonces)
				r.Eval(1)
				r.Distinct("A4", js[0].si, js[0].nonce, mask)
				r.Count("x4_calls", 1)
				for l := 0; l < 4; l++ {
					if ps[l] == nil {
						if out[l][0] != 0xdeadbeef {
							r.Violation(key("PolyDeriveUniformX4", "wrote-nil-lane"), fmt.Sprintf("x4/%d/%d/%d", js[0].si, js[0].nonce, mask), "four-way sampler wrote to a lane that was nil", nil)
						}
						continue
					}
					if !polyEq(&out[l], refA[4*g+l]) || !normalized(&out[l]) {
						r.Violation(key("PolyDeriveUniformX4", "differs-from-RejNTTPoly"), fmt.Sprintf("x4/%d/%d/%d", js[0].si, js[0].nonce, mask),
							fmt.Sprintf("%s PolyDeriveUniformX4 lane %d (mask %04b, seed #%d, nonce %#04x) differs from RejNTTPoly", im.Name, l, mask, js[0].si, nonces[l]),
							map[string]interface{}{"seed": verifmc.FullHex(seed[:]), "nonces": nonces, "mask": mask})
					}
				}
			}
		})
		r.RequireCounter("x4_calls", 100)
	}
	// the whole matrix (lane grouping incl. the nil-padded tail)
	verifmc.ParallelFor(len(seeds32), func(si int) {
		id := fmt.Sprintf("matrix/%d", si)
		if !r.Want(id) {
			return
		}
		var seed [32]byte
		copy(seed[:], seeds32[si])
		got := im.MatDerive(&seed)
		want := ref.ExpandA(p, seed[:])
		r.Eval(1)
		r.Distinct("Mat", si)
		for i := 0; i < p.K; i++ {
			for j := 0; j < p.L; j++ {
				if !polyEq(&got[i][j], want[i][j]) {
					r.Violation(key("Mat.Derive", "differs-from-ExpandA"), id,
						fmt.Sprintf("%s Mat.Derive(seed #%d): entry (%d,%d) differs from ExpandA", im.Name, si, i, j), map[string]interface{}{"seed": verifmc.FullHex(seed[:])})
					return
				}
			}
		}
	})

	// ---------------- ExpandA on boundary candidates (searched streams, see boundary.go)
	if !r.Replaying() || r.Want("boundary") {
		hits, found, streams := boundaryUniformHits()
		r.Set("boundary_streams_scanned", streams)
		for c := 0; c < nCls; c++ {
			r.Count("boundary_streams_"+clsNames[c], found[c])
		}
		x4pairs := 0
		verifmc.ParallelFor(len(hits), func(hi int) {
			h := hits[hi]
			id := "boundary/" + h.id()
			seed := h.Rho
			want, st := ref.RejNTTPoly(append(append([]byte{}, seed[:]...), byte(h.Nonce), byte(h.Nonce>>8)))
			// the reference's own statistics must confirm what the scanner found
			chk := [nCls]bool{st.EqQ > 0, st.EqQm1 > 0, st.EqQp1 > 0, st.EqMax > 0, st.EqZero > 0, st.RejectedAtLast > 0, st.EqQAtLast}
			for c := 0; c < nCls; c++ {
				if (h.Mask>>uint(c)&1 == 1) != chk[c] {
					panic(fmt.Sprintf("harness: scanner and reference disagree on class %s of stream %s", clsNames[c], id))
				}
			}
			var got P
			for i := range got {
				got[i] = 0xdeadbeef
			}
			im.DeriveUniform(&got, &seed, h.Nonce)
			r.Eval(1)
			r.Distinct("Ab", h.RhoIdx, h.Nonce)
			if !polyEq(&got, want) || !normalized(&got) {
				r.Violation(key("PolyDeriveUniform", "differs-from-RejNTTPoly|boundary-candidate"), id,
					fmt.Sprintf("%s PolyDeriveUniform(rho = %x, nonce %#04x) differs from RejNTTPoly on a stream with boundary candidates (q:%d q-1:%d q+1:%d 2^23-1:%d 0:%d refused-at-last:%d)",
						im.Name, seed, h.Nonce, st.EqQ, st.EqQm1, st.EqQp1, st.EqMax, st.EqZero, st.RejectedAtLast),
					map[string]interface{}{"rho": verifmc.FullHex(seed[:]), "nonce": h.Nonce})
			}
			if !im.X4 {
				return
			}
			// four-way: the boundary stream in every lane, under every lane mask that contains the lane
			for lane := 0; lane < 4; lane++ {
				var nonces [4]uint16
				var wants [4]*ref.Poly
				for l := 0; l < 4; l++ {
					nonces[l] = h.Nonce + uint16(1+(l+4-lane)%4)
					if l == lane {
						nonces[l] = h.Nonce
					}
					wants[l], _ = ref.RejNTTPoly(append(append([]byte{}, seed[:]...), byte(nonces[l]), byte(nonces[l]>>8)))
				}
				for mask := 1; mask < 16; mask++ {
					if mask>>uint(lane)&1 == 0 {
						continue
					}
					var ps [4]*P
					var out [4]P
					for l := 0; l < 4; l++ {
						for i := range out[l] {
							out[l][i] = 0xdeadbeef
						}
						if mask>>uint(l)&1 == 1 {
							ps[l] = &out[l]
						}
					}
					im.DeriveUniformX4(ps, &seed, nonces)
					r.Eval(1)
					r.Count("boundary_x4_calls", 1)
					r.Distinct("A4b", h.RhoIdx, h.Nonce, lane, mask)
					for l := 0; l < 4; l++ {
						if ps[l] != nil && (!polyEq(&out[l], wants[l]) || !normalized(&out[l])) {
							r.Violation(key("PolyDeriveUniformX4", "differs-from-RejNTTPoly|boundary-candidate"), fmt.Sprintf("%s/lane%d/mask%d", id, lane, mask),
								fmt.Sprintf("%s PolyDeriveUniformX4 lane %d (mask %04b, rho = %x, nonces %v) differs from RejNTTPoly; lane %d carries a stream with boundary candidates (q:%d q-1:%d q+1:%d 2^23-1:%d 0:%d refused-at-last:%d)",
									im.Name, l, mask, seed, nonces, lane, st.EqQ, st.EqQm1, st.EqQp1, st.EqMax, st.EqZero, st.RejectedAtLast),
								map[string]interface{}{"rho": verifmc.FullHex(seed[:]), "nonces": nonces, "mask": mask, "lane": lane})
							break
						}
					}
				}
			}
		})
		_ = x4pairs
		r.RequireCounter("boundary_streams_eq_q", 4)
		r.RequireCounter("boundary_streams_eq_q_minus_1", 3)
		r.RequireCounter("boundary_streams_eq_q_plus_1", 3)
		r.RequireCounter("boundary_streams_eq_2^23-1", 3)
		r.RequireCounter("boundary_streams_eq_0", 3)
		r.RequireCounter("boundary_streams_refused_at_last_position", 4)
		if len(qLastTable) > 0 {
			r.RequireCounter("boundary_streams_eq_q_at_last_position", int64(len(qLastTable)))
		}
		if im.X4 {
			r.RequireCounter("boundary_x4_calls", int64(32*len(hits)))
		}
		// whole matrix and key generation from key seeds whose rho has a stream with z == q
		for _, ks := range BoundaryKeySeeds(p, 2) {
			ks := ks
			got := im.MatDerive(&ks.Rho)
			want := ref.ExpandA(p, ks.Rho[:])
			r.Eval(1)
			r.Count("boundary_matrices", 1)
			r.Distinct("Matb", ks.Counter)
			for i := 0; i < p.K; i++ {
				for j := 0; j < p.L; j++ {
					if !polyEq(&got[i][j], want[i][j]) || !normalized(&got[i][j]) {
						r.Violation(key("Mat.Derive", "differs-from-ExpandA|boundary-candidate"), fmt.Sprintf("boundary/matrix/%d", ks.Counter),
							fmt.Sprintf("%s Mat.Derive(rho = %x, from key seed counter %d): entry (%d,%d) differs from ExpandA; entry (%d,%d) has a candidate equal to q", im.Name, ks.Rho, ks.Counter, i, j, ks.Row, ks.Col),
							map[string]interface{}{"rho": verifmc.FullHex(ks.Rho[:]), "key_seed_counter": ks.Counter})
						i, j = p.K, p.L
					}
				}
			}
			r.Sample(map[string]interface{}{"sampler": "Mat.Derive", "key_seed_counter": ks.Counter, "rho": verifmc.FullHex(ks.Rho[:]), "entry_with_candidate_q": []int{ks.Row, ks.Col}})
		}
		r.RequireCounter("boundary_matrices", 2)
		if os.Getenv("VERIF_C04_SEARCH") != "" {
			var floor [nCls]int
			floor[clsQLast] = 2
			hs, _, n := searchUniform("c04-boundary-last", floor, 1024)
			for _, h := range hs {
				fmt.Printf("QLAST {%d, %d}, // %d streams scanned\n", h.RhoIdx, h.Nonce, n)
			}
		}
	}

	// ---------------- ExpandS
	type sJob struct {
		si    int
		nonce uint16
	}
	var sJobs []sJob
	for si := range seeds64 {
		max := 256
		if si == 0 {
			max = 4096
		}
		if thorough && si == 3 {
			max = 1 << 16
		}
		for n := 0; n < max; n++ {
			sJobs = append(sJobs, sJob{si, uint16(n)})
		}
	}
	verifmc.ParallelFor(len(sJobs), func(k int) {
		j := sJobs[k]
		id := fmt.Sprintf("eta/%d/%d", j.si, j.nonce)
		if !r.Want(id) {
			return
		}
		var seed [64]byte
		copy(seed[:], seeds64[j.si])
		want, st := ref.RejBoundedPoly(p, append(append([]byte{}, seed[:]...), byte(j.nonce), byte(j.nonce>>8)))
		var got P
		for i := range got {
			got[i] = 0xdeadbeef
		}
		im.DeriveUniformLeqEta(&got, &seed, j.nonce)
		r.Eval(1)
		r.Distinct("S", j.si, j.nonce)
		if st.Bytes > 136 {
			r.Count("eta_cases_crossing_block", 1)
		}
		if st.Bytes > 272 {
			r.Count("eta_cases_crossing_two_blocks", 1)
		}
		switch {
		case st.LastFromLow && st.HighDropped:
			r.Count("eta_last_coefficient_from_low_halfbyte_high_acceptable_but_dropped", 1)
		case st.LastFromLow:
			r.Count("eta_last_coefficient_from_low_halfbyte_high_refused", 1)
		default:
			r.Count("eta_last_coefficient_from_high_halfbyte", 1)
		}
		if st.LastByte%136 == 135 {
			r.Count("eta_last_coefficient_from_last_byte_of_a_block", 1)
		}
		if st.LastByte%136 == 0 {
			r.Count("eta_last_coefficient_from_first_byte_of_a_block", 1)
		}
		r.Count("eta_edge_halfbytes", st.Edge)
		if !polyEq(&got, want) {
			r.Violation(key("PolyDeriveUniformLeqEta", "differs-from-RejBoundedPoly"), id,
				fmt.Sprintf("%s PolyDeriveUniformLeqEta(seed #%d, nonce %d) differs from RejBoundedPoly (%d bytes squeezed)", im.Name, j.si, j.nonce, st.Bytes),
				map[string]interface{}{"seed": verifmc.FullHex(seed[:]), "nonce": j.nonce})
		}
	})
	r.RequireCounter("eta_cases_crossing_block", 10)
	r.RequireCounter("eta_last_coefficient_from_low_halfbyte_high_acceptable_but_dropped", 20)
	r.RequireCounter("eta_last_coefficient_from_low_halfbyte_high_refused", 20)
	r.RequireCounter("eta_last_coefficient_from_high_halfbyte", 20)
	if p.Eta == 2 {
		// 256 coefficients need 136.5 bytes on average: the end of the first 136-byte block is the typical stopping place.
		// (For eta = 4 the stream stops around byte 228 +- 10, far from both block ends.)
		r.RequireCounter("eta_last_coefficient_from_last_byte_of_a_block", 3)
		r.RequireCounter("eta_last_coefficient_from_first_byte_of_a_block", 3)
	}
	r.RequireCounter("eta_edge_halfbytes", 1000)

	// ---------------- ExpandMask
	var mJobs []sJob
	for si := range seeds64 {
		if thorough && si == 3 {
			for n := 0; n < 1<<16; n++ {
				mJobs = append(mJobs, sJob{si, uint16(n)})
			}
			continue
		}
		mmax := 1024
		if si == 1 {
			mmax = 16384
		}
		for n := 0; n < mmax; n++ {
			mJobs = append(mJobs, sJob{si, uint16(n)})
		}
		for n := 65536 - 16; n < 65536; n++ {
			mJobs = append(mJobs, sJob{si, uint16(n)})
		}
	}
	verifmc.ParallelFor(len(mJobs), func(k int) {
		j := mJobs[k]
		id := fmt.Sprintf("mask/%d/%d", j.si, j.nonce)
		if !r.Want(id) {
			return
		}
		var seed [64]byte
		copy(seed[:], seeds64[j.si])
		want := ref.ExpandMaskPoly(p, seed[:], int(j.nonce))
		var got P
		for i := range got {
			got[i] = 0xdeadbeef
		}
		im.DeriveUniformLeGamma1(&got, &seed, j.nonce)
		r.Eval(1)
		r.Distinct("M", j.si, j.nonce)
		for _, c := range want {
			switch c {
			case int64(p.Gamma1):
				r.Count("mask_coefficients_eq_gamma1", 1)
			case int64(Q - p.Gamma1 + 1):
				r.Count("mask_coefficients_eq_minus_gamma1_plus_1", 1)
			case 0:
				r.Count("mask_coefficients_eq_0", 1)
			}
		}
		if !polyEq(&got, want) || !normalized(&got) {
			r.Violation(key("PolyDeriveUniformLeGamma1", "differs-from-ExpandMask"), id,
				fmt.Sprintf("%s PolyDeriveUniformLeGamma1(seed #%d, nonce %d) differs from ExpandMask", im.Name, j.si, j.nonce),
				map[string]interface{}{"seed": verifmc.FullHex(seed[:]), "nonce": j.nonce})
		}
		if j.nonce%uint16(p.L) == 0 || j.nonce > 65500 {
			wv := ref.ExpandMask(p, seed[:], int(j.nonce))
			gv := im.VecLDeriveUniformLeGamma1(&seed, j.nonce)
			r.Eval(1)
			for i := range gv {
				if !polyEq(&gv[i], wv[i]) {
					r.Violation(key("VecLDeriveUniformLeGamma1", "differs-from-ExpandMask"), id,
						fmt.Sprintf("%s VecLDeriveUniformLeGamma1(seed #%d, kappa %d): component %d differs from ExpandMask", im.Name, j.si, j.nonce, i),
						map[string]interface{}{"seed": verifmc.FullHex(seed[:]), "nonce": j.nonce})
					break
				}
			}
		}
	})

	r.RequireCounter("mask_coefficients_eq_gamma1", 2)
	r.RequireCounter("mask_coefficients_eq_minus_gamma1_plus_1", 2)
	r.RequireCounter("mask_coefficients_eq_0", 2)

	// ---------------- SampleInBall
	var cts [][]byte
	for i := 0; i < 1<<12; i++ {
		c := make([]byte, p.CTilde)
		c[0], c[1] = byte(i), byte(i>>8)
		cts = append(cts, c)
	}
	for i := 0; i < 256; i++ { // counter in the last byte (all of c~ must be absorbed)
		c := make([]byte, p.CTilde)
		c[p.CTilde-1] = byte(i)
		cts = append(cts, c)
	}
	cts = append(cts, verifmc.Seeds(p.CTilde, r.Seed())...)
	verifmc.ParallelFor(len(cts), func(k int) {
		id := fmt.Sprintf("ball/%d", k)
		if !r.Want(id) {
			return
		}
		want, st := ref.SampleInBall(p, cts[k])
		var got P
		for i := range got {
			got[i] = 0xdeadbeef
		}
		im.DeriveUniformBall(&got, cts[k])
		r.Eval(1)
		r.Distinct("B", k)
		if st.Rejected > 0 {
			r.Count("ball_cases_with_rejection", 1)
		}
		r.Count("ball_rejected_bytes", st.Rejected)
		r.Count("ball_draws_j_eq_i_accepted", st.SelfSwap)
		r.Count("ball_draws_j_eq_i_plus_1_refused", st.RejectByOne)
		r.Count("ball_draws_j_eq_0", st.ZeroPos)
		if st.Bytes > 136 {
			r.Count("ball_cases_crossing_block", 1)
		}
		if !polyEq(&got, want) || !normalized(&got) {
			r.Violation(key("PolyDeriveUniformBall", "differs-from-SampleInBall"), id,
				fmt.Sprintf("%s PolyDeriveUniformBall(c~ = %x) differs from SampleInBall (%d rejections)", im.Name, cts[k], st.Rejected), map[string]interface{}{"ctilde": verifmc.FullHex(cts[k])})
		}
		if im.X4 && k%16 == 0 {
			for _, mask := range []int{15, 5, 8} {
				var ps [4]*P
				var out [4]P
				for l := 0; l < 4; l++ {
					if mask>>uint(l)&1 == 1 {
						ps[l] = &out[l]
					}
				}
				im.DeriveUniformBallX4(ps, cts[k])
				r.Eval(1)
				for l := 0; l < 4; l++ {
					if ps[l] != nil && !polyEq(&out[l], want) {
						// not called by Sign/Verify ("currently not used"); own key
						r.Violation(key("PolyDeriveUniformBallX4-unused", "differs-from-SampleInBall"), id,
							fmt.Sprintf("%s PolyDeriveUniformBallX4 lane %d (mask %04b, c~ = %x) differs from SampleInBall; the function is not called by the scheme", im.Name, l, mask, cts[k]), nil)
					}
				}
			}
		}
	})
	r.RequireCounter("ball_cases_with_rejection", 100)
	r.RequireCounter("ball_draws_j_eq_i_accepted", 100)
	r.RequireCounter("ball_draws_j_eq_i_plus_1_refused", 100)
	r.RequireCounter("ball_draws_j_eq_0", 100)
	r.RequireCounter("uniform_cases_with_rejection", 10)
	r.Sample(map[string]interface{}{"sampler": "PolyDeriveUniform", "seed": verifmc.FullHex(seeds32[3]), "nonce": "0x0000..0x0f0f (row<<8|col)"})
	r.Sample(map[string]interface{}{"sampler": "PolyDeriveUniformBall", "ctilde": verifmc.FullHex(cts[1])})
	if !thorough {
		r.NotExhaustive("quick tier: the full 2^16 nonce range of one seed is enumerated in the thorough tier only")
	}
}
