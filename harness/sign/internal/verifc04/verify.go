//go:build verif

package verifc04

import (
	"bytes"
	"fmt"
	"os"
	"testing"

	"github.com/cloudflare/circl/internal/verifmc"
	ref "github.com/cloudflare/circl/internal/verifref/mldsa"
)

// boundaryTable locates, for the fixed verification key (seed #3) and message
// "verif-forge-<msg>", the attempt of the signing loop whose z has infinity norm exactly
// gamma1-beta (index 0: must be refused) resp. gamma1-beta-1 (index 1: must be accepted) while
// every other condition holds. Found by Verify's own search (VERIF_C04_SEARCH=1 prints it; the
// thorough tier re-derives the entries by searching); at run time the entry is only a hint: the
// reference re-executes that attempt and the harness fails as broken if it does not have the
// stated norm.
var boundaryTable = map[string][2][2]int{
	"Dilithium2": {{0, 628}, {0, 916}},
	"Dilithium3": {{3, 350}, {1, 607}},
	"Dilithium5": {{0, 324}, {0, 891}},
	"ML-DSA-44":  {{0, 82}, {0, 720}},
	"ML-DSA-65":  {{0, 1312}, {2, 1744}},
	"ML-DSA-87":  {{0, 1016}, {1, 326}},
}

func forgeMsg(p *ref.Params, i int) []byte {
	m := []byte(fmt.Sprintf("verif-forge-%d", i))
	if p.MLDSA {
		m, _ = ref.FormatMessage(m, []byte("forge"))
	}
	return m
}

// searchBoundary looks for a boundary-norm attempt: messages in batches of 16 (in parallel), the
// lowest message index of the first batch that has a hit wins, so the result is deterministic.
func searchBoundary(p *ref.Params, sk []byte, target int64, maxMsg, maxAtt int) (msg, att int, sig []byte) {
	type res struct {
		att int
		sig []byte
	}
	for base := 0; base < maxMsg; base += 16 {
		out := make([]res, 16)
		verifmc.ParallelFor(16, func(i int) {
			s, tr := ref.SignInternalMode(p, sk, forgeMsg(p, base+i), make([]byte, 32), ref.SignMode{ZNorm: target, MaxAttempts: maxAtt})
			if s != nil {
				out[i] = res{tr.Attempts - 1, s}
			}
		})
		for i := range out {
			if out[i].sig != nil {
				return base + i, out[i].att, out[i].sig
			}
		}
	}
	return -1, -1, nil
}

type alt struct {
	id     string
	family string
	mp     []byte
	sig    []byte
	pk     []byte // nil = the base key
}

// Verify compares the verification verdict with Verify_internal on complete families of
// alterations of an honest signature, on boundary-norm signatures made by a signer that ignores
// the z bound, and on altered messages and public keys.
func Verify(t *testing.T, im *Impl) {
	r := verifmc.Start(t, "C04", "verify-"+im.Name)
	defer r.Finish()
	p := im.start(r)
	r.Rule("base = honest signature (reference) under key SEEDS[3]; alterations, each family complete: every z coefficient (all l*256 positions) := +-(gamma1-beta), +-(gamma1-beta-1), gamma1, -gamma1+1; " +
		"every byte of the hint section := every value; every adjacent transposition of hint indices; c~: every bit flip; every truncation and four extensions; every bit flip of rho and of the first/last t1 coefficient of each row; " +
		"M' bit flips; plus signatures whose z has norm exactly gamma1-beta (refuse) and gamma1-beta-1 (accept) built by a signer without the z bound; oracle = verdict of Verify_internal incl. the length rule of FIPS 204 3.6.2; " +
		"distinct = (family, site, value)")
	key := func(class, fam string) string { return "C04|" + im.Name + "|Verify|" + class + "|" + fam }

	var seed [32]byte
	copy(seed[:], verifmc.Seeds(32, 0)[3])
	pk, sk := ref.KeyGen(p, seed[:])
	k := im.KeyFromBytes(pk, sk)
	ver := ref.NewVerifier(p, pk)

	// base message: first counter message whose hint has >= 2 polynomials with >= 2 indices and some padding
	var mp, sig []byte
	for i := 0; ; i++ {
		mp = []byte(fmt.Sprintf("verif-c04-verify-%d", i))
		if p.MLDSA {
			mp, _ = ref.FormatMessage(mp, []byte("ctx"))
		}
		sig, _ = ref.SignInternal(p, sk, mp, make([]byte, 32))
		hb := sig[len(sig)-p.Omega-p.K:]
		multi, prev := 0, 0
		for j := 0; j < p.K; j++ {
			if int(hb[p.Omega+j])-prev >= 2 {
				multi++
			}
			prev = int(hb[p.Omega+j])
		}
		if multi >= 2 && prev < p.Omega-1 && prev > 4 {
			break
		}
		if i > 1000 {
			t.Fatal("harness: no base signature with a suitable hint found")
		}
	}
	if ver.VerifyInternal(mp, sig) != ref.OK {
		t.Fatal("harness: reference refuses its own base signature")
	}
	c := p.Gamma1Bits()
	zoff := p.CTilde * 8
	hoff := p.CTilde + p.L*32*c
	hs := p.Omega + p.K
	g1, beta := p.Gamma1, p.Beta()

	var alts []alt
	add := func(fam, id string, s []byte) {
		alts = append(alts, alt{id: fam + "/" + id, family: fam, mp: mp, sig: s})
	}
	add("honest", "base", sig)
	// z coefficients
	zvals := []struct {
		name string
		v    int
	}{{"+bound", g1 - beta}, {"-bound", -(g1 - beta)}, {"+bound-1", g1 - beta - 1}, {"-bound+1", -(g1 - beta - 1)}, {"+gamma1", g1}, {"-gamma1+1", -g1 + 1}}
	for l := 0; l < p.L; l++ {
		for j := 0; j < N; j++ {
			for _, zv := range zvals {
				s := append([]byte{}, sig...)
				setBits(s, zoff+(l*N+j)*c, c, uint32(g1-zv.v))
				add("z"+zv.name, fmt.Sprintf("%d/%d", l, j), s)
			}
		}
	}
	// hint bytes
	for at := 0; at < hs; at++ {
		for v := 0; v < 256; v++ {
			if sig[hoff+at] == byte(v) {
				continue
			}
			s := append([]byte{}, sig...)
			s[hoff+at] = byte(v)
			fam := "hint-index"
			if at >= p.Omega {
				fam = "hint-count"
			} else if at >= int(sig[hoff+hs-1]) {
				fam = "hint-padding"
			}
			add(fam, fmt.Sprintf("%d/%d", at, v), s)
		}
	}
	for at := 0; at+1 < int(sig[hoff+hs-1]); at++ {
		s := append([]byte{}, sig...)
		s[hoff+at], s[hoff+at+1] = s[hoff+at+1], s[hoff+at]
		add("hint-transpose", fmt.Sprintf("%d", at), s)
	}
	// c~
	for b := 0; b < p.CTilde*8; b++ {
		add("ctilde-bit", fmt.Sprintf("%d", b), verifmc.Flip(sig, b))
	}
	// lengths
	verifmc.Truncations(sig, func(n int, d []byte) {
		if n%97 == 0 || n >= len(sig)-p.Omega-p.K-2 || n < 2 {
			add("truncate", fmt.Sprintf("%d", n), append([]byte{}, d...))
		}
	})
	for _, a := range verifmc.Appends(sig) {
		add("append", a.Name, a.Data)
	}
	// messages
	for _, b := range []int{0, 7, len(mp)*8 - 1} {
		alts = append(alts, alt{id: fmt.Sprintf("message-bit/%d", b), family: "message-bit", mp: verifmc.Flip(mp, b), sig: sig})
	}
	alts = append(alts, alt{id: "message-empty/x", family: "message-empty", mp: []byte{}, sig: sig})
	// public keys
	t1sz := 320
	var pkbits []int
	for b := 0; b < 256; b++ {
		pkbits = append(pkbits, b)
	}
	for row := 0; row < p.K; row++ {
		for b := 0; b < 10; b++ {
			pkbits = append(pkbits, (32+row*t1sz)*8+b, (32+(row+1)*t1sz)*8-10+b)
		}
	}
	for _, b := range pkbits {
		alts = append(alts, alt{id: fmt.Sprintf("pk-bit/%d", b), family: "pk-bit", mp: mp, sig: sig, pk: verifmc.Flip(pk, b)})
	}

	// boundary-norm signatures
	for ti, target := range []int64{int64(g1 - beta), int64(g1 - beta - 1)} {
		var fs []byte
		var fmp []byte
		ent, have := boundaryTable[p.Name]
		if os.Getenv("VERIF_C04_SEARCH") != "" || r.Thorough() || !have {
			mi, att, s := searchBoundary(p, sk, target, 64, 3000)
			if s == nil {
				t.Fatalf("harness: no attempt with ||z|| = %d found for %s", target, p.Name)
			}
			if os.Getenv("VERIF_C04_SEARCH") != "" {
				fmt.Printf("BOUNDARY %q target %d: {%d, %d}\n", p.Name, ti, mi, att)
			}
			if have && (ent[ti][0] != mi || ent[ti][1] != att) {
				t.Fatalf("harness: boundary table entry for %s/%d is {%d,%d}, search finds {%d,%d}", p.Name, ti, ent[ti][0], ent[ti][1], mi, att)
			}
			fs, fmp = s, forgeMsg(p, mi)
		} else {
			fmp = forgeMsg(p, ent[ti][0])
			fs, _ = ref.SignInternalMode(p, sk, fmp, make([]byte, 32), ref.SignMode{ZNorm: target, StartAttempt: ent[ti][1], MaxAttempts: ent[ti][1] + 1})
			if fs == nil {
				t.Fatalf("harness: boundary table entry for %s/%d does not reproduce", p.Name, ti)
			}
		}
		fam := "z-norm-exactly-bound"
		if ti == 1 {
			fam = "z-norm-bound-minus-1"
		}
		alts = append(alts, alt{id: fam + "/forged", family: fam, mp: fmp, sig: fs})
		r.Sample(map[string]interface{}{"family": fam, "mprime": verifmc.Hex(fmp), "sig": verifmc.Hex(fs), "z_norm": target})
	}
	r.Set("alterations", len(alts))

	type verdict struct {
		done     bool
		got      bool
		want     ref.Verdict
		panicked string
	}
	res := make([]verdict, len(alts))
	verifmc.ParallelFor(len(alts), func(ai int) {
		a := alts[ai]
		if !r.Want(a.id) {
			return
		}
		kk, vv := k, ver
		if a.pk != nil {
			kk, vv = im.KeyFromBytes(a.pk, nil), ref.NewVerifier(p, a.pk)
		}
		v := verdict{done: true, want: vv.VerifyInternal(a.mp, a.sig)}
		if pn, what := verifmc.Try(func() { v.got = kk.Verify(a.mp, a.sig) }); pn {
			v.panicked = what
		}
		res[ai] = v
		r.Eval(1)
		r.Distinct(a.id)
	})
	// report in enumeration order so that the recorded case of a key is the same on every run
	for ai, v := range res {
		a := alts[ai]
		if !v.done {
			continue
		}
		if v.panicked != "" {
			r.Violation(key("panic", a.family), a.id, fmt.Sprintf("%s Verify panicked on %s: %s", im.Name, a.id, v.panicked), map[string]interface{}{"sig": verifmc.FullHex(a.sig), "mprime": verifmc.FullHex(a.mp)})
			continue
		}
		cls := string(v.want)
		if v.want == ref.OK {
			cls = "valid"
		}
		r.Outcome("spec:" + cls)
		r.Count("spec_"+cls, 1)
		if v.got != (v.want == ref.OK) {
			if v.got {
				r.Violation(key("accepts-invalid|"+cls, a.family), a.id,
					fmt.Sprintf("%s Verify accepts a signature that Verify_internal refuses (%s): alteration %s of an honest signature (|sig|=%d, specified %d)", im.Name, cls, a.id, len(a.sig), p.SigSize()),
					map[string]interface{}{"pk": verifmc.FullHex(pk), "alt_pk": verifmc.FullHex(a.pk), "mprime": verifmc.FullHex(a.mp), "sig": verifmc.FullHex(a.sig)})
			} else {
				r.Violation(key("refuses-valid", a.family), a.id,
					fmt.Sprintf("%s Verify refuses a signature that Verify_internal accepts: %s", im.Name, a.id),
					map[string]interface{}{"pk": verifmc.FullHex(pk), "alt_pk": verifmc.FullHex(a.pk), "mprime": verifmc.FullHex(a.mp), "sig": verifmc.FullHex(a.sig)})
			}
		}
	}
	if len(alts) > 0 && !r.Replaying() {
		r.Sample(map[string]interface{}{"family": "honest", "mprime": verifmc.Hex(mp), "sig": verifmc.Hex(sig)})
	}
	r.RequireCounter("spec_valid", 2)
	r.RequireCounter("spec_norm", int64(2*p.L*N))
	r.RequireCounter("spec_hint", 1000)
	r.RequireCounter("spec_ctilde", int64(2*p.L*N))
	r.RequireCounter("spec_length", 10)
	_ = bytes.Equal
	r.NotExhaustive("one base signature per parameter set; the alteration families listed in the rule are complete on it, other signatures / keys are outside the alphabet")
}
