//go:build verif

package verifc04

import (
	"fmt"
	"sync/atomic"
	"testing"

	"github.com/cloudflare/circl/internal/verifmc"
	ref "github.com/cloudflare/circl/internal/verifref/mldsa"
)

func chunks(n int, f func(lo int)) {
	cs := (n + N - 1) / N
	const per = 1024
	groups := (cs + per - 1) / per
	verifmc.ParallelFor(groups, func(g int) {
		for c := g * per; c < (g+1)*per && c < cs; c++ {
			f(c * N)
		}
	})
}

// Rounding decides Decompose, UseHint and MakeHint of one parameter set on their whole domains,
// through the exported polynomial-level entry points (the ones Sign and Verify call). The unexported
// scalar helpers have their own units (ScalarDecompose, ScalarUseHint, ScalarMakeHint) in files of
// their own, so that renaming one of them costs only that helper's sweep.
func Rounding(t *testing.T, im *Impl) {
	r := verifmc.Start(t, "C04", "rounding-"+im.Name)
	defer r.Finish()
	p := im.start(r)
	g2 := p.Gamma2
	m := (Q - 1) / (2 * g2)
	zmax := 2*g2 - p.Beta() - 2
	r.Rule(fmt.Sprintf("PolyDecompose on every r in [0,q); PolyUseHint on every (r,h) in [0,q) x {0,1} (hint polynomials all-0, all-1 and alternating); "+
		"PolyMakeHint on every (r1, z0) with r1 in [0,%d) and |z0| <= 2*gamma2-beta-2 = %d, which is every pair the signing loop can form (z0 = LowBits(w-cs2)+ct0); "+
		"oracle = FIPS 204 Algorithms 36, 39, 40 via MakeHint(-ct0, r+ct0) = [HighBits(r1*alpha+z0) != r1]; distinct = (function, 2^16-aligned block, hint pattern / r1), point counts in counters", m, zmax))
	r.Set("gamma2", g2)
	r.Set("m", m)
	key := func(fn, class string) string { return "C04|" + im.Name + "|" + fn + "|" + class }
	inReplay := func(lo int) bool {
		if !r.Replaying() {
			return true
		}
		var name string
		var x int
		s := []byte(r.ReplayCase())
		for i := range s {
			if s[i] == '/' {
				s[i] = ' '
			}
		}
		if n, _ := fmt.Sscanf(string(s), "%s %d", &name, &x); n == 2 {
			return x&^(N-1) == lo
		}
		return true
	}

	// Decompose
	chunks(Q, func(lo int) {
		if !inReplay(lo) {
			return
		}
		var a, a0, a1 P
		for i := range a {
			a[i] = uint32(lo + i)
			if a[i] >= Q {
				a[i] = Q - 1
			}
		}
		im.PolyDecompose(&a, &a0, &a1)
		for i := range a {
			r1, r0 := ref.Decompose(g2, int64(a[i]))
			if int64(a1[i]) != r1 || int64(a0[i]) != Q+r0 {
				r.Violation(key("PolyDecompose", "differs-from-Algorithm-36"), fmt.Sprintf("decompose/%d", a[i]),
					fmt.Sprintf("%s PolyDecompose(%d) = (r1=%d, r0+q=%d), Algorithm 36 gives (r1=%d, r0=%d)", im.Name, a[i], a1[i], a0[i], r1, r0), map[string]interface{}{"r": a[i]})
			}
			if r1 == 0 && r0 < 0 && a[i] > Q/2 {
				r.Count("decompose_corner_points", 1)
			}
		}
		r.Eval(1)
		if lo&0xffff == 0 {
			r.Distinct("decompose", lo>>16)
		}
	})
	r.Count("points_decompose", Q)
	r.RequireCounter("decompose_corner_points", int64(g2))

	// UseHint
	chunks(Q, func(lo int) {
		if !inReplay(lo) {
			return
		}
		var a, out P
		for i := range a {
			a[i] = uint32(lo + i)
			if a[i] >= Q {
				a[i] = Q - 1
			}
		}
		for pat := 0; pat < 3; pat++ {
			var h P
			for i := range h {
				switch pat {
				case 1:
					h[i] = 1
				case 2:
					h[i] = uint32(i+lo/N) & 1
				}
			}
			for i := range out {
				out[i] = 0xdeadbeef
			}
			im.PolyUseHint(&out, &a, &h)
			for i := range a {
				want := ref.UseHint(g2, int64(h[i]), int64(a[i]))
				if int64(out[i]) != want {
					r.Violation(key("PolyUseHint", fmt.Sprintf("differs-from-Algorithm-40|h=%d", h[i])), fmt.Sprintf("usehint/%d/%d", a[i], h[i]),
						fmt.Sprintf("%s PolyUseHint(h=%d, r=%d) = %d, Algorithm 40 gives %d", im.Name, h[i], a[i], out[i], want), map[string]interface{}{"r": a[i], "h": h[i]})
				}
			}
			r.Eval(1)
		}
		if lo&0xffff == 0 {
			r.Distinct("usehint", lo>>16)
		}
	})
	r.Count("points_UseHint", 2*Q)

	// MakeHint on the reachable (r1, z0) set
	width := 2*zmax + 1
	for r1 := 0; r1 < m; r1++ {
		r1 := r1
		chunks(width, func(lo int) {
			var z0, r1p, h P
			for i := range z0 {
				c := lo + i - zmax
				if c > zmax {
					c = zmax
				}
				z0[i] = uint32(ref.Mod(int64(c)))
				r1p[i] = uint32(r1)
			}
			pop := im.PolyMakeHint(&h, &z0, &r1p)
			sum := uint32(0)
			for i := range z0 {
				want := uint32(0)
				if ref.HighBits(g2, int64(r1)*int64(2*g2)+int64(z0[i])) != int64(r1) {
					want = 1
				}
				sum += want
				if h[i] != want {
					r.Violation(key("PolyMakeHint", "differs-from-Algorithm-39"), fmt.Sprintf("makehint/%d/%d", z0[i], r1),
						fmt.Sprintf("%s PolyMakeHint(z0=%d, r1=%d) = %d, but HighBits(r1*alpha+z0) = %d so FIPS 204 MakeHint gives %d", im.Name, z0[i], r1, h[i], ref.HighBits(g2, int64(r1)*int64(2*g2)+int64(z0[i])), want),
						map[string]interface{}{"z0": z0[i], "r1": r1})
				}
			}
			if pop != sum && r.NumViolations() == 0 {
				r.Violation(key("PolyMakeHint", "popcount"), fmt.Sprintf("makehint/%d/%d", z0[0], r1),
					fmt.Sprintf("%s PolyMakeHint returned weight %d for a hint polynomial of weight %d", im.Name, pop, sum), nil)
			}
			r.Count("makehint_ones", int(sum))
			r.Eval(1)
			if lo&0xffff == 0 {
				r.Distinct("makehint", r1, lo>>16)
			}
		})
	}
	r.Count("points_MakeHint", width*m)
	r.RequireCounter("makehint_ones", 1)
	r.Sample(map[string]interface{}{"fn": "decompose", "r": Q - 1, "want": "r1=0, r0=-1 (corner r - r0 = q-1)"})
	r.Sample(map[string]interface{}{"fn": "makeHint", "z0": Q - g2, "r1": 0, "want": 0, "note": "z0 = -gamma2 with r1 = 0 is the corner where no carry happens"})
}

func scalarStart(t *testing.T, unit, name string) (*verifmc.Run, *ref.Params) {
	r := verifmc.Start(t, "C04", unit+"-"+name)
	p := ref.ByName(name)
	if p == nil {
		t.Fatalf("harness: unknown parameter set %q", name)
	}
	r.Set("parameter_set", name)
	return r, p
}

// ScalarDecompose sweeps the unexported scalar decompose(a) over [0,q) against Algorithm 36.
func ScalarDecompose(t *testing.T, name string, decompose func(a uint32) (a0plusQ, a1 uint32)) {
	r, p := scalarStart(t, "scalar-decompose", name)
	defer r.Finish()
	r.Rule("unexported scalar decompose on every r in [0,q); oracle = Algorithm 36; distinct = 2^16-aligned block, point count in counters")
	g2 := p.Gamma2
	chunks(Q, func(lo int) {
		for i := 0; i < N && lo+i < Q; i++ {
			a := uint32(lo + i)
			r1, r0 := ref.Decompose(g2, int64(a))
			s0, s1 := decompose(a)
			if int64(s1) != r1 || int64(s0) != Q+r0 {
				r.Violation("C04|"+name+"|decompose|differs-from-Algorithm-36", fmt.Sprintf("decompose/%d", a),
					fmt.Sprintf("%s decompose(%d) = (r1=%d, r0+q=%d), Algorithm 36 gives (r1=%d, r0=%d)", name, a, s1, s0, r1, r0), map[string]interface{}{"r": a})
			}
		}
		r.Eval(N)
		if lo&0xffff == 0 {
			r.Distinct("decompose", lo>>16)
		}
	})
	r.Count("points_decompose", Q)
	r.Sample(map[string]interface{}{"fn": "decompose", "r": Q - 1, "want": "r1=0, r0=-1"})
}

// ScalarUseHint sweeps the unexported scalar useHint(r, h) over [0,q) x {0,1} against Algorithm 40.
// Sign and Verify do not call it (they go through PolyUseHint).
func ScalarUseHint(t *testing.T, name string, useHint func(rp, hint uint32) uint32) {
	r, p := scalarStart(t, "scalar-usehint", name)
	defer r.Finish()
	r.Rule("unexported scalar useHint on every (r,h) in [0,q) x {0,1}; oracle = Algorithm 40; distinct = 2^16-aligned block; the smallest differing point is reported")
	g2 := p.Gamma2
	var bad, min atomic.Int64
	min.Store(2 * Q)
	chunks(Q, func(lo int) {
		for i := 0; i < N && lo+i < Q; i++ {
			a := uint32(lo + i)
			for h := uint32(0); h < 2; h++ {
				if got := useHint(a, h); int64(got) != ref.UseHint(g2, int64(h), int64(a)) {
					bad.Add(1)
					for {
						cur, v := min.Load(), int64(a)*2+int64(h)
						if v >= cur || min.CompareAndSwap(cur, v) {
							break
						}
					}
				}
			}
		}
		r.Eval(2 * N)
		if lo&0xffff == 0 {
			r.Distinct("usehint", lo>>16)
		}
	})
	r.Count("points_UseHint", 2*Q)
	r.Count("scalar_useHint_mismatching_points", int(bad.Load()))
	if v := min.Load(); v < 2*Q {
		x, h := v/2, v%2
		got, want := useHint(uint32(x), uint32(h)), ref.UseHint(g2, h, x)
		r.Violation("C04|"+name+"|useHint-scalar|"+fmt.Sprintf("differs-from-Algorithm-40|h=%d", h), fmt.Sprintf("usehint/%d/%d", x, h),
			fmt.Sprintf("%s scalar useHint(r=%d, h=%d) = %d, Algorithm 40 gives %d; %d of the 2q points differ (unexported helper: Verify goes through PolyUseHint)", name, x, h, got, want, bad.Load()),
			map[string]interface{}{"r": x, "h": h})
	}
	r.Sample(map[string]interface{}{"fn": "useHint", "r": 0, "h": 1, "want": (Q-1)/(2*g2) - 1})
}

// ScalarMakeHint sweeps the unexported scalar makeHint(z0, r1) over every pair the signing loop can form.
func ScalarMakeHint(t *testing.T, name string, makeHint func(z0, r1 uint32) uint32) {
	r, p := scalarStart(t, "scalar-makehint", name)
	defer r.Finish()
	g2 := p.Gamma2
	m := (Q - 1) / (2 * g2)
	zmax := 2*g2 - p.Beta() - 2
	r.Rule(fmt.Sprintf("unexported scalar makeHint on every (r1, z0), r1 in [0,%d), |z0| <= 2*gamma2-beta-2 = %d; oracle = [HighBits(r1*alpha+z0) != r1] (Algorithm 39 as used by Sign); distinct = (r1, 2^16-aligned block)", m, zmax))
	width := 2*zmax + 1
	for r1 := 0; r1 < m; r1++ {
		r1 := r1
		chunks(width, func(lo int) {
			ones := 0
			for i := 0; i < N && lo+i < width; i++ {
				z0 := uint32(ref.Mod(int64(lo + i - zmax)))
				want := uint32(0)
				if ref.HighBits(g2, int64(r1)*int64(2*g2)+int64(z0)) != int64(r1) {
					want = 1
				}
				ones += int(want)
				if got := makeHint(z0, uint32(r1)); got != want {
					r.Violation("C04|"+name+"|makeHint|differs-from-Algorithm-39", fmt.Sprintf("makehint/%d/%d", z0, r1),
						fmt.Sprintf("%s makeHint(z0=%d, r1=%d) = %d, FIPS 204 MakeHint gives %d", name, z0, r1, got, want), map[string]interface{}{"z0": z0, "r1": r1})
				}
			}
			r.Count("makehint_ones", ones)
			r.Eval(N)
			if lo&0xffff == 0 {
				r.Distinct("makehint", r1, lo>>16)
			}
		})
	}
	r.Count("points_MakeHint", width*m)
	r.RequireCounter("makehint_ones", 1)
	r.Sample(map[string]interface{}{"fn": "makeHint", "z0": Q - g2, "r1": 0, "want": 0})
}

// Chunks64 runs f(lo) for every 256-aligned chunk start lo in [0, n) in parallel (shared by the
// sweeps of the common dilithium package).
func Chunks64(n uint64, f func(lo uint64)) {
	cs := int((n + 255) / 256)
	const per = 4096
	groups := (cs + per - 1) / per
	verifmc.ParallelFor(groups, func(g int) {
		for c := g * per; c < (g+1)*per && c < cs; c++ {
			f(uint64(c) * 256)
		}
	})
}

// ReplayChunk parses a case id "<name>/<x>" and returns the 256-aligned chunk of x (ok=false when not replaying).
func ReplayChunk(r *verifmc.Run) (lo uint64, ok bool) {
	if !r.Replaying() {
		return 0, false
	}
	s := []byte(r.ReplayCase())
	for i := range s {
		if s[i] == '/' {
			s[i] = ' '
		}
	}
	var name string
	var x uint64
	if n, _ := fmt.Sscanf(string(s), "%s %d", &name, &x); n == 2 {
		return x &^ 255, true
	}
	return 0, false
}
