//go:build verif

package bls_test

// C09 for sign/bls: public keys (PublicKey.UnmarshalBinary / Validate /
// MarshalBinary) and signature points (parsed inside Verify and Aggregate)
// for both key groups, over the compressed G1/G2 alphabets of ref/c09ref.

import (
	"bytes"
	"testing"

	GG "github.com/cloudflare/circl/ecc/bls12381"
	"github.com/cloudflare/circl/internal/verifmc"
	"github.com/cloudflare/circl/internal/verifref/c09ref"
	"github.com/cloudflare/circl/internal/verifref/wcurve"
	"github.com/cloudflare/circl/sign/bls"
)

func c09BlsDec(cs []c09ref.Case) []verifmc.DecCase {
	out := make([]verifmc.DecCase, len(cs))
	bases := c09ref.Bases(cs)
	for i, c := range cs {
		out[i] = verifmc.DecCase{Name: c.Name, Class: c.Class, Data: c.Data, Base: bases[i]}
	}
	return out
}

func c09BlsRef(c *wcurve.Curve) func([]byte) verifmc.DecOracle {
	return func(in []byte) verifmc.DecOracle {
		v := c09ref.BLSVerdict(c, in)
		return verifmc.DecOracle{Member: v.Member, Reason: v.Reason}
	}
}

func c09BlsScheme[K bls.KeyGroup](r *verifmc.Run, name string, keyCurve, sigCurve *wcurve.Curve, k K, sub func(sum, first []byte) []byte) {
	flip := r.Pick(1, 11)
	// ---- public keys
	pkCases := c09ref.BLSCases(keyCurve, true, c09ref.BLSOptions{FlipBases: flip, AllAlias: r.Thorough()})
	var sks []*bls.PrivateKey[K]
	for i, seed := range verifmc.SeedsN(32, r.Seed(), 3) {
		sk, err := bls.KeyGen[K](seed, []byte("verif-c09-salt"), []byte("verif-c09-info"))
		if err != nil {
			r.Cap("KeyGen failed on a seed")
			continue
		}
		sks = append(sks, sk)
		enc, _ := sk.PublicKey().MarshalBinary()
		pkCases = append(pkCases, c09ref.Case{Name: "lib/key" + string(rune('0'+i)), Class: "valid-lib", Data: enc})
		back := new(bls.PublicKey[K])
		if err := back.UnmarshalBinary(c09ref.Clone(enc)); err != nil || !back.Equal(sk.PublicKey()) || !back.Validate() {
			r.Violation("C09|bls."+name+".PublicKey.UnmarshalBinary|own-encoding-not-equal|valid-lib", "own-key",
				"a marshalled public key is refused, differs or does not validate", map[string]string{"input": verifmc.FullHex(enc)})
		}
	}
	identity := c09ref.BLSEncode(keyCurve, keyCurve.Infinity(), true)
	msg := []byte("verif-c09 message")
	r.CheckDecoder(verifmc.DecSpec{
		Entry: "bls." + name + ".PublicKey.UnmarshalBinary", Cases: c09BlsDec(pkCases), RefAll: r.Thorough(),
		Ref: c09BlsRef(keyCurve),
		Seq: func(first, second []byte) verifmc.DecResult {
			pk := new(bls.PublicKey[K])
			verifmc.Try(func() { _ = pk.UnmarshalBinary(first) })
			if err := pk.UnmarshalBinary(second); err != nil {
				return verifmc.DecResult{}
			}
			out, _ := pk.MarshalBinary()
			return verifmc.DecResult{Accepted: true, Reenc: out}
		},
		Lib: func(in []byte) verifmc.DecResult {
			pk := new(bls.PublicKey[K])
			if err := pk.UnmarshalBinary(in); err != nil {
				return verifmc.DecResult{}
			}
			out, _ := pk.MarshalBinary()
			res := verifmc.DecResult{Accepted: true, Reenc: out}
			// validation at verification: the identity key must never validate
			if bytes.Equal(out, identity) && pk.Validate() {
				res.Note = "identity-key-validates"
			}
			if !bytes.Equal(out, identity) && !pk.Validate() && bytes.Equal(out, in) {
				r.Count("accepted_key_not_validating", 1)
			}
			return res
		},
	})
	if len(sks) == 0 {
		return
	}
	// ---- signature points, seen through Verify and through Aggregate of one signature
	sk := sks[len(sks)-1]
	sig := bls.Sign(sk, msg)
	sigCases := c09ref.BLSCases(sigCurve, true, c09ref.BLSOptions{FlipBases: flip, AllAlias: r.Thorough()})
	sigCases = append(sigCases, c09ref.Case{Name: "lib/sig", Class: "valid-lib", Data: sig})
	sigCases = append(sigCases, c09ref.Flips("flip/sig", sig)...)
	sigCases = c09ref.Dedup(sigCases)
	r.CheckDecoder(verifmc.DecSpec{
		Entry: "bls." + name + ".Verify/signature", Cases: c09BlsDec(sigCases),
		Ref: c09BlsRef(sigCurve),
		Lib: func(in []byte) verifmc.DecResult {
			if !bls.Verify(sk.PublicKey(), msg, in) {
				return verifmc.DecResult{}
			}
			res := verifmc.DecResult{Accepted: true, Reenc: in}
			if !bytes.Equal(in, sig) {
				// Not a decoding matter (C02/C13 own it): counted and named, not judged here.
				r.Count("other_signature_verifies", 1)
				r.Set("other_signature_verifies:"+name, verifmc.FullHex(in))
			}
			return res
		},
	})
	r.CheckDecoder(verifmc.DecSpec{
		Entry: "bls." + name + ".Aggregate/signature", Cases: c09BlsDec(sigCases), RefAll: r.Thorough(),
		Ref: c09BlsRef(sigCurve),
		// Aggregate decodes every signature into one loop variable: (first, second) is the list [first, second];
		// what second was taken as is the aggregate minus first
		Seq: func(first, second []byte) verifmc.DecResult {
			if _, err := bls.Aggregate(k, []bls.Signature{first}); err != nil {
				// the list is refused because of first: nothing is learnt about second in this order
				out, err := bls.Aggregate(k, []bls.Signature{second})
				if err != nil {
					return verifmc.DecResult{}
				}
				return verifmc.DecResult{Accepted: true, Reenc: out}
			}
			out, err := bls.Aggregate(k, []bls.Signature{first, second})
			if err != nil {
				return verifmc.DecResult{}
			}
			return verifmc.DecResult{Accepted: true, Reenc: sub(out, first)}
		},
		Lib: func(in []byte) verifmc.DecResult {
			out, err := bls.Aggregate(k, []bls.Signature{in})
			if err != nil {
				return verifmc.DecResult{}
			}
			return verifmc.DecResult{Accepted: true, Reenc: out}
		},
	})
}

func TestVerifC09_bls_keys(t *testing.T) {
	r := verifmc.Start(t, "C09", "bls_keys")
	defer r.Finish()
	r.Rule("compressed G1/G2 alphabets of bls_g1/bls_g2 (flips of 1 quick / 11 thorough bases) plus the library's own keys and one honest signature with all its bit flips, " +
		"given to PublicKey.UnmarshalBinary (re-marshal must equal the input, identity never validates), to Verify as the signature (whatever verifies must be a canonical member; a verifying string other than the honest signature is counted, C02 judges it) " +
		"and to Aggregate of a single signature (output must equal the input), for KeyG1SigG2 and KeyG2SigG1; PublicKey.UnmarshalBinary also on a key object that already holds the nearest valid key, and Aggregate on the list [nearest valid signature, case] (its loop variable is reused), and in the opposite orders; distinct = distinct (entry point, input bytes)")
	c09BlsScheme[bls.KeyG1SigG2](r, "KeyG1SigG2", wcurve.BLS12381G1(), wcurve.BLS12381G2(), bls.G1{}, func(sum, first []byte) []byte {
		var S, F GG.G2
		if S.SetBytes(sum) != nil || F.SetBytes(first) != nil {
			return nil
		}
		F.Neg()
		S.Add(&S, &F)
		return S.BytesCompressed()
	})
	c09BlsScheme[bls.KeyG2SigG1](r, "KeyG2SigG1", wcurve.BLS12381G2(), wcurve.BLS12381G1(), bls.G2{}, func(sum, first []byte) []byte {
		var S, F GG.G1
		if S.SetBytes(sum) != nil || F.SetBytes(first) != nil {
			return nil
		}
		F.Neg()
		S.Add(&S, &F)
		return S.BytesCompressed()
	})
	r.RequireCounter("in:nonsubgroup", 70)
	r.RequireCounter("in:flip", 3000)
	r.RequireCounter("in:valid-lib", 10)
	r.RequireCounter("accepted", 50)
}
