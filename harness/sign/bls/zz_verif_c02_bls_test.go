//go:build verif

package bls_test

// C02 for sign/bls: both key groups (keys in G1 / signatures in G2, and the
// converse), single signatures through the scheme-independent enumerator
// c02kit, the serialization flag alphabet, and aggregation for 1-3 signers.
// Oracle: the honest tuple verifies; every altered one is refused; no panic.

import (
	"bytes"
	"fmt"
	"math/big"
	"strings"
	"testing"

	GG "github.com/cloudflare/circl/ecc/bls12381"
	"github.com/cloudflare/circl/internal/verifmc"
	kit "github.com/cloudflare/circl/internal/verifref/c02kit"
	"github.com/cloudflare/circl/sign/bls"
)

var c02BlsAllMsgLens = []int{0, 1, 32, 136, 137, 300}

func c02BlsKey[K bls.KeyGroup](seed []byte) *bls.PrivateKey[K] {
	sk, err := bls.KeyGen[K](seed, []byte("verif-c02-salt"), []byte("verif-c02-info"))
	if err != nil {
		panic(err)
	}
	return sk
}

func c02BlsSubject[K bls.KeyGroup](name string, pkSize, sigSize int) *kit.Subject {
	return &kit.Subject{Name: name, SeedSize: 32, PKSize: pkSize, SigSize: sigSize, Deterministic: true,
		Derive: func(seed []byte) (interface{}, interface{}) {
			sk := c02BlsKey[K](seed)
			return sk.PublicKey(), sk
		},
		EncodePK: func(pk interface{}) []byte {
			b, err := pk.(*bls.PublicKey[K]).MarshalBinary()
			if err != nil {
				panic(err)
			}
			return b
		},
		DecodePK: func(b []byte) (interface{}, error) {
			pk := new(bls.PublicKey[K])
			if err := pk.UnmarshalBinary(b); err != nil {
				return nil, err
			}
			return pk, nil
		},
		Sign: func(sk interface{}, msg []byte, _ string) ([]byte, error) {
			return bls.Sign(sk.(*bls.PrivateKey[K]), msg), nil
		},
		Verify: func(pk interface{}, msg, sig []byte, _ string) bool {
			return bls.Verify(pk.(*bls.PublicKey[K]), msg, sig)
		}}
}

func c02BlsPlan(r *verifmc.Run) kit.Plan {
	p := kit.Plan{AllMsgLens: c02BlsAllMsgLens, SmallLimit: 256, Stride: 16, MsgFlipLimit: 64}
	switch {
	case r.Config() != "default":
		// ecc/bls12381 has no build- or CPU-dependent code; other configurations repeat one base case only
		p.Seeds = []int{3}
		p.MsgLens = []int{33}
	case r.Thorough():
		p.MsgLens = []int{0, 1, 137, 300}
		p.MsgFlipLimit = 512
		p.Pairs = true
	default:
		p.Seeds = []int{0, 3}
		p.MsgLens = []int{0, 33}
	}
	return p
}

// c02BlsFlagAlphabet: the serialization of a point carries three flag bits (compressed, infinity,
// sign) and comes in two lengths. Every flag combination x {honest body, zero body} x {compressed
// length, uncompressed length, one byte more, one byte less} is offered as signature and as public key.
func c02BlsFlagAlphabet(honest []byte, cSize int) []verifmc.Alteration {
	var out []verifmc.Alteration
	for flags := 0; flags < 8; flags++ {
		for bi, body := range [][]byte{honest, make([]byte, cSize)} {
			for _, n := range []int{cSize, 2 * cSize, cSize + 1, 2*cSize + 1, cSize - 1, 2*cSize - 1} {
				b := make([]byte, n)
				copy(b, body)
				b[0] = (b[0] & 0x1f) | byte(flags<<5)
				if bytes.Equal(b, honest) {
					continue
				}
				// input class (goes into the violation key): length relative to what the compression flag announces,
				// infinity flag, zero body. "exact+infinity+zero-body" is a well-formed encoding of the identity.
				announced := 2 * cSize
				if flags&4 != 0 {
					announced = cSize
				}
				kind := "exact"
				if n > announced {
					kind = "overlong"
				} else if n < announced {
					kind = "short"
				}
				if flags&2 != 0 {
					kind += "+infinity"
				}
				if bi == 1 {
					kind += "+zero-body"
				}
				out = append(out, verifmc.Alteration{Name: fmt.Sprintf("%s/flags%03b-body%d-len%d", kind, flags, bi, n), Data: b})
			}
		}
	}
	return out
}

// c02BlsP is the BLS12-381 base field modulus (from the curve's specification, not from circl).
var c02BlsP, _ = new(big.Int).SetString("1a0111ea397fe69a4b1ba7b6434bacd764774b84f38512bf6730d2a0f6b0f6241eabfffeb153ffffb9feffffffffaaab", 16)

// c02BlsCoordAlts: the BLS analogue of S+L. An encoding is a sequence of 48-byte big-endian base-field slots (G1: x [,y];
// G2: x.c1, x.c0 [, y.c1, y.c0]; the top three bits of slot 0 are flags). For the honest compressed and the honest
// uncompressed encoding, every slot is replaced by value + k*p (k = 1, 2 and the largest k that fits the slot: 381 bits
// for slot 0, 384 otherwise) - a non-canonical encoding of the same point - and, uncompressed only, y by -y (the other
// root: the negated point). Names are "<input class>/<detail>".
func c02BlsCoordAlts(comp, unc []byte) []verifmc.Alteration {
	var out []verifmc.Alteration
	for _, f := range []struct {
		form string
		enc  []byte
	}{{"compressed", comp}, {"uncompressed", unc}} {
		if f.enc == nil {
			continue
		}
		slots := len(f.enc) / 48
		for sl := 0; sl < slots; sl++ {
			raw := append([]byte{}, f.enc[48*sl:48*sl+48]...)
			var flags byte
			bits := uint(384)
			if sl == 0 {
				flags = raw[0] & 0xE0
				raw[0] &= 0x1F
				bits = 381
			}
			v := new(big.Int).SetBytes(raw)
			limit := new(big.Int).Lsh(big.NewInt(1), bits)
			kmax := new(big.Int).Sub(limit, big.NewInt(1))
			kmax.Sub(kmax, v).Div(kmax, c02BlsP)
			ks := []int64{}
			for k := int64(1); k <= 2 && k <= kmax.Int64(); k++ {
				ks = append(ks, k)
			}
			if kmax.Int64() > 2 {
				ks = append(ks, kmax.Int64())
			}
			for _, k := range ks {
				w := new(big.Int).Mul(big.NewInt(k), c02BlsP)
				w.Add(w, v)
				b := append([]byte{}, f.enc...)
				w.FillBytes(b[48*sl : 48*sl+48])
				if sl == 0 {
					b[0] |= flags
				}
				out = append(out, verifmc.Alteration{Name: fmt.Sprintf("%s-slot%d+kp/k%d", f.form, sl, k), Data: b})
			}
			// the slot filled with ones: an out-of-range element (>= p) that denotes nothing, all other slots honest
			{
				b := append([]byte{}, f.enc...)
				new(big.Int).Sub(limit, big.NewInt(1)).FillBytes(b[48*sl : 48*sl+48])
				if sl == 0 {
					b[0] |= flags
				}
				out = append(out, verifmc.Alteration{Name: fmt.Sprintf("%s-slot%d=max/ones", f.form, sl), Data: b})
			}
		}
		if f.form == "uncompressed" {
			b := append([]byte{}, f.enc...)
			for sl := slots / 2; sl < slots; sl++ {
				v := new(big.Int).SetBytes(b[48*sl : 48*sl+48])
				if v.Sign() != 0 {
					v.Sub(c02BlsP, v)
				}
				v.FillBytes(b[48*sl : 48*sl+48])
			}
			out = append(out, verifmc.Alteration{Name: "uncompressed-neg-y/other-root", Data: b})
		}
	}
	return out
}

func c02BlsSingle[K bls.KeyGroup](t *testing.T, unit, name string, pkSize, sigSize int, uncompress, uncompressPK func(b []byte) []byte) {
	r := verifmc.Start(t, "C02", unit)
	defer r.Finish()
	r.Rule("base case = (key group, IKM seed of the fixed alphabet, message verifmc.Msg(n)); a case = the honest tuple (verifies, advertised size, " +
		"deterministic, key round trip) or one single alteration of pk / msg / sig (complete families incl. every bit of key and signature, every " +
		"truncation, appended bytes, the flag/length alphabet of the point serialization); non-trivial = distinct (group, base, class, site)")
	s := c02BlsSubject[K](name, pkSize, sigSize)
	p := c02BlsPlan(r)
	kit.Run(r, s, p)
	var col kit.Collector
	defer col.Flush(r)

	// flag / length alphabet on signature and public key
	seeds := verifmc.Seeds(32, r.Seed())
	sidx := p.Seeds
	if sidx == nil {
		for i := range seeds {
			sidx = append(sidx, i)
		}
	}
	for _, si := range sidx {
		sk := c02BlsKey[K](seeds[si])
		pk := sk.PublicKey()
		pkEnc, _ := pk.MarshalBinary()
		msg := verifmc.Msg(33)
		sig := bls.Sign(sk, msg)
		base := fmt.Sprintf("%s/s%d/m33/c0|", name, si)
		if !bls.Verify(pk, msg, sig) {
			continue // reported by kit.Run
		}
		sigAlts := c02BlsFlagAlphabet(sig, sigSize)
		pkAlts := c02BlsFlagAlphabet(pkEnc, pkSize)
		verifmc.ParallelFor(len(sigAlts)+len(pkAlts), func(i int) {
			var id, class string
			var ok bool
			var pn bool
			var what string
			var a verifmc.Alteration
			if i < len(sigAlts) {
				a, class = sigAlts[i], "sig-flags"
				id = base + class + ":" + a.Name
				if !r.Want(id) {
					return
				}
				pn, what = verifmc.Try(func() { ok = bls.Verify(pk, msg, a.Data) })
			} else {
				a, class = pkAlts[i-len(sigAlts)], "pk-flags"
				id = base + class + ":" + a.Name
				if !r.Want(id) {
					return
				}
				pn, what = verifmc.Try(func() {
					k := new(bls.PublicKey[K])
					if err := k.UnmarshalBinary(a.Data); err != nil {
						return
					}
					r.Count("flag_pk_decoded", 1)
					// a decoded key may be the honest one in another serialization (e.g. uncompressed is not produced by
					// this alphabet since the y half is zero); only a key different from the honest one must fail
					if k.Equal(pk) {
						r.Outcome("pk-flags->same-key")
						return
					}
					ok = bls.Verify(k, msg, sig)
				})
			}
			r.Eval(1)
			r.Distinct(id)
			r.Count("alt_"+class, 1)
			class += "|" + c02Kind(a.Name)
			payload := map[string]interface{}{"seed": verifmc.FullHex(seeds[si]), "msg": verifmc.Hex(msg), "altered": verifmc.FullHex(a.Data), "honest_sig": verifmc.FullHex(sig), "honest_pk": verifmc.FullHex(pkEnc)}
			switch {
			case pn:
				col.Add(fmt.Sprintf("C02|%s|%s|panic:%s", name, class, verifmc.PanicClass(what)), id, id+": panicked: "+what, payload)
				r.Outcome(class + "->PANIC")
			case ok:
				col.Add(fmt.Sprintf("C02|%s|%s|accepted", name, class), id, id+": the altered tuple verifies", payload)
				r.Outcome(class + "->ACCEPTED")
			default:
				r.Outcome(class[:strings.Index(class, "|")] + "->rejected")
			}
		})
		// coordinate + k*p (non-canonical field elements) and the other root, on signature and public key
		{
			sigC := c02BlsCoordAlts(sig, uncompress(sig))
			pkC := c02BlsCoordAlts(pkEnc, uncompressPK(pkEnc))
			verifmc.ParallelFor(len(sigC)+len(pkC), func(i int) {
				var a verifmc.Alteration
				class := "sig-coord"
				if i < len(sigC) {
					a = sigC[i]
				} else {
					a, class = pkC[i-len(sigC)], "pk-coord"
				}
				id := base + class + ":" + a.Name
				if !r.Want(id) {
					return
				}
				ok := false
				pn, what := verifmc.Try(func() {
					if class == "sig-coord" {
						ok = bls.Verify(pk, msg, a.Data)
						return
					}
					k := new(bls.PublicKey[K])
					if err := k.UnmarshalBinary(a.Data); err != nil {
						return
					}
					r.Count("coord_pk_decoded", 1)
					ok = bls.Verify(k, msg, sig)
				})
				r.Eval(1)
				r.Distinct(id)
				r.Count("alt_"+class, 1)
				pl := map[string]interface{}{"seed": verifmc.FullHex(seeds[si]), "msg": verifmc.Hex(msg), "altered": verifmc.FullHex(a.Data), "honest_sig": verifmc.FullHex(sig), "honest_pk": verifmc.FullHex(pkEnc)}
				switch {
				case pn:
					col.Add(fmt.Sprintf("C02|%s|%s|%s|panic:%s", name, class, c02Kind(a.Name), verifmc.PanicClass(what)), id, id+": panicked: "+what, pl)
					r.Outcome(class + "->PANIC")
				case ok:
					col.Add(fmt.Sprintf("C02|%s|%s|%s|accepted", name, class, c02Kind(a.Name)), id, id+": the non-canonical / negated encoding verifies", pl)
					r.Outcome(class + "->ACCEPTED")
				default:
					r.Outcome(class + "->rejected")
				}
			})
		}
		// reused receivers: (a) a public-key object that already holds the honest key decodes every altered encoding of
		// that key: it must refuse, or end up equal to what a fresh object decodes; (b) Aggregate reuses one temporary
		// from one signature to the next: [sig, alt] and [alt, sig] must fail exactly when [alt] alone fails.
		{
			pkH := append(c02BlsFlagAlphabet(pkEnc, pkSize), c02BlsCoordAlts(pkEnc, uncompressPK(pkEnc))...)
			for _, a := range pkH {
				id := base + "pk-reused-receiver:" + a.Name
				if !r.Want(id) {
					continue
				}
				var errR, errF error
				same, okV := true, false
				pn, what := verifmc.Try(func() {
					obj := new(bls.PublicKey[K])
					if err := obj.UnmarshalBinary(pkEnc); err != nil {
						panic("honest key does not decode: " + err.Error())
					}
					errR = obj.UnmarshalBinary(a.Data)
					fresh := new(bls.PublicKey[K])
					errF = fresh.UnmarshalBinary(a.Data)
					if errR == nil {
						same = errF == nil && obj.Equal(fresh)
						okV = bls.Verify(obj, msg, sig)
					}
				})
				r.Eval(2)
				r.Distinct(id)
				r.Count("alt_pk-reused-receiver", 1)
				pl := map[string]interface{}{"seed": verifmc.FullHex(seeds[si]), "honest_pk": verifmc.FullHex(pkEnc), "altered": verifmc.FullHex(a.Data), "msg": verifmc.Hex(msg), "honest_sig": verifmc.FullHex(sig)}
				switch {
				case pn:
					col.Add(fmt.Sprintf("C02|%s|pk-reused-receiver|%s|panic:%s", name, c02Kind(a.Name), verifmc.PanicClass(what)), id, id+": panicked: "+what, pl)
				case errR == nil && !same:
					col.Add(fmt.Sprintf("C02|%s|pk-reused-receiver|%s|accepted", name, c02Kind(a.Name)), id,
						fmt.Sprintf("%s: a key object holding the honest key accepts the altered encoding (fresh object: err=%v) and the honest signature verifies under it: %v", id, errF, okV), pl)
					r.Outcome("pk-reused-receiver->ACCEPTED")
				default:
					r.Outcome(fmt.Sprintf("pk-reused-receiver->refused=%v", errR != nil))
				}
			}
			sigH := append(c02BlsFlagAlphabet(sig, sigSize), c02BlsCoordAlts(sig, uncompress(sig))...)
			var zero K
			for _, a := range sigH {
				id := base + "aggregate-reused-temporary:" + a.Name
				if !r.Want(id) {
					continue
				}
				var e1, e12, e21 error
				var a12, a21 bls.Signature
				pn, what := verifmc.Try(func() {
					_, e1 = bls.Aggregate(zero, []bls.Signature{a.Data})
					a12, e12 = bls.Aggregate(zero, []bls.Signature{sig, a.Data})
					a21, e21 = bls.Aggregate(zero, []bls.Signature{a.Data, sig})
				})
				r.Eval(3)
				r.Distinct(id)
				r.Count("alt_aggregate-reused-temporary", 1)
				pl := map[string]interface{}{"seed": verifmc.FullHex(seeds[si]), "honest_sig": verifmc.FullHex(sig), "altered": verifmc.FullHex(a.Data)}
				switch {
				case pn:
					col.Add(fmt.Sprintf("C02|%s|aggregate-reused-temporary|%s|panic:%s", name, c02Kind(a.Name), verifmc.PanicClass(what)), id, id+": panicked: "+what, pl)
				case e1 != nil && (e12 == nil || e21 == nil):
					col.Add(fmt.Sprintf("C02|%s|aggregate-reused-temporary|%s|accepted", name, c02Kind(a.Name)), id,
						fmt.Sprintf("%s: Aggregate refuses [alt] (%v) but accepts it next to the honest signature: [sig,alt] err=%v, [alt,sig] err=%v", id, e1, e12, e21), pl)
					r.Outcome("aggregate-reused-temporary->ACCEPTED")
				case e1 == nil && (e12 != nil || e21 != nil || !bytes.Equal(a12, a21)):
					col.Add(fmt.Sprintf("C02|%s|aggregate-reused-temporary|%s|order-dependent", name, c02Kind(a.Name)), id,
						fmt.Sprintf("%s: Aggregate accepts [alt] alone but [sig,alt] err=%v, [alt,sig] err=%v, equal=%v", id, e12, e21, bytes.Equal(a12, a21)), pl)
				default:
					r.Outcome(fmt.Sprintf("aggregate-reused-temporary->refused=%v", e1 != nil))
				}
			}
		}
		// two deviations that belong together: the identity as public key AND as signature (e(O, H(m)) = e(g, O) = 1 for
		// every message, so only key validation stands between this pair and a universal forgery)
		for _, ml := range []int{0, 33} {
			idPK := make([]byte, pkSize)
			idSig := make([]byte, sigSize)
			idPK[0], idSig[0] = 0xC0, 0xC0
			id := fmt.Sprintf("%sidentity-pair:m%d", base, ml)
			if !r.Want(id) {
				continue
			}
			ok, dec := false, false
			pn, what := verifmc.Try(func() {
				k := new(bls.PublicKey[K])
				if err := k.UnmarshalBinary(idPK); err != nil {
					return
				}
				dec = true
				ok = bls.Verify(k, verifmc.Msg(ml), idSig)
			})
			r.Eval(1)
			r.Distinct(id)
			r.Count("alt_identity-pair", 1)
			pl := map[string]interface{}{"pk": verifmc.FullHex(idPK), "sig": verifmc.FullHex(idSig), "msg_len": ml}
			switch {
			case pn:
				col.Add(fmt.Sprintf("C02|%s|identity-pair|panic:%s", name, verifmc.PanicClass(what)), id, id+": panicked: "+what, pl)
			case ok:
				col.Add(fmt.Sprintf("C02|%s|identity-pair|accepted", name), id, id+": the identity signature verifies under the identity public key", pl)
			}
			r.Outcome(fmt.Sprintf("identity-pair->decoded=%v,accepted=%v", dec, ok))
		}
		// informational (not demanded by the property): the same point in uncompressed serialization
		if un := uncompress(sig); un != nil {
			acc := false
			pn, _ := verifmc.Try(func() { acc = bls.Verify(pk, msg, un) })
			r.Eval(1)
			r.Outcome(fmt.Sprintf("info:uncompressed-serialization-of-the-honest-signature->accepted=%v,panic=%v", acc, pn))
		}
	}
	r.Set("plan", fmt.Sprintf("seeds=%v msgLens=%v otherMsgLens=%v msgFlipLimit=%d pairs=%v", p.Seeds, p.MsgLens, p.AllMsgLens, p.MsgFlipLimit, p.Pairs))
	if !r.Replaying() {
		for _, c := range []string{"honest_verified", "alt_pk-other", "alt_pk-flip", "altered_pk_decoded", "alt_msg-other", "alt_msg-flip",
			"alt_sig-flip", "alt_sig-trunc", "alt_sig-append", "alt_sig-flags", "alt_pk-flags", "alt_identity-pair", "alt_sig-coord", "alt_pk-coord", "alt_pk-reused-receiver", "alt_aggregate-reused-temporary"} {
			r.RequireCounter(c, 1)
		}
	}
}

func c02UncG1(b []byte) []byte {
	var q GG.G1
	if q.SetBytes(b) != nil {
		return nil
	}
	return q.Bytes()
}

func c02UncG2(b []byte) []byte {
	var q GG.G2
	if q.SetBytes(b) != nil {
		return nil
	}
	return q.Bytes()
}

func TestVerifC02_bls_keyG1(t *testing.T) {
	c02BlsSingle[bls.KeyG1SigG2](t, "bls_keyG1", "BLS-KeyG1SigG2", GG.G1SizeCompressed, GG.G2SizeCompressed, c02UncG2, c02UncG1)
}

func TestVerifC02_bls_keyG2(t *testing.T) {
	c02BlsSingle[bls.KeyG2SigG1](t, "bls_keyG2", "BLS-KeyG2SigG1", GG.G2SizeCompressed, GG.G1SizeCompressed, c02UncG1, c02UncG2)
}

// ---- aggregation

func c02Perms(n int) [][]int {
	if n == 1 {
		return [][]int{{0}}
	}
	var out [][]int
	for _, p := range c02Perms(n - 1) {
		for pos := 0; pos <= len(p); pos++ {
			q := append(append(append([]int{}, p[:pos]...), n-1), p[pos:]...)
			out = append(out, q)
		}
	}
	return out
}

func c02BlsAggregate[K bls.KeyGroup](r *verifmc.Run, name string, zero K, sigSize int, uncompress func(b []byte) []byte) {
	seeds := verifmc.Seeds(32, r.Seed())
	msgLens := []int{0, 33, 137, 1, 300} // message of signer i (distinct messages)
	var col kit.Collector
	defer col.Flush(r)
	keys := make([]*bls.PrivateKey[K], len(seeds))
	pubs := make([]*bls.PublicKey[K], len(seeds))
	for i := range seeds {
		keys[i] = c02BlsKey[K](seeds[i])
		pubs[i] = keys[i].PublicKey()
	}
	maxN := 3
	if r.Config() != "default" {
		maxN = 2
	}
	for n := 1; n <= maxN; n++ {
		for rot := 0; rot < r.Pick(1, 2); rot++ { // which signers: {0..n-1} and, thorough, {2..2+n-1}
			base := fmt.Sprintf("%s/agg/n%d/rot%d|", name, n, rot)
			if r.Replaying() && !hasPrefix(r.ReplayCase(), base) {
				continue
			}
			var pk []*bls.PublicKey[K]
			var msgs [][]byte
			var sigs []bls.Signature
			var who []int
			for i := 0; i < n; i++ {
				w := (2*rot + i) % len(seeds)
				who = append(who, w)
				pk = append(pk, pubs[w])
				msgs = append(msgs, verifmc.Msg(msgLens[w]))
				sigs = append(sigs, bls.Sign(keys[w], verifmc.Msg(msgLens[w])))
				r.Eval(1)
			}
			payload := map[string]interface{}{"group": name, "signers(seed index)": who}
			v := func(class, what string, got interface{}) {
				r.Violation(fmt.Sprintf("C02|%s|%s", name, class), base+class, fmt.Sprintf("%s%s: %s (got %v)", base, class, what, got), payload)
			}
			var agg bls.Signature
			var err error
			if pn, what := verifmc.Try(func() { agg, err = bls.Aggregate(zero, sigs) }); pn || err != nil {
				v("aggregate-honest|failed", "Aggregate of honest signatures failed", fmt.Sprint(err, what))
				continue
			}
			r.Eval(1)
			if len(agg) != sigSize {
				v("aggregate-honest|size", "aggregate has the wrong size", len(agg))
			}
			if agg2, _ := bls.Aggregate(zero, sigs); !bytes.Equal(agg, agg2) {
				v("aggregate-honest|nondeterministic", "two Aggregate calls differ", "")
			}
			if n == 1 && !bytes.Equal(agg, sigs[0]) {
				v("aggregate-honest|single", "the aggregate of one signature is not that signature", verifmc.Hex(agg))
			}
			honestOK := true
			for pi, perm := range c02Perms(n) {
				var ppk []*bls.PublicKey[K]
				var pm [][]byte
				for _, j := range perm {
					ppk = append(ppk, pk[j])
					pm = append(pm, msgs[j])
				}
				ok := false
				pn, what := verifmc.Try(func() { ok = bls.VerifyAggregate(ppk, pm, agg) })
				r.Eval(1)
				r.Distinct(base, "honest-order", pi)
				if pn || !ok {
					v("aggregate-honest|rejected", fmt.Sprintf("honest aggregate rejected with the pairs in order %v", perm), fmt.Sprint(ok, what))
					honestOK = false
				} else {
					r.Count("aggregate_honest_verified", 1)
				}
			}
			if !honestOK {
				continue
			}
			// altered tuples: all must be refused
			type acase struct {
				class, name string
				pk          []*bls.PublicKey[K]
				msgs        [][]byte
				sig         []byte
			}
			var cases []acase
			add := func(class, nm string, p []*bls.PublicKey[K], m [][]byte, s []byte) {
				cases = append(cases, acase{class, nm, p, m, s})
			}
			cpk := func() []*bls.PublicKey[K] { return append([]*bls.PublicKey[K]{}, pk...) }
			cm := func() [][]byte { return append([][]byte{}, msgs...) }
			for i := 0; i < n; i++ {
				// drop pair i
				add("agg-drop-pair", fmt.Sprint(i), append(cpk()[:i], pk[i+1:]...), append(cm()[:i], msgs[i+1:]...), agg)
				// duplicate pair i
				add("agg-dup-pair", fmt.Sprint(i), append(cpk(), pk[i]), append(cm(), msgs[i]), agg)
				// message i <- every other message of the alphabet (includes the other signers' messages)
				for _, l := range c02BlsAllMsgLens {
					if l == len(msgs[i]) {
						continue
					}
					m := cm()
					m[i] = verifmc.Msg(l)
					add("agg-msg-other", fmt.Sprintf("%d<-len%d", i, l), pk, m, agg)
				}
				// key i <- every other key of the alphabet
				for w := range pubs {
					if w == who[i] {
						continue
					}
					p := cpk()
					p[i] = pubs[w]
					add("agg-pk-other", fmt.Sprintf("%d<-s%d", i, w), p, msgs, agg)
				}
				// messages of i and j exchanged (keys stay)
				for j := i + 1; j < n; j++ {
					m := cm()
					m[i], m[j] = m[j], m[i]
					add("agg-msg-swap", fmt.Sprintf("%d<->%d", i, j), pk, m, agg)
				}
				// aggregate lacking / repeating signature i; a single signature offered as the aggregate
				var less, more []bls.Signature
				less = append(append(less, sigs[:i]...), sigs[i+1:]...)
				more = append(append(more, sigs...), sigs[i])
				if len(less) > 0 {
					if a2, err := bls.Aggregate(zero, less); err == nil {
						add("agg-sig-missing", fmt.Sprint(i), pk, msgs, a2)
					}
				}
				if a2, err := bls.Aggregate(zero, more); err == nil {
					add("agg-sig-repeated", fmt.Sprint(i), pk, msgs, a2)
				}
				if n > 1 {
					add("agg-sig-single", fmt.Sprint(i), pk, msgs, sigs[i])
				}
			}
			add("agg-len-mismatch", "msgs-short", pk, msgs[:n-1], agg)
			add("agg-len-mismatch", "pks-short", pk[:n-1], msgs, agg)
			add("agg-len-mismatch", "both-empty", nil, nil, agg)
			verifmc.BitFlips(agg, func(bit int, d []byte) {
				add("agg-sig-flip", fmt.Sprintf("bit%d", bit), pk, msgs, append([]byte{}, d...))
			})
			verifmc.Truncations(agg, func(k int, d []byte) { add("agg-sig-trunc", fmt.Sprintf("len%d", k), pk, msgs, d) })
			for _, a := range verifmc.Appends(agg) {
				add("agg-sig-append", a.Name, pk, msgs, a.Data)
			}
			for _, a := range verifmc.Fills(len(agg)) {
				add("agg-sig-degenerate", a.Name, pk, msgs, a.Data)
			}
			for _, a := range c02BlsFlagAlphabet(agg, sigSize) {
				add("agg-sig-flags", a.Name, pk, msgs, a.Data)
			}
			for _, a := range c02BlsCoordAlts(agg, uncompress(agg)) {
				add("agg-sig-coord", a.Name, pk, msgs, a.Data)
			}
			verifmc.ParallelFor(len(cases), func(ci int) {
				c := cases[ci]
				id := base + c.class + ":" + c.name
				if !r.Want(id) {
					return
				}
				ok := false
				pn, what := verifmc.Try(func() { ok = bls.VerifyAggregate(c.pk, c.msgs, c.sig) })
				r.Eval(1)
				r.Distinct(id)
				r.Count("alt_"+c.class, 1)
				if c.class == "agg-sig-flags" || c.class == "agg-sig-coord" {
					c.class += "|" + c02Kind(c.name)
				}
				pl := map[string]interface{}{"group": name, "signers(seed index)": who, "alteration": c.class + ":" + c.name, "aggregate": verifmc.FullHex(c.sig), "pairs": len(c.pk), "msgs": len(c.msgs)}
				switch {
				case pn:
					col.Add(fmt.Sprintf("C02|%s|%s|panic:%s", name, c.class, verifmc.PanicClass(what)), id, id+": VerifyAggregate panicked: "+what, pl)
					r.Outcome(c.class + "->PANIC")
				case ok:
					col.Add(fmt.Sprintf("C02|%s|%s|accepted", name, c.class), id, id+": VerifyAggregate accepts the altered tuple", pl)
					r.Outcome(c.class + "->ACCEPTED")
				default:
					r.Outcome(strings.SplitN(c.class, "|", 2)[0] + "->rejected")
				}
			})
			if n == 3 && rot == 0 {
				r.Sample(map[string]interface{}{"case": base + "agg-msg-swap:0<->1", "signers": who, "aggregate": verifmc.FullHex(agg)})
			}
			// Aggregate's own input checking: an empty list and a truncated component must be refused
			for _, bad := range []struct {
				nm string
				in []bls.Signature
			}{{"empty-list", nil}, {"component-truncated", append(append([]bls.Signature{}, sigs[:n-1]...), sigs[n-1][:sigSize-1])},
				{"component-empty", append(append([]bls.Signature{}, sigs[:n-1]...), []byte{})}} {
				id := base + "aggregate-input:" + bad.nm
				if !r.Want(id) {
					continue
				}
				var out bls.Signature
				var err error
				pn, what := verifmc.Try(func() { out, err = bls.Aggregate(zero, bad.in) })
				r.Eval(1)
				r.Distinct(id)
				r.Count("alt_aggregate-input", 1)
				if pn {
					r.Violation(fmt.Sprintf("C02|%s|aggregate-input|panic:%s", name, verifmc.PanicClass(what)), id, id+": Aggregate panicked: "+what, payload)
				} else if err == nil {
					r.Violation(fmt.Sprintf("C02|%s|aggregate-input|accepted", name), id, fmt.Sprintf("%s: Aggregate returned %d bytes and no error", id, len(out)), payload)
				}
			}
			// informational: a component with appended bytes (same root cause as sig-append on Verify)
			{
				var err error
				in := append(append([]bls.Signature{}, sigs[:n-1]...), append(append([]byte{}, sigs[n-1]...), 0))
				pn, _ := verifmc.Try(func() { _, err = bls.Aggregate(zero, in) })
				r.Eval(1)
				r.Outcome(fmt.Sprintf("info:Aggregate-with-over-long-component->error=%v,panic=%v", err != nil, pn))
			}
		}
	}
}

func hasPrefix(s, p string) bool { return strings.HasPrefix(s, p) }

// c02Kind extracts the input class from a flag-alphabet alteration name ("<kind>/flags...").
func c02Kind(name string) string { return strings.SplitN(name, "/", 2)[0] }

func TestVerifC02_bls_aggregate(t *testing.T) {
	r := verifmc.Start(t, "C02", "bls_aggregate")
	defer r.Finish()
	r.Rule("for each key group and n = 1..3 signers (distinct keys of the seed alphabet, distinct messages): the aggregate verifies with the pairs in " +
		"every order; refused: one pair dropped / duplicated, one message replaced by every other message, two messages exchanged, one key replaced " +
		"by every other key, aggregate lacking / repeating one signature, a single signature as aggregate, list length mismatch, every bit flip / " +
		"truncation / appended bytes / flag-length variant of the aggregate; non-trivial = distinct (group, n, signer set, alteration)")
	c02BlsAggregate[bls.KeyG1SigG2](r, "BLS-KeyG1SigG2", bls.G1{}, GG.G2SizeCompressed, c02UncG2)
	c02BlsAggregate[bls.KeyG2SigG1](r, "BLS-KeyG2SigG1", bls.G2{}, GG.G1SizeCompressed, c02UncG1)
	r.Set("signers", "1..3")
	if !r.Replaying() {
		if r.Config() == "default" {
			r.RequireCounter("aggregate_honest_verified", 2*(1+2+6))
		}
		for _, c := range []string{"alt_agg-drop-pair", "alt_agg-dup-pair", "alt_agg-msg-other", "alt_agg-pk-other", "alt_agg-msg-swap",
			"alt_agg-sig-missing", "alt_agg-sig-repeated", "alt_agg-sig-single", "alt_agg-sig-flip", "alt_agg-sig-trunc", "alt_agg-sig-append", "alt_agg-sig-coord", "alt_aggregate-input"} {
			r.RequireCounter(c, 2)
		}
	}
}
