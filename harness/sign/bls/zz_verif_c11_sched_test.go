//go:build verif

package bls_test

// C11 (schedules): BLS private keys with a lazily cached public key.

import (
	"os"
	"testing"

	"github.com/cloudflare/circl/internal/verifmc"
	"github.com/cloudflare/circl/internal/verifmc/sched"
	"github.com/cloudflare/circl/sign/bls"
)

func c11BlsFor[K bls.KeyGroup](name string) []sched.Scenario {
	fresh := func() interface{} {
		k, err := bls.KeyGen[K](verifmc.Shake("c11-bls-ikm", 32), []byte("salt"), []byte("info"))
		if err != nil {
			panic(err)
		}
		return k
	}
	pub := func(sh interface{}) interface{} {
		b, err := sh.(*bls.PrivateKey[K]).PublicKey().MarshalBinary()
		if err != nil {
			panic(err)
		}
		return b
	}
	sign := func(sh interface{}) interface{} { return []byte(bls.Sign(sh.(*bls.PrivateKey[K]), []byte("msg"))) }
	signVerify := func(sh interface{}) interface{} {
		k := sh.(*bls.PrivateKey[K])
		return bls.Verify(k.PublicKey(), []byte("msg2"), bls.Sign(k, []byte("msg2")))
	}
	return []sched.Scenario{
		{Cost: 500, Name: "bls/" + name + "/PublicKey||PublicKey", Setup: fresh, Threads: []func(interface{}) interface{}{pub, pub}},
		{Cost: 500, Name: "bls/" + name + "/PublicKey||Sign||SignVerify", Setup: fresh, Threads: []func(interface{}) interface{}{pub, sign, signVerify}},
	}
}

func c11BlsScenarios() []sched.Scenario {
	return append(c11BlsFor[bls.G1]("G1"), c11BlsFor[bls.G2]("G2")...)
}

func TestVerifC11_sched_bls(t *testing.T) {
	if os.Getenv("VERIF_CONFIG") != "sched" {
		t.Skip("runs only under the instrumented configuration")
	}
	r := verifmc.Start(t, "C11", "sched_bls")
	defer r.Finish()
	r.Rule("every schedule up to the completed preemption bound of 2-3 threads using one shared BLS private key; non-trivial = distinct scenario")
	sched.RunScenarios(r, c11BlsScenarios(), 2)
}

func TestVerifC11_race_bls(t *testing.T) {
	if os.Getenv("VERIF_CONFIG") != "race" {
		t.Skip("runs only under -race")
	}
	r := verifmc.Start(t, "C11", "race_bls")
	defer r.Finish()
	r.Rule("same scenario bodies on free-running goroutines under the race detector")
	sched.FreeRun(r, c11BlsScenarios(), r.Pick(10, 60))
}
