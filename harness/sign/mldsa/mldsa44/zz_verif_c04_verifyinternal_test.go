//go:build verif

package mldsa44

// C04: the unexported wrapper unsafeVerifyInternal (only unexported name used here; own file, own unit).

import (
	"testing"

	"github.com/cloudflare/circl/sign"
	"github.com/cloudflare/circl/sign/internal/verifc04"
)

func TestVerifC04_api_verifyinternal(t *testing.T) {
	verifc04.APIVerifyInternal(t, Scheme(), func(pk sign.PublicKey, mp, sig []byte) bool {
		return unsafeVerifyInternal(pk.(*PublicKey), mp, sig)
	})
}
