//go:build verif

package mldsa44

// C04: the unexported wrapper unsafeSignInternal (only unexported name used here; own file, own unit).

import (
	"testing"

	"github.com/cloudflare/circl/sign"
	"github.com/cloudflare/circl/sign/internal/verifc04"
)

func TestVerifC04_api_signinternal(t *testing.T) {
	verifc04.APISignInternal(t, Scheme(), func(sk sign.PrivateKey, mp []byte, rnd [32]byte) []byte {
		return sk.(*PrivateKey).unsafeSignInternal(mp, rnd)
	})
}
