//go:build verif

package internal

// C04: sweep of the unexported scalar helper decompose (the only unexported name this file uses),
// kept in a file of its own so that renaming it costs only this unit.

import (
	"testing"

	"github.com/cloudflare/circl/sign/internal/verifc04"
)

func TestVerifC04_scalar_decompose(t *testing.T) { verifc04.ScalarDecompose(t, Name, decompose) }
