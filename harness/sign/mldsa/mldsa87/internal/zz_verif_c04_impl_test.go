//go:build verif

package internal_test

// C04 adapter: hands this parameter set's functions to the shared harness
// (sign/internal/verifc04). The same file is used for mode2/3/5 and mldsa44/65/87.
// External test package: only exported names of the package under test are used (the compiler
// enforces it); the unexported scalar helpers decompose / makeHint / useHint have files of their own.

import (
	"io"
	"testing"

	common "github.com/cloudflare/circl/sign/internal/dilithium"
	"github.com/cloudflare/circl/sign/internal/verifc04"
	. "github.com/cloudflare/circl/sign/mldsa/mldsa87/internal"
)

type c04Key struct {
	pk *PublicKey
	sk *PrivateKey
}

func (k *c04Key) PK() []byte {
	var b [PublicKeySize]byte
	k.pk.Pack(&b)
	return b[:]
}

func (k *c04Key) SK() []byte {
	var b [PrivateKeySize]byte
	k.sk.Pack(&b)
	return b[:]
}

func (k *c04Key) Sign(mp []byte, rnd [32]byte) []byte {
	sig := make([]byte, SignatureSize)
	SignTo(k.sk, func(w io.Writer) { _, _ = w.Write(mp) }, rnd, sig)
	return sig
}

func (k *c04Key) Verify(mp, sig []byte) bool {
	return Verify(k.pk, func(w io.Writer) { _, _ = w.Write(mp) }, sig)
}

func c04P(p *verifc04.P) *common.Poly { return (*common.Poly)(p) }

func c04Impl() *verifc04.Impl {
	return &verifc04.Impl{
		Name: Name, K: K, L: L, Eta: Eta, Tau: Tau, Omega: Omega, Gamma1Bits: Gamma1Bits, Gamma2: Gamma2,
		CTildeSize: CTildeSize, TRSize: TRSize,
		PublicKeySize: PublicKeySize, PrivateKeySize: PrivateKeySize, SignatureSize: SignatureSize,
		PolyLeqEtaSize: PolyLeqEtaSize, PolyLeGamma1Size: PolyLeGamma1Size, PolyW1Size: PolyW1Size,
		NIST: NIST, X4: DeriveX4Available,
		PolyDecompose: func(p, p0, p1 *verifc04.P) { PolyDecompose(c04P(p), c04P(p0), c04P(p1)) },
		PolyMakeHint:  func(p, p0, p1 *verifc04.P) uint32 { return PolyMakeHint(c04P(p), c04P(p0), c04P(p1)) },
		PolyUseHint:   func(p, q, h *verifc04.P) { PolyUseHint(c04P(p), c04P(q), c04P(h)) },
		PackLeqEta:    func(p *verifc04.P, b []byte) { PolyPackLeqEta(c04P(p), b) },
		UnpackLeqEta:  func(p *verifc04.P, b []byte) { PolyUnpackLeqEta(c04P(p), b) },
		PackLeGamma1:  func(p *verifc04.P, b []byte) { PolyPackLeGamma1(c04P(p), b) },
		UnpackLeGamma1: func(p *verifc04.P, b []byte) {
			PolyUnpackLeGamma1(c04P(p), b)
		},
		PackW1: func(p *verifc04.P, b []byte) { PolyPackW1(c04P(p), b) },
		PackHint: func(v []verifc04.P, b []byte) {
			var h VecK
			for i := range h {
				h[i] = common.Poly(v[i])
			}
			h.PackHint(b)
		},
		UnpackHint: func(b []byte, out []verifc04.P) bool {
			var h VecK
			// poison: UnpackHint must define every coefficient itself
			for i := range h {
				for j := range h[i] {
					h[i][j] = 0x5a5a5a5a
				}
			}
			ok := h.UnpackHint(b)
			for i := range h {
				out[i] = verifc04.P(h[i])
			}
			return ok
		},
		DeriveUniform: func(p *verifc04.P, seed *[32]byte, nonce uint16) { PolyDeriveUniform(c04P(p), seed, nonce) },
		DeriveUniformX4: func(ps [4]*verifc04.P, seed *[32]byte, nonces [4]uint16) {
			var q [4]*common.Poly
			for i := range ps {
				if ps[i] != nil {
					q[i] = c04P(ps[i])
				}
			}
			PolyDeriveUniformX4(q, seed, nonces)
		},
		DeriveUniformLeqEta:   func(p *verifc04.P, seed *[64]byte, nonce uint16) { PolyDeriveUniformLeqEta(c04P(p), seed, nonce) },
		DeriveUniformLeGamma1: func(p *verifc04.P, seed *[64]byte, nonce uint16) { PolyDeriveUniformLeGamma1(c04P(p), seed, nonce) },
		VecLDeriveUniformLeGamma1: func(seed *[64]byte, nonce uint16) []verifc04.P {
			var v VecL
			VecLDeriveUniformLeGamma1(&v, seed, nonce)
			out := make([]verifc04.P, L)
			for i := range v {
				out[i] = verifc04.P(v[i])
			}
			return out
		},
		DeriveUniformBall: func(p *verifc04.P, seed []byte) { PolyDeriveUniformBall(c04P(p), seed) },
		DeriveUniformBallX4: func(ps [4]*verifc04.P, seed []byte) {
			var q [4]*common.Poly
			for i := range ps {
				if ps[i] != nil {
					q[i] = c04P(ps[i])
				}
			}
			PolyDeriveUniformBallX4(q, seed)
		},
		MatDerive: func(seed *[32]byte) [][]verifc04.P {
			var m Mat
			m.Derive(seed)
			out := make([][]verifc04.P, K)
			for i := range m {
				out[i] = make([]verifc04.P, L)
				for j := range m[i] {
					out[i][j] = verifc04.P(m[i][j])
				}
			}
			return out
		},
		VecLExceeds: func(v []verifc04.P, bound uint32) bool {
			var w VecL
			for i := range w {
				w[i] = common.Poly(v[i])
			}
			return w.Exceeds(bound)
		},
		KeyFromSeed: func(seed *[32]byte) verifc04.Key {
			pk, sk := NewKeyFromSeed(seed)
			return &c04Key{pk, sk}
		},
		KeyFromBytes: func(pk, sk []byte) verifc04.Key {
			k := &c04Key{}
			if pk != nil {
				var b [PublicKeySize]byte
				copy(b[:], pk)
				k.pk = new(PublicKey)
				k.pk.Unpack(&b)
			}
			if sk != nil {
				var b [PrivateKeySize]byte
				copy(b[:], sk)
				k.sk = new(PrivateKey)
				k.sk.Unpack(&b)
			}
			return k
		},
		PublicFromPrivate: func(sk []byte) []byte {
			var b [PrivateKeySize]byte
			copy(b[:], sk)
			var s PrivateKey
			s.Unpack(&b)
			var o [PublicKeySize]byte
			s.Public().Pack(&o)
			return o[:]
		},
	}
}

func TestVerifC04_rounding(t *testing.T) { verifc04.Rounding(t, c04Impl()) }
func TestVerifC04_pack(t *testing.T)     { verifc04.Pack(t, c04Impl()) }
func TestVerifC04_samplers(t *testing.T) { verifc04.Samplers(t, c04Impl()) }
func TestVerifC04_sign(t *testing.T)     { verifc04.Sign(t, c04Impl()) }
func TestVerifC04_verify(t *testing.T)   { verifc04.Verify(t, c04Impl()) }
