//go:build verif

package mldsa87_test

// C04 adapter for the exported ML-DSA entry points (shared harness: sign/internal/verifc04).
// External test package: exported API only. The unexported wrappers unsafeSignInternal and
// unsafeVerifyInternal have files of their own.

import (
	"testing"

	"github.com/cloudflare/circl/sign"
	"github.com/cloudflare/circl/sign/internal/verifc04"
	. "github.com/cloudflare/circl/sign/mldsa/mldsa87"
)

func TestVerifC04_api(t *testing.T) {
	verifc04.PublicAPI(t, &verifc04.API{
		Scheme: Scheme(),
		NewKeyFromSeed: func(seed *[32]byte) (sign.PublicKey, sign.PrivateKey) {
			pk, sk := NewKeyFromSeed(seed)
			return pk, sk
		},
		SignTo: func(sk sign.PrivateKey, msg, ctx []byte, randomized bool, sig []byte) error {
			return SignTo(sk.(*PrivateKey), msg, ctx, randomized, sig)
		},
		Verify: func(pk sign.PublicKey, msg, ctx, sig []byte) bool { return Verify(pk.(*PublicKey), msg, ctx, sig) },
	})
}
