//go:build verif

package ed25519

// C05 / Ed25519 scalar arithmetic, shared helpers of the in-package units.
// This file names NO unexported identifier of sign/ed25519 (refactoring
// tolerance: each internal routine is swept by its own small file, and a
// renamed internal must not take the helpers, and with them the other units,
// out of the build). The group order and the clamp are written out here from
// RFC 8032; the package's own `order` and `clamp` are compared with them by
// the units scalar25519_consts and scalar25519_clamp.

import (
	"encoding/binary"
	"math/big"

	"github.com/cloudflare/circl/internal/verifmc"
)

var c05L = func() *big.Int {
	l, _ := new(big.Int).SetString("7237005577332262213973186563042994240857116359379907606001950938285454250989", 10)
	return l
}()

func c05Limbs(b []byte) []uint64 {
	out := make([]uint64, len(b)/8)
	for i := range out {
		out[i] = binary.LittleEndian.Uint64(b[8*i:])
	}
	return out
}

func c05FromLimbs(l []uint64) []byte {
	b := make([]byte, 8*len(l))
	for i, v := range l {
		binary.LittleEndian.PutUint64(b[8*i:], v)
	}
	return b
}

func c05LE(b []byte) *big.Int {
	t := make([]byte, len(b))
	for i := range b {
		t[len(b)-1-i] = b[i]
	}
	return new(big.Int).SetBytes(t)
}

func c05ToLE(x *big.Int, n int) []byte {
	be := x.FillBytes(make([]byte, n))
	for i, j := 0, n-1; i < j; i, j = i+1, j-1 {
		be[i], be[j] = be[j], be[i]
	}
	return be
}

// c05ClampRef is the RFC 8032 5.1.5 pruning of the first 32 hash bytes.
func c05ClampRef(k []byte) {
	k[0] &= 248
	k[31] &= 127
	k[31] |= 64
}

// c05Class names how a wrong residue relates to the right one.
func c05Class(got, want *big.Int) string {
	d := new(big.Int).Sub(got, want)
	two256 := new(big.Int).Lsh(big.NewInt(1), 256)
	switch {
	case d.Cmp(new(big.Int).Sub(two256, c05L)) == 0:
		// the last step computed r - q*(L-2^252) < 0 and did not add L back
		return "final-subtraction-underflow-not-corrected"
	case new(big.Int).Mod(d, c05L).Sign() == 0:
		return "congruent-but-not-reduced"
	}
	return "not-congruent"
}

// c05LowAlphabet is the 7-value alphabet of each of the four low limbs:
// {0, 1, 2^63, 2^64-1, L_i-1, L_i, L_i+1}, L_i the i-th 64-bit word of L.
func c05LowAlphabet() [][]uint64 {
	Lw := c05Limbs(c05ToLE(c05L, 32))
	low := make([][]uint64, 4)
	for i := range low {
		low[i] = []uint64{0, 1, 1 << 63, ^uint64(0), Lw[i] - 1, Lw[i], Lw[i] + 1}
	}
	return low
}

const c05NLow = 7 * 7 * 7 * 7

func c05Low256(low [][]uint64, li int) []uint64 {
	return []uint64{low[0][li%7], low[1][li/7%7], low[2][li/49%7], low[3][li/343%7]}
}

type c05Bad struct{ key, id, what, in string }

func c05Report(r *verifmc.Run, res []*c05Bad) {
	for _, b := range res {
		if b != nil {
			r.Violation(b.key, b.id, b.what, map[string]string{"input_le": b.in})
		}
	}
}
