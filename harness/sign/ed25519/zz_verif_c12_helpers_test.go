//go:build verif

package ed25519

// C12, Ed25519 scalar field: helpers shared by the units in this directory
// (operand alphabets, byte-buffer adapter). This file names NO unexported
// identifier of package ed25519, so a refactoring of the package's internals
// cannot take it (and with it every unit) out of the build; each unexported
// routine is swept in a file of its own.
// l = 2^252 + 27742317777372353535851937790883648493.

import (
	"math/big"
	"os"
	"testing"

	"github.com/cloudflare/circl/internal/verifmc"
	bf "github.com/cloudflare/circl/internal/verifref/bigfield"
)

type c12Buf struct{ b []byte }

func c12ScalarField(name string, size int) *bf.Field {
	return &bf.Field{
		Prop: "C12", Name: name, P: bf.L25519, Hex: 2 * size,
		New: func() bf.Elem { return &c12Buf{make([]byte, size)} },
		Load: func(z bf.Elem, v *big.Int) bool {
			if v.Sign() < 0 || v.BitLen() > 8*size {
				return false
			}
			copy(z.(*c12Buf).b, bf.LE(v, size))
			return true
		},
		Copy: func(d, s bf.Elem) { copy(d.(*c12Buf).b, s.(*c12Buf).b) },
		Raw:  func(x bf.Elem) *big.Int { return bf.FromLE(x.(*c12Buf).b) },
		Same: func(a, b bf.Elem) bool { return string(a.(*c12Buf).b) == string(b.(*c12Buf).b) },
		Par:  verifmc.ParallelFor,
	}
}

// c12ScalarAlphabet: integers below 2^bits built around multiples of l, of
// 2^252 (the split point of the final reduction step), limb boundaries and limb products.
func c12ScalarAlphabet(bits uint, thorough bool) []bf.Operand {
	l := bf.L25519
	lim := bf.Pow2(bits)
	c := new(big.Int).Sub(l, bf.Pow2(252)) // l = 2^252 + c
	var ops []bf.Operand
	add := func(v *big.Int, name string) {
		ops = append(ops, bf.Around(v, -2, 2, name)...)
	}
	// multiples of l
	qmax := new(big.Int).Div(lim, l)
	for _, k := range []int64{0, 1, 2, 3, 7, 8, 14, 15, 16, 17, 31, 32} {
		add(new(big.Int).Mul(l, big.NewInt(k)), "k*l")
	}
	for _, d := range []int64{0, 1, 2, 15, 16, 17} {
		k := new(big.Int).Sub(qmax, big.NewInt(d))
		if k.Sign() >= 0 {
			add(new(big.Int).Mul(l, k), "(qmax-d)*l")
		}
	}
	// j*2^252 + e*c: the last step subtracts q0*l with q0 = x>>252; the remainder r' - q0*c goes negative when r' < q0*c
	for j := int64(0); j <= 17; j++ {
		b := new(big.Int).Mul(bf.Pow2(252), big.NewInt(j))
		for _, e := range []int64{0, 1, j - 1, j, j + 1, 16} {
			if e < 0 {
				continue
			}
			add(new(big.Int).Add(b, new(big.Int).Mul(c, big.NewInt(e))), "j*2^252+e*c")
		}
	}
	for j := uint(1); 64*j <= bits; j++ {
		add(bf.Pow2(64*j), "2^64j")
		add(new(big.Int).Mul(bf.Pow2(64*j), c), "c*2^64j")
		add(new(big.Int).Mul(bf.Pow2(64*j), l), "l*2^64j")
		// multiples of l just above a limb boundary
		k := new(big.Int).Div(bf.Pow2(64*j), l)
		add(new(big.Int).Mul(k, l), "floor(2^64j/l)*l")
		add(new(big.Int).Mul(k.Add(k, big.NewInt(1)), l), "ceil(2^64j/l)*l")
	}
	for j := uint(250); j <= bits && j <= 262; j++ {
		add(bf.Pow2(j), "2^j")
	}
	n := int(bits / 64)
	wide := []uint64{0, 1, 2, 1<<32 - 1, 1 << 32, 1<<60 - 1, 1 << 60, 1<<63 - 1, 1 << 63, ^uint64(0) - 1, ^uint64(0)}
	core := []uint64{0, ^uint64(0)}
	if thorough || n <= 4 {
		core = []uint64{0, 1, ^uint64(0)}
	}
	if thorough && n <= 4 {
		core = []uint64{0, 1, 1 << 60, 1 << 63, ^uint64(0)}
	}
	lp := bf.LimbProduct(n, bf.Rep(n, core), bf.Rep(n, wide), 2)
	var ps []bf.Operand
	for k := 0; k < 32; k++ {
		ps = append(ps, bf.Operand{V: bf.Pseudo("ed25519-scalar", k, lim), Name: "pseudo"})
	}
	return bf.Append(lim, ops, lp, ps)
}

func verifmcConfig() string {
	if c := os.Getenv("VERIF_CONFIG"); c != "" {
		return c
	}
	return "default"
}

// c12Start begins a unit (default configuration only: the code is pure Go).
func c12Start(t *testing.T, unit string) *verifmc.Run {
	if verifmcConfig() != "default" {
		t.Skip("pure Go code: identical in every configuration; run under default only")
	}
	r := verifmc.Start(t, "C12", unit)
	if bad := bf.SelfCheck(); len(bad) != 0 {
		t.Fatalf("reference constants not bound: %v", bad)
	}
	r.NotExhaustive("operands are the declared alphabet, not all 2^512 strings")
	return r
}

const c12AlphabetRule = "operands: 256- and 512-bit little-endian strings built around multiples of l, around j*2^252+e*c (c=l-2^252, the split of the last reduction step), limb boundaries, limb products (<=2 limbs away from 00../FF.. over 11 limb values, full product of a small core) and 32 pseudo-random values; "
