//go:build verif

package ed25519

// Helpers shared by the in-package C13 files of sign/ed25519. This file names
// NO unexported identifier of the package (only math/fp25519 and the reference
// models), so it survives any refactoring of the internals. The files that name
// internals are each self-contained apart from these helpers.

import (
	"bytes"
	"fmt"
	"math/big"

	"github.com/cloudflare/circl/internal/verifmc"
	"github.com/cloudflare/circl/internal/verifref/curvealpha"
	"github.com/cloudflare/circl/internal/verifref/ecurve"
	"github.com/cloudflare/circl/internal/verifref/fpx"
	fp "github.com/cloudflare/circl/math/fp25519"
)

func c13Elt(v *big.Int) (e fp.Elt) { copy(e[:], fpx.ToLE(v, fp.Size)); return }

func c13Int(e *fp.Elt) *big.Int {
	t := *e
	fp.Modp(&t)
	return fpx.FromLE(t[:])
}

func c13Rel(m, n, N *big.Int) string {
	mm, nn := new(big.Int).Mod(m, N), new(big.Int).Mod(n, N)
	switch {
	case mm.Cmp(nn) == 0:
		return "m=n"
	case new(big.Int).Mod(new(big.Int).Add(mm, nn), N).Sign() == 0:
		return "m=-n"
	}
	return "m,n unrelated"
}

// c13EdPreds asks the internal group's predicate (isEqual) and encoder (ToBytes)
// about a freshly computed point, passed as an opaque pointer. It is provided by
// zz_verif_c13_ed25519_point_test.go, the only file that names those routines;
// when that file is left out the multiplication units still compare coordinates.
var c13EdPreds func(r *verifmc.Run, op, class, id string, point interface{}, want ecurve.Point, payload interface{})

// c13CheckEd judges one freshly computed extended point given by pointers to its
// five coordinates (so that this file need not name the type): predicates first
// (on the untouched value), then affine coordinates, the consistency of the
// extended coordinate and the RFC 8032 encoding derived from the coordinates.
func c13CheckEd(r *verifmc.Run, op, class, id string, point interface{}, x, y, z, ta, tb *fp.Elt, want ecurve.Point, payload interface{}) {
	ref := ecurve.Edwards25519()
	bad := func(cls, what string) {
		r.Violation("C13|ed25519."+op+"|"+curvealpha.CoarseKey(cls), id, what, payload)
	}
	if c13EdPreds != nil {
		c13EdPreds(r, op, class, id, point, want, payload)
	} else {
		r.Count("predicate_queries_unavailable", 1)
	}
	zz := *z
	if fp.IsZero(&zz) {
		bad("wrong-result|"+class, id+": z = 0")
		return
	}
	var l, rr, zi, ax, ay fp.Elt
	fp.Mul(&l, ta, tb)
	fp.Mul(&l, &l, z)
	fp.Mul(&rr, x, y)
	fp.Sub(&l, &l, &rr)
	tOK := fp.IsZero(&l)
	fp.Inv(&zi, z)
	fp.Mul(&ax, x, &zi)
	fp.Mul(&ay, y, &zi)
	gx, gy := c13Int(&ax), c13Int(&ay)
	if gx.Cmp(want.X.A) != 0 || gy.Cmp(want.Y.A) != 0 {
		bad("wrong-result|"+class, fmt.Sprintf("%s: got (%x,%x) want %v", id, gx, gy, want))
		return
	}
	if !tOK {
		bad("inconsistent-T|"+class, id+": ta*tb*z != x*y")
	}
	enc := fpx.ToLE(gy, 32)
	enc[31] |= byte(gx.Bit(0)) << 7
	if !bytes.Equal(enc, ref.MarshalRFC8032(want)) {
		bad("wrong-encoding|"+class, fmt.Sprintf("%s: coordinates encode to %x want %x", id, enc, ref.MarshalRFC8032(want)))
	}
}
