//go:build verif

package ed25519

// C05 / in-package sweep of ONE internal routine: clamp (RFC 8032 5.1.5 pruning
// of the secret scalar). The only unexported identifier named here is clamp.

import (
	"bytes"
	"fmt"
	"testing"

	"github.com/cloudflare/circl/internal/verifmc"
)

func TestVerifC05_scalar25519_clamp(t *testing.T) {
	r := verifmc.Start(t, "C05", "scalar25519_clamp")
	defer r.Finish()
	r.Rule("clamp on 64-byte strings whose first 32 bytes are each of the 7^4 limb-alphabet values and every (first byte, byte 31) in {00,07,08,f8,ff} x {00,3f,40,7f,80,bf,c0,ff}, second half ff: equals the RFC 8032 pruning (bits 0-2 cleared, bit 255 cleared, bit 254 set, nothing else touched); distinct = distinct operand")
	low := c05LowAlphabet()
	var ins [][]byte
	tail := bytes.Repeat([]byte{0xff}, 32)
	for li := 0; li < c05NLow; li++ {
		ins = append(ins, append(c05FromLimbs(c05Low256(low, li)), tail...))
	}
	for _, b0 := range []byte{0x00, 0x07, 0x08, 0xf8, 0xff} {
		for _, b31 := range []byte{0x00, 0x3f, 0x40, 0x7f, 0x80, 0xbf, 0xc0, 0xff} {
			x := bytes.Repeat([]byte{0xa5}, 64)
			x[0], x[31] = b0, b31
			ins = append(ins, x)
		}
	}
	res := make([]*c05Bad, len(ins))
	verifmc.ParallelFor(len(ins), func(i int) {
		id := fmt.Sprintf("scalar25519_clamp|%d", i)
		if !r.Want(id) {
			return
		}
		got := append([]byte{}, ins[i]...)
		want := append([]byte{}, ins[i]...)
		clamp(got)
		c05ClampRef(want)
		r.Eval(1)
		r.Distinct(ins[i])
		r.Count("clamp", 1)
		if !bytes.Equal(got, want) {
			res[i] = &c05Bad{"C05|ed25519.clamp|differs-from-rfc8032-pruning", id,
				fmt.Sprintf("clamp(%x) = %x, RFC 8032 pruning gives %x", ins[i][:32], got[:32], want[:32]), fmt.Sprintf("%x", ins[i])}
		}
	})
	c05Report(r, res)
	r.RequireCounter("clamp", int64(len(ins)))
}
