//go:build verif

package ed25519

// C05 / in-package sweep of ONE internal routine: calculateS (S = r + k*a mod L).
// The only unexported identifier named here is calculateS.

import (
	"fmt"
	"math/big"
	"testing"

	"github.com/cloudflare/circl/internal/verifmc"
)

func TestVerifC05_scalar25519_calcs(t *testing.T) {
	r := verifmc.Start(t, "C05", "scalar25519_calcs")
	defer r.Finish()
	r.Rule("calculateS(r,k,a) on the domain signing reaches: r,k in {limbs {0,1,2^64-1}^3 x top limb {0,1,2^60-1}} + {L-1,L-2,(L-1)/2} (all < L), " +
		"a = RFC 8032 pruning of every {0,1,2^64-1}^4 value; compared with big.Int (r+k*a) mod L; distinct = distinct (r,k,a)")
	var rk [][]byte
	three := []uint64{0, 1, ^uint64(0)}
	top := []uint64{0, 1, 1<<60 - 1}
	for i := 0; i < 81; i++ {
		rk = append(rk, c05FromLimbs([]uint64{three[i%3], three[i/3%3], three[i/9%3], top[i/27%3]}))
	}
	for _, v := range []*big.Int{new(big.Int).Sub(c05L, big.NewInt(1)), new(big.Int).Sub(c05L, big.NewInt(2)), new(big.Int).Rsh(c05L, 1)} {
		rk = append(rk, c05ToLE(v, 32))
	}
	var as [][]byte
	seen := map[string]bool{}
	for i := 0; i < 81; i++ {
		a := c05FromLimbs([]uint64{three[i%3], three[i/3%3], three[i/9%3], three[i/27%3]})
		c05ClampRef(a)
		if !seen[string(a)] {
			seen[string(a)] = true
			as = append(as, a)
		}
	}
	for _, v := range rk {
		if c05LE(v).Cmp(c05L) >= 0 {
			t.Fatalf("harness-internal: r/k alphabet value %x is not below L", c05LE(v))
		}
	}
	n := len(rk)
	res := make([]*c05Bad, n*n)
	verifmc.ParallelFor(n*n, func(i int) {
		rr, kk := rk[i/n], rk[i%n]
		R, K := c05LE(rr), c05LE(kk)
		for ai, a := range as {
			id := fmt.Sprintf("scalar25519_calcs|calculateS|%d|%d|%d", i/n, i%n, ai)
			if !r.Want(id) {
				continue
			}
			s := make([]byte, 32)
			calculateS(s, rr, kk, a)
			r.Eval(1)
			r.Distinct("calculateS", rr, kk, a)
			want := new(big.Int).Mul(K, c05LE(a))
			want.Add(want, R).Mod(want, c05L)
			if got := c05LE(s); got.Cmp(want) != 0 {
				r.Count("calculateS-wrong", 1)
				if res[i] == nil {
					cl := c05Class(got, want)
					res[i] = &c05Bad{"C05|ed25519.calculateS|wrong-residue|" + cl, id,
						fmt.Sprintf("calculateS(r,k,a) = %x, (r+k*a) mod L = %x (%s)", got, want, cl),
						fmt.Sprintf("r=%x k=%x a=%x", rr, kk, a)}
				}
			} else {
				r.Count("calculateS-ok", 1)
			}
		}
	})
	c05Report(r, res)
	r.Set("calculateS_operands", map[string]int{"r": n, "k": n, "a": len(as)})
	if r.Replaying() {
		return
	}
	if r.Counter("calculateS-ok")+r.Counter("calculateS-wrong") < int64(n*n*len(as)) {
		r.Vacuous("calculateS alphabet not covered")
	}
}
