//go:build verif

package ed25519

// C05 / in-package sweep of ONE internal routine: reduceModOrder (red512).
// The only unexported identifier named here is reduceModOrder.

import (
	"fmt"
	"math/big"
	"testing"

	"github.com/cloudflare/circl/internal/verifmc"
)

func TestVerifC05_scalar25519(t *testing.T) {
	r := verifmc.Start(t, "C05", "scalar25519")
	defer r.Finish()
	r.Rule("reduceModOrder(512-bit): all 7^4*3^4 values with low limbs in {0,1,2^63,2^64-1,L_i-1,L_i,L_i+1} and high limbs in {0,1,2^64-1}; " +
		"reduceModOrder(256-bit): all 7^4 values raw and clamped (RFC 8032 pruning); each compared with big.Int mod L; distinct = distinct (mode, operand)")
	low := c05LowAlphabet()
	high := []uint64{0, 1, ^uint64(0)}

	// ---- 512-bit reduction
	res := make([]*c05Bad, c05NLow)
	verifmc.ParallelFor(c05NLow, func(li int) {
		var x [8]uint64
		copy(x[:4], c05Low256(low, li))
		for hi := 0; hi < 81; hi++ {
			x[4], x[5], x[6], x[7] = high[hi%3], high[hi/3%3], high[hi/9%3], high[hi/27%3]
			in := c05FromLimbs(x[:])
			id := fmt.Sprintf("scalar25519|red512|%d|%d", li, hi)
			if !r.Want(id) {
				continue
			}
			k := append([]byte{}, in...)
			reduceModOrder(k, true)
			r.Eval(1)
			r.Distinct("red512", in)
			want := new(big.Int).Mod(c05LE(in), c05L)
			got := c05LE(k[:32])
			if got.Cmp(want) != 0 {
				r.Count("red512-wrong", 1)
				if res[li] == nil {
					cl := c05Class(got, want)
					res[li] = &c05Bad{"C05|ed25519.reduceModOrder(512)|wrong-residue|" + cl, id,
						fmt.Sprintf("reduceModOrder(x, true) = %x, x mod L = %x (%s)", got, want, cl), fmt.Sprintf("%x", in)}
				}
			} else {
				r.Count("red512-ok", 1)
			}
			if hi == 0 && li < 3 {
				r.Sample(map[string]string{"fn": "reduceModOrder(512)", "in_le": fmt.Sprintf("%x", in), "out_le": fmt.Sprintf("%x", k[:32])})
			}
		}
	})
	c05Report(r, res)
	r.Set("red512_inputs", c05NLow*81)

	// ---- 256-bit reduction (raw and clamped)
	res = make([]*c05Bad, c05NLow)
	verifmc.ParallelFor(c05NLow, func(li int) {
		for mode := 0; mode < 2; mode++ {
			in := c05FromLimbs(c05Low256(low, li))
			name := "raw"
			if mode == 1 {
				c05ClampRef(in)
				name = "clamped"
			}
			id := fmt.Sprintf("scalar25519|red256|%s|%d", name, li)
			if !r.Want(id) {
				continue
			}
			k := append([]byte{}, in...)
			reduceModOrder(k, false)
			r.Eval(1)
			r.Distinct("red256", in)
			want := new(big.Int).Mod(c05LE(in), c05L)
			if got := c05LE(k); got.Cmp(want) != 0 {
				r.Count("red256-wrong", 1)
				if res[li] == nil {
					cl := c05Class(got, want)
					res[li] = &c05Bad{"C05|ed25519.reduceModOrder(256," + name + ")|wrong-residue|" + cl, id,
						fmt.Sprintf("reduceModOrder(x, false) = %x, x mod L = %x (%s)", got, want, cl), fmt.Sprintf("%x", in)}
				}
			} else {
				r.Count("red256-ok", 1)
			}
		}
	})
	c05Report(r, res)
	if r.Replaying() {
		return
	}
	if r.Counter("red512-ok")+r.Counter("red512-wrong") < c05NLow*81 || r.Counter("red256-ok")+r.Counter("red256-wrong") < 2*c05NLow {
		r.Vacuous("reduction alphabet not covered")
	}
}
