//go:build verif

package ed25519

// C12: the package constant `order` equals the RFC 8032 group order l.
// The only unexported identifier named here is order.

import (
	"testing"

	bf "github.com/cloudflare/circl/internal/verifref/bigfield"
)

func TestVerifC12_ed25519order(t *testing.T) {
	r := c12Start(t, "ed25519order")
	defer r.Finish()
	r.Rule("one constant: order == 2^252 + 27742317777372353535851937790883648493")
	r.Eval(1)
	r.Distinct("order")
	if got := bf.FromLE(order[:]); got.Cmp(bf.L25519) != 0 {
		r.Violation("C12|ed25519.order|wrong-constant|-|-", "ed25519.order", "package order = "+got.Text(16)+", want "+bf.L25519.Text(16), nil)
	}
	r.Sample(map[string]string{"l": bf.L25519.Text(16)})
}
