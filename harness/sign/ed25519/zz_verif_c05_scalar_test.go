//go:build verif

package ed25519

// C05 / Ed25519 scalar arithmetic (in-package: reduceModOrder, calculateS and
// isLessThanOrder are unexported). Every value built from the limb alphabets
// below is reduced / combined by the real code and compared with big.Int
// arithmetic modulo L.

import (
	"encoding/binary"
	"fmt"
	"math/big"
	"testing"

	"github.com/cloudflare/circl/internal/verifmc"
)

var c05L = func() *big.Int {
	l, _ := new(big.Int).SetString("7237005577332262213973186563042994240857116359379907606001950938285454250989", 10)
	return l
}()

func c05Limbs(b []byte) []uint64 {
	out := make([]uint64, len(b)/8)
	for i := range out {
		out[i] = binary.LittleEndian.Uint64(b[8*i:])
	}
	return out
}

func c05FromLimbs(l []uint64) []byte {
	b := make([]byte, 8*len(l))
	for i, v := range l {
		binary.LittleEndian.PutUint64(b[8*i:], v)
	}
	return b
}

func c05LE(b []byte) *big.Int {
	t := make([]byte, len(b))
	for i := range b {
		t[len(b)-1-i] = b[i]
	}
	return new(big.Int).SetBytes(t)
}

func c05ToLE(x *big.Int, n int) []byte {
	be := x.FillBytes(make([]byte, n))
	for i, j := 0, n-1; i < j; i, j = i+1, j-1 {
		be[i], be[j] = be[j], be[i]
	}
	return be
}

// c05Class names how a wrong residue relates to the right one.
func c05Class(got, want *big.Int) string {
	d := new(big.Int).Sub(got, want)
	two256 := new(big.Int).Lsh(big.NewInt(1), 256)
	switch {
	case d.Cmp(new(big.Int).Sub(two256, c05L)) == 0:
		// the last step computed r - q*(L-2^252) < 0 and did not add L back
		return "final-subtraction-underflow-not-corrected"
	case new(big.Int).Mod(d, c05L).Sign() == 0:
		return "congruent-but-not-reduced"
	}
	return "not-congruent"
}

func TestVerifC05_scalar25519(t *testing.T) {
	r := verifmc.Start(t, "C05", "scalar25519")
	defer r.Finish()
	r.Rule("reduceModOrder(512-bit): all 7^4*3^4 values with low limbs in {0,1,2^63,2^64-1,L_i-1,L_i,L_i+1} and high limbs in {0,1,2^64-1}; " +
		"reduceModOrder(256-bit): all 7^4 values raw and clamped; calculateS(r,k,a) on the domain signing reaches: r,k in {limbs {0,1,2^64-1}^3 x top limb {0,1,2^60-1}} + {L-1,L-2,(L-1)/2} (all < L), " +
		"a = clamp of every {0,1,2^64-1}^4 value; isLessThanOrder on the 7^4 values and L+-1; each compared with big.Int mod L; distinct = distinct (function, operands)")
	if c05LE(order[:]).Cmp(c05L) != 0 {
		r.Violation("C05|ed25519.order|constant-differs", "scalar25519|order", "package constant order differs from RFC 8032 L", nil)
	}
	Lw := c05Limbs(order[:])
	low := make([][]uint64, 4)
	for i := range low {
		low[i] = []uint64{0, 1, 1 << 63, ^uint64(0), Lw[i] - 1, Lw[i], Lw[i] + 1}
	}
	high := []uint64{0, 1, ^uint64(0)}

	// ---- 512-bit reduction
	const nLow = 7 * 7 * 7 * 7
	type bad struct{ key, id, what, in string }
	res := make([]*bad, nLow)
	verifmc.ParallelFor(nLow, func(li int) {
		var x [8]uint64
		x[0], x[1], x[2], x[3] = low[0][li%7], low[1][li/7%7], low[2][li/49%7], low[3][li/343%7]
		for hi := 0; hi < 81; hi++ {
			x[4], x[5], x[6], x[7] = high[hi%3], high[hi/3%3], high[hi/9%3], high[hi/27%3]
			in := c05FromLimbs(x[:])
			id := fmt.Sprintf("scalar25519|red512|%d|%d", li, hi)
			if !r.Want(id) {
				continue
			}
			k := append([]byte{}, in...)
			reduceModOrder(k, true)
			r.Eval(1)
			r.Distinct("red512", in)
			want := new(big.Int).Mod(c05LE(in), c05L)
			got := c05LE(k[:32])
			if got.Cmp(want) != 0 {
				r.Count("red512-wrong", 1)
				if res[li] == nil {
					cl := c05Class(got, want)
					res[li] = &bad{"C05|ed25519.reduceModOrder(512)|wrong-residue|" + cl, id,
						fmt.Sprintf("reduceModOrder(x, true) = %x, x mod L = %x (%s)", got, want, cl), fmt.Sprintf("%x", in)}
				}
			} else {
				r.Count("red512-ok", 1)
			}
			if hi == 0 && li < 3 {
				r.Sample(map[string]string{"fn": "reduceModOrder(512)", "in_le": fmt.Sprintf("%x", in), "out_le": fmt.Sprintf("%x", k[:32])})
			}
		}
	})
	for _, b := range res {
		if b != nil {
			r.Violation(b.key, b.id, b.what, map[string]string{"input_le": b.in})
		}
	}
	r.Set("red512_inputs", nLow*81)

	// ---- 256-bit reduction (raw and clamped), isLessThanOrder
	res = make([]*bad, nLow)
	verifmc.ParallelFor(nLow, func(li int) {
		x := []uint64{low[0][li%7], low[1][li/7%7], low[2][li/49%7], low[3][li/343%7]}
		for mode := 0; mode < 2; mode++ {
			in := c05FromLimbs(x)
			name := "raw"
			if mode == 1 {
				clamp(in)
				name = "clamped"
			}
			id := fmt.Sprintf("scalar25519|red256|%s|%d", name, li)
			if !r.Want(id) {
				continue
			}
			k := append([]byte{}, in...)
			reduceModOrder(k, false)
			r.Eval(1)
			want := new(big.Int).Mod(c05LE(in), c05L)
			if got := c05LE(k); got.Cmp(want) != 0 {
				r.Count("red256-wrong", 1)
				if res[li] == nil {
					cl := c05Class(got, want)
					res[li] = &bad{"C05|ed25519.reduceModOrder(256," + name + ")|wrong-residue|" + cl, id,
						fmt.Sprintf("reduceModOrder(x, false) = %x, x mod L = %x (%s)", got, want, cl), fmt.Sprintf("%x", in)}
				}
			} else {
				r.Count("red256-ok", 1)
			}
			r.Distinct("red256", in)
			if mode == 0 {
				lt := isLessThanOrder(in)
				r.Eval(1)
				if lt != (c05LE(in).Cmp(c05L) < 0) && res[li] == nil {
					res[li] = &bad{"C05|ed25519.isLessThanOrder|wrong-answer|limb-alphabet", id + "|lt",
						fmt.Sprintf("isLessThanOrder(%x) = %v", c05LE(in), lt), fmt.Sprintf("%x", in)}
				}
				r.Count("isLessThanOrder", 1)
			}
		}
	})
	for _, b := range res {
		if b != nil {
			r.Violation(b.key, b.id, b.what, map[string]string{"input_le": b.in})
		}
	}

	// ---- calculateS on the domain reached by signing
	var rk [][]byte
	three := []uint64{0, 1, ^uint64(0)}
	top := []uint64{0, 1, 1<<60 - 1}
	for i := 0; i < 81; i++ {
		rk = append(rk, c05FromLimbs([]uint64{three[i%3], three[i/3%3], three[i/9%3], top[i/27%3]}))
	}
	for _, v := range []*big.Int{new(big.Int).Sub(c05L, big.NewInt(1)), new(big.Int).Sub(c05L, big.NewInt(2)), new(big.Int).Rsh(c05L, 1)} {
		rk = append(rk, c05ToLE(v, 32))
	}
	var as [][]byte
	seen := map[string]bool{}
	for i := 0; i < 81; i++ {
		a := c05FromLimbs([]uint64{three[i%3], three[i/3%3], three[i/9%3], three[i/27%3]})
		clamp(a)
		if !seen[string(a)] {
			seen[string(a)] = true
			as = append(as, a)
		}
	}
	for _, v := range rk {
		if c05LE(v).Cmp(c05L) >= 0 {
			t.Fatalf("harness-internal: r/k alphabet value %x is not below L", c05LE(v))
		}
	}
	n := len(rk)
	res = make([]*bad, n*n)
	verifmc.ParallelFor(n*n, func(i int) {
		rr, kk := rk[i/n], rk[i%n]
		R, K := c05LE(rr), c05LE(kk)
		for ai, a := range as {
			id := fmt.Sprintf("scalar25519|calculateS|%d|%d|%d", i/n, i%n, ai)
			if !r.Want(id) {
				continue
			}
			s := make([]byte, 32)
			calculateS(s, rr, kk, a)
			r.Eval(1)
			r.Distinct("calculateS", rr, kk, a)
			want := new(big.Int).Mul(K, c05LE(a))
			want.Add(want, R).Mod(want, c05L)
			if got := c05LE(s); got.Cmp(want) != 0 {
				r.Count("calculateS-wrong", 1)
				if res[i] == nil {
					cl := c05Class(got, want)
					res[i] = &bad{"C05|ed25519.calculateS|wrong-residue|" + cl, id,
						fmt.Sprintf("calculateS(r,k,a) = %x, (r+k*a) mod L = %x (%s)", got, want, cl),
						fmt.Sprintf("r=%x k=%x a=%x", rr, kk, a)}
				}
			} else {
				r.Count("calculateS-ok", 1)
			}
		}
	})
	for _, b := range res {
		if b != nil {
			r.Violation(b.key, b.id, b.what, map[string]string{"input_le": b.in})
		}
	}
	r.Set("calculateS_operands", map[string]int{"r": n, "k": n, "a": len(as)})
	r.RequireCounter("isLessThanOrder", nLow)
	if r.Replaying() {
		return
	}
	if r.Counter("red512-ok")+r.Counter("red512-wrong") < nLow*81 {
		r.Vacuous("512-bit alphabet not covered")
	}
	if r.Counter("calculateS-ok")+r.Counter("calculateS-wrong") < int64(n*n*len(as)) {
		r.Vacuous("calculateS alphabet not covered")
	}
}
