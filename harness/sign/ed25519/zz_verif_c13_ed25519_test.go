//go:build verif

package ed25519

// C13 / Ed25519 group (internal): pointR1.double/add/mixAdd/neg, fixedMult
// (mLSB-set fixed-base multiplication) and doubleMult (interleaved w-NAF
// double-scalar multiplication) against the affine big.Int model ref/ecurve.
// In-package: the group has no exported API in sign/ed25519.

import (
	"bytes"
	"fmt"
	"math/big"
	"testing"

	"github.com/cloudflare/circl/internal/verifmc"
	"github.com/cloudflare/circl/internal/verifref/curvealpha"
	"github.com/cloudflare/circl/internal/verifref/ecurve"
	"github.com/cloudflare/circl/internal/verifref/fpx"
	fp "github.com/cloudflare/circl/math/fp25519"
)

func c13Elt(v *big.Int) (e fp.Elt) { copy(e[:], fpx.ToLE(v, fp.Size)); return }

func c13Int(e *fp.Elt) *big.Int {
	t := *e
	fp.Modp(&t)
	return fpx.FromLE(t[:])
}

func c13R1(P ecurve.Point) *pointR1 {
	x, y := c13Elt(P.X.A), c13Elt(P.Y.A)
	Q := &pointR1{x: x, y: y, ta: x, tb: y}
	fp.SetOne(&Q.z)
	return Q
}

func c13Rel(m, n, N *big.Int) string {
	mm, nn := new(big.Int).Mod(m, N), new(big.Int).Mod(n, N)
	switch {
	case mm.Cmp(nn) == 0:
		return "m=n"
	case new(big.Int).Mod(new(big.Int).Add(mm, nn), N).Sign() == 0:
		return "m=-n"
	}
	return "m,n unrelated"
}

func TestVerifC13_ed25519(t *testing.T) {
	r := verifmc.Start(t, "C13", "ed25519")
	defer r.Finish()
	r.Rule("edwards25519 internals: points PT = {O, +-kB, [(l+-1)/2]B, +-[s]B} from the reference's affine coordinates (and through FromBytes of its RFC 8032 encoding); " +
		"add (projective table entry) and mixAdd (affine table entry) on PT x PT, double/neg on PT, fixedMult on SC = curvealpha.Scalars(l, 256) as 32-byte little-endian, " +
		"doubleMult(Q, m, n) = mB + nQ on SCc x SCc x PTc plus SC x {1, l-1} x {B} and {1, l-1} x SC x {B} (thorough: SC x SC x PT); results compared as affine coordinates and RFC 8032 encodings; before that isEqual is queried directly on byte-identical copies of each freshly computed result (against the expected point, SetIdentity, a computed identity T+(-T), the same point by another route, a different point), including the chain ((P+Q)-Q)-P; distinct = distinct (operation, operand names)")
	ref := ecurve.Edwards25519()
	N := ref.N
	if !bytes.Equal(fpx.ToLE(N, 32), order[:32]) || c13Int(&paramD).Cmp(ref.D.A) != 0 {
		r.Violation("C13|ed25519.params|differ", "params", "package constants order/paramD differ from RFC 8032", nil)
	}
	sc := curvealpha.Scalars(N, 256, r.Seed())
	logs := curvealpha.PointLogs(N)
	r.Set("scalars", len(sc))
	r.Set("points", len(logs))
	r.State(len(logs))
	refPts := make([]ecurve.Point, len(logs))
	for i, a := range logs {
		refPts[i] = ref.BaseMult(a.V)
	}
	bad := func(op, class, id, what string, payload interface{}) {
		r.Violation("C13|ed25519."+op+"|"+curvealpha.CoarseKey(class), id, what, payload)
	}
	// preds queries the only predicate of the internal group (isEqual) DIRECTLY on
	// byte-identical copies of a freshly computed value, before anything normalises it.
	Tp := ref.BaseMult(big.NewInt(0x51ed27))
	preds := func(op, class, id string, got *pointR1, want ecurve.Point, payload interface{}) {
		fresh := func() *pointR1 { f := *got; return &f }
		isID := ref.IsIdentity(want)
		kind := "non-identity"
		if isID {
			kind = "identity"
			r.Count("identity_results_queried", 1)
		} else {
			r.Count("non_identity_results_queried", 1)
		}
		fail := func(pred string, v, exp bool) {
			if v != exp {
				bad(op, "predicate:"+pred+"|fresh-result|"+kind+"|"+class, id,
					fmt.Sprintf("%s: %s = %v on the freshly computed result (raw coordinates %v), the reference says %v (result should be %v)", id, pred, v, *got, exp, want), payload)
			}
		}
		fail("isEqual(expected)", fresh().isEqual(c13R1(want)), true)
		fail("expected.isEqual(result)", c13R1(want).isEqual(fresh()), true)
		var I pointR1
		I.SetIdentity()
		fail("isEqual(SetIdentity)", fresh().isEqual(&I), isID)
		fail("SetIdentity.isEqual(result)", I.isEqual(fresh()), isID)
		CI := c13R1(Tp) // an identity produced by arithmetic: T + (-T), projective
		var nT pointR2
		nT.fromR1(c13R1(ref.Neg(Tp)))
		CI.add(&nT)
		fail("isEqual(T+(-T))", fresh().isEqual(CI), isID)
		fail("(T+(-T)).isEqual(result)", CI.isEqual(fresh()), isID)
		alt := c13R1(ref.Sub(want, Tp)) // the same point by another route
		var t2 pointR2
		t2.fromR1(c13R1(Tp))
		alt.add(&t2)
		fail("isEqual(other-route)", fresh().isEqual(alt), true)
		fail("isEqual(different-point)", fresh().isEqual(c13R1(ref.Add(want, ref.G))), false)
		fail("isEqual(-expected)", fresh().isEqual(c13R1(ref.Neg(want))), isID)
	}
	check := func(op, class, id string, got *pointR1, want ecurve.Point, payload interface{}) {
		preds(op, class, id, got, want, payload)
		g := *got
		if fp.IsZero(&g.z) {
			bad(op, "wrong-result|"+class, id, id+": z = 0", payload)
			return
		}
		// extended coordinate consistent before normalisation
		var l, rr fp.Elt
		fp.Mul(&l, &g.ta, &g.tb)
		fp.Mul(&l, &l, &g.z)
		fp.Mul(&rr, &g.x, &g.y)
		fp.Sub(&l, &l, &rr)
		tOK := fp.IsZero(&l)
		g.toAffine()
		if c13Int(&g.x).Cmp(want.X.A) != 0 || c13Int(&g.y).Cmp(want.Y.A) != 0 {
			bad(op, "wrong-result|"+class, id, fmt.Sprintf("%s: got (%x,%x) want %v", id, c13Int(&g.x), c13Int(&g.y), want), payload)
			return
		}
		if !tOK {
			bad(op, "inconsistent-T|"+class, id, id+": ta*tb*z != x*y", payload)
		}
		g2 := *got
		var enc [32]byte
		if err := g2.ToBytes(enc[:]); err != nil || !bytes.Equal(enc[:], ref.MarshalRFC8032(want)) {
			bad(op, "wrong-encoding|"+class, id, fmt.Sprintf("%s: encodes to %x want %x", id, enc, ref.MarshalRFC8032(want)), payload)
		}
		if !got.isEqual(c13R1(want)) {
			bad(op, "isEqual|"+class, id, id+": result not isEqual to the expected point", payload)
		}
	}
	try := func(op, id string, f func()) bool {
		if p, what := verifmc.Try(f); p {
			bad(op, "panic:"+verifmc.PanicClass(what), id, what, nil)
			return false
		}
		return true
	}

	for i, a := range logs {
		var P pointR1
		if !P.FromBytes(ref.MarshalRFC8032(refPts[i])) {
			bad("FromBytes", "rejects-valid|P="+a.Name, "dec/"+a.Name, "reference encoding rejected", nil)
			continue
		}
		check("FromBytes", "P="+a.Name, "dec/"+a.Name, &P, refPts[i], nil)
		r.Eval(1)
	}

	// ---- add / mixAdd on PT x PT; double, neg on PT
	verifmc.ParallelFor(len(logs)*len(logs), func(idx int) {
		i, j := idx/len(logs), idx%len(logs)
		a, b := logs[i], logs[j]
		id := "add/" + a.Name + "/" + b.Name
		if r.Want(id) {
			want := ref.BaseMult(new(big.Int).Add(a.V, b.V))
			P := c13R1(refPts[i])
			var q2 pointR2
			q2.fromR1(c13R1(refPts[j]))
			if try("add", id, func() { P.add(&q2) }) {
				check("add", "P="+a.Name+"|Q="+b.Name, id, P, want, nil)
			}
			// the same operand as an affine table entry (pointR3)
			M := c13R1(refPts[i])
			q3 := q2.pointR3 // z2 = 2 means z = 1, so the R3 part is the affine precomputation
			if try("mixAdd", id+"/mix", func() { M.mixAdd(&q3) }) {
				check("mixAdd", "P="+a.Name+"|Q="+b.Name, id+"/mix", M, want, nil)
			}
			// accumulator in projective form: (P+Q) + (-Q) = P
			nq := c13R1(refPts[j])
			nq.neg()
			var nq2 pointR2
			nq2.fromR1(nq)
			B := *P
			if try("add", id+"/back", func() { B.add(&nq2) }) {
				check("add", "projective-accumulator|P="+a.Name+"|Q="+b.Name, id+"/back", &B, refPts[i], nil)
				// chain to the identity through non-normalised operands: ((P+Q)-Q)-P
				np := c13R1(refPts[i])
				np.neg()
				var np2 pointR2
				np2.fromR1(np)
				Z := B
				if try("add", id+"/chain", func() { Z.add(&np2) }) {
					check("add", "chain-to-identity|P="+a.Name+"|Q="+b.Name, id+"/chain", &Z, ref.Identity(), nil)
				}
			}
			r.Eval(4)
			r.Transition(3)
			r.Distinct("add", a.Name, b.Name)
			switch {
			case a.V.Sign() == 0 || b.V.Sign() == 0:
				r.Count("add_with_identity", 1)
			case a.V.Cmp(b.V) == 0:
				r.Count("add_P_eq_Q", 1)
			case new(big.Int).Mod(new(big.Int).Add(a.V, b.V), N).Sign() == 0:
				r.Count("add_P_eq_negQ", 1)
			}
		}
		if j == 0 && r.Want("dbl/"+a.Name) {
			D := c13R1(refPts[i])
			if try("double", "dbl/"+a.Name, func() { D.double() }) {
				check("double", "P="+a.Name, "dbl/"+a.Name, D, ref.BaseMult(new(big.Int).Lsh(a.V, 1)), nil)
				// doubling a projective point again
				if try("double", "dbl2/"+a.Name, func() { D.double() }) {
					check("double", "projective|P="+a.Name, "dbl2/"+a.Name, D, ref.BaseMult(new(big.Int).Lsh(a.V, 2)), nil)
				}
			}
			Ng := c13R1(refPts[i])
			Ng.neg()
			check("neg", "P="+a.Name, "neg/"+a.Name, Ng, ref.Neg(refPts[i]), nil)
			r.Eval(3)
			r.Transition(3)
			r.Distinct("dbl", a.Name)
			r.Distinct("neg", a.Name)
		}
	})
	r.Sample(map[string]string{"op": "add", "P": logs[1].Name, "Q": logs[1].Name})

	// ---- fixedMult on SC
	verifmc.ParallelFor(len(sc), func(i int) {
		s := sc[i]
		id := "fixed/" + s.Name
		if !r.Want(id) {
			return
		}
		kb := fpx.ToLE(s.V, 32)
		var P pointR1
		if try("fixedMult", id, func() { P.fixedMult(kb) }) {
			check("fixedMult", "k="+s.Name, id, &P, ref.BaseMult(s.V), map[string]string{"k_le": verifmc.FullHex(kb)})
		}
		r.Eval(1)
		r.Transition(1)
		r.Distinct("fixed", s.Name)
		if s.V.Cmp(N) >= 0 {
			r.Count("scalar_ge_order", 1)
		}
		if s.V.Bit(0) == 0 {
			r.Count("even_scalar", 1)
		}
		if new(big.Int).Mod(s.V, N).Sign() == 0 {
			r.Count("result_identity", 1)
		}
	})
	r.Sample(map[string]string{"op": "fixedMult", "k": "l-1", "k_le": verifmc.FullHex(fpx.ToLE(new(big.Int).Sub(N, big.NewInt(1)), 32))})

	// ---- doubleMult(Q, m, n) = mB + nQ
	ms := curvealpha.Core(sc)
	var qs []int
	for i, a := range logs {
		if a.Core || r.Thorough() {
			qs = append(qs, i)
		}
	}
	if r.Thorough() {
		ms = sc
	}
	type job struct {
		m, n curvealpha.Scalar
		q    int
	}
	var jobs []job
	for _, m := range ms {
		for _, n := range ms {
			for _, q := range qs {
				jobs = append(jobs, job{m, n, q})
			}
		}
	}
	if !r.Thorough() {
		for _, s := range sc {
			for _, c := range ms {
				if c.Name == "1" || c.Name == "n-1" {
					jobs = append(jobs, job{s, c, 1}, job{c, s, 1})
				}
			}
		}
	}
	r.Set("doublemult_cases", len(jobs))
	verifmc.ParallelFor(len(jobs), func(idx int) {
		jb := jobs[idx]
		m, n, a := jb.m, jb.n, logs[jb.q]
		id := "dmult/" + m.Name + "/" + n.Name + "/" + a.Name
		if !r.Want(id) || r.Expired() {
			return
		}
		ex := new(big.Int).Mul(n.V, a.V)
		ex.Add(ex, m.V)
		rel := c13Rel(m.V, n.V, N)
		mb, nb := fpx.ToLE(m.V, 32), fpx.ToLE(n.V, 32)
		var P pointR1
		Q := c13R1(refPts[jb.q])
		if try("doubleMult", id, func() { P.doubleMult(Q, mb, nb) }) {
			check("doubleMult", "Q="+a.Name+"|"+rel, id, &P, ref.BaseMult(ex),
				map[string]string{"m_le": verifmc.FullHex(mb), "n_le": verifmc.FullHex(nb), "Q": verifmc.FullHex(ref.MarshalRFC8032(refPts[jb.q]))})
		}
		r.Eval(1)
		r.Transition(1)
		r.Distinct("dmult", m.Name, n.Name, a.Name)
		if a.Name == "1G" && rel == "m=n" {
			r.Count("dmult_Q_eq_B_and_m_eq_n", 1)
		}
		if rel == "m=-n" {
			r.Count("dmult_m_eq_neg_n", 1)
		}
		if a.V.Sign() == 0 {
			r.Count("dmult_Q_identity", 1)
		}
	})
	r.Sample(map[string]string{"op": "doubleMult", "m": "1", "n": "1", "Q": "1G"})

	r.RequireCounter("add_P_eq_Q", 5)
	r.RequireCounter("add_P_eq_negQ", 5)
	r.RequireCounter("add_with_identity", 10)
	r.RequireCounter("scalar_ge_order", 5)
	r.RequireCounter("even_scalar", 20)
	r.RequireCounter("result_identity", 3)
	r.RequireCounter("dmult_Q_eq_B_and_m_eq_n", 5)
	r.RequireCounter("dmult_m_eq_neg_n", 3)
	r.RequireCounter("dmult_Q_identity", 10)
	r.RequireCounter("identity_results_queried", 300)
	r.RequireCounter("non_identity_results_queried", 1000)
}
