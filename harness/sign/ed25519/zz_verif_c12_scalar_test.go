//go:build verif

package ed25519

// C12 for the Ed25519 scalar field: reduceModOrder / red512 / calculateS
// (sign/ed25519/modular.go) against math/big mod
// l = 2^252 + 27742317777372353535851937790883648493.

import (
	"math/big"
	"testing"

	"github.com/cloudflare/circl/internal/verifmc"
	bf "github.com/cloudflare/circl/internal/verifref/bigfield"
)

type c12Buf struct{ b []byte }

func c12ScalarField(name string, size int) *bf.Field {
	return &bf.Field{
		Prop: "C12", Name: name, P: bf.L25519, Hex: 2 * size,
		New: func() bf.Elem { return &c12Buf{make([]byte, size)} },
		Load: func(z bf.Elem, v *big.Int) bool {
			if v.Sign() < 0 || v.BitLen() > 8*size {
				return false
			}
			copy(z.(*c12Buf).b, bf.LE(v, size))
			return true
		},
		Copy: func(d, s bf.Elem) { copy(d.(*c12Buf).b, s.(*c12Buf).b) },
		Raw:  func(x bf.Elem) *big.Int { return bf.FromLE(x.(*c12Buf).b) },
		Same: func(a, b bf.Elem) bool { return string(a.(*c12Buf).b) == string(b.(*c12Buf).b) },
		Par:  verifmc.ParallelFor,
	}
}

// c12ScalarAlphabet: integers below 2^bits built around multiples of l, of
// 2^252 (the split point of the final reduction step), limb boundaries and limb products.
func c12ScalarAlphabet(bits uint, thorough bool) []bf.Operand {
	l := bf.L25519
	lim := bf.Pow2(bits)
	c := new(big.Int).Sub(l, bf.Pow2(252)) // l = 2^252 + c
	var ops []bf.Operand
	add := func(v *big.Int, name string) {
		ops = append(ops, bf.Around(v, -2, 2, name)...)
	}
	// multiples of l
	qmax := new(big.Int).Div(lim, l)
	for _, k := range []int64{0, 1, 2, 3, 7, 8, 14, 15, 16, 17, 31, 32} {
		add(new(big.Int).Mul(l, big.NewInt(k)), "k*l")
	}
	for _, d := range []int64{0, 1, 2, 15, 16, 17} {
		k := new(big.Int).Sub(qmax, big.NewInt(d))
		if k.Sign() >= 0 {
			add(new(big.Int).Mul(l, k), "(qmax-d)*l")
		}
	}
	// j*2^252 + e*c: the last step subtracts q0*l with q0 = x>>252; the remainder r' - q0*c goes negative when r' < q0*c
	for j := int64(0); j <= 17; j++ {
		b := new(big.Int).Mul(bf.Pow2(252), big.NewInt(j))
		for _, e := range []int64{0, 1, j - 1, j, j + 1, 16} {
			if e < 0 {
				continue
			}
			add(new(big.Int).Add(b, new(big.Int).Mul(c, big.NewInt(e))), "j*2^252+e*c")
		}
	}
	for j := uint(1); 64*j <= bits; j++ {
		add(bf.Pow2(64*j), "2^64j")
		add(new(big.Int).Mul(bf.Pow2(64*j), c), "c*2^64j")
		add(new(big.Int).Mul(bf.Pow2(64*j), l), "l*2^64j")
		// multiples of l just above a limb boundary
		k := new(big.Int).Div(bf.Pow2(64*j), l)
		add(new(big.Int).Mul(k, l), "floor(2^64j/l)*l")
		add(new(big.Int).Mul(k.Add(k, big.NewInt(1)), l), "ceil(2^64j/l)*l")
	}
	for j := uint(250); j <= bits && j <= 262; j++ {
		add(bf.Pow2(j), "2^j")
	}
	n := int(bits / 64)
	wide := []uint64{0, 1, 2, 1<<32 - 1, 1 << 32, 1<<60 - 1, 1 << 60, 1<<63 - 1, 1 << 63, ^uint64(0) - 1, ^uint64(0)}
	core := []uint64{0, ^uint64(0)}
	if thorough || n <= 4 {
		core = []uint64{0, 1, ^uint64(0)}
	}
	if thorough && n <= 4 {
		core = []uint64{0, 1, 1 << 60, 1 << 63, ^uint64(0)}
	}
	lp := bf.LimbProduct(n, bf.Rep(n, core), bf.Rep(n, wide), 2)
	var ps []bf.Operand
	for k := 0; k < 32; k++ {
		ps = append(ps, bf.Operand{V: bf.Pseudo("ed25519-scalar", k, lim), Name: "pseudo"})
	}
	return bf.Append(lim, ops, lp, ps)
}

func TestVerifC12_ed25519scalar(t *testing.T) {
	if verifmcConfig() != "default" {
		t.Skip("pure Go code: identical in every configuration; run under default only")
	}
	r := verifmc.Start(t, "C12", "ed25519scalar")
	defer r.Finish()
	if bad := bf.SelfCheck(); len(bad) != 0 {
		t.Fatalf("reference constants not bound: %v", bad)
	}
	if bf.FromLE(order[:]).Cmp(bf.L25519) != 0 {
		t.Fatalf("package order differs from RFC 8032 l")
	}
	r.Rule("operands: 256- and 512-bit little-endian strings built around multiples of l, around j*2^252+e*c (c=l-2^252, the split of the last reduction step), limb boundaries, limb products (<=2 limbs away from 00../FF.. over 11 limb values, full product of a small core) and 32 pseudo-random values; reduceModOrder on every element in both modes; calculateS on all ordered (k,a) pairs of a 256-bit key list for 6 values of r; pair sweeps above 1.5e6 cases are counted by the ordered_pairs counters instead of being hashed into distinct_nontrivial; a distinct case is one (operation, operand tuple)")
	r.NotExhaustive("operands are the declared alphabet, not all 2^512 strings")

	f64 := c12ScalarField("ed25519.scalar512", 64)
	f32 := c12ScalarField("ed25519.scalar256", 32)
	a64 := f64.Prepare("w", c12ScalarAlphabet(512, r.Thorough()))
	a32 := f32.Prepare("n", c12ScalarAlphabet(256, r.Thorough()))
	r.Set("elements_512", a64.Len())
	r.Set("elements_256", a32.Len())

	red := func(full bool) func(z, x bf.Elem) {
		return func(z, x bf.Elem) {
			copy(z.(*c12Buf).b, x.(*c12Buf).b)
			reduceModOrder(z.(*c12Buf).b, full)
		}
	}
	f64.CheckUn(r, bf.UnOp{Name: "reduceModOrder(full)", Do: red(true), Ref: bf.RefId, Canon: true, NoAlias: true}, a64, true)
	f32.CheckUn(r, bf.UnOp{Name: "reduceModOrder(full)", Do: red(true), Ref: bf.RefId, Canon: true, NoAlias: true}, a32, true)
	f32.CheckUn(r, bf.UnOp{Name: "reduceModOrder(256)", Do: red(false), Ref: bf.RefId, Canon: true, NoAlias: true}, a32, true)

	// the subset the signing code feeds to the 256-bit mode: clamped scalars (bits 0..2 and 255 clear, bit 254 set)
	var clamped []bf.Operand
	for _, o := range a32.Ops {
		b := bf.LE(o.V, 32)
		b[0] &= 248
		b[31] &= 127
		b[31] |= 64
		clamped = append(clamped, bf.Operand{V: bf.FromLE(b), Name: "clamp(" + o.Name + ")"})
	}
	cl := f32.Prepare("c", bf.Append(bf.Pow2(256), clamped))
	r.Set("clamped_elements", cl.Len())
	f32.CheckUn(r, bf.UnOp{Name: "reduceModOrder(256,clamped)", Do: red(false), Ref: bf.RefId, Canon: true, NoAlias: true}, cl, true)

	// calculateS: s = r + k*a mod l
	key := f32.Prepare("k", bf.Thin(a32.Ops, r.Pick(120, 400)))
	r.Set("calculateS_elements", key.Len())
	for ri, rv := range []*big.Int{new(big.Int), big.NewInt(1), new(big.Int).Sub(bf.L25519, big.NewInt(1)), bf.L25519, new(big.Int).Sub(bf.Pow2(256), big.NewInt(1)), bf.Pseudo("ed25519-r", 0, bf.Pow2(256))} {
		rb := bf.LE(rv, 32)
		rv := rv
		f32.CheckBin(r, bf.BinOp{Name: "calculateS", NoAlias: true,
			Do:  func(z, x, y bf.Elem) { calculateS(z.(*c12Buf).b, rb, x.(*c12Buf).b, y.(*c12Buf).b) },
			Ref: func(out, x, y, p *big.Int) bool { out.Mul(x, y).Add(out, rv).Mod(out, p); return true }, Canon: true}, key, key, ri == 0)
	}
	// isLessThan(x, order) on every 256-bit element
	f32.CheckPred(r, bf.Pred{Name: "isLessThan(order)", Do: func(x bf.Elem) bool { return isLessThan(x.(*c12Buf).b, order[:]) },
		Ref: func(x, p *big.Int) bool { return x.Cmp(p) < 0 }}, a32)
	for i := 0; i < 3; i++ {
		k := i*a64.Len()/3 + 5
		r.Sample(map[string]string{"element": a64.Ops[k].Name, "value": a64.Ops[k].V.Text(16)})
	}
}
