//go:build verif

package ed25519

// C12: reduceModOrder (sign/ed25519/modular.go; red512 underneath) against math/big mod l.
// The only unexported identifier named here is reduceModOrder.

import (
	"testing"

	bf "github.com/cloudflare/circl/internal/verifref/bigfield"
)

func TestVerifC12_ed25519scalar(t *testing.T) {
	r := c12Start(t, "ed25519scalar")
	defer r.Finish()
	r.Rule(c12AlphabetRule + "reduceModOrder on every element in both modes and on the clamped scalars the signing code feeds to the 256-bit mode; a distinct case is one (operation, operand)")
	f64 := c12ScalarField("ed25519.scalar512", 64)
	f32 := c12ScalarField("ed25519.scalar256", 32)
	a64 := f64.Prepare("w", c12ScalarAlphabet(512, r.Thorough()))
	a32 := f32.Prepare("n", c12ScalarAlphabet(256, r.Thorough()))
	r.Set("elements_512", a64.Len())
	r.Set("elements_256", a32.Len())
	red := func(full bool) func(z, x bf.Elem) {
		return func(z, x bf.Elem) {
			copy(z.(*c12Buf).b, x.(*c12Buf).b)
			reduceModOrder(z.(*c12Buf).b, full)
		}
	}
	f64.CheckUn(r, bf.UnOp{Name: "reduceModOrder(full)", Do: red(true), Ref: bf.RefId, Canon: true, NoAlias: true}, a64, true)
	f32.CheckUn(r, bf.UnOp{Name: "reduceModOrder(full)", Do: red(true), Ref: bf.RefId, Canon: true, NoAlias: true}, a32, true)
	f32.CheckUn(r, bf.UnOp{Name: "reduceModOrder(256)", Do: red(false), Ref: bf.RefId, Canon: true, NoAlias: true}, a32, true)
	// the subset the signing code feeds to the 256-bit mode: clamped scalars (bits 0..2 and 255 clear, bit 254 set)
	var clamped []bf.Operand
	for _, o := range a32.Ops {
		b := bf.LE(o.V, 32)
		b[0] &= 248
		b[31] &= 127
		b[31] |= 64
		clamped = append(clamped, bf.Operand{V: bf.FromLE(b), Name: "clamp(" + o.Name + ")"})
	}
	cl := f32.Prepare("c", bf.Append(bf.Pow2(256), clamped))
	r.Set("clamped_elements", cl.Len())
	f32.CheckUn(r, bf.UnOp{Name: "reduceModOrder(256,clamped)", Do: red(false), Ref: bf.RefId, Canon: true, NoAlias: true}, cl, true)
	r.RequireCounter("ed25519.scalar512.reduceModOrder(full)", 1000)
	for i := 0; i < 3; i++ {
		k := i*a64.Len()/3 + 5
		r.Sample(map[string]string{"element": a64.Ops[k].Name, "value": a64.Ops[k].V.Text(16)})
	}
}
