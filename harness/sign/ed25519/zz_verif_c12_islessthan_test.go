//go:build verif

package ed25519

// C12: isLessThan(x, y) (little-endian byte strings, sign/ed25519/modular.go) against math/big.
// The only unexported identifier named here is isLessThan.

import (
	"math/big"
	"testing"

	bf "github.com/cloudflare/circl/internal/verifref/bigfield"
)

func TestVerifC12_ed25519islessthan(t *testing.T) {
	r := c12Start(t, "ed25519islessthan")
	defer r.Finish()
	r.Rule(c12AlphabetRule + "isLessThan(x, l) on every 256-bit element (l written from RFC 8032, not read from the package); a distinct case is one operand")
	f32 := c12ScalarField("ed25519.scalar256", 32)
	a32 := f32.Prepare("n", c12ScalarAlphabet(256, r.Thorough()))
	ell := bf.LE(bf.L25519, 32)
	f32.CheckPred(r, bf.Pred{Name: "isLessThan(order)", Do: func(x bf.Elem) bool { return isLessThan(x.(*c12Buf).b, ell) },
		Ref: func(x, p *big.Int) bool { return x.Cmp(p) < 0 }}, a32)
	for i := range a32.Ops {
		r.Distinct("isLessThan", i)
	}
	r.RequireCounter("ed25519.scalar256.isLessThan(order)", 500)
	r.RequireCounter("ed25519.scalar256.isLessThan(order).true", 100)
	r.Sample(map[string]string{"x": a32.Ops[7].V.Text(16)})
}
