//go:build verif

package ed25519_test

// C05 / Ed25519, Ed25519ctx, Ed25519ph: key generation, signing and
// verification through every exported route, against the RFC 8032
// transcription ref/eddsa (big.Int) and, for signing, crypto/ed25519 as a
// second independent oracle. Units:
//
//	refcheck25519  binds ref/eddsa to RFC 8032 section 7.1 (the vectors of
//	               ref/testdata/c05_rfc8032.json), testdata/sign.input.zip,
//	               testdata/wycheproof_Ed25519.json and crypto/ed25519
//	sign25519      public key and signature bytes for seeds x messages x contexts
//	verify25519    three-valued verification oracle on every enumerated alteration

import (
	"archive/zip"
	"bufio"
	"bytes"
	"crypto"
	stded "crypto/ed25519"
	"crypto/sha512"
	"encoding/hex"
	"encoding/json"
	"fmt"
	"math/big"
	"os"
	"sort"
	"strings"
	"testing"

	"github.com/cloudflare/circl/internal/verifmc"
	"github.com/cloudflare/circl/internal/verifref/c05kit"
	"github.com/cloudflare/circl/internal/verifref/ecurve"
	"github.com/cloudflare/circl/internal/verifref/eddsa"
	"github.com/cloudflare/circl/sign"
	"github.com/cloudflare/circl/sign/ed25519"
)

func c05Variant25519(name string) *eddsa.Variant {
	switch name {
	case "Ed25519":
		return eddsa.Ed25519
	case "Ed25519ctx":
		return eddsa.Ed25519ctx
	case "Ed25519ph":
		return eddsa.Ed25519ph
	}
	panic("unknown variant " + name)
}

// c05Std is crypto/ed25519 used as an oracle for signing.
func c05Std(v *eddsa.Variant) c05kit.Second {
	return func(seed, msg, ctx []byte) (pub, sig []byte) {
		k := stded.NewKeyFromSeed(seed)
		opts := &stded.Options{Context: string(ctx)}
		m := msg
		if v.Ph {
			d := sha512.Sum512(msg)
			m, opts.Hash = d[:], crypto.SHA512
		}
		s, err := k.Sign(nil, m, opts)
		if err != nil {
			panic(err)
		}
		return k.Public().(stded.PublicKey), s
	}
}

// c05StdVerify is crypto/ed25519 verification (a cofactorless verifier that
// does not insist on canonical A); false on any error.
func c05StdVerify(v *eddsa.Variant, pub, msg, sig, ctx []byte) bool {
	if len(pub) != stded.PublicKeySize {
		return false
	}
	opts := &stded.Options{Context: string(ctx)}
	m := msg
	if v.Ph {
		d := sha512.Sum512(msg)
		m, opts.Hash = d[:], crypto.SHA512
	}
	return stded.VerifyWithOptions(stded.PublicKey(pub), m, sig, opts) == nil
}

func c05Opts25519(v *eddsa.Variant, ctx []byte) ed25519.SignerOptions {
	switch v {
	case eddsa.Ed25519ctx:
		return ed25519.SignerOptions{Hash: crypto.Hash(0), Context: string(ctx), Scheme: ed25519.ED25519Ctx}
	case eddsa.Ed25519ph:
		return ed25519.SignerOptions{Hash: crypto.SHA512, Context: string(ctx), Scheme: ed25519.ED25519Ph}
	}
	return ed25519.SignerOptions{Hash: crypto.Hash(0), Scheme: ed25519.ED25519}
}

func c05Signers25519(v *eddsa.Variant) []c05kit.Signer {
	pubOf := func(seed []byte) []byte { return ed25519.NewKeyFromSeed(seed).Public().(ed25519.PublicKey) }
	direct := c05kit.Signer{Pub: pubOf}
	switch v {
	case eddsa.Ed25519:
		direct.Name = "ed25519.Sign"
		direct.Sign = func(seed, msg, ctx []byte) []byte { return ed25519.Sign(ed25519.NewKeyFromSeed(seed), msg) }
	case eddsa.Ed25519ctx:
		direct.Name = "ed25519.SignWithCtx"
		direct.Sign = func(seed, msg, ctx []byte) []byte {
			return ed25519.SignWithCtx(ed25519.NewKeyFromSeed(seed), msg, string(ctx))
		}
	case eddsa.Ed25519ph:
		direct.Name = "ed25519.SignPh"
		direct.Sign = func(seed, msg, ctx []byte) []byte {
			return ed25519.SignPh(ed25519.NewKeyFromSeed(seed), msg, string(ctx))
		}
	}
	out := []c05kit.Signer{direct, {
		Name: "ed25519.PrivateKey.Sign(" + v.Name + ")",
		Pub: func(seed []byte) []byte {
			pk, _, err := ed25519.GenerateKey(bytes.NewReader(seed))
			if err != nil {
				panic(err)
			}
			return pk
		},
		Sign: func(seed, msg, ctx []byte) []byte {
			s, err := ed25519.NewKeyFromSeed(seed).Sign(nil, msg, c05Opts25519(v, ctx))
			if err != nil {
				panic(err)
			}
			return s
		},
	}}
	if v == eddsa.Ed25519 {
		sch := ed25519.Scheme()
		out = append(out, c05kit.Signer{
			Name: "ed25519.Scheme.Sign",
			Pub: func(seed []byte) []byte {
				pk, _ := sch.DeriveKey(seed)
				b, err := pk.MarshalBinary()
				if err != nil {
					panic(err)
				}
				return b
			},
			Sign: func(seed, msg, ctx []byte) []byte {
				_, sk := sch.DeriveKey(seed)
				return sch.Sign(sk, msg, nil)
			},
		}, c05kit.Signer{
			Name: "ed25519.PrivateKey.Sign(crypto.Hash(0))",
			Pub:  pubOf,
			Sign: func(seed, msg, ctx []byte) []byte {
				s, err := ed25519.NewKeyFromSeed(seed).Sign(nil, msg, crypto.Hash(0))
				if err != nil {
					panic(err)
				}
				return s
			},
		})
	}
	return out
}

func c05Entries25519(v *eddsa.Variant) []c05kit.Entry {
	any := c05kit.Entry{Name: "ed25519.VerifyAny(" + v.Name + ")", Verify: func(pub, msg, sig, ctx []byte) bool {
		return ed25519.VerifyAny(ed25519.PublicKey(pub), msg, sig, c05Opts25519(v, ctx))
	}}
	switch v {
	case eddsa.Ed25519:
		return []c05kit.Entry{
			{Name: "ed25519.Verify", Verify: func(pub, msg, sig, ctx []byte) bool { return ed25519.Verify(ed25519.PublicKey(pub), msg, sig) }},
			any,
			{Name: "ed25519.Scheme.Verify", Verify: func(pub, msg, sig, ctx []byte) bool {
				return ed25519.Scheme().Verify(ed25519.PublicKey(pub), msg, sig, &sign.SignatureOpts{})
			}},
		}
	case eddsa.Ed25519ctx:
		return []c05kit.Entry{
			{Name: "ed25519.VerifyWithCtx", Verify: func(pub, msg, sig, ctx []byte) bool {
				return ed25519.VerifyWithCtx(ed25519.PublicKey(pub), msg, sig, string(ctx))
			}},
			any,
		}
	}
	return []c05kit.Entry{
		{Name: "ed25519.VerifyPh", Verify: func(pub, msg, sig, ctx []byte) bool {
			return ed25519.VerifyPh(ed25519.PublicKey(pub), msg, sig, string(ctx))
		}},
		any,
	}
}

// c05Ctxs: the context alphabet of a variant ("" / "a" / 255 x 'x').
func c05Ctxs(v *eddsa.Variant) [][]byte {
	long := bytes.Repeat([]byte{'x'}, 255)
	switch {
	case !v.HasCtx:
		return [][]byte{nil}
	case v.MinCtx > 0:
		return [][]byte{[]byte("a"), long}
	}
	return [][]byte{nil, []byte("a"), long}
}

func c05Msgs() [][]byte {
	var m [][]byte
	for _, n := range append(verifmc.Lens(128), 1000) {
		m = append(m, verifmc.Msg(n))
	}
	return m
}

func c05ExtraSeeds(n, size int) [][]byte {
	var s [][]byte
	for i := 0; i < n; i++ {
		s = append(s, verifmc.Shake(fmt.Sprintf("c05-seed-%d", i), size))
	}
	return s
}

func c05Bases(v *eddsa.Variant, size int) []c05kit.Base {
	ctxs := c05Ctxs(v)
	pick := func(i int) []byte { return ctxs[i%len(ctxs)] }
	seeds := verifmc.Seeds(size, 0)
	return []c05kit.Base{
		{Name: "b0", Seed: seeds[3], Msg: verifmc.Msg(33), Ctx: pick(1)},
		{Name: "b1", Seed: seeds[0], Msg: nil, Ctx: pick(2)},
		{Name: "b2", Seed: seeds[1], Msg: verifmc.Msg(1000), Ctx: pick(0)},
	}
}

// c05Vec is one RFC 8032 section 7 vector from the fixture
// $VERIF_DIR/ref/testdata/c05_rfc8032.json (the harness does not use the
// repository's own test helpers or literals).
type c05Vec struct {
	Name, Scheme          string
	Ph                    bool
	Sk, Pk, Sig, Msg, Ctx string
}

func (v c05Vec) bytes(t *testing.T) (sk, pk, sig, msg, ctx []byte) {
	dec := func(s string) []byte {
		b, err := hex.DecodeString(s)
		if err != nil {
			t.Fatalf("refcheck: bad hex in RFC 8032 fixture: %v", err)
		}
		return b
	}
	return dec(v.Sk), dec(v.Pk), dec(v.Sig), dec(v.Msg), dec(v.Ctx)
}

func c05RFCVectors(t *testing.T, curve string) []c05Vec {
	dir := os.Getenv("VERIF_DIR")
	if dir == "" {
		dir = "/verif"
	}
	raw, err := os.ReadFile(dir + "/ref/testdata/c05_rfc8032.json")
	if err != nil {
		t.Fatalf("refcheck: %v", err)
	}
	var f struct {
		Vectors map[string][]c05Vec `json:"vectors"`
	}
	if err := json.Unmarshal(raw, &f); err != nil {
		t.Fatalf("refcheck: %v", err)
	}
	return f.Vectors[curve]
}

func TestVerifC05_refcheck25519(t *testing.T) {
	r := verifmc.Start(t, "C05", "refcheck25519")
	defer r.Finish()
	r.Rule("reference binding: RFC 8032 7.1-7.3 vectors (fixture ref/testdata/c05_rfc8032.json), testdata/sign.input.zip lines, Wycheproof Ed25519 file, crypto/ed25519 signing and verification on the verify25519 case alphabet, projective vs affine scalar multiplication")
	// 1. RFC 8032 section 7 vectors (fixture ref/testdata/c05_rfc8032.json)
	for _, rv := range c05RFCVectors(t, "ed25519") {
		vec := struct {
			name                  string
			ph                    bool
			sk, pk, sig, msg, ctx []byte
		}{name: rv.Name, ph: rv.Ph}
		vec.sk, vec.pk, vec.sig, vec.msg, vec.ctx = rv.bytes(t)
		v := eddsa.Ed25519
		switch {
		case vec.ph:
			v = eddsa.Ed25519ph
		case len(vec.ctx) > 0:
			v = eddsa.Ed25519ctx
		}
		if got := v.PublicKey(vec.sk); !bytes.Equal(got, vec.pk) {
			t.Fatalf("refcheck: %s public key %x != RFC 8032 %x", vec.name, got, vec.pk)
		}
		got, ok := v.Sign(vec.sk, vec.msg, vec.ctx)
		if !ok || !bytes.Equal(got, vec.sig) {
			t.Fatalf("refcheck: %s signature %x != RFC 8032 %x", vec.name, got, vec.sig)
		}
		if vd := v.Verify(vec.pk, vec.msg, vec.sig, vec.ctx); vd.Class != eddsa.MustAccept {
			t.Fatalf("refcheck: %s RFC 8032 signature judged %v (%s)", vec.name, vd.Class, vd.Reason)
		}
		r.Count("rfc8032-vectors", 1)
		r.Eval(1)
	}
	// 2. the 1024 vectors of the original Ed25519 distribution
	{
		zf, err := zip.OpenReader("testdata/sign.input.zip")
		if err != nil {
			t.Fatal(err)
		}
		defer zf.Close()
		limit := r.Pick(128, 1024)
		var lines []string
		for _, f := range zf.File {
			rc, err := f.Open()
			if err != nil {
				t.Fatal(err)
			}
			sc := bufio.NewScanner(rc)
			sc.Buffer(make([]byte, 1<<20), 1<<20)
			for sc.Scan() && len(lines) < limit {
				lines = append(lines, sc.Text())
			}
			rc.Close()
		}
		bad := make([]string, len(lines))
		verifmc.ParallelFor(len(lines), func(i int) {
			f := strings.Split(lines[i], ":")
			sk, _ := hex.DecodeString(f[0])
			pk, _ := hex.DecodeString(f[1])
			msg, _ := hex.DecodeString(f[2])
			sm, _ := hex.DecodeString(f[3])
			if got := eddsa.Ed25519.PublicKey(sk[:32]); !bytes.Equal(got, pk) {
				bad[i] = fmt.Sprintf("sign.input line %d: public key differs", i+1)
				return
			}
			if got, _ := eddsa.Ed25519.Sign(sk[:32], msg, nil); !bytes.Equal(got, sm[:64]) {
				bad[i] = fmt.Sprintf("sign.input line %d: signature differs", i+1)
			}
		})
		for _, b := range bad {
			if b != "" {
				t.Fatal("refcheck: " + b)
			}
		}
		r.Count("sign.input-lines", len(lines))
		r.Eval(len(lines))
	}
	// 3. Wycheproof
	{
		raw, err := os.ReadFile("testdata/wycheproof_Ed25519.json")
		if err != nil {
			t.Fatal(err)
		}
		var w struct {
			Groups []struct {
				Key   struct{ Pk, Sk string }
				Tests []struct {
					TcID             int
					Msg, Sig, Result string
				}
			} `json:"testGroups"`
		}
		if err := json.Unmarshal(raw, &w); err != nil {
			t.Fatal(err)
		}
		for _, g := range w.Groups {
			pk, _ := hex.DecodeString(g.Key.Pk)
			for _, tc := range g.Tests {
				msg, _ := hex.DecodeString(tc.Msg)
				sig, _ := hex.DecodeString(tc.Sig)
				vd := eddsa.Ed25519.Verify(pk, msg, sig, nil)
				switch {
				case tc.Result == "valid" && vd.Class != eddsa.MustAccept:
					t.Fatalf("refcheck: Wycheproof tcId %d is valid, reference says %v (%s)", tc.TcID, vd.Class, vd.Reason)
				case tc.Result == "invalid" && vd.Class != eddsa.MustReject:
					t.Fatalf("refcheck: Wycheproof tcId %d is invalid, reference says %v (%s)", tc.TcID, vd.Class, vd.Reason)
				}
				r.Count("wycheproof:"+tc.Result, 1)
				r.Eval(1)
			}
		}
	}
	// 4. projective ladder against the affine model
	if msg := c05ProjCheck(eddsa.Ed25519, r); msg != "" {
		t.Fatal("refcheck: " + msg)
	}
	// 5. crypto/ed25519 on signing and on the verification alphabet of base b0
	for _, v := range []*eddsa.Variant{eddsa.Ed25519, eddsa.Ed25519ctx, eddsa.Ed25519ph} {
		std := c05Std(v)
		for _, seed := range verifmc.Seeds(32, 0) {
			for _, ctx := range c05Ctxs(v) {
				msg := verifmc.Msg(65)
				p1, s1 := std(seed, msg, ctx)
				s2, _ := v.Sign(seed, msg, ctx)
				if !bytes.Equal(p1, v.PublicKey(seed)) || !bytes.Equal(s1, s2) {
					t.Fatalf("refcheck: %s: crypto/ed25519 and ref/eddsa sign differently", v.Name)
				}
				r.Count("std-sign-agrees", 1)
				r.Eval(1)
			}
		}
		cases := c05kit.Cases(v, c05Bases(v, 32)[0], c05kit.Options{Flips: r.Thorough()})
		bad := make([]string, len(cases))
		verifmc.ParallelFor(len(cases), func(i int) {
			cs := cases[i]
			if len(cs.Pub) != 32 {
				return // crypto/ed25519 panics by contract
			}
			vd := v.Verify(cs.Pub, cs.Msg, cs.Sig, cs.Ctx)
			got := c05StdVerify(v, cs.Pub, cs.Msg, cs.Sig, cs.Ctx)
			r.Eval(1)
			switch {
			case vd.Class == eddsa.MustAccept && !got:
				bad[i] = cs.ID + ": reference must-accept, crypto/ed25519 rejects"
			case vd.Class == eddsa.MustReject && vd.Reason != "A-not-canonical-point" && got:
				bad[i] = cs.ID + ": reference must-reject (" + vd.Reason + "), crypto/ed25519 accepts"
			case vd.Class == eddsa.Either && got != vd.Cofactorless:
				bad[i] = cs.ID + ": crypto/ed25519 (cofactorless verifier) disagrees with the reference's cofactorless equation"
			}
			r.Count("std-verify-compared", 1)
			if cs.Lax != "" && got {
				r.Count("std-accepts-lax-case", 1) // crypto/ed25519 does not insist on canonical A: shows the lax cases bite
			}
		})
		for _, b := range bad {
			if b != "" {
				t.Fatal("refcheck: " + b)
			}
		}
	}
	r.RequireCounter("rfc8032-vectors", 10)
	r.RequireCounter("wycheproof:valid", 50)
	r.RequireCounter("wycheproof:invalid", 50)
	r.RequireCounter("std-accepts-lax-case", 3)
}

// c05ProjCheck compares ref/eddsa's projective scalar multiplication with the
// affine model ref/ecurve on a scalar alphabet and on points with and without
// torsion components. Shared by both packages through copy (test files cannot
// be imported); see the twin in sign/ed448.
func c05ProjCheck(v *eddsa.Variant, r *verifmc.Run) string {
	c := v.C
	L := c.N
	one := big.NewInt(1)
	ks := []*big.Int{big.NewInt(0), big.NewInt(1), big.NewInt(2), big.NewInt(7), new(big.Int).Sub(L, one), new(big.Int).Set(L), new(big.Int).Add(L, one)}
	for _, sh := range []uint{63, 64, 127, 128, 252, uint(L.BitLen())} {
		ks = append(ks, new(big.Int).Lsh(one, sh), new(big.Int).Sub(new(big.Int).Lsh(one, sh), one))
	}
	for i := 0; i < 3; i++ {
		ks = append(ks, new(big.Int).SetBytes(verifmc.Shake(fmt.Sprintf("c05-proj-%d", i), v.B)))
	}
	tors := v.Torsion()
	if int64(len(tors)) != v.H {
		return "torsion subgroup has wrong size"
	}
	for i, T := range tors {
		if !c.IsOnCurve(T) {
			return "torsion point off curve"
		}
		for j := 0; j < i; j++ {
			if c.Equal(tors[j], T) {
				return "torsion points not distinct"
			}
		}
	}
	pts := []ecurve.Point{c.G, tors[1], c.Add(c.G, tors[1]), c.ScalarMult(big.NewInt(5), c.G)}
	bad := make([]string, len(ks))
	verifmc.ParallelFor(len(ks), func(i int) {
		k := ks[i]
		if !c.Equal(v.BaseMult(k), c.ScalarMult(k, c.G)) {
			bad[i] = "projective BaseMult differs from affine ScalarMult for k=" + k.String()
			return
		}
		for _, P := range pts {
			if !c.Equal(v.ScalarMult(k, P), c.ScalarMult(k, P)) {
				bad[i] = "projective ScalarMult differs from affine ScalarMult for k=" + k.String()
				return
			}
			r.Eval(1)
		}
		r.Count("proj-vs-affine", 1+len(pts))
	})
	for _, b := range bad {
		if b != "" {
			return b
		}
	}
	return ""
}

func TestVerifC05_sign25519(t *testing.T) {
	r := verifmc.Start(t, "C05", "sign25519")
	defer r.Finish()
	r.Rule("variants {Ed25519, Ed25519ctx, Ed25519ph} x seeds SEEDS(32) x messages of length {0,1,127,128,129,255,256,257,1000} x contexts {'', 'a', 255 x 'x'} (as the variant allows), " +
		"plus extra SHAKE-derived seeds with one message: public key and signature bytes of every signing route (Sign/SignWithCtx/SignPh, PrivateKey.Sign with options, GenerateKey, Scheme) " +
		"equal ref/eddsa (which must equal crypto/ed25519 first); the reference signature is accepted by every verification route; distinct = distinct (variant, seed, message, context)")
	seeds := verifmc.Seeds(32, r.Seed())
	extra := c05ExtraSeeds(r.Pick(24, 256), 32)
	if !r.Thorough() && r.Config() != "default" {
		// quick tier, configurations other than default: a declared subset
		seeds, extra = seeds[2:4], extra[:8]
		r.NotExhaustive("quick tier, non-default configuration: 2 of the structured seeds, 8 extra seeds")
	}
	var wantCases int64
	for _, v := range []*eddsa.Variant{eddsa.Ed25519, eddsa.Ed25519ctx, eddsa.Ed25519ph} {
		signers, entries, ctxs := c05Signers25519(v), c05Entries25519(v), c05Ctxs(v)
		errs := c05kit.SignAll(r, verifmc.ParallelFor, "sign25519", v, signers, entries, c05Std(v), seeds, c05Msgs(), ctxs, true)
		errs = append(errs, c05kit.SignAll(r, verifmc.ParallelFor, "sign25519x", v, signers, entries, c05Std(v), extra, [][]byte{verifmc.Msg(3)}, ctxs[:1], false)...)
		if len(errs) > 0 {
			t.Fatalf("harness-internal: %v", errs)
		}
		wantCases += int64(len(seeds)*len(c05Msgs())*len(ctxs) + len(extra))
	}
	// floor on the enumerated (variant, seed, message, context) triples: a property of the alphabet, not of the library's answers
	r.RequireCounter("sign-cases", wantCases)
	r.Set("seeds", len(seeds))
	r.Set("extra_seeds", len(extra))
}

func TestVerifC05_verify25519(t *testing.T) {
	r := verifmc.Start(t, "C05", "verify25519")
	defer r.Finish()
	r.Rule("per variant and base (seed, message, context): honest signature; S in {0,1,S+-1,L-1,L,L+1,S+jL (j<=16, while it fits),2^252,2^253-1,2^253,2^253+S,S|2^k (k=253..255),all-ones}; " +
		"A = identity, R = [S]B for the 12 legal boundary values S in {1,2,2^64-1,2^64,2^128,2^(n-2),2^(n-1)-1,2^(n-1),2^(n-1)+1,(L-1)/2,L-2,L-1} (must-accept; for Ed25519 four of them lie in the sliver [2^252,L)); A = R = identity with S = jL (j in {0,1,2,3,4,5,8,15}); A and R: all 8 small-order points, every y in [p,2^255) x sign bit (38 strings), forged signatures over small-order and mixed-order keys and R with torsion, " +
		"non-canonical strings denoting small-order points (y=p, y=p+1, x=0 with sign bit) carrying a signature valid for the denoted point; wrong lengths; altered message and context; contexts of 256/257/511/512 bytes signed with a wrapped length octet; " +
		"every single-bit flip of A, R and S (base b0 in the quick tier, all bases in the thorough tier); every variant's honest signature offered to the other variants; " +
		"each case judged must-accept / must-reject / either by ref/eddsa and given to every verification route; distinct = distinct (variant, key, message, signature, context)")
	vs := []*eddsa.Variant{eddsa.Ed25519, eddsa.Ed25519ctx, eddsa.Ed25519ph}
	// quick tier, configurations other than default: one base per variant, no bit flips (declared)
	light := !r.Thorough() && r.Config() != "default"
	// vacuity floors: summed over the Cases calls actually made (c05kit.Floors: derived from the
	// alphabet and the reference's classification by construction, never from the library's answers)
	want := map[string]int64{}
	if light {
		r.NotExhaustive("quick tier, non-default configuration: base b0 only, no single-bit flips")
	}
	for _, v := range vs {
		bases := c05Bases(v, 32)
		if !r.Thorough() {
			bases = bases[:2]
		}
		if light {
			bases = bases[:1]
		}
		for bi, b := range bases {
			if r.Expired() {
				return
			}
			flips := r.Thorough() || (bi == 0 && v == eddsa.Ed25519 && !light)
			if !flips {
				r.NotExhaustive("quick tier: single-bit flips only on base b0 of plain Ed25519")
			}
			cases := c05kit.Cases(v, b, c05kit.Options{Flips: flips})
			for k, n := range c05kit.Floors(v, c05kit.Options{Flips: flips}) {
				want[k] += n
			}
			if errs := c05kit.Judge(r, verifmc.ParallelFor, "verify25519", v, c05Entries25519(v), cases); len(errs) > 0 {
				t.Fatalf("harness-internal: %v", errs)
			}
		}
		// the honest signature of v offered to the other variants
		b := bases[0]
		sig, _ := v.Sign(b.Seed, b.Msg, b.Ctx)
		pub := v.PublicKey(b.Seed)
		for _, w := range vs {
			if w == v {
				continue
			}
			ctx := b.Ctx
			if !w.CtxOK(ctx) {
				ctx = c05Ctxs(w)[0]
			}
			cs := []c05kit.Case{{ID: v.Name + "|b0|cross-variant|as-" + w.Name, Group: "cross-variant", Pub: pub, Msg: b.Msg, Sig: sig, Ctx: ctx}}
			if errs := c05kit.Judge(r, verifmc.ParallelFor, "verify25519", w, c05Entries25519(w), cs); len(errs) > 0 {
				t.Fatalf("harness-internal: %v", errs)
			}
		}
	}
	var names []string
	for k := range want {
		names = append(names, k)
	}
	sort.Strings(names)
	for _, k := range names {
		r.RequireCounter(k, want[k])
	}
	r.Set("floors", want)
}
