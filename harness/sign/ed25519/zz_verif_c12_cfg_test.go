//go:build verif

package ed25519

import "os"

func verifmcConfig() string {
	if c := os.Getenv("VERIF_CONFIG"); c != "" {
		return c
	}
	return "default"
}
