//go:build verif

package ed25519_test

// C09 / Ed25519 public keys at verification, through the exported API only:
// Verify refuses every key string that is not the canonical RFC 8032 5.1.3
// encoding of a curve point, even when the signature (identity, 0) would verify
// under the point the string aliases. Oracle: strict decoder of ref/c09ref on
// ref/ecurve. (The decoder pointR1.FromBytes itself is exercised in-package by
// unit ed25519_point, in a file of its own.)

import (
	"testing"

	"github.com/cloudflare/circl/internal/verifmc"
	"github.com/cloudflare/circl/internal/verifref/c09ref"
	"github.com/cloudflare/circl/internal/verifref/ecurve"
	"github.com/cloudflare/circl/sign/ed25519"
)

func TestVerifC09_ed25519(t *testing.T) {
	r := verifmc.Start(t, "C09", "ed25519")
	defer r.Finish()
	r.Rule("32-byte key strings: [a]G for a in {0,1,2,3,L-1,(L+1)/2,5 SHAKE values} (reference) and public keys made by the library from 5 seeds, all 256 single-bit flips of 4 (quick) / 11 (thorough) of them, " +
		"the whole 8-torsion alone and added to [s0]G, x=0 with the sign bit, all 19 values y in [p,2^255) with both signs (complete), y+p aliases of the torsion points with y<19, y without x, " +
		"every curve point with x or y in {0,+-1,+-sqrt(-1),+-j (j<64)}; given to Verify with the signature (encoding of the identity, S=0), which verifies exactly for keys of order dividing 8 " +
		"(for one of 16 messages); whatever verifies must be a canonical point encoding; distinct = distinct key bytes")
	c := ecurve.Edwards25519()
	cases := c09ref.RFC8032Cases(c, c09ref.EdOptions{FlipBases: r.Pick(4, 11), Special: 64})
	for i, seed := range verifmc.Seeds(ed25519.SeedSize, r.Seed()) {
		pub := ed25519.NewKeyFromSeed(seed).Public().(ed25519.PublicKey)
		cases = append(cases, c09ref.Case{Name: "lib/key" + string(rune('0'+i)), Class: "valid-lib", Data: c09ref.Clone(pub)})
	}
	cases = c09ref.Dedup(cases)
	dec := make([]verifmc.DecCase, len(cases))
	for i, cs := range cases {
		dec[i] = verifmc.DecCase{Name: cs.Name, Class: cs.Class, Data: cs.Data}
	}
	// sig = (R = identity, S = 0) satisfies [S]B = R + [h]A for every A with [8]A = O when 8 | h,
	// and for A = identity always. A key string is "accepted" when Verify returns true for one of the messages.
	sig := make([]byte, ed25519.SignatureSize)
	sig[0] = 1
	msgs := [][]byte{{}, []byte("a"), []byte("verif-c09"), verifmc.Msg(33)}
	for j := 0; j < 12; j++ {
		msgs = append(msgs, verifmc.Shake("c09-ed25519-msg"+string(rune('a'+j)), 8))
	}
	r.CheckDecoder(verifmc.DecSpec{Entry: "ed25519.Verify/public-key", Cases: dec,
		Ref: func(in []byte) verifmc.DecOracle {
			v := c09ref.RFC8032Verdict(c, in)
			return verifmc.DecOracle{Member: v.Member, Reason: v.Reason}
		},
		MustAccept: func(string) bool { return false },
		Lib: func(in []byte) verifmc.DecResult {
			for _, m := range msgs {
				if ed25519.Verify(ed25519.PublicKey(in), m, sig) {
					r.Count("verify_true_with_small_order_key", 1)
					return verifmc.DecResult{Accepted: true, Reenc: in}
				}
			}
			return verifmc.DecResult{}
		}})
	r.RequireCounter("in:flip", 4*250)
	r.RequireCounter("in:field-overflow", 30)
	r.RequireCounter("in:torsion", 12)
	r.RequireCounter("in:alias", 4)
	r.RequireCounter("in:special", 100)
	r.RequireCounter("in:valid-lib", 5)
	r.RequireCounter("verify_true_with_small_order_key", 4)
}
