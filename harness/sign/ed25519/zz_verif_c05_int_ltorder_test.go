//go:build verif

package ed25519

// C05 / in-package sweep of ONE internal routine: isLessThanOrder (the S < L test
// of verification). The only unexported identifier named here is isLessThanOrder.

import (
	"fmt"
	"math/big"
	"testing"

	"github.com/cloudflare/circl/internal/verifmc"
)

func TestVerifC05_scalar25519_ltorder(t *testing.T) {
	r := verifmc.Start(t, "C05", "scalar25519_ltorder")
	defer r.Finish()
	r.Rule("isLessThanOrder on all 7^4 256-bit values with limbs in {0,1,2^63,2^64-1,L_i-1,L_i,L_i+1} (L-1, L, L+1 among them) and on 2^252-1, 2^252, 2^252+1, L-2; compared with big.Int x < L; distinct = distinct operand")
	low := c05LowAlphabet()
	var ins [][]byte
	for li := 0; li < c05NLow; li++ {
		ins = append(ins, c05FromLimbs(c05Low256(low, li)))
	}
	p252 := new(big.Int).Lsh(big.NewInt(1), 252)
	for _, v := range []*big.Int{new(big.Int).Sub(p252, big.NewInt(1)), p252, new(big.Int).Add(p252, big.NewInt(1)), new(big.Int).Sub(c05L, big.NewInt(2))} {
		ins = append(ins, c05ToLE(v, 32))
	}
	res := make([]*c05Bad, len(ins))
	verifmc.ParallelFor(len(ins), func(i int) {
		in := ins[i]
		id := fmt.Sprintf("scalar25519_ltorder|%d", i)
		if !r.Want(id) {
			return
		}
		keep := append([]byte{}, in...)
		lt := isLessThanOrder(in)
		r.Eval(1)
		r.Distinct(in)
		r.Count("isLessThanOrder", 1)
		want := c05LE(keep).Cmp(c05L) < 0
		if want {
			r.Count("below-L", 1)
		}
		if lt != want {
			res[i] = &c05Bad{"C05|ed25519.isLessThanOrder|wrong-answer|limb-alphabet", id,
				fmt.Sprintf("isLessThanOrder(%x) = %v", c05LE(keep), lt), fmt.Sprintf("%x", keep)}
		}
	})
	c05Report(r, res)
	r.RequireCounter("isLessThanOrder", int64(len(ins)))
	r.RequireCounter("below-L", 100)
}
