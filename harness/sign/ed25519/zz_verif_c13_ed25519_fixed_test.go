//go:build verif

package ed25519

// C13 / Ed25519 group (internal): fixedMult (mLSB-set fixed-base multiplication)
// against ref/ecurve. Unexported names used by this file (and only these):
// pointR1{x, y, z, ta, tb, fixedMult}.

import (
	"math/big"
	"testing"

	"github.com/cloudflare/circl/internal/verifmc"
	"github.com/cloudflare/circl/internal/verifref/curvealpha"
	"github.com/cloudflare/circl/internal/verifref/ecurve"
	"github.com/cloudflare/circl/internal/verifref/fpx"
)

func TestVerifC13_ed25519_fixed(t *testing.T) {
	r := verifmc.Start(t, "C13", "ed25519_fixed")
	defer r.Finish()
	r.Rule("edwards25519 internals: fixedMult on SC = curvealpha.Scalars(l, 256) as 32-byte little-endian (values above l and up to 2^256-1 included); results compared as affine coordinates, " +
		"extended-coordinate consistency and RFC 8032 encoding, after the predicate/encoder queries of the point file (when it builds); distinct = distinct scalar names")
	ref := ecurve.Edwards25519()
	N := ref.N
	sc := curvealpha.Scalars(N, 256, r.Seed())
	r.Set("scalars", len(sc))
	bad := func(op, class, id, what string, payload interface{}) {
		r.Violation("C13|ed25519."+op+"|"+curvealpha.CoarseKey(class), id, what, payload)
	}
	try := func(op, id string, f func()) bool {
		if p, what := verifmc.Try(f); p {
			bad(op, "panic:"+verifmc.PanicClass(what), id, what, nil)
			return false
		}
		return true
	}
	check := func(op, class, id string, got *pointR1, want ecurve.Point, payload interface{}) {
		c13CheckEd(r, op, class, id, got, &got.x, &got.y, &got.z, &got.ta, &got.tb, want, payload)
	}
	// ---- fixedMult on SC
	verifmc.ParallelFor(len(sc), func(i int) {
		s := sc[i]
		id := "fixed/" + s.Name
		if !r.Want(id) {
			return
		}
		kb := fpx.ToLE(s.V, 32)
		var P pointR1
		if try("fixedMult", id, func() { P.fixedMult(kb) }) {
			check("fixedMult", "k="+s.Name, id, &P, ref.BaseMult(s.V), map[string]string{"k_le": verifmc.FullHex(kb)})
		}
		r.Eval(1)
		r.Transition(1)
		r.Distinct("fixed", s.Name)
		if s.V.Cmp(N) >= 0 {
			r.Count("scalar_ge_order", 1)
		}
		if s.V.Bit(0) == 0 {
			r.Count("even_scalar", 1)
		}
		if new(big.Int).Mod(s.V, N).Sign() == 0 {
			r.Count("result_identity", 1)
		}
	})
	r.Sample(map[string]string{"op": "fixedMult", "k": "l-1", "k_le": verifmc.FullHex(fpx.ToLE(new(big.Int).Sub(N, big.NewInt(1)), 32))})

	r.RequireCounter("scalar_ge_order", 5)
	r.RequireCounter("even_scalar", 20)
	r.RequireCounter("result_identity", 3)
	if c13EdPreds != nil {
		r.RequireCounter("identity_results_queried", 3)
	}
}
