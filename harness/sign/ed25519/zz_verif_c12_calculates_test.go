//go:build verif

package ed25519

// C12: calculateS (s = r + k*a mod l, sign/ed25519/modular.go) against math/big.
// The only unexported identifier named here is calculateS.

import (
	"math/big"
	"testing"

	bf "github.com/cloudflare/circl/internal/verifref/bigfield"
)

func TestVerifC12_ed25519calculates(t *testing.T) {
	r := c12Start(t, "ed25519calculates")
	defer r.Finish()
	r.Rule(c12AlphabetRule + "calculateS on all ordered (k,a) pairs of a 256-bit key list for 6 values of r; a distinct case is one (r, k, a)")
	f32 := c12ScalarField("ed25519.scalar256", 32)
	key := f32.Prepare("k", bf.Thin(c12ScalarAlphabet(256, r.Thorough()), r.Pick(120, 400)))
	r.Set("calculateS_elements", key.Len())
	for ri, rv := range []*big.Int{new(big.Int), big.NewInt(1), new(big.Int).Sub(bf.L25519, big.NewInt(1)), bf.L25519, new(big.Int).Sub(bf.Pow2(256), big.NewInt(1)), bf.Pseudo("ed25519-r", 0, bf.Pow2(256))} {
		rb := bf.LE(rv, 32)
		rv := rv
		f32.CheckBin(r, bf.BinOp{Name: "calculateS", NoAlias: true,
			Do:  func(z, x, y bf.Elem) { calculateS(z.(*c12Buf).b, rb, x.(*c12Buf).b, y.(*c12Buf).b) },
			Ref: func(out, x, y, p *big.Int) bool { out.Mul(x, y).Add(out, rv).Mod(out, p); return true }, Canon: true}, key, key, ri == 0)
	}
	r.RequireCounter("ed25519.scalar256.calculateS", 10000)
	r.Sample(map[string]string{"r": "l-1", "k": key.Ops[3].V.Text(16), "a": key.Ops[5].V.Text(16)})
}
