//go:build verif

package ed25519

// C05 / in-package read-out of ONE internal constant: order (the group order
// used by the S < L test and the recoding). The only unexported identifier
// named here is order.

import (
	"testing"

	"github.com/cloudflare/circl/internal/verifmc"
)

func TestVerifC05_scalar25519_consts(t *testing.T) {
	r := verifmc.Start(t, "C05", "scalar25519_consts")
	defer r.Finish()
	r.Rule("the package constant order equals L = 2^252 + 27742317777372353535851937790883648493 (RFC 8032 5.1)")
	b := order[:]
	r.Eval(1)
	r.Distinct("order")
	r.Count("order-read", 1)
	if len(b) != 32 || c05LE(b).Cmp(c05L) != 0 {
		r.Violation("C05|ed25519.order|constant-differs", "scalar25519_consts|order", "package constant order differs from RFC 8032 L", map[string]string{"order_le": verifmc.FullHex(b)})
	}
	r.RequireCounter("order-read", 1)
}
