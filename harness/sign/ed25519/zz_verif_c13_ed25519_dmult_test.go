//go:build verif

package ed25519

// C13 / Ed25519 group (internal): doubleMult (interleaved w-NAF double-scalar
// multiplication mB + nQ) against ref/ecurve. Unexported names used by this file
// (and only these): pointR1{x, y, z, ta, tb, doubleMult}.

import (
	"math/big"
	"testing"

	"github.com/cloudflare/circl/internal/verifmc"
	"github.com/cloudflare/circl/internal/verifref/curvealpha"
	"github.com/cloudflare/circl/internal/verifref/ecurve"
	"github.com/cloudflare/circl/internal/verifref/fpx"
	fp "github.com/cloudflare/circl/math/fp25519"
)

func TestVerifC13_ed25519_dmult(t *testing.T) {
	r := verifmc.Start(t, "C13", "ed25519_dmult")
	defer r.Finish()
	r.Rule("edwards25519 internals: doubleMult(Q, m, n) = mB + nQ on SCc x SCc x PTc plus SC x {1, l-1} x {B} and {1, l-1} x SC x {B} (thorough: SC x SC x PT), scalars as 32-byte little-endian, " +
		"Q from the reference's affine coordinates; results compared as affine coordinates, extended-coordinate consistency and RFC 8032 encoding, after the predicate/encoder queries of the point file (when it builds); " +
		"distinct = distinct (m, n, Q) names")
	ref := ecurve.Edwards25519()
	N := ref.N
	sc := curvealpha.Scalars(N, 256, r.Seed())
	logs := curvealpha.PointLogs(N)
	r.Set("scalars", len(sc))
	r.Set("points", len(logs))
	r.State(len(logs))
	refPts := make([]ecurve.Point, len(logs))
	for i, a := range logs {
		refPts[i] = ref.BaseMult(a.V)
	}
	bad := func(op, class, id, what string, payload interface{}) {
		r.Violation("C13|ed25519."+op+"|"+curvealpha.CoarseKey(class), id, what, payload)
	}
	try := func(op, id string, f func()) bool {
		if p, what := verifmc.Try(f); p {
			bad(op, "panic:"+verifmc.PanicClass(what), id, what, nil)
			return false
		}
		return true
	}
	c13R1 := func(P ecurve.Point) *pointR1 {
		x, y := c13Elt(P.X.A), c13Elt(P.Y.A)
		Q := &pointR1{x: x, y: y, ta: x, tb: y}
		fp.SetOne(&Q.z)
		return Q
	}
	check := func(op, class, id string, got *pointR1, want ecurve.Point, payload interface{}) {
		c13CheckEd(r, op, class, id, got, &got.x, &got.y, &got.z, &got.ta, &got.tb, want, payload)
	}
	// ---- doubleMult(Q, m, n) = mB + nQ
	ms := curvealpha.Core(sc)
	var qs []int
	for i, a := range logs {
		if a.Core || r.Thorough() {
			qs = append(qs, i)
		}
	}
	if r.Thorough() {
		ms = sc
	}
	type job struct {
		m, n curvealpha.Scalar
		q    int
	}
	var jobs []job
	for _, m := range ms {
		for _, n := range ms {
			for _, q := range qs {
				jobs = append(jobs, job{m, n, q})
			}
		}
	}
	if !r.Thorough() {
		for _, s := range sc {
			for _, c := range ms {
				if c.Name == "1" || c.Name == "n-1" {
					jobs = append(jobs, job{s, c, 1}, job{c, s, 1})
				}
			}
		}
	}
	r.Set("doublemult_cases", len(jobs))
	verifmc.ParallelFor(len(jobs), func(idx int) {
		jb := jobs[idx]
		m, n, a := jb.m, jb.n, logs[jb.q]
		id := "dmult/" + m.Name + "/" + n.Name + "/" + a.Name
		if !r.Want(id) || r.Expired() {
			return
		}
		ex := new(big.Int).Mul(n.V, a.V)
		ex.Add(ex, m.V)
		rel := c13Rel(m.V, n.V, N)
		mb, nb := fpx.ToLE(m.V, 32), fpx.ToLE(n.V, 32)
		var P pointR1
		Q := c13R1(refPts[jb.q])
		if try("doubleMult", id, func() { P.doubleMult(Q, mb, nb) }) {
			check("doubleMult", "Q="+a.Name+"|"+rel, id, &P, ref.BaseMult(ex),
				map[string]string{"m_le": verifmc.FullHex(mb), "n_le": verifmc.FullHex(nb), "Q": verifmc.FullHex(ref.MarshalRFC8032(refPts[jb.q]))})
		}
		r.Eval(1)
		r.Transition(1)
		r.Distinct("dmult", m.Name, n.Name, a.Name)
		if a.Name == "1G" && rel == "m=n" {
			r.Count("dmult_Q_eq_B_and_m_eq_n", 1)
		}
		if rel == "m=-n" {
			r.Count("dmult_m_eq_neg_n", 1)
		}
		if a.V.Sign() == 0 {
			r.Count("dmult_Q_identity", 1)
		}
	})
	r.Sample(map[string]string{"op": "doubleMult", "m": "1", "n": "1", "Q": "1G"})

	r.RequireCounter("dmult_Q_eq_B_and_m_eq_n", 5)
	r.RequireCounter("dmult_m_eq_neg_n", 3)
	r.RequireCounter("dmult_Q_identity", 10)
	if c13EdPreds != nil {
		r.RequireCounter("identity_results_queried", 30)
		r.RequireCounter("non_identity_results_queried", 1000)
	}
}
