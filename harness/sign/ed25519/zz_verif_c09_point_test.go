//go:build verif

package ed25519

// C09 / Ed25519, the decoder Verify uses for public keys, in-package: pointR1.FromBytes
// accepts only canonical RFC 8032 5.1.3 encodings of curve points, the decoded
// coordinates are the ones the encoding denotes and ToBytes gives the parsed
// bytes back; also on a reused pointR1. This file is the only C09 file that names
// unexported identifiers of sign/ed25519 (pointR1 and its fields, FromBytes,
// ToBytes); the exported-API unit ed25519 (Verify) lives in the external test
// package and does not depend on it. Oracle: strict decoder of ref/c09ref.

import (
	"testing"

	"github.com/cloudflare/circl/internal/verifmc"
	"github.com/cloudflare/circl/internal/verifref/c09ref"
	"github.com/cloudflare/circl/internal/verifref/ecurve"
	"github.com/cloudflare/circl/internal/verifref/fpx"
)

func TestVerifC09_ed25519_point(t *testing.T) {
	r := verifmc.Start(t, "C09", "ed25519_point")
	defer r.Finish()
	r.Rule("32-byte strings: [a]G for a in {0,1,2,3,L-1,(L+1)/2,5 SHAKE values} (reference) and public keys made by the library from 5 seeds, all 256 single-bit flips of 4 (quick) / 11 (thorough) of them, " +
		"the whole 8-torsion alone and added to [s0]G, x=0 with the sign bit, all 19 values y in [p,2^255) with both signs (complete), y+p aliases of the torsion points with y<19, y without x; " +
		"every curve point with x or y in {0,+-1,+-sqrt(-1),+-j (j<64)} and the 8 small-order points, built by the reference and serialised by the library's ToBytes (must decode again); " +
		"through pointR1.FromBytes/ToBytes, fresh and into an object that already holds the nearest valid value, and before it; distinct = distinct input bytes")
	c := ecurve.Edwards25519()
	cases := c09ref.RFC8032Cases(c, c09ref.EdOptions{FlipBases: r.Pick(4, 11)})
	// constructed special points (x or y in {0, +-1, +-sqrt(-1), +-j, j<64}; the 8 small-order points): the
	// library's pointR1 filled with the reference's coordinates and serialised by ToBytes
	for _, sp := range c09ref.EdSpecial(c, 64) {
		var P pointR1
		copy(P.x[:], fpx.ToLE(sp.P.X.A, 32))
		copy(P.y[:], fpx.ToLE(sp.P.Y.A, 32))
		P.z[0] = 1
		P.ta, P.tb = P.x, P.y
		enc := make([]byte, 32)
		if err := P.ToBytes(enc); err != nil {
			t.Fatal(err)
		}
		if string(enc) != string(c09ref.RFC8032Encode(c, sp.P)) {
			r.Count("library_encoding_differs_from_reference", 1) // the decoder units judge the library's bytes either way
		}
		cases = append(cases, c09ref.Case{Name: "speciallib/" + sp.Name, Class: "special-lib", Data: enc})
	}
	for i, seed := range verifmc.Seeds(SeedSize, r.Seed()) {
		pub := NewKeyFromSeed(seed).Public().(PublicKey)
		cases = append(cases, c09ref.Case{Name: "lib/key" + string(rune('0'+i)), Class: "valid-lib", Data: c09ref.Clone(pub)})
	}
	cases = c09ref.Dedup(cases)
	dec := make([]verifmc.DecCase, len(cases))
	bases := c09ref.Bases(cases)
	for i, cs := range cases {
		dec[i] = verifmc.DecCase{Name: cs.Name, Class: cs.Class, Data: cs.Data, Base: bases[i]}
	}
	ref := func(in []byte) verifmc.DecOracle {
		v := c09ref.RFC8032Verdict(c, in)
		return verifmc.DecOracle{Member: v.Member, Reason: v.Reason, Point: v.Point}
	}
	r.CheckDecoder(verifmc.DecSpec{Entry: "ed25519.pointR1.FromBytes", Cases: dec, Ref: ref, RefAll: true,
		Seq: func(first, second []byte) verifmc.DecResult {
			var P pointR1
			P.FromBytes(first)
			if !P.FromBytes(second) {
				return verifmc.DecResult{}
			}
			res := verifmc.DecResult{Accepted: true}
			out := make([]byte, 32)
			if err := P.ToBytes(out); err != nil {
				res.Note = "ToBytes-fails"
			}
			res.Reenc = out
			res.Point = append(append([]byte{}, P.x[:]...), P.y[:]...)
			return res
		},
		Lib: func(in []byte) verifmc.DecResult {
			keep := c09ref.Clone(in)
			var P pointR1
			if !P.FromBytes(in) {
				return verifmc.DecResult{}
			}
			res := verifmc.DecResult{Accepted: true}
			out := make([]byte, 32)
			if err := P.ToBytes(out); err != nil {
				res.Note = "ToBytes-fails"
			}
			res.Reenc = out
			res.Point = append(append([]byte{}, P.x[:]...), P.y[:]...) // affine and reduced after ToBytes
			if string(keep) != string(in) {
				res.Note = "input-modified"
			}
			return res
		}})
	r.RequireCounter("in:flip", 4*250)
	r.RequireCounter("in:field-overflow", 30)
	r.RequireCounter("in:torsion", 12)
	r.RequireCounter("in:alias", 4)
	r.RequireCounter("in:valid-lib", 5)
	r.RequireCounter("accepted", 500)
	r.RequireCounter("in:special-lib", 100)
	r.RequireCounter("reused_receiver_cases", 1000)
}
