//go:build verif

package ed25519

// C13 / Ed25519 group (internal), point arithmetic: pointR1.add (projective
// table entry), mixAdd (affine table entry), double, neg, FromBytes/ToBytes and
// the predicate isEqual, against ref/ecurve. Unexported names used by this file:
// pointR1{x, y, z, ta, tb, add, mixAdd, double, neg, isEqual, SetIdentity,
// FromBytes, ToBytes}, pointR2{fromR1, pointR3}. Its init also provides
// c13EdPreds (predicate + encoder queries) to the multiplication files.

import (
	"bytes"
	"fmt"
	"math/big"
	"testing"

	"github.com/cloudflare/circl/internal/verifmc"
	"github.com/cloudflare/circl/internal/verifref/curvealpha"
	"github.com/cloudflare/circl/internal/verifref/ecurve"
	fp "github.com/cloudflare/circl/math/fp25519"
)

func c13R1(P ecurve.Point) *pointR1 {
	x, y := c13Elt(P.X.A), c13Elt(P.Y.A)
	Q := &pointR1{x: x, y: y, ta: x, tb: y}
	fp.SetOne(&Q.z)
	return Q
}

func init() {
	c13EdPreds = func(r *verifmc.Run, op, class, id string, point interface{}, want ecurve.Point, payload interface{}) {
		got := point.(*pointR1)
		ref := ecurve.Edwards25519()
		bad := func(op, class, id, what string, payload interface{}) {
			r.Violation("C13|ed25519."+op+"|"+curvealpha.CoarseKey(class), id, what, payload)
		}
		// preds queries the only predicate of the internal group (isEqual) DIRECTLY on
		// byte-identical copies of a freshly computed value, before anything normalises it.
		Tp := ref.BaseMult(big.NewInt(0x51ed27))
		preds := func(op, class, id string, got *pointR1, want ecurve.Point, payload interface{}) {
			fresh := func() *pointR1 { f := *got; return &f }
			isID := ref.IsIdentity(want)
			kind := "non-identity"
			if isID {
				kind = "identity"
				r.Count("identity_results_queried", 1)
			} else {
				r.Count("non_identity_results_queried", 1)
			}
			fail := func(pred string, v, exp bool) {
				if v != exp {
					bad(op, "predicate:"+pred+"|fresh-result|"+kind+"|"+class, id,
						fmt.Sprintf("%s: %s = %v on the freshly computed result (raw coordinates %v), the reference says %v (result should be %v)", id, pred, v, *got, exp, want), payload)
				}
			}
			fail("isEqual(expected)", fresh().isEqual(c13R1(want)), true)
			fail("expected.isEqual(result)", c13R1(want).isEqual(fresh()), true)
			var I pointR1
			I.SetIdentity()
			fail("isEqual(SetIdentity)", fresh().isEqual(&I), isID)
			fail("SetIdentity.isEqual(result)", I.isEqual(fresh()), isID)
			CI := c13R1(Tp) // an identity produced by arithmetic: T + (-T), projective
			var nT pointR2
			nT.fromR1(c13R1(ref.Neg(Tp)))
			CI.add(&nT)
			fail("isEqual(T+(-T))", fresh().isEqual(CI), isID)
			fail("(T+(-T)).isEqual(result)", CI.isEqual(fresh()), isID)
			alt := c13R1(ref.Sub(want, Tp)) // the same point by another route
			var t2 pointR2
			t2.fromR1(c13R1(Tp))
			alt.add(&t2)
			fail("isEqual(other-route)", fresh().isEqual(alt), true)
			fail("isEqual(different-point)", fresh().isEqual(c13R1(ref.Add(want, ref.G))), false)
			fail("isEqual(-expected)", fresh().isEqual(c13R1(ref.Neg(want))), isID)
		}
		preds(op, class, id, got, want, payload)
		g2 := *got
		var enc [32]byte
		if err := g2.ToBytes(enc[:]); err != nil || !bytes.Equal(enc[:], ref.MarshalRFC8032(want)) {
			bad(op, "wrong-encoding|ToBytes|"+class, id, fmt.Sprintf("%s: ToBytes gives %x want %x", id, enc, ref.MarshalRFC8032(want)), payload)
		}
	}
}

func TestVerifC13_ed25519_point(t *testing.T) {
	r := verifmc.Start(t, "C13", "ed25519_point")
	defer r.Finish()
	r.Rule("edwards25519 internals: points PT = {O, +-kB, [(l+-1)/2]B, +-[s]B} from the reference's affine coordinates (and through FromBytes of its RFC 8032 encoding); " +
		"add (projective table entry) and mixAdd (affine table entry) on PT x PT, double/neg on PT; isEqual is queried directly on byte-identical copies of each freshly computed result " +
		"(against the expected point, SetIdentity, a computed identity T+(-T), the same point by another route, a different point, the negated point), including the chain ((P+Q)-Q)-P; " +
		"then results are compared as affine coordinates and RFC 8032 encodings; distinct = distinct (operation, operand names)")
	ref := ecurve.Edwards25519()
	N := ref.N
	logs := curvealpha.PointLogs(N)
	r.Set("points", len(logs))
	r.State(len(logs))
	refPts := make([]ecurve.Point, len(logs))
	for i, a := range logs {
		refPts[i] = ref.BaseMult(a.V)
	}
	bad := func(op, class, id, what string, payload interface{}) {
		r.Violation("C13|ed25519."+op+"|"+curvealpha.CoarseKey(class), id, what, payload)
	}
	try := func(op, id string, f func()) bool {
		if p, what := verifmc.Try(f); p {
			bad(op, "panic:"+verifmc.PanicClass(what), id, what, nil)
			return false
		}
		return true
	}
	check := func(op, class, id string, got *pointR1, want ecurve.Point, payload interface{}) {
		c13CheckEd(r, op, class, id, got, &got.x, &got.y, &got.z, &got.ta, &got.tb, want, payload)
	}
	for i, a := range logs {
		var P pointR1
		if !P.FromBytes(ref.MarshalRFC8032(refPts[i])) {
			bad("FromBytes", "rejects-valid|P="+a.Name, "dec/"+a.Name, "reference encoding rejected", nil)
			continue
		}
		check("FromBytes", "P="+a.Name, "dec/"+a.Name, &P, refPts[i], nil)
		r.Eval(1)
	}

	// ---- add / mixAdd on PT x PT; double, neg on PT
	verifmc.ParallelFor(len(logs)*len(logs), func(idx int) {
		i, j := idx/len(logs), idx%len(logs)
		a, b := logs[i], logs[j]
		id := "add/" + a.Name + "/" + b.Name
		if r.Want(id) {
			want := ref.BaseMult(new(big.Int).Add(a.V, b.V))
			P := c13R1(refPts[i])
			var q2 pointR2
			q2.fromR1(c13R1(refPts[j]))
			if try("add", id, func() { P.add(&q2) }) {
				check("add", "P="+a.Name+"|Q="+b.Name, id, P, want, nil)
			}
			// the same operand as an affine table entry (pointR3)
			M := c13R1(refPts[i])
			q3 := q2.pointR3 // z2 = 2 means z = 1, so the R3 part is the affine precomputation
			if try("mixAdd", id+"/mix", func() { M.mixAdd(&q3) }) {
				check("mixAdd", "P="+a.Name+"|Q="+b.Name, id+"/mix", M, want, nil)
			}
			// accumulator in projective form: (P+Q) + (-Q) = P
			nq := c13R1(refPts[j])
			nq.neg()
			var nq2 pointR2
			nq2.fromR1(nq)
			B := *P
			if try("add", id+"/back", func() { B.add(&nq2) }) {
				check("add", "projective-accumulator|P="+a.Name+"|Q="+b.Name, id+"/back", &B, refPts[i], nil)
				// chain to the identity through non-normalised operands: ((P+Q)-Q)-P
				np := c13R1(refPts[i])
				np.neg()
				var np2 pointR2
				np2.fromR1(np)
				Z := B
				if try("add", id+"/chain", func() { Z.add(&np2) }) {
					check("add", "chain-to-identity|P="+a.Name+"|Q="+b.Name, id+"/chain", &Z, ref.Identity(), nil)
				}
			}
			r.Eval(4)
			r.Transition(3)
			r.Distinct("add", a.Name, b.Name)
			switch {
			case a.V.Sign() == 0 || b.V.Sign() == 0:
				r.Count("add_with_identity", 1)
			case a.V.Cmp(b.V) == 0:
				r.Count("add_P_eq_Q", 1)
			case new(big.Int).Mod(new(big.Int).Add(a.V, b.V), N).Sign() == 0:
				r.Count("add_P_eq_negQ", 1)
			}
		}
		if j == 0 && r.Want("dbl/"+a.Name) {
			D := c13R1(refPts[i])
			if try("double", "dbl/"+a.Name, func() { D.double() }) {
				check("double", "P="+a.Name, "dbl/"+a.Name, D, ref.BaseMult(new(big.Int).Lsh(a.V, 1)), nil)
				// doubling a projective point again
				if try("double", "dbl2/"+a.Name, func() { D.double() }) {
					check("double", "projective|P="+a.Name, "dbl2/"+a.Name, D, ref.BaseMult(new(big.Int).Lsh(a.V, 2)), nil)
				}
			}
			Ng := c13R1(refPts[i])
			Ng.neg()
			check("neg", "P="+a.Name, "neg/"+a.Name, Ng, ref.Neg(refPts[i]), nil)
			r.Eval(3)
			r.Transition(3)
			r.Distinct("dbl", a.Name)
			r.Distinct("neg", a.Name)
		}
	})
	r.Sample(map[string]string{"op": "add", "P": logs[1].Name, "Q": logs[1].Name})

	r.RequireCounter("add_P_eq_Q", 5)
	r.RequireCounter("add_P_eq_negQ", 5)
	r.RequireCounter("add_with_identity", 10)
	r.RequireCounter("identity_results_queried", 300)
	r.RequireCounter("non_identity_results_queried", 500)
}
