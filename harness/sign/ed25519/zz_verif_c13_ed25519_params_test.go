//go:build verif

package ed25519

// C13 / Ed25519: the package constants the group arithmetic relies on (order,
// paramD) equal RFC 8032. Unexported names used by this file: order, paramD.

import (
	"bytes"
	"testing"

	"github.com/cloudflare/circl/internal/verifmc"
	"github.com/cloudflare/circl/internal/verifref/ecurve"
	"github.com/cloudflare/circl/internal/verifref/fpx"
)

func TestVerifC13_ed25519_params(t *testing.T) {
	r := verifmc.Start(t, "C13", "ed25519_params")
	defer r.Finish()
	r.Rule("the two package constants order and paramD equal the RFC 8032 values of the reference model; distinct = each constant")
	ref := ecurve.Edwards25519()
	if !bytes.Equal(fpx.ToLE(ref.N, 32), order[:32]) {
		r.Violation("C13|ed25519.params|differ|order", "params/order", "package constant order differs from RFC 8032", nil)
	}
	if c13Int(&paramD).Cmp(ref.D.A) != 0 {
		r.Violation("C13|ed25519.params|differ|paramD", "params/paramD", "package constant paramD differs from RFC 8032", nil)
	}
	r.Eval(2)
	r.Distinct("order")
	r.Distinct("paramD")
	r.Sample(map[string]string{"constant": "order", "le": verifmc.FullHex(order[:32])})
}
