//go:build verif

package ed448_test

// C05 / Ed448, Ed448ph: key generation, signing and verification through
// every exported route against the RFC 8032 transcription ref/eddsa (big.Int,
// SHAKE256 from x/crypto). Units:
//
//	refcheck448  binds ref/eddsa to RFC 8032 section 7.4/7.5 (the vectors of
//	             ref/testdata/c05_rfc8032.json) and testdata/wycheproof_Ed448.json
//	sign448      public key and signature bytes for seeds x messages x contexts
//	verify448    three-valued verification oracle on every enumerated alteration
//
// (The helper functions are twins of those in sign/ed25519: test files of
// another package cannot be imported.)

import (
	"bytes"
	"crypto"
	"encoding/hex"
	"encoding/json"
	"fmt"
	"math/big"
	"os"
	"sort"
	"testing"

	"github.com/cloudflare/circl/internal/verifmc"
	"github.com/cloudflare/circl/internal/verifref/c05kit"
	"github.com/cloudflare/circl/internal/verifref/ecurve"
	"github.com/cloudflare/circl/internal/verifref/eddsa"
	"github.com/cloudflare/circl/sign"
	"github.com/cloudflare/circl/sign/ed448"
)

func c05Opts448(v *eddsa.Variant, ctx []byte) ed448.SignerOptions {
	o := ed448.SignerOptions{Hash: crypto.Hash(0), Context: string(ctx), Scheme: ed448.ED448}
	if v.Ph {
		o.Scheme = ed448.ED448Ph
	}
	return o
}

func c05Signers448(v *eddsa.Variant) []c05kit.Signer {
	pubOf := func(seed []byte) []byte { return ed448.NewKeyFromSeed(seed).Public().(ed448.PublicKey) }
	direct := c05kit.Signer{Name: "ed448.Sign", Pub: pubOf, Sign: func(seed, msg, ctx []byte) []byte {
		return ed448.Sign(ed448.NewKeyFromSeed(seed), msg, string(ctx))
	}}
	if v.Ph {
		direct.Name = "ed448.SignPh"
		direct.Sign = func(seed, msg, ctx []byte) []byte { return ed448.SignPh(ed448.NewKeyFromSeed(seed), msg, string(ctx)) }
	}
	out := []c05kit.Signer{direct, {
		Name: "ed448.PrivateKey.Sign(" + v.Name + ")",
		Pub: func(seed []byte) []byte {
			pk, _, err := ed448.GenerateKey(bytes.NewReader(seed))
			if err != nil {
				panic(err)
			}
			return pk
		},
		Sign: func(seed, msg, ctx []byte) []byte {
			s, err := ed448.NewKeyFromSeed(seed).Sign(nil, msg, c05Opts448(v, ctx))
			if err != nil {
				panic(err)
			}
			return s
		},
	}}
	if !v.Ph {
		sch := ed448.Scheme()
		out = append(out, c05kit.Signer{
			Name: "ed448.Scheme.Sign",
			Pub: func(seed []byte) []byte {
				pk, _ := sch.DeriveKey(seed)
				b, err := pk.MarshalBinary()
				if err != nil {
					panic(err)
				}
				return b
			},
			Sign: func(seed, msg, ctx []byte) []byte {
				_, sk := sch.DeriveKey(seed)
				return sch.Sign(sk, msg, &sign.SignatureOpts{Context: string(ctx)})
			},
		})
	}
	return out
}

func c05Entries448(v *eddsa.Variant) []c05kit.Entry {
	any := c05kit.Entry{Name: "ed448.VerifyAny(" + v.Name + ")", Verify: func(pub, msg, sig, ctx []byte) bool {
		return ed448.VerifyAny(ed448.PublicKey(pub), msg, sig, c05Opts448(v, ctx))
	}}
	if v.Ph {
		return []c05kit.Entry{
			{Name: "ed448.VerifyPh", Verify: func(pub, msg, sig, ctx []byte) bool {
				return ed448.VerifyPh(ed448.PublicKey(pub), msg, sig, string(ctx))
			}},
			any,
		}
	}
	return []c05kit.Entry{
		{Name: "ed448.Verify", Verify: func(pub, msg, sig, ctx []byte) bool {
			return ed448.Verify(ed448.PublicKey(pub), msg, sig, string(ctx))
		}},
		any,
		{Name: "ed448.Scheme.Verify", Verify: func(pub, msg, sig, ctx []byte) bool {
			return ed448.Scheme().Verify(ed448.PublicKey(pub), msg, sig, &sign.SignatureOpts{Context: string(ctx)})
		}},
	}
}

func c05Ctxs() [][]byte {
	return [][]byte{nil, []byte("a"), bytes.Repeat([]byte{'x'}, 255)}
}

func c05Msgs() [][]byte {
	var m [][]byte
	for _, n := range append(verifmc.Lens(128), 1000) {
		m = append(m, verifmc.Msg(n))
	}
	return m
}

func c05ExtraSeeds(n, size int) [][]byte {
	var s [][]byte
	for i := 0; i < n; i++ {
		s = append(s, verifmc.Shake(fmt.Sprintf("c05-seed-%d", i), size))
	}
	return s
}

func c05Bases() []c05kit.Base {
	ctxs := c05Ctxs()
	seeds := verifmc.Seeds(57, 0)
	return []c05kit.Base{
		{Name: "b0", Seed: seeds[3], Msg: verifmc.Msg(33), Ctx: ctxs[1]},
		{Name: "b1", Seed: seeds[0], Msg: nil, Ctx: ctxs[2]},
		{Name: "b2", Seed: seeds[1], Msg: verifmc.Msg(1000), Ctx: ctxs[0]},
	}
}

// c05ProjCheck: see the twin in sign/ed25519.
func c05ProjCheck(v *eddsa.Variant, r *verifmc.Run) string {
	c := v.C
	L := c.N
	one := big.NewInt(1)
	ks := []*big.Int{big.NewInt(0), big.NewInt(1), big.NewInt(2), big.NewInt(7), new(big.Int).Sub(L, one), new(big.Int).Set(L), new(big.Int).Add(L, one)}
	for _, sh := range []uint{63, 64, 127, 128, 252, uint(L.BitLen())} {
		ks = append(ks, new(big.Int).Lsh(one, sh), new(big.Int).Sub(new(big.Int).Lsh(one, sh), one))
	}
	for i := 0; i < 3; i++ {
		ks = append(ks, new(big.Int).SetBytes(verifmc.Shake(fmt.Sprintf("c05-proj-%d", i), v.B)))
	}
	tors := v.Torsion()
	if int64(len(tors)) != v.H {
		return "torsion subgroup has wrong size"
	}
	for i, T := range tors {
		if !c.IsOnCurve(T) {
			return "torsion point off curve"
		}
		for j := 0; j < i; j++ {
			if c.Equal(tors[j], T) {
				return "torsion points not distinct"
			}
		}
	}
	pts := []ecurve.Point{c.G, tors[1], c.Add(c.G, tors[1]), c.ScalarMult(big.NewInt(5), c.G)}
	bad := make([]string, len(ks))
	verifmc.ParallelFor(len(ks), func(i int) {
		k := ks[i]
		if !c.Equal(v.BaseMult(k), c.ScalarMult(k, c.G)) {
			bad[i] = "projective BaseMult differs from affine ScalarMult for k=" + k.String()
			return
		}
		for _, P := range pts {
			if !c.Equal(v.ScalarMult(k, P), c.ScalarMult(k, P)) {
				bad[i] = "projective ScalarMult differs from affine ScalarMult for k=" + k.String()
				return
			}
			r.Eval(1)
		}
		r.Count("proj-vs-affine", 1+len(pts))
	})
	for _, b := range bad {
		if b != "" {
			return b
		}
	}
	return ""
}

// c05Vec is one RFC 8032 section 7 vector from the fixture
// $VERIF_DIR/ref/testdata/c05_rfc8032.json (the harness does not use the
// repository's own test helpers or literals).
type c05Vec struct {
	Name, Scheme          string
	Ph                    bool
	Sk, Pk, Sig, Msg, Ctx string
}

func (v c05Vec) bytes(t *testing.T) (sk, pk, sig, msg, ctx []byte) {
	dec := func(s string) []byte {
		b, err := hex.DecodeString(s)
		if err != nil {
			t.Fatalf("refcheck: bad hex in RFC 8032 fixture: %v", err)
		}
		return b
	}
	return dec(v.Sk), dec(v.Pk), dec(v.Sig), dec(v.Msg), dec(v.Ctx)
}

func c05RFCVectors(t *testing.T, curve string) []c05Vec {
	dir := os.Getenv("VERIF_DIR")
	if dir == "" {
		dir = "/verif"
	}
	raw, err := os.ReadFile(dir + "/ref/testdata/c05_rfc8032.json")
	if err != nil {
		t.Fatalf("refcheck: %v", err)
	}
	var f struct {
		Vectors map[string][]c05Vec `json:"vectors"`
	}
	if err := json.Unmarshal(raw, &f); err != nil {
		t.Fatalf("refcheck: %v", err)
	}
	return f.Vectors[curve]
}

func TestVerifC05_refcheck448(t *testing.T) {
	r := verifmc.Start(t, "C05", "refcheck448")
	defer r.Finish()
	r.Rule("reference binding: RFC 8032 7.4-7.5 vectors (fixture ref/testdata/c05_rfc8032.json), Wycheproof Ed448 file, projective vs affine scalar multiplication")
	for _, rv := range c05RFCVectors(t, "ed448") {
		vec := struct {
			name                  string
			ph                    bool
			sk, pk, sig, msg, ctx []byte
		}{name: rv.Name, ph: rv.Ph}
		vec.sk, vec.pk, vec.sig, vec.msg, vec.ctx = rv.bytes(t)
		v := eddsa.Ed448
		if vec.ph {
			v = eddsa.Ed448ph
		}
		if got := v.PublicKey(vec.sk); !bytes.Equal(got, vec.pk) {
			t.Fatalf("refcheck: %s public key %x != RFC 8032 %x", vec.name, got, vec.pk)
		}
		got, ok := v.Sign(vec.sk, vec.msg, vec.ctx)
		if !ok || !bytes.Equal(got, vec.sig) {
			t.Fatalf("refcheck: %s signature %x != RFC 8032 %x", vec.name, got, vec.sig)
		}
		if vd := v.Verify(vec.pk, vec.msg, vec.sig, vec.ctx); vd.Class != eddsa.MustAccept {
			t.Fatalf("refcheck: %s RFC 8032 signature judged %v (%s)", vec.name, vd.Class, vd.Reason)
		}
		r.Count("rfc8032-vectors", 1)
		if vec.ph {
			r.Count("rfc8032-vectors-ph", 1)
		}
		if len(vec.ctx) > 0 {
			r.Count("rfc8032-vectors-ctx", 1)
		}
		r.Eval(1)
	}
	raw, err := os.ReadFile("testdata/wycheproof_Ed448.json")
	if err != nil {
		t.Fatal(err)
	}
	var w struct {
		Groups []struct {
			Key   struct{ Pk, Sk string }
			Tests []struct {
				TcID             int
				Msg, Sig, Result string
			}
		} `json:"testGroups"`
	}
	if err := json.Unmarshal(raw, &w); err != nil {
		t.Fatal(err)
	}
	for _, g := range w.Groups {
		pk, _ := hex.DecodeString(g.Key.Pk)
		sk, _ := hex.DecodeString(g.Key.Sk)
		if got := eddsa.Ed448.PublicKey(sk); !bytes.Equal(got, pk) {
			t.Fatalf("refcheck: Wycheproof key %x: reference public key differs", sk)
		}
		for _, tc := range g.Tests {
			msg, _ := hex.DecodeString(tc.Msg)
			sig, _ := hex.DecodeString(tc.Sig)
			vd := eddsa.Ed448.Verify(pk, msg, sig, nil)
			switch {
			case tc.Result == "valid" && vd.Class != eddsa.MustAccept:
				t.Fatalf("refcheck: Wycheproof tcId %d is valid, reference says %v (%s)", tc.TcID, vd.Class, vd.Reason)
			case tc.Result == "invalid" && vd.Class != eddsa.MustReject:
				t.Fatalf("refcheck: Wycheproof tcId %d is invalid, reference says %v (%s)", tc.TcID, vd.Class, vd.Reason)
			}
			if tc.Result == "valid" {
				if got, _ := eddsa.Ed448.Sign(sk, msg, nil); !bytes.Equal(got, sig) {
					t.Fatalf("refcheck: Wycheproof tcId %d: reference signature differs", tc.TcID)
				}
			}
			r.Count("wycheproof:"+tc.Result, 1)
			r.Eval(1)
		}
	}
	if msg := c05ProjCheck(eddsa.Ed448, r); msg != "" {
		t.Fatal("refcheck: " + msg)
	}
	r.RequireCounter("rfc8032-vectors", 11)
	r.RequireCounter("rfc8032-vectors-ph", 2)
	r.RequireCounter("rfc8032-vectors-ctx", 1)
	r.RequireCounter("wycheproof:valid", 17)
	r.RequireCounter("wycheproof:invalid", 69)
}

func TestVerifC05_sign448(t *testing.T) {
	r := verifmc.Start(t, "C05", "sign448")
	defer r.Finish()
	r.Rule("variants {Ed448, Ed448ph} x seeds SEEDS(57) x messages of length {0,1,127,128,129,255,256,257,1000} x contexts {'', 'a', 255 x 'x'}, " +
		"plus extra SHAKE-derived seeds with one message: public key and signature bytes of every signing route (Sign/SignPh, PrivateKey.Sign with options, GenerateKey, Scheme) " +
		"equal ref/eddsa; the reference signature is accepted by every verification route; distinct = distinct (variant, seed, message, context)")
	seeds := verifmc.Seeds(57, r.Seed())
	extra := c05ExtraSeeds(r.Pick(24, 256), 57)
	if !r.Thorough() && r.Config() != "default" {
		// quick tier, configurations other than default: a declared subset
		seeds, extra = seeds[2:4], extra[:8]
		r.NotExhaustive("quick tier, non-default configuration: 2 of the structured seeds, 8 extra seeds")
	}
	var wantCases int64
	for _, v := range []*eddsa.Variant{eddsa.Ed448, eddsa.Ed448ph} {
		signers, entries, ctxs := c05Signers448(v), c05Entries448(v), c05Ctxs()
		errs := c05kit.SignAll(r, verifmc.ParallelFor, "sign448", v, signers, entries, nil, seeds, c05Msgs(), ctxs, true)
		errs = append(errs, c05kit.SignAll(r, verifmc.ParallelFor, "sign448x", v, signers, entries, nil, extra, [][]byte{verifmc.Msg(3)}, ctxs[:1], false)...)
		if len(errs) > 0 {
			t.Fatalf("harness-internal: %v", errs)
		}
		wantCases += int64(len(seeds)*len(c05Msgs())*len(ctxs) + len(extra))
	}
	// floor on the enumerated (variant, seed, message, context) triples: a property of the alphabet, not of the library's answers
	r.RequireCounter("sign-cases", wantCases)
	r.Set("seeds", len(seeds))
	r.Set("extra_seeds", len(extra))
}

func TestVerifC05_verify448(t *testing.T) {
	r := verifmc.Start(t, "C05", "verify448")
	defer r.Finish()
	r.Rule("per variant and base (seed, message, context): honest signature; S in {0,1,S+-1,L-1,L,L+1,S+jL (j<=16, while it fits),2^445,2^446-1,2^446,2^446+S,S|2^k (k=446..455),2^448-1,S+0xff*2^448,all-ones}; " +
		"A = identity, R = [S]B for the 12 legal boundary values S in {1,2,2^64-1,2^64,2^128,2^(n-2),2^(n-1)-1,2^(n-1),2^(n-1)+1,(L-1)/2,L-2,L-1} (must-accept; for Ed25519 four of them lie in the sliver [2^252,L)); A = R = identity with S = jL (j in {0,1,2,3,4,5,8,15,255,1023}); A and R: all 4 small-order points, y=p+j and y=2^448-1-j (j<32) x sign bit (128 strings), forged signatures over small-order and mixed-order keys and R with torsion, " +
		"non-canonical strings denoting small-order points (y=p, y=p+1, x=0 with sign bit) and ALL 127 non-zero values of the 7 unused bits of the last byte of A and of R, each carrying a signature valid for the denoted point; " +
		"wrong lengths; altered message and context; contexts of 256/257/511/512 bytes signed with a wrapped length octet; " +
		"every single-bit flip of A, R and S (base b0 of Ed448 in the quick tier, all bases and both variants in the thorough tier); each variant's honest signature offered to the other; " +
		"each case judged must-accept / must-reject / either by ref/eddsa and given to every verification route; distinct = distinct (variant, key, message, signature, context)")
	vs := []*eddsa.Variant{eddsa.Ed448, eddsa.Ed448ph}
	// quick tier, configurations other than default: one base per variant, no bit flips (declared)
	light := !r.Thorough() && r.Config() != "default"
	// vacuity floors: summed over the Cases calls actually made (c05kit.Floors: derived from the
	// alphabet and the reference's classification by construction, never from the library's answers)
	want := map[string]int64{}
	if light {
		r.NotExhaustive("quick tier, non-default configuration: base b0 only, no single-bit flips")
	}
	for _, v := range vs {
		bases := c05Bases()
		if !r.Thorough() {
			bases = bases[:2]
		}
		if light {
			bases = bases[:1]
		}
		for bi, b := range bases {
			if r.Expired() {
				return
			}
			flips := r.Thorough() || (bi == 0 && v == eddsa.Ed448 && !light)
			if !flips {
				r.NotExhaustive("quick tier: single-bit flips only on base b0 of plain Ed448")
			}
			cases := c05kit.Cases(v, b, c05kit.Options{Flips: flips})
			for k, n := range c05kit.Floors(v, c05kit.Options{Flips: flips}) {
				want[k] += n
			}
			if errs := c05kit.Judge(r, verifmc.ParallelFor, "verify448", v, c05Entries448(v), cases); len(errs) > 0 {
				t.Fatalf("harness-internal: %v", errs)
			}
		}
		b := bases[0]
		sig, _ := v.Sign(b.Seed, b.Msg, b.Ctx)
		pub := v.PublicKey(b.Seed)
		for _, w := range vs {
			if w == v {
				continue
			}
			cs := []c05kit.Case{{ID: v.Name + "|b0|cross-variant|as-" + w.Name, Group: "cross-variant", Pub: pub, Msg: b.Msg, Sig: sig, Ctx: b.Ctx}}
			if errs := c05kit.Judge(r, verifmc.ParallelFor, "verify448", w, c05Entries448(w), cs); len(errs) > 0 {
				t.Fatalf("harness-internal: %v", errs)
			}
		}
	}
	var names []string
	for k := range want {
		names = append(names, k)
	}
	sort.Strings(names)
	for _, k := range names {
		r.RequireCounter(k, want[k])
	}
	r.Set("floors", want)
}
