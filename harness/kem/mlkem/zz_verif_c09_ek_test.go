//go:build verif

package mlkem

// C09 / ML-KEM encapsulation keys: Scheme().UnmarshalBinaryPublicKey performs
// the FIPS 203 7.2 modulus check: a key is accepted only if every 12-bit
// coefficient is < q, and MarshalBinary gives the parsed bytes back.
// Oracle: ByteDecode12 range test of ref/c09ref.

import (
	"testing"

	"github.com/cloudflare/circl/internal/verifmc"
	"github.com/cloudflare/circl/internal/verifref/c09ref"
	"github.com/cloudflare/circl/kem"
	"github.com/cloudflare/circl/kem/mlkem/mlkem1024"
	"github.com/cloudflare/circl/kem/mlkem/mlkem512"
	"github.com/cloudflare/circl/kem/mlkem/mlkem768"
)

func TestVerifC09_mlkem_ek(t *testing.T) {
	r := verifmc.Start(t, "C09", "mlkem_ek")
	defer r.Finish()
	r.Rule("per parameter set (k = 2, 3, 4) and per derived key (1 quick / 3 thorough seeds): the key itself, every single-bit flip of it (all 8*(384k+32) bits; quick: ML-KEM-768 only), " +
		"and every one of the 256k coefficient positions set to each of q-1, q, q+1, 0xE00, 4095, 0; accepted => all coefficients < q and re-marshal == input; " +
		"a string with all coefficients < q that is refused is counted; every case also through PublicKey.Unpack on a key object that already holds the valid key, and before it; distinct = distinct (scheme, input bytes)")
	type unpacker interface {
		Unpack([]byte) error
		MarshalBinary() ([]byte, error)
	}
	for _, sc := range []struct {
		s   kem.Scheme
		k   int
		new func() unpacker
	}{{mlkem512.Scheme(), 2, func() unpacker { return new(mlkem512.PublicKey) }},
		{mlkem768.Scheme(), 3, func() unpacker { return new(mlkem768.PublicKey) }},
		{mlkem1024.Scheme(), 4, func() unpacker { return new(mlkem1024.PublicKey) }}} {
		sc := sc
		var cases []c09ref.Case
		for i, seed := range verifmc.SeedsN(sc.s.SeedSize(), r.Seed(), r.Pick(4, 6)) {
			if i < 3 && !(r.Thorough() && i == 2) {
				continue // all-00, all-FF seeds and 00 01 02..: keep the SHAKE ones (and 00 01 02.. when thorough)
			}
			pk, _ := sc.s.DeriveKeyPair(seed)
			ek, err := pk.MarshalBinary()
			if err != nil {
				t.Fatal(err)
			}
			if len(ek) != c09ref.MLKEMLen(sc.k) {
				t.Fatalf("%s: key length %d", sc.s.Name(), len(ek))
			}
			cases = append(cases, c09ref.Case{Name: "lib/key" + string(rune('0'+i)), Class: "valid-lib", Data: ek})
			cases = append(cases, c09ref.MLKEMCases("key"+string(rune('0'+i)), ek, sc.k, r.Thorough() || sc.k == 3)...)
			back, err := sc.s.UnmarshalBinaryPublicKey(c09ref.Clone(ek))
			if err != nil || !back.Equal(pk) {
				r.Violation("C09|"+sc.s.Name()+".UnmarshalBinaryPublicKey|own-encoding-not-equal|valid-lib", "own-key",
					"a marshalled encapsulation key is refused or differs", nil)
			}
		}
		dec := make([]verifmc.DecCase, len(cases))
		var own []byte
		for i, cs := range cases {
			dec[i] = verifmc.DecCase{Name: cs.Name, Class: cs.Class, Data: cs.Data}
			if cs.Class == "valid-lib" && own == nil {
				own = cs.Data
			}
		}
		r.CheckDecoder(verifmc.DecSpec{Entry: sc.s.Name() + ".UnmarshalBinaryPublicKey", Cases: dec, RefAll: true,
			Ref: func(in []byte) verifmc.DecOracle {
				v := c09ref.MLKEMVerdict(in, sc.k)
				return verifmc.DecOracle{Member: v.Member, Reason: v.Reason}
			},
			// PublicKey.Unpack on a key object that already holds the library's own key (every case derives from it)
			DefaultBase: own,
			Seq: func(first, second []byte) verifmc.DecResult {
				pk := sc.new()
				_ = pk.Unpack(first)
				if err := pk.Unpack(second); err != nil {
					return verifmc.DecResult{}
				}
				out, _ := pk.MarshalBinary()
				return verifmc.DecResult{Accepted: true, Reenc: out}
			},
			Lib: func(in []byte) verifmc.DecResult {
				keep := c09ref.Clone(in)
				pk, err := sc.s.UnmarshalBinaryPublicKey(in)
				if err != nil {
					return verifmc.DecResult{}
				}
				out, err := pk.MarshalBinary()
				res := verifmc.DecResult{Accepted: true, Reenc: out}
				if err != nil {
					res.Note = "marshal-fails-after-accept"
				}
				if string(keep) != string(in) {
					res.Note = "input-modified"
				}
				return res
			}})
	}
	r.RequireCounter("in:coefficient>=q", 4*256*(2+3+4)-64)
	r.RequireCounter("in:flip", 8*1184-16)
	r.RequireCounter("in:valid-lib", 3)
	r.RequireCounter("accepted", 8*32)
	if r.Counter("rejected_canonical_member") != 0 {
		r.Set("note", "some well-formed encapsulation keys were refused (not demanded by C09, see rejected_canonical_member)")
	}
}
