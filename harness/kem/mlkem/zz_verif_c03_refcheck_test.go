//go:build verif

package mlkem

// C03 refcheck: binds the reference model /verif/ref/mlkem to its specifications
// before any comparison with circl is believed. Nothing in this file calls circl's
// ML-KEM/Kyber code; a failure here is a broken check (t.Fatal), never an alarm.
//
//  (a) NIST ACVP vectors shipped as data in kem/mlkem/testdata (keyGen, encapsulation, decapsulation),
//  (b) SHA-256 digests of the round-3 Kyber KAT files (100 vectors per parameter set; digests as
//      recorded in kem/kyber/kat_test.go "computed from reference implementation"), regenerated with
//      an AES-CTR DRBG written on crypto/aes,
//  (c) algebra: the reference NTT is a ring isomorphism of Z_q[X]/(X^256+1) (schoolbook product),
//  (d) exhaustive scalar facts: Compress_d/Decompress_d against exact rational rounding (math/big),
//  (e) optional fixture produced by go1.26 crypto/mlkem (768, 1024) on the C03 seed alphabet.

import (
	"bytes"
	"compress/gzip"
	"crypto/sha256"
	"encoding/hex"
	"encoding/json"
	"fmt"
	"io"
	"math/big"
	"os"
	"path/filepath"
	"strings"
	"sync"
	"testing"

	"github.com/cloudflare/circl/internal/verifmc"
	ref "github.com/cloudflare/circl/internal/verifref/mlkem"
)

// c03Hex / c03ReadGzip: own copies, so that this file does not depend on the helpers of the
// repository's acvp_test.go (a harness file must survive refactorings of the tree under test).
type c03Hex []byte

func (b *c03Hex) UnmarshalJSON(data []byte) (err error) {
	var s string
	if err = json.Unmarshal(data, &s); err != nil {
		return err
	}
	*b, err = hex.DecodeString(s)
	return err
}

func c03ReadGzip(path string) ([]byte, error) {
	f, err := os.Open(path)
	if err != nil {
		return nil, err
	}
	defer f.Close()
	z, err := gzip.NewReader(f)
	if err != nil {
		return nil, err
	}
	return io.ReadAll(z)
}

func c03ParamsByName(name string) *ref.Params {
	switch {
	case strings.HasSuffix(name, "512"):
		return ref.P512
	case strings.HasSuffix(name, "768"):
		return ref.P768
	case strings.HasSuffix(name, "1024"):
		return ref.P1024
	}
	return nil
}

func c03LoadACVP(t *testing.T, sub string) (prompt []json.RawMessage, results map[int]json.RawMessage) {
	buf, err := c03ReadGzip("testdata/ML-KEM-" + sub + "-FIPS203/prompt.json.gz")
	if err != nil {
		t.Fatal(err)
	}
	var p struct {
		TestGroups []json.RawMessage `json:"testGroups"`
	}
	if err := json.Unmarshal(buf, &p); err != nil {
		t.Fatal(err)
	}
	buf, err = c03ReadGzip("testdata/ML-KEM-" + sub + "-FIPS203/expectedResults.json.gz")
	if err != nil {
		t.Fatal(err)
	}
	var r struct {
		TestGroups []struct {
			Tests []json.RawMessage `json:"tests"`
		} `json:"testGroups"`
	}
	if err := json.Unmarshal(buf, &r); err != nil {
		t.Fatal(err)
	}
	results = map[int]json.RawMessage{}
	for _, g := range r.TestGroups {
		for _, raw := range g.Tests {
			var x struct {
				TcID int `json:"tcId"`
			}
			if err := json.Unmarshal(raw, &x); err != nil {
				t.Fatal(err)
			}
			results[x.TcID] = raw
		}
	}
	return p.TestGroups, results
}

func TestVerifC03_refcheck(t *testing.T) {
	r := verifmc.Start(t, "C03", "refcheck")
	defer r.Finish()
	r.Rule("reference model only (no circl code): every ACVP vector in kem/mlkem/testdata, 3x100 round-3 KAT vectors by digest, " +
		"NTT ring-isomorphism on basis pairs, Compress/Decompress on their whole domain against exact rationals; non-trivial = each vector / each domain point")

	// (a) ACVP
	groups, results := c03LoadACVP(t, "keyGen")
	for _, raw := range groups {
		var g struct {
			ParameterSet string `json:"parameterSet"`
			Tests        []struct {
				TcID int    `json:"tcId"`
				Z    c03Hex `json:"z"`
				D    c03Hex `json:"d"`
			}
		}
		if err := json.Unmarshal(raw, &g); err != nil {
			t.Fatal(err)
		}
		p := c03ParamsByName(g.ParameterSet)
		for _, tc := range g.Tests {
			var want struct {
				Ek c03Hex `json:"ek"`
				Dk c03Hex `json:"dk"`
			}
			if err := json.Unmarshal(results[tc.TcID], &want); err != nil {
				t.Fatal(err)
			}
			ek, dk := ref.KeyGenInternal(p, tc.D, tc.Z)
			if !bytes.Equal(ek, want.Ek) || !bytes.Equal(dk, want.Dk) {
				t.Fatalf("reference KeyGen_internal differs from ACVP keyGen tcId %d (%s)", tc.TcID, g.ParameterSet)
			}
			if ref.CheckEncapsKey(p, ek) != nil || ref.CheckDecapsKey(p, dk) != nil {
				t.Fatalf("reference input checks refuse ACVP key tcId %d", tc.TcID)
			}
			r.Eval(1)
			r.Distinct("acvp-keygen", tc.TcID)
			r.Count("acvp_keygen", 1)
		}
	}
	groups, results = c03LoadACVP(t, "encapDecap")
	for _, raw := range groups {
		var g struct {
			TestType     string `json:"testType"`
			ParameterSet string `json:"parameterSet"`
			Dk           c03Hex `json:"dk"`
			Tests        []struct {
				TcID int    `json:"tcId"`
				Ek   c03Hex `json:"ek"`
				M    c03Hex `json:"m"`
				C    c03Hex `json:"c"`
			}
		}
		if err := json.Unmarshal(raw, &g); err != nil {
			t.Fatal(err)
		}
		p := c03ParamsByName(g.ParameterSet)
		for _, tc := range g.Tests {
			var want struct {
				C c03Hex `json:"c"`
				K c03Hex `json:"k"`
			}
			if err := json.Unmarshal(results[tc.TcID], &want); err != nil {
				t.Fatal(err)
			}
			switch g.TestType {
			case "AFT":
				K, c := ref.EncapsInternal(p, tc.Ek, tc.M)
				if !bytes.Equal(K, want.K) || !bytes.Equal(c, want.C) {
					t.Fatalf("reference Encaps_internal differs from ACVP tcId %d (%s)", tc.TcID, g.ParameterSet)
				}
				r.Count("acvp_encaps", 1)
			case "VAL":
				K := ref.DecapsInternal(p, g.Dk, tc.C)
				if !bytes.Equal(K, want.K) {
					t.Fatalf("reference Decaps_internal differs from ACVP tcId %d (%s)", tc.TcID, g.ParameterSet)
				}
				if ref.Rejected(p, g.Dk, tc.C) {
					r.Count("acvp_decaps_rejecting", 1)
				}
				r.Count("acvp_decaps", 1)
			default:
				t.Fatalf("unknown ACVP test type %q", g.TestType)
			}
			r.Eval(1)
			r.Distinct("acvp-encdec", tc.TcID)
		}
	}

	// (b) round-3 KAT digests (and the ML-KEM ones of the "standard" branch), see kem/kyber/kat_test.go
	kats := []struct {
		name, want string
		mlkem      bool
	}{
		{"Kyber512", "e9c2bd37133fcb40772f81559f14b1f58dccd1c816701be9ba6214d43baf4547", false},
		{"Kyber768", "a1e122cad3c24bc51622e4c242d8b8acbcd3f618fee4220400605ca8f9ea02c2", false},
		{"Kyber1024", "89248f2f33f7f4f7051729111f3049c409a933ec904aedadf035f30fa5646cd5", false},
		{"ML-KEM-512", "a30184edee53b3b009356e1e31d7f9e93ce82550e3c622d7192e387b0cc84f2e", true},
		{"ML-KEM-768", "729367b590637f4a93c68d5e4a4d2e2b4454842a52c9eec503e3a0d24cb66471", true},
		{"ML-KEM-1024", "3fba7327d0320cb6134badf2a1bcb963a5b3c0026c7dece8f00d6a6155e47b33", true},
	}
	digests := make([]string, len(kats))
	verifmc.ParallelFor(len(kats), func(ki int) {
		kat := kats[ki]
		p := c03ParamsByName(kat.name)
		var seed [48]byte
		for i := range seed {
			seed[i] = byte(i)
		}
		f := sha256.New()
		g := ref.NewDRBG(&seed)
		fmt.Fprintf(f, "# %s\n\n", strings.ReplaceAll(kat.name, "ML-KEM-", "Kyber"))
		kseed := make([]byte, 64)
		eseed := make([]byte, 32)
		for i := 0; i < 100; i++ {
			g.Fill(seed[:])
			fmt.Fprintf(f, "count = %d\nseed = %X\n", i, seed)
			g2 := ref.NewDRBG(&seed)
			var pk, sk, ct, ss, ss2 []byte
			if kat.mlkem {
				g2.Fill(kseed)
				g2.Fill(eseed)
				pk, sk = ref.KeyGenInternal(p, kseed[:32], kseed[32:])
				ss, ct = ref.EncapsInternal(p, pk, eseed)
				ss2 = ref.DecapsInternal(p, sk, ct)
			} else {
				g2.Fill(kseed[:32])
				g2.Fill(kseed[32:])
				g2.Fill(eseed)
				pk, sk = ref.KyberKeyGen(p, kseed[:32], kseed[32:])
				ss, ct = ref.KyberEncaps(p, pk, eseed)
				ss2 = ref.KyberDecaps(p, sk, ct)
			}
			if !bytes.Equal(ss, ss2) {
				digests[ki] = "reference decapsulation of an honest ciphertext differs from encapsulation"
				return
			}
			fmt.Fprintf(f, "pk = %X\nsk = %X\nct = %X\nss = %X\n\n", pk, sk, ct, ss)
			r.Eval(3)
			r.Distinct("kat", kat.name, i)
		}
		digests[ki] = hex.EncodeToString(f.Sum(nil))
	})
	for ki, kat := range kats {
		if digests[ki] != kat.want {
			t.Fatalf("reference %s: KAT digest %s, want %s", kat.name, digests[ki], kat.want)
		}
		r.Count("kat_files_matched", 1)
	}

	// (c) the reference NTT multiplies like Z_q[X]/(X^256+1)
	type pr struct{ i, j int }
	var pairs []pr
	for i := 0; i < 256; i++ {
		for _, j := range []int{0, 1, 127, 128, 255, (i * 7) % 256} {
			pairs = append(pairs, pr{i, j})
		}
	}
	var bad string
	var badMu sync.Mutex
	verifmc.ParallelFor(len(pairs), func(k int) {
		var a, b ref.Poly
		a[pairs[k].i] = 1 + (pairs[k].i*13)%(ref.Q-1)
		b[pairs[k].j] = ref.Q - 1 - (pairs[k].j*5)%(ref.Q-1)
		a[(pairs[k].i+3)%256] = 2
		want := ref.Schoolbook(a, b)
		got := ref.NTTInv(ref.MultiplyNTTs(ref.NTT(a), ref.NTT(b)))
		if got != want || ref.NTTInv(ref.NTT(a)) != a {
			badMu.Lock()
			bad = fmt.Sprintf("pair %v", pairs[k])
			badMu.Unlock()
		}
		r.Eval(1)
		r.Distinct("ntt", k)
	})
	if bad != "" {
		t.Fatalf("reference NTT is not a ring isomorphism: %s", bad)
	}
	r.Count("ntt_pairs", len(pairs))

	// (d) Compress_d / Decompress_d against exact rational rounding (ties up) on the whole domain
	half := big.NewRat(1, 2)
	roundUp := func(x *big.Rat) int64 { // floor(x + 1/2)
		y := new(big.Rat).Add(x, half)
		q := new(big.Int).Div(y.Num(), y.Denom()) // Euclidean division; y >= 0
		return q.Int64()
	}
	for _, d := range []int{1, 4, 5, 10, 11} {
		for x := 0; x < ref.Q; x++ {
			want := roundUp(big.NewRat(int64(x)<<uint(d), ref.Q)) % (1 << uint(d))
			if int64(ref.Compress(d, x)) != want {
				t.Fatalf("reference Compress_%d(%d) = %d, exact %d", d, x, ref.Compress(d, x), want)
			}
			r.Eval(1)
		}
		for y := 0; y < 1<<uint(d); y++ {
			want := roundUp(big.NewRat(int64(y)*ref.Q, 1<<uint(d)))
			if int64(ref.Decompress(d, y)) != want {
				t.Fatalf("reference Decompress_%d(%d) = %d, exact %d", d, y, ref.Decompress(d, y), want)
			}
			r.Eval(1)
		}
		r.Distinct("compress", d)
	}

	// (e) go1.26 crypto/mlkem fixture (generated by /verif/tools/c03oracle with go1.26.8; 768 and 1024 only)
	fx := filepath.Join(os.Getenv("VERIF_DIR"), "ref", "testdata", "c03_mlkem_go126.json")
	if os.Getenv("VERIF_DIR") == "" {
		fx = "/verif/ref/testdata/c03_mlkem_go126.json"
	}
	if raw, err := os.ReadFile(fx); err == nil {
		var cases []struct {
			K                   int
			D, Z, M, Ek, Ct, Ss c03Hex
			BadCt, BadSs        c03Hex
		}
		if err := json.Unmarshal(raw, &cases); err != nil {
			t.Fatalf("fixture %s: %v", fx, err)
		}
		for i, c := range cases {
			p := ref.ByK(c.K)
			ek, dk := ref.KeyGenInternal(p, c.D, c.Z)
			if !bytes.Equal(ek, c.Ek) {
				t.Fatalf("reference ek differs from go1.26 crypto/mlkem on fixture case %d", i)
			}
			K, ct := ref.EncapsInternal(p, ek, c.M)
			if !bytes.Equal(K, c.Ss) || !bytes.Equal(ct, c.Ct) {
				t.Fatalf("reference encapsulation differs from go1.26 crypto/mlkem on fixture case %d", i)
			}
			if !bytes.Equal(ref.DecapsInternal(p, dk, c.BadCt), c.BadSs) {
				t.Fatalf("reference implicit rejection differs from go1.26 crypto/mlkem on fixture case %d", i)
			}
			r.Eval(3)
			r.Distinct("go126", i)
			r.Count("go126_fixture_cases", 1)
		}
	} else {
		r.Set("go126_fixture", "absent: "+err.Error())
	}

	r.RequireCounter("acvp_keygen", 75)
	r.RequireCounter("acvp_encaps", 75)
	r.RequireCounter("acvp_decaps", 30)
	r.RequireCounter("kat_files_matched", 6)
	r.Sample(map[string]interface{}{"bound_to": []string{"ACVP ML-KEM-keyGen-FIPS203", "ACVP ML-KEM-encapDecap-FIPS203",
		"PQCkemKAT round-3 digests Kyber512/768/1024", "standard-branch digests ML-KEM-512/768/1024"}})
}
