//go:build verif

package mlkem

// C03, scheme level: the six KEMs (ML-KEM-512/768/1024, Kyber512/768/1024) through their public
// entry points (DeriveKeyPair = NewKeyFromSeed, EncapsulateDeterministically = EncapsulateTo,
// Decapsulate = DecapsulateTo, Marshal = Pack, Unmarshal = Unpack) against /verif/ref/mlkem
// (FIPS 203 KeyGen_internal / Encaps_internal / Decaps_internal, resp. round-3 Kyber.CCAKEM).

import (
	"bytes"
	"fmt"
	"strings"
	"testing"

	"github.com/cloudflare/circl/internal/verifmc"
	ref "github.com/cloudflare/circl/internal/verifref/mlkem"
	"github.com/cloudflare/circl/kem"
	"github.com/cloudflare/circl/kem/kyber/kyber1024"
	"github.com/cloudflare/circl/kem/kyber/kyber512"
	"github.com/cloudflare/circl/kem/kyber/kyber768"
	"github.com/cloudflare/circl/kem/mlkem/mlkem1024"
	"github.com/cloudflare/circl/kem/mlkem/mlkem512"
	"github.com/cloudflare/circl/kem/mlkem/mlkem768"
)

type c03Scheme struct {
	name  string
	p     *ref.Params
	mlkem bool
	s     kem.Scheme
}

func c03Schemes() []*c03Scheme {
	return []*c03Scheme{
		{"ML-KEM-512", ref.P512, true, mlkem512.Scheme()},
		{"ML-KEM-768", ref.P768, true, mlkem768.Scheme()},
		{"ML-KEM-1024", ref.P1024, true, mlkem1024.Scheme()},
		{"Kyber512", ref.P512, false, kyber512.Scheme()},
		{"Kyber768", ref.P768, false, kyber768.Scheme()},
		{"Kyber1024", ref.P1024, false, kyber1024.Scheme()},
	}
}

func (s *c03Scheme) refKeyGen(d, z []byte) (ek, dk []byte) {
	if s.mlkem {
		return ref.KeyGenInternal(s.p, d, z)
	}
	return ref.KyberKeyGen(s.p, d, z)
}

func (s *c03Scheme) refEncaps(ek, m []byte) (ss, ct []byte) {
	if s.mlkem {
		return ref.EncapsInternal(s.p, ek, m)
	}
	return ref.KyberEncaps(s.p, ek, m)
}

func (s *c03Scheme) refDecaps(dk, ct []byte) (ss []byte, rejected bool) {
	if s.mlkem {
		return ref.DecapsInternalTrace(s.p, dk, ct)
	}
	return ref.KyberDecapsTrace(s.p, dk, ct)
}

func (s *c03Scheme) spec() string {
	if s.mlkem {
		return "FIPS 203"
	}
	return "Kyber round 3"
}

// c03SeedPairs: diagonal, first row and first column of SEEDS(32)^2.
func c03SeedPairs(n int) [][2]int {
	var out [][2]int
	for i := 0; i < n; i++ {
		out = append(out, [2]int{i, i})
	}
	for j := 1; j < n; j++ {
		out = append(out, [2]int{0, j}, [2]int{j, 0})
	}
	return out
}

func c03Cat(a ...[]byte) []byte {
	var o []byte
	for _, x := range a {
		o = append(o, x...)
	}
	return o
}

// TestVerifC03_kem: key generation, encapsulation, honest decapsulation and key (re-)encoding for
// all six schemes on the (d,z) x m seed alphabet.
func TestVerifC03_kem(t *testing.T) {
	r := verifmc.Start(t, "C03", "kem")
	defer r.Finish()
	S := verifmc.Seeds(32, r.Seed())
	pairs := c03SeedPairs(len(S))
	schemes := c03Schemes()
	r.Rule("for each of the 6 schemes: (d,z) in diagonal+first row+first column of SEEDS(32)^2, m in SEEDS(32): ek, dk, ct, ss byte-equal to the reference; " +
		"decapsulation of the honest ct; Unmarshal(Marshal(key)) re-encodes to the same bytes and behaves identically; non-trivial = each distinct (scheme, d, z[, m])")
	r.Set("seed_alphabet", len(S))
	r.Set("dz_pairs", len(pairs))
	r.NotExhaustive("seeds range over the fixed alphabet SEEDS(32), not over all 2^512 / 2^256 values")
	type job struct {
		s  *c03Scheme
		pr [2]int
	}
	var jobs []job
	for _, s := range schemes {
		for _, pr := range pairs {
			jobs = append(jobs, job{s, pr})
		}
	}
	verifmc.ParallelFor(len(jobs), func(ji int) {
		s, di, zi := jobs[ji].s, jobs[ji].pr[0], jobs[ji].pr[1]
		id := fmt.Sprintf("%s/d%d/z%d", s.name, di, zi)
		if !r.Want(id) && !strings.HasPrefix(r.ReplayCase(), id+"/") {
			return
		}
		d, z := S[di], S[zi]
		replay := map[string]interface{}{"scheme": s.name, "d": verifmc.FullHex(d), "z": verifmc.FullHex(z)}
		wantEk, wantDk := s.refKeyGen(d, z)
		var pk kem.PublicKey
		var sk kem.PrivateKey
		var ek, dk []byte
		if p, what := verifmc.Try(func() {
			pk, sk = s.s.DeriveKeyPair(c03Cat(d, z))
			ek, _ = pk.MarshalBinary()
			dk, _ = sk.MarshalBinary()
		}); p {
			r.Violation("C03|"+s.name+".DeriveKeyPair|panic", id, what, replay)
			return
		}
		r.Eval(1)
		r.Distinct("keygen", id)
		r.Count("keygen", 1)
		if !bytes.Equal(ek, wantEk) {
			r.Violation("C03|"+s.name+".DeriveKeyPair|encapsulation key differs from "+s.spec(), id,
				fmt.Sprintf("%s: ek = %s, %s KeyGen gives %s", id, verifmc.Hex(ek), s.spec(), verifmc.Hex(wantEk)), replay)
		}
		if !bytes.Equal(dk, wantDk) {
			r.Violation("C03|"+s.name+".DeriveKeyPair|decapsulation key differs from "+s.spec(), id,
				fmt.Sprintf("%s: dk = %s, %s KeyGen gives %s", id, verifmc.Hex(dk), s.spec(), verifmc.Hex(wantDk)), replay)
		}
		// parse / re-encode
		var pk2 kem.PublicKey
		var sk2 kem.PrivateKey
		var err1, err2 error
		if p, what := verifmc.Try(func() {
			pk2, err1 = s.s.UnmarshalBinaryPublicKey(append([]byte{}, wantEk...))
			sk2, err2 = s.s.UnmarshalBinaryPrivateKey(append([]byte{}, wantDk...))
		}); p {
			r.Violation("C03|"+s.name+".Unmarshal|panic on well-formed key", id, what, replay)
			return
		}
		r.Eval(2)
		if err1 != nil || err2 != nil {
			r.Violation("C03|"+s.name+".Unmarshal|well-formed key refused", id, fmt.Sprintf("%s: well-formed keys refused: ek: %v, dk: %v", id, err1, err2), replay)
			return
		}
		ek2, _ := pk2.MarshalBinary()
		dk2, _ := sk2.MarshalBinary()
		if !bytes.Equal(ek2, wantEk) || !bytes.Equal(dk2, wantDk) {
			r.Violation("C03|"+s.name+".Unmarshal|well-formed key does not re-encode to the same bytes", id,
				fmt.Sprintf("%s: Marshal(Unmarshal(key)) != key (ek equal: %v, dk equal: %v)", id, bytes.Equal(ek2, wantEk), bytes.Equal(dk2, wantDk)), replay)
		}
		r.Count("keys_parsed_and_reencoded", 2)
		for mi, m := range S {
			mid := fmt.Sprintf("%s/m%d", id, mi)
			if !r.Want(mid) {
				continue
			}
			rp := map[string]interface{}{"scheme": s.name, "d": verifmc.FullHex(d), "z": verifmc.FullHex(z), "m": verifmc.FullHex(m)}
			wantSs, wantCt := s.refEncaps(wantEk, m)
			for which, key := range []kem.PublicKey{pk, pk2} {
				var ct, ss []byte
				var err error
				if p, what := verifmc.Try(func() { ct, ss, err = s.s.EncapsulateDeterministically(key, m) }); p || err != nil {
					r.Violation("C03|"+s.name+".EncapsulateDeterministically|panic or error", mid, fmt.Sprintf("%s %v", what, err), rp)
					continue
				}
				r.Eval(1)
				src := []string{"derived key", "parsed key"}[which]
				if !bytes.Equal(ct, wantCt) {
					r.Violation("C03|"+s.name+".Encapsulate|ciphertext differs from "+s.spec(), mid,
						fmt.Sprintf("%s (%s): ct = %s, %s gives %s", mid, src, verifmc.Hex(ct), s.spec(), verifmc.Hex(wantCt)), rp)
				}
				if !bytes.Equal(ss, wantSs) {
					r.Violation("C03|"+s.name+".Encapsulate|shared secret differs from "+s.spec(), mid,
						fmt.Sprintf("%s (%s): ss = %x, %s gives %x", mid, src, ss, s.spec(), wantSs), rp)
				}
			}
			wantDec, rej := s.refDecaps(wantDk, wantCt)
			if rej || !bytes.Equal(wantDec, wantSs) {
				t.Fatalf("reference model inconsistent: honest ciphertext rejected (%s)", mid)
			}
			for which, key := range []kem.PrivateKey{sk, sk2} {
				var ss []byte
				var err error
				if p, what := verifmc.Try(func() { ss, err = s.s.Decapsulate(key, wantCt) }); p || err != nil {
					r.Violation("C03|"+s.name+".Decapsulate|panic or error on honest ciphertext", mid, fmt.Sprintf("%s %v", what, err), rp)
					continue
				}
				r.Eval(1)
				if !bytes.Equal(ss, wantSs) {
					r.Violation("C03|"+s.name+".Decapsulate|honest ciphertext: shared secret differs from "+s.spec(), mid,
						fmt.Sprintf("%s (%s): ss = %x, %s gives %x", mid, []string{"derived key", "parsed key"}[which], ss, s.spec(), wantSs), rp)
				}
			}
			r.Distinct("encdec", mid)
			r.Count("encaps_decaps", 1)
			if ji == 0 && mi == 2 {
				r.Sample(map[string]interface{}{"case": mid, "d": verifmc.FullHex(d), "z": verifmc.FullHex(z), "m": verifmc.FullHex(m), "ss": verifmc.FullHex(wantSs)})
			}
		}
	})
	if !r.Replaying() {
		r.RequireCounter("keygen", int64(len(jobs)))
		r.RequireCounter("encaps_decaps", int64(len(jobs)*len(S)))
	}
}

// c03Roll returns the coefficient vector (c + i*1 + 37*poly) mod m.
func c03Roll(c, poly, m int) *ref.Poly {
	var f ref.Poly
	for i := range f {
		f[i] = (c + i + 37*poly) % m
	}
	return &f
}

func c03Const(c int) *ref.Poly {
	var f ref.Poly
	for i := range f {
		f[i] = c
	}
	return &f
}

// c03Ciphertexts enumerates the ciphertext alphabet around an honest ciphertext.
func c03Ciphertexts(s *c03Scheme, honest, other1, other2 []byte, allBits bool, f func(name string, ct []byte)) (fullBits bool) {
	p := s.p
	n := len(honest)
	f("honest", honest)
	bits, full := verifmc.BitPositions(n, map[bool]int{true: 1 << 30, false: 0}[allBits], 16)
	for _, b := range bits {
		f(fmt.Sprintf("flip%d", b), verifmc.Flip(honest, b))
	}
	c1, c2 := honest[:p.C1Size()], honest[p.C1Size():]
	uParts := func(g func(poly int) *ref.Poly) []byte {
		var o []byte
		for i := 0; i < p.K; i++ {
			o = append(o, ref.ByteEncode(p.Du, g(i))...)
		}
		return o
	}
	for c := 0; c < 1<<uint(p.Du); c++ {
		c := c
		f(fmt.Sprintf("u=roll%d", c), c03Cat(uParts(func(i int) *ref.Poly { return c03Roll(c, i, 1<<uint(p.Du)) }), c2))
		f(fmt.Sprintf("u=const%d", c), c03Cat(uParts(func(int) *ref.Poly { return c03Const(c) }), c2))
	}
	for w := 0; w < 1<<uint(p.Dv); w++ {
		f(fmt.Sprintf("v=roll%d", w), c03Cat(c1, ref.ByteEncode(p.Dv, c03Roll(w, 0, 1<<uint(p.Dv)))))
		f(fmt.Sprintf("v=const%d", w), c03Cat(c1, ref.ByteEncode(p.Dv, c03Const(w))))
		for _, c := range []int{0, 1, 1 << uint(p.Du-1), 1<<uint(p.Du) - 1} {
			c := c
			f(fmt.Sprintf("u=const%d,v=const%d", c, w), c03Cat(uParts(func(int) *ref.Poly { return c03Const(c) }), ref.ByteEncode(p.Dv, c03Const(w))))
		}
	}
	for _, a := range verifmc.Fills(n) {
		f(a.Name, a.Data)
	}
	for i := 0; i < 8; i++ {
		f(fmt.Sprintf("shake%d", i), verifmc.Shake(fmt.Sprintf("c03-ct-%s-%d", s.name, i), n))
	}
	f("honest-for-other-key", other1)
	f("honest-for-other-m", other2)
	return full
}

// TestVerifC03_decaps: decapsulation (including the implicit-rejection value) on the ciphertext alphabet.
func TestVerifC03_decaps(t *testing.T) {
	r := verifmc.Start(t, "C03", "decaps")
	defer r.Finish()
	S := verifmc.Seeds(32, r.Seed())
	r.Rule("for each scheme and base (d,z,m): Decapsulate on the honest ct, every single-bit flip (quick: all bits for k=2, first/last 64 bytes + bit 0 of every 16th byte for k=3,4; thorough: all bits), " +
		"all 2^du / 2^dv rolling and constant compressed-value patterns in the u resp. v part, 4 x 2^dv constant (u,v) combinations, all-00/FF, 8 SHAKE strings, " +
		"honest ciphertexts of another key / message; result byte-equal to reference Decaps (which includes the implicit-rejection value); non-trivial = each distinct (scheme, base, ciphertext)")
	r.NotExhaustive("ciphertexts range over the declared alteration alphabet around honest ciphertexts; base seeds over a fixed alphabet")
	type base struct{ d, z, m int }
	bases := []base{{3, 4, 2}}
	if r.Thorough() {
		bases = append(bases, base{0, 0, 0}, base{1, 1, 1}, base{4, 3, 4})
	}
	if len(S) > 5 {
		bases = append(bases, base{5, 6, 5})
	}
	r.Set("bases", len(bases))
	for _, s := range c03Schemes() {
		for bi, b := range bases {
			tag := fmt.Sprintf("%s/d%d/z%d/m%d", s.name, b.d, b.z, b.m)
			ek, dk := s.refKeyGen(S[b.d], S[b.z])
			_, honest := s.refEncaps(ek, S[b.m])
			ekO, _ := s.refKeyGen(S[(b.d+1)%5], S[b.z])
			_, other1 := s.refEncaps(ekO, S[b.m])
			_, other2 := s.refEncaps(ek, S[(b.m+1)%5])
			var sk kem.PrivateKey
			var err error
			if p, what := verifmc.Try(func() { sk, err = s.s.UnmarshalBinaryPrivateKey(append([]byte{}, dk...)) }); p || err != nil {
				r.Violation("C03|"+s.name+".UnmarshalBinaryPrivateKey|well-formed key refused", tag, fmt.Sprintf("%s %v", what, err), nil)
				continue
			}
			type alt struct {
				name string
				ct   []byte
			}
			var alts []alt
			allBits := r.Thorough() || s.p.K == 2
			full := c03Ciphertexts(s, honest, other1, other2, allBits, func(name string, ct []byte) {
				alts = append(alts, alt{name, append([]byte{}, ct...)})
			})
			if !full {
				r.Cap(fmt.Sprintf("bit flips of the %d-byte ciphertext thinned to the declared sub-alphabet (k=%d, quick tier)", len(honest), s.p.K))
			}
			verifmc.ParallelFor(len(alts), func(ai int) {
				a := &alts[ai]
				id := tag + "/" + a.name
				if !r.Want(id) {
					return
				}
				want, rej := s.refDecaps(dk, a.ct)
				var got []byte
				var err error
				rp := map[string]interface{}{"scheme": s.name, "d": verifmc.FullHex(S[b.d]), "z": verifmc.FullHex(S[b.z]), "m": verifmc.FullHex(S[b.m]),
					"alteration": a.name, "ct": verifmc.FullHex(a.ct)}
				if p, what := verifmc.Try(func() { got, err = s.s.Decapsulate(sk, a.ct) }); p || err != nil {
					r.Violation("C03|"+s.name+".Decapsulate|panic or error|"+c03AltClass(a.name), id, fmt.Sprintf("%s: %s %v", id, what, err), rp)
					return
				}
				r.Eval(1)
				r.Distinct("decaps", id)
				branch := map[bool]string{true: "implicit_rejection", false: "accepted"}[rej]
				r.Count(branch, 1)
				r.Outcome(s.name + ":" + branch)
				if !bytes.Equal(got, want) {
					r.Violation("C03|"+s.name+".Decapsulate|shared secret differs from "+s.spec()+"|"+branch+"|"+c03AltClass(a.name), id,
						fmt.Sprintf("%s: Decapsulate = %x, %s Decaps = %x (reference branch: %s)", id, got, s.spec(), want, branch), rp)
				}
				if bi == 0 && s.name == "ML-KEM-512" && a.name == "flip17" {
					r.Sample(map[string]interface{}{"case": id, "expected_ss": verifmc.FullHex(want), "branch": branch})
				}
			})
		}
	}
	if !r.Replaying() {
		r.RequireCounter("implicit_rejection", 1000)
		r.RequireCounter("accepted", 6)
	}
}

// c03AltClass strips the numbers from an alteration name (stable violation keys).
func c03AltClass(name string) string {
	out := make([]byte, 0, len(name))
	for i := 0; i < len(name); i++ {
		if name[i] < '0' || name[i] > '9' {
			out = append(out, name[i])
		}
	}
	return string(out)
}

// c03Set12 overwrites the idx-th 12-bit field of a ByteEncode_12 string.
func c03Set12(b []byte, idx, v int) {
	o := 3 * (idx / 2)
	if idx%2 == 0 {
		b[o] = byte(v)
		b[o+1] = b[o+1]&0xf0 | byte(v>>8)
	} else {
		b[o+1] = b[o+1]&0x0f | byte(v<<4)
		b[o+2] = byte(v >> 4)
	}
}

// TestVerifC03_keyparse: encapsulation keys with arbitrary 12-bit coefficients, decapsulation keys
// with every single-bit flip.
func TestVerifC03_keyparse(t *testing.T) {
	r := verifmc.Start(t, "C03", "keyparse")
	defer r.Finish()
	S := verifmc.Seeds(32, r.Seed())
	r.Rule("encapsulation keys: every 12-bit value v in [0,4096) at coefficient positions {0,1,255 of the first polynomial, 0 and 255 of the last}, and all coefficients = v for all v, all-FF: " +
		"ML-KEM Unmarshal accepts iff every coefficient < q (FIPS 203 7.2 modulus check) and then re-encodes identically; accepted keys (Kyber: every key, lenient by spec) encapsulate like the reference on the raw bytes " +
		"(quick: v in a boundary set and every 64th; thorough: all v). Decapsulation keys: every single-bit flip of the whole key: ML-KEM refuses every flip inside ek or H(ek), accepts every flip in z and every flip in " +
		"dk_PKE that leaves the coefficient < q and re-encodes identically; every accepted key decapsulates like the reference on the raw bytes (quick: every 11th bit of dk_PKE; thorough: all). " +
		"Decapsulation keys whose embedded ek carries every v in [q,4096) at the same 5 coefficient positions or at all positions, with the stored hash taken over the key bytes (FIPS check passes: either verdict, accepted keys must decapsulate like the reference) " +
		"and over the mod-q normalised ek (hash does not match the bytes: ML-KEM must refuse); non-trivial = each distinct (scheme, altered key)")
	r.NotExhaustive("one base key per scheme (d = SHAKE256(verif0), z = SHAKE256(verif1)); multi-position deviations only as 'all coefficients = v'")
	boundary := map[int]bool{}
	for _, v := range []int{0, 1, 2, 1664, 1665, 2047, 2048, c03q - 2, c03q - 1, c03q, c03q + 1, 2*c03q - 1, 2 * c03q, 2*c03q + 1, 4094, 4095} {
		boundary[v] = true
	}
	for _, s := range c03Schemes() {
		s := s
		p := s.p
		d, z, m := S[3], S[4], S[2]
		ek, dk := s.refKeyGen(d, z)
		_, honestCt := s.refEncaps(ek, m)
		// ---- encapsulation keys
		type ekCase struct {
			name string
			ek   []byte
			v    int
		}
		var cases []ekCase
		positions := []int{0, 1, 255, 256 * (p.K - 1), 256*p.K - 1}
		for _, pos := range positions {
			for v := 0; v < 4096; v++ {
				e := append([]byte{}, ek...)
				c03Set12(e, pos, v)
				cases = append(cases, ekCase{fmt.Sprintf("coef%d=%d", pos, v), e, v})
			}
		}
		for v := 0; v < 4096; v++ {
			e := append([]byte{}, ek...)
			for pos := 0; pos < 256*p.K; pos++ {
				c03Set12(e, pos, v)
			}
			cases = append(cases, ekCase{fmt.Sprintf("allcoef=%d", v), e, v})
		}
		cases = append(cases, ekCase{"allFF", bytes.Repeat([]byte{0xff}, len(ek)), 4095})
		verifmc.ParallelFor(len(cases), func(ci int) {
			c := &cases[ci]
			id := s.name + "/ek/" + c.name
			if !r.Want(id) {
				return
			}
			rp := map[string]interface{}{"scheme": s.name, "ek": verifmc.FullHex(c.ek), "m": verifmc.FullHex(m)}
			wellFormed := ref.CheckEncapsKey(p, c.ek) == nil
			var pk kem.PublicKey
			var err error
			if pn, what := verifmc.Try(func() { pk, err = s.s.UnmarshalBinaryPublicKey(append([]byte{}, c.ek...)) }); pn {
				r.Violation("C03|"+s.name+".UnmarshalBinaryPublicKey|panic|"+c03AltClass(c.name), id, what, rp)
				return
			}
			r.Eval(1)
			r.Distinct("ek", id)
			if s.mlkem {
				switch {
				case wellFormed && err != nil:
					r.Violation("C03|"+s.name+".UnmarshalBinaryPublicKey|well-formed key refused|"+c03AltClass(c.name), id, fmt.Sprintf("%s: refused: %v", id, err), rp)
					return
				case !wellFormed && err == nil:
					r.Violation("C03|"+s.name+".UnmarshalBinaryPublicKey|key with a coefficient >= q accepted|"+c03AltClass(c.name), id,
						fmt.Sprintf("%s: a 12-bit coefficient %d >= q was accepted (FIPS 203 modulus check)", id, c.v), rp)
				}
				if wellFormed {
					r.Count("ek_wellformed_accepted", 1)
				} else {
					r.Count("ek_nonreduced_refused", 1)
				}
				if err != nil {
					return
				}
				if wellFormed {
					re, _ := pk.MarshalBinary()
					if !bytes.Equal(re, c.ek) {
						r.Violation("C03|"+s.name+".UnmarshalBinaryPublicKey|well-formed key does not re-encode to the same bytes|"+c03AltClass(c.name), id, id+": Marshal(Unmarshal(ek)) != ek", rp)
					}
				}
			} else if err != nil {
				r.Violation("C03|"+s.name+".UnmarshalBinaryPublicKey|key of the right length refused|"+c03AltClass(c.name), id, fmt.Sprintf("%s: refused: %v (round-3 Kyber has no key check)", id, err), rp)
				return
			} else if !wellFormed {
				r.Count("ek_nonreduced_accepted_by_kyber", 1)
			}
			if !(r.Thorough() || boundary[c.v] || c.v%64 == 0) {
				return
			}
			wantSs, wantCt := s.refEncaps(c.ek, m)
			var ct, ss []byte
			if pn, what := verifmc.Try(func() { ct, ss, err = s.s.EncapsulateDeterministically(pk, m) }); pn || err != nil {
				r.Violation("C03|"+s.name+".EncapsulateDeterministically|panic or error with parsed key|"+c03AltClass(c.name), id, fmt.Sprintf("%s %v", what, err), rp)
				return
			}
			r.Eval(1)
			r.Count("ek_encaps_compared", 1)
			if !bytes.Equal(ct, wantCt) || !bytes.Equal(ss, wantSs) {
				r.Violation("C03|"+s.name+".Encapsulate|parsed key: result differs from "+s.spec()+"|"+c03AltClass(c.name)+map[bool]string{true: "", false: "|coefficient>=q"}[wellFormed], id,
					fmt.Sprintf("%s: encapsulation with the parsed key: ct equal %v, ss %x; %s on the raw key bytes gives ss %x", id, bytes.Equal(ct, wantCt), ss, s.spec(), wantSs), rp)
			}
		})

		// ---- decapsulation keys
		nbits := len(dk) * 8
		sEnd, ekEnd, hEnd := 384*p.K*8, (768*p.K+32)*8, (768*p.K+64)*8
		verifmc.ParallelFor(nbits+1, func(bit int) {
			name := "untouched"
			key := dk
			region := "untouched"
			if bit < nbits {
				name = fmt.Sprintf("flip%d", bit)
				key = verifmc.Flip(dk, bit)
				switch {
				case bit < sEnd:
					region = "dkPKE"
				case bit < ekEnd:
					region = "ek"
				case bit < hEnd:
					region = "H(ek)"
				default:
					region = "z"
				}
			}
			if region == "dkPKE" && !r.Thorough() && bit%11 != 0 {
				return
			}
			id := s.name + "/dk/" + name
			if !r.Want(id) {
				return
			}
			rp := map[string]interface{}{"scheme": s.name, "dk": verifmc.FullHex(key), "region": region, "ct": verifmc.FullHex(honestCt)}
			var sk kem.PrivateKey
			var err error
			if pn, what := verifmc.Try(func() { sk, err = s.s.UnmarshalBinaryPrivateKey(append([]byte{}, key...)) }); pn {
				r.Violation("C03|"+s.name+".UnmarshalBinaryPrivateKey|panic|"+region, id, what, rp)
				return
			}
			r.Eval(1)
			r.Distinct("dk", id)
			hashOK := ref.CheckDecapsKey(p, key) == nil
			// coefficients of dk_PKE all < q ?
			canonical := true
			if region == "dkPKE" {
				for i := 0; i < p.K; i++ {
					f := ref.ByteDecodeRaw(12, key[384*i:384*(i+1)])
					for _, c := range f {
						if c >= c03q {
							canonical = false
						}
					}
				}
			}
			if s.mlkem {
				if !hashOK {
					r.Count("dk_hash_mismatch_cases", 1)
					if err == nil {
						r.Violation("C03|"+s.name+".UnmarshalBinaryPrivateKey|key with mismatching H(ek) accepted|"+region, id,
							fmt.Sprintf("%s (bit in %s): accepted although H(ek) does not match (FIPS 203 7.3 hash check)", id, region), rp)
					}
					return
				}
				if canonical {
					if err != nil {
						r.Violation("C03|"+s.name+".UnmarshalBinaryPrivateKey|well-formed key refused|"+region, id, fmt.Sprintf("%s: refused: %v", id, err), rp)
						return
					}
					re, _ := sk.MarshalBinary()
					r.Count("dk_wellformed_accepted", 1)
					if !bytes.Equal(re, key) {
						r.Violation("C03|"+s.name+".UnmarshalBinaryPrivateKey|well-formed key does not re-encode to the same bytes|"+region, id, id+": Marshal(Unmarshal(dk)) != dk", rp)
					}
				} else {
					r.Count("dk_noncanonical_dkPKE_cases(either verdict allowed)", 1)
					if err != nil {
						r.Outcome(s.name + ":noncanonical dkPKE refused")
						return
					}
					r.Outcome(s.name + ":noncanonical dkPKE accepted")
				}
			} else {
				if err != nil {
					r.Violation("C03|"+s.name+".UnmarshalBinaryPrivateKey|key of the right length refused|"+region, id, fmt.Sprintf("%s: refused: %v", id, err), rp)
					return
				}
				// Kyber has no key check; to bound cost compare decapsulation on a thinned set outside dk_PKE
				if region != "dkPKE" && region != "untouched" && !r.Thorough() && bit%8 != 0 {
					return
				}
			}
			want, _ := s.refDecaps(key, honestCt)
			var got []byte
			if pn, what := verifmc.Try(func() { got, err = s.s.Decapsulate(sk, honestCt) }); pn || err != nil {
				r.Violation("C03|"+s.name+".Decapsulate|panic or error with parsed key|"+region, id, fmt.Sprintf("%s %v", what, err), rp)
				return
			}
			r.Eval(1)
			r.Count("dk_decaps_compared", 1)
			if !bytes.Equal(got, want) {
				r.Violation("C03|"+s.name+".Decapsulate|parsed key: shared secret differs from "+s.spec()+"|"+region, id,
					fmt.Sprintf("%s (bit in %s): Decapsulate = %x, %s on the raw key bytes = %x", id, region, got, s.spec(), want), rp)
			}
		})

		// ---- decapsulation keys whose embedded ek has 12-bit coefficients v in [q,4096), with the stored
		// hash computed (a) over the key bytes as they are, (b) over the mod-q normalised ek.
		// FIPS 203 7.3: the hash check is on the bytes. (b) therefore has a mismatching hash and must be
		// refused. (a) passes the FIPS check but cannot re-encode to itself once coefficients are reduced,
		// so it is not a "well-formed key" in the sense of the property: either verdict is allowed, and
		// if it is accepted it must decapsulate like Decaps_internal on the raw bytes.
		type dkCase struct {
			name string
			pos  int // -1: all coefficients
			v    int
			norm bool
		}
		var dkCases []dkCase
		for _, norm := range []bool{false, true} {
			for v := c03q; v < 4096; v++ {
				for _, pos := range positions {
					dkCases = append(dkCases, dkCase{fmt.Sprintf("ekcoef%d=%d/hash-over-normalised=%v", pos, v, norm), pos, v, norm})
				}
				dkCases = append(dkCases, dkCase{fmt.Sprintf("ekallcoef=%d/hash-over-normalised=%v", v, norm), -1, v, norm})
			}
		}
		ekOff := 384 * p.K
		verifmc.ParallelFor(len(dkCases), func(ci int) {
			c := &dkCases[ci]
			id := s.name + "/dk/" + c.name
			if !r.Want(id) {
				return
			}
			key := append([]byte{}, dk...)
			raw := key[ekOff : ekOff+len(ek)]
			normEk := append([]byte{}, raw...)
			if c.pos >= 0 {
				c03Set12(raw, c.pos, c.v)
				c03Set12(normEk, c.pos, c.v-c03q)
			} else {
				for pos := 0; pos < 256*p.K; pos++ {
					c03Set12(raw, pos, c.v)
					c03Set12(normEk, pos, c.v-c03q)
				}
			}
			if c.norm {
				copy(key[ekOff+len(ek):], ref.H(normEk))
			} else {
				copy(key[ekOff+len(ek):], ref.H(raw))
			}
			rp := map[string]interface{}{"scheme": s.name, "dk": verifmc.FullHex(key), "ct": verifmc.FullHex(honestCt),
				"embedded_ek_coefficient": c.v, "stored_hash_over": map[bool]string{true: "normalised ek (does not match the bytes)", false: "the ek bytes"}[c.norm]}
			var sk kem.PrivateKey
			var err error
			if pn, what := verifmc.Try(func() { sk, err = s.s.UnmarshalBinaryPrivateKey(append([]byte{}, key...)) }); pn {
				r.Violation("C03|"+s.name+".UnmarshalBinaryPrivateKey|panic|embedded ek coefficient>=q", id, what, rp)
				return
			}
			r.Eval(1)
			r.Distinct("dk-ek", id)
			hashOK := ref.CheckDecapsKey(p, key) == nil
			if hashOK == c.norm {
				t.Errorf("harness: hash variant construction wrong for %s", id)
				return
			}
			if s.mlkem {
				if !hashOK {
					r.Count("dk_unreduced_ek_hash_over_normalised_cases", 1)
					if err == nil {
						re, _ := sk.MarshalBinary()
						r.Violation("C03|"+s.name+".UnmarshalBinaryPrivateKey|key with mismatching H(ek) accepted|embedded ek coefficient>=q, hash of the normalised ek", id,
							fmt.Sprintf("%s: the embedded ek has a coefficient %d >= q and the stored hash is that of the reduced ek, not of the key bytes (FIPS 203 7.3 hash check fails), yet the key was accepted; re-encodes to the same bytes: %v",
								id, c.v, bytes.Equal(re, key)), rp)
					}
					return
				}
				r.Count("dk_unreduced_ek_hash_over_bytes_cases(either verdict allowed)", 1)
				if err != nil {
					r.Outcome(s.name + ":unreduced embedded ek with matching hash refused")
					return
				}
				r.Outcome(s.name + ":unreduced embedded ek with matching hash accepted")
			} else if err != nil {
				r.Violation("C03|"+s.name+".UnmarshalBinaryPrivateKey|key of the right length refused|embedded ek coefficient>=q", id, fmt.Sprintf("%s: refused: %v", id, err), rp)
				return
			}
			if !(r.Thorough() || c.v == c03q || c.v == 4095 || c.v%32 == 0) {
				return
			}
			want, _ := s.refDecaps(key, honestCt)
			var got []byte
			if pn, what := verifmc.Try(func() { got, err = s.s.Decapsulate(sk, honestCt) }); pn || err != nil {
				r.Violation("C03|"+s.name+".Decapsulate|panic or error with parsed key|embedded ek coefficient>=q", id, fmt.Sprintf("%s %v", what, err), rp)
				return
			}
			r.Eval(1)
			r.Count("dk_unreduced_ek_decaps_compared", 1)
			if !bytes.Equal(got, want) {
				r.Violation("C03|"+s.name+".Decapsulate|parsed key: shared secret differs from "+s.spec()+"|embedded ek coefficient>=q", id,
					fmt.Sprintf("%s: Decapsulate = %x, %s on the raw key bytes = %x", id, got, s.spec(), want), rp)
			}
		})
	}
	if !r.Replaying() {
		r.RequireCounter("ek_wellformed_accepted", 3*5*3329)
		r.RequireCounter("ek_nonreduced_refused", 3*5*767)
		r.RequireCounter("ek_nonreduced_accepted_by_kyber", 3*5*767)
		r.RequireCounter("dk_hash_mismatch_cases", 3*256)
		r.RequireCounter("dk_wellformed_accepted", 3*256)
		r.RequireCounter("dk_unreduced_ek_hash_over_normalised_cases", 3*6*767)
		r.RequireCounter("dk_unreduced_ek_hash_over_bytes_cases(either verdict allowed)", 3*6*767)
		r.RequireCounter("dk_unreduced_ek_decaps_compared", 100)
	}
	r.Sample(map[string]interface{}{"case": "ML-KEM-768/ek/coef0=3329", "expect": "refused (coefficient = q)"})
	r.Sample(map[string]interface{}{"case": "ML-KEM-768/dk/flip9216", "expect": "refused (bit inside the ek copy, hash mismatch)"})
}

const c03q = ref.Q
