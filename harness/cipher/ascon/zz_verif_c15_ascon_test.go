//go:build verif

package ascon_test

// C15 (Ascon part): Seal equals the Ascon v1.2 specification (ref/ascon), Open inverts it
// (also in place and when appending to a non-empty destination) and fails, returning nothing,
// for every single-bit alteration of key, nonce, associated data, ciphertext and tag, and for
// every truncation / extension of the ciphertext.

import (
	"bytes"
	c15hex "encoding/hex"
	"encoding/json"
	"fmt"
	"os"
	"testing"

	"github.com/cloudflare/circl/cipher/ascon"
	"github.com/cloudflare/circl/internal/verifmc"
	refascon "github.com/cloudflare/circl/internal/verifref/ascon"
	"github.com/cloudflare/circl/internal/verifref/c15hist"
)

type c15AMode struct {
	mode ascon.Mode
	ref  refascon.Variant
	file string
}

var c15AModes = []c15AMode{
	{ascon.Ascon128, refascon.V128, "testdata/Ascon128.json"},
	{ascon.Ascon128a, refascon.V128a, "testdata/Ascon128a.json"},
	{ascon.Ascon80pq, refascon.V80pq, "testdata/Ascon80pq.json"},
}

func c15SkipNonDefault(t *testing.T) {
	if c := os.Getenv("VERIF_CONFIG"); c != "" && c != "default" {
		t.Skip("cipher/ascon has no build-tag or CPU-feature dependent code; checked under the default configuration only")
	}
}

// c15AsconSelfTest is the cheap gate: S-box table equals its algebraic normal form, and the
// first vectors of each LWC KAT file are reproduced.
func c15AsconSelfTest(maxPerFile int) (int, error) {
	for v := 0; v < 32; v++ {
		if refascon.Sbox[v] != refascon.SboxANF(byte(v)) {
			return 0, fmt.Errorf("ref/ascon S-box table differs from the ANF at %#x", v)
		}
	}
	n := 0
	for _, m := range c15AModes {
		raw, err := os.ReadFile(m.file)
		if err != nil {
			return n, err
		}
		var vs []struct {
			Count                  int
			Key, Nonce, PT, AD, CT string
		}
		if err := json.Unmarshal(raw, &vs); err != nil {
			return n, err
		}
		if len(vs) < 1000 {
			return n, fmt.Errorf("%s: only %d vectors", m.file, len(vs))
		}
		for i, v := range vs {
			if maxPerFile > 0 && i >= maxPerFile {
				break
			}
			key, _ := c15hex.DecodeString(v.Key)
			nonce, _ := c15hex.DecodeString(v.Nonce)
			pt, _ := c15hex.DecodeString(v.PT)
			ad, _ := c15hex.DecodeString(v.AD)
			ct, _ := c15hex.DecodeString(v.CT)
			if got := m.ref.Encrypt(key, nonce, ad, pt); !bytes.Equal(got, ct) {
				return n, fmt.Errorf("ref/ascon %s differs from LWC KAT count %d", m.ref.Name, v.Count)
			}
			back, err := m.ref.Decrypt(key, nonce, ad, ct)
			if err != nil || !bytes.Equal(back, pt) {
				return n, fmt.Errorf("ref/ascon %s Decrypt fails on LWC KAT count %d", m.ref.Name, v.Count)
			}
			n++
		}
	}
	return n, nil
}

// TestVerifC15_refcheck_ascon binds ref/ascon to all 3 x 1089 LWC KAT vectors in testdata.
func TestVerifC15_refcheck_ascon(t *testing.T) {
	c15SkipNonDefault(t)
	r := verifmc.Start(t, "C15", "refcheck_ascon")
	defer r.Finish()
	r.Rule("ref/ascon Encrypt and Decrypt evaluated on every vector of the three LWC KAT files in cipher/ascon/testdata; S-box table vs ANF; non-trivial = each vector")
	n, err := c15AsconSelfTest(0)
	if err != nil {
		t.Fatal(err)
	}
	r.Eval(2 * n)
	for i := 0; i < n; i++ {
		r.Distinct("kat", i)
	}
	r.Count("lwc_kat_vectors", n)
	r.Sample(map[string]interface{}{"lwc_kat_vectors": n})
}

func c15Text(label byte, n int) []byte {
	b := make([]byte, n)
	for i := range b {
		b[i] = byte(i*29+7) ^ label
	}
	return b
}

func TestVerifC15_ascon(t *testing.T) {
	c15SkipNonDefault(t)
	r := verifmc.Start(t, "C15", "ascon")
	defer r.Finish()
	if _, err := c15AsconSelfTest(40); err != nil {
		t.Fatal(err)
	}
	r.Rule("3 modes x key/nonce seeds x every (|ad|,|pt|) in [0,3*rate+1]^2: Seal = ref/ascon for dst in {nil, 3-byte prefix with spare capacity, in place}; " +
		"Open(Seal) = pt for the same three dst shapes; every single-bit flip of key, nonce, ad, ciphertext, tag, every truncation and four extensions of the ciphertext " +
		"must give (nil, error) and leave the caller's prefix intact; non-trivial = distinct (mode, seed, |ad|, |pt|)")
	seeds := verifmc.Seeds(20+16, r.Seed())
	// quick: 00.., FF.., SHAKE; thorough: all fixed seeds (+ VERIF_SEED extras)
	if !r.Thorough() {
		seeds = [][]byte{seeds[0], seeds[1], seeds[3]}
	}
	r.Set("seeds", len(seeds))
	type job struct {
		m     int
		seed  int
		adLen int
		ptLen int
	}
	var jobs []job
	for mi, m := range c15AModes {
		maxLen := 3*m.ref.Rate + 1
		for si := range seeds {
			for a := 0; a <= maxLen; a++ {
				for p := 0; p <= maxLen; p++ {
					jobs = append(jobs, job{m: mi, seed: si, adLen: a, ptLen: p})
				}
			}
		}
	}
	r.Set("cases", len(jobs))
	var coll c15hist.Collector
	verifmc.ParallelFor(len(jobs), func(ji int) {
		j := jobs[ji]
		m := c15AModes[j.m]
		kl := m.ref.KeyLen
		key, nonce := seeds[j.seed][:kl], seeds[j.seed][20:36]
		ad, pt := c15Text(0x11, j.adLen), c15Text(0xa7, j.ptLen)
		id := fmt.Sprintf("%s/seed%d/ad=%d/pt=%d", m.ref.Name, j.seed, j.adLen, j.ptLen)
		if !r.Want(id) {
			return
		}
		r.Distinct(id)
		entry := "ascon." + m.ref.Name
		payload := map[string]interface{}{"mode": m.ref.Name, "key": verifmc.FullHex(key), "nonce": verifmc.FullHex(nonce), "ad_len": j.adLen, "pt_len": j.ptLen}
		sub := 0
		bad := func(class, format string, a ...interface{}) {
			sub++
			coll.Add(ji, sub, "C15|"+entry+"|"+class, id, id+": "+fmt.Sprintf(format, a...), payload)
		}
		lenClass := func(n int) string {
			switch {
			case n == 0:
				return "empty"
			case n%m.ref.Rate == 0:
				return "whole-blocks"
			case n < m.ref.Rate:
				return "partial-block"
			}
			return "blocks+partial"
		}
		lc := "ad:" + lenClass(j.adLen) + "|pt:" + lenClass(j.ptLen)
		c, err := ascon.New(key, m.mode)
		if err != nil {
			bad("New|error", "New failed: %v", err)
			return
		}
		want := m.ref.Encrypt(key, nonce, ad, pt)
		// ---- Seal, three destination shapes
		p, what := verifmc.Try(func() {
			r.Eval(3)
			if got := c.Seal(nil, nonce, pt, ad); !bytes.Equal(got, want) {
				bad("Seal|differs-from-spec|"+lc, "Seal(nil) = %s, specification %s", verifmc.Hex(got), verifmc.Hex(want))
			}
			backing := make([]byte, 3, 3+len(pt)+16+5)
			copy(backing, "dst")
			got := c.Seal(backing, nonce, pt, ad)
			if len(got) != 3+len(want) || string(got[:3]) != "dst" || !bytes.Equal(got[3:], want) || string(backing[:3]) != "dst" {
				bad("Seal|append-to-prefix|"+lc, "Seal(prefix) = %s, want dst||%s", verifmc.Hex(got), verifmc.Hex(want))
			}
			buf := make([]byte, len(pt), len(pt)+16)
			copy(buf, pt)
			got = c.Seal(buf[:0], nonce, buf, ad)
			if !bytes.Equal(got, want) {
				bad("Seal|in-place|"+lc, "Seal(pt[:0]) = %s, specification %s", verifmc.Hex(got), verifmc.Hex(want))
			}
		})
		if p {
			bad("Seal|panic:"+verifmc.PanicClass(what), "%s", what)
			return
		}
		// ---- Open inverts, three destination shapes
		p, what = verifmc.Try(func() {
			r.Eval(3)
			got, err := c.Open(nil, nonce, want, ad)
			if err != nil || !bytes.Equal(got, pt) {
				bad("Open|does-not-invert|"+lc, "Open(nil) = (%s, %v), want the plaintext", verifmc.Hex(got), err)
			}
			backing := make([]byte, 3, 3+len(pt)+5)
			copy(backing, "dst")
			got, err = c.Open(backing, nonce, want, ad)
			if err != nil || len(got) != 3+len(pt) || string(got[:3]) != "dst" || !bytes.Equal(got[3:], pt) || string(backing[:3]) != "dst" {
				bad("Open|append-to-prefix|"+lc, "Open(prefix) = (%s, %v), want dst||plaintext", verifmc.Hex(got), err)
			}
			buf := append([]byte{}, want...)
			got, err = c.Open(buf[:0], nonce, buf, ad)
			if err != nil || !bytes.Equal(got, pt) {
				bad("Open|in-place|"+lc, "Open(ct[:0]) = (%s, %v), want the plaintext", verifmc.Hex(got), err)
			}
		})
		if p {
			bad("Open|panic:"+verifmc.PanicClass(what), "%s", what)
			return
		}
		// ---- every alteration must be rejected, releasing nothing
		nAlt := 0
		reject := func(field, alt string, cc *ascon.Cipher, n, ct, a []byte) {
			nAlt++
			backing := make([]byte, 3, 3+len(ct)+5)
			copy(backing, "dst")
			var got []byte
			var err error
			if p, what := verifmc.Try(func() { got, err = cc.Open(backing, n, ct, a) }); p {
				bad("Open|panic:"+verifmc.PanicClass(what)+"|altered-"+field, "%s altered (%s): %s", field, alt, what)
				return
			}
			if err == nil {
				bad("Open|accepts-altered-"+field+"|"+lc, "%s altered (%s) but Open succeeded and returned %s", field, alt, verifmc.Hex(got))
				return
			}
			if got != nil {
				bad("Open|releases-on-failure|altered-"+field, "%s altered (%s): Open failed (%v) but returned a non-nil slice %s", field, alt, err, verifmc.Hex(got))
			}
			if string(backing[:3]) != "dst" {
				bad("Open|prefix-overwritten|altered-"+field, "%s altered (%s): the caller's prefix in dst was modified", field, alt)
			}
			if len(ct) > 16 && j.seed == 0 && nAlt%64 == 1 {
				// observation only (allowed by the documentation): unauthenticated plaintext left in dst's spare capacity
				spare := backing[3 : 3+len(ct)-16]
				zero := true
				for _, b := range spare {
					if b != 0 {
						zero = false
					}
				}
				if zero {
					r.Outcome("failed-open:spare-capacity-untouched")
				} else {
					r.Outcome("failed-open:spare-capacity-holds-unauthenticated-bytes")
				}
			}
		}
		verifmc.BitFlips(key, func(bit int, k2 []byte) {
			c2, err := ascon.New(k2, m.mode)
			if err != nil {
				bad("New|error", "New failed on flipped key: %v", err)
				return
			}
			reject("key", fmt.Sprintf("bit %d", bit), c2, nonce, want, ad)
		})
		verifmc.BitFlips(nonce, func(bit int, n2 []byte) { reject("nonce", fmt.Sprintf("bit %d", bit), c, n2, want, ad) })
		verifmc.BitFlips(ad, func(bit int, a2 []byte) { reject("ad", fmt.Sprintf("bit %d", bit), c, nonce, want, a2) })
		verifmc.BitFlips(want, func(bit int, c2 []byte) {
			f := "ciphertext"
			if bit >= 8*len(pt) {
				f = "tag"
			}
			reject(f, fmt.Sprintf("bit %d", bit), c, nonce, c2, ad)
		})
		verifmc.Truncations(want, func(n int, c2 []byte) {
			reject("ciphertext-length", fmt.Sprintf("truncated to %d", n), c, nonce, c2, ad)
		})
		for _, a := range verifmc.Appends(want) {
			reject("ciphertext-length", a.Name, c, nonce, a.Data, ad)
		}
		if len(ad) > 0 {
			reject("ad-length", "last byte dropped", c, nonce, want, ad[:len(ad)-1])
		}
		reject("ad-length", "00 appended", c, nonce, want, append(append([]byte{}, ad...), 0))
		reject("ad-length", "80 appended", c, nonce, want, append(append([]byte{}, ad...), 0x80))
		r.Eval(nAlt)
		r.Count("alterations_rejected_or_reported", nAlt)
		if j.adLen%m.ref.Rate == 0 && j.ptLen%m.ref.Rate == 0 && j.adLen > 0 && j.ptLen > 0 {
			r.Count("both_lengths_whole_blocks", 1)
		}
		if ji%4001 == 17 {
			r.Sample(map[string]interface{}{"case": id, "alterations": nAlt, "ct": verifmc.Hex(want)})
		}
	})
	coll.Flush(r)
	r.RequireCounter("both_lengths_whole_blocks", 27)
	r.RequireCounter("alterations_rejected_or_reported", 100000)
}
