//go:build verif

package circl_test

// C11 (schedules): read-only operations on shared KEM and signature keys.

import (
	"os"
	"testing"

	"github.com/cloudflare/circl/internal/verifmc"
	"github.com/cloudflare/circl/internal/verifmc/sched"
	"github.com/cloudflare/circl/kem"
	kemschemes "github.com/cloudflare/circl/kem/schemes"
	"github.com/cloudflare/circl/sign"
	signschemes "github.com/cloudflare/circl/sign/schemes"
)

func c11Check(err error) {
	if err != nil {
		panic(err)
	}
}

type c11KemShared struct {
	pk kem.PublicKey
	sk kem.PrivateKey
}

func c11SchemeScenarios(thorough bool) []sched.Scenario {
	var scs []sched.Scenario
	for _, sch := range kemschemes.All() {
		sch := sch
		name := sch.Name()
		if !thorough {
			switch name {
			case "ML-KEM-768", "X25519MLKEM768", "X-Wing", "Kyber768-X25519", "P256Kyber768Draft00", "FrodoKEM-640-SHAKE", "HPKE_KEM_X25519_HKDF_SHA256":
			default:
				continue
			}
		}
		pkRef, skRef := sch.DeriveKeyPair(verifmc.Shake("c11-kem-"+name, sch.SeedSize()))
		pkB, err := pkRef.MarshalBinary()
		c11Check(err)
		skB, err := skRef.MarshalBinary()
		c11Check(err)
		ct1, ss1, err := sch.EncapsulateDeterministically(pkRef, verifmc.Shake("c11-e1-"+name, sch.EncapsulationSeedSize()))
		c11Check(err)
		ct2, _, err := sch.EncapsulateDeterministically(pkRef, verifmc.Shake("c11-e2-"+name, sch.EncapsulationSeedSize()))
		c11Check(err)
		_ = ss1
		fresh := func() interface{} {
			pk, err := sch.UnmarshalBinaryPublicKey(append([]byte{}, pkB...))
			c11Check(err)
			sk, err := sch.UnmarshalBinaryPrivateKey(append([]byte{}, skB...))
			c11Check(err)
			return &c11KemShared{pk, sk}
		}
		decap := func(ct []byte) func(interface{}) interface{} {
			return func(sh interface{}) interface{} {
				ss, err := sch.Decapsulate(sh.(*c11KemShared).sk, ct)
				if err != nil {
					return err
				}
				return ss
			}
		}
		encap := func(sh interface{}) interface{} {
			ct, ss, err := sch.EncapsulateDeterministically(sh.(*c11KemShared).pk, verifmc.Shake("c11-e3-"+name, sch.EncapsulationSeedSize()))
			if err != nil {
				return err
			}
			return append(append([]byte{}, ct...), ss...)
		}
		pub := func(sh interface{}) interface{} {
			b, err := sh.(*c11KemShared).sk.Public().MarshalBinary()
			c11Check(err)
			return b
		}
		scs = append(scs,
			sched.Scenario{Cost: 400, Name: "kem/" + name + "/Decapsulate||Decapsulate", Setup: fresh, Threads: []func(interface{}) interface{}{decap(ct1), decap(ct2)}},
			sched.Scenario{Cost: 400, Name: "kem/" + name + "/Encapsulate||Decapsulate||Public", Setup: fresh, Threads: []func(interface{}) interface{}{encap, decap(ct1), pub}})
	}
	type sigShared struct {
		pk sign.PublicKey
		sk sign.PrivateKey
	}
	for _, sch := range signschemes.All() {
		sch := sch
		name := sch.Name()
		if !thorough {
			switch name {
			case "Ed25519", "ML-DSA-65", "Ed25519-Dilithium2", "Ed448":
			default:
				continue
			}
		}
		pkRef, skRef := sch.DeriveKey(verifmc.Shake("c11-sig-"+name, sch.SeedSize()))
		pkB, err := pkRef.MarshalBinary()
		c11Check(err)
		skB, err := skRef.MarshalBinary()
		c11Check(err)
		m1, m2 := []byte("message one"), []byte("message two, longer")
		sig1 := sch.Sign(skRef, m1, nil)
		sig2 := sch.Sign(skRef, m2, nil)
		deterministic := string(sch.Sign(skRef, m1, nil)) == string(sig1)
		fresh := func() interface{} {
			pk, err := sch.UnmarshalBinaryPublicKey(append([]byte{}, pkB...))
			c11Check(err)
			sk, err := sch.UnmarshalBinaryPrivateKey(append([]byte{}, skB...))
			c11Check(err)
			return &sigShared{pk, sk}
		}
		signer := func(m []byte) func(interface{}) interface{} {
			return func(sh interface{}) interface{} {
				s := sh.(*sigShared)
				sig := sch.Sign(s.sk, m, nil)
				if !deterministic {
					return sch.Verify(s.pk, m, sig, nil)
				}
				return sig
			}
		}
		verify := func(sh interface{}) interface{} { return sch.Verify(sh.(*sigShared).pk, m1, sig1, nil) }
		pub := func(sh interface{}) interface{} {
			type publicer interface{ Public() interface{} }
			b, err := sh.(*sigShared).sk.Public().(sign.PublicKey).MarshalBinary()
			c11Check(err)
			return b
		}
		verify2 := func(sh interface{}) interface{} {
			s := sh.(*sigShared)
			return sch.Verify(s.pk, m2, sig2, nil)
		}
		scs = append(scs,
			sched.Scenario{Cost: 250, Name: "sign/" + name + "/Verify||Verify", Setup: fresh, Threads: []func(interface{}) interface{}{verify, verify2}},
			sched.Scenario{Cost: 250, Name: "sign/" + name + "/Sign||Sign", Setup: fresh, Threads: []func(interface{}) interface{}{signer(m1), signer(m2)}},
			sched.Scenario{Cost: 250, Name: "sign/" + name + "/Sign||Verify||Public", Setup: fresh, Threads: []func(interface{}) interface{}{signer(m2), verify, pub}})
	}
	return scs
}

func TestVerifC11_sched_schemes(t *testing.T) {
	if os.Getenv("VERIF_CONFIG") != "sched" {
		t.Skip("runs only under the instrumented configuration")
	}
	r := verifmc.Start(t, "C11", "sched_schemes")
	defer r.Finish()
	r.Rule("every schedule up to the completed preemption bound of 2-3 threads doing decapsulate/encapsulate/sign/verify/public-key derivation on one shared key pair; non-trivial = distinct scenario")
	sched.RunScenarios(r, c11SchemeScenarios(r.Thorough()), r.Pick(2, 2))
}

func TestVerifC11_race_schemes(t *testing.T) {
	if os.Getenv("VERIF_CONFIG") != "race" {
		t.Skip("runs only under -race")
	}
	r := verifmc.Start(t, "C11", "race_schemes")
	defer r.Finish()
	r.Rule("same scenario bodies on free-running goroutines under the race detector")
	sched.FreeRun(r, c11SchemeScenarios(true), r.Pick(5, 40))
}
