//go:build verif

package circl_test

// C14 — cross-configuration differential, public-API units at the module root (continued):
// eddsa (Ed25519 / Ed448 incl. crafted public keys and signature halves), curve4q, hash (SHA-3,
// SHAKE, TurboSHAKE, BLAKE2X, K12 through xof), group (P-256/384/521, ristretto255).

import (
	"fmt"
	"math/big"
	"testing"

	"github.com/cloudflare/circl/dh/curve4q"
	"github.com/cloudflare/circl/group"
	"github.com/cloudflare/circl/internal/sha3"
	"github.com/cloudflare/circl/internal/verifc14"
	"github.com/cloudflare/circl/internal/verifmc"
	"github.com/cloudflare/circl/sign/ed25519"
	"github.com/cloudflare/circl/sign/ed448"
	"github.com/cloudflare/circl/xof"
)

// c14Strings: byte strings of length n built from 64-bit limb patterns (last limb possibly partial).
func c14Strings(n int, label string, pseudo int) []verifc14.Named {
	limbs := (n + 7) / 8
	var out []verifc14.Named
	seen := map[string]bool{}
	add := func(name string, b []byte) {
		b = b[:n]
		if !seen[string(b)] {
			seen[string(b)] = true
			out = append(out, verifc14.Named{Name: name, V: b})
		}
	}
	core := verifc14.LimbEdge
	if limbs > 4 {
		core = []uint64{0, ^uint64(0)}
	}
	for i, b := range verifc14.LimbProduct(limbs, core) {
		add(fmt.Sprintf("limbs%d", i), b)
		// the same string with the top bit of the encoding (sign bit) toggled
		t := append([]byte{}, b...)
		t[n-1] ^= 0x80
		add(fmt.Sprintf("limbs%d^sign", i), t)
	}
	for i, b := range verifc14.OneLimbAway(limbs, []uint64{1, 2, 1 << 63, 1<<63 - 1, ^uint64(0) - 1, ^uint64(0) - 18, ^uint64(0) - 19}) {
		add(fmt.Sprintf("away%d", i), b)
	}
	for i, b := range verifc14.Pseudo(label, pseudo, 8*limbs) {
		add(fmt.Sprintf("pseudo%d", i), b)
	}
	return out
}

func TestVerifC14_eddsa(t *testing.T) {
	c := verifc14.Start(t, "eddsa")
	c.BackendFromFeatures("math/fp25519 and math/fp448 field arithmetic (hasBmi2Adx)", verifc14.FpSel)
	r := c.R
	msgLens := []int{0, 1, 63, 64, 65, 127, 128, 129, 200}
	r.Set("message_lengths", msgLens)
	r.Rule("Ed25519 (pure, ctx, ph) and Ed448 (pure with and without context, ph): keys from SEEDS(n) and 3 SHAKE seeds; per key: public key, signatures of the listed message lengths, Verify of the honest and of three bit-flipped signatures; " +
		"crafted inputs: every limb-pattern string (see c14Strings: limbs in {0,1,2^63,2^64-1} for 32 bytes / {0,2^64-1} for 57 bytes, sign bit toggled, one limb away from 00../FF.., SHAKE) used as public key and as the R half of a signature: Verify verdicts")
	r.NotExhaustive("declared seeds, messages and crafted strings")

	seeds25 := append(verifmc.Seeds(ed25519.SeedSize, r.Seed()), verifc14.Pseudo("ed25519-seed", 3, ed25519.SeedSize)...)
	seeds448 := append(verifmc.Seeds(ed448.SeedSize, r.Seed()), verifc14.Pseudo("ed448-seed", 3, ed448.SeedSize)...)
	crafted25 := c14Strings(32, "ed25519-crafted", r.Pick(32, 256))
	crafted448 := c14Strings(57, "ed448-crafted", r.Pick(32, 256))
	r.Set("crafted_strings_ed25519", len(crafted25))
	r.Set("crafted_strings_ed448", len(crafted448))

	type job struct {
		kind string
		i    int
	}
	var jobs []job
	for i := range seeds25 {
		jobs = append(jobs, job{"ed25519", i})
	}
	for i := range seeds448 {
		jobs = append(jobs, job{"ed448", i})
	}
	for i := range crafted25 {
		jobs = append(jobs, job{"crafted25519", i})
	}
	for i := range crafted448 {
		jobs = append(jobs, job{"crafted448", i})
	}
	// one honest signature per curve to graft crafted halves onto
	k25 := ed25519.NewKeyFromSeed(seeds25[3])
	pk25 := k25.Public().(ed25519.PublicKey)
	msg := verifc14.Msg(33)
	sig25 := ed25519.Sign(k25, msg)
	k448 := ed448.NewKeyFromSeed(seeds448[3])
	pk448 := k448.Public().(ed448.PublicKey)
	sig448 := ed448.Sign(k448, msg, "")

	verifmc.ParallelFor(len(jobs), func(ji int) {
		j := jobs[ji]
		switch j.kind {
		case "ed25519":
			c.Case(fmt.Sprintf("Ed25519#key%d", j.i), func(d *verifc14.D) {
				sk := ed25519.NewKeyFromSeed(seeds25[j.i])
				pk := sk.Public().(ed25519.PublicKey)
				d.Bytes("sk", sk)
				d.Bytes("pk", pk)
				for _, n := range msgLens {
					m := verifc14.Msg(n)
					s1 := ed25519.Sign(sk, m)
					s2 := ed25519.SignWithCtx(sk, m, "c14 ctx")
					s3 := ed25519.SignPh(sk, m, "c14 ctx")
					d.Bytes(fmt.Sprintf("sig%d", n), s1)
					d.Bytes(fmt.Sprintf("sigctx%d", n), s2)
					d.Bytes(fmt.Sprintf("sigph%d", n), s3)
					d.Bool(fmt.Sprintf("ok%d", n), ed25519.Verify(pk, m, s1))
					d.Bool(fmt.Sprintf("okctx%d", n), ed25519.VerifyWithCtx(pk, m, s2, "c14 ctx"))
					d.Bool(fmt.Sprintf("okph%d", n), ed25519.VerifyPh(pk, m, s3, "c14 ctx"))
					d.Bool(fmt.Sprintf("wrongctx%d", n), ed25519.VerifyWithCtx(pk, m, s2, "c14 ctX"))
					for _, bit := range []int{0, 255, 256, 511} {
						d.Bool(fmt.Sprintf("flip%d.%d", bit, n), ed25519.Verify(pk, m, verifmc.Flip(s1, bit)))
					}
					d.Exec(11)
				}
			})
		case "ed448":
			c.Case(fmt.Sprintf("Ed448#key%d", j.i), func(d *verifc14.D) {
				sk := ed448.NewKeyFromSeed(seeds448[j.i])
				pk := sk.Public().(ed448.PublicKey)
				d.Bytes("sk", sk)
				d.Bytes("pk", pk)
				for _, n := range msgLens {
					m := verifc14.Msg(n)
					s1 := ed448.Sign(sk, m, "")
					s2 := ed448.Sign(sk, m, "c14 ctx")
					s3 := ed448.SignPh(sk, m, "c14 ctx")
					d.Bytes(fmt.Sprintf("sig%d", n), s1)
					d.Bytes(fmt.Sprintf("sigctx%d", n), s2)
					d.Bytes(fmt.Sprintf("sigph%d", n), s3)
					d.Bool(fmt.Sprintf("ok%d", n), ed448.Verify(pk, m, s1, ""))
					d.Bool(fmt.Sprintf("okctx%d", n), ed448.Verify(pk, m, s2, "c14 ctx"))
					d.Bool(fmt.Sprintf("okph%d", n), ed448.VerifyPh(pk, m, s3, "c14 ctx"))
					d.Bool(fmt.Sprintf("wrongctx%d", n), ed448.Verify(pk, m, s2, "c14 ctX"))
					for _, bit := range []int{0, 455, 456, 8*114 - 1} {
						d.Bool(fmt.Sprintf("flip%d.%d", bit, n), ed448.Verify(pk, m, verifmc.Flip(s1, bit), ""))
					}
					d.Exec(11)
				}
			})
		case "crafted25519":
			s := crafted25[j.i]
			c.Case("Ed25519-crafted#"+s.Name, func(d *verifc14.D) {
				// as public key (point decompression of an arbitrary string), with an honest signature of another key
				d.Bool("as-pk", ed25519.Verify(ed25519.PublicKey(s.V), msg, sig25))
				// as R half and as S half of an otherwise honest signature
				sr := append(append([]byte{}, s.V...), sig25[32:]...)
				d.Bool("as-R", ed25519.Verify(pk25, msg, sr))
				ss := append(append([]byte{}, sig25[:32]...), s.V...)
				d.Bool("as-S", ed25519.Verify(pk25, msg, ss))
				// as seed: the whole key derivation and one signature
				sk := ed25519.NewKeyFromSeed(s.V)
				d.Bytes("pk-from-seed", sk.Public().(ed25519.PublicKey))
				d.Bytes("sig-from-seed", ed25519.Sign(sk, msg))
				d.Exec(5)
			})
		case "crafted448":
			s := crafted448[j.i]
			c.Case("Ed448-crafted#"+s.Name, func(d *verifc14.D) {
				d.Bool("as-pk", ed448.Verify(ed448.PublicKey(s.V), msg, sig448, ""))
				sr := append(append([]byte{}, s.V...), sig448[57:]...)
				d.Bool("as-R", ed448.Verify(pk448, msg, sr, ""))
				ss := append(append([]byte{}, sig448[:57]...), s.V...)
				d.Bool("as-S", ed448.Verify(pk448, msg, ss, ""))
				sk := ed448.NewKeyFromSeed(s.V)
				d.Bytes("pk-from-seed", sk.Public().(ed448.PublicKey))
				d.Bytes("sig-from-seed", ed448.Sign(sk, msg, ""))
				d.Exec(5)
			})
		}
	})
	c.Finish(300)
}

func TestVerifC14_curve4q(t *testing.T) {
	c := verifc14.Start(t, "curve4q")
	c.BackendFromFeatures("ecc/fourq field and point arithmetic (hasBMI2)", verifc14.Bmi2Sel)
	r := c.R
	secrets := verifc14.DHSecrets(curve4q.Size, r.Thorough(), r.Seed())
	shared := secrets[:10]
	if r.Thorough() {
		shared = append(append([]verifc14.Named{}, shared...), verifc14.Thin(secrets[10:], 48)...)
	}
	// peer values: limb-pattern strings (most are rejected or decode to points off the prime-order subgroup) and honest public keys
	var pubs []verifc14.Named
	m1, b63, b62 := ^uint64(0), uint64(1)<<63, uint64(1)<<62
	for i, b := range verifc14.LimbProduct(4, []uint64{0, 1, b62, b63 - 1, m1}) {
		pubs = append(pubs, verifc14.Named{Name: fmt.Sprintf("limbs%d", i), V: b})
	}
	for i, b := range verifc14.OneLimbAway(4, []uint64{2, 1 << 32, b62 + 1, b63, b63 + 1, m1 - 1}) {
		pubs = append(pubs, verifc14.Named{Name: fmt.Sprintf("away%d", i), V: b})
	}
	for i, s := range secrets[:r.Pick(24, len(secrets))] {
		var pk, sk curve4q.Key
		copy(sk[:], s.V)
		curve4q.KeyGen(&pk, &sk)
		pubs = append(pubs, verifc14.Named{Name: fmt.Sprintf("pk(%s)/%d", s.Name, i), V: append([]byte{}, pk[:]...)})
	}
	for i, b := range verifc14.Pseudo("curve4q-pub", r.Pick(32, 256), curve4q.Size) {
		pubs = append(pubs, verifc14.Named{Name: fmt.Sprintf("pseudo%d", i), V: b})
	}
	r.Rule("secrets: SEEDS(32), SHAKE strings, 0x55../0xaa.., single-bit secrets; peer values: every 32-byte string with limbs in {0,1,2^62,2^63-1,2^64-1}, one limb away from 00../FF.., honest public keys, SHAKE strings; " +
		"KeyGen on every secret; Shared on 10 secrets (quick) / about 60 (thorough) x every peer value: bytes and the ok flag")
	r.NotExhaustive("declared alphabets")
	verifc14.RunDH(c, &verifc14.DH{
		Name: "Curve4Q", Size: curve4q.Size,
		KeyGen: func(s []byte) []byte {
			var pk, sk curve4q.Key
			copy(sk[:], s)
			curve4q.KeyGen(&pk, &sk)
			return pk[:]
		},
		Shared: func(s, u []byte) ([]byte, bool) {
			var ss, sk, pk curve4q.Key
			copy(sk[:], s)
			copy(pk[:], u)
			ok := curve4q.Shared(&ss, &sk, &pk)
			return ss[:], ok
		},
	}, secrets, shared, pubs)
	r.RequireCounter("shared_flagged_false", 50)
	c.Finish(300)
}

func TestVerifC14_hash(t *testing.T) {
	c := verifc14.Start(t, "hash")
	c.Backend("internal/sha3 KeccakF1600 + xorIn (xor_unaligned.go on amd64 in every configuration)", "single-backend", func(verifc14.Features) string { return "single-backend" })
	c.BackendFromFeatures("xof.K12D10 lanes / 4-way permutation", verifc14.X4Sel)
	c.BackendFromFeatures("x/crypto blake2b/blake2s behind xof.BLAKE2X (AVX2 / SSE4 / generic)", verifc14.Avx2Sel)
	r := c.R
	r.Rule("SHA3-224/256/384/512, SHAKE128/256, TurboSHAKE128/256 (D=0x07, 0x1f), xof.{SHAKE128, SHAKE256, BLAKE2XB, BLAKE2XS, K12D10}: message lengths LEN(rate) = {0,1,r-1,r,r+1,2r-1,2r,2r+1} plus {8191,8192,8193,33000}, " +
		"written at once and in two parts, output 2r+3 bytes read as 1 + rest; message byte k is a fixed function of k. The sponge itself has a single back-end on amd64 (recorded as such)")
	r.NotExhaustive("declared length alphabet")
	type alg struct {
		name string
		rate int
		run  func(parts [][]byte, outLen int) []byte
	}
	fixed := func(mk func() sha3.State) func([][]byte, int) []byte {
		return func(parts [][]byte, _ int) []byte {
			h := mk()
			for _, p := range parts {
				_, _ = h.Write(p)
			}
			return h.Sum(nil)
		}
	}
	shake := func(mk func() sha3.State) func([][]byte, int) []byte {
		return func(parts [][]byte, n int) []byte {
			h := mk()
			for _, p := range parts {
				_, _ = h.Write(p)
			}
			out := make([]byte, n)
			_, _ = h.Read(out[:1])
			_, _ = h.Read(out[1:])
			return out
		}
	}
	x := func(id xof.ID) func([][]byte, int) []byte {
		return func(parts [][]byte, n int) []byte {
			h := id.New()
			for _, p := range parts {
				_, _ = h.Write(p)
			}
			out := make([]byte, n)
			_, _ = h.Read(out[:1])
			_, _ = h.Read(out[1:])
			cl := h.Clone()
			more := make([]byte, 40)
			_, _ = cl.Read(more)
			return append(out, more...)
		}
	}
	algs := []alg{
		{"SHA3-224", 144, fixed(sha3.New224)}, {"SHA3-256", 136, fixed(sha3.New256)}, {"SHA3-384", 104, fixed(sha3.New384)}, {"SHA3-512", 72, fixed(sha3.New512)},
		{"SHAKE128", 168, shake(sha3.NewShake128)}, {"SHAKE256", 136, shake(sha3.NewShake256)},
		{"TurboSHAKE128/07", 168, shake(func() sha3.State { return sha3.NewTurboShake128(0x07) })},
		{"TurboSHAKE256/1f", 136, shake(func() sha3.State { return sha3.NewTurboShake256(0x1f) })},
		{"xof.SHAKE128", 168, x(xof.SHAKE128)}, {"xof.SHAKE256", 136, x(xof.SHAKE256)},
		{"xof.BLAKE2XB", 128, x(xof.BLAKE2XB)}, {"xof.BLAKE2XS", 64, x(xof.BLAKE2XS)}, {"xof.K12D10", 168, x(xof.K12D10)},
	}
	msg := verifmc.Msg(33000)
	verifmc.ParallelFor(len(algs), func(ai int) {
		a := algs[ai]
		lens := append(verifmc.Lens(a.rate), 8191, 8192, 8193, 33000)
		for _, n := range lens {
			n := n
			c.Case(fmt.Sprintf("%s#len=%d", a.name, n), func(d *verifc14.D) {
				out := 2*a.rate + 3
				d.Bytes("oneshot", a.run([][]byte{msg[:n]}, out))
				d.Bytes("twoparts", a.run([][]byte{msg[:n/3], msg[n/3 : n]}, out))
				d.Exec(2)
			})
		}
	})
	c.Finish(13 * 12)
}

func TestVerifC14_group(t *testing.T) {
	c := verifc14.Start(t, "group")
	c.BackendFromFeatures("group.P384 = ecc/p384 (own arithmetic with hasBMI2; crypto/elliptic under purego)", verifc14.Bmi2Sel)
	r := c.R
	groups := []struct {
		name string
		g    group.Group
	}{{"P256", group.P256}, {"P384", group.P384}, {"P521", group.P521}, {"ristretto255", group.Ristretto255}}
	r.Rule("per group (P-256, P-384, P-521, ristretto255): scalars {0,1,2,order-1 (as -1), 2 SHAKE}, messages of length {0,1,100} with a fixed DST: HashToElement, HashToElementNonUniform, HashToScalar, MulGen, Mul, Add, Dbl, Neg, " +
		"both encodings, Unmarshal of both encodings, IsEqual / IsIdentity verdicts")
	r.NotExhaustive("declared scalars and messages; only P-384 has a circl back-end that switches (the other groups run standard-library or third-party code)")
	dst := []byte("C14-group-dst")
	verifmc.ParallelFor(len(groups), func(gi int) {
		G := groups[gi]
		g := G.g
		mkScalars := func() []group.Scalar {
			var out []group.Scalar
			for _, v := range []uint64{0, 1, 2} {
				out = append(out, g.NewScalar().SetUint64(v))
			}
			out = append(out, g.NewScalar().Neg(g.NewScalar().SetUint64(1)))
			for k := 0; k < 2; k++ {
				b := new(big.Int).SetBytes(verifmc.Shake(fmt.Sprintf("c14-group-scalar-%d", k), 80))
				out = append(out, g.NewScalar().SetBigInt(b))
			}
			return out
		}
		obs := func(d *verifc14.D, label string, e group.Element) {
			b, err := e.MarshalBinary()
			d.Err(label+".marshal", err)
			d.Bytes(label, b)
			cb, err := e.MarshalBinaryCompress()
			d.Err(label+".compress", err)
			d.Bytes(label+".c", cb)
			d.Bool(label+".id", e.IsIdentity())
			for _, enc := range [][]byte{b, cb} {
				e2 := g.NewElement()
				err := e2.UnmarshalBinary(enc)
				d.Err(label+".unmarshal", err)
				if err == nil {
					d.Bool(label+".eq", e2.IsEqual(e))
				}
			}
		}
		for mi, n := range []int{0, 1, 100} {
			mi, n := mi, n
			c.Case(fmt.Sprintf("%s/Hash#msg%d", G.name, mi), func(d *verifc14.D) {
				m := verifc14.Msg(n)
				obs(d, "h2e", g.HashToElement(m, dst))
				obs(d, "h2e-nu", g.HashToElementNonUniform(m, dst))
				sb, err := g.HashToScalar(m, dst).MarshalBinary()
				d.Err("h2s", err)
				d.Bytes("h2s", sb)
				d.Exec(3)
			})
		}
		scal := mkScalars()
		for si := range scal {
			si := si
			c.Case(fmt.Sprintf("%s/Arith#scalar%d", G.name, si), func(d *verifc14.D) {
				s := scal[si]
				sb, _ := s.MarshalBinary()
				d.Bytes("scalar", sb)
				P := g.NewElement().MulGen(s)
				obs(d, "sG", P)
				H := g.HashToElement([]byte("c14 base"), dst)
				Q := g.NewElement().Mul(H, s)
				obs(d, "sH", Q)
				obs(d, "sG+sH", g.NewElement().Add(P, Q))
				obs(d, "2sG", g.NewElement().Dbl(P))
				obs(d, "-sH", g.NewElement().Neg(Q))
				obs(d, "sG+sG", g.NewElement().Add(P, P))
				obs(d, "sG-sG", g.NewElement().Add(P, g.NewElement().Neg(P)))
				for ti, t2 := range scal {
					u := g.NewScalar().Mul(s, t2)
					ub, _ := u.MarshalBinary()
					d.Bytes(fmt.Sprintf("s*t%d", ti), ub)
					w := g.NewScalar().Add(s, t2)
					wb, _ := w.MarshalBinary()
					d.Bytes(fmt.Sprintf("s+t%d", ti), wb)
				}
				if !s.IsZero() {
					ib, _ := g.NewScalar().Inv(s).MarshalBinary()
					d.Bytes("1/s", ib)
				}
				d.Exec(8)
			})
		}
	})
	c.Finish(4 * 9)
}
