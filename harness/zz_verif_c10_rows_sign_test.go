//go:build verif

package circl_test

import (
	"crypto"
	"strings"
	"testing"

	kit "github.com/cloudflare/circl/internal/verifref/c10kit"
	"github.com/cloudflare/circl/sign"
	"github.com/cloudflare/circl/sign/bls"
	dil2 "github.com/cloudflare/circl/sign/dilithium/mode2"
	dil3 "github.com/cloudflare/circl/sign/dilithium/mode3"
	dil5 "github.com/cloudflare/circl/sign/dilithium/mode5"
	"github.com/cloudflare/circl/sign/ed25519"
	"github.com/cloudflare/circl/sign/ed448"
	"github.com/cloudflare/circl/sign/eddilithium2"
	"github.com/cloudflare/circl/sign/eddilithium3"
	"github.com/cloudflare/circl/sign/mldsa/mldsa44"
	"github.com/cloudflare/circl/sign/mldsa/mldsa65"
	"github.com/cloudflare/circl/sign/mldsa/mldsa87"
	"github.com/cloudflare/circl/sign/schemes"
)

type c10SigKeys struct {
	pk            sign.PublicKey
	sk            sign.PrivateKey
	ppk, psk, sig []byte
	ppk2, psk2    []byte
	sig2          []byte
	sigCtx        []byte
}

const c10Ctx = "verif-c10-context"

func c10SigKeygen(s sign.Scheme) *c10SigKeys {
	k := &c10SigKeys{}
	k.pk, k.sk = s.DeriveKey(c10Shake("sig-seed/"+s.Name(), s.SeedSize()))
	pk2, sk2 := s.DeriveKey(c10Shake("sig-seed2/"+s.Name(), s.SeedSize()))
	var err error
	k.ppk, err = k.pk.MarshalBinary()
	c10Must(err)
	k.psk, err = k.sk.MarshalBinary()
	c10Must(err)
	k.ppk2, err = pk2.MarshalBinary()
	c10Must(err)
	k.psk2, err = sk2.MarshalBinary()
	c10Must(err)
	k.sig = s.Sign(k.sk, c10Msg, nil)
	k.sig2 = s.Sign(k.sk, []byte("verif C10 another message"), nil)
	if s.SupportsContext() {
		k.sigCtx = s.Sign(k.sk, c10Msg, &sign.SignatureOpts{Context: c10Ctx})
	}
	return k
}

func c10ForeignSig(s sign.Scheme) *c10SigKeys {
	o := ed25519.Scheme()
	if s.Name() == o.Name() {
		o = ed448.Scheme()
	}
	return c10SigKeygen(o)
}

// c10SigCost: verification cost class per scheme.
func c10SigCost(name string) int {
	if strings.HasPrefix(name, "EdDilithium") {
		return kit.Medium
	}
	return kit.Medium
}

// c10HintExtras: hand-made hostile hint encodings for Dilithium / ML-DSA signatures. The hint section is
// the last omega+k bytes of the lattice signature (followed by tail bytes of an appended EdDSA signature):
// omega index bytes, then k switch-over points. Single alterations cannot build a run of strictly
// increasing index bytes, which is what it takes to walk an over-large switch-over point to the end of
// the buffer, so these are supplied by hand.
func c10HintExtras(name string, sig []byte, tail int) []kit.Named {
	dims := map[string][2]int{"2": {4, 80}, "3": {6, 55}, "5": {8, 75}, "44": {4, 80}, "65": {6, 55}, "87": {8, 75}}
	var k, omega int
	for suf, d := range dims {
		if strings.HasSuffix(name, suf) {
			k, omega = d[0], d[1]
		}
	}
	if k == 0 || len(sig) < tail+omega+k {
		return nil
	}
	mk := func(f func(h []byte)) []byte {
		c := append([]byte{}, sig...)
		f(c[len(c)-tail-omega-k : len(c)-tail])
		return c
	}
	return []kit.Named{
		{"hint-increasing-run-last-sop-FF", mk(func(h []byte) {
			for i := range h {
				h[i] = byte(i)
			}
			h[len(h)-1] = 0xff
		})},
		{"hint-increasing-run-all-sops-FF", mk(func(h []byte) {
			for i := range h {
				h[i] = byte(i)
			}
			for i := omega; i < len(h); i++ {
				h[i] = 0xff
			}
		})},
		{"hint-first-sop-FF", mk(func(h []byte) {
			for i := 0; i < omega; i++ {
				h[i] = byte(i + 1)
			}
			h[omega] = 0xff
		})},
		{"hint-sops-decreasing", mk(func(h []byte) {
			for i := omega; i < len(h); i++ {
				h[i] = byte(len(h) - i)
			}
		})},
		{"hint-indices-FF", mk(func(h []byte) {
			for i := 0; i < omega; i++ {
				h[i] = 0xff
			}
			for i := omega; i < len(h); i++ {
				h[i] = byte(omega)
			}
		})},
	}
}

func c10RowsSignSchemes() []*kit.Row {
	var rows []*kit.Row
	for _, s := range schemes.All() {
		s := s
		tid := c10TypeID(s)
		n := "sign[" + s.Name() + "]"
		cost := c10SigCost(s.Name())
		rows = append(rows, &kit.Row{Name: n + ".UnmarshalBinaryPublicKey(+Verify)", Cost: cost,
			Covers: []string{tid + ".UnmarshalBinaryPublicKey", tid + ".Verify"},
			Note:   "the accepted key is then used to verify a valid signature of another key (must return, true or false)",
			Setup: func() *kit.Inst {
				k := c10SigKeygen(s)
				f := c10ForeignSig(s)
				return &kit.Inst{Bases: [][]byte{k.ppk, k.ppk2},
					Call: func(in []byte) error {
						pk, err := s.UnmarshalBinaryPublicKey(in)
						if err != nil {
							return err
						}
						s.Verify(pk, c10Msg, k.sig, nil)
						return nil
					},
					Extras: []kit.Named{{"own-private-key", k.psk}, {"own-signature", k.sig}, {"foreign-public-key", f.ppk}}}
			}})
		rows = append(rows, &kit.Row{Name: n + ".UnmarshalBinaryPrivateKey", Cost: cost, Covers: []string{tid + ".UnmarshalBinaryPrivateKey"},
			Setup: func() *kit.Inst {
				k := c10SigKeygen(s)
				f := c10ForeignSig(s)
				return &kit.Inst{Bases: [][]byte{k.psk, k.psk2},
					Call:   func(in []byte) error { _, err := s.UnmarshalBinaryPrivateKey(in); return err },
					Extras: []kit.Named{{"own-public-key", k.ppk}, {"own-signature", k.sig}, {"foreign-private-key", f.psk}}}
			}})
		rows = append(rows, &kit.Row{Name: n + ".Verify#sig", Cost: cost, Covers: []string{tid + ".Verify"},
			Setup: func() *kit.Inst {
				k := c10SigKeygen(s)
				f := c10ForeignSig(s)
				return &kit.Inst{Bases: [][]byte{k.sig},
					Call: func(in []byte) error { return c10Bool(s.Verify(k.pk, c10Msg, in, nil)) },
					Extras: append([]kit.Named{{"own-public-key", k.ppk}, {"own-private-key", k.psk}, {"foreign-signature", f.sig}, {"own-signature-of-another-message", k.sig2}},
						c10HintExtras(c10HintName(s.Name()), k.sig, c10HintTail(s.Name()))...)}
			}})
		if s.SupportsContext() {
			rows = append(rows, &kit.Row{Name: n + ".Verify#sig(ctx)", Cost: cost, Covers: []string{tid + ".Verify"},
				Setup: func() *kit.Inst {
					k := c10SigKeygen(s)
					return &kit.Inst{Bases: [][]byte{k.sigCtx},
						Call: func(in []byte) error {
							return c10Bool(s.Verify(k.pk, c10Msg, in, &sign.SignatureOpts{Context: c10Ctx}))
						},
						Extras: []kit.Named{{"signature-without-context", k.sig}}}
				}})
		}
	}
	return rows
}

// c10HintName maps a scheme / package name to a name ending in the parameter-set suffix; c10HintTail is
// the length of the EdDSA signature appended by the hybrid schemes.
func c10HintName(n string) string {
	switch {
	case strings.Contains(n, "eddilithium2"), strings.Contains(n, "Ed25519-Dilithium2"):
		return "2"
	case strings.Contains(n, "eddilithium3"), strings.Contains(n, "Ed448-Dilithium3"):
		return "3"
	case strings.HasPrefix(n, "ML-DSA-"):
		return strings.TrimPrefix(n, "ML-DSA-")
	case strings.HasPrefix(n, "Dilithium"):
		return strings.TrimPrefix(n, "Dilithium")
	case strings.Contains(n, "/mode"):
		return n[len(n)-1:]
	case strings.Contains(n, "/mldsa"):
		return n[len(n)-2:]
	}
	return ""
}

func c10HintTail(n string) int {
	switch {
	case strings.Contains(n, "eddilithium2"), strings.Contains(n, "Ed25519-Dilithium2"):
		return ed25519.SignatureSize
	case strings.Contains(n, "eddilithium3"), strings.Contains(n, "Ed448-Dilithium3"):
		return ed448.SignatureSize
	}
	return 0
}

// c10CtxExtras: context strings around the 255-byte limit and beyond.
func c10CtxExtras() []kit.Named {
	return []kit.Named{{"ctx254", c10Shake("ctx", 254)}, {"ctx255", c10Shake("ctx", 255)}, {"ctx256", c10Shake("ctx", 256)},
		{"ctx257", c10Shake("ctx", 257)}, {"ctx511", c10Shake("ctx", 511)}, {"ctx65536", c10Shake("ctx", 65536)}}
}

func c10RowsEd() []*kit.Row {
	var rows []*kit.Row
	// ---- ed25519: keys are byte slices, so both the key and the signature are raw untrusted bytes
	type edk struct {
		pk           ed25519.PublicKey
		sk           ed25519.PrivateKey
		sig, ph, ctx []byte
	}
	mk := func() *edk {
		k := &edk{}
		k.sk = ed25519.NewKeyFromSeed(c10Shake("ed25519", ed25519.SeedSize))
		k.pk = k.sk.Public().(ed25519.PublicKey)
		k.sig = ed25519.Sign(k.sk, c10Msg)
		k.ph = ed25519.SignPh(k.sk, c10Msg, c10Ctx)
		k.ctx = ed25519.SignWithCtx(k.sk, c10Msg, c10Ctx)
		return k
	}
	type v25519 struct {
		name string
		f    func(k *edk, pk, sig []byte, ctx string) bool
		sig  func(k *edk) []byte
	}
	for _, v := range []v25519{
		{"Verify", func(k *edk, pk, sig []byte, _ string) bool { return ed25519.Verify(pk, c10Msg, sig) }, func(k *edk) []byte { return k.sig }},
		{"VerifyPh", func(k *edk, pk, sig []byte, c string) bool { return ed25519.VerifyPh(pk, c10Msg, sig, c) }, func(k *edk) []byte { return k.ph }},
		{"VerifyWithCtx", func(k *edk, pk, sig []byte, c string) bool { return ed25519.VerifyWithCtx(pk, c10Msg, sig, c) }, func(k *edk) []byte { return k.ctx }},
		{"VerifyAny", func(k *edk, pk, sig []byte, c string) bool {
			return ed25519.VerifyAny(pk, c10Msg, sig, ed25519.SignerOptions{Hash: crypto.Hash(0), Context: c, Scheme: ed25519.ED25519Ctx})
		}, func(k *edk) []byte { return k.ctx }},
	} {
		v := v
		rows = append(rows, &kit.Row{Name: "sign/ed25519." + v.name + "#sig", Cost: kit.Medium, Covers: []string{"sign/ed25519." + v.name},
			Setup: func() *kit.Inst {
				k := mk()
				return &kit.Inst{Bases: [][]byte{v.sig(k)}, Call: func(in []byte) error { return c10Bool(v.f(k, k.pk, in, c10Ctx)) },
					Extras: []kit.Named{{"public-key", k.pk}, {"private-key", k.sk}}}
			}})
		rows = append(rows, &kit.Row{Name: "sign/ed25519." + v.name + "#pk", Cost: kit.Medium, Covers: []string{"sign/ed25519." + v.name},
			Setup: func() *kit.Inst {
				k := mk()
				return &kit.Inst{Bases: [][]byte{k.pk}, Call: func(in []byte) error { return c10Bool(v.f(k, in, v.sig(k), c10Ctx)) },
					Extras: []kit.Named{{"signature", k.sig}, {"private-key", k.sk}}}
			}})
		if v.name != "Verify" {
			rows = append(rows, &kit.Row{Name: "sign/ed25519." + v.name + "#ctx", Cost: kit.Medium, Covers: []string{"sign/ed25519." + v.name},
				Note: "context strings of every length 0..|ctx| and around / beyond the 255-byte limit",
				Setup: func() *kit.Inst {
					k := mk()
					return &kit.Inst{Bases: [][]byte{[]byte(c10Ctx)}, Call: func(in []byte) error { return c10Bool(v.f(k, k.pk, v.sig(k), string(in))) },
						Extras: c10CtxExtras()}
				}})
		}
	}
	// ---- ed448
	type e4k struct {
		pk      ed448.PublicKey
		sk      ed448.PrivateKey
		sig, ph []byte
	}
	mk4 := func() *e4k {
		k := &e4k{}
		k.sk = ed448.NewKeyFromSeed(c10Shake("ed448", ed448.SeedSize))
		k.pk = k.sk.Public().(ed448.PublicKey)
		k.sig = ed448.Sign(k.sk, c10Msg, c10Ctx)
		k.ph = ed448.SignPh(k.sk, c10Msg, c10Ctx)
		return k
	}
	type v448 struct {
		name string
		f    func(pk, sig []byte, ctx string) bool
		sig  func(k *e4k) []byte
	}
	for _, v := range []v448{
		{"Verify", func(pk, sig []byte, c string) bool { return ed448.Verify(pk, c10Msg, sig, c) }, func(k *e4k) []byte { return k.sig }},
		{"VerifyPh", func(pk, sig []byte, c string) bool { return ed448.VerifyPh(pk, c10Msg, sig, c) }, func(k *e4k) []byte { return k.ph }},
		{"VerifyAny", func(pk, sig []byte, c string) bool {
			return ed448.VerifyAny(pk, c10Msg, sig, ed448.SignerOptions{Hash: crypto.Hash(0), Context: c, Scheme: ed448.ED448})
		}, func(k *e4k) []byte { return k.sig }},
	} {
		v := v
		rows = append(rows, &kit.Row{Name: "sign/ed448." + v.name + "#sig", Cost: kit.Medium, Covers: []string{"sign/ed448." + v.name},
			Setup: func() *kit.Inst {
				k := mk4()
				return &kit.Inst{Bases: [][]byte{v.sig(k)}, Call: func(in []byte) error { return c10Bool(v.f(k.pk, in, c10Ctx)) },
					Extras: []kit.Named{{"public-key", k.pk}, {"private-key", k.sk}}}
			}})
		rows = append(rows, &kit.Row{Name: "sign/ed448." + v.name + "#pk", Cost: kit.Medium, Covers: []string{"sign/ed448." + v.name},
			Setup: func() *kit.Inst {
				k := mk4()
				return &kit.Inst{Bases: [][]byte{k.pk}, Call: func(in []byte) error { return c10Bool(v.f(in, v.sig(k), c10Ctx)) },
					Extras: []kit.Named{{"signature", k.sig}, {"private-key", k.sk}}}
			}})
		rows = append(rows, &kit.Row{Name: "sign/ed448." + v.name + "#ctx", Cost: kit.Medium, Covers: []string{"sign/ed448." + v.name},
			Setup: func() *kit.Inst {
				k := mk4()
				return &kit.Inst{Bases: [][]byte{[]byte(c10Ctx)}, Call: func(in []byte) error { return c10Bool(v.f(k.pk, v.sig(k), string(in))) },
					Extras: c10CtxExtras()}
			}})
	}
	return rows
}

// c10Lattice describes one package with typed keys: PublicKey/PrivateKey.UnmarshalBinary and Verify.
type c10Lattice struct {
	pkg    string
	keygen func() (pk, sk interface {
		MarshalBinary() ([]byte, error)
	}, sig []byte)
	unmPub   func(in []byte) (interface{}, error)
	unmPriv  func(in []byte) error
	verify   func(pk interface{}, sig []byte) bool
	verifyCx func(pk interface{}, ctx, sig []byte) bool // nil when the scheme has no context
	sigCx    func() []byte
}

func c10RowsLattice() []*kit.Row {
	type mb = interface {
		MarshalBinary() ([]byte, error)
	}
	seed := func(l string) *[32]byte {
		var s [32]byte
		copy(s[:], c10Shake("lattice/"+l, 32))
		return &s
	}
	ls := []c10Lattice{
		{pkg: "sign/dilithium/mode2",
			keygen: func() (mb, mb, []byte) {
				pk, sk := dil2.NewKeyFromSeed(seed("d2"))
				sig := make([]byte, dil2.SignatureSize)
				dil2.SignTo(sk, c10Msg, sig)
				return pk, sk, sig
			},
			unmPub: func(in []byte) (interface{}, error) {
				var pk dil2.PublicKey
				err := pk.UnmarshalBinary(in)
				return &pk, err
			},
			unmPriv: func(in []byte) error { var sk dil2.PrivateKey; return sk.UnmarshalBinary(in) },
			verify:  func(pk interface{}, sig []byte) bool { return dil2.Verify(pk.(*dil2.PublicKey), c10Msg, sig) }},
		{pkg: "sign/dilithium/mode3",
			keygen: func() (mb, mb, []byte) {
				pk, sk := dil3.NewKeyFromSeed(seed("d3"))
				sig := make([]byte, dil3.SignatureSize)
				dil3.SignTo(sk, c10Msg, sig)
				return pk, sk, sig
			},
			unmPub: func(in []byte) (interface{}, error) {
				var pk dil3.PublicKey
				err := pk.UnmarshalBinary(in)
				return &pk, err
			},
			unmPriv: func(in []byte) error { var sk dil3.PrivateKey; return sk.UnmarshalBinary(in) },
			verify:  func(pk interface{}, sig []byte) bool { return dil3.Verify(pk.(*dil3.PublicKey), c10Msg, sig) }},
		{pkg: "sign/dilithium/mode5",
			keygen: func() (mb, mb, []byte) {
				pk, sk := dil5.NewKeyFromSeed(seed("d5"))
				sig := make([]byte, dil5.SignatureSize)
				dil5.SignTo(sk, c10Msg, sig)
				return pk, sk, sig
			},
			unmPub: func(in []byte) (interface{}, error) {
				var pk dil5.PublicKey
				err := pk.UnmarshalBinary(in)
				return &pk, err
			},
			unmPriv: func(in []byte) error { var sk dil5.PrivateKey; return sk.UnmarshalBinary(in) },
			verify:  func(pk interface{}, sig []byte) bool { return dil5.Verify(pk.(*dil5.PublicKey), c10Msg, sig) }},
		{pkg: "sign/mldsa/mldsa44",
			keygen: func() (mb, mb, []byte) {
				pk, sk := mldsa44.NewKeyFromSeed(seed("m44"))
				sig := make([]byte, mldsa44.SignatureSize)
				c10Must(mldsa44.SignTo(sk, c10Msg, nil, false, sig))
				return pk, sk, sig
			},
			unmPub: func(in []byte) (interface{}, error) {
				var pk mldsa44.PublicKey
				err := pk.UnmarshalBinary(in)
				return &pk, err
			},
			unmPriv: func(in []byte) error { var sk mldsa44.PrivateKey; return sk.UnmarshalBinary(in) },
			verify: func(pk interface{}, sig []byte) bool {
				return mldsa44.Verify(pk.(*mldsa44.PublicKey), c10Msg, nil, sig)
			},
			verifyCx: func(pk interface{}, ctx, sig []byte) bool {
				return mldsa44.Verify(pk.(*mldsa44.PublicKey), c10Msg, ctx, sig)
			},
			sigCx: func() []byte {
				_, sk := mldsa44.NewKeyFromSeed(seed("m44"))
				sig := make([]byte, mldsa44.SignatureSize)
				c10Must(mldsa44.SignTo(sk, c10Msg, []byte(c10Ctx), false, sig))
				return sig
			}},
		{pkg: "sign/mldsa/mldsa65",
			keygen: func() (mb, mb, []byte) {
				pk, sk := mldsa65.NewKeyFromSeed(seed("m65"))
				sig := make([]byte, mldsa65.SignatureSize)
				c10Must(mldsa65.SignTo(sk, c10Msg, nil, false, sig))
				return pk, sk, sig
			},
			unmPub: func(in []byte) (interface{}, error) {
				var pk mldsa65.PublicKey
				err := pk.UnmarshalBinary(in)
				return &pk, err
			},
			unmPriv: func(in []byte) error { var sk mldsa65.PrivateKey; return sk.UnmarshalBinary(in) },
			verify: func(pk interface{}, sig []byte) bool {
				return mldsa65.Verify(pk.(*mldsa65.PublicKey), c10Msg, nil, sig)
			},
			verifyCx: func(pk interface{}, ctx, sig []byte) bool {
				return mldsa65.Verify(pk.(*mldsa65.PublicKey), c10Msg, ctx, sig)
			},
			sigCx: func() []byte {
				_, sk := mldsa65.NewKeyFromSeed(seed("m65"))
				sig := make([]byte, mldsa65.SignatureSize)
				c10Must(mldsa65.SignTo(sk, c10Msg, []byte(c10Ctx), false, sig))
				return sig
			}},
		{pkg: "sign/mldsa/mldsa87",
			keygen: func() (mb, mb, []byte) {
				pk, sk := mldsa87.NewKeyFromSeed(seed("m87"))
				sig := make([]byte, mldsa87.SignatureSize)
				c10Must(mldsa87.SignTo(sk, c10Msg, nil, false, sig))
				return pk, sk, sig
			},
			unmPub: func(in []byte) (interface{}, error) {
				var pk mldsa87.PublicKey
				err := pk.UnmarshalBinary(in)
				return &pk, err
			},
			unmPriv: func(in []byte) error { var sk mldsa87.PrivateKey; return sk.UnmarshalBinary(in) },
			verify: func(pk interface{}, sig []byte) bool {
				return mldsa87.Verify(pk.(*mldsa87.PublicKey), c10Msg, nil, sig)
			},
			verifyCx: func(pk interface{}, ctx, sig []byte) bool {
				return mldsa87.Verify(pk.(*mldsa87.PublicKey), c10Msg, ctx, sig)
			},
			sigCx: func() []byte {
				_, sk := mldsa87.NewKeyFromSeed(seed("m87"))
				sig := make([]byte, mldsa87.SignatureSize)
				c10Must(mldsa87.SignTo(sk, c10Msg, []byte(c10Ctx), false, sig))
				return sig
			}},
		{pkg: "sign/eddilithium2",
			keygen: func() (mb, mb, []byte) {
				pk, sk := eddilithium2.NewKeyFromSeed(seed("ed2"))
				sig := make([]byte, eddilithium2.SignatureSize)
				eddilithium2.SignTo(sk, c10Msg, sig)
				return pk, sk, sig
			},
			unmPub: func(in []byte) (interface{}, error) {
				var pk eddilithium2.PublicKey
				err := pk.UnmarshalBinary(in)
				return &pk, err
			},
			unmPriv: func(in []byte) error { var sk eddilithium2.PrivateKey; return sk.UnmarshalBinary(in) },
			verify: func(pk interface{}, sig []byte) bool {
				return eddilithium2.Verify(pk.(*eddilithium2.PublicKey), c10Msg, sig)
			}},
		{pkg: "sign/eddilithium3",
			keygen: func() (mb, mb, []byte) {
				var s3 [eddilithium3.SeedSize]byte
				copy(s3[:], c10Shake("lattice/ed3", len(s3)))
				pk, sk := eddilithium3.NewKeyFromSeed(&s3)
				sig := make([]byte, eddilithium3.SignatureSize)
				eddilithium3.SignTo(sk, c10Msg, sig)
				return pk, sk, sig
			},
			unmPub: func(in []byte) (interface{}, error) {
				var pk eddilithium3.PublicKey
				err := pk.UnmarshalBinary(in)
				return &pk, err
			},
			unmPriv: func(in []byte) error { var sk eddilithium3.PrivateKey; return sk.UnmarshalBinary(in) },
			verify: func(pk interface{}, sig []byte) bool {
				return eddilithium3.Verify(pk.(*eddilithium3.PublicKey), c10Msg, sig)
			}},
	}
	var rows []*kit.Row
	for _, l := range ls {
		l := l
		rows = append(rows, &kit.Row{Name: l.pkg + ".PublicKey.UnmarshalBinary(+Verify)", Cost: kit.Medium,
			Covers: []string{l.pkg + ".PublicKey.UnmarshalBinary", l.pkg + ".Verify"},
			Setup: func() *kit.Inst {
				pk, sk, sig := l.keygen()
				ppk, _ := pk.MarshalBinary()
				psk, _ := sk.MarshalBinary()
				return &kit.Inst{Bases: [][]byte{ppk},
					Call: func(in []byte) error {
						p, err := l.unmPub(in)
						if err != nil {
							return err
						}
						l.verify(p, sig)
						return nil
					},
					Extras: []kit.Named{{"private-key", psk}, {"signature", sig}}}
			}})
		rows = append(rows, &kit.Row{Name: l.pkg + ".PrivateKey.UnmarshalBinary", Cost: kit.Medium, Covers: []string{l.pkg + ".PrivateKey.UnmarshalBinary"},
			Setup: func() *kit.Inst {
				pk, sk, sig := l.keygen()
				ppk, _ := pk.MarshalBinary()
				psk, _ := sk.MarshalBinary()
				return &kit.Inst{Bases: [][]byte{psk}, Call: l.unmPriv, Extras: []kit.Named{{"public-key", ppk}, {"signature", sig}}}
			}})
		rows = append(rows, &kit.Row{Name: l.pkg + ".Verify#sig", Cost: kit.Medium, Covers: []string{l.pkg + ".Verify"},
			Setup: func() *kit.Inst {
				pk, sk, sig := l.keygen()
				ppk, _ := pk.MarshalBinary()
				psk, _ := sk.MarshalBinary()
				p, err := l.unmPub(ppk)
				c10Must(err)
				return &kit.Inst{Bases: [][]byte{sig}, Call: func(in []byte) error { return c10Bool(l.verify(p, in)) },
					Extras: append([]kit.Named{{"public-key", ppk}, {"private-key", psk}}, c10HintExtras(c10HintName(l.pkg), sig, c10HintTail(l.pkg))...)}
			}})
		if l.verifyCx != nil {
			rows = append(rows, &kit.Row{Name: l.pkg + ".Verify#ctx", Cost: kit.Medium, Covers: []string{l.pkg + ".Verify"},
				Setup: func() *kit.Inst {
					pk, _, _ := l.keygen()
					ppk, _ := pk.MarshalBinary()
					p, err := l.unmPub(ppk)
					c10Must(err)
					sig := l.sigCx()
					return &kit.Inst{Bases: [][]byte{[]byte(c10Ctx)}, Call: func(in []byte) error { return c10Bool(l.verifyCx(p, in, sig)) },
						Extras: c10CtxExtras()}
				}})
		}
	}
	return rows
}

func c10BlsRows[K bls.KeyGroup](g string) []*kit.Row {
	type keys struct {
		sk        *bls.PrivateKey[K]
		pk        *bls.PublicKey[K]
		sk2       *bls.PrivateKey[K]
		pk2       *bls.PublicKey[K]
		ppk, psk  []byte
		sig, sig2 []byte
		agg       []byte
	}
	mk := func() *keys {
		k := &keys{}
		var err error
		k.sk, err = bls.KeyGen[K](c10Shake("bls-ikm/"+g, 32), nil, nil)
		c10Must(err)
		k.sk2, err = bls.KeyGen[K](c10Shake("bls-ikm2/"+g, 32), nil, nil)
		c10Must(err)
		k.pk, k.pk2 = k.sk.PublicKey(), k.sk2.PublicKey()
		k.ppk, err = k.pk.MarshalBinary()
		c10Must(err)
		k.psk, err = k.sk.MarshalBinary()
		c10Must(err)
		k.sig = bls.Sign(k.sk, c10Msg)
		k.sig2 = bls.Sign(k.sk2, []byte("second message"))
		var zero K
		k.agg, err = bls.Aggregate(zero, []bls.Signature{k.sig, k.sig2})
		c10Must(err)
		return k
	}
	p := "sign/bls"
	n := "sign/bls[" + g + "]"
	return []*kit.Row{
		{Name: n + ".PublicKey.UnmarshalBinary(+Verify)", Cost: kit.Slow, Covers: []string{p + ".PublicKey.UnmarshalBinary", p + ".Verify"},
			Setup: func() *kit.Inst {
				k := mk()
				return &kit.Inst{Bases: [][]byte{k.ppk},
					Call: func(in []byte) error {
						var pk bls.PublicKey[K]
						if err := pk.UnmarshalBinary(in); err != nil {
							return err
						}
						bls.Verify(&pk, c10Msg, k.sig)
						return nil
					},
					Extras: []kit.Named{{"private-key", k.psk}, {"signature", k.sig}}}
			}},
		{Name: n + ".PrivateKey.UnmarshalBinary", Cost: kit.Cheap, Covers: []string{p + ".PrivateKey.UnmarshalBinary"},
			Setup: func() *kit.Inst {
				k := mk()
				return &kit.Inst{Bases: [][]byte{k.psk},
					Call:   func(in []byte) error { var sk bls.PrivateKey[K]; return sk.UnmarshalBinary(in) },
					Extras: []kit.Named{{"public-key", k.ppk}, {"signature", k.sig}}}
			}},
		{Name: n + ".Verify#sig", Cost: kit.Slow, Covers: []string{p + ".Verify"},
			Setup: func() *kit.Inst {
				k := mk()
				return &kit.Inst{Bases: [][]byte{k.sig}, Call: func(in []byte) error { return c10Bool(bls.Verify(k.pk, c10Msg, in)) },
					Extras: []kit.Named{{"public-key", k.ppk}, {"private-key", k.psk}}}
			}},
		{Name: n + ".VerifyAggregate#sig", Cost: kit.Slow, Covers: []string{p + ".VerifyAggregate"},
			Setup: func() *kit.Inst {
				k := mk()
				pubs := []*bls.PublicKey[K]{k.pk, k.pk2}
				msgs := [][]byte{c10Msg, []byte("second message")}
				return &kit.Inst{Bases: [][]byte{k.agg}, Call: func(in []byte) error { return c10Bool(bls.VerifyAggregate(pubs, msgs, in)) },
					Extras: []kit.Named{{"public-key", k.ppk}, {"single-signature", k.sig}}}
			}},
		{Name: n + ".Aggregate#sig", Cost: kit.Medium, Covers: []string{p + ".Aggregate"},
			Setup: func() *kit.Inst {
				k := mk()
				var zero K
				return &kit.Inst{Bases: [][]byte{k.sig},
					Call:   func(in []byte) error { _, err := bls.Aggregate(zero, []bls.Signature{k.sig2, in}); return err },
					Extras: []kit.Named{{"public-key", k.ppk}}}
			}},
	}
}

func c10RowsSign() []*kit.Row {
	rows := c10RowsSignSchemes()
	rows = append(rows, c10RowsEd()...)
	rows = append(rows, c10RowsLattice()...)
	rows = append(rows, c10BlsRows[bls.G1]("G1")...)
	rows = append(rows, c10BlsRows[bls.G2]("G2")...)
	return rows
}

func init() { c10Register("sign", c10RowsSign) }

func TestVerifC10_sign(t *testing.T) { c10Run(t, "sign") }
