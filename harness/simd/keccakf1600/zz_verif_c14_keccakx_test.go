//go:build verif

package keccakf1600_test

// C14 for simd/keccakf1600: StateX4.Permute and StateX2.Permute (24 and 12 rounds) on every single-bit
// state of every instance and on structured states, under each configuration. Back-ends of the 4-way
// permutation: f1600x4AVX2 (amd64 with AVX2), the scalar loop permuteScalarX4 (amd64 without AVX2,
// reached through IsEnabledX4() == false), and the purego fallback (permuteSIMDx4 = scalar loop while
// IsEnabledX4() still reports the CPU bit). The 2-way permutation has a SIMD back-end on arm64 only.

import (
	"encoding/binary"
	"fmt"
	"testing"

	"github.com/cloudflare/circl/internal/verifc14"
	"github.com/cloudflare/circl/internal/verifmc"
	"github.com/cloudflare/circl/simd/keccakf1600"
)

func c14Permute(L int, turbo bool, states [][25]uint64, rounds int) []uint64 {
	var a []uint64
	var x4 keccakf1600.StateX4
	var x2 keccakf1600.StateX2
	if L == 4 {
		a = x4.Initialize(turbo)
	} else {
		a = x2.Initialize(turbo)
	}
	for i := 0; i < L; i++ {
		for j := 0; j < 25; j++ {
			a[L*j+i] = states[i][j]
		}
	}
	for k := 0; k < rounds; k++ {
		if L == 4 {
			x4.Permute()
		} else {
			x2.Permute()
		}
	}
	return append([]uint64{}, a...)
}

func TestVerifC14_keccakx(t *testing.T) {
	c := verifc14.Start(t, "keccakx")
	x4 := "scalar-path"
	if keccakf1600.IsEnabledX4() {
		x4 = "x4-path-avx2-permutation"
		if verifc14.PuregoTag {
			x4 = "x4-path-scalar-permutation"
		}
	} else if verifc14.PuregoTag {
		x4 = "scalar-path"
	}
	c.Backend("simd/keccakf1600.IsEnabledX4 + build tag", x4, verifc14.X4Sel)
	x2 := "scalar"
	if keccakf1600.IsEnabledX2() {
		x2 = "simd"
	}
	c.Backend("simd/keccakf1600.IsEnabledX2", x2, func(verifc14.Features) string { return "scalar" }) // NEON only: never switches on amd64
	r := c.R
	r.Rule("for L in {2,4} and rounds in {24,12}: every single-bit state of every instance (1600*L, grouped per instance and 64-bit word), the zero / all-ones / one-instance-ones / lane-index states, " +
		"32 SHAKE states, each also permuted 3 times in a row; output = the whole interleaved state")
	r.NotExhaustive("declared state alphabet; the 2-way permutation has no second back-end on amd64 (arm64 NEON cannot be built here)")
	type job struct {
		L     int
		turbo bool
		inst  int
		word  int // -1: structured states
	}
	var jobs []job
	for _, L := range []int{4, 2} {
		for _, turbo := range []bool{false, true} {
			for inst := 0; inst < L; inst++ {
				for w := 0; w < 25; w++ {
					jobs = append(jobs, job{L, turbo, inst, w})
				}
			}
			jobs = append(jobs, job{L, turbo, 0, -1})
		}
	}
	verifmc.ParallelFor(len(jobs), func(ji int) {
		j := jobs[ji]
		tag := fmt.Sprintf("X%d/turbo=%v", j.L, j.turbo)
		if j.word >= 0 {
			c.Case(fmt.Sprintf("%s/single-bit#instance%d/word%d", tag, j.inst, j.word), func(d *verifc14.D) {
				for bit := 0; bit < 64; bit++ {
					s := make([][25]uint64, j.L)
					s[j.inst][j.word] = 1 << uint(bit)
					d.U64s(fmt.Sprintf("bit%d", bit), c14Permute(j.L, j.turbo, s, 1))
					d.Exec(1)
				}
			})
			return
		}
		c.Case(tag+"/structured#all", func(d *verifc14.D) {
			zero := func() [][25]uint64 { return make([][25]uint64, j.L) }
			var list []struct {
				name string
				s    [][25]uint64
			}
			add := func(name string, s [][25]uint64) {
				list = append(list, struct {
					name string
					s    [][25]uint64
				}{name, s})
			}
			add("zero", zero())
			s := zero()
			for i := range s {
				for k := range s[i] {
					s[i][k] = ^uint64(0)
				}
			}
			add("ones", s)
			for inst := 0; inst < j.L; inst++ {
				s = zero()
				for k := range s[inst] {
					s[inst][k] = ^uint64(0)
				}
				add(fmt.Sprintf("ones/%d", inst), s)
			}
			s = zero()
			for i := range s {
				for k := range s[i] {
					s[i][k] = uint64(i+1)*0x0101010101010101 ^ uint64(k)<<32 ^ uint64(k)
				}
			}
			add("laneindex", s)
			for k := 0; k < 32; k++ {
				raw := verifmc.Shake(fmt.Sprintf("c14-keccakx-%d", k), 200*j.L)
				s = zero()
				for i := range s {
					for w := range s[i] {
						s[i][w] = binary.LittleEndian.Uint64(raw[200*i+8*w:])
					}
				}
				add(fmt.Sprintf("shake%d", k), s)
			}
			for _, e := range list {
				d.U64s(e.name, c14Permute(j.L, j.turbo, e.s, 1))
				d.U64s(e.name+".x3", c14Permute(j.L, j.turbo, e.s, 3))
				d.Exec(4)
			}
		})
	})
	c.Finish(300)
}
