//go:build verif

package keccakf1600_test

// C15 (lane permutations, exported API only): StateX2/StateX4.Permute (24 and 12 rounds) equal
// the scalar sha3.KeccakF1600 on each lane, and the scalar permutation equals Keccak-p[1600,nr]
// of ref/keccak, on every single-bit state of every lane and on structured states. The direct
// calls of the unexported scalar fall-backs are a separate in-package unit (lanes_fallback).

import (
	"fmt"
	"os"
	"testing"
	"unsafe"

	"github.com/cloudflare/circl/internal/sha3"
	"github.com/cloudflare/circl/internal/verifmc"
	"github.com/cloudflare/circl/internal/verifref/c15hist"
	"github.com/cloudflare/circl/internal/verifref/keccak"
	"github.com/cloudflare/circl/simd/keccakf1600"
)

func TestVerifC15_lanes(t *testing.T) {
	if os.Getenv("VERIF_CONFIG") == "appengine" {
		t.Skip("appengine only switches the sponge's xor back-end; the permutations are unaffected")
	}
	r := verifmc.Start(t, "C15", "lanes")
	defer r.Finish()
	if err := keccak.SelfTest(); err != nil {
		t.Fatal(err)
	}
	r.Rule("for lanes in {2,4} and rounds in {24,12}: every state with a single bit set in one instance (1600 x lanes), zero, all-ones (all / one instance), " +
		"lane-index pattern, 32 fixed pseudo-random states; three successive Permute calls; each instance compared with scalar sha3.KeccakF1600 and with " +
		"ref/keccak Keccak-p; objects placed at all four 32-byte alignment classes; non-trivial = distinct (lanes, rounds, state)")
	r.Set("IsEnabledX4", keccakf1600.IsEnabledX4())
	r.Set("IsEnabledX2", keccakf1600.IsEnabledX2())
	for _, L := range []int{4, 2} {
		cases := c15hist.LaneCases(L)
		r.Set(fmt.Sprintf("states_x%d", L), len(cases))
		for _, turbo := range []bool{false, true} {
			nr := 24
			if turbo {
				nr = 12
			}
			entry := fmt.Sprintf("keccakf1600.StateX%d.Permute", L)
			var coll c15hist.Collector
			verifmc.ParallelFor(len(cases), func(ci int) {
				c := cases[ci]
				id := fmt.Sprintf("x%d/nr=%d/%s", L, nr, c.ID)
				if !r.Want(id) {
					return
				}
				r.Distinct(id)
				scalar := make([][25]uint64, L)
				spec := make([][25]uint64, L)
				copy(scalar, c.States)
				copy(spec, c.States)
				// real objects: consecutive array elements fall into all four 32-byte alignment classes
				var x4 [4]keccakf1600.StateX4
				var x2 [4]keccakf1600.StateX2
				var bufs [4][]uint64
				for k := 0; k < 4; k++ {
					if L == 4 {
						bufs[k] = x4[k].Initialize(turbo)
						r.Count(fmt.Sprintf("x4_object_alignment_class_%d", (uintptr(unsafe.Pointer(&x4[k]))&31)>>3), 1)
					} else {
						bufs[k] = x2[k].Initialize(turbo)
						r.Count(fmt.Sprintf("x2_object_alignment_class_%d", (uintptr(unsafe.Pointer(&x2[k]))&31)>>3), 1)
					}
					if len(bufs[k]) != 25*L {
						coll.Add(ci, 0, "C15|"+entry+"|initialize-length", id, fmt.Sprintf("Initialize returned %d words", len(bufs[k])), nil)
						return
					}
					for i := 0; i < L; i++ {
						for j := 0; j < 25; j++ {
							bufs[k][L*j+i] = c.States[i][j]
						}
					}
				}
				for step := 1; step <= 3; step++ {
					for i := 0; i < L; i++ {
						sha3.KeccakF1600(&scalar[i], turbo)
						keccak.P1600(&spec[i], nr)
						r.Eval(1)
						if scalar[i] != spec[i] {
							coll.Add(ci, 0, fmt.Sprintf("C15|sha3.KeccakF1600|differs-from-spec|nr=%d|%s", nr, c.Class), id,
								fmt.Sprintf("%s: scalar permutation differs from Keccak-p[1600,%d] after %d applications (instance %d)", id, nr, step, i),
								map[string]interface{}{"case": id})
							return
						}
					}
					for k := 0; k < 4; k++ {
						p, what := verifmc.Try(func() {
							if L == 4 {
								x4[k].Permute()
							} else {
								x2[k].Permute()
							}
						})
						r.Eval(1)
						if p {
							coll.Add(ci, 0, "C15|"+entry+"|panic:"+verifmc.PanicClass(what), id, id+": "+what, nil)
							return
						}
						for i := 0; i < L; i++ {
							for j := 0; j < 25; j++ {
								if bufs[k][L*j+i] != scalar[i][j] {
									coll.Add(ci, 0, fmt.Sprintf("C15|%s|lane-differs-from-scalar|nr=%d|%s", entry, nr, c.Class), id,
										fmt.Sprintf("%s: after %d Permute calls instance %d word %d = %016x, scalar KeccakF1600 gives %016x (object %d of 4)",
											id, step, i, j, bufs[k][L*j+i], scalar[i][j], k),
										map[string]interface{}{"case": id, "lanes": L, "rounds": nr})
									return
								}
							}
						}
					}
				}
				if ci == 77 || ci == len(cases)-1 {
					r.Sample(map[string]interface{}{"case": id, "class": c.Class})
				}
			})
			coll.Flush(r)
		}
	}
	for k := 0; k < 4; k++ {
		r.RequireCounter(fmt.Sprintf("x4_object_alignment_class_%d", k), 100)
	}
}
