//go:build verif

package keccakf1600

// C15 (lane permutations): StateX2/StateX4.Permute (24 and 12 rounds) equal the scalar
// sha3.KeccakF1600 on each lane, and the scalar permutation equals Keccak-p[1600,nr] of
// ref/keccak, on every single-bit state of every lane and on structured states.
// In-package only to read the alignment offset and to call the scalar fall-backs directly.

import (
	"fmt"
	"os"
	"testing"

	"github.com/cloudflare/circl/internal/sha3"
	"github.com/cloudflare/circl/internal/verifmc"
	"github.com/cloudflare/circl/internal/verifref/c15hist"
	"github.com/cloudflare/circl/internal/verifref/keccak"
)

type c15LaneCase struct {
	id     string
	class  string
	states [][25]uint64 // one per instance
}

func c15LaneCases(L int) []c15LaneCase {
	var cs []c15LaneCase
	zero := func() [][25]uint64 { return make([][25]uint64, L) }
	for inst := 0; inst < L; inst++ {
		for bit := 0; bit < 1600; bit++ {
			s := zero()
			s[inst][bit/64] = 1 << uint(bit%64)
			cs = append(cs, c15LaneCase{fmt.Sprintf("bit/%d/%d", inst, bit), "single-bit", s})
		}
	}
	s := zero()
	cs = append(cs, c15LaneCase{"zero", "zero", s})
	s = zero()
	for i := range s {
		for j := range s[i] {
			s[i][j] = ^uint64(0)
		}
	}
	cs = append(cs, c15LaneCase{"ones", "all-ones", s})
	for inst := 0; inst < L; inst++ {
		s = zero()
		for j := range s[inst] {
			s[inst][j] = ^uint64(0)
		}
		cs = append(cs, c15LaneCase{fmt.Sprintf("ones/%d", inst), "all-ones-one-instance", s})
	}
	s = zero()
	for i := range s {
		for j := range s[i] {
			s[i][j] = uint64(i+1)*0x0101010101010101 ^ uint64(j)<<32 ^ uint64(j)
		}
	}
	cs = append(cs, c15LaneCase{"laneindex", "lane-index-pattern", s})
	for k := 0; k < 32; k++ {
		raw := verifmc.Shake(fmt.Sprintf("c15-lanes-%d", k), 200*L)
		s = zero()
		for i := range s {
			for j := range s[i] {
				for b := 0; b < 8; b++ {
					s[i][j] |= uint64(raw[200*i+8*j+b]) << uint(8*b)
				}
			}
		}
		cs = append(cs, c15LaneCase{fmt.Sprintf("shake/%d", k), "pseudo-random", s})
	}
	return cs
}

func TestVerifC15_lanes(t *testing.T) {
	if os.Getenv("VERIF_CONFIG") == "appengine" {
		t.Skip("appengine only switches the sponge's xor back-end; the permutations are unaffected")
	}
	r := verifmc.Start(t, "C15", "lanes")
	defer r.Finish()
	if err := keccak.SelfTest(); err != nil {
		t.Fatal(err)
	}
	r.Rule("for lanes in {2,4} and rounds in {24,12}: every state with a single bit set in one instance (1600 x lanes), zero, all-ones (all / one instance), " +
		"lane-index pattern, 32 fixed pseudo-random states; three successive Permute calls; each instance compared with scalar sha3.KeccakF1600 and with " +
		"ref/keccak Keccak-p; also permuteScalarX2/X4 directly; states placed at all four 32-byte alignment classes; non-trivial = distinct (lanes, rounds, state)")
	r.Set("IsEnabledX4", IsEnabledX4())
	r.Set("IsEnabledX2", IsEnabledX2())
	for _, L := range []int{4, 2} {
		cases := c15LaneCases(L)
		r.Set(fmt.Sprintf("states_x%d", L), len(cases))
		for _, turbo := range []bool{false, true} {
			nr := 24
			if turbo {
				nr = 12
			}
			entry := fmt.Sprintf("keccakf1600.StateX%d.Permute", L)
			var coll c15hist.Collector
			verifmc.ParallelFor(len(cases), func(ci int) {
				c := cases[ci]
				id := fmt.Sprintf("x%d/nr=%d/%s", L, nr, c.id)
				if !r.Want(id) {
					return
				}
				r.Distinct(id)
				// expected after 1, 2, 3 permutations: scalar and spec
				scalar := make([][25]uint64, L)
				spec := make([][25]uint64, L)
				copy(scalar, c.states)
				copy(spec, c.states)
				// real objects at all four alignment classes
				var x4 [4]StateX4
				var x2 [4]StateX2
				var bufs [4][]uint64
				for k := 0; k < 4; k++ {
					if L == 4 {
						bufs[k] = x4[k].Initialize(turbo)
						r.Count(fmt.Sprintf("x4_alignment_offset_%d", x4[k].offset), 1)
					} else {
						bufs[k] = x2[k].Initialize(turbo)
						r.Count(fmt.Sprintf("x2_alignment_offset_%d", x2[k].offset), 1)
					}
					if len(bufs[k]) != 25*L {
						coll.Add(ci, 0, "C15|"+entry+"|initialize-length", id, fmt.Sprintf("Initialize returned %d words", len(bufs[k])), nil)
						return
					}
					for i := 0; i < L; i++ {
						for j := 0; j < 25; j++ {
							bufs[k][L*j+i] = c.states[i][j]
						}
					}
				}
				direct := make([]uint64, 25*L) // scalar fall-back called directly
				copy(direct, bufs[0])
				for step := 1; step <= 3; step++ {
					for i := 0; i < L; i++ {
						sha3.KeccakF1600(&scalar[i], turbo)
						keccak.P1600(&spec[i], nr)
						r.Eval(1)
						if scalar[i] != spec[i] {
							coll.Add(ci, 0, fmt.Sprintf("C15|sha3.KeccakF1600|differs-from-spec|nr=%d|%s", nr, c.class), id,
								fmt.Sprintf("%s: scalar permutation differs from Keccak-p[1600,%d] after %d applications (instance %d)", id, nr, step, i),
								map[string]interface{}{"case": id})
							return
						}
					}
					for k := 0; k < 4; k++ {
						p, what := verifmc.Try(func() {
							if L == 4 {
								x4[k].Permute()
							} else {
								x2[k].Permute()
							}
						})
						r.Eval(1)
						if p {
							coll.Add(ci, 0, "C15|"+entry+"|panic:"+verifmc.PanicClass(what), id, id+": "+what, nil)
							return
						}
						for i := 0; i < L; i++ {
							for j := 0; j < 25; j++ {
								if bufs[k][L*j+i] != scalar[i][j] {
									coll.Add(ci, 0, fmt.Sprintf("C15|%s|lane-differs-from-scalar|nr=%d|%s", entry, nr, c.class), id,
										fmt.Sprintf("%s: after %d Permute calls instance %d word %d = %016x, scalar KeccakF1600 gives %016x (alignment class %d)",
											id, step, i, j, bufs[k][L*j+i], scalar[i][j], k),
										map[string]interface{}{"case": id, "lanes": L, "rounds": nr})
									return
								}
							}
						}
					}
					if L == 4 {
						permuteScalarX4(direct, turbo)
					} else {
						permuteScalarX2(direct, turbo)
					}
					r.Eval(1)
					for i := 0; i < L; i++ {
						for j := 0; j < 25; j++ {
							if direct[L*j+i] != scalar[i][j] {
								coll.Add(ci, 0, fmt.Sprintf("C15|keccakf1600.permuteScalarX%d|lane-differs-from-scalar|nr=%d|%s", L, nr, c.class), id,
									fmt.Sprintf("%s: fall-back differs from scalar at instance %d word %d after %d applications", id, i, j, step), nil)
								return
							}
						}
					}
				}
				if ci == 77 || ci == len(cases)-1 {
					r.Sample(map[string]interface{}{"case": id, "class": c.class})
				}
			})
			coll.Flush(r)
		}
	}
	for k := 0; k < 4; k++ {
		r.RequireCounter(fmt.Sprintf("x4_alignment_offset_%d", k), 100)
	}
}
