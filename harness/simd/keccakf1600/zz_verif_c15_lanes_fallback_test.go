//go:build verif

package keccakf1600

// C15 (lane permutations, internals-only): the unexported scalar fall-backs permuteScalarX2 /
// permuteScalarX4 (used when the CPU lacks the SIMD unit) called directly, so that they are
// checked even in configurations where Permute dispatches to the assembly. One concern, no
// shared helpers: if the functions are renamed this file is left out and the unit `lanes`
// still covers them under cpu.avx2=off / purego through the exported Permute.

import (
	"fmt"
	"os"
	"testing"

	"github.com/cloudflare/circl/internal/sha3"
	"github.com/cloudflare/circl/internal/verifmc"
	"github.com/cloudflare/circl/internal/verifref/c15hist"
)

func TestVerifC15_lanes_fallback(t *testing.T) {
	if os.Getenv("VERIF_CONFIG") == "appengine" {
		t.Skip("appengine only switches the sponge's xor back-end; the permutations are unaffected")
	}
	r := verifmc.Start(t, "C15", "lanes_fallback")
	defer r.Finish()
	r.Rule("permuteScalarX2 / permuteScalarX4 called directly, 24 and 12 rounds, three successive applications, on the lane state set of unit lanes; " +
		"each instance compared with scalar sha3.KeccakF1600; non-trivial = distinct (lanes, rounds, state)")
	for _, L := range []int{4, 2} {
		cases := c15hist.LaneCases(L)
		for _, turbo := range []bool{false, true} {
			nr := 24
			if turbo {
				nr = 12
			}
			var coll c15hist.Collector
			verifmc.ParallelFor(len(cases), func(ci int) {
				c := cases[ci]
				id := fmt.Sprintf("scalar-x%d/nr=%d/%s", L, nr, c.ID)
				if !r.Want(id) {
					return
				}
				r.Distinct(id)
				scalar := make([][25]uint64, L)
				copy(scalar, c.States)
				direct := make([]uint64, 25*L)
				for i := 0; i < L; i++ {
					for j := 0; j < 25; j++ {
						direct[L*j+i] = c.States[i][j]
					}
				}
				for step := 1; step <= 3; step++ {
					for i := 0; i < L; i++ {
						sha3.KeccakF1600(&scalar[i], turbo)
					}
					if L == 4 {
						permuteScalarX4(direct, turbo)
					} else {
						permuteScalarX2(direct, turbo)
					}
					r.Eval(1)
					for i := 0; i < L; i++ {
						for j := 0; j < 25; j++ {
							if direct[L*j+i] != scalar[i][j] {
								coll.Add(ci, 0, fmt.Sprintf("C15|keccakf1600.permuteScalarX%d|lane-differs-from-scalar|nr=%d|%s", L, nr, c.Class), id,
									fmt.Sprintf("%s: fall-back differs from scalar at instance %d word %d after %d applications", id, i, j, step), nil)
								return
							}
						}
					}
				}
			})
			coll.Flush(r)
		}
	}
	r.Sample(map[string]interface{}{"case": "scalar-x4/nr=12/ones"})
}
