//go:build verif

package circl_test

// C10 registry rows, family "misc": threshold RSA shares, (partially) blind RSA, Ascon AEAD open,
// typed ML-KEM / X-Wing / Kyber-PKE key unpacking.

import (
	"crypto"
	stdrsa "crypto/rsa"
	"crypto/x509"
	"encoding/binary"
	"encoding/pem"
	"errors"
	"fmt"
	"math/big"
	"os"
	"path/filepath"
	"strings"
	"testing"

	"github.com/cloudflare/circl/blindsign/blindrsa"
	pbrsa "github.com/cloudflare/circl/blindsign/blindrsa/partiallyblindrsa"
	"github.com/cloudflare/circl/cipher/ascon"
	"github.com/cloudflare/circl/internal/verifmc"
	kit "github.com/cloudflare/circl/internal/verifref/c10kit"
	"github.com/cloudflare/circl/kem/mlkem/mlkem1024"
	"github.com/cloudflare/circl/kem/mlkem/mlkem512"
	"github.com/cloudflare/circl/kem/mlkem/mlkem768"
	"github.com/cloudflare/circl/kem/xwing"
	"github.com/cloudflare/circl/pke/kyber/kyber1024"
	"github.com/cloudflare/circl/pke/kyber/kyber512"
	"github.com/cloudflare/circl/pke/kyber/kyber768"
	tssrsa "github.com/cloudflare/circl/tss/rsa"
)

var errC10MiscLen = errors.New("c10: documented length precondition not met (guarded in the row)")

func c10MiscTestdata(name string) []byte {
	dir := os.Getenv("VERIF_DIR")
	if dir == "" {
		dir = "/verif"
	}
	b, err := os.ReadFile(filepath.Join(dir, "ref", "testdata", name))
	c10Must(err)
	return b
}

// c10MiscRSAKey loads one of the fixed PKCS#1 RSA fixtures.
func c10MiscRSAKey(name string) *stdrsa.PrivateKey {
	blk, _ := pem.Decode(c10MiscTestdata(name))
	if blk == nil {
		panic("c10 setup: no PEM block in " + name)
	}
	k, err := x509.ParsePKCS1PrivateKey(blk.Bytes)
	c10Must(err)
	return k
}

// c10MiscSafePrimeKey builds a two-prime RSA key from lines i and j (0-based) of safe_primes.txt.
func c10MiscSafePrimeKey(i, j int) *stdrsa.PrivateKey {
	lines := strings.Fields(string(c10MiscTestdata("safe_primes.txt")))
	p, ok1 := new(big.Int).SetString(lines[i], 16)
	q, ok2 := new(big.Int).SetString(lines[j], 16)
	if !ok1 || !ok2 {
		panic("c10 setup: bad safe prime fixture")
	}
	one := big.NewInt(1)
	phi := new(big.Int).Mul(new(big.Int).Sub(p, one), new(big.Int).Sub(q, one))
	d := new(big.Int).ModInverse(big.NewInt(65537), phi)
	if d == nil {
		panic("c10 setup: e not invertible")
	}
	return &stdrsa.PrivateKey{PublicKey: stdrsa.PublicKey{N: new(big.Int).Mul(p, q), E: 65537}, D: d, Primes: []*big.Int{p, q}}
}

func c10MiscCat(x ...[]byte) []byte {
	var o []byte
	for _, y := range x {
		o = append(o, y...)
	}
	return o
}

func c10MiscU16(v int) []byte {
	var b [2]byte
	binary.BigEndian.PutUint16(b[:], uint16(v))
	return b[:]
}

// ---------------------------------------------------------------------------------------------
// tss/rsa

type c10MiscTss struct {
	key      *stdrsa.PrivateKey
	digest   []byte
	ks, ksC  [][]byte // marshalled key shares without / with the cached 2*delta*s_i
	ss       [][]byte // marshalled signature shares of players 1..3
	honest   tssrsa.SignShare
	shareObj []tssrsa.SignShare
}

func c10MiscTssSetup() *c10MiscTss {
	t := &c10MiscTss{key: c10MiscRSAKey("rsa_1024.pem")}
	var err error
	t.digest, err = tssrsa.PadHash(tssrsa.PKCS1v15Padder{}, crypto.SHA256, &t.key.PublicKey, c10Msg)
	c10Must(err)
	for _, cache := range []bool{false, true} {
		// crypto/rand.Int on a deterministic reader is deterministic (no MaybeReadByte on that path)
		shares, err := tssrsa.Deal(verifmc.NewDetReader("c10/misc/tss-deal"), 3, 2, t.key, cache)
		c10Must(err)
		for i := range shares {
			b, err := shares[i].MarshalBinary()
			c10Must(err)
			if cache {
				t.ksC = append(t.ksC, b)
			} else {
				t.ks = append(t.ks, b)
				s, err := shares[i].Sign(nil, &t.key.PublicKey, t.digest, false)
				c10Must(err)
				sb, err := s.MarshalBinary()
				c10Must(err)
				t.ss = append(t.ss, sb)
				t.shareObj = append(t.shareObj, s)
			}
		}
	}
	t.honest = t.shareObj[0]
	return t
}

// c10MiscLenExtras: inputs whose 16-bit length field L is close to 0xFFFF and whose body is long enough to
// pass the (truncating) uint16(len(rest)) >= L test; pre = bytes before the length field, post(n) = body.
func c10MiscLenExtras(tag string, pre []byte) []kit.Named {
	var ex []kit.Named
	body := c10Shake("misc/longbody", 0x20010)
	for i := range body {
		body[i] |= 1 // no zero bytes: every "is nil" flag read from the body is set
	}
	for _, l := range []int{0xFFF8, 0x7FFF, 0x8000, 0xFFF0, 0xFFF4, 0xFFF5, 0xFFF6, 0xFFF7, 0xFFF9, 0xFFFC, 0xFFFD, 0xFFFE, 0xFFFF} {
		for _, bl := range []int{l, l - 1, l + 1, l + 2, l + 3, l + 4, l + 8, 0x10000, 0x10000 + l, 0x10000 + l + 3} {
			ex = append(ex, kit.Named{Name: fmt.Sprintf("%s:len=%#x,body=%#x", tag, l, bl), Data: c10MiscCat(pre, c10MiscU16(l), body[:bl])})
		}
	}
	return ex
}

func c10RowsMiscTss() []*kit.Row {
	hdr := []byte{0, 3, 0, 2, 0, 1} // players 3, threshold 2, index 1
	return []*kit.Row{
		{Name: "tss/rsa.KeyShare.UnmarshalBinary", Covers: []string{"tss/rsa.KeyShare.UnmarshalBinary"}, Cost: kit.Cheap,
			Setup: func() *kit.Inst {
				t := c10MiscTssSetup()
				ex := []kit.Named{{"sign-share", t.ss[0]}}
				ex = append(ex, c10MiscLenExtras("siLen", hdr)...)
				// second length field (twoDeltaSiLen) after a 1-byte si and a set flag
				ex = append(ex, c10MiscLenExtras("twoDeltaSiLen", c10MiscCat(hdr, c10MiscU16(1), []byte{5, 1}))...)
				// si of 0xFFF7 / 0xFFF6 / 0xFFF5 bytes, flag set, then a second length field: offsets 8+siLen+{1,3} wrap
				for _, l := range []int{0xFFF4, 0xFFF5, 0xFFF6, 0xFFF7} {
					si := c10Shake("misc/si", l)
					for _, l2 := range []int{0, 1, 3, 0xFFFF} {
						for _, tail := range []int{0, 1, 3, 16} {
							ex = append(ex, kit.Named{Name: fmt.Sprintf("siLen=%#x,flag,len2=%#x,tail=%d", l, l2, tail),
								Data: c10MiscCat(hdr, c10MiscU16(l), si, []byte{1}, c10MiscU16(l2), c10Shake("misc/tail", tail))})
						}
					}
				}
				return &kit.Inst{Bases: [][]byte{t.ks[0], t.ksC[1]},
					Call:   func(in []byte) error { var k tssrsa.KeyShare; return k.UnmarshalBinary(in) },
					Extras: ex}
			}},
		{Name: "tss/rsa.SignShare.UnmarshalBinary", Covers: []string{"tss/rsa.SignShare.UnmarshalBinary"}, Cost: kit.Cheap,
			Setup: func() *kit.Inst {
				t := c10MiscTssSetup()
				ex := []kit.Named{{"key-share", t.ks[1]}}
				ex = append(ex, c10MiscLenExtras("xiLen", hdr)...)
				return &kit.Inst{Bases: [][]byte{t.ss[1], t.ss[2]},
					Call:   func(in []byte) error { var s tssrsa.SignShare; return s.UnmarshalBinary(in) },
					Extras: ex}
			}},
		{Name: "tss/rsa.SignShare.UnmarshalBinary(+CombineSignShares)", Cost: kit.Slow,
			Covers: []string{"tss/rsa.SignShare.UnmarshalBinary", "tss/rsa.CombineSignShares"},
			Note:   "the accepted share is combined with the honest share of player 1 (threshold 2 of 3); CombineSignShares returns an error for unusable shares",
			Setup: func() *kit.Inst {
				t := c10MiscTssSetup()
				// (hostile length fields are in the parse-only row)
				// the honest share of player 3 is not a base: CombineSignShares rejects the subset {1,3} ("rsa: internal
				// error", computeLambda divides before multiplying by delta) - a functional defect outside this property
				ex := []kit.Named{{"key-share", t.ks[1]}, {"share-of-player-1-again", t.ss[0]}, {"share-of-player-3", t.ss[2]},
					{"xi-of-32767-bytes", c10MiscCat(hdr, c10MiscU16(0x7FFF), c10Shake("misc/longxi", 0x7FFF))},
					{"xi=0", c10MiscCat([]byte{0, 3, 0, 2, 0, 2}, c10MiscU16(1), []byte{0})},
					{"xi=N", c10MiscCat([]byte{0, 3, 0, 2, 0, 2}, c10MiscU16(128), t.key.N.Bytes())},
					{"xi=p", c10MiscCat([]byte{0, 3, 0, 2, 0, 2}, c10MiscU16(64), t.key.Primes[0].Bytes())}}
				return &kit.Inst{Bases: [][]byte{t.ss[1]},
					Call: func(in []byte) error {
						var s tssrsa.SignShare
						if err := s.UnmarshalBinary(in); err != nil {
							return err
						}
						_, err := tssrsa.CombineSignShares(&t.key.PublicKey, []tssrsa.SignShare{t.honest, s}, t.digest)
						return err
					},
					Extras: ex}
			}},
	}
}

// ---------------------------------------------------------------------------------------------
// blindsign/blindrsa

type c10MiscBrsa struct {
	client             blindrsa.Client
	verifier           blindrsa.Verifier
	signer             blindrsa.Signer
	prepared           []byte
	blinded, blindSig  []byte
	sig                []byte
	state              blindrsa.State
	blinded2, blindSg2 []byte
	sig2               []byte
}

func c10MiscBrsaSetup(keyFile string, v blindrsa.Variant) *c10MiscBrsa {
	key := c10MiscRSAKey(keyFile)
	b := &c10MiscBrsa{}
	var err error
	b.client, err = blindrsa.NewClient(v, &key.PublicKey)
	c10Must(err)
	b.verifier, err = blindrsa.NewVerifier(v, &key.PublicKey)
	c10Must(err)
	b.signer = blindrsa.NewSigner(key)
	rd := verifmc.NewDetReader("c10/misc/brsa/" + keyFile + "/" + v.String())
	b.prepared, err = b.client.Prepare(rd, c10Msg)
	c10Must(err)
	b.blinded, b.state, err = b.client.Blind(rd, b.prepared)
	c10Must(err)
	b.blindSig, err = b.signer.BlindSign(b.blinded)
	c10Must(err)
	b.sig, err = b.client.Finalize(b.state, b.blindSig)
	c10Must(err)
	c10Must(b.client.Verify(b.prepared, b.sig))
	// a second signature on the same prepared message (other salt / blind)
	var st2 blindrsa.State
	b.blinded2, st2, err = b.client.Blind(rd, b.prepared)
	c10Must(err)
	b.blindSg2, err = b.signer.BlindSign(b.blinded2)
	c10Must(err)
	b.sig2, err = b.client.Finalize(st2, b.blindSg2)
	c10Must(err)
	return b
}

func c10RowsMiscBrsa() []*kit.Row {
	var rows []*kit.Row
	type vk struct {
		key string
		v   blindrsa.Variant
	}
	for _, c := range []vk{{"rsa_2048.pem", blindrsa.SHA384PSSDeterministic}, {"rsa_2048.pem", blindrsa.SHA384PSSZeroDeterministic},
		{"rsa_1025.pem", blindrsa.SHA384PSSDeterministic}, {"rsa_1031.pem", blindrsa.SHA384PSSZeroRandomized}} {
		c := c
		tag := "[" + strings.TrimSuffix(c.key, ".pem") + "," + c.v.String() + "]"
		rows = append(rows, &kit.Row{Name: "blindsign/blindrsa.Verifier.Verify#sig" + tag, Cost: kit.Medium,
			Covers: []string{"blindsign/blindrsa.Verifier.Verify"},
			Setup: func() *kit.Inst {
				b := c10MiscBrsaSetup(c.key, c.v)
				return &kit.Inst{Bases: [][]byte{b.sig, b.sig2},
					Call:   func(in []byte) error { return b.verifier.Verify(b.prepared, in) },
					Extras: []kit.Named{{"blinded-signature", b.blindSig}, {"blinded-message", b.blinded}}}
			}})
	}
	rows = append(rows,
		&kit.Row{Name: "blindsign/blindrsa.Client.Verify#sig[rsa_2048,Randomized]", Cost: kit.Medium, Covers: []string{"blindsign/blindrsa.Client.Verify"},
			Setup: func() *kit.Inst {
				b := c10MiscBrsaSetup("rsa_2048.pem", blindrsa.SHA384PSSRandomized)
				return &kit.Inst{Bases: [][]byte{b.sig, b.sig2},
					Call:   func(in []byte) error { return b.client.Verify(b.prepared, in) },
					Extras: []kit.Named{{"blinded-signature", b.blindSig}, {"blinded-message", b.blinded}}}
			}},
		&kit.Row{Name: "blindsign/blindrsa.Client.Finalize#blindSig[rsa_2048]", Cost: kit.Medium, Covers: []string{"blindsign/blindrsa.Client.Finalize"},
			Setup: func() *kit.Inst {
				b := c10MiscBrsaSetup("rsa_2048.pem", blindrsa.SHA384PSSDeterministic)
				return &kit.Inst{Bases: [][]byte{b.blindSig},
					Call:   func(in []byte) error { _, err := b.client.Finalize(b.state, in); return err },
					Extras: []kit.Named{{"final-signature", b.sig}, {"blinded-message", b.blinded}, {"other-blinded-signature", b.blindSg2}}}
			}},
		&kit.Row{Name: "blindsign/blindrsa.Client.Finalize#blindSig[rsa_1025]", Cost: kit.Medium, Covers: []string{"blindsign/blindrsa.Client.Finalize"},
			Setup: func() *kit.Inst {
				b := c10MiscBrsaSetup("rsa_1025.pem", blindrsa.SHA384PSSZeroDeterministic)
				return &kit.Inst{Bases: [][]byte{b.blindSig},
					Call:   func(in []byte) error { _, err := b.client.Finalize(b.state, in); return err },
					Extras: []kit.Named{{"final-signature", b.sig}, {"blinded-message", b.blinded}}}
			}},
		&kit.Row{Name: "blindsign/blindrsa.Signer.BlindSign#blindedMsg[rsa_1024]", Cost: kit.Slow, Covers: []string{"blindsign/blindrsa.Signer.BlindSign"},
			Note: "every integer below N of the right length is signable, so most same-length alterations are accepted; " +
				"BlindSign draws its blinding factor from crypto/rand internally, the result does not depend on it",
			Setup: func() *kit.Inst {
				b := c10MiscBrsaSetup("rsa_1024.pem", blindrsa.SHA384PSSDeterministic)
				key := c10MiscRSAKey("rsa_1024.pem")
				nb := key.N.FillBytes(make([]byte, (key.N.BitLen()+7)/8))
				nm1 := new(big.Int).Sub(key.N, big.NewInt(1)).FillBytes(make([]byte, len(nb)))
				np1 := new(big.Int).Add(key.N, big.NewInt(1)).FillBytes(make([]byte, len(nb)))
				return &kit.Inst{Bases: [][]byte{b.blinded},
					Call: func(in []byte) error { _, err := b.signer.BlindSign(in); return err },
					Extras: []kit.Named{{"N", nb}, {"N-1", nm1}, {"N+1", np1}, {"p", key.Primes[0].FillBytes(make([]byte, len(nb)))},
						{"signature", b.sig}}}
			}},
	)
	return rows
}

// ---------------------------------------------------------------------------------------------
// blindsign/blindrsa/partiallyblindrsa

type c10MiscPb struct {
	key               *stdrsa.PrivateKey
	v                 pbrsa.Verifier
	signer            pbrsa.Signer
	md                []byte
	blinded, blindSig []byte
	sig               []byte
	state             pbrsa.VerifierState
}

var c10MiscMetadata = []byte("verif C10 metadata")

func c10MiscPbSetup() *c10MiscPb {
	p := &c10MiscPb{key: c10MiscSafePrimeKey(0, 1), md: c10MiscMetadata}
	p.v = pbrsa.NewVerifier(&p.key.PublicKey, crypto.SHA384)
	var err error
	p.signer, err = pbrsa.NewSigner(p.key, crypto.SHA384)
	c10Must(err)
	// Verifier.Blind takes its salt from crypto/rand: use FixedBlind with derived values instead
	salt := c10Shake("misc/pb-salt", 48)
	r := new(big.Int).SetBytes(c10Shake("misc/pb-blind", 120))
	rInv := new(big.Int).ModInverse(r, p.key.N)
	if rInv == nil {
		panic("c10 setup: blind not invertible")
	}
	p.blinded, p.state, err = p.v.FixedBlind(c10Msg, p.md, salt, r.Bytes(), rInv.Bytes())
	c10Must(err)
	p.blindSig, err = p.signer.BlindSign(p.blinded, p.md)
	c10Must(err)
	p.sig, err = p.state.Finalize(p.blindSig)
	c10Must(err)
	// NB: the implementation's parameter order is (message, metadata, signature)
	c10Must(p.v.Verify(c10Msg, p.md, p.sig))
	return p
}

func c10MiscMdExtras() []kit.Named {
	return []kit.Named{{"md-empty", []byte{}}, {"md-255", c10Shake("misc/md", 255)}, {"md-256", c10Shake("misc/md", 256)},
		{"md-65535", c10Shake("misc/md", 65535)}, {"md-65536", c10Shake("misc/md", 65536)}, {"md-1MiB", c10Shake("misc/md", 1<<20)}}
}

func c10RowsMiscPb() []*kit.Row {
	const pkg = "blindsign/blindrsa/partiallyblindrsa"
	return []*kit.Row{
		{Name: pkg + ".Verifier.Verify#sig", Cost: kit.Slow, Covers: []string{pkg + ".randomizedVerifier.Verify"},
			Setup: func() *kit.Inst {
				p := c10MiscPbSetup()
				return &kit.Inst{Bases: [][]byte{p.sig},
					Call:   func(in []byte) error { return p.v.Verify(c10Msg, p.md, in) },
					Extras: []kit.Named{{"blinded-signature", p.blindSig}, {"blinded-message", p.blinded}, {"metadata", p.md}}}
			}},
		{Name: pkg + ".Verifier.Verify#metadata", Cost: kit.Slow, Covers: []string{pkg + ".randomizedVerifier.Verify"},
			Setup: func() *kit.Inst {
				p := c10MiscPbSetup()
				return &kit.Inst{Bases: [][]byte{p.md},
					Call:   func(in []byte) error { return p.v.Verify(c10Msg, in, p.sig) },
					Extras: append(c10MiscMdExtras(), kit.Named{Name: "signature", Data: p.sig})}
			}},
		{Name: pkg + ".VerifierState.Finalize#blindSig", Cost: kit.Slow, Covers: []string{pkg + ".VerifierState.Finalize"},
			Setup: func() *kit.Inst {
				p := c10MiscPbSetup()
				return &kit.Inst{Bases: [][]byte{p.blindSig},
					Call:   func(in []byte) error { _, err := p.state.Finalize(in); return err },
					Extras: []kit.Named{{"final-signature", p.sig}, {"blinded-message", p.blinded}}}
			}},
		{Name: pkg + ".Signer.BlindSign#blindedMsg", Cost: kit.Slow, Covers: []string{pkg + ".Signer.BlindSign"},
			Note: "most same-length alterations are accepted (any integer below N is signable)",
			Setup: func() *kit.Inst {
				p := c10MiscPbSetup()
				n := len(p.blinded)
				return &kit.Inst{Bases: [][]byte{p.blinded},
					Call: func(in []byte) error { _, err := p.signer.BlindSign(in, p.md); return err },
					Extras: []kit.Named{{"N", p.key.N.FillBytes(make([]byte, n))}, {"p", p.key.Primes[0].FillBytes(make([]byte, n))},
						{"N+1", new(big.Int).Add(p.key.N, big.NewInt(1)).FillBytes(make([]byte, n))}, {"signature", p.sig}}}
			}},
		{Name: pkg + ".Signer.BlindSign#metadata", Cost: kit.Slow, Covers: []string{pkg + ".Signer.BlindSign"},
			Note: "every metadata string is valid (it only tweaks the key): all cases are expected to be accepted",
			Setup: func() *kit.Inst {
				p := c10MiscPbSetup()
				return &kit.Inst{Bases: [][]byte{p.md},
					Call:   func(in []byte) error { _, err := p.signer.BlindSign(p.blinded, in); return err },
					Extras: c10MiscMdExtras()}
			}},
	}
}

// ---------------------------------------------------------------------------------------------
// cipher/ascon

func c10RowsMiscAscon() []*kit.Row {
	var rows []*kit.Row
	for _, m := range []ascon.Mode{ascon.Ascon128, ascon.Ascon128a, ascon.Ascon80pq} {
		m := m
		rows = append(rows, &kit.Row{Name: "cipher/ascon.Cipher.Open#ct[" + m.String() + "]", Cost: kit.Cheap, Covers: []string{"cipher/ascon.Cipher.Open"},
			Note: "the nonce is honest: Open documents (via cipher.AEAD) a panic for a nonce of the wrong length only",
			Setup: func() *kit.Inst {
				a, err := ascon.New(c10Shake("misc/ascon-key/"+m.String(), m.KeySize()), m)
				c10Must(err)
				nonce := c10Shake("misc/ascon-nonce", ascon.NonceSize)
				ad := []byte("verif C10 associated data")
				var bases [][]byte
				for _, n := range []int{21, 0, 32} {
					bases = append(bases, a.Seal(nil, nonce, c10Shake("misc/ascon-pt", n), ad))
				}
				other, err := ascon.New(c10Shake("misc/ascon-key2/"+m.String(), m.KeySize()), m)
				c10Must(err)
				return &kit.Inst{Bases: bases,
					Call: func(in []byte) error { _, err := a.Open(nil, nonce, in, ad); return err },
					Extras: []kit.Named{{"sealed-under-other-key", other.Seal(nil, nonce, c10Shake("misc/ascon-pt", 21), ad)},
						{"sealed-with-other-ad", a.Seal(nil, nonce, c10Shake("misc/ascon-pt", 21), nil)},
						{"tag-only-15", c10Shake("misc/ascon-t", 15)}, {"long-4096", c10Shake("misc/ascon-t", 4096+16)}}}
			}})
	}
	return rows
}

// ---------------------------------------------------------------------------------------------
// typed ML-KEM / X-Wing / Kyber-PKE keys (the kem.Scheme wrappers are in family "kem")

type c10MiscMlkem struct {
	pkg              string
	pkSize, skSize   int
	gen              func(seed []byte) (ppk, psk, ct []byte)
	unpackPk         func(in []byte) error
	unpackSkDecap    func(in, ct []byte) error
	pkeGen           func(seed []byte) []byte
	pkeUnpack        func(in []byte) error
	pkePkg           string
	pkePkSize        int
	pkeKeySeedLength int
}

func c10MiscMlkemList() []c10MiscMlkem {
	return []c10MiscMlkem{
		{pkg: "kem/mlkem/mlkem512", pkSize: mlkem512.PublicKeySize, skSize: mlkem512.PrivateKeySize,
			gen: func(seed []byte) ([]byte, []byte, []byte) {
				pk, sk := mlkem512.NewKeyFromSeed(seed[:mlkem512.KeySeedSize])
				ppk, psk := make([]byte, mlkem512.PublicKeySize), make([]byte, mlkem512.PrivateKeySize)
				pk.Pack(ppk)
				sk.Pack(psk)
				ct, ss := make([]byte, mlkem512.CiphertextSize), make([]byte, mlkem512.SharedKeySize)
				pk.EncapsulateTo(ct, ss, seed[64:64+mlkem512.EncapsulationSeedSize])
				return ppk, psk, ct
			},
			unpackPk: func(in []byte) error { var pk mlkem512.PublicKey; return pk.Unpack(in) },
			unpackSkDecap: func(in, ct []byte) error {
				var sk mlkem512.PrivateKey
				if err := sk.Unpack(in); err != nil {
					return err
				}
				sk.DecapsulateTo(make([]byte, mlkem512.SharedKeySize), ct)
				return nil
			},
			pkePkg: "pke/kyber/kyber512", pkePkSize: kyber512.PublicKeySize, pkeKeySeedLength: kyber512.KeySeedSize,
			pkeGen: func(seed []byte) []byte {
				pk, _ := kyber512.NewKeyFromSeedMLKEM(seed)
				b := make([]byte, kyber512.PublicKeySize)
				pk.Pack(b)
				return b
			},
			pkeUnpack: func(in []byte) error { var pk kyber512.PublicKey; return pk.UnpackMLKEM(in) }},
		{pkg: "kem/mlkem/mlkem768", pkSize: mlkem768.PublicKeySize, skSize: mlkem768.PrivateKeySize,
			gen: func(seed []byte) ([]byte, []byte, []byte) {
				pk, sk := mlkem768.NewKeyFromSeed(seed[:mlkem768.KeySeedSize])
				ppk, psk := make([]byte, mlkem768.PublicKeySize), make([]byte, mlkem768.PrivateKeySize)
				pk.Pack(ppk)
				sk.Pack(psk)
				ct, ss := make([]byte, mlkem768.CiphertextSize), make([]byte, mlkem768.SharedKeySize)
				pk.EncapsulateTo(ct, ss, seed[64:64+mlkem768.EncapsulationSeedSize])
				return ppk, psk, ct
			},
			unpackPk: func(in []byte) error { var pk mlkem768.PublicKey; return pk.Unpack(in) },
			unpackSkDecap: func(in, ct []byte) error {
				var sk mlkem768.PrivateKey
				if err := sk.Unpack(in); err != nil {
					return err
				}
				sk.DecapsulateTo(make([]byte, mlkem768.SharedKeySize), ct)
				return nil
			},
			pkePkg: "pke/kyber/kyber768", pkePkSize: kyber768.PublicKeySize, pkeKeySeedLength: kyber768.KeySeedSize,
			pkeGen: func(seed []byte) []byte {
				pk, _ := kyber768.NewKeyFromSeedMLKEM(seed)
				b := make([]byte, kyber768.PublicKeySize)
				pk.Pack(b)
				return b
			},
			pkeUnpack: func(in []byte) error { var pk kyber768.PublicKey; return pk.UnpackMLKEM(in) }},
		{pkg: "kem/mlkem/mlkem1024", pkSize: mlkem1024.PublicKeySize, skSize: mlkem1024.PrivateKeySize,
			gen: func(seed []byte) ([]byte, []byte, []byte) {
				pk, sk := mlkem1024.NewKeyFromSeed(seed[:mlkem1024.KeySeedSize])
				ppk, psk := make([]byte, mlkem1024.PublicKeySize), make([]byte, mlkem1024.PrivateKeySize)
				pk.Pack(ppk)
				sk.Pack(psk)
				ct, ss := make([]byte, mlkem1024.CiphertextSize), make([]byte, mlkem1024.SharedKeySize)
				pk.EncapsulateTo(ct, ss, seed[64:64+mlkem1024.EncapsulationSeedSize])
				return ppk, psk, ct
			},
			unpackPk: func(in []byte) error { var pk mlkem1024.PublicKey; return pk.Unpack(in) },
			unpackSkDecap: func(in, ct []byte) error {
				var sk mlkem1024.PrivateKey
				if err := sk.Unpack(in); err != nil {
					return err
				}
				sk.DecapsulateTo(make([]byte, mlkem1024.SharedKeySize), ct)
				return nil
			},
			pkePkg: "pke/kyber/kyber1024", pkePkSize: kyber1024.PublicKeySize, pkeKeySeedLength: kyber1024.KeySeedSize,
			pkeGen: func(seed []byte) []byte {
				pk, _ := kyber1024.NewKeyFromSeedMLKEM(seed)
				b := make([]byte, kyber1024.PublicKeySize)
				pk.Pack(b)
				return b
			},
			pkeUnpack: func(in []byte) error { var pk kyber1024.PublicKey; return pk.UnpackMLKEM(in) }},
	}
}

// c10MiscUnnormalized returns pk with its first 12-bit coefficient replaced by v (q = 3329 and above are not normalized).
func c10MiscUnnormalized(pk []byte, v int) []byte {
	o := append([]byte{}, pk...)
	o[0] = byte(v)
	o[1] = o[1]&0xF0 | byte(v>>8)&0x0F
	return o
}

func c10RowsMiscKem() []*kit.Row {
	var rows []*kit.Row
	for _, l := range c10MiscMlkemList() {
		l := l
		mk := func(tag string) (ppk, psk, ct []byte) { return l.gen(c10Shake("misc/"+l.pkg+"/"+tag, 128)) }
		rows = append(rows,
			&kit.Row{Name: l.pkg + ".PublicKey.Unpack", Cost: kit.Medium, Covers: []string{l.pkg + ".PublicKey.Unpack"},
				Setup: func() *kit.Inst {
					ppk, psk, ct := mk("a")
					ppk2, _, _ := mk("b")
					return &kit.Inst{Bases: [][]byte{ppk, ppk2}, Call: l.unpackPk,
						Extras: []kit.Named{{"private-key", psk}, {"ciphertext", ct}, {"coef0=q", c10MiscUnnormalized(ppk, 3329)},
							{"coef0=4095", c10MiscUnnormalized(ppk, 4095)}}}
				}},
			&kit.Row{Name: l.pkg + ".PrivateKey.Unpack(+DecapsulateTo)", Cost: kit.Medium,
				Covers: []string{l.pkg + ".PrivateKey.Unpack", l.pkg + ".PrivateKey.DecapsulateTo"},
				Note: "Unpack's doc mentions both a panic and an error for a wrong size: the length is guarded in the row; " +
					"an accepted key then decapsulates an honest ciphertext of the right size",
				Setup: func() *kit.Inst {
					_, psk, ct := mk("a")
					_, psk2, _ := mk("b")
					// private key whose embedded public key is another key's (hash check must fail)
					mixed := append([]byte{}, psk...)
					mixed[l.skSize-64-l.pkSize] ^= 1
					return &kit.Inst{Bases: [][]byte{psk, psk2},
						Call: func(in []byte) error {
							if len(in) != l.skSize {
								return errC10MiscLen
							}
							return l.unpackSkDecap(in, ct)
						},
						Extras: []kit.Named{{"embedded-pk-altered", mixed}, {"all-FF-coefficients+valid-rest", c10MiscCat(c10MiscFill(l.skSize-64-l.pkSize), psk[l.skSize-64-l.pkSize:])}}}
				}},
			&kit.Row{Name: l.pkePkg + ".PublicKey.UnpackMLKEM", Cost: kit.Medium, Covers: []string{l.pkePkg + ".PublicKey.UnpackMLKEM"},
				Setup: func() *kit.Inst {
					ppk := l.pkeGen(c10Shake("misc/"+l.pkePkg+"/a", l.pkeKeySeedLength))
					ppk2 := l.pkeGen(c10Shake("misc/"+l.pkePkg+"/b", l.pkeKeySeedLength))
					return &kit.Inst{Bases: [][]byte{ppk, ppk2}, Call: l.pkeUnpack,
						Extras: []kit.Named{{"coef0=q", c10MiscUnnormalized(ppk, 3329)}, {"coef0=4095", c10MiscUnnormalized(ppk, 4095)}}}
				}},
		)
	}
	// X-Wing
	xw := func(tag string) (ppk, psk []byte) {
		psk, ppk = xwing.DeriveKeyPairPacked(c10Shake("misc/xwing/"+tag, xwing.SeedSize))
		return
	}
	rows = append(rows,
		&kit.Row{Name: "kem/xwing.PublicKey.Unpack", Cost: kit.Medium, Covers: []string{"kem/xwing.PublicKey.Unpack"},
			Note: "documented: panics if buf is not of size PublicKeySize - the length is guarded in the row",
			Setup: func() *kit.Inst {
				ppk, _ := xw("a")
				ppk2, _ := xw("b")
				return &kit.Inst{Bases: [][]byte{ppk, ppk2},
					Call: func(in []byte) error {
						if len(in) != xwing.PublicKeySize {
							return errC10MiscLen
						}
						var pk xwing.PublicKey
						return pk.Unpack(in)
					},
					Extras: []kit.Named{{"coef0=q", c10MiscUnnormalized(ppk, 3329)}, {"x25519-part-zero", c10MiscCat(ppk[:mlkem768.PublicKeySize], make([]byte, 32))}}}
			}},
		&kit.Row{Name: "kem/xwing.Encapsulate#pk", Cost: kit.Medium, Covers: []string{"kem/xwing.Encapsulate"},
			Note: "documented: panics if pk is not of size PublicKeySize - the length is guarded in the row; the seed is fixed",
			Setup: func() *kit.Inst {
				ppk, _ := xw("a")
				ppk2, _ := xw("b")
				seed := c10Shake("misc/xwing/eseed", xwing.EncapsulationSeedSize)
				return &kit.Inst{Bases: [][]byte{ppk, ppk2},
					Call: func(in []byte) error {
						if len(in) != xwing.PublicKeySize {
							return errC10MiscLen
						}
						_, _, err := xwing.Encapsulate(in, seed)
						return err
					},
					Extras: []kit.Named{{"coef0=q", c10MiscUnnormalized(ppk, 3329)}, {"x25519-part-zero", c10MiscCat(ppk[:mlkem768.PublicKeySize], make([]byte, 32))},
						{"x25519-part-low-order", c10MiscCat(ppk[:mlkem768.PublicKeySize], append([]byte{1}, make([]byte, 31)...))}}}
			}},
	)
	return rows
}

func c10MiscFill(n int) []byte {
	b := make([]byte, n)
	for i := range b {
		b[i] = 0xFF
	}
	return b
}

func c10RowsMisc() []*kit.Row {
	rows := c10RowsMiscTss()
	rows = append(rows, c10RowsMiscBrsa()...)
	rows = append(rows, c10RowsMiscPb()...)
	rows = append(rows, c10RowsMiscAscon()...)
	rows = append(rows, c10RowsMiscKem()...)
	return rows
}

func init() { c10Register("misc", c10RowsMisc) }

func TestVerifC10_misc(t *testing.T) { c10Run(t, "misc") }
