//go:build verif

package circl_test

// C01 — KEMs: decapsulation inverts encapsulation; tampering never yields the key.
//
// Shared machinery of the C01 units: the scheme table (kem/schemes.All() plus the two
// hpke.KEM(id).Scheme() values the registry does not contain), guarded calls, key material.

import (
	"bytes"
	"fmt"
	"strings"
	"testing"

	"github.com/cloudflare/circl/hpke"
	"github.com/cloudflare/circl/internal/verifmc"
	"github.com/cloudflare/circl/internal/verifref/c01kem"
	"github.com/cloudflare/circl/kem"
	"github.com/cloudflare/circl/kem/schemes"
)

type c01Scheme struct {
	tag    string // stable name used in case ids and violation keys
	origin string
	s      kem.Scheme
	m      *c01kem.Model
}

var c01HpkeIDs = []hpke.KEM{
	hpke.KEM_P256_HKDF_SHA256, hpke.KEM_P384_HKDF_SHA384, hpke.KEM_P521_HKDF_SHA512,
	hpke.KEM_X25519_HKDF_SHA256, hpke.KEM_X448_HKDF_SHA512, hpke.KEM_X25519_KYBER768_DRAFT00, hpke.KEM_XWING,
}

// c01Schemes returns every KEM the library offers through the kem.Scheme interface, once per name.
// A scheme without a decapsulation model is a harness error (a new scheme was added to the registry).
func c01Schemes(t testing.TB) (out []*c01Scheme, aliased int) {
	seen := map[string]bool{}
	add := func(s kem.Scheme, origin string) {
		name := s.Name()
		if seen[name] {
			aliased++
			return
		}
		seen[name] = true
		m := c01kem.Lookup(name)
		if m == nil {
			t.Fatalf("C01: scheme %q (%s) has no decapsulation model in /verif/ref/c01kem", name, origin)
		}
		out = append(out, &c01Scheme{tag: name, origin: origin, s: s, m: m})
	}
	for _, s := range schemes.All() {
		add(s, "kem/schemes.All")
	}
	for _, id := range c01HpkeIDs {
		add(id.Scheme(), fmt.Sprintf("hpke.KEM(0x%04x).Scheme", uint16(id)))
	}
	return out, aliased
}

func c01Clone(b []byte) []byte { return append([]byte{}, b...) }

// c01Keys is one derived key pair with its marshalled forms and restored copies.
type c01Keys struct {
	pk       kem.PublicKey
	sk       kem.PrivateKey
	pkb, skb []byte
	pk2      kem.PublicKey  // UnmarshalBinaryPublicKey(pkb)
	sk2      kem.PrivateKey // UnmarshalBinaryPrivateKey(skb)
}

// c01Derive derives and marshals; any failure is returned as text (the caller decides how to report).
func c01Derive(s kem.Scheme, seed []byte) (k *c01Keys, problem string) {
	k = &c01Keys{}
	if p, what := verifmc.Try(func() { k.pk, k.sk = s.DeriveKeyPair(c01Clone(seed)) }); p {
		return nil, "DeriveKeyPair panicked: " + what
	}
	if k.pk == nil || k.sk == nil {
		return nil, "DeriveKeyPair returned a nil key"
	}
	var err error
	if p, what := verifmc.Try(func() { k.pkb, err = k.pk.MarshalBinary() }); p || err != nil {
		return nil, fmt.Sprintf("PublicKey.MarshalBinary failed: %v %s", err, what)
	}
	if p, what := verifmc.Try(func() { k.skb, err = k.sk.MarshalBinary() }); p || err != nil {
		return nil, fmt.Sprintf("PrivateKey.MarshalBinary failed: %v %s", err, what)
	}
	if p, what := verifmc.Try(func() { k.pk2, err = s.UnmarshalBinaryPublicKey(c01Clone(k.pkb)) }); p || err != nil || k.pk2 == nil {
		return nil, fmt.Sprintf("UnmarshalBinaryPublicKey(MarshalBinary(pk)) failed: %v %s", err, what)
	}
	if p, what := verifmc.Try(func() { k.sk2, err = s.UnmarshalBinaryPrivateKey(c01Clone(k.skb)) }); p || err != nil || k.sk2 == nil {
		return nil, fmt.Sprintf("UnmarshalBinaryPrivateKey(MarshalBinary(sk)) failed: %v %s", err, what)
	}
	return k, ""
}

// c01Res is the observable result of one encapsulation or decapsulation.
type c01Res struct {
	ct, ss []byte
	err    error
	panic  string
}

func (a c01Res) failed() bool { return a.err != nil || a.panic != "" }

func (a c01Res) same(b c01Res) bool {
	return (a.err == nil) == (b.err == nil) && a.panic == b.panic && bytes.Equal(a.ct, b.ct) && bytes.Equal(a.ss, b.ss)
}

func (a c01Res) String() string {
	switch {
	case a.panic != "":
		return "panic: " + a.panic
	case a.err != nil:
		return "error: " + a.err.Error()
	case a.ct != nil:
		return fmt.Sprintf("ct=%s ss=%x", verifmc.Hex(a.ct), a.ss)
	}
	return fmt.Sprintf("ss=%x", a.ss)
}

func c01Encaps(s kem.Scheme, pk kem.PublicKey, seed []byte) (res c01Res) {
	if p, what := verifmc.Try(func() { res.ct, res.ss, res.err = s.EncapsulateDeterministically(pk, c01Clone(seed)) }); p {
		res.panic = what
	}
	return
}

func c01Decaps(s kem.Scheme, sk kem.PrivateKey, ct []byte) (res c01Res) {
	if p, what := verifmc.Try(func() { res.ss, res.err = s.Decapsulate(sk, ct) }); p {
		res.panic = what
	}
	return
}

// c01Reporter builds stable violation keys: C01|<scheme>|<failure class>|<input class>.
type c01Reporter struct {
	r   *verifmc.Run
	tag string
}

func (c c01Reporter) viol(class, input, caseID string, payload map[string]interface{}, format string, a ...interface{}) {
	if payload == nil {
		payload = map[string]interface{}{}
	}
	payload["scheme"] = c.tag
	c.r.Violation(fmt.Sprintf("C01|%s|%s|%s", c.tag, class, input), caseID, c.tag+": "+fmt.Sprintf(format, a...), payload)
}

// c01SeedCount: how many seeds of the alphabet a tier uses (0 = all).
func c01Take(seeds [][]byte, n int) [][]byte {
	if n > 0 && n < len(seeds) {
		return seeds[:n]
	}
	return seeds
}

// c01ManyDerivations: schemes whose deterministic derivation runs through crypto/ecdh (where
// randutil.MaybeReadByte lives) are derived many times per seed; the others a few times.
func c01Reps(tag string) int {
	if strings.Contains(tag, "P256") || strings.Contains(tag, "P384") || strings.Contains(tag, "P521") {
		return 64
	}
	return 3
}
