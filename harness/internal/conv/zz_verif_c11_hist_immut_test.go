//go:build verif && linux

package conv_test

// C11 (histories half), unit hist_immut: operand immutability. One table of calls;
// every non-receiver operand that is a byte slice, a byte array or a pointer-free
// struct (scalars, points, keys of the curve packages) is a *region* of raw memory:
//
//   pass 1: all regions in ordinary memory; after the call every region must hold
//           exactly the bytes it held before (only the receiver / outputs may change);
//           operands that contain pointers (keys behind interfaces, big.Int, group
//           elements) are compared through a snapshot of their encoding instead;
//   pass 2: for each region in turn, that region alone is placed in a READ-ONLY page
//           (mmap + mprotect) and the call is repeated with runtime/debug.SetPanicOnFault:
//           a fault proves that the call writes to that operand, even if it restores
//           the value before returning (invisible to pass 1, visible to a concurrent reader).

import (
	"bytes"
	"crypto"
	"fmt"
	"math/big"
	"reflect"
	"runtime"
	"runtime/debug"
	"sort"
	"strings"
	"sync"
	"syscall"
	"testing"
	"unsafe"

	"github.com/cloudflare/circl/cipher/ascon"
	"github.com/cloudflare/circl/dh/csidh"
	"github.com/cloudflare/circl/dh/curve4q"
	"github.com/cloudflare/circl/dh/x25519"
	"github.com/cloudflare/circl/dh/x448"
	"github.com/cloudflare/circl/ecc/bls12381"
	"github.com/cloudflare/circl/ecc/bls12381/ff"
	"github.com/cloudflare/circl/ecc/fourq"
	"github.com/cloudflare/circl/ecc/goldilocks"
	"github.com/cloudflare/circl/ecc/p384"
	"github.com/cloudflare/circl/expander"
	"github.com/cloudflare/circl/group"
	"github.com/cloudflare/circl/hpke"
	"github.com/cloudflare/circl/internal/verifmc"
	"github.com/cloudflare/circl/kem"
	kemschemes "github.com/cloudflare/circl/kem/schemes"
	"github.com/cloudflare/circl/math/polynomial"
	"github.com/cloudflare/circl/oprf"
	"github.com/cloudflare/circl/secretsharing"
	"github.com/cloudflare/circl/sign"
	"github.com/cloudflare/circl/sign/ed25519"
	"github.com/cloudflare/circl/sign/ed448"
	signschemes "github.com/cloudflare/circl/sign/schemes"
	"github.com/cloudflare/circl/xof"
	"github.com/cloudflare/circl/xof/k12"
)

type c11Region struct {
	name   string
	img    []byte
	strukt bool // memory image of a struct (representation + scratch), not a plain byte string
}

type c11ImmCase struct {
	name    string
	regions []c11Region
	call    func(p []unsafe.Pointer)
	snap    func() []byte // encoding of operands that contain pointers (nil if none)
	// ret, when set, is used instead of call and returns a digest of everything the call returns:
	// it must be the same for every memory layout of the operands.
	ret func(p []unsafe.Pointer) []byte
}

func c11NoPtr(t reflect.Type) bool {
	switch t.Kind() {
	case reflect.Bool, reflect.Int, reflect.Int8, reflect.Int16, reflect.Int32, reflect.Int64,
		reflect.Uint, reflect.Uint8, reflect.Uint16, reflect.Uint32, reflect.Uint64, reflect.Uintptr:
		return true
	case reflect.Array:
		return c11NoPtr(t.Elem())
	case reflect.Struct:
		for i := 0; i < t.NumField(); i++ {
			if !c11NoPtr(t.Field(i).Type) {
				return false
			}
		}
		return true
	}
	return false
}

// c11Img returns the memory image of a pointer-free value.
func c11Img[T any](v *T) []byte {
	if !c11NoPtr(reflect.TypeOf(*v)) {
		panic("c11: type " + reflect.TypeOf(*v).String() + " contains pointers")
	}
	n := int(unsafe.Sizeof(*v))
	return append([]byte{}, unsafe.Slice((*byte)(unsafe.Pointer(v)), n)...)
}

// c11Spare maps the address of a byte region to the number of bytes of spare capacity the
// runner has provided behind it for the current call (absent: the slice has cap == len).
var c11Spare sync.Map

func c11Sl(p unsafe.Pointer, n int) []byte {
	extra := 0
	if v, ok := c11Spare.Load(uintptr(p)); ok {
		extra = v.(int)
	}
	if n+extra == 0 {
		return []byte{}
	}
	return unsafe.Slice((*byte)(p), n+extra)[: n : n+extra]
}

const c11TailLen = 64

// c11ReadOnlyTail maps pages so that img ends exactly at a page boundary and is followed by a
// READ-ONLY page: a slice of img with spare capacity reaches into memory that traps writes.
func c11ReadOnlyTail(img []byte) (unsafe.Pointer, func(), error) {
	ps := syscall.Getpagesize()
	np := (len(img)+ps-1)/ps + 1
	if len(img) == 0 {
		np = 2
	}
	m, err := syscall.Mmap(-1, 0, np*ps, syscall.PROT_READ|syscall.PROT_WRITE, syscall.MAP_ANON|syscall.MAP_PRIVATE)
	if err != nil {
		return nil, nil, err
	}
	off := (np-1)*ps - len(img)
	copy(m[off:], img)
	for i := (np - 1) * ps; i < np*ps; i++ {
		m[i] = 0x5a
	}
	if err := syscall.Mprotect(m[(np-1)*ps:], syscall.PROT_READ); err != nil {
		_ = syscall.Munmap(m)
		return nil, nil, err
	}
	return unsafe.Pointer(&m[off]), func() { _ = syscall.Munmap(m) }, nil
}

// c11Heap allocates an 8-byte aligned ordinary region holding img.
func c11Heap(img []byte) (unsafe.Pointer, []byte) {
	w := make([]uint64, (len(img)+7)/8+1)
	b := unsafe.Slice((*byte)(unsafe.Pointer(&w[0])), len(w)*8)
	copy(b, img)
	return unsafe.Pointer(&w[0]), b[:len(img)]
}

// c11ReadOnly maps fresh pages, copies img and write-protects them.
func c11ReadOnly(img []byte) (unsafe.Pointer, func(), error) {
	ps := syscall.Getpagesize()
	n := (len(img) + ps) / ps * ps
	m, err := syscall.Mmap(-1, 0, n, syscall.PROT_READ|syscall.PROT_WRITE, syscall.MAP_ANON|syscall.MAP_PRIVATE)
	if err != nil {
		return nil, nil, err
	}
	copy(m, img)
	if err := syscall.Mprotect(m, syscall.PROT_READ); err != nil {
		_ = syscall.Munmap(m)
		return nil, nil, err
	}
	return unsafe.Pointer(&m[0]), func() { _ = syscall.Munmap(m) }, nil
}

// c11NotAKeyOperand lists calls whose read-only-page fault is a value-preserving write to an operand
// that is not a key/scheme/suite/table (see the comment where it is used).
var c11NotAKeyOperand = map[string]bool{"goldilocks.Curve.IsOnCurve": true}

// c11Fault runs f and reports a memory fault (write to a read-only page) separately
// from ordinary panics.
func c11Fault(f func()) (fault bool, faultAddr uintptr, otherPanic string) {
	old := debug.SetPanicOnFault(true)
	defer debug.SetPanicOnFault(old)
	defer func() {
		if e := recover(); e != nil {
			if ae, ok := e.(interface{ Addr() uintptr }); ok {
				fault, faultAddr = true, ae.Addr()
				return
			}
			if re, ok := e.(runtime.Error); ok && strings.Contains(re.Error(), "unexpected fault address") {
				fault = true
				return
			}
			otherPanic = fmt.Sprint(e)
		}
	}()
	f()
	return
}

func c11GoldScalar(v ...byte) goldilocks.Scalar {
	var k goldilocks.Scalar
	copy(k[:], v)
	return k
}

func c11ImmCases() []*c11ImmCase {
	var cs []*c11ImmCase
	add := func(name string, regions []c11Region, call func(p []unsafe.Pointer)) *c11ImmCase {
		c := &c11ImmCase{name: name, regions: regions, call: call}
		cs = append(cs, c)
		return c
	}
	R := func(name string, img []byte) c11Region { return c11Region{name, img, false} }
	S := func(name string, img []byte) c11Region { return c11Region{name, img, true} }
	_ = S

	// ---- goldilocks ----
	var gk goldilocks.Scalar
	gk.FromBytes(verifmc.Shake("c11-imm-gold-k", 56))
	gP := goldilocks.Curve{}.ScalarBaseMult(&gk)
	gQ := goldilocks.Curve{}.Double(gP)
	scalars := map[string]goldilocks.Scalar{"zero": {}, "two(even)": c11GoldScalar(2), "three(odd)": c11GoldScalar(3), "random": gk, "order": goldilocks.Curve{}.Order()}
	var snames []string
	for n := range scalars {
		snames = append(snames, n)
	}
	sort.Strings(snames)
	for _, sn := range snames {
		k := scalars[sn]
		add("goldilocks.Curve.ScalarMult|k="+sn, []c11Region{S("k", c11Img(&k)), S("P", c11Img(gP))}, func(p []unsafe.Pointer) {
			goldilocks.Curve{}.ScalarMult((*goldilocks.Scalar)(p[0]), (*goldilocks.Point)(p[1]))
		})
		add("goldilocks.Curve.ScalarBaseMult|k="+sn, []c11Region{S("k", c11Img(&k))}, func(p []unsafe.Pointer) {
			goldilocks.Curve{}.ScalarBaseMult((*goldilocks.Scalar)(p[0]))
		})
		add("goldilocks.Curve.CombinedMult|m=n="+sn, []c11Region{S("m", c11Img(&k)), S("n", c11Img(&k)), S("P", c11Img(gP))}, func(p []unsafe.Pointer) {
			goldilocks.Curve{}.CombinedMult((*goldilocks.Scalar)(p[0]), (*goldilocks.Scalar)(p[1]), (*goldilocks.Point)(p[2]))
		})
		add("goldilocks.Scalar.Add|x=y="+sn, []c11Region{S("x", c11Img(&k)), S("y", c11Img(&k))}, func(p []unsafe.Pointer) {
			var z goldilocks.Scalar
			z.Add((*goldilocks.Scalar)(p[0]), (*goldilocks.Scalar)(p[1]))
			z.Sub((*goldilocks.Scalar)(p[0]), (*goldilocks.Scalar)(p[1]))
			z.Mul((*goldilocks.Scalar)(p[0]), (*goldilocks.Scalar)(p[1]))
		})
	}
	add("goldilocks.Curve.Add", []c11Region{S("P", c11Img(gP)), S("Q", c11Img(gQ))}, func(p []unsafe.Pointer) {
		goldilocks.Curve{}.Add((*goldilocks.Point)(p[0]), (*goldilocks.Point)(p[1]))
	})
	add("goldilocks.Curve.Double", []c11Region{S("P", c11Img(gP))}, func(p []unsafe.Pointer) {
		goldilocks.Curve{}.Double((*goldilocks.Point)(p[0]))
	})
	add("goldilocks.Curve.IsOnCurve", []c11Region{S("P", c11Img(gP))}, func(p []unsafe.Pointer) {
		goldilocks.Curve{}.IsOnCurve((*goldilocks.Point)(p[0]))
	})
	add("goldilocks.Point.Add", []c11Region{S("Q", c11Img(gQ))}, func(p []unsafe.Pointer) {
		recv := *gP
		recv.Add((*goldilocks.Point)(p[0]))
	})
	add("goldilocks.Point.IsEqual", []c11Region{S("Q", c11Img(gQ))}, func(p []unsafe.Pointer) {
		recv := *gP
		recv.IsEqual((*goldilocks.Point)(p[0]))
	})
	gEnc, _ := gP.MarshalBinary()
	add("goldilocks.FromBytes/Point.UnmarshalBinary/Scalar.FromBytes", []c11Region{R("data", gEnc), R("x", verifmc.Shake("c11-imm-gold-x", 70))}, func(p []unsafe.Pointer) {
		_, _ = goldilocks.FromBytes(c11Sl(p[0], len(gEnc)))
		var P goldilocks.Point
		_ = P.UnmarshalBinary(c11Sl(p[0], len(gEnc)))
		var z goldilocks.Scalar
		z.FromBytes(c11Sl(p[1], 70))
	})

	// ---- FourQ / Curve4Q ----
	var fk [32]byte
	copy(fk[:], verifmc.Shake("c11-imm-fourq-k", 32))
	var fP, fQ fourq.Point
	fP.ScalarBaseMult(&fk)
	fQ.SetGenerator()
	for _, signBit := range []byte{0x00, 0x80} {
		var enc [32]byte
		fP.Marshal(&enc)
		enc[31] = enc[31]&0x7f | signBit
		add(fmt.Sprintf("fourq.Point.Unmarshal|signbit=%d", signBit>>7), []c11Region{R("in", enc[:])}, func(p []unsafe.Pointer) {
			var P fourq.Point
			P.Unmarshal((*[32]byte)(p[0]))
		})
	}
	add("fourq.Point.Unmarshal|invalid(allFF)", []c11Region{R("in", bytes.Repeat([]byte{0xff}, 32))}, func(p []unsafe.Pointer) {
		var P fourq.Point
		P.Unmarshal((*[32]byte)(p[0]))
	})
	add("fourq.Point.ScalarMult/ScalarBaseMult/Add", []c11Region{R("k", fk[:]), S("Q", c11Img(&fP)), S("R", c11Img(&fQ))}, func(p []unsafe.Pointer) {
		var P fourq.Point
		P.ScalarMult((*[32]byte)(p[0]), (*fourq.Point)(p[1]))
		P.ScalarBaseMult((*[32]byte)(p[0]))
		P.Add((*fourq.Point)(p[1]), (*fourq.Point)(p[2]))
	})
	{
		var sec, pub curve4q.Key
		copy(sec[:], verifmc.Shake("c11-imm-c4q", 32))
		curve4q.KeyGen(&pub, &sec)
		add("curve4q.KeyGen", []c11Region{R("secret", sec[:])}, func(p []unsafe.Pointer) {
			var out curve4q.Key
			curve4q.KeyGen(&out, (*curve4q.Key)(p[0]))
		})
		add("curve4q.Shared", []c11Region{R("secret", sec[:]), R("public", pub[:])}, func(p []unsafe.Pointer) {
			var sh curve4q.Key
			curve4q.Shared(&sh, (*curve4q.Key)(p[0]), (*curve4q.Key)(p[1]))
		})
	}
	// ---- X25519 / X448 ----
	{
		var sec, pub x25519.Key
		copy(sec[:], verifmc.Shake("c11-imm-x25519", 32))
		x25519.KeyGen(&pub, &sec)
		add("x25519.KeyGen", []c11Region{R("secret", sec[:])}, func(p []unsafe.Pointer) {
			var out x25519.Key
			x25519.KeyGen(&out, (*x25519.Key)(p[0]))
		})
		add("x25519.Shared", []c11Region{R("secret", sec[:]), R("public", pub[:])}, func(p []unsafe.Pointer) {
			var sh x25519.Key
			x25519.Shared(&sh, (*x25519.Key)(p[0]), (*x25519.Key)(p[1]))
		})
		var sec4, pub4 x448.Key
		copy(sec4[:], verifmc.Shake("c11-imm-x448", 56))
		x448.KeyGen(&pub4, &sec4)
		add("x448.KeyGen", []c11Region{R("secret", sec4[:])}, func(p []unsafe.Pointer) {
			var out x448.Key
			x448.KeyGen(&out, (*x448.Key)(p[0]))
		})
		add("x448.Shared", []c11Region{R("secret", sec4[:]), R("public", pub4[:])}, func(p []unsafe.Pointer) {
			var sh x448.Key
			x448.Shared(&sh, (*x448.Key)(p[0]), (*x448.Key)(p[1]))
		})
	}
	// ---- BLS12-381 ----
	{
		var k ff.Scalar
		k.SetBytes(verifmc.Shake("c11-imm-bls-k", 32))
		var P1 bls12381.G1
		P1.ScalarMult(&k, bls12381.G1Generator())
		var P2 bls12381.G2
		P2.ScalarMult(&k, bls12381.G2Generator())
		Q1, Q2 := *bls12381.G1Generator(), *bls12381.G2Generator()
		add("bls12381.G1.ScalarMult/Add/IsEqual/IsOnG1", []c11Region{S("k", c11Img(&k)), S("P", c11Img(&P1)), S("Q", c11Img(&Q1))}, func(p []unsafe.Pointer) {
			var g bls12381.G1
			g.ScalarMult((*ff.Scalar)(p[0]), (*bls12381.G1)(p[1]))
			g.Add((*bls12381.G1)(p[1]), (*bls12381.G1)(p[2]))
			g.IsEqual((*bls12381.G1)(p[1]))
		})
		add("bls12381.G2.ScalarMult/Add/IsEqual", []c11Region{S("k", c11Img(&k)), S("P", c11Img(&P2)), S("Q", c11Img(&Q2))}, func(p []unsafe.Pointer) {
			var g bls12381.G2
			g.ScalarMult((*ff.Scalar)(p[0]), (*bls12381.G2)(p[1]))
			g.Add((*bls12381.G2)(p[1]), (*bls12381.G2)(p[2]))
			g.IsEqual((*bls12381.G2)(p[1]))
		})
		add("bls12381.Pair/ProdPair", []c11Region{S("P", c11Img(&P1)), S("Q", c11Img(&P2)), S("n", c11Img(&k))}, func(p []unsafe.Pointer) {
			bls12381.Pair((*bls12381.G1)(p[0]), (*bls12381.G2)(p[1]))
			bls12381.ProdPair([]*bls12381.G1{(*bls12381.G1)(p[0])}, []*bls12381.G2{(*bls12381.G2)(p[1])}, []*bls12381.Scalar{(*ff.Scalar)(p[2])})
		})
		e1, e2 := P1.BytesCompressed(), P2.Bytes()
		msg, dst := []byte("c11 imm msg"), []byte("c11 imm dst")
		add("bls12381.G1/G2.SetBytes/Hash/Encode", []c11Region{R("b1", e1), R("b2", e2), R("input", msg), R("dst", dst)}, func(p []unsafe.Pointer) {
			var g bls12381.G1
			_ = g.SetBytes(c11Sl(p[0], len(e1)))
			g.Hash(c11Sl(p[2], len(msg)), c11Sl(p[3], len(dst)))
			g.Encode(c11Sl(p[2], len(msg)), c11Sl(p[3], len(dst)))
			var h bls12381.G2
			_ = h.SetBytes(c11Sl(p[1], len(e2)))
			h.Hash(c11Sl(p[2], len(msg)), c11Sl(p[3], len(dst)))
		})
		kb, _ := k.MarshalBinary()
		add("bls12381/ff.Scalar arithmetic and decoders", []c11Region{S("x", c11Img(&k)), S("y", c11Img(&k)), R("data", kb)}, func(p []unsafe.Pointer) {
			var z ff.Scalar
			x, y := (*ff.Scalar)(p[0]), (*ff.Scalar)(p[1])
			z.Add(x, y)
			z.Sub(x, y)
			z.Mul(x, y)
			z.Inv(x)
			z.Set(x)
			z.Sqr(x)
			z.SetBytes(c11Sl(p[2], len(kb)))
			_ = z.UnmarshalBinary(c11Sl(p[2], len(kb)))
		})
	}
	// ---- P-384 (circl's own curve) ----
	{
		c := p384.P384()
		k := verifmc.Shake("c11-imm-p384", 48)
		x, y := c.ScalarBaseMult(k)
		cs2 := add("p384.Curve.ScalarMult/ScalarBaseMult/CombinedMult/Add/Double", []c11Region{R("k", k), R("m", k)}, func(p []unsafe.Pointer) {
			c.ScalarMult(x, y, c11Sl(p[0], 48))
			c.ScalarBaseMult(c11Sl(p[0], 48))
			c.CombinedMult(x, y, c11Sl(p[0], 48), c11Sl(p[1], 48))
			c.Add(x, y, x, y)
			c.Double(x, y)
			c.IsOnCurve(x, y)
		})
		cs2.snap = func() []byte {
			pr := c.Params()
			return c11Cat(x.Bytes(), y.Bytes(), pr.Gx.Bytes(), pr.Gy.Bytes(), pr.P.Bytes(), pr.N.Bytes(), pr.B.Bytes())
		}
	}
	// ---- Ed25519 / Ed448 ----
	{
		msg := []byte("c11 imm message")
		k25 := ed25519.NewKeyFromSeed(verifmc.Shake("c11-imm-ed25519", 32))
		pub25 := k25.Public().(ed25519.PublicKey)
		sig25 := ed25519.Sign(k25, msg)
		add("ed25519.NewKeyFromSeed/Sign/Verify", []c11Region{R("seed", k25.Seed()), R("priv", k25), R("msg", msg), R("pub", pub25), R("sig", sig25)}, func(p []unsafe.Pointer) {
			ed25519.NewKeyFromSeed(c11Sl(p[0], 32))
			ed25519.Sign(ed25519.PrivateKey(c11Sl(p[1], len(k25))), c11Sl(p[2], len(msg)))
			ed25519.Verify(ed25519.PublicKey(c11Sl(p[3], len(pub25))), c11Sl(p[2], len(msg)), c11Sl(p[4], len(sig25)))
		})
		k448 := ed448.NewKeyFromSeed(verifmc.Shake("c11-imm-ed448", 57))
		pub448 := k448.Public().(ed448.PublicKey)
		sig448 := ed448.Sign(k448, msg, "")
		add("ed448.NewKeyFromSeed/Sign/Verify", []c11Region{R("seed", k448.Seed()), R("priv", k448), R("msg", msg), R("pub", pub448), R("sig", sig448)}, func(p []unsafe.Pointer) {
			ed448.NewKeyFromSeed(c11Sl(p[0], 57))
			ed448.Sign(ed448.PrivateKey(c11Sl(p[1], len(k448))), c11Sl(p[2], len(msg)), "")
			ed448.Verify(ed448.PublicKey(c11Sl(p[3], len(pub448))), c11Sl(p[2], len(msg)), c11Sl(p[4], len(sig448)), "")
		})
	}
	// ---- every KEM of the registry ----
	for _, sch := range kemschemes.All() {
		sch := sch
		seed := verifmc.Shake("c11-imm-kem-"+sch.Name(), sch.SeedSize())
		eseed := verifmc.Shake("c11-imm-eseed", sch.EncapsulationSeedSize())
		pk, sk := sch.DeriveKeyPair(seed)
		pkb, skb := c11MustBytes(pk.MarshalBinary()), c11MustBytes(sk.MarshalBinary())
		ct, _, err := sch.EncapsulateDeterministically(pk, eseed)
		if err != nil {
			panic(err)
		}
		c := add("kem:"+sch.Name()+".DeriveKeyPair/Unmarshal/Encapsulate/Decapsulate",
			[]c11Region{R("seed", seed), R("eseed", eseed), R("ct", ct), R("pkbuf", pkb), R("skbuf", skb)}, func(p []unsafe.Pointer) {
				sch.DeriveKeyPair(c11Sl(p[0], len(seed)))
				_, _, _ = sch.EncapsulateDeterministically(pk, c11Sl(p[1], len(eseed)))
				_, _ = sch.Decapsulate(sk, c11Sl(p[2], len(ct)))
				if k, err := sch.UnmarshalBinaryPublicKey(c11Sl(p[3], len(pkb))); err == nil {
					_, _, _ = sch.EncapsulateDeterministically(k, eseed)
				}
				if k, err := sch.UnmarshalBinaryPrivateKey(c11Sl(p[4], len(skb))); err == nil {
					_, _ = sch.Decapsulate(k, ct)
					k.Public()
				}
				pk.Equal(pk)
				sk.Equal(sk)
			})
		c.snap = func() []byte { return c11Cat(c11MustBytes(pk.MarshalBinary()), c11MustBytes(sk.MarshalBinary())) }
	}
	// ---- every signature scheme of the registry ----
	for _, sch := range signschemes.All() {
		sch := sch
		seed := verifmc.Shake("c11-imm-sig-"+sch.Name(), sch.SeedSize())
		pk, sk := sch.DeriveKey(seed)
		pkb, skb := c11MustBytes(pk.MarshalBinary()), c11MustBytes(sk.MarshalBinary())
		msg := []byte("c11 imm message")
		sig := sch.Sign(sk, msg, nil)
		c := add("sign:"+sch.Name()+".DeriveKey/Unmarshal/Sign/Verify",
			[]c11Region{R("seed", seed), R("msg", msg), R("sig", sig), R("pkbuf", pkb), R("skbuf", skb)}, func(p []unsafe.Pointer) {
				sch.DeriveKey(c11Sl(p[0], len(seed)))
				sch.Sign(sk, c11Sl(p[1], len(msg)), nil)
				sch.Verify(pk, c11Sl(p[1], len(msg)), c11Sl(p[2], len(sig)), nil)
				if k, err := sch.UnmarshalBinaryPublicKey(c11Sl(p[3], len(pkb))); err == nil {
					sch.Verify(k, msg, sig, nil)
				}
				if k, err := sch.UnmarshalBinaryPrivateKey(c11Sl(p[4], len(skb))); err == nil {
					sch.Sign(k, msg, nil)
				}
			})
		c.snap = func() []byte {
			var pb, sb []byte
			pb = c11MustBytes(pk.(sign.PublicKey).MarshalBinary())
			sb = c11MustBytes(sk.(sign.PrivateKey).MarshalBinary())
			return c11Cat(pb, sb)
		}
	}
	// ---- HPKE ----
	{
		suite := hpke.NewSuite(hpke.KEM_X25519_HKDF_SHA256, hpke.KDF_HKDF_SHA256, hpke.AEAD_ChaCha20Poly1305)
		sch := hpke.KEM_X25519_HKDF_SHA256.Scheme()
		pk, sk := sch.DeriveKeyPair(verifmc.Shake("c11-imm-hpke", sch.SeedSize()))
		info, pt, aad, ectx := []byte("c11 info"), []byte("c11 pt"), []byte("c11 aad"), []byte("c11 exp")
		snd, _ := suite.NewSender(pk, info)
		enc, sealer0, err := snd.Setup(verifmc.NewDetReader("c11-imm-hpke-rnd"))
		if err != nil {
			panic(err)
		}
		rawS, _ := sealer0.MarshalBinary()
		rcv0, _ := suite.NewReceiver(sk, info)
		op0, _ := rcv0.Setup(enc)
		rawO, _ := op0.MarshalBinary()
		ref, _ := hpke.UnmarshalSealer(append([]byte{}, rawS...))
		ct, _ := ref.Seal(pt, aad)
		c := add("hpke.NewSender/Setup/Seal/Open/Export", []c11Region{R("info", info), R("pt", pt), R("aad", aad), R("enc", enc), R("ct", ct), R("exporter_context", ectx)}, func(p []unsafe.Pointer) {
			s, _ := suite.NewSender(pk, c11Sl(p[0], len(info)))
			_, sealer, _ := s.Setup(verifmc.NewDetReader("c11-imm-hpke-rnd"))
			_, _ = sealer.Seal(c11Sl(p[1], len(pt)), c11Sl(p[2], len(aad)))
			sealer.Export(c11Sl(p[5], len(ectx)), 16)
			r, _ := suite.NewReceiver(sk, c11Sl(p[0], len(info)))
			opener, err := r.Setup(c11Sl(p[3], len(enc)))
			if err == nil {
				_, _ = opener.Open(c11Sl(p[4], len(ct)), c11Sl(p[2], len(aad)))
			}
		})
		c.snap = func() []byte { return c11Cat(c11MustBytes(pk.MarshalBinary()), c11MustBytes(sk.MarshalBinary())) }
		add("hpke.UnmarshalSealer(raw)+Seal", []c11Region{R("raw", rawS)}, func(p []unsafe.Pointer) {
			if s, err := hpke.UnmarshalSealer(c11Sl(p[0], len(rawS))); err == nil {
				_, _ = s.Seal(pt, aad)
			}
		})
		add("hpke.UnmarshalOpener(raw)+Open", []c11Region{R("raw", rawO)}, func(p []unsafe.Pointer) {
			if o, err := hpke.UnmarshalOpener(c11Sl(p[0], len(rawO))); err == nil {
				_, _ = o.Open(ct, aad)
			}
		})
	}
	// ---- CSIDH ----
	{
		var prv csidh.PrivateKey
		var pub csidh.PublicKey
		_ = csidh.GeneratePrivateKey(&prv, verifmc.NewDetReader("c11-imm-csidh"))
		csidh.GeneratePublicKey(&pub, &prv, verifmc.NewDetReader("c11-imm-csidh-r"))
		pb := make([]byte, csidh.PublicKeySize)
		pub.Export(pb)
		add("csidh.Validate", []c11Region{S("pub", c11Img(&pub))}, func(p []unsafe.Pointer) {
			csidh.Validate((*csidh.PublicKey)(p[0]), verifmc.NewDetReader("c11-imm-csidh-v"))
		})
		add("csidh.DeriveSecret", []c11Region{S("pub", c11Img(&pub)), S("prv", c11Img(&prv))}, func(p []unsafe.Pointer) {
			var out [64]byte
			csidh.DeriveSecret(&out, (*csidh.PublicKey)(p[0]), (*csidh.PrivateKey)(p[1]), verifmc.NewDetReader("c11-imm-csidh-d"))
		})
		add("csidh.GeneratePublicKey", []c11Region{S("prv", c11Img(&prv))}, func(p []unsafe.Pointer) {
			var q csidh.PublicKey
			csidh.GeneratePublicKey(&q, (*csidh.PrivateKey)(p[0]), verifmc.NewDetReader("c11-imm-csidh-g"))
		})
		add("csidh.PublicKey.Import/PrivateKey.Import", []c11Region{R("key", pb)}, func(p []unsafe.Pointer) {
			var q csidh.PublicKey
			q.Import(c11Sl(p[0], len(pb)))
		})
	}
	// ---- group API, OPRF, expanders, XOFs, AEAD ----
	for _, g := range []group.Group{group.P256, group.P384, group.P521, group.Ristretto255} {
		g := g
		msg, dst := []byte("c11 imm msg"), []byte("c11 imm dst")
		e := g.HashToElement(msg, dst)
		s := g.HashToScalar(msg, dst)
		eb, _ := e.MarshalBinary()
		ec, _ := e.MarshalBinaryCompress()
		sb, _ := s.MarshalBinary()
		bi := new(big.Int).SetBytes(verifmc.Shake("c11-imm-big", 80))
		c := add("group."+fmt.Sprint(g)+".HashTo*/UnmarshalBinary/element and scalar operations", []c11Region{R("msg", msg), R("dst", dst), R("elem", eb), R("elemC", ec), R("scalar", sb)}, func(p []unsafe.Pointer) {
			m, d := c11Sl(p[0], len(msg)), c11Sl(p[1], len(dst))
			g.HashToElement(m, d)
			g.HashToElementNonUniform(m, d)
			g.HashToScalar(m, d)
			_ = g.NewElement().UnmarshalBinary(c11Sl(p[2], len(eb)))
			_ = g.NewElement().UnmarshalBinary(c11Sl(p[3], len(ec)))
			_ = g.NewScalar().UnmarshalBinary(c11Sl(p[4], len(sb)))
			r := g.NewElement()
			r.Add(e, e).Dbl(e).Neg(e).Mul(e, s).MulGen(s).CMov(1, e).CSelect(0, e, e).Set(e)
			r.IsEqual(e)
			t := g.NewScalar()
			t.Add(s, s).Sub(s, s).Mul(s, s).Neg(s).Inv(s).CMov(1, s).CSelect(1, s, s).Set(s).SetBigInt(bi)
			t.IsEqual(s)
		})
		c.snap = func() []byte {
			return c11Cat(c11MustBytes(e.Copy().MarshalBinary()), c11MustBytes(s.Copy().MarshalBinary()), bi.Bytes())
		}
	}
	for _, su := range []oprf.Suite{oprf.SuiteP256, oprf.SuiteRistretto255} {
		su := su
		key, _ := oprf.DeriveKey(su, oprf.BaseMode, verifmc.Shake("c11-imm-oprf", 32), nil)
		in1, in2 := []byte("c11 oprf input 1"), []byte("c11 oprf input two")
		c := add("oprf:"+fmt.Sprint(su)+".Blind/Evaluate/Finalize/FullEvaluate", []c11Region{R("input0", in1), R("input1", in2)}, func(p []unsafe.Pointer) {
			inputs := [][]byte{c11Sl(p[0], len(in1)), c11Sl(p[1], len(in2))}
			cl := oprf.NewClient(su)
			srv := oprf.NewServer(su, key)
			fin, req, err := cl.Blind(inputs)
			if err != nil {
				panic(err)
			}
			ev, err := srv.Evaluate(req)
			if err != nil {
				panic(err)
			}
			_, _ = cl.Finalize(fin, ev)
			_, _ = srv.FullEvaluate(inputs[0])
		})
		c.snap = func() []byte { return c11MustBytes(key.MarshalBinary()) }
	}
	{
		in, dst := verifmc.Shake("c11-imm-exp-in", 40), []byte("c11 imm expander dst")
		add("expander.ExpanderMD/XOF.Expand, k12, ascon", []c11Region{R("in", in), R("dst", dst), R("key", verifmc.Shake("c11-imm-ascon-key", 16)), R("nonce", verifmc.Shake("c11-imm-ascon-nonce", 16))}, func(p []unsafe.Pointer) {
			i, d := c11Sl(p[0], len(in)), c11Sl(p[1], len(dst))
			expander.NewExpanderMD(crypto.SHA256, d).Expand(i, 48)
			expander.NewExpanderXOF(xof.SHAKE128, 128, d).Expand(i, 48)
			st := k12.NewDraft10(d)
			_, _ = st.Write(i)
			out := make([]byte, 32)
			_, _ = st.Read(out)
			a, err := ascon.New(c11Sl(p[2], 16), ascon.Ascon128)
			if err == nil {
				ct := a.Seal(nil, c11Sl(p[3], 16), i, d)
				_, _ = a.Open(nil, c11Sl(p[3], 16), ct, d)
			}
		})
	}
	// ---- secret sharing / polynomials (operands contain pointers: snapshot only) ----
	{
		g := group.P256
		secret := g.NewScalar().SetUint64(424242)
		ss := secretsharing.New(verifmc.NewDetReader("c11-imm-ss"), 2, secret)
		shares := ss.Share(4)
		com := ss.CommitSecret()
		xs := []group.Scalar{g.NewScalar().SetUint64(1), g.NewScalar().SetUint64(2), g.NewScalar().SetUint64(3)}
		ys := []group.Scalar{g.NewScalar().SetUint64(11), g.NewScalar().SetUint64(12), g.NewScalar().SetUint64(13)}
		x9 := g.NewScalar().SetUint64(9)
		c := add("secretsharing.New/Recover/Verify, polynomial.New/Evaluate/Lagrange", nil, func(p []unsafe.Pointer) {
			secretsharing.New(verifmc.NewDetReader("c11-imm-ss"), 2, secret)
			_, _ = secretsharing.Recover(2, shares)
			secretsharing.Verify(2, shares[1], com)
			ss.ShareWithID(x9)
			poly := polynomial.New(ys)
			poly.Evaluate(x9)
			l := polynomial.NewLagrangePolynomial(xs, ys)
			l.Evaluate(x9)
			polynomial.LagrangeBase(1, xs, x9)
		})
		c.snap = func() []byte {
			b := c11Cat(c11ScalarView(secret), c11ScalarView(x9))
			for _, s := range shares {
				b = c11Cat(b, c11ScalarView(s.ID), c11ScalarView(s.Value))
			}
			for _, e := range com {
				b = c11Cat(b, c11MustBytes(e.Copy().MarshalBinary()))
			}
			for i := range xs {
				b = c11Cat(b, c11ScalarView(xs[i]), c11ScalarView(ys[i]))
			}
			return b
		}
	}
	return cs
}

var _ kem.Scheme

func fresh0(c *c11ImmCase) []unsafe.Pointer {
	q := make([]unsafe.Pointer, len(c.regions))
	for i, o := range c.regions {
		q[i], _ = c11Heap(o.img)
	}
	return q
}

func TestVerifC11_hist_immut(t *testing.T) {
	r := verifmc.Start(t, "C11", "hist_immut")
	defer r.Finish()
	r.Rule("table of calls; every byte-slice / byte-array / pointer-free struct operand other than the receiver is a memory region: pass 1 compares every region (and an encoding snapshot of pointerful operands) " +
		"before/after the call; pass 2 repeats the call once per region with that region in a read-only page and traps the fault; pass 3 passes every byte-slice operand as a slice with spare capacity " +
		"(watched tail in ordinary memory, tail in a read-only page, and all byte operands adjacent in one buffer) and requires an untouched tail and, for rows that return a digest, the same result as with exact-capacity copies; " +
		"non-trivial = distinct (call, region, layout) and (call, snapshot)")
	cases := append(c11ImmCases(), c11ImmResultCases()...)
	invoke := func(c *c11ImmCase, p []unsafe.Pointer) []byte {
		if c.ret != nil {
			return c.ret(p)
		}
		c.call(p)
		return nil
	}
	r.Set("calls", len(cases))
	type viol struct{ key, caseID, what string }
	var mu sync.Mutex
	var viols []viol
	nRegions := 0
	for _, c := range cases {
		nRegions += len(c.regions)
	}
	r.Set("regions", nRegions)
	// The read-only pass must not run concurrently with itself on shared process-wide state that a
	// defect could corrupt, and SetPanicOnFault is per goroutine: cases are independent -> parallel.
	verifmc.ParallelFor(len(cases), func(ci int) {
		c := cases[ci]
		if r.Replaying() && !strings.HasPrefix(r.ReplayCase(), c.name) {
			return
		}
		// pass 1
		ptrs := make([]unsafe.Pointer, len(c.regions))
		views := make([][]byte, len(c.regions))
		for i, rg := range c.regions {
			ptrs[i], views[i] = c11Heap(rg.img)
		}
		var before []byte
		if c.snap != nil {
			before = c.snap()
		}
		r.Eval(1)
		var res0 []byte
		if p, what := verifmc.Try(func() { res0 = invoke(c, ptrs) }); p {
			t.Errorf("%s: the call panics in ordinary memory: %s", c.name, what)
			return
		}
		if c.ret != nil { // a digest must be reproducible before it can be compared across layouts
			var again []byte
			if p, _ := verifmc.Try(func() { again = invoke(c, fresh0(c)) }); p || !bytes.Equal(again, res0) {
				t.Errorf("%s: the result digest is not deterministic", c.name)
				return
			}
		}
		for i, rg := range c.regions {
			r.Distinct(c.name, rg.name, "value")
			r.Count("operand_regions_compared", 1)
			if !bytes.Equal(views[i], rg.img) {
				cls, txt := "operand-mutated", "changed the value of its operand"
				if rg.strukt {
					cls, txt = "operand-storage-changed", "changed the memory (representation or embedded scratch space) of its operand"
				}
				mu.Lock()
				viols = append(viols, viol{"C11|" + c.name + "|" + cls + "|" + rg.name, c.name + "|" + rg.name,
					fmt.Sprintf("%s %s %s: %s -> %s", c.name, txt, rg.name, verifmc.Hex(rg.img), verifmc.Hex(views[i]))})
				mu.Unlock()
			}
		}
		if c.snap != nil {
			r.Distinct(c.name, "snapshot")
			r.Count("operand_snapshots_compared", 1)
			if after := c.snap(); !bytes.Equal(before, after) {
				mu.Lock()
				viols = append(viols, viol{"C11|" + c.name + "|operand-mutated|snapshot", c.name + "|snapshot",
					fmt.Sprintf("%s changed a key/element/scalar operand: encoding %s -> %s", c.name, verifmc.Hex(before), verifmc.Hex(after))})
				mu.Unlock()
			}
		}
		// pass 2
		for j, rg := range c.regions {
			if len(rg.img) == 0 {
				continue
			}
			ptrs2 := make([]unsafe.Pointer, len(c.regions))
			for i, o := range c.regions {
				ptrs2[i], _ = c11Heap(o.img)
			}
			ro, release, err := c11ReadOnly(rg.img)
			if err != nil {
				r.NotExhaustive("mmap/mprotect unavailable: read-only pass skipped (" + err.Error() + ")")
				return
			}
			ptrs2[j] = ro
			r.Eval(1)
			r.Distinct(c.name, rg.name, "read-only")
			r.Count("read_only_region_runs", 1)
			fault, addr, other := c11Fault(func() { invoke(c, ptrs2) })
			if fault {
				r.Count("read_only_faults", 1)
			}
			if fault && bytes.Equal(views[j], rg.img) && c11NotAKeyOperand[c.name] {
				// The operand is a plain curve point (not a key, scheme, suite or table, which are what C11's
				// concurrency clause covers) and the write stores the value it already holds (in-place
				// canonicalisation by fp.IsZero): the statement does not forbid it. Observation only.
				// (Making fp448.IsZero side-effect free was tried and broke goldilocks.Point.IsIdentity,
				// which relies on the reduction; C13 caught that, the change was dropped.)
				r.Outcome("value-preserving in-place canonicalisation of a non-key operand: " + c.name)
			} else if fault && bytes.Equal(views[j], rg.img) { // a changed final value is already reported by pass 1
				off := int64(addr) - int64(uintptr(ro))
				mu.Lock()
				viols = append(viols, viol{"C11|" + c.name + "|operand-written-transiently|" + rg.name, c.name + "|" + rg.name + "|ro",
					fmt.Sprintf("%s writes to its operand %s although the value is the same afterwards (memory fault at offset %d with the operand in a read-only page): a concurrent reader of the operand sees the intermediate value / a data race", c.name, rg.name, off)})
				mu.Unlock()
			} else if other != "" {
				t.Errorf("%s: panics with operand %s in read-only memory, not a fault: %s", c.name, rg.name, other)
			}
			release()
		}
		// pass 3: every byte-slice operand as a slice WITH SPARE CAPACITY (cap > len) of a larger buffer.
		// The bytes beyond len belong to the caller: they must never be written, and the result must be
		// the one obtained with exact-capacity arguments.
		addV := func(cls, region, caseSuffix, what string) {
			mu.Lock()
			viols = append(viols, viol{"C11|" + c.name + "|" + cls + "|" + region, c.name + "|" + region + "|" + caseSuffix, what})
			mu.Unlock()
		}
		fresh := func() []unsafe.Pointer {
			q := make([]unsafe.Pointer, len(c.regions))
			for i, o := range c.regions {
				q[i], _ = c11Heap(o.img)
			}
			return q
		}
		for j, rg := range c.regions {
			if rg.strukt || len(rg.img) == 0 {
				continue
			}
			n := len(rg.img)
			// 3a: ordinary memory, watched tail
			q := fresh()
			buf := make([]byte, n+c11TailLen)
			copy(buf, rg.img)
			for i := n; i < len(buf); i++ {
				buf[i] = 0xa5
			}
			q[j] = unsafe.Pointer(&buf[0])
			c11Spare.Store(uintptr(q[j]), c11TailLen)
			var res []byte
			p, what := verifmc.Try(func() { res = invoke(c, q) })
			c11Spare.Delete(uintptr(q[j]))
			r.Eval(1)
			r.Distinct(c.name, rg.name, "spare-capacity")
			r.Count("spare_capacity_runs", 1)
			if p {
				addV("panic-with-spare-capacity-argument", rg.name, "spare", fmt.Sprintf("%s panics when %s is a slice with spare capacity: %s", c.name, rg.name, what))
				continue
			}
			tailOK := true
			for i := n; i < len(buf); i++ {
				if buf[i] != 0xa5 {
					tailOK = false
					addV("writes-beyond-len-into-spare-capacity", rg.name, "spare", fmt.Sprintf("%s, given %s as a slice with len %d and spare capacity, wrote %#02x at index %d (= len+%d) of the caller's backing array", c.name, rg.name, n, buf[i], i, i-n))
					break
				}
			}
			if c.ret != nil && !bytes.Equal(res, res0) {
				addV("result-depends-on-argument-layout", rg.name, "spare", fmt.Sprintf("%s returns a different result when %s has spare capacity: %s vs %s with exact capacity", c.name, rg.name, verifmc.Hex(res), verifmc.Hex(res0)))
			}
			// 3b: the spare capacity reaches into a read-only page
			q = fresh()
			ro, release, err := c11ReadOnlyTail(rg.img)
			if err != nil {
				r.NotExhaustive("mmap/mprotect unavailable: read-only tail pass skipped (" + err.Error() + ")")
				break
			}
			q[j] = ro
			c11Spare.Store(uintptr(ro), c11TailLen)
			fault, addr, other := c11Fault(func() { res = invoke(c, q) })
			c11Spare.Delete(uintptr(ro))
			r.Eval(1)
			r.Count("read_only_tail_runs", 1)
			if fault && tailOK { // otherwise already reported by 3a
				addV("writes-beyond-len-into-spare-capacity", rg.name, "spare-ro", fmt.Sprintf("%s writes beyond len(%s) into the caller's spare capacity (memory fault at len+%d with the tail in a read-only page)", c.name, rg.name, int64(addr)-int64(uintptr(ro))-int64(n)))
			} else if other != "" {
				t.Errorf("%s: panics with the tail of %s in read-only memory, not a fault: %s", c.name, rg.name, other)
			} else if !fault && c.ret != nil && !bytes.Equal(res, res0) {
				addV("result-depends-on-argument-layout", rg.name, "spare-ro", fmt.Sprintf("%s returns a different result when %s has spare capacity", c.name, rg.name))
			}
			release()
		}
		// 3c: all byte operands adjacent in ONE buffer, each slice with capacity up to the end of the
		// buffer (rec[:k], rec[k:] ...): the natural way a parsed record hands out its fields.
		{
			total := 0
			for _, rg := range c.regions {
				if !rg.strukt && len(rg.img) > 0 {
					total += len(rg.img)
				}
			}
			if total > 0 {
				q := fresh()
				buf := make([]byte, total+c11TailLen)
				for i := total; i < len(buf); i++ {
					buf[i] = 0xa5
				}
				off := 0
				var keys []uintptr
				for i, rg := range c.regions {
					if rg.strukt || len(rg.img) == 0 {
						continue
					}
					copy(buf[off:], rg.img)
					q[i] = unsafe.Pointer(&buf[off])
					c11Spare.Store(uintptr(q[i]), len(buf)-off-len(rg.img))
					keys = append(keys, uintptr(q[i]))
					off += len(rg.img)
				}
				want := append([]byte{}, buf...)
				var res []byte
				p, what := verifmc.Try(func() { res = invoke(c, q) })
				for _, k := range keys {
					c11Spare.Delete(k)
				}
				r.Eval(1)
				r.Distinct(c.name, "adjacent")
				r.Count("adjacent_layout_runs", 1)
				switch {
				case p:
					addV("panic-with-spare-capacity-argument", "adjacent", "adjacent", fmt.Sprintf("%s panics when its byte arguments are adjacent sub-slices of one buffer: %s", c.name, what))
				case !bytes.Equal(buf, want):
					at := 0
					for at < len(buf) && buf[at] == want[at] {
						at++
					}
					addV("writes-beyond-len-into-spare-capacity", "adjacent", "adjacent", fmt.Sprintf("%s, given its byte arguments as adjacent sub-slices of one buffer, changed byte %d of that buffer (%#02x -> %#02x): an argument was written through another argument's spare capacity", c.name, at, want[at], buf[at]))
				}
				if !p && c.ret != nil && !bytes.Equal(res, res0) {
					addV("result-depends-on-argument-layout", "adjacent", "adjacent", fmt.Sprintf("%s returns %s when its byte arguments are adjacent sub-slices of one buffer (dst = rec[:k], msg = rec[k:] ...), %s with separately stored copies", c.name, verifmc.Hex(res), verifmc.Hex(res0)))
				}
			}
		}
	})
	sort.Slice(viols, func(i, j int) bool { return viols[i].key < viols[j].key })
	for _, v := range viols {
		r.Violation(v.key, v.caseID, v.what, nil)
	}
	// self-test of the read-only detector: a deliberate write must be caught
	ro, release, err := c11ReadOnly([]byte{1, 2, 3, 4})
	if err == nil {
		fault, _, _ := c11Fault(func() { *(*byte)(ro) = 9 })
		release()
		if !fault {
			t.Fatalf("read-only detector does not trap a deliberate write")
		}
		r.Count("detector_selftest_faults", 1)
		r.RequireCounter("detector_selftest_faults", 1)
		r.RequireCounter("read_only_region_runs", 150)
	}
	r.RequireCounter("operand_regions_compared", 150)
	r.RequireCounter("spare_capacity_runs", 250)
	r.RequireCounter("adjacent_layout_runs", 100)
}
