//go:build verif

package conv_test

// C12: the byte / limb / big-integer conversions every field package relies on
// (internal/conv), against math/big on every length 0..40 bytes / 0..5 limbs
// and boundary fills.

import (
	"fmt"
	"math/big"
	"os"
	"strings"
	"testing"

	"github.com/cloudflare/circl/internal/conv"
	"github.com/cloudflare/circl/internal/verifmc"
	bf "github.com/cloudflare/circl/internal/verifref/bigfield"
)

func TestVerifC12_conv(t *testing.T) {
	if c := os.Getenv("VERIF_CONFIG"); c != "" && c != "default" {
		t.Skip("pure Go code: identical in every configuration; run under default only")
	}
	r := verifmc.Start(t, "C12", "conv")
	defer r.Finish()
	r.Rule("byte strings of every length 0..40 with fills {00, FF, 01.., 80 00.., pseudo} and limb slices of length 0..5 over {0,1,2^63,2^64-1,pseudo}; every conversion compared with math/big; destination sizes len-1, len, len+3 for the in-place writers; a distinct case is one (function, input)")
	bad := func(fn, cid, what string) {
		r.Violation("C12|conv."+fn+"|wrong-value|-|-", cid, what, nil)
	}
	fills := []string{"00", "ff", "inc", "msb", "pseudo"}
	mk := func(fill string, n int) []byte {
		b := make([]byte, n)
		for i := range b {
			switch fill {
			case "ff":
				b[i] = 0xff
			case "inc":
				b[i] = byte(i + 1)
			case "msb":
				if i == n-1 {
					b[i] = 0x80
				}
			case "pseudo":
				b[i] = bf.LE(bf.Pseudo("conv", n, bf.Pow2(uint(8*n+8))), n+1)[i]
			}
		}
		return b
	}
	for _, fill := range fills {
		for n := 0; n <= 40; n++ {
			b := mk(fill, n)
			cid := fmt.Sprintf("conv#%s/%d", fill, n)
			r.Distinct(cid)
			v := bf.FromLE(b) // little-endian value
			r.Eval(6)
			if got := conv.BytesLe2BigInt(b); got.Cmp(v) != 0 {
				bad("BytesLe2BigInt", cid, fmt.Sprintf("%x -> %x", b, got))
			}
			wantHex := "0x" + fmt.Sprintf("%0*x", 2*n, v)
			if n == 0 {
				wantHex = "0x00"
			}
			if got := conv.BytesLe2Hex(b); got != wantHex {
				bad("BytesLe2Hex", cid, got+" != "+wantHex)
			}
			// big-endian bytes -> little-endian limbs
			be := new(big.Int).SetBytes(b)
			limbs := conv.BytesBe2Uint64Le(b)
			if len(limbs) != (n+7)/8 || bf.FromLimbs(limbs).Cmp(be) != 0 {
				bad("BytesBe2Uint64Le", cid, fmt.Sprintf("%x -> %x", b, limbs))
			}
			// BigInt2BytesLe into buffers of several sizes
			need := (v.BitLen() + 7) / 8
			for _, sz := range []int{need - 1, need, need + 3, n} {
				if sz < 0 {
					continue
				}
				z := make([]byte, sz)
				for i := range z {
					z[i] = 0xa5
				}
				conv.BigInt2BytesLe(z, v)
				if sz >= need {
					if bf.FromLE(z).Cmp(v) != 0 {
						bad("BigInt2BytesLe", cid, fmt.Sprintf("value %x into %d bytes -> %x", v, sz, z))
					}
				} else if strings.Trim(string(z), "\xa5") != "" {
					bad("BigInt2BytesLe", cid, "modified a too-short destination")
				}
			}
			needW := (v.BitLen() + 63) / 64
			for _, sz := range []int{needW - 1, needW, needW + 2} {
				if sz < 0 {
					continue
				}
				z := make([]uint64, sz)
				for i := range z {
					z[i] = 0xa5a5a5a5a5a5a5a5
				}
				conv.BigInt2Uint64Le(z, v)
				if sz >= needW {
					if bf.FromLimbs(z).Cmp(v) != 0 {
						bad("BigInt2Uint64Le", cid, fmt.Sprintf("value %x into %d limbs -> %x", v, sz, z))
					}
				} else {
					for _, w := range z {
						if w != 0xa5a5a5a5a5a5a5a5 {
							bad("BigInt2Uint64Le", cid, "modified a too-short destination")
						}
					}
				}
			}
		}
	}
	words := []uint64{0, 1, 1 << 63, ^uint64(0), 0x0123456789abcdef}
	var rec func(cur []uint64, n int)
	nl := 0
	rec = func(cur []uint64, n int) {
		if len(cur) == n {
			cid := fmt.Sprintf("conv.limbs#%x", cur)
			r.Distinct(cid)
			r.Eval(4)
			nl++
			v := bf.FromLimbs(cur)
			if got := conv.Uint64Le2BigInt(cur); got.Cmp(v) != 0 {
				bad("Uint64Le2BigInt", cid, got.Text(16))
			}
			if got := conv.Uint64Le2BytesLe(cur); len(got) != 8*n || bf.FromLE(got).Cmp(v) != 0 {
				bad("Uint64Le2BytesLe", cid, fmt.Sprintf("%x", got))
			}
			if got := conv.Uint64Le2BytesBe(cur); len(got) != 8*n || new(big.Int).SetBytes(got).Cmp(v) != 0 {
				bad("Uint64Le2BytesBe", cid, fmt.Sprintf("%x", got))
			}
			want := "0x" + fmt.Sprintf("%0*x", 16*n, v)
			if n == 0 {
				want = "0x00"
			}
			if got := conv.Uint64Le2Hex(cur); got != want {
				bad("Uint64Le2Hex", cid, got+" != "+want)
			}
			return
		}
		for _, w := range words {
			rec(append(cur, w), n)
		}
	}
	for n := 0; n <= 5; n++ {
		rec(nil, n)
	}
	r.Count("limb_slices", nl)
	r.Sample(map[string]string{"bytes": "ff x 17", "limbs": "{0,1,2^63,2^64-1,0x0123456789abcdef}^n, n<=5"})
}
