//go:build verif

package conv_test

// C11 (histories half), unit hist_tssrsa: operand immutability and repeatability of the
// threshold-RSA calls on a POOL of share objects that is reused across calls.
// For every (players l, threshold k) with 2 <= l <= 4, 1 <= k <= l (5 thorough), both key-share
// flavours (cache = false / true), one sign share object per player is created once;
// then every history of 1..3 CombineSignShares calls over ALL quorums (every subset of size >= k,
// in ascending and descending order - this includes quorums with negative Lagrange coefficients
// such as {1,3} of (3,2) and {1,3,4} of (4,3)) is run on those SAME objects:
//   * every combination returns the one PKCS#1 v1.5 signature crypto/rsa produces for the message
//     (RSA signatures are unique, so this is an exact oracle) - also the 2nd and 3rd time, and also
//     for a different quorum that shares a share with an earlier one;
//   * after every call every share's MarshalBinary, the key shares, the public key, the padded
//     digest and the slice header contents are what they were before (only outputs may change).

import (
	"bytes"
	"crypto"
	cryptorsa "crypto/rsa"
	"crypto/sha256"
	"fmt"
	"sort"
	"strings"
	"sync"
	"testing"

	"github.com/cloudflare/circl/internal/verifmc"
	tssrsa "github.com/cloudflare/circl/tss/rsa"
)

func c11Subsets(l, min int) [][]int {
	var out [][]int
	for m := 1; m < 1<<l; m++ {
		var s []int
		for i := 0; i < l; i++ {
			if m>>i&1 == 1 {
				s = append(s, i)
			}
		}
		if len(s) >= min {
			out = append(out, s)
			if len(s) > 1 {
				r := make([]int, len(s))
				for i, x := range s {
					r[len(s)-1-i] = x
				}
				out = append(out, r)
			}
		}
	}
	return out
}

func c11QuorumName(q []int) string {
	p := make([]string, len(q))
	for i, x := range q {
		p[i] = fmt.Sprint(x + 1)
	}
	return "{" + strings.Join(p, ",") + "}"
}

func TestVerifC11_hist_tssrsa(t *testing.T) {
	r := verifmc.Start(t, "C11", "hist_tssrsa")
	defer r.Finish()
	maxL := r.Pick(4, 5)
	depth := 3
	r.Rule(fmt.Sprintf("for every (l,k), 2<=l<=%d, 1<=k<=l, cache in {false,true}: one pool of sign-share objects; every history of 1..%d CombineSignShares calls over all quorums (subsets of size >= k, ascending and descending) on the same objects "+
		"(length 3 for l <= 4 and restricted to histories whose consecutive quorums share a share); each result must equal crypto/rsa's PKCS#1 v1.5 signature; after each call all shares, key shares, public key and digest are unchanged; "+
		"non-trivial = distinct (l,k,cache,history)", maxL, depth))
	key := c11LoadRSA()
	msg := []byte("verif-c11 tss/rsa operand immutability")
	h := sha256.Sum256(msg)
	want, err := cryptorsa.SignPKCS1v15(nil, key, crypto.SHA256, h[:])
	if err != nil {
		t.Fatal(err)
	}
	digest0, err := tssrsa.PadHash(&tssrsa.PKCS1v15Padder{}, crypto.SHA256, &key.PublicKey, msg)
	if err != nil {
		t.Fatal(err)
	}
	type cfg struct {
		l, k  int
		cache bool
	}
	var cfgs []cfg
	for l := 2; l <= maxL; l++ {
		for k := 1; k <= l; k++ {
			cfgs = append(cfgs, cfg{l, k, false}, cfg{l, k, true})
		}
	}
	type viol struct{ key, caseID, what string }
	var mu sync.Mutex
	best := map[string]*viol{}
	add := func(v *viol) {
		mu.Lock()
		if o := best[v.key]; o == nil || len(v.caseID) < len(o.caseID) || (len(v.caseID) == len(o.caseID) && v.caseID < o.caseID) {
			best[v.key] = v
		}
		mu.Unlock()
	}
	verifmc.ParallelFor(len(cfgs), func(ci int) {
		c := cfgs[ci]
		tag := fmt.Sprintf("(l=%d,k=%d,cache=%v)", c.l, c.k, c.cache)
		mkPool := func() ([]tssrsa.KeyShare, []tssrsa.SignShare, bool) {
			ks, err := tssrsa.Deal(verifmc.NewDetReader("c11-tssrsa-"+tag), uint(c.l), uint(c.k), key, c.cache)
			if err != nil {
				t.Errorf("%s: Deal: %v", tag, err)
				return nil, nil, false
			}
			pub := cryptorsa.PublicKey{N: key.N, E: key.E}
			ss := make([]tssrsa.SignShare, c.l)
			for i := range ks {
				dg := append([]byte{}, digest0...)
				ksBefore, _ := ks[i].MarshalBinary()
				s, err := ks[i].Sign(nil, &pub, dg, false)
				if err != nil {
					t.Errorf("%s: Sign: %v", tag, err)
					return nil, nil, false
				}
				r.Eval(1)
				r.Count("sign_calls", 1)
				// a second Sign on the same key share (cache now filled) gives the same share; inputs unchanged
				s2, err := ks[i].Sign(nil, &pub, dg, false)
				a, _ := s.MarshalBinary()
				b, _ := s2.MarshalBinary()
				if err != nil || !bytes.Equal(a, b) {
					add(&viol{"C11|tss/rsa.KeyShare.Sign|same-call-twice-differs|" + fmt.Sprintf("cache=%v", c.cache), tag + "|sign", fmt.Sprintf("%s: KeyShare %d signs the same digest differently the second time", tag, i+1)})
				}
				if !bytes.Equal(dg, digest0) || pub.N.Cmp(key.N) != 0 || pub.E != key.E {
					add(&viol{"C11|tss/rsa.KeyShare.Sign|operand-mutated|digest-or-public-key", tag + "|sign", fmt.Sprintf("%s: KeyShare.Sign changed its digest or public key argument", tag)})
				}
				if !c.cache {
					// the optional cache is part of the receiver; the share VALUE must be the same: re-decode without cache and compare Sign
					var k2 tssrsa.KeyShare
					if err := k2.UnmarshalBinary(ksBefore); err == nil {
						s3, _ := k2.Sign(nil, &pub, dg, false)
						c3, _ := s3.MarshalBinary()
						if !bytes.Equal(a, c3) {
							add(&viol{"C11|tss/rsa.KeyShare.Sign|used-vs-fresh|cache=false", tag + "|sign", fmt.Sprintf("%s: a re-decoded KeyShare %d signs differently", tag, i+1)})
						}
					}
				}
				ss[i] = s
			}
			return ks, ss, true
		}
		_, pool0, ok := mkPool()
		if !ok {
			return
		}
		snaps := make([][]byte, len(pool0))
		for i := range pool0 {
			snaps[i], _ = pool0[i].MarshalBinary()
		}
		// a pool of share OBJECTS of its own for every history (decoded from the marshalled shares)
		newPool := func() []tssrsa.SignShare {
			p := make([]tssrsa.SignShare, len(snaps))
			for i := range snaps {
				if err := p[i].UnmarshalBinary(append([]byte{}, snaps[i]...)); err != nil {
					panic(err)
				}
			}
			return p
		}
		quorums := c11Subsets(c.l, c.k)
		shareSets := func(a, b []int) bool {
			for _, x := range a {
				for _, y := range b {
					if x == y {
						return true
					}
				}
			}
			return false
		}
		// all histories of length 1..depth; every history runs on a fresh pool so that a defect is attributed to it
		var rec func(hist []int)
		rec = func(hist []int) {
			for qi := range quorums {
				hh := append(append([]int{}, hist...), qi)
				if len(hh) == 3 && !(shareSets(quorums[hh[0]], quorums[hh[1]]) && shareSets(quorums[hh[1]], quorums[hh[2]])) {
					continue
				}
				names := make([]string, len(hh))
				for i, x := range hh {
					names[i] = c11QuorumName(quorums[x])
				}
				caseID := tag + "|" + strings.Join(names, ";")
				if r.Replaying() && r.ReplayCase() != caseID {
					if len(hh) < depth {
						rec(hh)
					}
					continue
				}
				pool := newPool()
				pub := cryptorsa.PublicKey{N: key.N, E: key.E}
				bad := false
				for step, x := range hh {
					q := quorums[x]
					shares := make([]tssrsa.SignShare, len(q)) // struct copies, as any caller assembling a quorum makes them: they share xi with the pool
					for i, pi := range q {
						shares[i] = pool[pi]
					}
					dg := append([]byte{}, digest0...)
					var sig []byte
					var err error
					p, what := verifmc.Try(func() { sig, err = tssrsa.CombineSignShares(&pub, shares, dg) })
					r.Eval(1)
					r.Count("combine_calls", 1)
					pos := map[bool]string{true: "first-use", false: "reused-shares"}[step == 0]
					if p {
						add(&viol{"C11|tss/rsa.CombineSignShares|panic|" + pos, caseID, fmt.Sprintf("%s: history %s: combine #%d panics: %s", tag, strings.Join(names, ";"), step+1, what)})
						bad = true
						break
					}
					if err != nil || !bytes.Equal(sig, want) {
						add(&viol{"C11|tss/rsa.CombineSignShares|result-differs-from-rsa-signature|" + pos, caseID,
							fmt.Sprintf("%s: history of combinations %s on one pool of share objects: combination #%d over quorum %s returns err=%v sig=%s, crypto/rsa.SignPKCS1v15 gives %s", tag, strings.Join(names, ";"), step+1, names[step], err, verifmc.Hex(sig), verifmc.Hex(want))})
						bad = true
					}
					for i := range pool {
						now, _ := pool[i].MarshalBinary()
						if !bytes.Equal(now, snaps[i]) {
							add(&viol{"C11|tss/rsa.CombineSignShares|operand-mutated|sign-share", caseID,
								fmt.Sprintf("%s: after combination #%d over quorum %s (history %s) the caller's SignShare of player %d marshals to %s, before the call %s", tag, step+1, names[step], strings.Join(names, ";"), i+1, verifmc.Hex(now), verifmc.Hex(snaps[i]))})
							bad = true
						}
					}
					for i, pi := range q {
						if shares[i].Index != pool[pi].Index || shares[i].Players != pool[pi].Players || shares[i].Threshold != pool[pi].Threshold {
							add(&viol{"C11|tss/rsa.CombineSignShares|operand-mutated|shares-slice", caseID, fmt.Sprintf("%s: combine changed the elements of its shares slice", tag)})
							bad = true
						}
					}
					if !bytes.Equal(dg, digest0) || pub.N.Cmp(key.N) != 0 || pub.E != key.E {
						add(&viol{"C11|tss/rsa.CombineSignShares|operand-mutated|digest-or-public-key", caseID, fmt.Sprintf("%s: combine changed its msg or public key argument", tag)})
						bad = true
					}
					if bad {
						break
					}
				}
				r.Trace(1)
				r.Distinct(caseID)
				r.Count("histories", 1)
				if len(hh) >= 2 {
					r.Count("histories_reusing_share_objects", 1)
				}
				if !bad && len(hh) < depth && (c.l <= 4 || len(hh) < 2) { // l = 5 (thorough): histories of length <= 2
					rec(hh)
				}
			}
		}
		rec(nil)
		if c.l == 3 && c.k == 2 && !c.cache {
			r.Sample(map[string]interface{}{"config": tag, "quorums": len(quorums), "example_history": "{1,3};{1,3};{3,2}"})
		}
	})
	keys := make([]string, 0, len(best))
	for k := range best {
		keys = append(keys, k)
	}
	sort.Strings(keys)
	for _, k := range keys {
		r.Violation(best[k].key, best[k].caseID, best[k].what, nil)
	}
	r.RequireCounter("histories_reusing_share_objects", 2000)
	r.RequireCounter("sign_calls", 40)
}
