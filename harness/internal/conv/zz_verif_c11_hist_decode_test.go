//go:build verif

package conv_test

// C11 (histories half), unit hist_decode: "decoding into a previously used object
// gives the same result as decoding into a fresh one". For every key / point /
// scalar type with an in-place decoder (Unpack, UnmarshalBinary, SetBytes, Import,
// FromBytes, Unmarshal) ALL histories of decode calls of length 1..3 over an
// alphabet of 3 valid encodings plus invalid ones are run on one object; after every
// step the outcome (success / error text / panic) and, after a success, everything
// observable through the exported API (re-encoding, derived public key, encapsulation
// / decapsulation / signature / verification results) must equal the outcome of the
// same decode on a fresh object. After a failed decode the content is not inspected.

import (
	"bytes"
	"crypto"
	cryptorsa "crypto/rsa"
	"crypto/sha256"
	"crypto/x509"
	"encoding/pem"
	"fmt"
	"os"
	"path/filepath"
	"reflect"
	"sort"
	"strings"
	"sync"
	"testing"
	"time"

	"github.com/cloudflare/circl/dh/sidh"
	"github.com/cloudflare/circl/ecc/bls12381"
	"github.com/cloudflare/circl/ecc/bls12381/ff"
	"github.com/cloudflare/circl/ecc/fourq"
	"github.com/cloudflare/circl/ecc/goldilocks"
	"github.com/cloudflare/circl/group"
	"github.com/cloudflare/circl/hpke"
	"github.com/cloudflare/circl/internal/verifmc"
	"github.com/cloudflare/circl/kem"
	kemschemes "github.com/cloudflare/circl/kem/schemes"
	"github.com/cloudflare/circl/oprf"
	pke1024 "github.com/cloudflare/circl/pke/kyber/kyber1024"
	pke512 "github.com/cloudflare/circl/pke/kyber/kyber512"
	pke768 "github.com/cloudflare/circl/pke/kyber/kyber768"
	"github.com/cloudflare/circl/sign"
	"github.com/cloudflare/circl/sign/bls"
	"github.com/cloudflare/circl/sign/ed25519"
	"github.com/cloudflare/circl/sign/ed448"
	signschemes "github.com/cloudflare/circl/sign/schemes"
	tssrsa "github.com/cloudflare/circl/tss/rsa"
	"github.com/cloudflare/circl/vdaf/prio3/arith/fp128"
	"github.com/cloudflare/circl/vdaf/prio3/arith/fp64"
	"github.com/cloudflare/circl/zk/dleq"
)

// c11Input is one letter of a target's alphabet.
type c11Input struct {
	name string
	data []byte
}

// c11Target is one (type, decoding method).
type c11Target struct {
	name    string
	fresh   func() interface{}
	decode  func(obj interface{}, in []byte) (ok bool, errText string)
	observe func(obj interface{}) []byte
	inputs  []c11Input
}

type c11Outcome struct {
	panicked bool
	panicTxt string
	ok       bool
	errText  string
	obs      []byte
}

func (o c11Outcome) String() string {
	switch {
	case o.panicked:
		return "panic(" + o.panicTxt + ")"
	case !o.ok:
		return "error(" + o.errText + ")"
	}
	h := sha256.Sum256(o.obs)
	return fmt.Sprintf("ok(obs=%x..,%dB)", h[:6], len(o.obs))
}

// step decodes in into obj and observes it. The input is a private copy; it is
// checked to be unchanged afterwards.
func (tg *c11Target) step(obj interface{}, in c11Input, checkRetain bool) (out c11Outcome, inputMutated bool, retains bool) {
	buf := append([]byte{}, in.data...)
	p, what := verifmc.Try(func() {
		out.ok, out.errText = tg.decode(obj, buf)
	})
	if p {
		out.panicked, out.panicTxt = true, verifmc.PanicClass(what)
		return out, !bytes.Equal(buf, in.data), false
	}
	inputMutated = !bytes.Equal(buf, in.data)
	if out.ok {
		if p, what := verifmc.Try(func() { out.obs = tg.observe(obj) }); p {
			out.panicked, out.panicTxt = true, "observe:"+verifmc.PanicClass(what)
			return out, inputMutated, false
		}
		if !checkRetain {
			return out, inputMutated, false
		}
		// does the object keep a reference to the caller's buffer? Overwrite it and observe again.
		for i := range buf {
			buf[i] ^= 0xff
		}
		var obs2 []byte
		if p, _ := verifmc.Try(func() { obs2 = tg.observe(obj) }); p || !bytes.Equal(obs2, out.obs) {
			retains = true
		}
		for i := range buf {
			buf[i] ^= 0xff
		}
	}
	return out, inputMutated, retains
}

func c11SameOutcome(a, b c11Outcome) bool {
	if a.panicked || b.panicked {
		return a.panicked == b.panicked
	}
	if a.ok != b.ok {
		return false
	}
	if !a.ok {
		return a.errText == b.errText
	}
	return bytes.Equal(a.obs, b.obs)
}

func c11Cat(parts ...[]byte) []byte {
	var o []byte
	for _, p := range parts {
		o = append(o, byte(len(p)>>16), byte(len(p)>>8), byte(len(p)))
		o = append(o, p...)
	}
	return o
}

func c11MustBytes(b []byte, err error) []byte {
	if err != nil {
		return []byte("ERR:" + err.Error())
	}
	return b
}

func c11Fill(n int, v byte) []byte { return bytes.Repeat([]byte{v}, n) }

// c11ReflectDecode calls method `name` of obj with the input converted to the
// parameter type ([]byte or *[N]byte) and maps the result to (ok, errText).
// applicable=false when the input length does not fit a fixed-size array parameter.
func c11ReflectDecode(obj interface{}, name string, in []byte) (ok bool, errText string, applicable bool) {
	m := reflect.ValueOf(obj).MethodByName(name)
	mt := m.Type()
	var arg reflect.Value
	pt := mt.In(0)
	switch {
	case pt.Kind() == reflect.Slice:
		arg = reflect.ValueOf(in)
	case pt.Kind() == reflect.Ptr && pt.Elem().Kind() == reflect.Array:
		if pt.Elem().Len() != len(in) {
			return false, "", false
		}
		arr := reflect.New(pt.Elem())
		reflect.Copy(arr.Elem(), reflect.ValueOf(in))
		arg = arr
	default:
		panic("c11: unsupported decoder parameter " + pt.String())
	}
	res := m.Call([]reflect.Value{arg})
	if pt.Kind() == reflect.Ptr { // array parameter: report writes to it through `in`
		reflect.Copy(reflect.ValueOf(in), arg.Elem())
	}
	if len(res) == 0 {
		return true, "", true
	}
	switch v := res[0].Interface().(type) {
	case nil:
		return true, "", true
	case error:
		return false, v.Error(), true
	case bool:
		return v, "false", true
	}
	panic("c11: unsupported decoder result")
}

// c11StructTargets builds one target per decoding method of the concrete type of sample.
func c11StructTargets(prefix string, sample interface{}, observe func(obj interface{}) []byte, valid [][]byte) []*c11Target {
	pt := reflect.TypeOf(sample)
	if pt.Kind() != reflect.Ptr || pt.Elem().Kind() != reflect.Struct {
		return nil
	}
	var out []*c11Target
	for _, mname := range []string{"Unpack", "UnmarshalBinary"} {
		m, ok := pt.MethodByName(mname)
		if !ok || m.Type.NumIn() != 2 {
			continue
		}
		mname := mname
		fixed := m.Type.In(1).Kind() == reflect.Ptr
		returnsErr := m.Type.NumOut() == 1
		tg := &c11Target{name: prefix + "." + pt.Elem().Name() + "." + mname,
			fresh: func() interface{} { return reflect.New(pt.Elem()).Interface() },
			decode: func(obj interface{}, in []byte) (bool, string) {
				ok, e, app := c11ReflectDecode(obj, mname, in)
				if !app {
					panic("c11: inapplicable input")
				}
				return ok, e
			},
			observe: observe}
		n := len(valid[0])
		for i, v := range valid {
			tg.inputs = append(tg.inputs, c11Input{fmt.Sprintf("valid%d", i), v})
		}
		tg.inputs = append(tg.inputs, c11Input{"allFF", c11Fill(n, 0xff)})
		if returnsErr && !fixed {
			tg.inputs = append(tg.inputs, c11Input{"short", append([]byte{}, valid[0][:n/2]...)})
		}
		out = append(out, tg)
	}
	return out
}

func c11KemTargets() []*c11Target {
	var out []*c11Target
	for _, sch := range kemschemes.All() {
		sch := sch
		var pks, sks [][]byte
		var pk0 kem.PublicKey
		var sk0 kem.PrivateKey
		for i := 0; i < 3; i++ {
			pk, sk := sch.DeriveKeyPair(verifmc.Shake(fmt.Sprintf("c11-kem-%s-%d", sch.Name(), i), sch.SeedSize()))
			if i == 0 {
				pk0, sk0 = pk, sk
			}
			pks = append(pks, c11MustBytes(pk.MarshalBinary()))
			sks = append(sks, c11MustBytes(sk.MarshalBinary()))
		}
		eseed := verifmc.Shake("c11-kem-eseed", sch.EncapsulationSeedSize())
		ct0, _, err := sch.EncapsulateDeterministically(pk0, eseed)
		if err != nil {
			panic(err)
		}
		obsPk := func(obj interface{}) []byte {
			pk := obj.(kem.PublicKey)
			ct, ss, err := sch.EncapsulateDeterministically(pk, eseed)
			e := ""
			if err != nil {
				e = err.Error()
			}
			return c11Cat(c11MustBytes(pk.MarshalBinary()), ct, ss, []byte(e))
		}
		obsSk := func(obj interface{}) []byte {
			sk := obj.(kem.PrivateKey)
			ss, err := sch.Decapsulate(sk, ct0)
			e := ""
			if err != nil {
				e = err.Error()
			}
			return c11Cat(c11MustBytes(sk.MarshalBinary()), c11MustBytes(sk.Public().MarshalBinary()), ss, []byte(e))
		}
		out = append(out, c11StructTargets("kem:"+sch.Name(), pk0, obsPk, pks)...)
		out = append(out, c11StructTargets("kem:"+sch.Name(), sk0, obsSk, sks)...)
		out = append(out,
			c11HolderTarget("kem:"+sch.Name()+".Scheme.UnmarshalBinaryPublicKey", func(in []byte) (interface{}, error) { return sch.UnmarshalBinaryPublicKey(in) }, obsPk, pks),
			c11HolderTarget("kem:"+sch.Name()+".Scheme.UnmarshalBinaryPrivateKey", func(in []byte) (interface{}, error) { return sch.UnmarshalBinaryPrivateKey(in) }, obsSk, sks))
	}
	return out
}

func c11SignTargets() []*c11Target {
	var out []*c11Target
	msg := []byte("verif-c11 message")
	for _, sch := range signschemes.All() {
		sch := sch
		var pks, sks, sigs [][]byte
		var pk0 sign.PublicKey
		var sk0 sign.PrivateKey
		for i := 0; i < 3; i++ {
			pk, sk := sch.DeriveKey(verifmc.Shake(fmt.Sprintf("c11-sig-%s-%d", sch.Name(), i), sch.SeedSize()))
			if i == 0 {
				pk0, sk0 = pk, sk
			}
			pks = append(pks, c11MustBytes(pk.MarshalBinary()))
			sks = append(sks, c11MustBytes(sk.MarshalBinary()))
			sigs = append(sigs, sch.Sign(sk, msg, nil))
		}
		obsPk := func(obj interface{}) []byte {
			pk := obj.(sign.PublicKey)
			v := make([]byte, len(sigs))
			for i, s := range sigs {
				if sch.Verify(pk, msg, s, nil) {
					v[i] = 1
				}
			}
			return c11Cat(c11MustBytes(pk.MarshalBinary()), v)
		}
		obsSk := func(obj interface{}) []byte {
			sk := obj.(sign.PrivateKey)
			pub, _ := sk.Public().(sign.PublicKey)
			var pb []byte
			if pub != nil {
				pb = c11MustBytes(pub.MarshalBinary())
			}
			return c11Cat(c11MustBytes(sk.MarshalBinary()), pb, sch.Sign(sk, msg, nil))
		}
		out = append(out, c11StructTargets("sign:"+sch.Name(), pk0, obsPk, pks)...)
		out = append(out, c11StructTargets("sign:"+sch.Name(), sk0, obsSk, sks)...)
		out = append(out,
			c11HolderTarget("sign:"+sch.Name()+".Scheme.UnmarshalBinaryPublicKey", func(in []byte) (interface{}, error) { return sch.UnmarshalBinaryPublicKey(in) }, obsPk, pks),
			c11HolderTarget("sign:"+sch.Name()+".Scheme.UnmarshalBinaryPrivateKey", func(in []byte) (interface{}, error) { return sch.UnmarshalBinaryPrivateKey(in) }, obsSk, sks))
	}
	return out
}

// CPA-secure Kyber (pke/kyber): same Pack/Unpack shape, outside the registries.
func c11PkeTargets() []*c11Target {
	var out []*c11Target
	add := func(name string, seedSize, ptSize, ctSize, encSeed int,
		newKey func(seed []byte) (pk, sk interface{}), pack func(k interface{}) []byte,
		enc func(pk interface{}, ct, pt, seed []byte), dec func(sk interface{}, pt, ct []byte)) {
		var pks, sks [][]byte
		var pk0, sk0 interface{}
		for i := 0; i < 3; i++ {
			pk, sk := newKey(verifmc.Shake(fmt.Sprintf("c11-pke-%s-%d", name, i), seedSize))
			if i == 0 {
				pk0, sk0 = pk, sk
			}
			pks = append(pks, pack(pk))
			sks = append(sks, pack(sk))
		}
		pt := verifmc.Shake("c11-pke-pt", ptSize)
		seed := verifmc.Shake("c11-pke-seed", encSeed)
		ct0 := make([]byte, ctSize)
		enc(pk0, ct0, pt, seed)
		obsPk := func(obj interface{}) []byte {
			ct := make([]byte, ctSize)
			enc(obj, ct, pt, seed)
			return c11Cat(pack(obj), ct)
		}
		obsSk := func(obj interface{}) []byte {
			p := make([]byte, ptSize)
			dec(obj, p, ct0)
			return c11Cat(pack(obj), p)
		}
		out = append(out, c11StructTargets("pke:"+name, pk0, obsPk, pks)...)
		out = append(out, c11StructTargets("pke:"+name, sk0, obsSk, sks)...)
	}
	packer := func(size func(k interface{}) int) func(k interface{}) []byte {
		return func(k interface{}) []byte {
			b := make([]byte, size(k))
			reflect.ValueOf(k).MethodByName("Pack").Call([]reflect.Value{reflect.ValueOf(b)})
			return b
		}
	}
	add("kyber512", pke512.KeySeedSize, pke512.PlaintextSize, pke512.CiphertextSize, pke512.EncryptionSeedSize,
		func(s []byte) (interface{}, interface{}) { return pke512.NewKeyFromSeed(s) },
		packer(func(k interface{}) int {
			if _, ok := k.(*pke512.PublicKey); ok {
				return pke512.PublicKeySize
			}
			return pke512.PrivateKeySize
		}),
		func(pk interface{}, ct, pt, seed []byte) { pk.(*pke512.PublicKey).EncryptTo(ct, pt, seed) },
		func(sk interface{}, pt, ct []byte) { sk.(*pke512.PrivateKey).DecryptTo(pt, ct) })
	add("kyber768", pke768.KeySeedSize, pke768.PlaintextSize, pke768.CiphertextSize, pke768.EncryptionSeedSize,
		func(s []byte) (interface{}, interface{}) { return pke768.NewKeyFromSeed(s) },
		packer(func(k interface{}) int {
			if _, ok := k.(*pke768.PublicKey); ok {
				return pke768.PublicKeySize
			}
			return pke768.PrivateKeySize
		}),
		func(pk interface{}, ct, pt, seed []byte) { pk.(*pke768.PublicKey).EncryptTo(ct, pt, seed) },
		func(sk interface{}, pt, ct []byte) { sk.(*pke768.PrivateKey).DecryptTo(pt, ct) })
	add("kyber1024", pke1024.KeySeedSize, pke1024.PlaintextSize, pke1024.CiphertextSize, pke1024.EncryptionSeedSize,
		func(s []byte) (interface{}, interface{}) { return pke1024.NewKeyFromSeed(s) },
		packer(func(k interface{}) int {
			if _, ok := k.(*pke1024.PublicKey); ok {
				return pke1024.PublicKeySize
			}
			return pke1024.PrivateKeySize
		}),
		func(pk interface{}, ct, pt, seed []byte) { pk.(*pke1024.PublicKey).EncryptTo(ct, pt, seed) },
		func(sk interface{}, pt, ct []byte) { sk.(*pke1024.PrivateKey).DecryptTo(pt, ct) })
	return out
}

func c11OprfTargets() []*c11Target {
	var out []*c11Target
	for _, su := range []oprf.Suite{oprf.SuiteP256, oprf.SuiteP384, oprf.SuiteP521, oprf.SuiteRistretto255} {
		su := su
		var sks, pks []c11Input
		for i := 0; i < 3; i++ {
			k, err := oprf.DeriveKey(su, oprf.VerifiableMode, verifmc.Shake(fmt.Sprintf("c11-oprf-%d", i), 32), []byte("info"))
			if err != nil {
				panic(err)
			}
			sks = append(sks, c11Input{fmt.Sprintf("valid%d", i), c11MustBytes(k.MarshalBinary())})
			pks = append(pks, c11Input{fmt.Sprintf("valid%d", i), c11MustBytes(k.Public().MarshalBinary())})
		}
		n := len(pks[0].data)
		pks = append(pks, c11Input{"allFF", c11Fill(n, 0xff)}, c11Input{"short", append([]byte{}, pks[0].data[:n/2]...)})
		sks = append(sks, c11Input{"empty", []byte{}})
		name := fmt.Sprint(su)
		out = append(out, &c11Target{name: "oprf:" + name + ".PrivateKey.UnmarshalBinary",
			fresh: func() interface{} { return new(oprf.PrivateKey) },
			decode: func(obj interface{}, in []byte) (bool, string) {
				if err := obj.(*oprf.PrivateKey).UnmarshalBinary(su, in); err != nil {
					return false, err.Error()
				}
				return true, ""
			},
			observe: func(obj interface{}) []byte {
				k := obj.(*oprf.PrivateKey)
				return c11Cat(c11MustBytes(k.MarshalBinary()), c11MustBytes(k.Public().MarshalBinary()))
			}, inputs: sks})
		out = append(out, &c11Target{name: "oprf:" + name + ".PublicKey.UnmarshalBinary",
			fresh: func() interface{} { return new(oprf.PublicKey) },
			decode: func(obj interface{}, in []byte) (bool, string) {
				if err := obj.(*oprf.PublicKey).UnmarshalBinary(su, in); err != nil {
					return false, err.Error()
				}
				return true, ""
			},
			observe: func(obj interface{}) []byte { return c11MustBytes(obj.(*oprf.PublicKey).MarshalBinary()) },
			inputs:  pks})
	}
	return out
}

func c11BlsKeys[K bls.KeyGroup](tag string) []*c11Target {
	msg := []byte("verif-c11 bls message")
	var sks, pks []c11Input
	var sigs [][]byte
	for i := 0; i < 3; i++ {
		k, err := bls.KeyGen[K](verifmc.Shake(fmt.Sprintf("c11-bls-%d", i), 32), nil, nil)
		if err != nil {
			panic(err)
		}
		sks = append(sks, c11Input{fmt.Sprintf("valid%d", i), c11MustBytes(k.MarshalBinary())})
		pks = append(pks, c11Input{fmt.Sprintf("valid%d", i), c11MustBytes(k.PublicKey().MarshalBinary())})
		sigs = append(sigs, bls.Sign(k, msg))
	}
	sks = append(sks, c11Input{"zero", make([]byte, len(sks[0].data))}, c11Input{"allFF", c11Fill(len(sks[0].data), 0xff)}, c11Input{"short", []byte{1, 2, 3}})
	pks = append(pks, c11Input{"allFF", c11Fill(len(pks[0].data), 0xff)}, c11Input{"short", []byte{1, 2, 3}})
	return []*c11Target{
		{name: "bls:" + tag + ".PrivateKey.UnmarshalBinary", fresh: func() interface{} { return new(bls.PrivateKey[K]) },
			decode: func(obj interface{}, in []byte) (bool, string) {
				if err := obj.(*bls.PrivateKey[K]).UnmarshalBinary(in); err != nil {
					return false, err.Error()
				}
				return true, ""
			},
			observe: func(obj interface{}) []byte {
				k := obj.(*bls.PrivateKey[K])
				return c11Cat(c11MustBytes(k.MarshalBinary()), c11MustBytes(k.PublicKey().MarshalBinary()), bls.Sign(k, msg))
			}, inputs: sks},
		{name: "bls:" + tag + ".PublicKey.UnmarshalBinary", fresh: func() interface{} { return new(bls.PublicKey[K]) },
			decode: func(obj interface{}, in []byte) (bool, string) {
				if err := obj.(*bls.PublicKey[K]).UnmarshalBinary(in); err != nil {
					return false, err.Error()
				}
				return true, ""
			},
			observe: func(obj interface{}) []byte {
				k := obj.(*bls.PublicKey[K])
				v := make([]byte, len(sigs))
				for i, s := range sigs {
					if bls.Verify(k, msg, s) {
						v[i] = 1
					}
				}
				return c11Cat(c11MustBytes(k.MarshalBinary()), v)
			}, inputs: pks},
	}
}

func c11ErrDecode(err error) (bool, string) {
	if err != nil {
		return false, err.Error()
	}
	return true, ""
}

func c11CurveTargets() []*c11Target {
	var out []*c11Target
	// bls12381 ff.Scalar, ff.Fp
	var scIn, fpIn []c11Input
	for i := 0; i < 3; i++ {
		var s ff.Scalar
		s.SetBytes(verifmc.Shake(fmt.Sprintf("c11-ffs-%d", i), 48))
		scIn = append(scIn, c11Input{fmt.Sprintf("valid%d", i), c11MustBytes(s.MarshalBinary())})
		var f ff.Fp
		f.SetBytes(verifmc.Shake(fmt.Sprintf("c11-fff-%d", i), 64))
		fpIn = append(fpIn, c11Input{fmt.Sprintf("valid%d", i), c11MustBytes(f.MarshalBinary())})
	}
	scAll := append(append([]c11Input{}, scIn...), c11Input{"allFF", c11Fill(ff.ScalarSize, 0xff)}, c11Input{"short", []byte{7}}, c11Input{"empty", []byte{}})
	fpAll := append(append([]c11Input{}, fpIn...), c11Input{"allFF", c11Fill(ff.FpSize, 0xff)}, c11Input{"short", []byte{7}}, c11Input{"empty", []byte{}})
	obsSc := func(obj interface{}) []byte { return c11MustBytes(obj.(*ff.Scalar).MarshalBinary()) }
	obsFp := func(obj interface{}) []byte { return c11MustBytes(obj.(*ff.Fp).MarshalBinary()) }
	out = append(out,
		&c11Target{name: "bls12381/ff.Scalar.UnmarshalBinary", fresh: func() interface{} { return new(ff.Scalar) },
			decode:  func(o interface{}, in []byte) (bool, string) { return c11ErrDecode(o.(*ff.Scalar).UnmarshalBinary(in)) },
			observe: obsSc, inputs: scAll},
		&c11Target{name: "bls12381/ff.Scalar.SetBytes", fresh: func() interface{} { return new(ff.Scalar) },
			decode:  func(o interface{}, in []byte) (bool, string) { o.(*ff.Scalar).SetBytes(in); return true, "" },
			observe: obsSc, inputs: append(append([]c11Input{}, scAll...), c11Input{"long", verifmc.Shake("c11-long", 80)})},
		&c11Target{name: "bls12381/ff.Fp.UnmarshalBinary", fresh: func() interface{} { return new(ff.Fp) },
			decode:  func(o interface{}, in []byte) (bool, string) { return c11ErrDecode(o.(*ff.Fp).UnmarshalBinary(in)) },
			observe: obsFp, inputs: fpAll},
		&c11Target{name: "bls12381/ff.Fp.SetBytes", fresh: func() interface{} { return new(ff.Fp) },
			decode:  func(o interface{}, in []byte) (bool, string) { o.(*ff.Fp).SetBytes(in); return true, "" },
			observe: obsFp, inputs: append(append([]c11Input{}, fpAll...), c11Input{"long", verifmc.Shake("c11-long", 80)})},
	)
	// G1, G2, Gt
	var g1In, g2In, gtIn []c11Input
	for i := 0; i < 3; i++ {
		var s ff.Scalar
		s.SetUint64(uint64(3 + 5*i))
		var p bls12381.G1
		p.ScalarMult(&s, bls12381.G1Generator())
		var q bls12381.G2
		q.ScalarMult(&s, bls12381.G2Generator())
		if i < 2 {
			g1In = append(g1In, c11Input{fmt.Sprintf("compressed%d", i), p.BytesCompressed()})
			g2In = append(g2In, c11Input{fmt.Sprintf("compressed%d", i), q.BytesCompressed()})
		} else {
			g1In = append(g1In, c11Input{"uncompressed2", p.Bytes()})
			g2In = append(g2In, c11Input{"uncompressed2", q.Bytes()})
		}
		gt := bls12381.Pair(&p, bls12381.G2Generator())
		gtIn = append(gtIn, c11Input{fmt.Sprintf("valid%d", i), c11MustBytes(gt.MarshalBinary())})
	}
	var id1 bls12381.G1
	id1.SetIdentity()
	var id2 bls12381.G2
	id2.SetIdentity()
	g1In = append(g1In, c11Input{"identity", id1.BytesCompressed()}, c11Input{"allFF", c11Fill(bls12381.G1SizeCompressed, 0xff)}, c11Input{"short", []byte{0x80}})
	g2In = append(g2In, c11Input{"identity", id2.BytesCompressed()}, c11Input{"allFF", c11Fill(bls12381.G2SizeCompressed, 0xff)}, c11Input{"short", []byte{0x80}})
	gtIn = append(gtIn, c11Input{"allFF", c11Fill(len(gtIn[0].data), 0xff)}, c11Input{"short", []byte{1}})
	out = append(out,
		&c11Target{name: "bls12381.G1.SetBytes", fresh: func() interface{} { return new(bls12381.G1) },
			decode: func(o interface{}, in []byte) (bool, string) { return c11ErrDecode(o.(*bls12381.G1).SetBytes(in)) },
			observe: func(o interface{}) []byte {
				g := o.(*bls12381.G1)
				return c11Cat(g.Bytes(), g.BytesCompressed(), []byte(fmt.Sprint(g.IsOnG1(), g.IsIdentity())))
			}, inputs: g1In},
		&c11Target{name: "bls12381.G2.SetBytes", fresh: func() interface{} { return new(bls12381.G2) },
			decode: func(o interface{}, in []byte) (bool, string) { return c11ErrDecode(o.(*bls12381.G2).SetBytes(in)) },
			observe: func(o interface{}) []byte {
				g := o.(*bls12381.G2)
				return c11Cat(g.Bytes(), g.BytesCompressed(), []byte(fmt.Sprint(g.IsOnG2(), g.IsIdentity())))
			}, inputs: g2In},
		&c11Target{name: "bls12381.Gt.UnmarshalBinary", fresh: func() interface{} { return new(bls12381.Gt) },
			decode: func(o interface{}, in []byte) (bool, string) {
				return c11ErrDecode(o.(*bls12381.Gt).UnmarshalBinary(in))
			},
			observe: func(o interface{}) []byte { return c11MustBytes(o.(*bls12381.Gt).MarshalBinary()) }, inputs: gtIn},
	)
	// goldilocks
	var gpIn, gsIn []c11Input
	for i := 0; i < 3; i++ {
		var k goldilocks.Scalar
		k.FromBytes(verifmc.Shake(fmt.Sprintf("c11-gold-%d", i), 56))
		gsIn = append(gsIn, c11Input{fmt.Sprintf("valid%d", i), append([]byte{}, k[:]...)})
		p := goldilocks.Curve{}.ScalarBaseMult(&k)
		gpIn = append(gpIn, c11Input{fmt.Sprintf("valid%d", i), c11MustBytes(p.MarshalBinary())})
	}
	gpIn = append(gpIn, c11Input{"allFF", c11Fill(len(gpIn[0].data), 0xff)}, c11Input{"short", []byte{1, 2}})
	gsIn = append(gsIn, c11Input{"allFF", c11Fill(goldilocks.ScalarSize, 0xff)}, c11Input{"short", []byte{9, 9}}, c11Input{"long", verifmc.Shake("c11-gold-long", 114)})
	out = append(out,
		&c11Target{name: "goldilocks.Point.UnmarshalBinary", fresh: func() interface{} { return new(goldilocks.Point) },
			decode: func(o interface{}, in []byte) (bool, string) {
				return c11ErrDecode(o.(*goldilocks.Point).UnmarshalBinary(in))
			},
			observe: func(o interface{}) []byte {
				p := o.(*goldilocks.Point)
				return c11Cat(c11MustBytes(p.MarshalBinary()), []byte(fmt.Sprint(goldilocks.Curve{}.IsOnCurve(p), p.IsIdentity())))
			}, inputs: gpIn},
		&c11Target{name: "goldilocks.Scalar.FromBytes", fresh: func() interface{} { return new(goldilocks.Scalar) },
			decode:  func(o interface{}, in []byte) (bool, string) { o.(*goldilocks.Scalar).FromBytes(in); return true, "" },
			observe: func(o interface{}) []byte { k := o.(*goldilocks.Scalar); return append([]byte{}, k[:]...) }, inputs: gsIn},
	)
	// FourQ
	var fqIn []c11Input
	for i := 0; i < 3; i++ {
		var k [32]byte
		copy(k[:], verifmc.Shake(fmt.Sprintf("c11-fourq-%d", i), 32))
		var p fourq.Point
		p.ScalarBaseMult(&k)
		var enc [32]byte
		p.Marshal(&enc)
		fqIn = append(fqIn, c11Input{fmt.Sprintf("valid%d", i), enc[:]})
	}
	fqIn = append(fqIn, c11Input{"allFF", c11Fill(32, 0xff)}, c11Input{"zero", make([]byte, 32)})
	out = append(out, &c11Target{name: "fourq.Point.Unmarshal", fresh: func() interface{} { return new(fourq.Point) },
		decode: func(o interface{}, in []byte) (bool, string) {
			ok, e, _ := c11ReflectDecode(o, "Unmarshal", in)
			return ok, e
		},
		observe: func(o interface{}) []byte {
			var enc [32]byte
			p := o.(*fourq.Point)
			p.Marshal(&enc)
			return c11Cat(enc[:], []byte(fmt.Sprint(p.IsOnCurve(), p.IsIdentity())))
		}, inputs: fqIn})
	return out
}

func c11MiscTargets() []*c11Target {
	var out []*c11Target
	// SIDH / SIKE keys (Import)
	for _, id := range []uint8{sidh.Fp434, sidh.Fp503} {
		for _, v := range []sidh.KeyVariant{sidh.KeyVariantSidhA, sidh.KeyVariantSidhB} {
			id, v := id, v
			var pubIn, prvIn []c11Input
			for i := 0; i < 3; i++ {
				prv := sidh.NewPrivateKey(id, v)
				if err := prv.Generate(verifmc.NewDetReader(fmt.Sprintf("c11-sidh-%d-%d-%d", id, v, i))); err != nil {
					panic(err)
				}
				pub := sidh.NewPublicKey(id, v)
				prv.GeneratePublicKey(pub)
				pb := make([]byte, pub.Size())
				pub.Export(pb)
				sb := make([]byte, prv.Size())
				prv.Export(sb)
				pubIn = append(pubIn, c11Input{fmt.Sprintf("valid%d", i), pb})
				prvIn = append(prvIn, c11Input{fmt.Sprintf("valid%d", i), sb})
			}
			pubIn = append(pubIn, c11Input{"short", append([]byte{}, pubIn[0].data[:10]...)})
			prvIn = append(prvIn, c11Input{"short", append([]byte{}, prvIn[0].data[:3]...)})
			tag := fmt.Sprintf("sidh:p%d/variant%d", map[uint8]int{sidh.Fp434: 434, sidh.Fp503: 503}[id], v)
			out = append(out,
				&c11Target{name: tag + ".PublicKey.Import", fresh: func() interface{} { return sidh.NewPublicKey(id, v) },
					decode: func(o interface{}, in []byte) (bool, string) { return c11ErrDecode(o.(*sidh.PublicKey).Import(in)) },
					observe: func(o interface{}) []byte {
						p := o.(*sidh.PublicKey)
						b := make([]byte, p.Size())
						p.Export(b)
						return b
					}, inputs: pubIn},
				&c11Target{name: tag + ".PrivateKey.Import", fresh: func() interface{} { return sidh.NewPrivateKey(id, v) },
					decode: func(o interface{}, in []byte) (bool, string) { return c11ErrDecode(o.(*sidh.PrivateKey).Import(in)) },
					observe: func(o interface{}) []byte {
						p := o.(*sidh.PrivateKey)
						b := make([]byte, p.Size())
						p.Export(b)
						pub := sidh.NewPublicKey(id, v)
						p.GeneratePublicKey(pub)
						pb := make([]byte, pub.Size())
						pub.Export(pb)
						return c11Cat(b, pb)
					}, inputs: prvIn})
		}
	}
	// Prio3 field elements and vectors
	var f64In, f128In, v64In, v128In []c11Input
	for i := 0; i < 3; i++ {
		var a fp64.Fp
		_ = a.Random(verifmc.NewDetReader(fmt.Sprintf("c11-fp64-%d", i)))
		f64In = append(f64In, c11Input{fmt.Sprintf("valid%d", i), c11MustBytes(a.MarshalBinary())})
		var b fp128.Fp
		_ = b.Random(verifmc.NewDetReader(fmt.Sprintf("c11-fp128-%d", i)))
		f128In = append(f128In, c11Input{fmt.Sprintf("valid%d", i), c11MustBytes(b.MarshalBinary())})
		va := make(fp64.Vec, 3)
		_ = va.Random(verifmc.NewDetReader(fmt.Sprintf("c11-v64-%d", i)))
		v64In = append(v64In, c11Input{fmt.Sprintf("valid%d", i), c11MustBytes(va.MarshalBinary())})
		vb := make(fp128.Vec, 3)
		_ = vb.Random(verifmc.NewDetReader(fmt.Sprintf("c11-v128-%d", i)))
		v128In = append(v128In, c11Input{fmt.Sprintf("valid%d", i), c11MustBytes(vb.MarshalBinary())})
	}
	// an invalid vector: valid first element, out-of-range second one (partial overwrite before failing)
	mix := func(valid []byte, size int) []byte {
		b := append([]byte{}, valid...)
		for i := size; i < 2*size; i++ {
			b[i] = 0xff
		}
		return b
	}
	f64In = append(f64In, c11Input{"allFF", c11Fill(8, 0xff)}, c11Input{"short", []byte{1}})
	f128In = append(f128In, c11Input{"allFF", c11Fill(16, 0xff)}, c11Input{"short", []byte{1}})
	v64In = append(v64In, c11Input{"second-out-of-range", mix(v64In[1].data, 8)}, c11Input{"short", []byte{1}})
	v128In = append(v128In, c11Input{"second-out-of-range", mix(v128In[1].data, 16)}, c11Input{"short", []byte{1}})
	out = append(out,
		&c11Target{name: "prio3/fp64.Fp.UnmarshalBinary", fresh: func() interface{} { return new(fp64.Fp) },
			decode:  func(o interface{}, in []byte) (bool, string) { return c11ErrDecode(o.(*fp64.Fp).UnmarshalBinary(in)) },
			observe: func(o interface{}) []byte { return c11MustBytes(o.(*fp64.Fp).MarshalBinary()) }, inputs: f64In},
		&c11Target{name: "prio3/fp128.Fp.UnmarshalBinary", fresh: func() interface{} { return new(fp128.Fp) },
			decode:  func(o interface{}, in []byte) (bool, string) { return c11ErrDecode(o.(*fp128.Fp).UnmarshalBinary(in)) },
			observe: func(o interface{}) []byte { return c11MustBytes(o.(*fp128.Fp).MarshalBinary()) }, inputs: f128In},
		&c11Target{name: "prio3/fp64.Vec.UnmarshalBinary", fresh: func() interface{} { return make(fp64.Vec, 3) },
			decode:  func(o interface{}, in []byte) (bool, string) { return c11ErrDecode(o.(fp64.Vec).UnmarshalBinary(in)) },
			observe: func(o interface{}) []byte { return c11MustBytes(o.(fp64.Vec).MarshalBinary()) }, inputs: v64In},
		&c11Target{name: "prio3/fp128.Vec.UnmarshalBinary", fresh: func() interface{} { return make(fp128.Vec, 3) },
			decode:  func(o interface{}, in []byte) (bool, string) { return c11ErrDecode(o.(fp128.Vec).UnmarshalBinary(in)) },
			observe: func(o interface{}) []byte { return c11MustBytes(o.(fp128.Vec).MarshalBinary()) }, inputs: v128In},
	)
	// DLEQ proofs
	for _, g := range []group.Group{group.P256, group.Ristretto255} {
		g := g
		var in []c11Input
		for i := 0; i < 3; i++ {
			k := g.HashToScalar([]byte{byte(i)}, []byte("c11-dleq-k"))
			A := g.HashToElement([]byte{byte(i)}, []byte("c11-dleq-A"))
			B := g.HashToElement([]byte{byte(i)}, []byte("c11-dleq-B"))
			kA, kB := g.NewElement().Mul(A, k), g.NewElement().Mul(B, k)
			pr, err := dleq.Prover{Params: dleq.Params{G: g, H: 5 /* crypto.SHA256 */, DST: []byte("c11")}}.Prove(k, A, kA, B, kB, verifmc.NewDetReader(fmt.Sprintf("c11-dleq-%d", i)))
			if err != nil {
				panic(err)
			}
			in = append(in, c11Input{fmt.Sprintf("valid%d", i), c11MustBytes(pr.MarshalBinary())})
		}
		in = append(in, c11Input{"short", []byte{1, 2, 3}})
		out = append(out, &c11Target{name: "dleq:" + fmt.Sprint(g) + ".Proof.UnmarshalBinary", fresh: func() interface{} { return new(dleq.Proof) },
			decode: func(o interface{}, in []byte) (bool, string) {
				return c11ErrDecode(o.(*dleq.Proof).UnmarshalBinary(g, in))
			},
			observe: func(o interface{}) []byte { return c11MustBytes(o.(*dleq.Proof).MarshalBinary()) }, inputs: in})
	}
	return out
}

// c11LoadRSA reads the RSA fixture of /verif/ref/testdata (no key generation: crypto/rsa.GenerateKey is not deterministic).
func c11LoadRSA() *cryptorsa.PrivateKey {
	raw, err := os.ReadFile(filepath.Join(os.Getenv("VERIF_DIR"), "ref", "testdata", "rsa_1024.pem"))
	if err != nil {
		panic(err)
	}
	blk, _ := pem.Decode(raw)
	if blk == nil {
		panic("no PEM block in rsa_1024.pem")
	}
	if k, err := x509.ParsePKCS1PrivateKey(blk.Bytes); err == nil {
		return k
	}
	k, err := x509.ParsePKCS8PrivateKey(blk.Bytes)
	if err != nil {
		panic(err)
	}
	return k.(*cryptorsa.PrivateKey)
}

// Threshold RSA key shares and signature shares. The alphabet mixes encodings WITH and WITHOUT the
// optional cached 2*delta*s_i, and the object is used (Sign fills the cache) between decodes.
func c11TssTargets() []*c11Target {
	key := c11LoadRSA()
	digest, err := tssrsa.PadHash(&tssrsa.PKCS1v15Padder{}, crypto.SHA256, &key.PublicKey, []byte("verif-c11 tss message"))
	if err != nil {
		panic(err)
	}
	var ksIn, ssIn []c11Input
	for _, cache := range []bool{false, true} {
		shares, err := tssrsa.Deal(verifmc.NewDetReader(fmt.Sprintf("c11-tss-deal-%v", cache)), 3, 2, key, cache)
		if err != nil {
			panic(err)
		}
		for i := range shares[:2] {
			ksIn = append(ksIn, c11Input{fmt.Sprintf("share%d(cache=%v)", i+1, cache), c11MustBytes(shares[i].MarshalBinary())})
			sg, err := shares[i].Sign(nil, &key.PublicKey, digest, false)
			if err != nil {
				panic(err)
			}
			if !cache {
				ssIn = append(ssIn, c11Input{fmt.Sprintf("signshare%d", i+1), c11MustBytes(sg.MarshalBinary())})
			}
		}
	}
	ksIn = append(ksIn, c11Input{"short", []byte{0, 3, 0}}, c11Input{"truncated", append([]byte{}, ksIn[0].data[:12]...)})
	ssIn = append(ssIn, c11Input{"short", []byte{0, 3, 0}}, c11Input{"allFF", c11Fill(len(ssIn[0].data), 0xff)})
	return []*c11Target{
		{name: "tss/rsa.KeyShare.UnmarshalBinary", fresh: func() interface{} { return new(tssrsa.KeyShare) },
			decode: func(o interface{}, in []byte) (bool, string) {
				return c11ErrDecode(o.(*tssrsa.KeyShare).UnmarshalBinary(in))
			},
			observe: func(o interface{}) []byte {
				k := o.(*tssrsa.KeyShare)
				// Sign first (it fills the cache), MarshalBinary afterwards: the observation is then the same
				// however often it is taken on one object
				sg, err := k.Sign(nil, &key.PublicKey, digest, false)
				e := ""
				var sb []byte
				if err != nil {
					e = err.Error()
				} else {
					sb = c11MustBytes(sg.MarshalBinary())
				}
				return c11Cat(c11MustBytes(k.MarshalBinary()), sb, []byte(e), []byte(fmt.Sprint(k.Index, k.Players, k.Threshold)))
			}, inputs: ksIn},
		{name: "tss/rsa.SignShare.UnmarshalBinary", fresh: func() interface{} { return new(tssrsa.SignShare) },
			decode: func(o interface{}, in []byte) (bool, string) {
				return c11ErrDecode(o.(*tssrsa.SignShare).UnmarshalBinary(in))
			},
			observe: func(o interface{}) []byte {
				k := o.(*tssrsa.SignShare)
				return c11Cat(c11MustBytes(k.MarshalBinary()), []byte(fmt.Sprint(k.Index, k.Players, k.Threshold)))
			},
			inputs: ssIn},
	}
}

// c11Holder lets constructors that RETURN a decoded object (Scheme.UnmarshalBinary*Key,
// hpke.UnmarshalSealer, NewKeyFromSeed, FromBytes ...) be driven like in-place decoders.
type c11Holder struct{ v interface{} }

func c11HolderTarget(name string, mk func(in []byte) (interface{}, error), observe func(obj interface{}) []byte, valid [][]byte) *c11Target {
	tg := &c11Target{name: name,
		fresh: func() interface{} { return &c11Holder{} },
		decode: func(o interface{}, in []byte) (bool, string) {
			v, err := mk(in)
			if err != nil {
				return false, err.Error()
			}
			if v == nil || (reflect.ValueOf(v).Kind() == reflect.Ptr && reflect.ValueOf(v).IsNil()) {
				return false, "nil result"
			}
			o.(*c11Holder).v = v
			return true, ""
		},
		observe: func(o interface{}) []byte { return observe(o.(*c11Holder).v) }}
	n := len(valid[0])
	for i, v := range valid {
		tg.inputs = append(tg.inputs, c11Input{fmt.Sprintf("valid%d", i), v})
	}
	tg.inputs = append(tg.inputs, c11Input{"allFF", c11Fill(n, 0xff)}, c11Input{"short", append([]byte{}, valid[0][:n/2]...)})
	return tg
}

// Constructors and decoders of the group API, HPKE contexts and seeds.
func c11ConstructorTargets() []*c11Target {
	var out []*c11Target
	for _, g := range []group.Group{group.P256, group.P384, group.P521, group.Ristretto255} {
		g := g
		var es, ec, ss [][]byte
		for i := 0; i < 3; i++ {
			e := g.HashToElement([]byte{byte(i)}, []byte("c11-ctor-e"))
			sc := g.HashToScalar([]byte{byte(i)}, []byte("c11-ctor-s"))
			es = append(es, c11MustBytes(e.MarshalBinary()))
			ec = append(ec, c11MustBytes(e.MarshalBinaryCompress()))
			ss = append(ss, c11MustBytes(sc.MarshalBinary()))
		}
		obsE := func(o interface{}) []byte {
			e := o.(group.Element)
			return c11Cat(c11MustBytes(e.MarshalBinary()), c11MustBytes(e.MarshalBinaryCompress()), c11MustBytes(g.NewElement().Dbl(e).MarshalBinary()))
		}
		obsS := func(o interface{}) []byte {
			x := o.(group.Scalar)
			return c11Cat(c11MustBytes(x.MarshalBinary()), c11MustBytes(g.NewScalar().Add(x, x).MarshalBinary()), c11MustBytes(g.NewElement().MulGen(x).MarshalBinary()))
		}
		mkE := func(in []byte) (interface{}, error) { e := g.NewElement(); return e, e.UnmarshalBinary(in) }
		mkS := func(in []byte) (interface{}, error) { x := g.NewScalar(); return x, x.UnmarshalBinary(in) }
		tS := c11HolderTarget("group:"+fmt.Sprint(g)+".Scalar.UnmarshalBinary", mkS, obsS, ss)
		tS.inputs = tS.inputs[:len(tS.inputs)-2] // scalar decoders of the NIST groups pad / panic on other lengths (C09/C10 matter)
		tS.inputs = append(tS.inputs, c11Input{"zero", make([]byte, len(ss[0]))})
		out = append(out,
			c11HolderTarget("group:"+fmt.Sprint(g)+".Element.UnmarshalBinary", mkE, obsE, es),
			c11HolderTarget("group:"+fmt.Sprint(g)+".Element.UnmarshalBinary(compressed)", mkE, obsE, ec), tS)
	}
	// HPKE contexts (observation never advances the context)
	{
		suite := hpke.NewSuite(hpke.KEM_X25519_HKDF_SHA256, hpke.KDF_HKDF_SHA256, hpke.AEAD_AES128GCM)
		sch := hpke.KEM_X25519_HKDF_SHA256.Scheme()
		var rs, ro [][]byte
		for i := 0; i < 3; i++ {
			pk, sk := sch.DeriveKeyPair(verifmc.Shake(fmt.Sprintf("c11-ctor-hpke-%d", i), sch.SeedSize()))
			snd, _ := suite.NewSender(pk, []byte("c11"))
			enc, sealer, err := snd.Setup(verifmc.NewDetReader(fmt.Sprintf("c11-ctor-hpke-r%d", i)))
			if err != nil {
				panic(err)
			}
			rcv, _ := suite.NewReceiver(sk, []byte("c11"))
			opener, err := rcv.Setup(enc)
			if err != nil {
				panic(err)
			}
			rs = append(rs, c11MustBytes(sealer.MarshalBinary()))
			ro = append(ro, c11MustBytes(opener.MarshalBinary()))
		}
		obs := func(o interface{}) []byte {
			c := o.(hpke.Context)
			return c11Cat(c11MustBytes(c.MarshalBinary()), c.Export([]byte("c11 exp"), 16))
		}
		out = append(out,
			c11HolderTarget("hpke.UnmarshalSealer", func(in []byte) (interface{}, error) { return hpke.UnmarshalSealer(in) }, obs, rs),
			c11HolderTarget("hpke.UnmarshalOpener", func(in []byte) (interface{}, error) { return hpke.UnmarshalOpener(in) }, obs, ro))
	}
	// Ed25519 / Ed448 keys from seeds, goldilocks.FromBytes
	{
		var s25, s448, gp [][]byte
		for i := 0; i < 3; i++ {
			s25 = append(s25, verifmc.Shake(fmt.Sprintf("c11-ctor-ed25519-%d", i), ed25519.SeedSize))
			s448 = append(s448, verifmc.Shake(fmt.Sprintf("c11-ctor-ed448-%d", i), ed448.SeedSize))
			var k goldilocks.Scalar
			k.FromBytes(verifmc.Shake(fmt.Sprintf("c11-ctor-gold-%d", i), 56))
			gp = append(gp, c11MustBytes(goldilocks.Curve{}.ScalarBaseMult(&k).MarshalBinary()))
		}
		msg := []byte("c11 ctor msg")
		t25 := c11HolderTarget("ed25519.NewKeyFromSeed", func(in []byte) (interface{}, error) { return ed25519.NewKeyFromSeed(in), nil },
			func(o interface{}) []byte {
				k := o.(ed25519.PrivateKey)
				return c11Cat(k, k.Seed(), ed25519.Sign(k, msg))
			}, s25)
		t25.inputs = t25.inputs[:3] // other lengths panic by contract
		t448 := c11HolderTarget("ed448.NewKeyFromSeed", func(in []byte) (interface{}, error) { return ed448.NewKeyFromSeed(in), nil },
			func(o interface{}) []byte {
				k := o.(ed448.PrivateKey)
				return c11Cat(k, k.Seed(), ed448.Sign(k, msg, ""))
			}, s448)
		t448.inputs = t448.inputs[:3]
		tg := c11HolderTarget("goldilocks.FromBytes", func(in []byte) (interface{}, error) { return goldilocks.FromBytes(in) },
			func(o interface{}) []byte { return c11MustBytes(o.(*goldilocks.Point).MarshalBinary()) }, gp)
		out = append(out, t25, t448, tg)
	}
	return out
}

func c11AllDecodeTargets() []*c11Target {
	var all []*c11Target
	all = append(all, c11KemTargets()...)
	all = append(all, c11SignTargets()...)
	all = append(all, c11PkeTargets()...)
	all = append(all, c11OprfTargets()...)
	all = append(all, c11BlsKeys[bls.G1]("KeyG1SigG2")...)
	all = append(all, c11BlsKeys[bls.G2]("KeyG2SigG1")...)
	all = append(all, c11CurveTargets()...)
	all = append(all, c11MiscTargets()...)
	all = append(all, c11TssTargets()...)
	all = append(all, c11ConstructorTargets()...)
	return all
}

// c11Slow reports whether one observation of the target costs milliseconds (pairings,
// isogenies, lattice signatures): such targets get one level less of history depth.
func c11Slow(name string) bool {
	for _, p := range []string{"bls:", "sidh:", "sign:", "kem:FrodoKEM"} {
		if strings.HasPrefix(name, p) {
			return true
		}
	}
	return false
}

type c11DecViol struct {
	key, caseID, what string
	n                 int
	payload           interface{}
}

type c11DecCollector struct {
	mu sync.Mutex
	m  map[string]*c11DecViol
}

func (c *c11DecCollector) add(v *c11DecViol) {
	c.mu.Lock()
	defer c.mu.Unlock()
	if o := c.m[v.key]; o == nil || v.n < o.n || (v.n == o.n && v.caseID < o.caseID) {
		c.m[v.key] = v
	}
}

func (c *c11DecCollector) flush(r *verifmc.Run) {
	keys := make([]string, 0, len(c.m))
	for k := range c.m {
		keys = append(keys, k)
	}
	sort.Strings(keys)
	for _, k := range keys {
		v := c.m[k]
		r.Violation(v.key, v.caseID, v.what, v.payload)
	}
}

func TestVerifC11_hist_decode(t *testing.T) {
	r := verifmc.Start(t, "C11", "hist_decode")
	defer r.Finish()
	depth := r.Pick(3, 4)
	depthSlow := r.Pick(2, 3)
	r.Rule(fmt.Sprintf("per (type, decoding method): every history of 1..%d decode calls (1..%d for targets whose observation needs pairings / isogenies / lattice signing) over the type's alphabet "+
		"(3 valid encodings + invalid ones) on ONE object, the object being observed (used) after every successful step; after the last step outcome and full exported observation are compared "+
		"with the same decode on a fresh object; non-trivial = distinct (target, history) of length >= 2", depth, depthSlow))
	targets := c11AllDecodeTargets()
	names := make([]string, len(targets))
	var slowNames []string
	for i, tg := range targets {
		names[i] = tg.name
		if c11Slow(tg.name) {
			slowNames = append(slowNames, tg.name)
		}
	}
	r.Set("targets", names)
	r.Set("history_depth", depth)
	r.Set("history_depth_slow_targets", depthSlow)
	r.Set("slow_targets", len(slowNames))
	col := &c11DecCollector{m: map[string]*c11DecViol{}}
	var retMu sync.Mutex
	retaining := map[string]bool{}
	tgTime := map[string]float64{}
	samples := make([]map[string]interface{}, len(targets))
	freshOut := make([][]c11Outcome, len(targets))
	usable := make([][]bool, len(targets))
	good := make([]bool, len(targets))
	// phase 1: outcomes on fresh objects, computed twice: the observation must be deterministic
	verifmc.ParallelFor(len(targets), func(ti int) {
		tg := targets[ti]
		freshOut[ti] = make([]c11Outcome, len(tg.inputs))
		usable[ti] = make([]bool, len(tg.inputs))
		nOK := 0
		for i, in := range tg.inputs {
			o1, mut, ret := tg.step(tg.fresh(), in, true)
			o2, _, _ := tg.step(tg.fresh(), in, false)
			r.Eval(2)
			if !c11SameOutcome(o1, o2) || o1.panicked != o2.panicked {
				t.Errorf("%s: observation of a fresh object after %s is not deterministic (%s vs %s)", tg.name, in.name, o1, o2)
				continue
			}
			freshOut[ti][i] = o1
			usable[ti][i] = true
			r.Outcome(map[bool]string{true: "fresh-decode-ok", false: "fresh-decode-fails"}[o1.ok && !o1.panicked])
			if o1.ok && !o1.panicked {
				nOK++
			}
			if o1.panicked {
				r.Count("inputs_that_panic_on_a_fresh_object", 1)
			}
			if mut {
				col.add(&c11DecViol{key: "C11|" + tg.name + "|operand-mutated|" + in.name, caseID: tg.name + "|" + in.name, n: 1,
					what: fmt.Sprintf("%s changed its input buffer (input %s)", tg.name, in.name), payload: map[string]interface{}{"input": verifmc.Hex(in.data)}})
			}
			if ret {
				retMu.Lock()
				retaining[tg.name] = true
				retMu.Unlock()
				col.add(&c11DecViol{key: "C11|" + tg.name + "|object-depends-on-input-buffer|overwritten-after-decode", caseID: tg.name + "|" + in.name + "|overwrite", n: 1,
					what:    fmt.Sprintf("%s: after a successful decode of %s the caller overwrites its input buffer (every byte ^0xFF): the observation of the decoded object changes, i.e. the object keeps a reference to the caller's buffer", tg.name, in.name),
					payload: map[string]interface{}{"input": verifmc.Hex(in.data)}})
			}
			if o1.ok && !o1.panicked {
				r.Count("input_buffer_overwritten_after_decode", 1)
			}
		}
		// the same buffer reused for a second decode with different content: both objects must equal
		// objects decoded from private copies (also when the first one is first observed only afterwards)
		for i, a := range tg.inputs {
			if !usable[ti][i] || !freshOut[ti][i].ok || freshOut[ti][i].panicked {
				continue
			}
			for j, b := range tg.inputs {
				if i == j || !usable[ti][j] || !freshOut[ti][j].ok || freshOut[ti][j].panicked || len(a.data) != len(b.data) || bytes.Equal(a.data, b.data) {
					continue
				}
				buf := append([]byte{}, a.data...)
				o1, o2 := tg.fresh(), tg.fresh()
				var obs1, obs2 []byte
				var ok1, ok2 bool
				p, what := verifmc.Try(func() {
					ok1, _ = tg.decode(o1, buf)
					copy(buf, b.data)
					ok2, _ = tg.decode(o2, buf)
					obs1, obs2 = tg.observe(o1), tg.observe(o2)
				})
				r.Eval(1)
				r.Count("one_buffer_reused_for_two_decodes", 1)
				r.Distinct(tg.name, "reuse", a.name, b.name)
				if p || !ok1 || !ok2 || !bytes.Equal(obs1, freshOut[ti][i].obs) || !bytes.Equal(obs2, freshOut[ti][j].obs) {
					which := "first"
					if !p && ok1 && bytes.Equal(obs1, freshOut[ti][i].obs) {
						which = "second"
					}
					col.add(&c11DecViol{key: "C11|" + tg.name + "|object-depends-on-input-buffer|buffer-reused-for-second-decode", caseID: tg.name + "|" + a.name + "," + b.name + "|reuse", n: 2,
						what: fmt.Sprintf("%s: k1 := decode(buf holding %s); copy(buf, %s); k2 := decode(buf): the %s object differs from one decoded from a private copy (panic=%v %s)", tg.name, a.name, b.name, which, p, what)})
				}
				break // one partner per input
			}
		}
		if nOK < 2 {
			t.Errorf("%s: fewer than 2 encodings decode successfully into a fresh object", tg.name)
			return
		}
		good[ti] = true
	})
	// phase 2: histories; one job per (target, first letter)
	type job struct{ ti, first int }
	var jobs []job
	for ti, tg := range targets {
		if !good[ti] {
			continue
		}
		if r.Replaying() && !strings.HasPrefix(r.ReplayCase(), tg.name+"|") {
			continue
		}
		for i := range tg.inputs {
			if usable[ti][i] {
				jobs = append(jobs, job{ti, i})
			}
		}
	}
	verifmc.ParallelFor(len(jobs), func(ji int) {
		ti := jobs[ji].ti
		tg := targets[ti]
		t0 := time.Now()
		defer func() {
			retMu.Lock()
			tgTime[tg.name] += time.Since(t0).Seconds()
			retMu.Unlock()
		}()
		maxd := depth
		if c11Slow(tg.name) {
			maxd = depthSlow
		}
		fo := freshOut[ti]
		var rec func(hist []int)
		rec = func(hist []int) {
			if len(hist) >= maxd {
				return
			}
			for i := range tg.inputs {
				if !usable[ti][i] {
					continue
				}
				if len(hist) == 0 && i != jobs[ji].first {
					continue
				}
				h := append(append([]int{}, hist...), i)
				hn := make([]string, len(h))
				for k, x := range h {
					hn[k] = tg.inputs[x].name
				}
				caseID := tg.name + "|" + strings.Join(hn, ",")
				if r.Replaying() && !strings.HasPrefix(r.ReplayCase(), caseID) && !strings.HasPrefix(caseID, r.ReplayCase()) {
					continue
				}
				// replay the history on one object
				obj := tg.fresh()
				var last c11Outcome
				stop := false
				for k, x := range h {
					o, mut, _ := tg.step(obj, tg.inputs[x], false)
					last = o
					if k < len(h)-1 {
						if o.panicked {
							stop = true // equal to the panic on a fresh object (checked one level up)
							break
						}
						continue
					}
					if mut {
						col.add(&c11DecViol{key: "C11|" + tg.name + "|operand-mutated|" + tg.inputs[x].name, caseID: caseID, n: len(h),
							what: fmt.Sprintf("%s changed its input buffer after history [%s]", tg.name, strings.Join(hn, ","))})
					}
				}
				if stop {
					continue
				}
				r.Eval(1)
				r.Trace(1)
				r.Transition(1)
				if len(h) >= 2 {
					r.Distinct(caseID)
					r.Count("decodes_into_used_object", 1)
					if fo[i].ok && !fo[h[len(h)-2]].ok {
						r.Count("successful_decode_after_failed_decode", 1)
					}
				}
				want := fo[i]
				if !c11SameOutcome(last, want) {
					cls := "used-vs-fresh:observation"
					switch {
					case last.panicked != want.panicked:
						cls = "used-vs-fresh:panic"
					case last.ok != want.ok || (!last.ok && last.errText != want.errText):
						cls = "used-vs-fresh:outcome"
					}
					prev := "none"
					if len(h) >= 2 {
						prev = map[bool]string{true: "after-successful-decode", false: "after-failed-decode"}[fo[h[len(h)-2]].ok]
					}
					col.add(&c11DecViol{key: "C11|" + tg.name + "|" + cls + "|" + prev, caseID: caseID, n: len(h),
						what:    fmt.Sprintf("%s: after history [%s] on one object the last decode gives %s, on a fresh object %s", tg.name, strings.Join(hn, ","), last, want),
						payload: map[string]interface{}{"target": tg.name, "history": hn, "last_input": verifmc.Hex(tg.inputs[i].data)}})
					continue // do not extend a diverged history
				}
				if last.panicked {
					continue
				}
				if len(h) == 2 && ti%7 == 0 && h[0] == 0 && i == 1 {
					retMu.Lock()
					samples[ti] = map[string]interface{}{"target": tg.name, "history": hn, "outcome": last.String()}
					retMu.Unlock()
				}
				rec(h)
			}
		}
		rec(nil)
	})
	col.flush(r)
	for ti := range targets { // fixed order
		if samples[ti] != nil {
			r.Sample(samples[ti])
		}
	}
	if os.Getenv("VERIF_C11_TIMES") != "" {
		for k, v := range tgTime {
			if v > 1 {
				t.Logf("time %s %.1fs", k, v)
			}
		}
	}
	var rl []string
	for k := range retaining {
		rl = append(rl, k)
	}
	sort.Strings(rl)
	r.Set("decoders_whose_object_keeps_a_reference_to_the_input_buffer", rl)
	r.RequireCounter("input_buffer_overwritten_after_decode", 400)
	r.RequireCounter("one_buffer_reused_for_two_decodes", 300)
	r.RequireCounter("decodes_into_used_object", 2000)
	r.RequireCounter("successful_decode_after_failed_decode", 100)
	if len(targets) < 80 {
		r.Vacuous(fmt.Sprintf("only %d decode targets were built", len(targets)))
	}
}
