//go:build verif && linux

package conv_test

// C11 (histories half), unit hist_immut, result-returning rows: calls whose []byte
// arguments are domain-separation tags, context strings, info / aad / psk / metadata.
// Each row returns a digest of everything the call returns; the runner requires the same
// digest for every memory layout of the arguments (exact capacity; spare capacity with a
// watched tail; spare capacity reaching into a read-only page; all arguments adjacent in
// one buffer, e.g. dst = rec[:k], msg = rec[k:]).

import (
	"crypto"
	"fmt"
	"math/big"
	"unsafe"

	"github.com/cloudflare/circl/blindsign/blindrsa"
	"github.com/cloudflare/circl/blindsign/blindrsa/partiallyblindrsa"
	"github.com/cloudflare/circl/ecc/bls12381"
	"github.com/cloudflare/circl/expander"
	"github.com/cloudflare/circl/group"
	"github.com/cloudflare/circl/hpke"
	"github.com/cloudflare/circl/internal/verifmc"
	"github.com/cloudflare/circl/internal/verifref/pss"
	"github.com/cloudflare/circl/oprf"
	"github.com/cloudflare/circl/xof"
	"github.com/cloudflare/circl/zk/dl"
	"github.com/cloudflare/circl/zk/dleq"
)

func c11ErrStr(err error) []byte {
	if err != nil {
		return []byte("ERR:" + err.Error())
	}
	return []byte("ok")
}

func c11ImmResultCases() []*c11ImmCase {
	var cs []*c11ImmCase
	R := func(name string, img []byte) c11Region { return c11Region{name, img, false} }
	add := func(name string, regions []c11Region, ret func(p []unsafe.Pointer) []byte) {
		cs = append(cs, &c11ImmCase{name: name, regions: regions, ret: ret})
	}
	msg := verifmc.Shake("c11-spare-msg", 37)
	tags := map[string][]byte{"dst11": []byte("c11 dst tag"), "dst1": []byte("x"), "dst255": verifmc.Shake("c11-spare-dst255", 255), "dst300": verifmc.Shake("c11-spare-dst300", 300)}
	for _, tn := range []string{"dst1", "dst11", "dst255", "dst300"} {
		dst := tags[tn]
		for _, h := range []crypto.Hash{crypto.SHA256, crypto.SHA512} {
			h := h
			add(fmt.Sprintf("expander.NewExpanderMD(%v).Expand|%s", h, tn), []c11Region{R("dst", dst), R("in", msg)}, func(p []unsafe.Pointer) []byte {
				e := expander.NewExpanderMD(h, c11Sl(p[0], len(dst)))
				a := e.Expand(c11Sl(p[1], len(msg)), 70)
				b := e.Expand(c11Sl(p[1], len(msg)), 70) // the expander object is reusable
				return c11Cat(a, b)
			})
		}
		for _, id := range []xof.ID{xof.SHAKE128, xof.SHAKE256} {
			id := id
			add(fmt.Sprintf("expander.NewExpanderXOF(%v).Expand|%s", id, tn), []c11Region{R("dst", dst), R("in", msg)}, func(p []unsafe.Pointer) []byte {
				e := expander.NewExpanderXOF(id, 128, c11Sl(p[0], len(dst)))
				a := e.Expand(c11Sl(p[1], len(msg)), 70)
				b := e.Expand(c11Sl(p[1], len(msg)), 70)
				return c11Cat(a, b)
			})
		}
		for _, g := range []group.Group{group.P256, group.P384, group.P521, group.Ristretto255} {
			g := g
			add(fmt.Sprintf("group.%v.HashToElement/HashToElementNonUniform/HashToScalar|%s", g, tn), []c11Region{R("dst", dst), R("msg", msg)}, func(p []unsafe.Pointer) []byte {
				d, m := c11Sl(p[0], len(dst)), c11Sl(p[1], len(msg))
				return c11Cat(c11MustBytes(g.HashToElement(m, d).MarshalBinary()), c11MustBytes(g.HashToElementNonUniform(m, d).MarshalBinary()),
					c11MustBytes(g.HashToScalar(m, d).MarshalBinary()))
			})
		}
		add("bls12381.G1/G2.Hash/Encode|"+tn, []c11Region{R("dst", dst), R("input", msg)}, func(p []unsafe.Pointer) []byte {
			d, m := c11Sl(p[0], len(dst)), c11Sl(p[1], len(msg))
			var a, b bls12381.G1
			var c, e bls12381.G2
			a.Hash(m, d)
			b.Encode(m, d)
			c.Hash(m, d)
			e.Encode(m, d)
			return c11Cat(a.Bytes(), b.Bytes(), c.Bytes(), e.Bytes())
		})
	}
	// OPRF: inputs and info
	for _, su := range []oprf.Suite{oprf.SuiteP256, oprf.SuiteRistretto255} {
		su := su
		for _, mode := range []oprf.Mode{oprf.BaseMode, oprf.VerifiableMode, oprf.PartialObliviousMode} {
			mode := mode
			seed, kinfo := verifmc.Shake("c11-spare-oprf-seed", 32), []byte("c11 key info")
			in, info := []byte("c11 oprf input"), []byte("c11 poprf info")
			add(fmt.Sprintf("oprf:%v.DeriveKey/FullEvaluate/VerifyFinalize|mode=%d", su, mode), []c11Region{R("seed", seed), R("keyinfo", kinfo), R("input", in), R("info", info)}, func(p []unsafe.Pointer) []byte {
				key, err := oprf.DeriveKey(su, mode, c11Sl(p[0], len(seed)), c11Sl(p[1], len(kinfo)))
				if err != nil {
					return c11ErrStr(err)
				}
				i, nf := c11Sl(p[2], len(in)), c11Sl(p[3], len(info))
				var out []byte
				var ok bool
				switch mode {
				case oprf.BaseMode:
					s := oprf.NewServer(su, key)
					out, err = s.FullEvaluate(i)
					ok = s.VerifyFinalize(i, out)
				case oprf.VerifiableMode:
					s := oprf.NewVerifiableServer(su, key)
					out, err = s.FullEvaluate(i)
					ok = s.VerifyFinalize(i, out)
				default:
					s := oprf.NewPartialObliviousServer(su, key)
					out, err = s.FullEvaluate(i, nf)
					ok = s.VerifyFinalize(i, nf, out)
				}
				return c11Cat(c11MustBytes(key.MarshalBinary()), out, c11ErrStr(err), []byte(fmt.Sprint(ok)))
			})
		}
	}
	// HPKE: info, aad, psk, psk id, exporter context
	for _, kemID := range []hpke.KEM{hpke.KEM_X25519_HKDF_SHA256, hpke.KEM_P256_HKDF_SHA256} {
		kemID := kemID
		suite := hpke.NewSuite(kemID, hpke.KDF_HKDF_SHA256, hpke.AEAD_ChaCha20Poly1305)
		sch := kemID.Scheme()
		pk, sk := sch.DeriveKeyPair(verifmc.Shake("c11-spare-hpke", sch.SeedSize()))
		info, pt, aad, ectx := []byte("c11 info"), []byte("c11 plaintext"), []byte("c11 aad"), []byte("c11 exporter")
		psk, pskID := verifmc.Shake("c11-spare-psk", 32), []byte("c11 psk id")
		add(fmt.Sprintf("hpke(kem=%d).NewSender/SetupPSK/Seal/Export/NewReceiver/SetupPSK/Open", kemID),
			[]c11Region{R("info", info), R("pt", pt), R("aad", aad), R("exporter_context", ectx), R("psk", psk), R("psk_id", pskID)}, func(p []unsafe.Pointer) []byte {
				nf, a := c11Sl(p[0], len(info)), c11Sl(p[2], len(aad))
				k, id := c11Sl(p[4], len(psk)), c11Sl(p[5], len(pskID))
				snd, err := suite.NewSender(pk, nf)
				if err != nil {
					return c11ErrStr(err)
				}
				enc, sealer, err := snd.SetupPSK(verifmc.NewDetReader("c11-spare-hpke-rnd"), k, id)
				if err != nil {
					return c11ErrStr(err)
				}
				ct, err := sealer.Seal(c11Sl(p[1], len(pt)), a)
				exp := sealer.Export(c11Sl(p[3], len(ectx)), 24)
				rcv, err2 := suite.NewReceiver(sk, nf)
				if err2 != nil {
					return c11ErrStr(err2)
				}
				opener, err2 := rcv.SetupPSK(enc, k, id)
				if err2 != nil {
					return c11ErrStr(err2)
				}
				pt2, err3 := opener.Open(ct, a)
				return c11Cat(enc, ct, exp, pt2, c11ErrStr(err), c11ErrStr(err3))
			})
	}
	// DLEQ and Schnorr (dl) proofs: domain separation tag, user id, other info
	for _, g := range []group.Group{group.P256, group.Ristretto255} {
		g := g
		k := g.HashToScalar([]byte("k"), []byte("c11-spare-k"))
		A := g.HashToElement([]byte("A"), []byte("c11-spare-A"))
		B := g.HashToElement([]byte("B"), []byte("c11-spare-B"))
		kA, kB := g.NewElement().Mul(A, k), g.NewElement().Mul(B, k)
		dst := []byte("c11 dleq dst")
		rnd := g.HashToScalar([]byte("r"), []byte("c11-spare-rnd")) // fixed prover randomness: the digest must be a function of the arguments only
		add(fmt.Sprintf("dleq:%v.ProveWithRandomness/Verify", g), []c11Region{R("dst", dst)}, func(p []unsafe.Pointer) []byte {
			params := dleq.Params{G: g, H: crypto.SHA256, DST: c11Sl(p[0], len(dst))}
			pr, err := dleq.Prover{Params: params}.ProveWithRandomness(k, A, kA, B, kB, rnd)
			if err != nil {
				return c11ErrStr(err)
			}
			ok := dleq.Verifier{Params: params}.Verify(A, kA, B, kB, pr)
			return c11Cat(c11MustBytes(pr.MarshalBinary()), []byte(fmt.Sprint(ok)))
		})
		uid, other := []byte("c11 user id"), []byte("c11 other info")
		// dl.Prove draws its own randomness (not reproducible for ristretto255): the digest is the pair
		// (a fixed proof verifies under the given strings, a proof made under the given strings verifies under pristine copies)
		proof0 := dl.Prove(g, A, kA, k, append([]byte{}, uid...), append([]byte{}, other...), verifmc.NewDetReader("c11-spare-dl"))
		add(fmt.Sprintf("dl:%v.Prove/Verify", g), []c11Region{R("userID", uid), R("otherInfo", other)}, func(p []unsafe.Pointer) []byte {
			u, o := c11Sl(p[0], len(uid)), c11Sl(p[1], len(other))
			ok0 := dl.Verify(g, A, kA, proof0, u, o)
			pr := dl.Prove(g, A, kA, k, u, o, verifmc.NewDetReader("c11-spare-dl"))
			ok1 := dl.Verify(g, A, kA, pr, append([]byte{}, uid...), append([]byte{}, other...))
			return []byte(fmt.Sprint(ok0, ok1))
		})
	}
	// blind RSA / partially blind RSA: message and metadata
	if sk, err := pss.SafePrimeKey(0); err == nil {
		m, md := []byte("c11 blind rsa message"), []byte("c11 metadata")
		salt := verifmc.Shake("c11-spare-salt", 48)
		blind := big.NewInt(0x10001)
		blindInv := new(big.Int).ModInverse(blind, sk.N)
		bb, bi := blind.Bytes(), blindInv.Bytes()
		add("partiallyblindrsa.FixedBlind/BlindSign/Finalize/Verify", []c11Region{R("message", m), R("metadata", md), R("salt", salt), R("blind", bb), R("blindInv", bi)}, func(p []unsafe.Pointer) []byte {
			msg, meta := c11Sl(p[0], len(m)), c11Sl(p[1], len(md))
			v := partiallyblindrsa.NewVerifier(&sk.PublicKey, crypto.SHA384)
			signer, err := partiallyblindrsa.NewSigner(sk, crypto.SHA384)
			if err != nil {
				return c11ErrStr(err)
			}
			blinded, st, err := v.FixedBlind(msg, meta, c11Sl(p[2], len(salt)), c11Sl(p[3], len(bb)), c11Sl(p[4], len(bi)))
			if err != nil {
				return c11ErrStr(err)
			}
			bs, err := signer.BlindSign(blinded, meta)
			if err != nil {
				return c11ErrStr(err)
			}
			sig, err := st.Finalize(bs)
			if err != nil {
				return c11ErrStr(err)
			}
			return c11Cat(blinded, bs, sig, c11ErrStr(v.Verify(msg, meta, sig)))
		})
		add("blindrsa.Verifier.Verify", []c11Region{R("message", m), R("signature", verifmc.Shake("c11-spare-sig", (sk.N.BitLen()+7)/8))}, func(p []unsafe.Pointer) []byte {
			v, err := blindrsa.NewVerifier(blindrsa.SHA384PSSDeterministic, &sk.PublicKey)
			if err != nil {
				return c11ErrStr(err)
			}
			return c11ErrStr(v.Verify(c11Sl(p[0], len(m)), c11Sl(p[1], (sk.N.BitLen()+7)/8)))
		})
	} else {
		panic("safe prime fixture: " + err.Error())
	}
	return cs
}
