//go:build verif

package conv_test

// C11 (histories half), units hist_returned and hist_indep.
//
// One table of accessors (constructors, parameter getters, key accessors,
// marshallers). For each accessor `get`, each way `mutate` of modifying the object
// it returns, and each query:
//
//   hist_returned: v0 = view(get()); x = get(); mutate(x); view(get()) must equal v0
//                  - and so must every other accessor of the same family (cross effects);
//   hist_indep:    x1 = get(); x2 = get(); v = view(x2); mutate(x1); view(x2) must equal v
//                  (objects returned by separate calls with equal arguments do not
//                  influence each other), including two keys unmarshalled from ONE
//                  buffer and two HPKE contexts restored from ONE raw buffer.

import (
	"bytes"
	"crypto"
	"fmt"
	"math/big"
	"reflect"
	"sort"
	"strings"
	"sync"
	"testing"

	"github.com/cloudflare/circl/ecc/bls12381"
	"github.com/cloudflare/circl/ecc/bls12381/ff"
	"github.com/cloudflare/circl/ecc/fourq"
	"github.com/cloudflare/circl/ecc/goldilocks"
	"github.com/cloudflare/circl/expander"
	"github.com/cloudflare/circl/group"
	"github.com/cloudflare/circl/hpke"
	"github.com/cloudflare/circl/internal/verifmc"
	"github.com/cloudflare/circl/kem"
	kemschemes "github.com/cloudflare/circl/kem/schemes"
	"github.com/cloudflare/circl/math/polynomial"
	"github.com/cloudflare/circl/oprf"
	"github.com/cloudflare/circl/secretsharing"
	"github.com/cloudflare/circl/sign"
	"github.com/cloudflare/circl/sign/bls"
	"github.com/cloudflare/circl/sign/ed25519"
	"github.com/cloudflare/circl/sign/ed448"
	signschemes "github.com/cloudflare/circl/sign/schemes"
	"github.com/cloudflare/circl/vdaf/prio3/arith/fp128"
	"github.com/cloudflare/circl/vdaf/prio3/arith/fp64"
	"github.com/cloudflare/circl/xof"
)

type c11Mut struct {
	name string
	f    func(obj interface{})
}

// c11Acc is one accessor.
type c11Acc struct {
	family string // accessors of one family are re-queried after each other's mutation
	name   string
	get    func() interface{}
	view   func(obj interface{}) []byte
	muts   []c11Mut
}

func c11Scr(b []byte) {
	for i := range b {
		b[i] ^= 0xa5
	}
}

func c11ElemView(o interface{}) []byte {
	e := o.(group.Element)
	return c11Cat(c11MustBytes(e.MarshalBinary()), c11MustBytes(e.MarshalBinaryCompress()), []byte(fmt.Sprint(e.IsIdentity())))
}

func c11ScalarView(o interface{}) []byte {
	return c11MustBytes(o.(group.Scalar).MarshalBinary())
}

func c11GroupAccessors() []*c11Acc {
	var out []*c11Acc
	for _, g := range []group.Group{group.P256, group.P384, group.P521, group.Ristretto255} {
		g := g
		fam := "group." + fmt.Sprint(g)
		two := func() group.Element { return g.NewElement().MulGen(g.NewScalar().SetUint64(2)) }
		idEnc, _ := g.Identity().MarshalBinary()
		twoEnc, _ := two().MarshalBinary()
		emuts := []c11Mut{
			{"Neg(self)", func(o interface{}) { e := o.(group.Element); e.Neg(e) }},
			{"Dbl(self)", func(o interface{}) { e := o.(group.Element); e.Dbl(e) }},
			{"Add(self,[2]G)", func(o interface{}) { e := o.(group.Element); e.Add(e, two()) }},
			{"Set([2]G)", func(o interface{}) { o.(group.Element).Set(two()) }},
			{"Set(Identity)", func(o interface{}) { o.(group.Element).Set(g.Identity()) }},
			{"CMov(1,[2]G)", func(o interface{}) { o.(group.Element).CMov(1, two()) }},
			{"CSelect(0,self,[2]G)", func(o interface{}) { e := o.(group.Element); e.CSelect(0, e, two()) }},
			{"MulGen(2)", func(o interface{}) { o.(group.Element).MulGen(g.NewScalar().SetUint64(2)) }},
			{"Mul(self,3)", func(o interface{}) { e := o.(group.Element); e.Mul(e, g.NewScalar().SetUint64(3)) }},
			{"UnmarshalBinary(identity)", func(o interface{}) { _ = o.(group.Element).UnmarshalBinary(append([]byte{}, idEnc...)) }},
			{"UnmarshalBinary([2]G)", func(o interface{}) { _ = o.(group.Element).UnmarshalBinary(append([]byte{}, twoEnc...)) }},
			{"MarshalBinary+scribble", func(o interface{}) {
				b, _ := o.(group.Element).MarshalBinary()
				c11Scr(b)
				b, _ = o.(group.Element).MarshalBinaryCompress()
				c11Scr(b)
			}},
		}
		smuts := []c11Mut{
			{"SetUint64(5)", func(o interface{}) { o.(group.Scalar).SetUint64(5) }},
			{"Add(self,1)", func(o interface{}) { s := o.(group.Scalar); s.Add(s, g.NewScalar().SetUint64(1)) }},
			{"Neg(self)", func(o interface{}) { s := o.(group.Scalar); s.Neg(s) }},
			{"CMov(1,7)", func(o interface{}) { o.(group.Scalar).CMov(1, g.NewScalar().SetUint64(7)) }},
			{"MarshalBinary+scribble", func(o interface{}) { b, _ := o.(group.Scalar).MarshalBinary(); c11Scr(b) }},
			{"UnmarshalBinary(7)", func(o interface{}) {
				b, _ := g.NewScalar().SetUint64(7).MarshalBinary()
				_ = o.(group.Scalar).UnmarshalBinary(b)
			}},
		}
		msg, dst := []byte("c11 msg"), []byte("c11 dst")
		out = append(out,
			&c11Acc{fam, "Generator", func() interface{} { return g.Generator() }, c11ElemView, emuts},
			&c11Acc{fam, "Identity", func() interface{} { return g.Identity() }, c11ElemView, emuts},
			&c11Acc{fam, "NewElement", func() interface{} { return g.NewElement() }, c11ElemView, emuts},
			&c11Acc{fam, "HashToElement", func() interface{} { return g.HashToElement(msg, dst) }, c11ElemView, emuts},
			&c11Acc{fam, "HashToElementNonUniform", func() interface{} { return g.HashToElementNonUniform(msg, dst) }, c11ElemView, emuts[:4]},
			&c11Acc{fam, "Generator.Copy", func() interface{} { return g.Generator().Copy() }, c11ElemView, emuts[:4]},
			&c11Acc{fam, "NewScalar", func() interface{} { return g.NewScalar() }, c11ScalarView, smuts},
			&c11Acc{fam, "HashToScalar", func() interface{} { return g.HashToScalar(msg, dst) }, c11ScalarView, smuts},
			&c11Acc{fam, "Params", func() interface{} { return g.Params() },
				func(o interface{}) []byte { return []byte(fmt.Sprintf("%+v", *o.(*group.Params))) },
				[]c11Mut{{"overwrite fields", func(o interface{}) {
					p := o.(*group.Params)
					p.ElementLength, p.CompressedElementLength, p.ScalarLength = 1, 2, 3
				}}}},
			&c11Acc{fam, "MulGen(1)", func() interface{} { return g.NewElement().MulGen(g.NewScalar().SetUint64(1)) }, c11ElemView, emuts[:2]},
		)
	}
	return out
}

func c11CurveAccessors() []*c11Acc {
	var out []*c11Acc
	// goldilocks
	gv := func(o interface{}) []byte { return c11MustBytes(o.(*goldilocks.Point).MarshalBinary()) }
	gm := []c11Mut{
		{"Neg", func(o interface{}) { o.(*goldilocks.Point).Neg() }},
		{"Double", func(o interface{}) { o.(*goldilocks.Point).Double() }},
		{"Add(self)", func(o interface{}) { p := o.(*goldilocks.Point); p.Add(p) }},
		{"UnmarshalBinary(identity)", func(o interface{}) {
			b, _ := goldilocks.Curve{}.Identity().MarshalBinary()
			_ = o.(*goldilocks.Point).UnmarshalBinary(b)
		}},
	}
	out = append(out,
		&c11Acc{"goldilocks", "Curve.Generator", func() interface{} { return goldilocks.Curve{}.Generator() }, gv, gm},
		&c11Acc{"goldilocks", "Curve.Identity", func() interface{} { return goldilocks.Curve{}.Identity() }, gv, gm},
		&c11Acc{"goldilocks", "Curve.Order", func() interface{} { o := goldilocks.Curve{}.Order(); return &o },
			func(o interface{}) []byte { s := o.(*goldilocks.Scalar); return append([]byte{}, s[:]...) },
			[]c11Mut{{"Neg", func(o interface{}) { o.(*goldilocks.Scalar).Neg() }}, {"scribble", func(o interface{}) { s := o.(*goldilocks.Scalar); c11Scr(s[:]) }}}},
		&c11Acc{"goldilocks", "ScalarBaseMult(1)", func() interface{} { k := goldilocks.Scalar{1}; return goldilocks.Curve{}.ScalarBaseMult(&k) }, gv, gm[:2]},
	)
	// FourQ
	out = append(out, &c11Acc{"fourq", "Params", func() interface{} { return fourq.Params() },
		func(o interface{}) []byte {
			p := o.(*fourq.CurveParams)
			var enc [32]byte
			g := p.G
			g.Marshal(&enc)
			return c11Cat([]byte(p.Name), p.P.Bytes(), p.N.Bytes(), enc[:])
		},
		[]c11Mut{{"overwrite P,N,G", func(o interface{}) {
			p := o.(*fourq.CurveParams)
			p.P.SetInt64(7)
			p.N.SetInt64(9)
			p.G.SetIdentity()
		}}}})
	// bls12381
	g1v := func(o interface{}) []byte { return o.(*bls12381.G1).Bytes() }
	g2v := func(o interface{}) []byte { return o.(*bls12381.G2).Bytes() }
	out = append(out,
		&c11Acc{"bls12381", "G1Generator", func() interface{} { return bls12381.G1Generator() }, g1v, []c11Mut{
			{"Neg", func(o interface{}) { o.(*bls12381.G1).Neg() }},
			{"Double", func(o interface{}) { o.(*bls12381.G1).Double() }},
			{"SetIdentity", func(o interface{}) { o.(*bls12381.G1).SetIdentity() }},
			{"Bytes+scribble", func(o interface{}) { c11Scr(o.(*bls12381.G1).Bytes()); c11Scr(o.(*bls12381.G1).BytesCompressed()) }},
		}},
		&c11Acc{"bls12381", "G2Generator", func() interface{} { return bls12381.G2Generator() }, g2v, []c11Mut{
			{"Neg", func(o interface{}) { o.(*bls12381.G2).Neg() }},
			{"Double", func(o interface{}) { o.(*bls12381.G2).Double() }},
			{"SetIdentity", func(o interface{}) { o.(*bls12381.G2).SetIdentity() }},
			{"Bytes+scribble", func(o interface{}) { c11Scr(o.(*bls12381.G2).Bytes()); c11Scr(o.(*bls12381.G2).BytesCompressed()) }},
		}},
		&c11Acc{"bls12381", "Order", func() interface{} { return bls12381.Order() }, func(o interface{}) []byte { return append([]byte{}, o.([]byte)...) },
			[]c11Mut{{"scribble", func(o interface{}) { c11Scr(o.([]byte)) }}}},
		&c11Acc{"bls12381", "ff.ScalarOrder", func() interface{} { return ff.ScalarOrder() }, func(o interface{}) []byte { return append([]byte{}, o.([]byte)...) },
			[]c11Mut{{"scribble", func(o interface{}) { c11Scr(o.([]byte)) }}}},
		&c11Acc{"bls12381", "ff.FpOrder", func() interface{} { return ff.FpOrder() }, func(o interface{}) []byte { return append([]byte{}, o.([]byte)...) },
			[]c11Mut{{"scribble", func(o interface{}) { c11Scr(o.([]byte)) }}}},
		&c11Acc{"bls12381", "Pair(G1,G2)", func() interface{} { return bls12381.Pair(bls12381.G1Generator(), bls12381.G2Generator()) },
			func(o interface{}) []byte { return c11MustBytes(o.(*bls12381.Gt).MarshalBinary()) },
			[]c11Mut{{"Sqr(self)", func(o interface{}) { g := o.(*bls12381.Gt); g.Sqr(g) }}, {"SetIdentity", func(o interface{}) { o.(*bls12381.Gt).SetIdentity() }}}},
	)
	// prio3 field orders
	out = append(out,
		&c11Acc{"prio3", "fp64.Fp.Order", func() interface{} { return fp64.Fp{}.Order() }, func(o interface{}) []byte { return append([]byte{}, o.([]byte)...) },
			[]c11Mut{{"scribble", func(o interface{}) { c11Scr(o.([]byte)) }}}},
		&c11Acc{"prio3", "fp128.Fp.Order", func() interface{} { return fp128.Fp{}.Order() }, func(o interface{}) []byte { return append([]byte{}, o.([]byte)...) },
			[]c11Mut{{"scribble", func(o interface{}) { c11Scr(o.([]byte)) }}}},
	)
	return out
}

// c11DecodeInto decodes `enc` into obj with whichever in-place decoder the type has.
func c11DecodeInto(obj interface{}, enc []byte) bool {
	for _, m := range []string{"Unpack", "UnmarshalBinary"} {
		if mv := reflect.ValueOf(obj).MethodByName(m); mv.IsValid() && mv.Type().NumIn() == 1 {
			if _, _, app := c11ReflectDecode(obj, m, append([]byte{}, enc...)); app {
				return true
			}
		}
	}
	return false
}

func c11KeyAccessors() []*c11Acc {
	var out []*c11Acc
	msg := []byte("verif-c11 message")
	for _, sch := range kemschemes.All() {
		sch := sch
		fam := "kem:" + sch.Name()
		seed := verifmc.Shake("c11-obj-kem-"+sch.Name(), sch.SeedSize())
		pkO, skO := sch.DeriveKeyPair(verifmc.Shake("c11-obj-kem-other-"+sch.Name(), sch.SeedSize()))
		pkOther, skOther := c11MustBytes(pkO.MarshalBinary()), c11MustBytes(skO.MarshalBinary())
		pk, sk := sch.DeriveKeyPair(seed)
		pkb, skb := c11MustBytes(pk.MarshalBinary()), c11MustBytes(sk.MarshalBinary()) // ONE buffer each, shared by all unmarshal calls
		eseed := verifmc.Shake("c11-obj-eseed", sch.EncapsulationSeedSize())
		ct0, _, _ := sch.EncapsulateDeterministically(pk, eseed)
		pkView := func(o interface{}) []byte {
			k := o.(kem.PublicKey)
			ct, ss, _ := sch.EncapsulateDeterministically(k, eseed)
			return c11Cat(c11MustBytes(k.MarshalBinary()), ct, ss)
		}
		skView := func(o interface{}) []byte {
			k := o.(kem.PrivateKey)
			ss, _ := sch.Decapsulate(k, ct0)
			return c11Cat(c11MustBytes(k.MarshalBinary()), c11MustBytes(k.Public().MarshalBinary()), ss)
		}
		pkMuts := []c11Mut{
			{"MarshalBinary+scribble", func(o interface{}) { b, _ := o.(kem.PublicKey).MarshalBinary(); c11Scr(b) }},
			{"use(Encapsulate)", func(o interface{}) { _, _, _ = sch.EncapsulateDeterministically(o.(kem.PublicKey), eseed) }},
			{"decode(other key)", func(o interface{}) { c11DecodeInto(o, pkOther) }},
		}
		skMuts := []c11Mut{
			{"MarshalBinary+scribble", func(o interface{}) { b, _ := o.(kem.PrivateKey).MarshalBinary(); c11Scr(b) }},
			{"Public()+decode(other key)", func(o interface{}) { c11DecodeInto(o.(kem.PrivateKey).Public(), pkOther) }},
			{"Public().MarshalBinary+scribble", func(o interface{}) { b, _ := o.(kem.PrivateKey).Public().MarshalBinary(); c11Scr(b) }},
			{"use(Decapsulate)", func(o interface{}) { _, _ = sch.Decapsulate(o.(kem.PrivateKey), ct0) }},
			{"decode(other key)", func(o interface{}) { c11DecodeInto(o, skOther) }},
		}
		out = append(out,
			&c11Acc{fam, "DeriveKeyPair.pk", func() interface{} { p, _ := sch.DeriveKeyPair(seed); return p }, pkView, pkMuts},
			&c11Acc{fam, "DeriveKeyPair.sk", func() interface{} { _, s := sch.DeriveKeyPair(seed); return s }, skView, skMuts},
			&c11Acc{fam, "UnmarshalBinaryPublicKey(one buffer)", func() interface{} {
				k, err := sch.UnmarshalBinaryPublicKey(pkb)
				if err != nil {
					panic(err)
				}
				return k
			}, pkView, pkMuts},
			&c11Acc{fam, "UnmarshalBinaryPrivateKey(one buffer)", func() interface{} {
				k, err := sch.UnmarshalBinaryPrivateKey(skb)
				if err != nil {
					panic(err)
				}
				return k
			}, skView, skMuts},
			&c11Acc{fam, "sk.Public", func() interface{} { return sk.Public() }, pkView, pkMuts},
			&c11Acc{fam, "DeriveKeyPair.(pk,sk)", func() interface{} { p, s := sch.DeriveKeyPair(seed); return [2]interface{}{p, s} },
				func(o interface{}) []byte { pr := o.([2]interface{}); return c11Cat(pkView(pr[0]), skView(pr[1])) },
				[]c11Mut{
					{"decode(other key) into pk", func(o interface{}) { c11DecodeInto(o.([2]interface{})[0], pkOther) }},
					{"decode(other key) into sk", func(o interface{}) { c11DecodeInto(o.([2]interface{})[1], skOther) }},
				}},
		)
	}
	for _, sch := range signschemes.All() {
		sch := sch
		fam := "sign:" + sch.Name()
		seed := verifmc.Shake("c11-obj-sig-"+sch.Name(), sch.SeedSize())
		pkO, skO := sch.DeriveKey(verifmc.Shake("c11-obj-sig-other-"+sch.Name(), sch.SeedSize()))
		pkOther, skOther := c11MustBytes(pkO.MarshalBinary()), c11MustBytes(skO.MarshalBinary())
		pk, sk := sch.DeriveKey(seed)
		pkb, skb := c11MustBytes(pk.MarshalBinary()), c11MustBytes(sk.MarshalBinary())
		sig0 := sch.Sign(sk, msg, nil)
		pkView := func(o interface{}) []byte {
			k := o.(sign.PublicKey)
			return c11Cat(c11MustBytes(k.MarshalBinary()), []byte(fmt.Sprint(sch.Verify(k, msg, sig0, nil))))
		}
		skView := func(o interface{}) []byte {
			k := o.(sign.PrivateKey)
			var pb []byte
			if p, ok := k.Public().(sign.PublicKey); ok {
				pb = c11MustBytes(p.MarshalBinary())
			}
			return c11Cat(c11MustBytes(k.MarshalBinary()), pb, sch.Sign(k, msg, nil))
		}
		scribbleSlice := func(o interface{}) { // ed25519 / ed448 keys are byte slices: the returned slice itself
			if v := reflect.ValueOf(o); v.Kind() == reflect.Slice && v.Type().Elem().Kind() == reflect.Uint8 {
				c11Scr(v.Bytes())
			}
		}
		pkMuts := []c11Mut{
			{"MarshalBinary+scribble", func(o interface{}) { b, _ := o.(sign.PublicKey).MarshalBinary(); c11Scr(b) }},
			{"use(Verify)", func(o interface{}) { sch.Verify(o.(sign.PublicKey), msg, sig0, nil) }},
			{"decode(other key)", func(o interface{}) { c11DecodeInto(o, pkOther) }},
			{"scribble key bytes", scribbleSlice},
		}
		skMuts := []c11Mut{
			{"MarshalBinary+scribble", func(o interface{}) { b, _ := o.(sign.PrivateKey).MarshalBinary(); c11Scr(b) }},
			{"Public()+decode(other key)", func(o interface{}) { c11DecodeInto(o.(sign.PrivateKey).Public(), pkOther) }},
			{"Public()+scribble key bytes", func(o interface{}) { scribbleSlice(o.(sign.PrivateKey).Public()) }},
			{"use(Sign)", func(o interface{}) { sch.Sign(o.(sign.PrivateKey), msg, nil) }},
			{"decode(other key)", func(o interface{}) { c11DecodeInto(o, skOther) }},
			{"scribble key bytes", scribbleSlice},
		}
		out = append(out,
			&c11Acc{fam, "DeriveKey.pk", func() interface{} { p, _ := sch.DeriveKey(seed); return p }, pkView, pkMuts},
			&c11Acc{fam, "DeriveKey.sk", func() interface{} { _, s := sch.DeriveKey(seed); return s }, skView, skMuts},
			&c11Acc{fam, "UnmarshalBinaryPublicKey(one buffer)", func() interface{} {
				k, err := sch.UnmarshalBinaryPublicKey(pkb)
				if err != nil {
					panic(err)
				}
				return k
			}, pkView, pkMuts},
			&c11Acc{fam, "UnmarshalBinaryPrivateKey(one buffer)", func() interface{} {
				k, err := sch.UnmarshalBinaryPrivateKey(skb)
				if err != nil {
					panic(err)
				}
				return k
			}, skView, skMuts},
			&c11Acc{fam, "sk.Public", func() interface{} { return sk.Public() }, pkView, pkMuts},
			&c11Acc{fam, "DeriveKey.(pk,sk)", func() interface{} { p, s := sch.DeriveKey(seed); return [2]interface{}{p, s} },
				func(o interface{}) []byte { pr := o.([2]interface{}); return c11Cat(pkView(pr[0]), skView(pr[1])) },
				[]c11Mut{
					{"decode(other key) into pk", func(o interface{}) { c11DecodeInto(o.([2]interface{})[0], pkOther) }},
					{"decode(other key) into sk", func(o interface{}) { c11DecodeInto(o.([2]interface{})[1], skOther) }},
					{"scribble pk bytes", func(o interface{}) { scribbleSlice(o.([2]interface{})[0]) }},
				}},
		)
	}
	// Ed25519 / Ed448 seeds
	{
		k25 := ed25519.NewKeyFromSeed(verifmc.Shake("c11-ed25519", ed25519.SeedSize))
		k448 := ed448.NewKeyFromSeed(verifmc.Shake("c11-ed448", ed448.SeedSize))
		bv := func(o interface{}) []byte { return append([]byte{}, o.([]byte)...) }
		scr := []c11Mut{{"scribble", func(o interface{}) { c11Scr(o.([]byte)) }}}
		out = append(out,
			&c11Acc{"ed25519", "PrivateKey.Seed", func() interface{} { return k25.Seed() }, bv, scr},
			&c11Acc{"ed25519", "PrivateKey.Public", func() interface{} { return []byte(k25.Public().(ed25519.PublicKey)) }, bv, scr},
			&c11Acc{"ed25519", "Sign", func() interface{} { return ed25519.Sign(k25, msg) }, bv, scr},
			&c11Acc{"ed448", "PrivateKey.Seed", func() interface{} { return k448.Seed() }, bv, scr},
			&c11Acc{"ed448", "PrivateKey.Public", func() interface{} { return []byte(k448.Public().(ed448.PublicKey)) }, bv, scr},
			&c11Acc{"ed448", "Sign", func() interface{} { return ed448.Sign(k448, msg, "") }, bv, scr},
		)
	}
	// OPRF keys
	for _, su := range []oprf.Suite{oprf.SuiteP256, oprf.SuiteRistretto255} {
		su := su
		fam := "oprf:" + fmt.Sprint(su)
		k, _ := oprf.DeriveKey(su, oprf.VerifiableMode, verifmc.Shake("c11-obj-oprf", 32), []byte("info"))
		ko, _ := oprf.DeriveKey(su, oprf.VerifiableMode, verifmc.Shake("c11-obj-oprf-other", 32), []byte("info"))
		other := c11MustBytes(ko.Public().MarshalBinary())
		out = append(out,
			&c11Acc{fam, "PrivateKey.Public", func() interface{} { return k.Public() },
				func(o interface{}) []byte { return c11MustBytes(o.(*oprf.PublicKey).MarshalBinary()) },
				[]c11Mut{
					{"MarshalBinary+scribble", func(o interface{}) { b, _ := o.(*oprf.PublicKey).MarshalBinary(); c11Scr(b) }},
					{"UnmarshalBinary(other key)", func(o interface{}) { _ = o.(*oprf.PublicKey).UnmarshalBinary(su, append([]byte{}, other...)) }},
				}},
			&c11Acc{fam, "PrivateKey.MarshalBinary", func() interface{} { return c11MustBytes(k.MarshalBinary()) },
				func(o interface{}) []byte { return append([]byte{}, o.([]byte)...) },
				[]c11Mut{{"scribble", func(o interface{}) { c11Scr(o.([]byte)) }}}},
		)
	}
	// BLS keys
	out = append(out, c11BlsAccessors[bls.G1]("KeyG1SigG2")...)
	out = append(out, c11BlsAccessors[bls.G2]("KeyG2SigG1")...)
	return out
}

func c11BlsAccessors[K bls.KeyGroup](tag string) []*c11Acc {
	k, err := bls.KeyGen[K](verifmc.Shake("c11-obj-bls", 32), nil, nil)
	if err != nil {
		panic(err)
	}
	ko, _ := bls.KeyGen[K](verifmc.Shake("c11-obj-bls-other", 32), nil, nil)
	other := c11MustBytes(ko.PublicKey().MarshalBinary())
	return []*c11Acc{
		{"bls:" + tag, "PrivateKey.PublicKey", func() interface{} { return k.PublicKey() },
			func(o interface{}) []byte { return c11MustBytes(o.(*bls.PublicKey[K]).MarshalBinary()) },
			[]c11Mut{
				{"MarshalBinary+scribble", func(o interface{}) { b, _ := o.(*bls.PublicKey[K]).MarshalBinary(); c11Scr(b) }},
				{"UnmarshalBinary(other key)", func(o interface{}) { _ = o.(*bls.PublicKey[K]).UnmarshalBinary(append([]byte{}, other...)) }},
			}},
		{"bls:" + tag, "PrivateKey.MarshalBinary", func() interface{} { return c11MustBytes(k.MarshalBinary()) },
			func(o interface{}) []byte { return append([]byte{}, o.([]byte)...) },
			[]c11Mut{{"scribble", func(o interface{}) { c11Scr(o.([]byte)) }}}},
		{"bls:" + tag, "Sign", func() interface{} { return []byte(bls.Sign(k, []byte("m"))) },
			func(o interface{}) []byte { return append([]byte{}, o.([]byte)...) },
			[]c11Mut{{"scribble", func(o interface{}) { c11Scr(o.([]byte)) }}}},
	}
}

func c11HpkeAndSharingAccessors() []*c11Acc {
	var out []*c11Acc
	// HPKE: contexts restored from ONE raw buffer
	suite := hpke.NewSuite(hpke.KEM_X25519_HKDF_SHA256, hpke.KDF_HKDF_SHA256, hpke.AEAD_AES128GCM)
	sch := hpke.KEM_X25519_HKDF_SHA256.Scheme()
	pk, sk := sch.DeriveKeyPair(verifmc.Shake("c11-hpke-key", sch.SeedSize()))
	snd, err := suite.NewSender(pk, []byte("c11 info"))
	if err != nil {
		panic(err)
	}
	enc, sealer, err := snd.Setup(verifmc.NewDetReader("c11-hpke-rnd"))
	if err != nil {
		panic(err)
	}
	rcv, _ := suite.NewReceiver(sk, []byte("c11 info"))
	opener, err := rcv.Setup(enc)
	if err != nil {
		panic(err)
	}
	rawS, _ := sealer.MarshalBinary()
	rawO, _ := opener.MarshalBinary()
	pt, aad := []byte("c11 plaintext"), []byte("c11 aad")
	// ciphertexts for sequence numbers 0,1 made by a context restored from a private copy
	ref, _ := hpke.UnmarshalSealer(append([]byte{}, rawS...))
	ct0, _ := ref.Seal(pt, aad)
	ct1, _ := ref.Seal(pt, aad)
	// view of a sealer: its marshalled form and the export; does not advance it
	ctxView := func(o interface{}) []byte {
		c := o.(hpke.Context)
		return c11Cat(c11MustBytes(c.MarshalBinary()), c.Export([]byte("c11 exp"), 16))
	}
	out = append(out,
		&c11Acc{"hpke", "UnmarshalSealer(one raw buffer)", func() interface{} {
			s, err := hpke.UnmarshalSealer(rawS)
			if err != nil {
				panic(err)
			}
			return s
		}, ctxView, []c11Mut{
			{"Seal", func(o interface{}) { _, _ = o.(hpke.Sealer).Seal(pt, aad) }},
			{"Seal x2", func(o interface{}) { _, _ = o.(hpke.Sealer).Seal(pt, aad); _, _ = o.(hpke.Sealer).Seal(pt, aad) }},
			{"MarshalBinary+scribble", func(o interface{}) { b, _ := o.(hpke.Sealer).MarshalBinary(); c11Scr(b) }},
			{"Export+scribble", func(o interface{}) { c11Scr(o.(hpke.Sealer).Export([]byte("c11 exp"), 16)) }},
		}},
		&c11Acc{"hpke", "UnmarshalOpener(one raw buffer)", func() interface{} {
			s, err := hpke.UnmarshalOpener(rawO)
			if err != nil {
				panic(err)
			}
			return s
		}, ctxView, []c11Mut{
			{"Open(ct0)", func(o interface{}) { _, _ = o.(hpke.Opener).Open(ct0, aad) }},
			{"Open(ct0),Open(ct1)", func(o interface{}) { _, _ = o.(hpke.Opener).Open(ct0, aad); _, _ = o.(hpke.Opener).Open(ct1, aad) }},
			{"MarshalBinary+scribble", func(o interface{}) { b, _ := o.(hpke.Opener).MarshalBinary(); c11Scr(b) }},
		}},
		&c11Acc{"hpke", "Sealer.Export", func() interface{} { return sealer.Export([]byte("c11 exp"), 32) },
			func(o interface{}) []byte { return append([]byte{}, o.([]byte)...) },
			[]c11Mut{{"scribble", func(o interface{}) { c11Scr(o.([]byte)) }}}},
		&c11Acc{"hpke", "Sealer.MarshalBinary", func() interface{} { return c11MustBytes(sealer.MarshalBinary()) },
			func(o interface{}) []byte { return append([]byte{}, o.([]byte)...) },
			[]c11Mut{{"scribble", func(o interface{}) { c11Scr(o.([]byte)) }}}},
		&c11Acc{"hpke", "sk.Public", func() interface{} { return sk.Public() },
			func(o interface{}) []byte { return c11MustBytes(o.(kem.PublicKey).MarshalBinary()) },
			[]c11Mut{{"MarshalBinary+scribble", func(o interface{}) { b, _ := o.(kem.PublicKey).MarshalBinary(); c11Scr(b) }}}},
	)
	// secret sharing and polynomials, for every threshold / degree from the boundary (t = 0: constant polynomial) upwards
	g := group.P256
	shareView := func(o interface{}) []byte {
		var b []byte
		for _, s := range o.([]secretsharing.Share) {
			b = c11Cat(b, c11ScalarView(s.ID), c11ScalarView(s.Value))
		}
		return b
	}
	x9 := g.NewScalar().SetUint64(9)
	smut := []c11Mut{
		{"SetUint64(99)", func(o interface{}) { o.(group.Scalar).SetUint64(99) }},
		{"Neg(self)", func(o interface{}) { s := o.(group.Scalar); s.Neg(s) }},
		{"Add(self,1)", func(o interface{}) { s := o.(group.Scalar); s.Add(s, g.NewScalar().SetUint64(1)) }},
		{"UnmarshalBinary(7)", func(o interface{}) {
			b, _ := g.NewScalar().SetUint64(7).MarshalBinary()
			_ = o.(group.Scalar).UnmarshalBinary(b)
		}},
	}
	shareMuts := []c11Mut{
		{"overwrite IDs and values", func(o interface{}) {
			for _, s := range o.([]secretsharing.Share) {
				s.ID.SetUint64(77)
				s.Value.SetUint64(88)
			}
		}},
		{"Add 1 to every value", func(o interface{}) {
			for _, s := range o.([]secretsharing.Share) {
				s.Value.Add(s.Value, g.NewScalar().SetUint64(1))
			}
		}},
	}
	for t := uint(0); t <= 2; t++ {
		t := t
		fam := fmt.Sprintf("secretsharing(t=%d)", t)
		secret := g.NewScalar().SetUint64(1234567)
		ss := secretsharing.New(verifmc.NewDetReader(fmt.Sprintf("c11-ss-%d", t)), t, secret)
		out = append(out,
			&c11Acc{fam, "Share(4)", func() interface{} { return ss.Share(4) }, shareView, shareMuts},
			&c11Acc{fam, "ShareWithID(3)", func() interface{} { return []secretsharing.Share{ss.ShareWithID(g.NewScalar().SetUint64(3))} }, shareView, shareMuts},
			&c11Acc{fam, "ShareWithID(5)", func() interface{} { return []secretsharing.Share{ss.ShareWithID(g.NewScalar().SetUint64(5))} }, shareView, shareMuts[:1]},
			&c11Acc{fam, "CommitSecret", func() interface{} { return ss.CommitSecret() },
				func(o interface{}) []byte {
					var b []byte
					for _, e := range o.(secretsharing.SecretCommitment) {
						b = c11Cat(b, c11ElemView(e))
					}
					return b
				},
				[]c11Mut{{"Neg every commitment", func(o interface{}) {
					for _, e := range o.(secretsharing.SecretCommitment) {
						e.Neg(e)
					}
				}}}},
			&c11Acc{fam, "Recover(shares)", func() interface{} {
				s, err := secretsharing.Recover(t, ss.Share(t+2))
				if err != nil {
					panic(err)
				}
				return s
			}, c11ScalarView, smut},
			&c11Acc{fam, "secret (caller's scalar)", func() interface{} { return secret }, c11ScalarView, nil},
		)
	}
	for deg := 0; deg <= 2; deg++ {
		deg := deg
		fam := fmt.Sprintf("polynomial(degree=%d)", deg)
		coeffs := make([]group.Scalar, deg+1)
		xs := make([]group.Scalar, deg+1)
		ys := make([]group.Scalar, deg+1)
		for i := range coeffs {
			coeffs[i] = g.NewScalar().SetUint64(uint64(5 + i))
			xs[i] = g.NewScalar().SetUint64(uint64(1 + i))
			ys[i] = g.NewScalar().SetUint64(uint64(11 + i))
		}
		poly := polynomial.New(coeffs)
		lag := polynomial.NewLagrangePolynomial(xs, ys)
		out = append(out,
			&c11Acc{fam, "Coefficient(0)", func() interface{} { return poly.Coefficient(0) }, c11ScalarView, smut},
			&c11Acc{fam, fmt.Sprintf("Coefficient(%d)", deg), func() interface{} { return poly.Coefficient(uint(deg)) }, c11ScalarView, smut},
			&c11Acc{fam, "Evaluate(9)", func() interface{} { return poly.Evaluate(x9) }, c11ScalarView, smut},
			&c11Acc{fam, "Evaluate(0)", func() interface{} { return poly.Evaluate(g.NewScalar()) }, c11ScalarView, smut},
			&c11Acc{fam, "New(coeffs)[caller's slice]", func() interface{} { return coeffs[0] }, c11ScalarView, nil},
			&c11Acc{fam, "Lagrange.Evaluate(9)", func() interface{} { return lag.Evaluate(x9) }, c11ScalarView, smut},
			&c11Acc{fam, "Lagrange.Evaluate(x0)", func() interface{} { return lag.Evaluate(xs[0]) }, c11ScalarView, smut},
			&c11Acc{fam, "LagrangeBase(0,xs,9)", func() interface{} { return polynomial.LagrangeBase(0, xs, x9) }, c11ScalarView, smut},
			&c11Acc{fam, "xs,ys (caller's slices)", func() interface{} { return []group.Scalar{xs[0], ys[0]} },
				func(o interface{}) []byte {
					v := o.([]group.Scalar)
					return c11Cat(c11ScalarView(v[0]), c11ScalarView(v[1]))
				}, nil},
		)
	}
	return out
}

// XOF clones and reusable expanders: a clone is independent of its origin and of other clones;
// an expander object gives the same output for the same input however it was used before.
func c11XofAccessors() []*c11Acc {
	var out []*c11Acc
	prefix, suffix := verifmc.Shake("c11-xof-prefix", 300), verifmc.Shake("c11-xof-suffix", 40)
	for _, id := range []xof.ID{xof.SHAKE128, xof.SHAKE256, xof.BLAKE2XB, xof.BLAKE2XS, xof.K12D10} {
		id := id
		base := id.New()
		_, _ = base.Write(prefix)
		fam := fmt.Sprintf("xof:%v", id)
		view := func(o interface{}) []byte { // never touches o itself
			c := o.(xof.XOF).Clone()
			_, _ = c.Write(suffix)
			b := make([]byte, 64)
			_, _ = c.Read(b)
			return b
		}
		out = append(out, &c11Acc{fam, "Clone", func() interface{} { return base.Clone() }, view, []c11Mut{
			{"Write(more)", func(o interface{}) { _, _ = o.(xof.XOF).Write(verifmc.Shake("c11-xof-more", 9000)) }},
			{"Read(200)", func(o interface{}) { _, _ = o.(xof.XOF).Read(make([]byte, 200)) }},
			{"Reset", func(o interface{}) { o.(xof.XOF).Reset() }},
			{"Clone().Write", func(o interface{}) { _, _ = o.(xof.XOF).Clone().Write(suffix) }},
		}})
	}
	msg := verifmc.Shake("c11-exp-msg", 50)
	expView := func(o interface{}) []byte { return o.(expander.Expander).Expand(msg, 70) }
	expMuts := []c11Mut{
		{"Expand(other,200)", func(o interface{}) { o.(expander.Expander).Expand(verifmc.Shake("c11-exp-other", 333), 200) }},
		{"Expand+scribble", func(o interface{}) { c11Scr(o.(expander.Expander).Expand(msg, 70)) }},
	}
	md := expander.NewExpanderMD(crypto.SHA256, []byte("c11 expander dst"))
	mdLong := expander.NewExpanderMD(crypto.SHA512, verifmc.Shake("c11-exp-longdst", 300))
	xo := expander.NewExpanderXOF(xof.SHAKE128, 128, []byte("c11 expander dst"))
	xoLong := expander.NewExpanderXOF(xof.SHAKE256, 256, verifmc.Shake("c11-exp-longdst", 300))
	out = append(out,
		&c11Acc{"expander", "ExpanderMD(reused object)", func() interface{} { return md }, expView, expMuts},
		&c11Acc{"expander", "ExpanderMD(long dst, reused object)", func() interface{} { return mdLong }, expView, expMuts},
		&c11Acc{"expander", "ExpanderXOF(reused object)", func() interface{} { return xo }, expView, expMuts},
		&c11Acc{"expander", "ExpanderXOF(long dst, reused object)", func() interface{} { return xoLong }, expView, expMuts},
	)
	return out
}

func c11AllAccessors() []*c11Acc {
	var all []*c11Acc
	all = append(all, c11GroupAccessors()...)
	all = append(all, c11CurveAccessors()...)
	all = append(all, c11KeyAccessors()...)
	all = append(all, c11HpkeAndSharingAccessors()...)
	all = append(all, c11XofAccessors()...)
	return all
}

// c11Accessors builds a fresh table (fresh buffers and keys) for every unit, so that a
// defect found by one unit cannot leak into the next one.
func c11Accessors() []*c11Acc { return c11AllAccessors() }

func c11FamilyKey(fam string) string {
	if i := strings.Index(fam, ":"); i > 0 {
		return fam // scheme name is part of the key
	}
	return fam
}

// c11RunObjects runs one of the two checks over the accessor table, family by family
// (sequentially inside a family, because a defect may corrupt process-wide state that the
// other accessors of the family read; families are independent and run in parallel).
func c11RunObjects(t *testing.T, r *verifmc.Run, indep bool) {
	accs := c11Accessors()
	fams := map[string][]*c11Acc{}
	var famNames []string
	for _, a := range accs {
		if _, ok := fams[a.family]; !ok {
			famNames = append(famNames, a.family)
		}
		fams[a.family] = append(fams[a.family], a)
	}
	sort.Strings(famNames)
	r.Set("accessors", len(accs))
	r.Set("families", len(famNames))
	type viol struct{ key, caseID, what string }
	var mu sync.Mutex
	best := map[string]*viol{}
	add := func(v *viol) {
		mu.Lock()
		if o := best[v.key]; o == nil || v.caseID < o.caseID {
			best[v.key] = v
		}
		mu.Unlock()
	}
	verifmc.ParallelFor(len(famNames), func(fi int) {
		fam := famNames[fi]
		list := fams[fam]
		// baseline views, taken twice (must be deterministic)
		base := make([][]byte, len(list))
		for i, a := range list {
			var v1, v2 []byte
			if p, what := verifmc.Try(func() { v1 = a.view(a.get()); v2 = a.view(a.get()) }); p {
				t.Errorf("%s %s: accessor panics on a clean process: %s", fam, a.name, what)
				return
			}
			if !bytes.Equal(v1, v2) {
				t.Errorf("%s %s: accessor is not deterministic", fam, a.name)
				return
			}
			base[i] = v1
		}
		for ai, a := range list {
			for _, m := range a.muts {
				caseID := fam + "|" + a.name + "|" + m.name
				if r.Replaying() && r.ReplayCase() != caseID {
					continue
				}
				r.Eval(1)
				r.Trace(1)
				r.Distinct(indep, caseID)
				var probs []string
				cls := ""
				p, what := verifmc.Try(func() {
					if indep {
						x1, x2 := a.get(), a.get()
						v := a.view(x2)
						if !bytes.Equal(v, base[ai]) {
							probs, cls = append(probs, "second object differs from the first before any mutation"), "two-calls-differ"
						}
						m.f(x1)
						if v2 := a.view(x2); !bytes.Equal(v2, v) {
							probs, cls = append(probs, fmt.Sprintf("after %s on the first returned object, the second returned object changed: %s -> %s", m.name, verifmc.Hex(v), verifmc.Hex(v2))), "two-calls-share-state"
						}
						r.Count("co-existing_objects_checked", 1)
					} else {
						x := a.get()
						m.f(x)
					}
				})
				if p {
					probs, cls = append(probs, "panic: "+what), "panic:"+verifmc.PanicClass(what)
				}
				// re-query every accessor of the family
				for bi, b := range list {
					var v []byte
					if p, what := verifmc.Try(func() { v = b.view(b.get()) }); p {
						probs = append(probs, fmt.Sprintf("%s now panics: %s", b.name, what))
						if cls == "" {
							cls = "later-call-changed"
						}
						continue
					}
					r.Count("requeries", 1)
					if !bytes.Equal(v, base[bi]) {
						probs = append(probs, fmt.Sprintf("a later %s() now gives %s (before: %s)", b.name, verifmc.Hex(v), verifmc.Hex(base[bi])))
						if cls == "" {
							cls = "later-call-changed"
						}
					}
				}
				if len(probs) > 0 {
					r.Outcome("diverged")
					unit := map[bool]string{true: "two-objects", false: "returned-object-mutation"}[indep]
					add(&viol{key: fmt.Sprintf("C11|%s.%s|%s|%s|%s", c11FamilyKey(fam), a.name, unit, cls, m.name), caseID: caseID,
						what: fmt.Sprintf("%s: x := %s(); %s on x: %s", fam, a.name, m.name, strings.Join(probs, "; "))})
					// the process-wide state may be corrupted now: try to undo by mutating back is impossible in general;
					// re-baseline so that each further mutation is judged on its own
					c11Repair(fam)
					for bi, b := range list {
						if p, _ := verifmc.Try(func() { base[bi] = b.view(b.get()) }); p {
							base[bi] = nil
						}
					}
				} else {
					r.Outcome("agree")
				}
			}
		}
	})
	keys := make([]string, 0, len(best))
	for k := range best {
		keys = append(keys, k)
	}
	sort.Strings(keys)
	for _, k := range keys {
		r.Violation(best[k].key, best[k].caseID, best[k].what, nil)
	}
	if len(keys) > 0 {
		r.Sample(map[string]string{"first_violation": best[keys[0]].what})
	}
}

// c11Repair restores process-wide curve parameters that a defect may have corrupted
// (only crypto/elliptic's P-256 / P-521 parameter objects are reachable from here; the
// P-384 parameters of circl are restored through a fresh Generator() alias if it exists).
var c11ParamSnap = func() map[string][2]*big.Int {
	m := map[string][2]*big.Int{}
	for _, g := range []group.Group{group.P256, group.P384, group.P521} {
		b, _ := g.Generator().MarshalBinary()
		n := (len(b) - 1) / 2
		m[fmt.Sprint(g)] = [2]*big.Int{new(big.Int).SetBytes(b[1 : 1+n]), new(big.Int).SetBytes(b[1+n:])}
	}
	return m
}()

func c11Repair(fam string) {
	for _, g := range []group.Group{group.P256, group.P384, group.P521} {
		if fam != "group."+fmt.Sprint(g) {
			continue
		}
		// If Generator() hands out the parameter storage, writing the right value through it repairs it;
		// if it hands out a copy this is a no-op on the globals.
		snap := c11ParamSnap[fmt.Sprint(g)]
		n := (int(g.Params().ElementLength) - 1) / 2
		enc := make([]byte, 1+2*n)
		enc[0] = 4
		snap[0].FillBytes(enc[1 : 1+n])
		snap[1].FillBytes(enc[1+n:])
		good := g.NewElement()
		if p, _ := verifmc.Try(func() {
			if err := good.UnmarshalBinary(enc); err == nil {
				g.Generator().Set(good)
			}
		}); p {
			return
		}
	}
}

func TestVerifC11_hist_returned(t *testing.T) {
	r := verifmc.Start(t, "C11", "hist_returned")
	defer r.Finish()
	r.Rule("for every accessor of the table and every available way of modifying the object/slice it returns: modify the returned object, then re-query EVERY accessor of the same family; " +
		"all must return what they returned before; non-trivial = distinct (accessor, mutation)")
	c11RunObjects(t, r, false)
	r.RequireCounter("requeries", 1000)
}

func TestVerifC11_hist_indep(t *testing.T) {
	r := verifmc.Start(t, "C11", "hist_indep")
	defer r.Finish()
	r.Rule("for every accessor of the table called twice with equal arguments (two Generator()s, two keys unmarshalled from one buffer, two HPKE contexts restored from one raw buffer ...) " +
		"and every available way of driving/modifying the first result: the second result is unchanged, and so is every later call of the family; non-trivial = distinct (accessor, mutation)")
	c11RunObjects(t, r, true)
	r.RequireCounter("co-existing_objects_checked", 300)
}
