//go:build verif

package test_test

// C09 refcheck: binds the strict reference decoders of ref/c09ref to
// authoritative data and to independent implementations before any C09 unit
// trusts them. No circl decoder runs here; a failure is a broken check
// (t.Error), never an alarm.
//
//   - SEC 1: accept set and decoded coordinates equal crypto/elliptic
//     (nistec-backed Unmarshal / UnmarshalCompressed) and ref/wcurve's own
//     decoder on the whole compressed and uncompressed alphabets of the units.
//   - BLS12-381: the zkcrypto vector files ([i]G, i<1000, both formats, G1 and
//     G2) decode to members and re-encode identically; verdict equals
//     ref/wcurve.UnmarshalBLS on the whole alphabet; every constructed class
//     gets the verdict it was built for.
//   - RFC 8032: crypto/ed25519 public keys and the two RFC 8032 7.4 Ed448 keys
//     are members with the expected point; verdict equals ref/ecurve's decoder
//     on the whole alphabet; constructed classes get their verdicts.
//   - FourQ: verdict equals ref/ecurve.UnmarshalFourQ on the whole alphabet;
//     constructed classes; [392][N]P = O for the torsion points used.
//   - ristretto255: RFC 9496 A.1 multiples accepted and equal to the encoding
//     of [i]B; all 29 strings of A.3 refused.
//   - ML-KEM: the 75 NIST ACVP encapsulation keys shipped in kem/mlkem/testdata
//     pass; verdict equals ref/mlkem.CheckEncapsKey (C03's FIPS 203
//     transcription) on the alphabet; hand-computed boundary strings.

import (
	"bytes"
	"compress/gzip"
	"crypto/ed25519"
	"crypto/elliptic"
	"crypto/sha512"
	"encoding/hex"
	"encoding/json"
	"io"
	"math/big"
	"os"
	"strings"
	"testing"

	"github.com/cloudflare/circl/internal/verifmc"
	"github.com/cloudflare/circl/internal/verifref/c09ref"
	"github.com/cloudflare/circl/internal/verifref/ecurve"
	"github.com/cloudflare/circl/internal/verifref/fpx"
	refmlkem "github.com/cloudflare/circl/internal/verifref/mlkem"
	"github.com/cloudflare/circl/internal/verifref/wcurve"
)

// c09Expect maps a constructed class to the verdict it must get ("" = member, "*" = no expectation).
func c09Expect(class string, tab map[string]string) string {
	if v, ok := tab[class]; ok {
		return v
	}
	return "*"
}

func TestVerifC09_refcheck(t *testing.T) {
	r := verifmc.Start(t, "C09", "refcheck")
	defer r.Finish()
	r.Rule("reference decoders against crypto/elliptic, zkcrypto BLS12-381 vectors, crypto/ed25519, RFC 8032 7.4, RFC 9496 A.1/A.3, NIST ACVP ML-KEM keys, " +
		"and against the independently written decoders of ref/wcurve, ref/ecurve and ref/mlkem on the whole alphabets; distinct = each string compared")
	bad := func(format string, a ...interface{}) { t.Errorf(format, a...) }

	// ---------------------------------------------------------------- SEC 1
	for _, tc := range []struct {
		c   *wcurve.Curve
		std elliptic.Curve
	}{{wcurve.P256(), elliptic.P256()}, {wcurve.P384(), elliptic.P384()}, {wcurve.P521(), elliptic.P521()}} {
		c, std := tc.c, tc.std
		for format := 0; format < 3; format++ {
			cases := c09ref.SEC1Cases(c, format, c09ref.SEC1Options{FlipBases: r.Pick(1, 4), Special: 24})
			verifmc.ParallelFor(len(cases), func(i int) {
				cs := cases[i]
				v := c09ref.SEC1Verdict(c, cs.Data)
				P, err := c.UnmarshalSEC1(cs.Data)
				if (err == nil) != v.Member {
					bad("%s %s: c09ref says member=%v (%s), wcurve err=%v", c.Name, cs.Name, v.Member, v.Reason, err)
				}
				if v.Member && !bytes.Equal(v.Point, c.MarshalSEC1(P, false)) {
					bad("%s %s: decoded points differ", c.Name, cs.Name)
				}
				if format > 0 {
					var x, y *big.Int
					if format == 1 {
						x, y = elliptic.UnmarshalCompressed(std, cs.Data)
					} else {
						x, y = elliptic.Unmarshal(std, cs.Data)
					}
					if (x != nil) != v.Member {
						bad("%s %s: c09ref says member=%v (%s), crypto/elliptic accepts=%v", c.Name, cs.Name, v.Member, v.Reason, x != nil)
					} else if x != nil && !bytes.Equal(v.Point, elliptic.Marshal(std, x, y)) {
						bad("%s %s: point differs from crypto/elliptic", c.Name, cs.Name)
					}
				}
				want := c09Expect(cs.Class, map[string]string{"valid": "", "special": "", "alias": "field-range", "field-overflow": "field-range", "offcurve": "not-on-curve"})
				if want != "*" && want != v.Reason {
					bad("%s %s: class %s got verdict %q", c.Name, cs.Name, cs.Class, v.Reason)
				}
				if v.Member && !bytes.Equal(c09ref.SEC1Encode(c, P, format == 1), cs.Data) {
					bad("%s %s: member does not re-encode to itself", c.Name, cs.Name)
				}
				r.Eval(1)
				r.Distinct("sec1", c.Name, cs.Data)
			})
		}
	}

	// ------------------------------------------------------------ BLS12-381
	for _, tc := range []struct {
		c    *wcurve.Curve
		file string
		comp bool
	}{
		{wcurve.BLS12381G1(), "g1_uncompressed", false}, {wcurve.BLS12381G1(), "g1_compressed", true},
		{wcurve.BLS12381G2(), "g2_uncompressed", false}, {wcurve.BLS12381G2(), "g2_compressed", true},
	} {
		c := tc.c
		data, err := os.ReadFile("../../ecc/bls12381/testdata/" + tc.file + "_valid_test_vectors.dat")
		sz := c09ref.BLSLen(c, tc.comp)
		if err != nil || len(data) != 1000*sz {
			bad("%s: cannot use the vector file: %v", tc.file, err)
			continue
		}
		unc, err := os.ReadFile("../../ecc/bls12381/testdata/" + strings.Replace(tc.file, "_compressed", "_uncompressed", 1) + "_valid_test_vectors.dat")
		if err != nil {
			bad("%v", err)
			continue
		}
		usz := c09ref.BLSLen(c, false)
		idx := []int{}
		for i := 0; i < 1000; i++ {
			if i < 24 || i%97 == 0 {
				idx = append(idx, i)
			}
		}
		verifmc.ParallelFor(len(idx), func(k int) {
			i := idx[k]
			enc := data[i*sz : (i+1)*sz]
			v := c09ref.BLSVerdict(c, enc)
			if !v.Member || !bytes.Equal(v.Point, unc[i*usz:(i+1)*usz]) {
				bad("%s: vector %d: member=%v (%s) or point differs", tc.file, i, v.Member, v.Reason)
			}
			if got := c09ref.BLSEncode(c, c.BaseMult(big.NewInt(int64(i))), tc.comp); !bytes.Equal(got, enc) {
				bad("%s: vector %d: BLSEncode([i]G) differs", tc.file, i)
			}
			r.Eval(1)
			r.Distinct("blsvec", tc.file, i)
		})
		fb := r.Pick(0, 1)
		if tc.comp && c.F.Deg == 1 {
			fb = 1
		}
		cases := c09ref.BLSCases(c, tc.comp, c09ref.BLSOptions{FlipBases: fb})
		verifmc.ParallelFor(len(cases), func(i int) {
			cs := cases[i]
			v := c09ref.BLSVerdict(c, cs.Data)
			P, err := c.UnmarshalBLS(cs.Data)
			if (err == nil) != v.Member {
				bad("%s %s: c09ref member=%v (%s), wcurve err=%v", tc.file, cs.Name, v.Member, v.Reason, err)
			}
			if v.Member {
				if !bytes.Equal(v.Point, c.MarshalBLS(P, false)) || !bytes.Equal(c09ref.BLSEncode(c, P, tc.comp), cs.Data) {
					bad("%s %s: point or re-encoding differs", tc.file, cs.Name)
				}
			}
			want := c09Expect(cs.Class, map[string]string{"valid": "", "alias": "field-range", "field-overflow": "field-range",
				"offcurve": "not-on-curve", "nonsubgroup": "not-in-subgroup"})
			if want != "*" && want != v.Reason {
				bad("%s %s: class %s got verdict %q", tc.file, cs.Name, cs.Class, v.Reason)
			}
			r.Eval(1)
			r.Distinct("bls", tc.file, cs.Data)
		})
	}

	// ------------------------------------------------------------- RFC 8032
	{
		c := ecurve.Edwards25519()
		for i, seed := range verifmc.Seeds(32, 0) {
			pub := ed25519.NewKeyFromSeed(seed).Public().(ed25519.PublicKey)
			h := sha512.Sum512(seed)
			h[0] &= 248
			h[31] &= 127
			h[31] |= 64
			P := c.BaseMult(fpx.FromLE(h[:32]))
			v := c09ref.RFC8032Verdict(c, pub)
			if !v.Member || !bytes.Equal(v.Point, c09ref.EdNeutral(c, P)) || !bytes.Equal(c09ref.RFC8032Encode(c, P), pub) {
				bad("edwards25519: crypto/ed25519 key %d", i)
			}
			r.Distinct("ed25519key", i)
		}
	}
	{
		c := ecurve.Edwards448()
		for i, pkh := range []string{
			"5fd7449b59b461fd2ce787ec616ad46a1da1342485a70e1f8a0ea75d80e96778edf124769b46c7061bd6783df1e50f6cd1fa1abeafe8256180",
			"43ba28f430cdff456ae531545f7ecd0ac834a55d9358c0372bfa0c6c6798c0866aea01eb00742802b8438ea4cb82169c235160627b4c3a9480",
		} {
			pk, _ := hex.DecodeString(pkh)
			v := c09ref.RFC8032Verdict(c, pk)
			P, err := c.UnmarshalRFC8032(pk)
			if !v.Member || err != nil || !bytes.Equal(v.Point, c09ref.EdNeutral(c, P)) || !bytes.Equal(c09ref.RFC8032Encode(c, P), pk) {
				bad("edwards448: RFC 8032 7.4 key %d", i)
			}
			r.Distinct("ed448key", i)
		}
	}
	for _, c := range []*ecurve.Curve{ecurve.Edwards25519(), ecurve.Edwards448()} {
		c := c
		cases := c09ref.RFC8032Cases(c, c09ref.EdOptions{FlipBases: r.Pick(1, 4), Special: 64})
		verifmc.ParallelFor(len(cases), func(i int) {
			cs := cases[i]
			v := c09ref.RFC8032Verdict(c, cs.Data)
			P, err := c.UnmarshalRFC8032(cs.Data)
			if (err == nil) != v.Member {
				bad("%s %s: c09ref member=%v (%s), ecurve err=%v", c.Name, cs.Name, v.Member, v.Reason, err)
			}
			if v.Member && (!bytes.Equal(v.Point, c09ref.EdNeutral(c, P)) || !bytes.Equal(c09ref.RFC8032Encode(c, P), cs.Data) || !c.IsOnCurve(P)) {
				bad("%s %s: point or re-encoding differs", c.Name, cs.Name)
			}
			want := c09Expect(cs.Class, map[string]string{"valid": "", "special": "", "torsion": "", "field-overflow": "field-range", "offcurve": "not-on-curve",
				"sign-x0": "sign-bit-with-x=0", "unused-bits": "unused-bits"})
			if cs.Class == "alias" {
				if v.Member {
					bad("%s %s: alias accepted", c.Name, cs.Name)
				}
			} else if want != "*" && want != v.Reason {
				bad("%s %s: class %s got verdict %q", c.Name, cs.Name, cs.Class, v.Reason)
			}
			r.Eval(1)
			r.Distinct("rfc8032", c.Name, cs.Data)
		})
		// the torsion points really are torsion, and all of it
		tors := c09ref.EdTorsion(c)
		if int64(len(tors)) != c.H {
			bad("%s: %d torsion points, cofactor %d", c.Name, len(tors), c.H)
		}
		for _, T := range tors {
			if !c.IsOnCurve(T) || !c.IsIdentity(c.ScalarMult(big.NewInt(c.H), T)) {
				bad("%s: torsion point of wrong order", c.Name)
			}
		}
	}

	// ---------------------------------------------------------------- FourQ
	{
		c := ecurve.FourQ()
		cases := c09ref.FourQCases(c09ref.EdOptions{FlipBases: r.Pick(1, 4), Special: 64})
		verifmc.ParallelFor(len(cases), func(i int) {
			cs := cases[i]
			P1, v := c09ref.FourQDecode(cs.Data)
			P, err := c.UnmarshalFourQ(cs.Data)
			if (err == nil) != v.Member {
				bad("FourQ %s: c09ref member=%v (%s), ecurve err=%v", cs.Name, v.Member, v.Reason, err)
			}
			if v.Member && (!c.Equal(P, P1) || !bytes.Equal(c09ref.FourQEncode(P), cs.Data) || !bytes.Equal(c.MarshalFourQ(P), cs.Data) || !c.IsOnCurve(P)) {
				bad("FourQ %s: point or re-encoding differs", cs.Name)
			}
			want := c09Expect(cs.Class, map[string]string{"valid": "", "special": "", "torsion": "", "alias": "field-range", "field-overflow": "field-range",
				"offcurve": "not-on-curve", "sign-x0": "sign-bit-with-x=0", "unused-bits": "unused-bits"})
			if want != "*" && want != v.Reason {
				bad("FourQ %s: class %s got verdict %q", cs.Name, cs.Class, v.Reason)
			}
			r.Eval(1)
			r.Distinct("fourq", cs.Data)
		})
		if n := len(c09ref.EdFullTorsion(c)); n != 392 {
			bad("FourQ: %d small-order points, 392 expected", n)
		}
		// the seeded corner: (i, 0) is a point of order 4 and its encoding is 32 zero bytes
		if P, v := c09ref.FourQDecode(make([]byte, 32)); !v.Member || P.X.A.Sign() != 0 || P.X.B.Cmp(big.NewInt(1)) != 0 && P.X.B.Cmp(new(big.Int).Sub(c.F.P, big.NewInt(1))) != 0 ||
			!c.IsIdentity(c.ScalarMult(big.NewInt(4), P)) {
			bad("FourQ: 32 zero bytes do not decode to (+-i, 0) of order 4")
		}
		tors := c09ref.EdTorsion(c)
		r.Set("fourq_torsion_points", len(tors))
		for _, T := range tors {
			if !c.IsOnCurve(T) || !c.IsIdentity(c.ScalarMult(big.NewInt(392), T)) {
				bad("FourQ: torsion point of wrong order")
			}
		}
		// FourQShared on the generator: [k][392]G by two routes
		k := verifmc.Shake("c09-refcheck-k", 32)
		sh, ok := c09ref.FourQShared(k, c.G)
		kk := new(big.Int).Mul(fpx.FromLE(k), big.NewInt(392))
		if !ok || !bytes.Equal(sh, c09ref.FourQEncode(c.BaseMult(kk))) {
			bad("FourQ: FourQShared(k, G) != encode([392k]G)")
		}
	}

	// --------------------------------------------------------- ristretto255
	{
		c := ecurve.Edwards25519()
		for i, h := range c09ref.RFC9496Multiples {
			enc, _ := hex.DecodeString(h)
			v := c09ref.RistrettoVerdict(enc)
			if !v.Member || !bytes.Equal(v.Point, enc) {
				bad("ristretto255: RFC 9496 A.1 multiple %d refused", i)
			}
			if i > 0 && !bytes.Equal(ecurve.RistrettoEncode(c.BaseMult(big.NewInt(int64(i)))), enc) {
				bad("ristretto255: encoding of [%d]B differs from RFC 9496 A.1", i)
			}
			r.Distinct("r255ok", i)
		}
		for i, h := range c09ref.RFC9496Bad {
			enc, _ := hex.DecodeString(h)
			if len(enc) != 32 {
				bad("ristretto255: bad vector %d has length %d", i, len(enc))
			}
			if v := c09ref.RistrettoVerdict(enc); v.Member {
				bad("ristretto255: RFC 9496 A.3 string %d accepted", i)
			}
			r.Distinct("r255bad", i)
		}
		cases := c09ref.RistrettoCases(c09ref.EdOptions{FlipBases: r.Pick(1, 4), Special: 16})
		verifmc.ParallelFor(len(cases), func(i int) {
			cs := cases[i]
			v := c09ref.RistrettoVerdict(cs.Data)
			if v.Member && !bytes.Equal(v.Point, cs.Data) {
				bad("ristretto255 %s: member does not re-encode to itself", cs.Name)
			}
			want := c09Expect(cs.Class, map[string]string{"valid": "", "special": "", "field-overflow": "field-range", "negative": "negative-s", "unused-bits": "field-range"})
			if cs.Class == "rfc-invalid" && v.Member {
				bad("ristretto255 %s accepted", cs.Name)
			}
			if want != "*" && want != v.Reason {
				bad("ristretto255 %s: class %s got verdict %q", cs.Name, cs.Class, v.Reason)
			}
			r.Eval(1)
			r.Distinct("r255", cs.Data)
		})
	}

	// --------------------------------------------------------------- ML-KEM
	{
		f, err := os.Open("../../kem/mlkem/testdata/ML-KEM-encapDecap-FIPS203/prompt.json.gz")
		if err != nil {
			bad("%v", err)
		} else {
			gz, _ := gzip.NewReader(f)
			raw, _ := io.ReadAll(gz)
			f.Close()
			var doc struct {
				TestGroups []struct {
					ParameterSet string `json:"parameterSet"`
					Function     string `json:"function"`
					Tests        []struct {
						EK string `json:"ek"`
					} `json:"tests"`
				} `json:"testGroups"`
			}
			if err := json.Unmarshal(raw, &doc); err != nil {
				bad("%v", err)
			}
			n := 0
			for _, g := range doc.TestGroups {
				k := map[string]int{"ML-KEM-512": 2, "ML-KEM-768": 3, "ML-KEM-1024": 4}[g.ParameterSet]
				if g.Function != "encapsulation" || k == 0 {
					continue
				}
				for i, tc := range g.Tests {
					ek, _ := hex.DecodeString(tc.EK)
					if v := c09ref.MLKEMVerdict(ek, k); !v.Member {
						bad("%s: ACVP encapsulation key %d refused (%s)", g.ParameterSet, i, v.Reason)
					}
					if n%25 == 0 {
						cases := c09ref.MLKEMCases("acvp", ek, k, r.Thorough() || k == 3)
						verifmc.ParallelFor(len(cases), func(j int) {
							v := c09ref.MLKEMVerdict(cases[j].Data, k)
							if (refmlkem.CheckEncapsKey(refmlkem.ByK(k), cases[j].Data) == nil) != v.Member {
								bad("%s %s: c09ref and ref/mlkem disagree", g.ParameterSet, cases[j].Name)
							}
							if cases[j].Class == "coefficient>=q" && v.Member || cases[j].Class == "coefficient-in-range" && !v.Member {
								bad("%s %s: class %s got member=%v", g.ParameterSet, cases[j].Name, cases[j].Class, v.Member)
							}
							r.Eval(1)
						})
					}
					n++
					r.Distinct("acvp-ek", g.ParameterSet, i)
				}
			}
			if n != 75 {
				bad("ML-KEM: %d ACVP encapsulation keys found, 75 expected", n)
			}
		}
		// hand-computed: coefficients (a, b) -> bytes a&ff, a>>8 | (b&f)<<4, b>>4
		ek := make([]byte, c09ref.MLKEMLen(2))
		ek[0], ek[1], ek[2] = 0x00, 0x0D, 0x00 // a = 0xD00 = 3328 = q-1
		if !c09ref.MLKEMVerdict(ek, 2).Member {
			bad("ML-KEM: coefficient q-1 refused")
		}
		ek[0] = 0x01 // a = 3329 = q
		if c09ref.MLKEMVerdict(ek, 2).Member {
			bad("ML-KEM: coefficient q accepted")
		}
		ek[0], ek[1], ek[2] = 0, 0x10, 0xD0 // b = 0xD01 = q
		if c09ref.MLKEMVerdict(ek, 2).Member {
			bad("ML-KEM: odd coefficient q accepted")
		}
		ek[1] = 0x00 // b = 0xD00
		if !c09ref.MLKEMVerdict(ek, 2).Member {
			bad("ML-KEM: odd coefficient q-1 refused")
		}
	}
}
