//go:build verif

package test_test

// C13 refcheck: binds the reference curve models ref/wcurve, ref/ecurve and the
// GF(p^12) tower of ref/fpx to authoritative data before any C13 unit trusts
// them. Nothing of circl's curve code is executed here; a failure is a broken
// check (t.Fatal), never an alarm.

import (
	"bytes"
	"crypto/ed25519"
	"crypto/elliptic"
	"crypto/sha512"
	"encoding/hex"
	"math/big"
	"os"
	"testing"
	"time"

	"github.com/cloudflare/circl/internal/verifmc"
	"github.com/cloudflare/circl/internal/verifref/curvealpha"
	"github.com/cloudflare/circl/internal/verifref/ecurve"
	"github.com/cloudflare/circl/internal/verifref/fpx"
	"github.com/cloudflare/circl/internal/verifref/wcurve"
	"golang.org/x/crypto/sha3"
)

func TestVerifC13_refcheck(t *testing.T) {
	r := verifmc.Start(t, "C13", "refcheck")
	defer r.Finish()
	r.Rule("reference models against authoritative data: crypto/elliptic (nistec and the generic big.Int CurveParams code), " +
		"zkcrypto BLS12-381 [i]G vectors i<1000 (4 files in ecc/bls12381/testdata), crypto/ed25519 key derivation, RFC 8032 Ed448 vector, " +
		"RFC 9496 generator multiples, group orders, isogeny identities, GF(p^12) field order; distinct = each vector compared")

	var sections []func()
	// ---- NIST curves against crypto/elliptic (two implementations)
	for _, tc := range []struct {
		c   *wcurve.Curve
		std elliptic.Curve
	}{{wcurve.P256(), elliptic.P256()}, {wcurve.P384(), elliptic.P384()}, {wcurve.P521(), elliptic.P521()}} {
		tc := tc
		sections = append(sections, func() {
			c, std := tc.c, tc.std
			sp := std.Params()
			if c.F.P.Cmp(sp.P) != 0 || c.N.Cmp(sp.N) != 0 || c.B.A.Cmp(sp.B) != 0 || c.G.X.A.Cmp(sp.Gx) != 0 || c.G.Y.A.Cmp(sp.Gy) != 0 {
				{
					t.Errorf("%s: parameters differ from crypto/elliptic", c.Name)
					return
				}
			}
			generic := *sp // a copy is not recognised as a named curve, so the generic Jacobian big.Int code runs
			gen := &generic
			toStd := func(P wcurve.Point) (x, y *big.Int) {
				if P.Inf {
					return new(big.Int), new(big.Int)
				}
				return P.X.A, P.Y.A
			}
			same := func(P wcurve.Point, x, y *big.Int) bool {
				px, py := toStd(P)
				return px.Cmp(x) == 0 && py.Cmp(y) == 0
			}
			sc := curvealpha.Scalars(c.N, 8*((c.N.BitLen()+7)/8), 0)
			logs := curvealpha.PointLogs(c.N)
			verifmc.ParallelFor(len(sc), func(i int) {
				k := sc[i].V
				kb := k.FillBytes(make([]byte, (c.N.BitLen()+7)/8))
				P := c.BaseMult(k)
				if !c.Equal(P, c.ScalarMult(k, c.G)) || !c.IsOnCurve(P) {
					t.Errorf("%s: BaseMult != ScalarMult(G) at %s", c.Name, sc[i].Name)
				}
				x, y := std.ScalarBaseMult(kb)
				gx, gy := gen.ScalarBaseMult(kb)
				if !same(P, x, y) || !same(P, gx, gy) {
					t.Errorf("%s: [%s]G differs from crypto/elliptic", c.Name, sc[i].Name)
				}
				r.Eval(3)
				r.Distinct(c.Name, "base", sc[i].Name)
				// variable base on the two pseudo-random points
				for _, a := range logs {
					if a.Name != "[s0]G" && a.Name != "-1G" {
						continue
					}
					Q := c.BaseMult(a.V)
					qx, qy := toStd(Q)
					R := c.ScalarMult(k, Q)
					x, y := std.ScalarMult(qx, qy, kb)
					if !same(R, x, y) {
						t.Errorf("%s: [%s]%s differs from crypto/elliptic", c.Name, sc[i].Name, a.Name)
					}
					r.Eval(1)
					r.Distinct(c.Name, "var", sc[i].Name, a.Name)
				}
			})
			// addition table on the point alphabet
			pts := make([]wcurve.Point, len(logs))
			for i, a := range logs {
				pts[i] = c.BaseMult(a.V)
			}
			for i := range pts {
				for j := range pts {
					S := c.Add(pts[i], pts[j])
					want := c.BaseMult(new(big.Int).Add(logs[i].V, logs[j].V))
					x1, y1 := toStd(pts[i])
					x2, y2 := toStd(pts[j])
					var gx, gy *big.Int
					if i == j && !pts[i].Inf {
						gx, gy = gen.Double(x1, y1)
					} else {
						gx, gy = gen.Add(x1, y1, x2, y2)
					}
					nx, ny := std.Add(x1, y1, x2, y2)
					if !c.Equal(S, want) || !same(S, nx, ny) || !same(S, gx, gy) {
						t.Errorf("%s: %s + %s: reference disagrees with crypto/elliptic or with its own BaseMult", c.Name, logs[i].Name, logs[j].Name)
					}
					r.Eval(1)
					r.Distinct(c.Name, "add", i, j)
				}
			}
			// SEC1 round trips against the standard library
			for i, P := range pts {
				for _, comp := range []bool{false, true} {
					enc := c.MarshalSEC1(P, comp)
					if !P.Inf {
						var want []byte
						if comp {
							want = elliptic.MarshalCompressed(std, P.X.A, P.Y.A)
						} else {
							want = elliptic.Marshal(std, P.X.A, P.Y.A)
						}
						if !bytes.Equal(enc, want) {
							t.Errorf("%s: SEC1 encoding of %s differs", c.Name, logs[i].Name)
						}
					}
					Q, err := c.UnmarshalSEC1(enc)
					if err != nil || !c.Equal(P, Q) {
						t.Errorf("%s: SEC1 round trip of %s", c.Name, logs[i].Name)
					}
					r.Distinct(c.Name, "sec1", i, comp)
				}
			}
			if !c.ScalarMult(c.N, c.G).Inf {
				{
					t.Errorf("%s: [n]G != O", c.Name)
					return
				}
			}
		})
	}

	// ---- BLS12-381 against the zkcrypto serialisation vectors ([i]G, i = 0..999)
	for _, tc := range []struct {
		c    *wcurve.Curve
		file string
		comp bool
	}{
		{wcurve.BLS12381G1(), "g1_uncompressed", false}, {wcurve.BLS12381G1(), "g1_compressed", true},
		{wcurve.BLS12381G2(), "g2_uncompressed", false}, {wcurve.BLS12381G2(), "g2_compressed", true},
	} {
		tc := tc
		sections = append(sections, func() {
			data, err := os.ReadFile("../../ecc/bls12381/testdata/" + tc.file + "_valid_test_vectors.dat")
			if err != nil {
				{
					t.Error(err)
					return
				}
			}
			c := tc.c
			sz := c.ByteLen * c.F.Deg
			if !tc.comp {
				sz *= 2
			}
			if len(data) != 1000*sz {
				{
					t.Errorf("%s: unexpected vector file size %d", tc.file, len(data))
					return
				}
			}
			P := c.Infinity()
			for i := 0; i < 1000; i++ {
				want := data[i*sz : (i+1)*sz]
				if got := c.MarshalBLS(P, tc.comp); !bytes.Equal(got, want) {
					{
						t.Errorf("%s: [%d]G encodes to %x, vector %x", tc.file, i, got, want)
						return
					}
				}
				if i%50 == 0 || i < 20 {
					Q, err := c.UnmarshalBLS(want)
					if err != nil || !c.Equal(P, Q) {
						{
							t.Errorf("%s: decoding vector %d: %v", tc.file, i, err)
							return
						}
					}
					if !c.Equal(P, c.BaseMult(big.NewInt(int64(i)))) {
						{
							t.Errorf("%s: BaseMult(%d)", tc.file, i)
							return
						}
					}
				}
				r.Eval(1)
				r.Distinct(tc.file, i)
				P = c.Add(P, c.G)
			}
		})
	}
	for _, c := range []*wcurve.Curve{wcurve.BLS12381G1(), wcurve.BLS12381G2()} {
		c := c
		sections = append(sections, func() {
			if !c.IsOnCurve(c.G) || !c.ScalarMult(c.N, c.G).Inf || !c.Equal(c.BaseMult(new(big.Int).Sub(c.N, big.NewInt(1))), c.Neg(c.G)) {
				{
					t.Errorf("%s: order of G", c.Name)
					return
				}
			}
			for _, s := range curvealpha.Scalars(c.N, 256, 0) {
				if !c.Equal(c.BaseMult(s.V), c.ScalarMult(s.V, c.G)) {
					{
						t.Errorf("%s: BaseMult != ScalarMult at %s", c.Name, s.Name)
						return
					}
				}
				r.Eval(2)
			}
		})
	}

	// ---- edwards25519 against crypto/ed25519 key derivation
	sections = append(sections, func() {
		c := ecurve.Edwards25519()
		if !c.IsOnCurve(c.G) || !c.IsIdentity(c.ScalarMult(c.N, c.G)) {
			{
				t.Error("edwards25519: base point")
				return
			}
		}
		for i, seed := range verifmc.Seeds(32, 0) {
			pub := ed25519.NewKeyFromSeed(seed).Public().(ed25519.PublicKey)
			h := sha512.Sum512(seed)
			h[0] &= 248
			h[31] &= 127
			h[31] |= 64
			s := fpx.FromLE(h[:32])
			P := c.BaseMult(s)
			if !c.Equal(P, c.ScalarMult(s, c.G)) {
				{
					t.Error("edwards25519: BaseMult != ScalarMult")
					return
				}
			}
			if got := c.MarshalRFC8032(P); !bytes.Equal(got, pub) {
				{
					t.Errorf("edwards25519: public key %d: %x want %x", i, got, pub)
					return
				}
			}
			Q, err := c.UnmarshalRFC8032(pub)
			if err != nil || !c.Equal(P, Q) {
				{
					t.Error("edwards25519: decode")
					return
				}
			}
			r.Eval(2)
			r.Distinct("ed25519", i)
		}
	})
	// ---- edwards448 against the RFC 8032 7.4 vectors (first two)
	sections = append(sections, func() {
		c := ecurve.Edwards448()
		if !c.IsOnCurve(c.G) || !c.IsIdentity(c.ScalarMult(c.N, c.G)) {
			{
				t.Error("edwards448: base point")
				return
			}
		}
		for i, v := range [][2]string{
			{"6c82a562cb808d10d632be89c8513ebf6c929f34ddfa8c9f63c9960ef6e348a3528c8a3fcc2f044e39a3fc5b94492f8f032e7549a20098f95b",
				"5fd7449b59b461fd2ce787ec616ad46a1da1342485a70e1f8a0ea75d80e96778edf124769b46c7061bd6783df1e50f6cd1fa1abeafe8256180"},
			{"c4eab05d357007c632f3dbb48489924d552b08fe0c353a0d4a1f00acda2c463afbea67c5e8d2877c5e3bc397a659949ef8021e954e0a12274e",
				"43ba28f430cdff456ae531545f7ecd0ac834a55d9358c0372bfa0c6c6798c0866aea01eb00742802b8438ea4cb82169c235160627b4c3a9480"},
		} {
			sk, _ := hex.DecodeString(v[0])
			pk, _ := hex.DecodeString(v[1])
			h := make([]byte, 114)
			sha3.ShakeSum256(h, sk)
			h[0] &= 0xfc
			h[55] |= 0x80
			h[56] = 0
			s := fpx.FromLE(h[:57])
			P := c.BaseMult(s)
			if got := c.MarshalRFC8032(P); !bytes.Equal(got, pk) {
				{
					t.Errorf("edwards448: RFC 8032 vector %d: %x want %x", i, got, pk)
					return
				}
			}
			Q, err := c.UnmarshalRFC8032(pk)
			if err != nil || !c.Equal(P, Q) || !c.Equal(P, c.ScalarMult(s, c.G)) {
				{
					t.Error("edwards448: decode / ScalarMult")
					return
				}
			}
			r.Eval(2)
			r.Distinct("ed448", i)
		}
		// 4-isogeny: image on the twist, homomorphism, dual o iso = [4]
		tw := ecurve.Twist448()
		logs := curvealpha.PointLogs(c.N)
		for i, a := range logs {
			P := c.BaseMult(a.V)
			IP, ok := ecurve.Iso448(P)
			if !ok || !tw.IsOnCurve(IP) {
				{
					t.Errorf("Iso448(%s) not on the twist", a.Name)
					return
				}
			}
			back, ok := ecurve.Iso448Dual(IP)
			if !ok || !c.Equal(back, c.ScalarMult(big.NewInt(4), P)) {
				{
					t.Errorf("Iso448Dual(Iso448(%s)) != [4]P", a.Name)
					return
				}
			}
			for j, b := range logs {
				Q := c.BaseMult(b.V)
				IQ, _ := ecurve.Iso448(Q)
				IS, _ := ecurve.Iso448(c.Add(P, Q))
				if !tw.Equal(IS, tw.Add(IP, IQ)) {
					{
						t.Errorf("Iso448 is not additive at %s, %s", a.Name, b.Name)
						return
					}
				}
				r.Distinct("iso448", i, j)
			}
			if !tw.Equal(IP, tw.BaseMult(a.V)) {
				{
					t.Errorf("twist BaseMult(%s) != Iso448([a]G)", a.Name)
					return
				}
			}
			r.Eval(1)
		}
		if !tw.IsIdentity(tw.ScalarMult(tw.N, tw.G)) || tw.IsIdentity(tw.G) {
			{
				t.Error("twist448: order of base point")
				return
			}
		}
	})
	// ---- FourQ: parameters as printed in the paper, group order 392*N
	sections = append(sections, func() {
		c := ecurve.FourQ()
		if c.D.B.Text(16) != "5e472f846657e0fcb3821488f1fc0c8d" || c.D.A.Text(16) != "e40000000000000142" {
			{
				t.Errorf("FourQ: d = %v", c.D)
				return
			}
		}
		if !c.IsOnCurve(c.G) || !c.IsIdentity(c.ScalarMult(c.N, c.G)) || c.IsIdentity(c.G) || !c.N.ProbablyPrime(20) {
			{
				t.Error("FourQ: base point / order")
				return
			}
		}
		full := new(big.Int).Mul(c.N, big.NewInt(392))
		outside := 0
		for y0 := int64(2); y0 < 12; y0++ {
			for y1 := int64(0); y1 < 2; y1++ {
				P, _, ok := c.LiftY(c.F.Int2(y0, y1))
				if !ok {
					continue
				}
				if !c.IsOnCurve(P) || !c.IsIdentity(c.ScalarMult(full, P)) {
					{
						t.Errorf("FourQ: [392 N]P != O for y=(%d,%d)", y0, y1)
						return
					}
				}
				if !c.IsIdentity(c.ScalarMult(c.N, P)) {
					outside++
				}
				enc := c.MarshalFourQ(P)
				Q, err := c.UnmarshalFourQ(enc)
				if err != nil || !c.Equal(P, Q) {
					{
						t.Errorf("FourQ: encoding round trip y=(%d,%d)", y0, y1)
						return
					}
				}
				r.Eval(2)
				r.Distinct("fourq", y0, y1)
			}
		}
		if outside == 0 {
			{
				t.Error("FourQ: no point outside the prime-order subgroup found")
				return
			}
		}
		for _, s := range curvealpha.Scalars(c.N, 256, 0) {
			if !c.Equal(c.BaseMult(s.V), c.ScalarMult(s.V, c.G)) {
				{
					t.Errorf("FourQ: BaseMult != ScalarMult at %s", s.Name)
					return
				}
			}
		}
	})
	// ---- ristretto255: RFC 9496 A.1 multiples of the generator
	sections = append(sections, func() {
		c := ecurve.Edwards25519()
		vec := []string{
			"0000000000000000000000000000000000000000000000000000000000000000",
			"e2f2ae0a6abc4e71a884a961c500515f58e30b6aa582dd8db6a65945e08d2d76",
			"6a493210f7499cd17fecb510ae0cea23a110e8d5b901f8acadd3095c73a3b919",
			"94741f5d5d52755ece4f23f044ee27d5d1ea1e2bd196b462166b16152a9d0259",
			"da80862773358b466ffadfe0b3293ab3d9fd53c5ea6c955358f568322daf6a57",
			"e882b131016b52c1d3337080187cf768423efccbb517bb495ab812c4160ff44e",
			"f64746d3c92b13050ed8d80236a7f0007c3b3f962f5ba793d19a601ebb1df403",
			"44f53520926ec81fbd5a387845beb7df85a96a24ece18738bdcfa6a7822a176d",
			"903293d8f2287ebe10e2374dc1a53e0bc887e592699f02d077d5263cdd55601c",
			"02622ace8f7303a31cafc63f8fc48fdc16e1c8c8d234b2f0d6685282a9076031",
			"20706fd788b2720a1ed2a5dad4952b01f413bcf0e7564de8cdc816689e2db95f",
			"bce83f8ba5dd2fa572864c24ba1810f9522bc6004afe95877ac73241cafdab42",
			"e4549ee16b9aa03099ca208c67adafcafa4c3f3e4e5303de6026e3ca8ff84460",
			"aa52e000df2e16f55fb1032fc33bc42742dad6bd5a8fc0be0167436c5948501f",
			"46376b80f409b29dc2b5f6f0c52591990896e5716f41477cd30085ab7f10301e",
			"e0c418f7c8d9c4cdd7395b93ea124f3ad99021bb681dfc3302a9d99a2e53e64e",
		}
		for i, v := range vec {
			P := c.BaseMult(big.NewInt(int64(i)))
			if got := hex.EncodeToString(ecurve.RistrettoEncode(P)); got != v {
				{
					t.Errorf("ristretto255: [%d]B encodes to %s want %s", i, got, v)
					return
				}
			}
			raw, _ := hex.DecodeString(v)
			Q, err := ecurve.RistrettoDecode(raw)
			if err != nil || !ecurve.RistrettoEqual(P, Q) || !c.IsOnCurve(Q) {
				{
					t.Errorf("ristretto255: decode of [%d]B", i)
					return
				}
			}
			// every representative of the coset P + E[4] encodes identically
			T4, _, _ := c.LiftY(c.F.Zero()) // a point of order 4 (y = 0)
			if got := hex.EncodeToString(ecurve.RistrettoEncode(c.Add(P, T4))); got != v {
				{
					t.Errorf("ristretto255: coset representative of [%d]B encodes to %s", i, got)
					return
				}
			}
			r.Eval(3)
			r.Distinct("ristretto", i)
		}
	})
	// ---- GF(p^12) tower: a field of p^12 elements (x^(p^12) = x), Exp additive in the exponent
	sections = append(sections, func() {
		tw := fpx.NewTower12(wcurve.BLS12381P())
		var x fpx.E12
		for i := 0; i < 2; i++ {
			for j := 0; j < 3; j++ {
				x[i][j] = tw.F2.New(fpx.FromBE(verifmc.Shake("c13/fp12/a"+string(rune('0'+3*i+j)), 47)), fpx.FromBE(verifmc.Shake("c13/fp12/b"+string(rune('0'+3*i+j)), 47)))
			}
		}
		p12 := new(big.Int).Exp(tw.F2.P, big.NewInt(12), nil)
		if !tw.Equal(tw.Exp(x, p12), x) {
			{
				t.Error("fpx.Tower12: x^(p^12) != x")
				return
			}
		}
		a, b := big.NewInt(0xabcdef), fpx.FromBE(verifmc.Shake("c13/fp12/e", 32))
		if !tw.Equal(tw.Mul(tw.Exp(x, a), tw.Exp(x, b)), tw.Exp(x, new(big.Int).Add(a, b))) {
			{
				t.Error("fpx.Tower12: x^a x^b != x^(a+b)")
				return
			}
		}
		if !tw.Equal(tw.Mul(x, tw.One()), x) {
			{
				t.Error("fpx.Tower12: one")
				return
			}
		}
		r.Eval(4)
		r.Distinct("fp12")
	})
	secs := make([]float64, len(sections))
	verifmc.ParallelFor(len(sections), func(i int) {
		t0 := time.Now()
		sections[i]()
		secs[i] = time.Since(t0).Seconds()
	})
	r.Set("section_wall_s", secs)
}
