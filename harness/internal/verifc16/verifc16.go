//go:build verif

// Package verifc16 holds the alphabets shared by the C16 harnesses (OPRF,
// zk/dleq, zk/dl, zk/qndleq, ot/simot). Virtual package: exists only in the
// /verif overlay.
package verifc16

import (
	"bufio"
	"crypto"
	"encoding/hex"
	"fmt"
	"math/big"
	"os"
	"path/filepath"
	"sort"
	"strings"
	"sync"

	"github.com/cloudflare/circl/group"
	"github.com/cloudflare/circl/internal/verifmc"
	"github.com/cloudflare/circl/internal/verifref/c16ref"
)

// Grp is one prime-order group with the names used by the reference.
type Grp struct {
	Name    string // reference name: P-256, P-384, P-521, ristretto255
	G       group.Group
	SuiteID string // RFC 9497 ciphersuite identifier
	Hash    crypto.Hash
	N       *big.Int // group order (from the reference, not from circl)
}

// Groups returns the four groups of RFC 9497 that circl implements.
func Groups() []Grp {
	gs := []Grp{
		{Name: "ristretto255", G: group.Ristretto255, SuiteID: "ristretto255-SHA512", Hash: crypto.SHA512},
		{Name: "P-256", G: group.P256, SuiteID: "P256-SHA256", Hash: crypto.SHA256},
		{Name: "P-384", G: group.P384, SuiteID: "P384-SHA384", Hash: crypto.SHA384},
		{Name: "P-521", G: group.P521, SuiteID: "P521-SHA512", Hash: crypto.SHA512},
	}
	for i := range gs {
		gs[i].N = c16ref.Order(gs[i].Name)
	}
	return gs
}

// Level is the enumeration budget of a group: the cost of one scalar
// multiplication differs by a factor of 25 between P-256/ristretto255 and P-521
// (group/short.go is the same code for the three NIST curves; only the curve
// back end differs), so the quick tier runs the full quick alphabets on
// ristretto255 and P-256, a medium subset on P-384 and a light subset on P-521.
// 0 = light, 1 = medium, 2 = full quick alphabet, 3 = thorough alphabet.
func (g Grp) Level(thorough bool) int {
	q := map[string]int{"ristretto255": 2, "P-256": 2, "P-384": 1, "P-521": 0}
	th := map[string]int{"ristretto255": 3, "P-256": 3, "P-384": 2, "P-521": 2}
	if thorough {
		return th[g.Name]
	}
	return q[g.Name]
}

// LevelNote describes Level for the evidence.
const LevelNote = "per-group budget: quick = full quick alphabet on ristretto255 and P-256, medium subset on P-384, light subset on P-521; " +
	"thorough = thorough alphabet on ristretto255 and P-256, full quick alphabet on P-384 and P-521"

// NamedScalar is a scalar with its name in the alphabet and its integer value.
type NamedScalar struct {
	Name string
	V    *big.Int
	S    group.Scalar
}

// Scalar builds the group scalar v mod n.
func (g Grp) Scalar(v *big.Int) group.Scalar {
	return g.G.NewScalar().SetBigInt(new(big.Int).Mod(v, g.N))
}

// Named returns the scalar with a name.
func (g Grp) Named(name string, v *big.Int) NamedScalar {
	v = new(big.Int).Mod(v, g.N)
	return NamedScalar{name, v, g.Scalar(v)}
}

// SeedInt is the SHAKE-derived scalar value for a label (seed 0 = fixed alphabet).
func (g Grp) SeedInt(label string, seed int64) *big.Int {
	b := verifmc.Shake(fmt.Sprintf("c16/%s/%s/%d", g.Name, label, seed), 80)
	return new(big.Int).Mod(new(big.Int).SetBytes(b), g.N)
}

// Scalars returns the boundary alphabet {0?, 1, 2, n-1, SEED(label)} (+ one
// more SHAKE value when VERIF_SEED != 0).
func (g Grp) Scalars(label string, withZero bool, seed int64) []NamedScalar {
	var out []NamedScalar
	if withZero {
		out = append(out, g.Named("0", big.NewInt(0)))
	}
	out = append(out, g.Named("1", big.NewInt(1)), g.Named("2", big.NewInt(2)),
		g.Named("n-1", new(big.Int).Sub(g.N, big.NewInt(1))), g.Named("seed", g.SeedInt(label, 0)))
	if seed != 0 {
		out = append(out, g.Named(fmt.Sprintf("seed%d", seed), g.SeedInt(label, seed)))
	}
	return out
}

// Multiple returns v*Generator.
func (g Grp) Multiple(v *big.Int) group.Element {
	return g.G.NewElement().MulGen(g.Scalar(v))
}

// Enc is the compressed encoding of an element (panics on error: harness-internal).
func Enc(e group.Element) []byte {
	b, err := e.MarshalBinaryCompress()
	if err != nil {
		panic(err)
	}
	return b
}

// EncS is the encoding of a scalar.
func EncS(s group.Scalar) []byte {
	b, err := s.MarshalBinary()
	if err != nil {
		panic(err)
	}
	return b
}

// Hx abbreviates bytes for case descriptions.
func Hx(b []byte) string { return hex.EncodeToString(b) }

// Collector gathers violations found by parallel workers and hands them to the
// run in sorted order, so that the example kept per key does not depend on scheduling.
type Collector struct {
	mu sync.Mutex
	v  []collected
}

type collected struct {
	key, id, what string
	replay        interface{}
}

// Add records one violation.
func (c *Collector) Add(key, id, what string, replay interface{}) {
	c.mu.Lock()
	c.v = append(c.v, collected{key, id, what, replay})
	c.mu.Unlock()
}

// Flush reports everything collected, ordered by (key, length of case id, case id).
func (c *Collector) Flush(r *verifmc.Run) {
	c.mu.Lock()
	defer c.mu.Unlock()
	sort.Slice(c.v, func(i, j int) bool {
		a, b := c.v[i], c.v[j]
		if a.key != b.key {
			return a.key < b.key
		}
		if len(a.id) != len(b.id) {
			return len(a.id) < len(b.id)
		}
		return a.id < b.id
	})
	for _, x := range c.v {
		r.Violation(x.key, x.id, x.what, x.replay)
	}
	c.v = nil
}

// SafePrimes loads the fixture safe primes ($VERIF_DIR/ref/testdata/safe_primes.txt).
func SafePrimes() ([]*big.Int, error) {
	dir := os.Getenv("VERIF_DIR")
	if dir == "" {
		dir = "/verif"
	}
	f, err := os.Open(filepath.Join(dir, "ref", "testdata", "safe_primes.txt"))
	if err != nil {
		return nil, err
	}
	defer f.Close()
	var out []*big.Int
	sc := bufio.NewScanner(f)
	for sc.Scan() {
		ln := strings.TrimSpace(sc.Text())
		if ln == "" || strings.HasPrefix(ln, "#") {
			continue
		}
		p, ok := new(big.Int).SetString(ln, 16)
		if !ok {
			return nil, fmt.Errorf("safe_primes.txt: bad line %q", ln)
		}
		out = append(out, p)
	}
	return out, sc.Err()
}
