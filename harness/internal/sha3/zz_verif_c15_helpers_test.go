//go:build verif

package sha3_test

// C15, internal/sha3: helpers shared by the sponge, lengths and partitions units. This file and
// every unit file that uses it are in the external test package, so they can name exported
// identifiers of internal/sha3 only and survive any refactoring of its internals.

import (
	"fmt"
	"os"
	"runtime"
	"testing"

	"github.com/cloudflare/circl/internal/sha3"
	"github.com/cloudflare/circl/internal/verifmc"
	"github.com/cloudflare/circl/internal/verifref/c15hist"
)

// internal/sha3 has two sponge back-ends chosen at build time: xor_unaligned.go (amd64, 386,
// ppc64le) and the portable xor_generic.go (every other GOARCH, or -tags appengine). Nothing in
// the package depends on purego or on CPU features, so the sponge units run under the
// configurations `default` and `appengine` only.
func c15SkipNonDefault(t *testing.T) {
	if c := os.Getenv("VERIF_CONFIG"); c != "" && c != "default" && c != "appengine" {
		t.Skip("internal/sha3 depends only on the xor back-end; checked under the default and appengine configurations")
	}
}

// c15RecordBackend puts the back-end (constant c15XorBackend, set by a pair of files whose build
// constraints mirror xor_generic.go / xor_unaligned.go) in the evidence and marks the run vacuous
// when the configuration did not select the back-end it exists for. The in-package unit
// sponge_internals cross-checks the constant against the compiled storageBuf type.
func c15RecordBackend(r *verifmc.Run) {
	b := c15XorBackend
	r.Set("xor_backend", b)
	r.Count("backend:"+b, 1)
	want := map[string]string{"appengine": "xor_generic"}
	if runtime.GOARCH == "amd64" || runtime.GOARCH == "386" || runtime.GOARCH == "ppc64le" {
		want["default"] = "xor_unaligned"
	}
	if w, ok := want[r.Config()]; ok && w != b {
		r.Vacuous(fmt.Sprintf("configuration %s was expected to compile %s but %s is in the binary", r.Config(), w, b))
	}
}

// ---------------------------------------------------------------- variants

type c15Variant struct {
	name   string
	mk     func() sha3.State
	rate   int
	ds     byte
	rounds int
	sumLen int
	dsAlt  []byte // SwitchDS alphabet
}

func c15Variants() []c15Variant {
	return []c15Variant{
		{"SHA3-224", sha3.New224, 144, 0x06, 24, 28, nil},
		{"SHA3-256", sha3.New256, 136, 0x06, 24, 32, nil},
		{"SHA3-384", sha3.New384, 104, 0x06, 24, 48, nil},
		{"SHA3-512", sha3.New512, 72, 0x06, 24, 64, nil},
		{"SHAKE128", sha3.NewShake128, 168, 0x1f, 24, 0, nil},
		{"SHAKE256", sha3.NewShake256, 136, 0x1f, 24, 0, nil},
		{"TurboSHAKE128[D=01]", func() sha3.State { return sha3.NewTurboShake128(0x01) }, 168, 0x01, 12, 0, nil},
		{"TurboSHAKE128[D=07]", func() sha3.State { return sha3.NewTurboShake128(0x07) }, 168, 0x07, 12, 0, []byte{0x06, 0x7f}},
		{"TurboSHAKE128[D=7f]", func() sha3.State { return sha3.NewTurboShake128(0x7f) }, 168, 0x7f, 12, 0, nil},
		{"TurboSHAKE256[D=01]", func() sha3.State { return sha3.NewTurboShake256(0x01) }, 136, 0x01, 12, 0, nil},
		{"TurboSHAKE256[D=1f]", func() sha3.State { return sha3.NewTurboShake256(0x1f) }, 136, 0x1f, 12, 0, []byte{0x0b}},
		{"TurboSHAKE256[D=7f]", func() sha3.State { return sha3.NewTurboShake256(0x7f) }, 136, 0x7f, 12, 0, nil},
	}
}

// c15Obj adapts *State to the search engine.
type c15Obj struct{ s *sha3.State }

func (o *c15Obj) Write(p []byte) (int, error) { return o.s.Write(p) }
func (o *c15Obj) Read(p []byte) (int, error)  { return o.s.Read(p) }
func (o *c15Obj) Reset()                      { o.s.Reset() }
func (o *c15Obj) CloneObj() c15hist.Obj       { return &c15Obj{o.s.Clone().(*sha3.State)} }
func (o *c15Obj) SwitchDS(d byte)             { o.s.SwitchDS(d) }

// SumObj calls Sum with a non-empty prefix that has spare capacity and checks
// that the prefix is preserved; the digest part is returned.
func (o *c15Obj) SumObj() []byte {
	prefix := make([]byte, 3, 80)
	copy(prefix, "abc")
	out := o.s.Sum(prefix)
	if len(out) < 3 || string(out[:3]) != "abc" {
		panic("Sum did not preserve the prefix it appends to")
	}
	return out[3:]
}
