//go:build verif && (amd64 || 386 || ppc64le) && !appengine

package sha3_test

// Mirrors the build constraint of xor_unaligned.go.
const c15XorBackend = "xor_unaligned"
