//go:build verif

package sha3

// C15, internals-only readout (one concern: the buffer cursors bufo/bufe/state and the compiled
// storageBuf type). The sponge history search (package sha3_test) derives its coverage classes
// ("write:fill-exact", "read:cross-block", ...) from the model; this unit walks every
// Write/Read/Reset history to depth 3 on the real State and records how often the class derived
// from the model equals the class derived from the real cursors. It can raise no violation (the
// property says nothing about cursors) and nothing else depends on this file: if the fields are
// renamed it is simply left out.

import (
	"fmt"
	"os"
	"reflect"
	"testing"

	"github.com/cloudflare/circl/internal/verifmc"
	"github.com/cloudflare/circl/internal/verifref/c15hist"
)

func c15RealClasses(s *State, op c15hist.Op) []string {
	// the same classes as c15hist.SpongeClasses, but from the object's own cursors
	m := c15hist.Model{Squeezing: s.state == spongeSqueezing}
	if m.Squeezing {
		m.Squeezed = s.bufo // rate - (bufe-bufo) bytes of the current block are gone
		if s.bufe != s.rate {
			return []string{"cursor:unexpected-bufe-while-squeezing"}
		}
	} else {
		m.Absorbed = s.bufe - s.bufo
	}
	return c15hist.SpongeClasses(s.rate, m, op)
}

func TestVerifC15_sponge_internals(t *testing.T) {
	if c := os.Getenv("VERIF_CONFIG"); c != "" && c != "default" && c != "appengine" {
		t.Skip("internal/sha3 depends only on the xor back-end")
	}
	r := verifmc.Start(t, "C15", "sponge_internals")
	defer r.Finish()
	r.Rule("informational: every Write/Read/Reset history to depth 3 over the sponge alphabets on 5 rates; counts agreement between model-derived and " +
		"cursor-derived coverage classes, and reads out the compiled xor back-end from the storageBuf type; raises no violation")
	backend := "unknown"
	switch reflect.TypeOf(storageBuf{}).Elem().Kind() {
	case reflect.Uint8:
		backend = "xor_generic"
	case reflect.Uint64:
		backend = "xor_unaligned"
	}
	r.Set("xor_backend_from_storageBuf", backend)
	r.Count("backend:"+backend, 1)
	if r.Config() == "appengine" && backend != "xor_generic" {
		r.Vacuous("configuration appengine did not compile the portable back-end (storageBuf is not a byte array)")
	}
	mks := []func() State{New224, New256, New384, New512, NewShake128}
	msg := verifmc.Msg(4 * 400)
	for _, mk := range mks {
		rt := func() int { s := mk(); return s.rate }()
		var ops []c15hist.Op
		for _, n := range []int{0, 1, 7, rt - 1, rt, rt + 1, 2 * rt, 2*rt + 1} {
			ops = append(ops, c15hist.Op{Kind: c15hist.KWrite, Arg: n})
		}
		for _, n := range []int{0, 1, rt - 1, rt, rt + 1, 2*rt + 3} {
			ops = append(ops, c15hist.Op{Kind: c15hist.KRead, Arg: n})
		}
		ops = append(ops, c15hist.Op{Kind: c15hist.KReset})
		var rec func(h []c15hist.Op)
		rec = func(h []c15hist.Op) {
			if len(h) == 3 {
				return
			}
			for _, op := range ops {
				// replay h on a fresh object with its model, then classify op both ways
				s := mk()
				m := c15hist.Model{}
				ok := true
				for _, o := range h {
					switch o.Kind {
					case c15hist.KWrite:
						if m.Squeezing {
							ok = false
						} else {
							_, _ = s.Write(msg[m.Absorbed : m.Absorbed+o.Arg])
							m.Absorbed += o.Arg
						}
					case c15hist.KRead:
						_, _ = s.Read(make([]byte, o.Arg))
						m.Squeezed += o.Arg
						m.Squeezing = true
					case c15hist.KReset:
						s.Reset()
						m = c15hist.Model{}
					}
				}
				if !ok || (op.Kind == c15hist.KWrite && m.Squeezing) {
					continue
				}
				r.Eval(1)
				a := fmt.Sprint(c15hist.SpongeClasses(rt, m, op))
				b := fmt.Sprint(c15RealClasses(&s, op))
				if a == b {
					r.Count("cursor_class_agrees_with_model", 1)
				} else {
					r.Count("cursor_class_differs_from_model", 1)
					r.Outcome("differs:" + a + " vs " + b)
				}
				r.Distinct(rt, c15hist.HistString(h), op.String())
				rec(append(append([]c15hist.Op{}, h...), op))
			}
		}
		rec(nil)
	}
	r.Sample(map[string]interface{}{"xor_backend": backend, "agree": r.Counter("cursor_class_agrees_with_model"), "differ": r.Counter("cursor_class_differs_from_model")})
}
