//go:build verif

package sha3_test

// C15 (sponge part): SHA3-224/256/384/512, SHAKE128/256, TurboSHAKE128/256 return the specified
// output for every input, chunking of the input, chunking of the output, clone and reset.
// External test package: only the exported API of internal/sha3 is named; the coverage classes
// (buffer cursor classes) are derived from the model, not read from the object. The agreement of
// those classes with the real cursors is recorded by the separate in-package unit
// sponge_internals (zz_verif_c15_internals_test.go).

import (
	"bytes"
	"compress/flate"
	"encoding/hex"
	"encoding/json"
	"fmt"
	"os"
	"testing"

	"github.com/cloudflare/circl/internal/verifmc"
	"github.com/cloudflare/circl/internal/verifref/c15hist"
	"github.com/cloudflare/circl/internal/verifref/keccak"
	xsha3 "golang.org/x/crypto/sha3"
)

// ---------------------------------------------------------------- refcheck

// TestVerifC15_refcheck_keccak binds ref/keccak to its specifications: the
// Keccak team's ShortMsgKAT file shipped in this directory, every published
// TurboSHAKE / KangarooTwelve vector we have, and x/crypto/sha3 on every
// length 0..2*rate+1. A failure here is a broken check, never an alarm.
func TestVerifC15_refcheck_keccak(t *testing.T) {
	if c := os.Getenv("VERIF_CONFIG"); c != "" && c != "default" {
		t.Skip("reference binding does not involve circl code; run once")
	}
	r := verifmc.Start(t, "C15", "refcheck_keccak")
	defer r.Finish()
	r.Rule("reference model ref/keccak evaluated on authoritative vectors; non-trivial = each distinct (function, vector)")
	if err := keccak.SelfTest(); err != nil {
		t.Fatal(err)
	}
	n, err := keccak.CheckVectors(1 << 30)
	if err != nil {
		t.Fatal(err)
	}
	r.Eval(n)
	r.Count("published_vectors", n)
	for _, v := range keccak.Vectors() {
		r.Distinct("vec", v.Fn, v.Source, len(v.Msg), len(v.Custom), v.OutLen)
	}
	// round constants: the LFSR must reproduce the well-known first and last values
	if keccak.RoundConstant(0) != 1 || keccak.RoundConstant(1) != 0x8082 || keccak.RoundConstant(23) != 0x8000000080008008 {
		t.Fatalf("ref/keccak round constants wrong: %x %x %x", keccak.RoundConstant(0), keccak.RoundConstant(1), keccak.RoundConstant(23))
	}
	// KAT file
	f, err := os.Open("testdata/keccakKats.json.deflate")
	if err != nil {
		t.Fatal(err)
	}
	defer f.Close()
	var kats struct {
		Kats map[string][]struct {
			Digest  string `json:"digest"`
			Length  int64  `json:"length"`
			Message string `json:"message"`
		} `json:"kats"`
	}
	if err := json.NewDecoder(flate.NewReader(f)).Decode(&kats); err != nil {
		t.Fatal(err)
	}
	fns := map[string]func(m []byte, n int) []byte{
		"SHA3-224": func(m []byte, n int) []byte { return keccak.SHA3_224(m) },
		"SHA3-256": func(m []byte, n int) []byte { return keccak.SHA3_256(m) },
		"SHA3-384": func(m []byte, n int) []byte { return keccak.SHA3_384(m) },
		"SHA3-512": func(m []byte, n int) []byte { return keccak.SHA3_512(m) },
		"SHAKE128": keccak.SHAKE128,
		"SHAKE256": keccak.SHAKE256,
	}
	nk := 0
	for name, fn := range fns {
		if len(kats.Kats[name]) < 200 {
			t.Fatalf("KAT file has only %d vectors for %s", len(kats.Kats[name]), name)
		}
		for _, k := range kats.Kats[name] {
			if k.Length%8 != 0 {
				continue
			}
			msg, err := hex.DecodeString(k.Message)
			if err != nil {
				t.Fatal(err)
			}
			want, err := hex.DecodeString(k.Digest)
			if err != nil {
				t.Fatal(err)
			}
			got := fn(msg[:k.Length/8], len(want))
			if !bytes.Equal(got, want) {
				t.Fatalf("ref/keccak %s differs from the KAT file at message length %d bits", name, k.Length)
			}
			nk++
			r.Distinct("kat", name, k.Length)
		}
	}
	r.Eval(nk)
	r.Count("kat_vectors", nk)
	// x/crypto/sha3 on every length 0..2*168+1, long outputs
	msg := verifmc.Msg(400)
	nx := 0
	for l := 0; l <= 2*168+1; l++ {
		m := msg[:l]
		a, b, c, d := xsha3.Sum224(m), xsha3.Sum256(m), xsha3.Sum384(m), xsha3.Sum512(m)
		if !bytes.Equal(keccak.SHA3_224(m), a[:]) || !bytes.Equal(keccak.SHA3_256(m), b[:]) ||
			!bytes.Equal(keccak.SHA3_384(m), c[:]) || !bytes.Equal(keccak.SHA3_512(m), d[:]) {
			t.Fatalf("ref/keccak SHA-3 differs from x/crypto/sha3 at length %d", l)
		}
		o1, o2 := make([]byte, 700), make([]byte, 700)
		xsha3.ShakeSum128(o1, m)
		xsha3.ShakeSum256(o2, m)
		if !bytes.Equal(keccak.SHAKE128(m, 700), o1) || !bytes.Equal(keccak.SHAKE256(m, 700), o2) {
			t.Fatalf("ref/keccak SHAKE differs from x/crypto/sha3 at length %d", l)
		}
		nx += 6
		r.Distinct("xcrypto", l)
	}
	r.Eval(nx)
	r.Count("xcrypto_comparisons", nx)
	r.Sample(map[string]interface{}{"published_vectors": n, "kat_vectors": nk, "xcrypto_comparisons": nx})
}

func c15System(r *verifmc.Run, v c15Variant, msg []byte) *c15hist.System {
	rt := v.rate
	sys := &c15hist.System{
		Name:        "sha3." + v.name,
		New:         func() c15hist.Obj { s := v.mk(); return &c15Obj{&s} },
		Rate:        rt,
		WriteSizes:  []int{0, 1, 7, rt - 1, rt, rt + 1, 2 * rt, 2*rt + 1},
		ReadSizes:   []int{0, 1, rt - 1, rt, rt + 1, 2*rt + 3},
		SumLen:      v.sumLen,
		DS:          v.dsAlt,
		DS0:         v.ds,
		AbsKey:      func(a int) string { return fmt.Sprintf("%d.%v", a%rt, a >= rt) },
		ProbeLen:    rt + 9,
		Observe:     func(_ c15hist.Obj, m c15hist.Model, op c15hist.Op) []string { return c15hist.SpongeClasses(rt, m, op) },
		DepthMerged: r.Pick(6, 8),
		DepthTree:   r.Pick(4, 5),
	}
	if r.Config() == "appengine" {
		// second back-end: same alphabets (every Read size crosses bytes [rate-8, rate)), shallower
		sys.DepthMerged, sys.DepthTree = r.Pick(4, 6), r.Pick(3, 4)
	}
	if v.sumLen > 0 {
		// fixed-output hashes: the specification defines exactly sumLen bytes, so output is
		// taken with Sum and with Read of at most the digest (split in two reads).
		sys.ReadSizes = []int{0, 1, v.sumLen - 1}
		sys.MaxSqueeze = v.sumLen
		sys.ProbeLen = v.sumLen
		sys.ProbeSum = true
	}
	exp := &c15hist.ExpectCache{MaxOut: sys.MaxOutput(), Fn: func(absorbed int, ds byte, n int) []byte {
		return keccak.Sponge(v.rate, ds, v.rounds, msg[:absorbed], n)
	}}
	sys.Expect = exp.Get
	return sys
}

// TestVerifC15_sponge: explicit-state search over Write/Read/Sum/Clone/Swap/Reset/SwitchDS
// histories of the real sha3.State for every variant.
func TestVerifC15_sponge(t *testing.T) {
	c15SkipNonDefault(t)
	r := verifmc.Start(t, "C15", "sponge")
	defer r.Finish()
	c15RecordBackend(r)
	if err := keccak.SelfTest(); err != nil {
		t.Fatal(err)
	}
	r.Rule("state = per live object (absorbed mod rate, absorbed>=rate, phase, squeezed mod rate, squeezed>=rate, domain byte), for the pair (current, clone); " +
		"a transition replays the shortest history on fresh real sha3.State objects, applies one more operation, compares every output with the one-shot " +
		"reference of the bytes absorbed, then reads rate+9 further bytes from every live object; non-trivial = distinct (variant, pair state)")
	vs := c15Variants()
	var maxIn int
	for _, v := range vs {
		if n := c15System(r, v, nil).MaxInput(); n > maxIn {
			maxIn = n
		}
	}
	msg := verifmc.Msg(maxIn + 8)[3:] // odd alignment of the message buffer
	var names []string
	for _, v := range vs {
		names = append(names, v.name)
	}
	r.Set("variants", names)
	first := c15System(r, vs[4], msg)
	r.Set("alphabet_example_SHAKE128", first.Alphabet())
	r.Set("depth_merged", first.DepthMerged)
	r.Set("depth_full_tree", first.DepthTree)
	if r.Replaying() {
		for _, v := range vs {
			if c15System(r, v, msg).Replay(r, msg, r.ReplayCase()) {
				return
			}
		}
		return
	}
	var systems []*c15hist.System
	for _, v := range vs {
		systems = append(systems, c15System(r, v, msg))
	}
	c15hist.SearchAll(r, systems, msg)
	for _, c := range []string{"write:whole-blocks-from-empty-buffer", "write:whole-blocks-then-tail", "write:fill-exact", "write:fill-and-continue", "write:buffer-only",
		"read:pad", "read:pad-in-last-byte", "read:pad-empty-buffer", "read:cross-block", "read:exact-drain", "read:touches-last-lane",
		"clone:squeezing", "clone:absorbing-buffered", "reset:after-read", "reset:buffered", "sum:absorbing", "switchds"} {
		r.RequireCounter(c, 10)
	}
}
