//go:build verif

package sha3

// C15 (sponge part): SHA3-224/256/384/512, SHAKE128/256, TurboSHAKE128/256
// return the specified output for every input, chunking of the input, chunking
// of the output, clone and reset. In-package because internal/sha3 cannot be
// imported from outside the module and because the coverage counters read the
// buffer cursors bufo/bufe.

import (
	"bytes"
	"compress/flate"
	"encoding/hex"
	"encoding/json"
	"fmt"
	"os"
	"reflect"
	"runtime"
	"sync"
	"testing"

	"github.com/cloudflare/circl/internal/verifmc"
	"github.com/cloudflare/circl/internal/verifref/c15hist"
	"github.com/cloudflare/circl/internal/verifref/keccak"
	xsha3 "golang.org/x/crypto/sha3"
)

// internal/sha3 has two sponge back-ends chosen at build time: xor_unaligned.go (amd64, 386,
// ppc64le) and the portable xor_generic.go (every other GOARCH, or -tags appengine). Nothing in
// the package depends on purego or on CPU features, so the sponge units run under the
// configurations `default` and `appengine` only.
func c15SkipNonDefault(t *testing.T) {
	if c := os.Getenv("VERIF_CONFIG"); c != "" && c != "default" && c != "appengine" {
		t.Skip("internal/sha3 depends only on the xor back-end; checked under the default and appengine configurations")
	}
}

// c15XorBackend reads out which back-end was compiled: storageBuf is [168]byte in xor.go
// (with xor_generic.go) and [21]uint64 in xor_unaligned.go.
func c15XorBackend() string {
	switch reflect.TypeOf(storageBuf{}).Elem().Kind() {
	case reflect.Uint8:
		return "xor_generic"
	case reflect.Uint64:
		return "xor_unaligned"
	}
	return "unknown"
}

// c15RecordBackend puts the back-end in the evidence and marks the run vacuous when the
// configuration did not select the back-end it exists for.
func c15RecordBackend(r *verifmc.Run) {
	b := c15XorBackend()
	r.Set("xor_backend", b)
	r.Count("backend:"+b, 1)
	want := map[string]string{"appengine": "xor_generic"}
	if runtime.GOARCH == "amd64" || runtime.GOARCH == "386" || runtime.GOARCH == "ppc64le" {
		want["default"] = "xor_unaligned"
	}
	if w, ok := want[r.Config()]; ok && w != b {
		r.Vacuous(fmt.Sprintf("configuration %s was expected to compile %s but %s is in the binary", r.Config(), w, b))
	}
}

// ---------------------------------------------------------------- refcheck

// TestVerifC15_refcheck_keccak binds ref/keccak to its specifications: the
// Keccak team's ShortMsgKAT file shipped in this directory, every published
// TurboSHAKE / KangarooTwelve vector we have, and x/crypto/sha3 on every
// length 0..2*rate+1. A failure here is a broken check, never an alarm.
func TestVerifC15_refcheck_keccak(t *testing.T) {
	if c := os.Getenv("VERIF_CONFIG"); c != "" && c != "default" {
		t.Skip("reference binding does not involve circl code; run once")
	}
	r := verifmc.Start(t, "C15", "refcheck_keccak")
	defer r.Finish()
	r.Rule("reference model ref/keccak evaluated on authoritative vectors; non-trivial = each distinct (function, vector)")
	if err := keccak.SelfTest(); err != nil {
		t.Fatal(err)
	}
	n, err := keccak.CheckVectors(1 << 30)
	if err != nil {
		t.Fatal(err)
	}
	r.Eval(n)
	r.Count("published_vectors", n)
	for _, v := range keccak.Vectors() {
		r.Distinct("vec", v.Fn, v.Source, len(v.Msg), len(v.Custom), v.OutLen)
	}
	// round constants: the LFSR must reproduce the well-known first and last values
	if keccak.RoundConstant(0) != 1 || keccak.RoundConstant(1) != 0x8082 || keccak.RoundConstant(23) != 0x8000000080008008 {
		t.Fatalf("ref/keccak round constants wrong: %x %x %x", keccak.RoundConstant(0), keccak.RoundConstant(1), keccak.RoundConstant(23))
	}
	// KAT file
	f, err := os.Open("testdata/keccakKats.json.deflate")
	if err != nil {
		t.Fatal(err)
	}
	defer f.Close()
	var kats struct {
		Kats map[string][]struct {
			Digest  string `json:"digest"`
			Length  int64  `json:"length"`
			Message string `json:"message"`
		} `json:"kats"`
	}
	if err := json.NewDecoder(flate.NewReader(f)).Decode(&kats); err != nil {
		t.Fatal(err)
	}
	fns := map[string]func(m []byte, n int) []byte{
		"SHA3-224": func(m []byte, n int) []byte { return keccak.SHA3_224(m) },
		"SHA3-256": func(m []byte, n int) []byte { return keccak.SHA3_256(m) },
		"SHA3-384": func(m []byte, n int) []byte { return keccak.SHA3_384(m) },
		"SHA3-512": func(m []byte, n int) []byte { return keccak.SHA3_512(m) },
		"SHAKE128": keccak.SHAKE128,
		"SHAKE256": keccak.SHAKE256,
	}
	nk := 0
	for name, fn := range fns {
		if len(kats.Kats[name]) < 200 {
			t.Fatalf("KAT file has only %d vectors for %s", len(kats.Kats[name]), name)
		}
		for _, k := range kats.Kats[name] {
			if k.Length%8 != 0 {
				continue
			}
			msg, err := hex.DecodeString(k.Message)
			if err != nil {
				t.Fatal(err)
			}
			want, err := hex.DecodeString(k.Digest)
			if err != nil {
				t.Fatal(err)
			}
			got := fn(msg[:k.Length/8], len(want))
			if !bytes.Equal(got, want) {
				t.Fatalf("ref/keccak %s differs from the KAT file at message length %d bits", name, k.Length)
			}
			nk++
			r.Distinct("kat", name, k.Length)
		}
	}
	r.Eval(nk)
	r.Count("kat_vectors", nk)
	// x/crypto/sha3 on every length 0..2*168+1, long outputs
	msg := verifmc.Msg(400)
	nx := 0
	for l := 0; l <= 2*168+1; l++ {
		m := msg[:l]
		a, b, c, d := xsha3.Sum224(m), xsha3.Sum256(m), xsha3.Sum384(m), xsha3.Sum512(m)
		if !bytes.Equal(keccak.SHA3_224(m), a[:]) || !bytes.Equal(keccak.SHA3_256(m), b[:]) ||
			!bytes.Equal(keccak.SHA3_384(m), c[:]) || !bytes.Equal(keccak.SHA3_512(m), d[:]) {
			t.Fatalf("ref/keccak SHA-3 differs from x/crypto/sha3 at length %d", l)
		}
		o1, o2 := make([]byte, 700), make([]byte, 700)
		xsha3.ShakeSum128(o1, m)
		xsha3.ShakeSum256(o2, m)
		if !bytes.Equal(keccak.SHAKE128(m, 700), o1) || !bytes.Equal(keccak.SHAKE256(m, 700), o2) {
			t.Fatalf("ref/keccak SHAKE differs from x/crypto/sha3 at length %d", l)
		}
		nx += 6
		r.Distinct("xcrypto", l)
	}
	r.Eval(nx)
	r.Count("xcrypto_comparisons", nx)
	r.Sample(map[string]interface{}{"published_vectors": n, "kat_vectors": nk, "xcrypto_comparisons": nx})
}

// ---------------------------------------------------------------- variants

type c15Variant struct {
	name   string
	mk     func() State
	rate   int
	ds     byte
	rounds int
	sumLen int
	dsAlt  []byte // SwitchDS alphabet
}

func c15Variants() []c15Variant {
	return []c15Variant{
		{"SHA3-224", New224, 144, 0x06, 24, 28, nil},
		{"SHA3-256", New256, 136, 0x06, 24, 32, nil},
		{"SHA3-384", New384, 104, 0x06, 24, 48, nil},
		{"SHA3-512", New512, 72, 0x06, 24, 64, nil},
		{"SHAKE128", NewShake128, 168, 0x1f, 24, 0, nil},
		{"SHAKE256", NewShake256, 136, 0x1f, 24, 0, nil},
		{"TurboSHAKE128[D=01]", func() State { return NewTurboShake128(0x01) }, 168, 0x01, 12, 0, nil},
		{"TurboSHAKE128[D=07]", func() State { return NewTurboShake128(0x07) }, 168, 0x07, 12, 0, []byte{0x06, 0x7f}},
		{"TurboSHAKE128[D=7f]", func() State { return NewTurboShake128(0x7f) }, 168, 0x7f, 12, 0, nil},
		{"TurboSHAKE256[D=01]", func() State { return NewTurboShake256(0x01) }, 136, 0x01, 12, 0, nil},
		{"TurboSHAKE256[D=1f]", func() State { return NewTurboShake256(0x1f) }, 136, 0x1f, 12, 0, []byte{0x0b}},
		{"TurboSHAKE256[D=7f]", func() State { return NewTurboShake256(0x7f) }, 136, 0x7f, 12, 0, nil},
	}
}

// c15Expect caches the reference output stream per (absorbed, ds).
type c15Expect struct {
	v      c15Variant
	msg    []byte
	maxOut int
	mu     sync.Mutex
	cache  map[[2]int]*c15Entry
}

type c15Entry struct {
	once sync.Once
	out  []byte
}

func (c *c15Expect) get(absorbed int, ds byte, n int) []byte {
	k := [2]int{absorbed, int(ds)}
	c.mu.Lock()
	e := c.cache[k]
	if e == nil {
		e = &c15Entry{}
		c.cache[k] = e
	}
	c.mu.Unlock()
	e.once.Do(func() { e.out = keccak.Sponge(c.v.rate, ds, c.v.rounds, c.msg[:absorbed], c.maxOut) })
	if len(e.out) < n {
		panic("c15: reference output cache too short")
	}
	return e.out
}

// c15Obj adapts *State to the search engine.
type c15Obj struct{ s *State }

func (o *c15Obj) Write(p []byte) (int, error) { return o.s.Write(p) }
func (o *c15Obj) Read(p []byte) (int, error)  { return o.s.Read(p) }
func (o *c15Obj) Reset()                      { o.s.Reset() }
func (o *c15Obj) CloneObj() c15hist.Obj       { return &c15Obj{o.s.Clone().(*State)} }
func (o *c15Obj) SwitchDS(d byte)             { o.s.SwitchDS(d) }

// SumObj calls Sum with a non-empty prefix that has spare capacity and checks
// that the prefix is preserved; the digest part is returned.
func (o *c15Obj) SumObj() []byte {
	prefix := make([]byte, 3, 80)
	copy(prefix, "abc")
	out := o.s.Sum(prefix)
	if len(out) < 3 || string(out[:3]) != "abc" {
		panic("Sum did not preserve the prefix it appends to")
	}
	return out[3:]
}

func c15Observe(o c15hist.Obj, m c15hist.Model, op c15hist.Op) []string {
	s := o.(*c15Obj).s
	bufl := s.bufe - s.bufo
	var n []string
	switch op.Kind {
	case c15hist.KWrite:
		switch {
		case op.Arg == 0:
			n = append(n, "write:empty")
		case bufl == 0 && op.Arg >= s.rate:
			n = append(n, "write:fastpath")
			if op.Arg%s.rate != 0 {
				n = append(n, "write:fastpath-then-buffer")
			}
		case bufl+op.Arg == s.rate:
			n = append(n, "write:fill-exact")
		case bufl+op.Arg > s.rate:
			n = append(n, "write:fill-and-continue")
		default:
			n = append(n, "write:buffer-only")
		}
	case c15hist.KRead:
		if s.state == spongeAbsorbing {
			n = append(n, "read:pad")
			if s.bufe == s.rate-1 {
				n = append(n, "read:pad-in-last-byte")
			}
			if s.bufe == 0 {
				n = append(n, "read:pad-empty-buffer")
			}
		} else {
			switch {
			case op.Arg > bufl:
				n = append(n, "read:cross-block")
			case op.Arg == bufl:
				n = append(n, "read:exact-drain")
			}
		}
		if op.Arg == 0 {
			n = append(n, "read:zero-length")
		}
	case c15hist.KClone:
		if s.state == spongeSqueezing {
			n = append(n, "clone:squeezing")
		} else if bufl > 0 {
			n = append(n, "clone:absorbing-buffered")
		}
	case c15hist.KReset:
		if s.state == spongeSqueezing {
			n = append(n, "reset:after-read")
		} else if bufl > 0 {
			n = append(n, "reset:buffered")
		}
	case c15hist.KSum:
		if s.state == spongeSqueezing {
			n = append(n, "sum:while-squeezing")
		} else {
			n = append(n, "sum:absorbing")
		}
	case c15hist.KSwitch:
		n = append(n, "switchds")
	}
	return n
}

func c15System(r *verifmc.Run, v c15Variant, msg []byte) *c15hist.System {
	rt := v.rate
	sys := &c15hist.System{
		Name:        "sha3." + v.name,
		New:         func() c15hist.Obj { s := v.mk(); return &c15Obj{&s} },
		Rate:        rt,
		WriteSizes:  []int{0, 1, 7, rt - 1, rt, rt + 1, 2 * rt, 2*rt + 1},
		ReadSizes:   []int{0, 1, rt - 1, rt, rt + 1, 2*rt + 3},
		SumLen:      v.sumLen,
		DS:          v.dsAlt,
		DS0:         v.ds,
		AbsKey:      func(a int) string { return fmt.Sprintf("%d.%v", a%rt, a >= rt) },
		ProbeLen:    rt + 9,
		Observe:     c15Observe,
		DepthMerged: r.Pick(6, 8),
		DepthTree:   r.Pick(4, 5),
	}
	if r.Config() == "appengine" {
		// second back-end: same alphabets (every Read size crosses bytes [rate-8, rate)), shallower
		sys.DepthMerged, sys.DepthTree = r.Pick(4, 6), r.Pick(3, 4)
	}
	if v.sumLen > 0 {
		// fixed-output hashes: the specification defines exactly sumLen bytes, so output is
		// taken with Sum and with Read of at most the digest (split in two reads).
		sys.ReadSizes = []int{0, 1, v.sumLen - 1}
		sys.MaxSqueeze = v.sumLen
		sys.ProbeLen = v.sumLen
		sys.ProbeSum = true
	}
	exp := &c15Expect{v: v, msg: msg, cache: map[[2]int]*c15Entry{}}
	exp.maxOut = sys.MaxOutput()
	sys.Expect = exp.get
	return sys
}

// TestVerifC15_sponge: explicit-state search over Write/Read/Sum/Clone/Swap/Reset/SwitchDS
// histories of the real sha3.State for every variant.
func TestVerifC15_sponge(t *testing.T) {
	c15SkipNonDefault(t)
	r := verifmc.Start(t, "C15", "sponge")
	defer r.Finish()
	c15RecordBackend(r)
	if err := keccak.SelfTest(); err != nil {
		t.Fatal(err)
	}
	r.Rule("state = per live object (absorbed mod rate, absorbed>=rate, phase, squeezed mod rate, squeezed>=rate, domain byte), for the pair (current, clone); " +
		"a transition replays the shortest history on fresh real sha3.State objects, applies one more operation, compares every output with the one-shot " +
		"reference of the bytes absorbed, then reads rate+9 further bytes from every live object; non-trivial = distinct (variant, pair state)")
	vs := c15Variants()
	var maxIn int
	for _, v := range vs {
		if n := c15System(r, v, nil).MaxInput(); n > maxIn {
			maxIn = n
		}
	}
	msg := verifmc.Msg(maxIn + 8)[3:] // odd alignment of the message buffer
	var names []string
	for _, v := range vs {
		names = append(names, v.name)
	}
	r.Set("variants", names)
	first := c15System(r, vs[4], msg)
	r.Set("alphabet_example_SHAKE128", first.Alphabet())
	r.Set("depth_merged", first.DepthMerged)
	r.Set("depth_full_tree", first.DepthTree)
	if r.Replaying() {
		for _, v := range vs {
			if c15System(r, v, msg).Replay(r, msg, r.ReplayCase()) {
				return
			}
		}
		return
	}
	var systems []*c15hist.System
	for _, v := range vs {
		systems = append(systems, c15System(r, v, msg))
	}
	c15hist.SearchAll(r, systems, msg)
	for _, c := range []string{"write:fastpath", "write:fastpath-then-buffer", "write:fill-exact", "write:fill-and-continue", "write:buffer-only",
		"read:pad", "read:pad-in-last-byte", "read:pad-empty-buffer", "read:cross-block", "read:exact-drain",
		"clone:squeezing", "clone:absorbing-buffered", "reset:after-read", "reset:buffered", "sum:absorbing", "switchds"} {
		r.RequireCounter(c, 10)
	}
}
