//go:build verif

package sha3_test

import (
	"bytes"
	"fmt"
	"testing"

	"github.com/cloudflare/circl/internal/sha3"
	"github.com/cloudflare/circl/internal/verifmc"
	"github.com/cloudflare/circl/internal/verifref/c15hist"
	"github.com/cloudflare/circl/internal/verifref/keccak"
)

// c15Lengths is the message-length alphabet of the property statement: every
// length 0..3*168+2 (so: around 0, rate-1, rate, rate+1, 2*rate.., for all five
// rates), 8191..8193 and k*8192-1, k*8192, k*8192+1 for k up to 9.
func c15Lengths() []int {
	var l []int
	for i := 0; i <= 3*168+2; i++ {
		l = append(l, i)
	}
	for k := 1; k <= 9; k++ {
		l = append(l, k*8192-1, k*8192, k*8192+1)
	}
	return l
}

// TestVerifC15_lengths: the one-shot entry points (sha3.Sum224..Sum512, sha3.ShakeSum128/256,
// sha3.TurboShakeSum128/256) on every length of the alphabet and every output length of the
// alphabet, against ref/keccak.
func TestVerifC15_lengths(t *testing.T) {
	c15SkipNonDefault(t)
	r := verifmc.Start(t, "C15", "lengths")
	defer r.Finish()
	c15RecordBackend(r)
	if err := keccak.SelfTest(); err != nil {
		t.Fatal(err)
	}
	r.Rule("one-shot functions on every message length in {0..506} ∪ {k*8192-1,k*8192,k*8192+1 : k<=9}; XOF output lengths {0,1,32,rate-1,rate,rate+1,2*rate+3}; " +
		"non-trivial = distinct (function, domain byte, message length, output length)")
	lens := c15Lengths()
	msg := verifmc.Msg(9*8192 + 16)[5:]
	type fn struct {
		name   string
		rate   int
		ds     byte
		rounds int
		outs   []int
		call   func(out, m []byte)
	}
	xofOuts := func(rt int) []int { return []int{0, 1, 32, rt - 1, rt, rt + 1, 2*rt + 3} }
	fns := []fn{
		{"Sum224", 144, 6, 24, []int{28}, func(o, m []byte) { d := sha3.Sum224(m); copy(o, d[:]) }},
		{"Sum256", 136, 6, 24, []int{32}, func(o, m []byte) { d := sha3.Sum256(m); copy(o, d[:]) }},
		{"Sum384", 104, 6, 24, []int{48}, func(o, m []byte) { d := sha3.Sum384(m); copy(o, d[:]) }},
		{"Sum512", 72, 6, 24, []int{64}, func(o, m []byte) { d := sha3.Sum512(m); copy(o, d[:]) }},
		{"ShakeSum128", 168, 0x1f, 24, xofOuts(168), func(o, m []byte) { sha3.ShakeSum128(o, m) }},
		{"ShakeSum256", 136, 0x1f, 24, xofOuts(136), func(o, m []byte) { sha3.ShakeSum256(o, m) }},
	}
	for _, D := range []byte{0x01, 0x06, 0x07, 0x0b, 0x1f, 0x7f} {
		D := D
		fns = append(fns,
			fn{fmt.Sprintf("TurboShakeSum128[D=%02x]", D), 168, D, 12, xofOuts(168), func(o, m []byte) { sha3.TurboShakeSum128(o, m, D) }},
			fn{fmt.Sprintf("TurboShakeSum256[D=%02x]", D), 136, D, 12, xofOuts(136), func(o, m []byte) { sha3.TurboShakeSum256(o, m, D) }})
	}
	r.Set("functions", len(fns))
	r.Set("message_lengths", len(lens))
	type job struct{ f, l int }
	var jobs []job
	for f := range fns {
		for l := range lens {
			jobs = append(jobs, job{f, l})
		}
	}
	var coll c15hist.Collector
	verifmc.ParallelFor(len(jobs), func(i int) {
		f, L := fns[jobs[i].f], lens[jobs[i].l]
		m := msg[:L]
		maxOut := 0
		for _, o := range f.outs {
			if o > maxOut {
				maxOut = o
			}
		}
		want := keccak.Sponge(f.rate, f.ds, f.rounds, m, maxOut)
		for _, o := range f.outs {
			id := fmt.Sprintf("%s/len=%d/out=%d", f.name, L, o)
			if !r.Want(id) {
				continue
			}
			got := bytes.Repeat([]byte{0x5a}, o)
			r.Eval(1)
			r.Distinct(id)
			if p, what := verifmc.Try(func() { f.call(got, m) }); p {
				coll.Add(i, o, "C15|sha3."+f.name+"|panic:"+verifmc.PanicClass(what), id, id+": "+what, nil)
				continue
			}
			if !bytes.Equal(got, want[:o]) {
				coll.Add(i, o, "C15|sha3."+f.name+"|output-mismatch|"+c15LenClass(L, f.rate), id,
					fmt.Sprintf("%s: got %s want %s", id, verifmc.Hex(got), verifmc.Hex(want[:o])),
					map[string]interface{}{"function": f.name, "len": L, "out": o})
			}
			if L == f.rate-1 || L == 8192 {
				r.Count("boundary_lengths_hit", 1)
			}
		}
	})
	coll.Flush(r)
	r.Sample(map[string]interface{}{"function": "ShakeSum128", "len": 167, "out": 339})
	r.Sample(map[string]interface{}{"function": "TurboShakeSum128[D=7f]", "len": 73729, "out": 32})
	r.RequireCounter("boundary_lengths_hit", 20)
}

func c15LenClass(L, rate int) string {
	switch {
	case L == 0:
		return "len=0"
	case L < rate-1:
		return "len<rate-1"
	case L == rate-1:
		return "len=rate-1"
	case L == rate:
		return "len=rate"
	case L%rate == rate-1:
		return "len=k*rate-1"
	case L%rate == 0:
		return "len=k*rate"
	}
	return "len=other"
}

// TestVerifC15_partitions: for a message of 2*rate+2 bytes, every partition of the input into
// at most three Write chunks (all cut pairs) and every partition of 2*rate+2 output bytes into
// at most three Read chunks, plus byte-at-a-time input and output; against ref/keccak.
func TestVerifC15_partitions(t *testing.T) {
	c15SkipNonDefault(t)
	r := verifmc.Start(t, "C15", "partitions")
	defer r.Finish()
	c15RecordBackend(r)
	if err := keccak.SelfTest(); err != nil {
		t.Fatal(err)
	}
	r.Rule("message and output of 2*rate+2 bytes: all (i<=j) cut pairs of the input (3 writes) and of the output (3 reads), byte-at-a-time both ways; " +
		"fixed-output hashes: input partitions with Sum, output = digest read in all 3-chunk partitions; non-trivial = distinct (variant, side, i, j)")
	msg := verifmc.Msg(400)[1:]
	vs := c15Variants()
	type job struct {
		v    int
		side int // 0 input, 1 output
		i    int
	}
	var jobs []job
	for vi, v := range vs {
		L := 2*v.rate + 2
		for i := 0; i <= L; i++ {
			jobs = append(jobs, job{vi, 0, i})
		}
		N := L
		if v.sumLen > 0 {
			N = v.sumLen
		}
		for i := 0; i <= N; i++ {
			jobs = append(jobs, job{vi, 1, i})
		}
	}
	var coll c15hist.Collector
	verifmc.ParallelFor(len(jobs), func(k int) {
		jb := jobs[k]
		v := vs[jb.v]
		L := 2*v.rate + 2
		N := L
		if v.sumLen > 0 {
			N = v.sumLen
		}
		want := keccak.Sponge(v.rate, v.ds, v.rounds, msg[:L], N)
		i := jb.i
		if jb.side == 0 {
			for j := i; j <= L; j++ {
				id := fmt.Sprintf("%s/in/%d/%d", v.name, i, j)
				if !r.Want(id) {
					continue
				}
				r.Eval(1)
				r.Distinct(id)
				var got []byte
				p, what := verifmc.Try(func() {
					s := v.mk()
					_, _ = s.Write(msg[:i])
					_, _ = s.Write(msg[i:j])
					_, _ = s.Write(msg[j:L])
					if v.sumLen > 0 {
						got = s.Sum(nil)
					} else {
						got = make([]byte, N)
						_, _ = s.Read(got)
					}
				})
				if p {
					coll.Add(k, j, "C15|sha3."+v.name+"|partition-in|panic:"+verifmc.PanicClass(what), id, id+": "+what, nil)
				} else if !bytes.Equal(got, want) {
					coll.Add(k, j, "C15|sha3."+v.name+"|partition-in|output-mismatch", id,
						fmt.Sprintf("%s: writes of %d, %d, %d bytes: got %s want %s", id, i, j-i, L-j, verifmc.Hex(got), verifmc.Hex(want)),
						map[string]interface{}{"variant": v.name, "cuts": []int{i, j}, "len": L})
				}
			}
			return
		}
		for j := i; j <= N; j++ {
			id := fmt.Sprintf("%s/out/%d/%d", v.name, i, j)
			if !r.Want(id) {
				continue
			}
			r.Eval(1)
			r.Distinct(id)
			got := make([]byte, N)
			p, what := verifmc.Try(func() {
				s := v.mk()
				_, _ = s.Write(msg[:L])
				_, _ = s.Read(got[:i])
				_, _ = s.Read(got[i:j])
				_, _ = s.Read(got[j:])
			})
			if p {
				coll.Add(k, j, "C15|sha3."+v.name+"|partition-out|panic:"+verifmc.PanicClass(what), id, id+": "+what, nil)
			} else if !bytes.Equal(got, want) {
				coll.Add(k, j, "C15|sha3."+v.name+"|partition-out|output-mismatch", id,
					fmt.Sprintf("%s: reads of %d, %d, %d bytes: got %s want %s", id, i, j-i, N-j, verifmc.Hex(got), verifmc.Hex(want)),
					map[string]interface{}{"variant": v.name, "cuts": []int{i, j}, "len": L})
			}
		}
	})
	coll.Flush(r)
	// byte at a time, both sides
	for _, v := range vs {
		L := 2*v.rate + 2
		N := L
		if v.sumLen > 0 {
			N = v.sumLen
		}
		id := v.name + "/bytewise"
		if !r.Want(id) {
			continue
		}
		want := keccak.Sponge(v.rate, v.ds, v.rounds, msg[:L], N)
		got := make([]byte, N)
		s := v.mk()
		for k := 0; k < L; k++ {
			_, _ = s.Write(msg[k : k+1])
		}
		for k := 0; k < N; k++ {
			_, _ = s.Read(got[k : k+1])
		}
		r.Eval(1)
		r.Distinct(id)
		if !bytes.Equal(got, want) {
			r.Violation("C15|sha3."+v.name+"|bytewise|output-mismatch", id, fmt.Sprintf("%s: got %s want %s", id, verifmc.Hex(got), verifmc.Hex(want)), nil)
		}
	}
	r.Sample(map[string]interface{}{"variant": "SHAKE128", "side": "in", "cuts": []int{167, 168}, "len": 338})
	r.Sample(map[string]interface{}{"variant": "SHA3-512", "side": "out", "cuts": []int{1, 63}, "digest": 64})
}
