//go:build verif && ((!amd64 && !386 && !ppc64le) || appengine)

package sha3_test

// Mirrors the build constraint of xor_generic.go / xor.go (portable sponge back-end).
const c15XorBackend = "xor_generic"
