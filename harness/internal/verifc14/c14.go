//go:build verif

// Package verifc14 is the shared machinery of the C14 units (cross-configuration
// differential). Virtual package: exists only in the /verif overlay.
//
// A C14 unit enumerates a fixed, edge-biased alphabet of inputs through the
// public API of one primitive family and publishes one SHA-256 digest per case
// (extra.xcfg). The driver compares the maps of the same unit across the build /
// CPU configurations. Every unit also reads the dispatch variables that choose
// the back-end in this process and compares them with the expectation table of
// the configuration; a configuration that did not switch what it is supposed to
// switch makes the unit vacuous (driver exit 2), never a pass.
package verifc14

import (
	"crypto/sha256"
	"encoding/binary"
	"encoding/hex"
	"fmt"
	"os"
	"sort"
	"strings"
	"sync"
	"testing"

	"github.com/cloudflare/circl/internal/verifmc"
	"golang.org/x/sys/cpu"
)

// Features is what selects a back-end: the purego build tag and the three CPU
// feature bits of golang.org/x/sys/cpu that circl's amd64 code tests.
type Features struct {
	Purego, AVX2, BMI2, ADX bool
}

func (f Features) String() string {
	return fmt.Sprintf("purego=%v avx2=%v bmi2=%v adx=%v", f.Purego, f.AVX2, f.BMI2, f.ADX)
}

// Expected is the table for a machine that has AVX2, BMI2 and ADX (this one):
// what each driver configuration must select.
var Expected = map[string]Features{
	"default": {false, true, true, true},
	"purego":  {true, true, true, true}, // the feature bits stay on but no amd64 file is compiled
	"noavx2":  {false, false, true, true},
	"nobmi2":  {false, true, false, true},
	"noadx":   {false, true, true, false},
	"alloff":  {false, false, false, false},
}

// Measured reads the feature bits and the build tag of this process.
func Measured() Features {
	return Features{Purego: PuregoTag, AVX2: cpu.X86.HasAVX2, BMI2: cpu.X86.HasBMI2, ADX: cpu.X86.HasADX}
}

// T is one C14 unit.
type T struct {
	R    *verifmc.Run
	unit string
	want Features
	ok   bool // configuration known

	mu       sync.Mutex
	x        map[string]string
	backend  map[string]string
	expected map[string]map[string]string
	panics   int

	notObserved []string
}

// Start begins a unit and checks that the process really is in the configuration
// the driver says it is.
func Start(t testing.TB, unit string) *T {
	r := verifmc.Start(t, "C14", unit)
	c := &T{R: r, unit: unit, x: map[string]string{}, backend: map[string]string{}, expected: map[string]map[string]string{}}
	c.want, c.ok = Expected[r.Config()]
	got := Measured()
	r.Set("features_measured", got.String())
	if !c.ok {
		r.Vacuous("configuration " + r.Config() + " is not in the C14 expectation table")
	} else {
		r.Set("features_expected", c.want.String())
		if got != c.want {
			r.Vacuous(fmt.Sprintf("configuration %s did not switch: measured {%s}, expected {%s}", r.Config(), got, c.want))
		}
	}
	r.Outcome("features: " + got.String())
	return c
}

// Want is the expected feature set of this configuration.
func (c *T) Want() Features { return c.want }

// Backend records the value of one dispatch variable read in this process and the
// value each configuration is expected to give (sel applied to the table). A
// mismatch in this configuration makes the unit vacuous.
func (c *T) Backend(name, got string, sel func(Features) string) {
	tab := map[string]string{}
	for cfg, f := range Expected {
		tab[cfg] = sel(f)
	}
	c.mu.Lock()
	c.backend[name] = got
	c.expected[name] = tab
	c.mu.Unlock()
	c.R.Outcome("backend " + name + " = " + got)
	if c.ok {
		if want := sel(c.want); want != got {
			c.R.Vacuous(fmt.Sprintf("dispatch %s = %q under configuration %s, expected %q: the configuration did not select the back-end it is meant to exercise", name, got, c.R.Config(), want))
		}
	}
}

// NotObserved is the recorded value of a dispatch variable whose read-out file does not build against the
// tree under test (the variable was renamed or removed by a refactoring). The transcript still runs and is
// compared; the unit is NOT vacuous on that account: the configuration itself (feature bits, build tag) is
// still measured by Start.
const NotObserved = "dispatch not observed (read-out file does not build against this tree)"

// BackendOptional records a dispatch variable through a read-out hook that a separate small file installs
// in its init function. read == nil means that file was left out: recorded as NotObserved. A read-out that is
// present and contradicts the expectation table makes the unit vacuous exactly like Backend.
func (c *T) BackendOptional(name string, read func() string, sel func(Features) string) {
	if read != nil {
		c.Backend(name, read(), sel)
		return
	}
	tab := map[string]string{}
	for cfg, f := range Expected {
		tab[cfg] = sel(f)
	}
	c.mu.Lock()
	c.backend[name] = NotObserved
	c.expected[name] = tab
	c.notObserved = append(c.notObserved, name)
	c.mu.Unlock()
	c.R.Outcome("backend " + name + " = not observed")
}

// BackendFromFeatures is for units that cannot see the package-level dispatch variable (public-API
// units outside the package): the value is derived from the same sources the variable is initialised
// from, golang.org/x/sys/cpu and the build tag, as measured in this process.
func (c *T) BackendFromFeatures(name string, sel func(Features) string) {
	c.Backend(name+" (derived from x/sys/cpu bits and build tag)", sel(Measured()), sel)
}

// Switches declares (for the evidence) how many distinct values a dispatch variable takes over the six configurations.
func distinctValues(m map[string]string) int {
	s := map[string]bool{}
	for _, v := range m {
		s[v] = true
	}
	return len(s)
}

// D accumulates the outputs of one case. Every part is tagged and length-prefixed.
type D struct {
	h interface {
		Write([]byte) (int, error)
		Sum([]byte) []byte
	}
	n     int
	execs int
	dump  *strings.Builder // diagnostic: VERIF_C14_DUMP=<path prefix> writes every part of every executed case
}

// Exec counts executions of the code under test inside the case (for the evaluations counter).
func (d *D) Exec(k int) { d.execs += k }

func newD() *D { return &D{h: sha256.New()} }

func (d *D) tag(label string, n int) {
	var b [8]byte
	binary.LittleEndian.PutUint32(b[:4], uint32(len(label)))
	binary.LittleEndian.PutUint32(b[4:], uint32(n))
	d.h.Write(b[:])
	d.h.Write([]byte(label))
	d.n++
}

// Bytes adds one output string.
func (d *D) Bytes(label string, b []byte) {
	d.tag(label, len(b))
	d.h.Write(b)
	if d.dump != nil {
		fmt.Fprintf(d.dump, "  %s = %x\n", label, b)
	}
}

// Bool adds one predicate result.
func (d *D) Bool(label string, v bool) {
	if v {
		d.Bytes(label, []byte{1})
	} else {
		d.Bytes(label, []byte{0})
	}
}

// Int adds one integer result.
func (d *D) Int(label string, v int) { d.Bytes(label, []byte(fmt.Sprint(v))) }

// U64s adds a list of words.
func (d *D) U64s(label string, v []uint64) {
	b := make([]byte, 8*len(v))
	for i, w := range v {
		binary.LittleEndian.PutUint64(b[8*i:], w)
	}
	d.Bytes(label, b)
}

// Err adds whether an error was returned (the text is not an output of the primitive).
func (d *D) Err(label string, err error) { d.Bool(label+".err", err != nil) }

// Parts is the number of outputs added so far.
func (d *D) Parts() int { return d.n }

// Case runs f for one case id and stores its digest. A panic of the code under
// test becomes the digest "panic:<class>" (so that a back-end that panics where
// another does not is a difference, and equal panics are not).
func (c *T) Case(id string, f func(d *D)) {
	if !c.R.Want(id) {
		return
	}
	d := newD()
	dumpTo := os.Getenv("VERIF_C14_DUMP")
	if dumpTo != "" {
		d.dump = &strings.Builder{}
	}
	var dig string
	if p, what := verifmc.Try(func() { f(d) }); p {
		dig = "panic:" + verifmc.PanicClass(what)
		c.mu.Lock()
		c.panics++
		c.mu.Unlock()
	} else {
		dig = hex.EncodeToString(d.h.Sum(nil)[:16])
	}
	if d.execs > 0 {
		c.R.Eval(d.execs)
	} else {
		c.R.Eval(d.n)
	}
	c.R.Distinct(id)
	c.mu.Lock()
	if d.dump != nil {
		if f, err := os.OpenFile(dumpTo+"."+c.unit+"."+c.R.Config(), os.O_APPEND|os.O_CREATE|os.O_WRONLY, 0o644); err == nil {
			fmt.Fprintf(f, "case %s -> %s\n%s", id, dig, d.dump.String())
			f.Close()
		}
	}
	if _, dup := c.x[id]; dup {
		c.mu.Unlock()
		c.R.Vacuous("harness error: duplicate case id " + id)
		return
	}
	c.x[id] = dig
	c.mu.Unlock()
}

// Finish publishes the transcript. minCases is the vacuity floor on the number of cases.
func (c *T) Finish(minCases int) {
	c.mu.Lock()
	digs := map[string]bool{}
	classes := map[string]int{}
	for id, v := range c.x {
		digs[v] = true
		k := id
		if i := strings.Index(k, "#"); i >= 0 {
			k = k[:i]
		}
		classes[k]++
	}
	n := len(c.x)
	x := c.x
	th := sha256.New()
	ids := make([]string, 0, n)
	for id := range x {
		ids = append(ids, id)
	}
	sort.Strings(ids)
	for _, id := range ids {
		fmt.Fprintf(th, "%s %s\n", id, x[id])
	}
	sw := map[string]int{}
	for name, tab := range c.expected {
		sw[name] = distinctValues(tab)
	}
	c.R.Set("backend", c.backend)
	if len(c.notObserved) > 0 {
		sort.Strings(c.notObserved)
		c.R.Set("dispatch_not_observed", c.notObserved)
	}
	c.R.Set("backend_expected_by_config", c.expected)
	c.R.Set("backend_distinct_values_over_configs", sw)
	c.R.Set("panicking_cases", c.panics)
	c.mu.Unlock()
	c.R.Set("xcfg", x)
	c.R.Set("cases", n)
	c.R.Set("case_classes", len(classes))
	c.R.Set("distinct_digests", len(digs))
	c.R.Set("transcript_sha256", hex.EncodeToString(th.Sum(nil)))
	c.R.Count("cases", n)
	c.R.Count("distinct_digests", len(digs))
	c.R.RequireCounter("cases", int64(minCases))
	if len(ids) > 0 {
		c.R.Sample(map[string]string{"case": ids[0], "digest": x[ids[0]]})
		c.R.Sample(map[string]string{"case": ids[len(ids)/2], "digest": x[ids[len(ids)/2]]})
		c.R.Sample(map[string]string{"case": ids[len(ids)-1], "digest": x[ids[len(ids)-1]]})
	}
	if len(c.backend) == 0 && !c.R.Replaying() {
		c.R.Vacuous("harness error: unit recorded no dispatch variable")
	}
	c.R.Finish()
}

// ---- alphabets ----

// LimbValues is the boundary alphabet of one 64-bit limb.
var LimbEdge = []uint64{0, 1, 1 << 63, ^uint64(0)}

// LimbProduct returns every little-endian string of n limbs whose limbs are drawn from vals.
func LimbProduct(n int, vals []uint64) [][]byte {
	total := 1
	for i := 0; i < n; i++ {
		total *= len(vals)
	}
	out := make([][]byte, 0, total)
	idx := make([]int, n)
	for k := 0; k < total; k++ {
		b := make([]byte, 8*n)
		for i := 0; i < n; i++ {
			binary.LittleEndian.PutUint64(b[8*i:], vals[idx[i]])
		}
		out = append(out, b)
		for i := 0; i < n; i++ {
			idx[i]++
			if idx[i] < len(vals) {
				break
			}
			idx[i] = 0
		}
	}
	return out
}

// OneLimbAway returns the strings of n limbs that are all-00 or all-FF except for one limb drawn from vals.
func OneLimbAway(n int, vals []uint64) [][]byte {
	var out [][]byte
	for _, fill := range []uint64{0, ^uint64(0)} {
		for i := 0; i < n; i++ {
			for _, v := range vals {
				b := make([]byte, 8*n)
				for j := 0; j < n; j++ {
					w := fill
					if j == i {
						w = v
					}
					binary.LittleEndian.PutUint64(b[8*j:], w)
				}
				out = append(out, b)
			}
		}
	}
	return out
}

// AddSmall returns le + k as a little-endian string of the same length (wrapping), k may be negative.
func AddSmall(le []byte, k int) []byte {
	out := append([]byte{}, le...)
	if k >= 0 {
		c := uint(k)
		for i := 0; i < len(out) && c != 0; i++ {
			s := uint(out[i]) + (c & 0xff)
			c >>= 8
			out[i] = byte(s)
			c += s >> 8
		}
		return out
	}
	bw := uint(-k)
	for i := 0; i < len(out) && bw != 0; i++ {
		s := int(out[i]) - int(bw&0xff)
		bw >>= 8
		if s < 0 {
			s += 256
			bw++
		}
		out[i] = byte(s)
	}
	return out
}

// Around returns le+k for k in [lo, hi].
func Around(le []byte, lo, hi int) [][]byte {
	var out [][]byte
	for k := lo; k <= hi; k++ {
		out = append(out, AddSmall(le, k))
	}
	return out
}

// Dedup removes repeated strings, keeping the first occurrence (order is stable).
func Dedup(in [][]byte) [][]byte {
	seen := map[string]bool{}
	var out [][]byte
	for _, b := range in {
		if !seen[string(b)] {
			seen[string(b)] = true
			out = append(out, b)
		}
	}
	return out
}

// Pseudo returns k deterministic strings of n bytes (SHAKE256 of a label).
func Pseudo(label string, k, n int) [][]byte {
	var out [][]byte
	for i := 0; i < k; i++ {
		out = append(out, verifmc.Shake(fmt.Sprintf("c14/%s/%d", label, i), n))
	}
	return out
}

// SingleBits returns the n-byte strings with exactly one bit set (all 8n of them).
func SingleBits(n int) [][]byte {
	var out [][]byte
	for i := 0; i < 8*n; i++ {
		b := make([]byte, n)
		b[i/8] = 1 << (i % 8)
		out = append(out, b)
	}
	return out
}

// Msg is the deterministic message of length n used everywhere.
func Msg(n int) []byte { return verifmc.Msg(n) }

// FpSel names the back-end of the packages whose assembly tests BMI2 && ADX
// (math/fp25519, math/fp448, dh/x25519, dh/x448, dh/csidh mulRdc, SIDH p434).
func FpSel(f Features) string {
	switch {
	case f.Purego:
		return "generic"
	case f.BMI2 && f.ADX:
		return "asm-bmi2adx"
	}
	return "asm-legacy"
}

// Bmi2Sel names the back-end of the packages whose assembly tests BMI2 only (ecc/fourq, ecc/p384).
func Bmi2Sel(f Features) string {
	switch {
	case f.Purego:
		return "generic"
	case f.BMI2:
		return "asm-bmi2"
	}
	return "asm-legacy"
}

// ThreeSel names the three-way choice of SIDH p503/p751 and CSIDH: MULX+ADX, MULX only, legacy.
func ThreeSel(f Features) string {
	switch {
	case f.Purego:
		return "generic"
	case f.BMI2 && f.ADX:
		return "asm-mulx-adx"
	case f.BMI2:
		return "asm-mulx"
	}
	return "asm-legacy"
}

// Avx2Sel names the back-end of the AVX2-gated packages (Kyber, Dilithium polynomials).
func Avx2Sel(f Features) string {
	switch {
	case f.Purego:
		return "generic"
	case f.AVX2:
		return "avx2"
	}
	return "amd64-generic-fallback"
}

// X4Sel names what keccakf1600.StateX4.Permute runs and which path its users take.
func X4Sel(f Features) string {
	switch {
	case f.Purego && f.AVX2:
		return "x4-path-scalar-permutation" // IsEnabledX4() is true but permuteSIMDx4 is the scalar fallback
	case f.Purego:
		return "scalar-path"
	case f.AVX2:
		return "x4-path-avx2-permutation"
	}
	return "scalar-path"
}
