//go:build verif && purego

package verifc14

// PuregoTag reports the build tag this binary was compiled with (the same tag selects circl's *_noasm.go / generic.go files).
const PuregoTag = true
