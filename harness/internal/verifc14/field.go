//go:build verif

package verifc14

import (
	"fmt"

	"github.com/cloudflare/circl/internal/verifmc"
)

// Named is one operand of an alphabet.
type Named struct {
	Name string
	V    []byte
}

// Field adapts one of the byte-array prime-field packages (math/fp25519, math/fp448).
// alias: 0 = fresh junk-filled output, 1 = output is the first operand, 2 = output is the second operand.
type Field struct {
	Name    string
	Size    int
	BinOps  []string
	UnOps   []string
	PredOps []string
	Bin     func(op string, alias int, x, y []byte) []byte
	Un      func(op string, alias int, x []byte) []byte
	Pred    func(op string, x []byte) bool
	Canon   func(x []byte) []byte // ToBytes of a copy
	AddSub  func(x, y []byte) (s, d []byte)
	Cmov    func(x, y []byte, b uint) []byte
	Cswap   func(x, y []byte, b uint) (x2, y2 []byte)
	InvSqrt func(x, y []byte) (z []byte, isQR bool)
}

// FieldAlphabet builds the operand alphabet of a field whose elements are n 64-bit limbs:
// the full product of the four boundary limb values (when n <= 4, else of {00.., FF..}),
// every string one limb away from 00../FF.. over a wider limb list, and the neighbours of
// the named values (p, 2p, 2^k ...), plus pseudo-random strings.
func FieldAlphabet(n int, wide []uint64, named map[string][]byte, lo, hi int, pseudo int, label string) (all []Named) {
	seen := map[string]bool{}
	add := func(name string, v []byte) {
		if !seen[string(v)] {
			seen[string(v)] = true
			all = append(all, Named{name, v})
		}
	}
	core := LimbEdge
	if n > 4 {
		core = []uint64{0, ^uint64(0)}
	}
	for i, v := range LimbProduct(n, core) {
		add(fmt.Sprintf("limbs%d", i), v)
	}
	for i, v := range OneLimbAway(n, wide) {
		add(fmt.Sprintf("away%d", i), v)
	}
	names := make([]string, 0, len(named))
	for k := range named {
		names = append(names, k)
	}
	sortStrings(names)
	for _, nm := range names {
		for k := lo; k <= hi; k++ {
			add(fmt.Sprintf("%s%+d", nm, k), AddSmall(named[nm], k))
		}
	}
	for i, v := range Pseudo(label, pseudo, 8*n) {
		add(fmt.Sprintf("pseudo%d", i), v)
	}
	return all
}

func sortStrings(s []string) {
	for i := 1; i < len(s); i++ {
		for j := i; j > 0 && s[j] < s[j-1]; j-- {
			s[j], s[j-1] = s[j-1], s[j]
		}
	}
}

// Thin keeps every k-th operand plus the first and last few.
func Thin(in []Named, want int) []Named {
	if len(in) <= want {
		return in
	}
	step := len(in) / want
	if step < 1 {
		step = 1
	}
	var out []Named
	for i := 0; i < len(in); i += step {
		out = append(out, in[i])
	}
	return out
}

// RunField enumerates: every binary op on all x second (output fresh; also =x and =y when the second
// operand is a key operand), every unary op and predicate on all, and AddSub / Cmov / Cswap / InvSqrt on key x key. One case per (op, first operand);
// the digest of a case covers every second operand, both the raw output bytes and their canonical form.
func RunField(c *T, f *Field, all, second, key []Named) {
	r := c.R
	r.Set("field", f.Name)
	r.Set("elements", len(all))
	r.Set("key_elements", len(key))
	r.Set("second_operands", len(second))
	r.Set("ordered_pairs_per_binary_op", len(all)*len(second))
	iskey := map[string]bool{}
	for _, k := range key {
		iskey[k.Name] = true
	}
	out := func(d *D, label string, z []byte) {
		d.Exec(1)
		d.Bytes(label, append(append(make([]byte, 0, 2*len(z)), z...), f.Canon(z)...)) // raw output bytes, then their ToBytes form
	}
	type job struct {
		op   string
		kind int
		i    int
	}
	var jobs []job
	for _, op := range f.BinOps {
		for i := range all {
			jobs = append(jobs, job{op, 0, i})
		}
	}
	for _, op := range f.UnOps {
		for i := range all {
			jobs = append(jobs, job{op, 1, i})
		}
	}
	for _, op := range f.PredOps {
		for i := range all {
			jobs = append(jobs, job{op, 2, i})
		}
	}
	for _, op := range []string{"AddSub", "Cmov", "Cswap", "InvSqrt"} {
		for i := range key {
			jobs = append(jobs, job{op, 3, i})
		}
	}
	verifmc.ParallelFor(len(jobs), func(ji int) {
		j := jobs[ji]
		switch j.kind {
		case 0:
			x := all[j.i]
			c.Case(j.op+"#x="+x.Name, func(d *D) {
				for _, y := range second {
					out(d, y.Name, f.Bin(j.op, 0, x.V, y.V))
					if iskey[y.Name] { // aliasing patterns z=x and z=y on the key operands
						out(d, y.Name, f.Bin(j.op, 1, x.V, y.V))
						out(d, y.Name, f.Bin(j.op, 2, x.V, y.V))
					}
				}
			})
		case 1:
			x := all[j.i]
			c.Case(j.op+"#x="+x.Name, func(d *D) {
				out(d, "fresh", f.Un(j.op, 0, x.V))
				out(d, "inplace", f.Un(j.op, 1, x.V))
			})
		case 2:
			x := all[j.i]
			c.Case(j.op+"#x="+x.Name, func(d *D) { d.Exec(1); d.Bool("v", f.Pred(j.op, x.V)) })
		case 3:
			x := key[j.i]
			c.Case(j.op+"#x="+x.Name, func(d *D) {
				for _, y := range key {
					switch j.op {
					case "AddSub":
						s, df := f.AddSub(x.V, y.V)
						out(d, y.Name+".sum", s)
						out(d, y.Name+".dif", df)
					case "Cmov":
						for b := uint(0); b < 2; b++ {
							d.Exec(1)
							d.Bytes(y.Name, f.Cmov(x.V, y.V, b))
						}
					case "Cswap":
						for b := uint(0); b < 2; b++ {
							d.Exec(1)
							x2, y2 := f.Cswap(x.V, y.V, b)
							d.Bytes(y.Name+".x", x2)
							d.Bytes(y.Name+".y", y2)
						}
					case "InvSqrt":
						d.Exec(1)
						z, qr := f.InvSqrt(x.V, y.V)
						d.Bool(y.Name+".isQR", qr)
						if qr { // the value is documented as undetermined otherwise
							d.Bytes(y.Name+".canon", f.Canon(z))
						}
					}
				}
			})
		}
	})
}
