//go:build verif

package verifc14

import (
	"golang.org/x/crypto/sha3"
)

// Independent (x/crypto SHAKE-128) scanners of the rejection-sampling streams of ExpandA, used only to
// decide whether a transcript input reaches the accept/reject boundary of a sampler that exists in a
// 4-way and in a scalar version. They never judge the library's output.

const (
	dilithiumQ = 8380417
	kyberQ     = 3329
)

// DilithiumExpandAScan walks the K x L streams SHAKE128(rho || LE16(256*i+j)) the way ExpandA consumes
// them (23-bit candidates, stop after 256 accepted) and counts candidates equal to q (first rejected
// value) and to q-1 (largest accepted value).
func DilithiumExpandAScan(rho []byte, k, l int) (eqQ, eqQm1 int) {
	for i := 0; i < k; i++ {
		for j := 0; j < l; j++ {
			h := sha3.NewShake128()
			h.Write(rho[:32])
			h.Write([]byte{byte(j), byte(i)})
			var buf [168]byte
			n := 0
			for n < 256 {
				h.Read(buf[:])
				for o := 0; o+3 <= 168 && n < 256; o += 3 {
					t := uint32(buf[o]) | uint32(buf[o+1])<<8 | uint32(buf[o+2]&0x7f)<<16
					switch {
					case t == dilithiumQ:
						eqQ++
					case t == dilithiumQ-1:
						eqQm1++
					}
					if t < dilithiumQ {
						n++
					}
				}
			}
		}
	}
	return
}

// KyberUniform reproduces Parse(SHAKE128(seed || x || y)) of Kyber / ML-KEM: the 256 coefficients in
// standard order, and how often a 12-bit candidate equals q or q-1, and whether the last coefficient
// came from the first candidate of a byte triple while the second candidate was also acceptable
// (the "3-byte boundary": that second candidate must be dropped); blocks = number of 168-byte SHAKE blocks consumed
// (3 in most cases; the 4-way sampler squeezes further blocks for the lanes that are not finished).
func KyberUniform(seed []byte, x, y uint8) (coef [256]int16, eqQ, eqQm1, blocks int, dropsValidSecond bool) {
	h := sha3.NewShake128()
	h.Write(seed[:32])
	h.Write([]byte{x, y})
	var buf [168]byte
	n := 0
	for n < 256 {
		h.Read(buf[:])
		blocks++
		for o := 0; o+3 <= 168 && n < 256; o += 3 {
			d1 := uint16(buf[o]) | uint16(buf[o+1]&0xf)<<8
			d2 := uint16(buf[o+1]>>4) | uint16(buf[o+2])<<4
			for idx, d := range []uint16{d1, d2} {
				switch d {
				case kyberQ:
					eqQ++
				case kyberQ - 1:
					eqQm1++
				}
				if d < kyberQ {
					if n < 256 {
						coef[n] = int16(d)
						n++
					} else if idx == 1 {
						dropsValidSecond = true
					}
				}
			}
		}
	}
	return
}
