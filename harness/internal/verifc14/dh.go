//go:build verif

package verifc14

import (
	"fmt"

	"github.com/cloudflare/circl/internal/verifmc"
)

// DH adapts dh/x25519 and dh/x448.
type DH struct {
	Name   string
	Size   int
	KeyGen func(secret []byte) []byte
	Shared func(secret, public []byte) ([]byte, bool)
}

// DHSecrets: the seed alphabet, the edge strings and single-bit secrets (every bit in the thorough tier,
// the bits at byte boundaries and the clamped positions in the quick tier).
func DHSecrets(size int, thorough bool, seed int64) []Named {
	var out []Named
	for i, s := range verifmc.Seeds(size, seed) {
		out = append(out, Named{fmt.Sprintf("seed%d", i), s})
	}
	for i, s := range Pseudo("dh-secret", 3, size) {
		out = append(out, Named{fmt.Sprintf("pseudo%d", i), s})
	}
	alt := make([]byte, size)
	for i := range alt {
		alt[i] = 0x55
	}
	out = append(out, Named{"0x55..", alt})
	alt2 := make([]byte, size)
	for i := range alt2 {
		alt2[i] = 0xaa
	}
	out = append(out, Named{"0xaa..", alt2})
	for i, b := range SingleBits(size) {
		if thorough || i%8 == 0 || i%8 == 7 || i < 8 || i >= 8*size-8 {
			out = append(out, Named{fmt.Sprintf("bit%d", i), b})
		}
	}
	return out
}

// RunDH: KeyGen on every secret (plus the honest exchange with three fixed peers); Shared on
// sharedSecrets x publics. A case of Shared is one public value, its digest covers every secret
// (output bytes and the ok flag).
func RunDH(c *T, f *DH, secrets, sharedSecrets, publics []Named) {
	r := c.R
	r.Set("dh", f.Name)
	r.Set("secrets", len(secrets))
	r.Set("secrets_used_with_every_peer_value", len(sharedSecrets))
	r.Set("publics", len(publics))
	n := len(secrets) + len(publics)
	verifmc.ParallelFor(n, func(i int) {
		if i < len(secrets) {
			s := secrets[i]
			c.Case("KeyGen#k="+s.Name, func(d *D) {
				d.Exec(1)
				pk := f.KeyGen(s.V)
				d.Bytes("pk", pk)
				// and the honest exchange with the first secrets' public keys
				for _, s2 := range secrets[:3] {
					d.Exec(2)
					ss, ok := f.Shared(s.V, f.KeyGen(s2.V))
					d.Bytes("ss."+s2.Name, ss)
					d.Bool("ok."+s2.Name, ok)
				}
			})
			return
		}
		u := publics[i-len(secrets)]
		c.Case("Shared#u="+u.Name, func(d *D) {
			for _, s := range sharedSecrets {
				d.Exec(1)
				ss, ok := f.Shared(s.V, u.V)
				d.Bytes(s.Name, ss)
				d.Bool(s.Name+".ok", ok)
				if !ok {
					r.Count("shared_flagged_false", 1)
				}
			}
		})
	})
}
