//go:build verif

package verifc14

import "encoding/hex"

func mustHex(s string) []byte {
	b, err := hex.DecodeString(s)
	if err != nil {
		panic(err)
	}
	return b
}

// LowOrder25519 returns the canonical u-coordinates of the low-order points of Curve25519 and its twist
// (little endian): 0, 1, the two points of order 8, and p-1. Public constants (RFC 7748 security notes).
func LowOrder25519() [][]byte {
	return [][]byte{
		mustHex("0000000000000000000000000000000000000000000000000000000000000000"),
		mustHex("0100000000000000000000000000000000000000000000000000000000000000"),
		mustHex("e0eb7a7c3b41b8ae1656e3faf19fc46ada098deb9c32b1fd866205165f49b800"),
		mustHex("5f9c95bca3508c24b1d0b1559c83ef5b04445cc4581c8e86d8224eddd09f1157"),
		mustHex("ecffffffffffffffffffffffffffffffffffffffffffffffffffffffffffff7f"),
	}
}

// LowOrder448 returns 0, 1 and p-1 for Curve448 (56 bytes, little endian).
func LowOrder448() [][]byte {
	zero := make([]byte, 56)
	one := make([]byte, 56)
	one[0] = 1
	m1 := make([]byte, 56)
	for i := range m1 {
		m1[i] = 0xff
	}
	m1[0], m1[28] = 0xfe, 0xfe
	return [][]byte{zero, one, m1}
}
