//go:build verif

package verifc06

import (
	"bytes"
	"encoding/gob"
	"fmt"
	"math/big"
	"os"
	"path/filepath"
	"sort"
	"sync"

	"github.com/cloudflare/circl/internal/verifmc"
	"github.com/cloudflare/circl/internal/verifref/xladder"
)

// memo memoises the reference. RFC 7748's function depends on the two byte
// strings only through decodeScalar(k) and decodeUCoordinate(u) mod p, which is
// the memo key.
//
// The reference executes no circl code and is the same in every configuration,
// while `vcheck run` executes the configurations one after the other with one
// fresh output directory (VERIF_OUT) per run. The values computed by a unit
// under one configuration are therefore written to
// $VERIF_OUT/C06.<unit>.refcache and re-used by the same unit under the next
// configurations of the same run (never across runs; a replay computes its own).
// On load, entries spread over the file are recomputed; a mismatch marks the
// unit broken.
type memo struct {
	c      *xladder.Curve
	mu     sync.Mutex
	m      map[string][]byte
	used   map[string]bool
	n      int // computed in this process
	loaded int
	path   string
	bad    string
}

func memoKey(c *xladder.Curve, k, u []byte) string {
	ks := c.DecodeScalar(k)
	us := c.DecodeU(u)
	us.Mod(us, c.P)
	return ks.Text(62) + "/" + us.Text(62)
}

func newMemo(c *xladder.Curve, r *verifmc.Run) *memo {
	m := &memo{c: c, m: map[string][]byte{}, used: map[string]bool{}}
	out := os.Getenv("VERIF_OUT")
	if r == nil || out == "" || r.Replaying() {
		return m
	}
	m.path = filepath.Join(out, fmt.Sprintf("%s.%s.%dbit.refcache", r.Prop, r.Unit, c.Bits))
	b, err := os.ReadFile(m.path)
	if err != nil {
		return m
	}
	var got map[string][]byte
	if err := gob.NewDecoder(bytes.NewReader(b)).Decode(&got); err != nil {
		m.bad = "refcache unreadable: " + err.Error()
		return m
	}
	keys := make([]string, 0, len(got))
	for k := range got {
		keys = append(keys, k)
	}
	sort.Strings(keys)
	for i := 0; i < 8 && len(keys) > 0; i++ {
		key := keys[i*(len(keys)-1)/7]
		var ks, us big.Int
		var kt, ut string
		for j := range key {
			if key[j] == '/' {
				kt, ut = key[:j], key[j+1:]
			}
		}
		if _, ok := ks.SetString(kt, 62); !ok {
			m.bad = "refcache key"
			return m
		}
		if _, ok := us.SetString(ut, 62); !ok {
			m.bad = "refcache key"
			return m
		}
		if !bytes.Equal(c.X(c.LE(&ks), c.LE(&us)), got[key]) {
			m.bad = "refcache entry " + key + " does not match the reference"
			return m
		}
	}
	m.m = got
	m.loaded = len(got)
	return m
}

func (m *memo) X(k, u []byte) []byte {
	key := memoKey(m.c, k, u)
	m.mu.Lock()
	v, ok := m.m[key]
	m.used[key] = true
	m.mu.Unlock()
	if ok {
		return v
	}
	v = m.c.X(k, u)
	m.mu.Lock()
	if _, dup := m.m[key]; !dup {
		m.m[key] = v
		m.n++
	}
	m.mu.Unlock()
	return v
}

// finish records the counters and writes the run cache.
func (m *memo) finish(r *verifmc.Run) {
	r.Count("reference_values_distinct", len(m.used))
	r.Set("reference_computed_in_this_process", m.n)
	r.Set("reference_reused_from_earlier_configuration_of_this_run", len(m.used)-m.n)
	if m.bad != "" {
		r.Vacuous(m.bad)
		return
	}
	if m.path == "" || m.n == 0 {
		return
	}
	var buf bytes.Buffer
	if err := gob.NewEncoder(&buf).Encode(m.m); err != nil {
		return
	}
	tmp := m.path + ".tmp"
	if os.WriteFile(tmp, buf.Bytes(), 0o644) == nil {
		_ = os.Rename(tmp, m.path)
	}
}
