//go:build verif

package verifc06

import (
	"bytes"
	"encoding/gob"
	"fmt"
	"math/big"
	"os"
	"path/filepath"
	"sort"
	"sync"

	"github.com/cloudflare/circl/internal/verifmc"
	"github.com/cloudflare/circl/internal/verifref/xladder"
)

// memo memoises the reference. RFC 7748's function depends on the two byte
// strings only through decodeScalar(k) and decodeUCoordinate(u) mod p, which is
// the memo key.
//
// The reference executes no circl code and is the same in every configuration,
// while `vcheck run` executes the configurations one after the other with one
// fresh output directory (VERIF_OUT) per run. The values computed by a unit
// under one configuration are therefore written to
// $VERIF_OUT/C06.<test binary>.<bits>bit.refcache and re-used under the next
// configurations of the same run (never across runs; a replay computes its own).
// Within a process the table is shared by the units of the package.
// On load, entries spread over the file are recomputed; a mismatch marks the
// unit broken.
type memo struct {
	c    *xladder.Curve
	st   *store
	mu   sync.Mutex
	used map[string]bool
	n    int // computed through this view
}

// store is the per-process, per-curve table shared by the units of a package
// (they run concurrently); its file is shared by the configurations of a run.
type store struct {
	c      *xladder.Curve
	mu     sync.Mutex
	m      map[string][]byte
	added  int
	loaded int
	path   string
	bad    string
}

var (
	storesMu sync.Mutex
	stores   = map[int]*store{}
)

func memoKey(c *xladder.Curve, k, u []byte) string {
	ks := c.DecodeScalar(k)
	us := c.DecodeU(u)
	us.Mod(us, c.P)
	return ks.Text(62) + "/" + us.Text(62)
}

func getStore(c *xladder.Curve, r *verifmc.Run) *store {
	storesMu.Lock()
	defer storesMu.Unlock()
	if st, ok := stores[c.Bits]; ok {
		return st
	}
	st := &store{c: c, m: map[string][]byte{}}
	stores[c.Bits] = st
	out := os.Getenv("VERIF_OUT")
	if r == nil || out == "" || r.Replaying() {
		return st
	}
	// one file per test binary (= package) and curve
	st.path = filepath.Join(out, fmt.Sprintf("%s.%s.%dbit.refcache", r.Prop, filepath.Base(os.Args[0]), c.Bits))
	b, err := os.ReadFile(st.path)
	if err != nil {
		return st
	}
	var got map[string][]byte
	if err := gob.NewDecoder(bytes.NewReader(b)).Decode(&got); err != nil {
		st.bad = "refcache unreadable: " + err.Error()
		return st
	}
	keys := make([]string, 0, len(got))
	for k := range got {
		keys = append(keys, k)
	}
	sort.Strings(keys)
	for i := 0; i < 8 && len(keys) > 0; i++ {
		key := keys[i*(len(keys)-1)/7]
		var ks, us big.Int
		var kt, ut string
		for j := range key {
			if key[j] == '/' {
				kt, ut = key[:j], key[j+1:]
			}
		}
		_, ok1 := ks.SetString(kt, 62)
		_, ok2 := us.SetString(ut, 62)
		if !ok1 || !ok2 || !bytes.Equal(c.X(c.LE(&ks), c.LE(&us)), got[key]) {
			st.bad = "refcache entry " + key + " does not match the reference"
			return st
		}
	}
	st.m = got
	st.loaded = len(got)
	return st
}

func newMemo(c *xladder.Curve, r *verifmc.Run) *memo {
	return &memo{c: c, st: getStore(c, r), used: map[string]bool{}}
}

func (m *memo) X(k, u []byte) []byte {
	key := memoKey(m.c, k, u)
	m.mu.Lock()
	m.used[key] = true
	m.mu.Unlock()
	st := m.st
	st.mu.Lock()
	v, ok := st.m[key]
	st.mu.Unlock()
	if ok {
		return v
	}
	v = m.c.X(k, u)
	st.mu.Lock()
	if _, dup := st.m[key]; !dup {
		st.m[key] = v
		st.added++
		m.mu.Lock()
		m.n++
		m.mu.Unlock()
	}
	st.mu.Unlock()
	return v
}

// finish records the counters and writes the run cache.
func (m *memo) finish(r *verifmc.Run) {
	r.Count("reference_values_distinct", len(m.used))
	r.Set("reference_values_computed_by_this_unit", m.n)
	st := m.st
	st.mu.Lock()
	defer st.mu.Unlock()
	r.Set("reference_values_loaded_from_earlier_configuration_of_this_run", st.loaded)
	if st.bad != "" {
		r.Vacuous(st.bad)
		return
	}
	if st.path == "" || st.added == 0 {
		return
	}
	var buf bytes.Buffer
	if err := gob.NewEncoder(&buf).Encode(st.m); err != nil {
		return
	}
	tmp := fmt.Sprintf("%s.tmp%d", st.path, len(st.m))
	if os.WriteFile(tmp, buf.Bytes(), 0o644) == nil {
		_ = os.Rename(tmp, st.path)
	}
	st.added = 0
}
