//go:build verif

// Package verifc06 is the curve-independent part of the C06 harness (X25519 /
// X448 equal RFC 7748; flag <=> all-zero output). It is mapped into the circl
// module at build time as github.com/cloudflare/circl/internal/verifc06 and
// imports no circl code except the engine and the reference ladder.
//
// This file: curve constants that RFC 7748 states (A, group orders, cofactors),
// the scalar and peer alphabets, and the classification of inputs used in
// violation keys and coverage counters.
package verifc06

import (
	"fmt"
	"math/big"

	"github.com/cloudflare/circl/internal/verifmc"
	"github.com/cloudflare/circl/internal/verifref/xladder"
)

// Named is one letter of an alphabet.
type Named struct {
	Name string
	B    []byte
}

// Params are the facts about a curve that the alphabets are built from.
// All of them are checked in the refcheck unit before anything relies on them.
type Params struct {
	C  *xladder.Curve
	A  *big.Int // Montgomery coefficient
	L  *big.Int // prime order of the large subgroup of the curve (RFC 7748 section 4)
	H  int64    // cofactor of the curve
	Lt *big.Int // prime order of the large subgroup of the quadratic twist
	Ht int64    // cofactor of the twist
	// LowOrder are the canonical u of all points of order dividing H on the
	// curve or Ht on the twist (the u for which every clamped scalar gives 0).
	LowOrder []*big.Int
}

func bi(s string) *big.Int {
	v, ok := new(big.Int).SetString(s, 0)
	if !ok {
		panic("bad constant " + s)
	}
	return v
}

func pow2(n int) *big.Int { return new(big.Int).Lsh(big.NewInt(1), uint(n)) }

var (
	P25519 = newParams(xladder.X25519, 486662,
		new(big.Int).Add(pow2(252), bi("27742317777372353535851937790883648493")), 8, 4,
		// the two u of order 8 (https://cr.yp.to/ecdh.html#validate)
		bi("325606250916557431795983626356110631294008115727848805560023387167927233504"),
		bi("39382357235489614581723060781553021112529911719440698176882885853963445705823"))
	P448 = newParams(xladder.X448, 156326,
		new(big.Int).Sub(pow2(446), bi("0x8335dc163bb124b65129c96fde933d8d723a70aadc873d6d54a7bb0d")), 4, 4)
)

func newParams(c *xladder.Curve, a int64, l *big.Int, h, ht int64, extraLow ...*big.Int) *Params {
	p := &Params{C: c, A: big.NewInt(a), L: l, H: h, Ht: ht}
	// #E + #E' = 2(p+1)
	tw := new(big.Int).Add(c.P, big.NewInt(1))
	tw.Lsh(tw, 1)
	tw.Sub(tw, new(big.Int).Mul(l, big.NewInt(h)))
	p.Lt = new(big.Int).Div(tw, big.NewInt(ht))
	p.LowOrder = []*big.Int{big.NewInt(0), big.NewInt(1), new(big.Int).Sub(c.P, big.NewInt(1))}
	p.LowOrder = append(p.LowOrder, extraLow...)
	return p
}

// Side tells on which of curve / twist the (reduced) u lies: "curve", "twist" or
// "both" (u = 0, the point of order two common to both).
func (pp *Params) Side(u *big.Int) string {
	p := pp.C.P
	w := new(big.Int).Mod(u, p)
	// rhs = w^3 + A w^2 + w
	w2 := new(big.Int).Mul(w, w)
	rhs := new(big.Int).Mul(w2, w)
	rhs.Add(rhs, new(big.Int).Mul(pp.A, w2))
	rhs.Add(rhs, w)
	rhs.Mod(rhs, p)
	if rhs.Sign() == 0 {
		return "both"
	}
	if big.Jacobi(rhs, p) == 1 {
		return "curve"
	}
	return "twist"
}

// UClass describes a peer byte string.
type UClass struct {
	TopBit       bool // X25519 only: bit 255 set in the byte string
	NonCanonical bool // value after masking is >= p
	LowOrder     bool
	Side         string
}

func (pp *Params) ClassifyU(u []byte) UClass {
	var c UClass
	if pp.C.Bits == 255 {
		c.TopBit = u[31]&0x80 != 0
	}
	v := pp.C.DecodeU(u)
	c.NonCanonical = v.Cmp(pp.C.P) >= 0
	w := new(big.Int).Mod(v, pp.C.P)
	for _, l := range pp.LowOrder {
		if l.Cmp(w) == 0 {
			c.LowOrder = true
		}
	}
	c.Side = pp.Side(w)
	return c
}

func (c UClass) String() string {
	s := c.Side
	if c.LowOrder {
		s = "low-order"
	}
	if c.NonCanonical {
		s += "/noncanonical"
	}
	if c.TopBit {
		s += "/bit255"
	}
	return s
}

// ClassifyK returns "ordinary", or "multiple-of-curve-order" /
// "multiple-of-twist-order" when the clamped scalar is a multiple of the prime
// order of the large subgroup (then RFC 7748 itself yields 0 for every u on that
// side although u is not of low order).
func (pp *Params) ClassifyK(k []byte) string {
	s := pp.C.DecodeScalar(k)
	if new(big.Int).Mod(s, pp.L).Sign() == 0 {
		return "multiple-of-curve-order"
	}
	if new(big.Int).Mod(s, pp.Lt).Sign() == 0 {
		return "multiple-of-twist-order"
	}
	return "ordinary"
}

// le encodes v mod 2^(8*size).
func (pp *Params) le(v *big.Int) []byte {
	m := new(big.Int).Mod(v, pow2(8*pp.C.Size))
	return pp.C.LE(m)
}

type set struct {
	seen map[string]bool
	out  []Named
}

func (s *set) add(name string, b []byte) {
	if s.seen == nil {
		s.seen = map[string]bool{}
	}
	if s.seen[string(b)] {
		return
	}
	s.seen[string(b)] = true
	s.out = append(s.out, Named{name, append([]byte{}, b...)})
}

func addi(v *big.Int, d int64) *big.Int { return new(big.Int).Add(v, big.NewInt(d)) }

// ScalarsCore: the edge-biased scalar alphabet K of DESIGN C06 plus the scalars
// tied to the group orders.
func (pp *Params) ScalarsCore(seed int64) []Named {
	var s set
	n, bits := pp.C.Size, pp.C.Bits
	top := bits - 1 // 254 / 447: the bit clamping sets
	s.add("0", make([]byte, n))
	s.add("1", pp.le(big.NewInt(1)))
	s.add("8", pp.le(big.NewInt(8)))
	s.add(fmt.Sprintf("2^%d", top), pp.le(pow2(top)))
	s.add(fmt.Sprintf("2^%d-1", top), pp.le(addi(pow2(top), -1)))
	s.add(fmt.Sprintf("2^%d-1", top+1), pp.le(addi(pow2(top+1), -1)))
	s.add(fmt.Sprintf("2^%d-8", top+1), pp.le(addi(pow2(top+1), -8)))
	s.add("all-ones", pp.le(addi(pow2(8*n), -1)))
	// clamping-sensitive bytes: the bits cleared and set by decodeScalar
	for _, x := range []struct {
		pos int
		v   byte
	}{{0, 0x01}, {0, 0x02}, {0, 0x04}, {0, 0x07}, {0, 0x03}, {0, 0x40}, {0, 0xf8}, {0, 0xfc},
		{n - 1, 0x40}, {n - 1, 0x80}, {n - 1, 0xc0}, {n - 1, 0x3f}, {n - 1, 0x7f}} {
		b := make([]byte, n)
		b[x.pos] = x.v
		s.add(fmt.Sprintf("byte%d=%02x", x.pos, x.v), b)
	}
	// scalars tied to the group orders
	hL := new(big.Int).Mul(pp.L, big.NewInt(pp.H))
	hLt := new(big.Int).Mul(pp.Lt, big.NewInt(pp.Ht))
	s.add("L", pp.le(pp.L))
	s.add("L-1", pp.le(addi(pp.L, -1)))
	s.add("L+1", pp.le(addi(pp.L, 1)))
	s.add("h*L", pp.le(hL))
	s.add("h*L-h", pp.le(addi(hL, -pp.H)))
	s.add("h*L+h", pp.le(addi(hL, pp.H)))
	// raw forms that clamp to h*L when h*L is clamp-invariant (X448)
	raw := pp.le(hL)
	raw[0] |= byte(pp.H - 1)
	s.add("h*L|lowbits", raw)
	raw = pp.le(hL)
	raw[n-1] &= 0x7f
	s.add("h*L&^topbit", raw)
	s.add("Lt", pp.le(pp.Lt))
	s.add("ht*Lt", pp.le(hLt))
	s.add("ht*Lt-ht", pp.le(addi(hLt, -pp.Ht)))
	for i, sd := range verifmc.Seeds(n, seed) {
		s.add(fmt.Sprintf("seed%d", i), sd)
	}
	return s.out
}

// ScalarsSmall: three ordinary scalars used against the wide peer alphabet.
func (pp *Params) ScalarsSmall() []Named {
	n := pp.C.Size
	var s set
	s.add("seedA", verifmc.Shake("c06-kA", n))
	s.add("all-ones", pp.le(addi(pow2(8*n), -1)))
	s.add("0", make([]byte, n))
	return s.out
}

// ScalarsBits: every single-bit scalar and every all-ones-but-one-bit scalar.
func (pp *Params) ScalarsBits() []Named {
	n := pp.C.Size
	var s set
	ones := addi(pow2(8*n), -1)
	for i := 0; i < 8*n; i++ {
		s.add(fmt.Sprintf("2^%d", i), pp.le(pow2(i)))
		s.add(fmt.Sprintf("~2^%d", i), pp.le(new(big.Int).Sub(ones, pow2(i))))
	}
	return s.out
}

// ScalarsClampSpace: values of (first byte, last byte) around a fixed middle.
// full: all 2^16 (decides clamping completely for that middle). Otherwise the
// cross: every first byte x 8 last bytes, and 9 first bytes x every last byte.
func (pp *Params) ScalarsClampSpace(full bool) []Named {
	n := pp.C.Size
	mid := verifmc.Shake("c06-clamp-mid", n)
	out := make([]Named, 0, 1<<16)
	inA := map[int]bool{0x00: true, 0x01: true, 0x02: true, 0x03: true, 0x04: true, 0x07: true, 0xf8: true, 0xfc: true, 0xff: true}
	inB := map[int]bool{0x00: true, 0x3f: true, 0x40: true, 0x7f: true, 0x80: true, 0xbf: true, 0xc0: true, 0xff: true}
	for a := 0; a < 256; a++ {
		for b := 0; b < 256; b++ {
			if !full && !inA[a] && !inB[b] {
				continue
			}
			k := append([]byte{}, mid...)
			k[0], k[n-1] = byte(a), byte(b)
			out = append(out, Named{fmt.Sprintf("clamp[%02x..%02x]", a, b), k})
		}
	}
	return out
}

func limbValue(limbs []uint64) *big.Int {
	v := new(big.Int)
	for i := len(limbs) - 1; i >= 0; i-- {
		v.Lsh(v, 64)
		v.Or(v, new(big.Int).SetUint64(limbs[i]))
	}
	return v
}

// Limbs enumerates every string whose 64-bit limbs are drawn from alpha.
func (pp *Params) Limbs(prefix string, alpha []uint64) []Named {
	nl := pp.C.Size / 8
	var s set
	idx := make([]int, nl)
	limbs := make([]uint64, nl)
	verifmc.Product(sizes(nl, len(alpha)), func(ix []int) bool {
		copy(idx, ix)
		name := prefix + "["
		for i := range limbs {
			limbs[i] = alpha[idx[i]]
			name += fmt.Sprintf("%d", idx[i])
		}
		s.add(name+"]", pp.le(limbValue(limbs)))
		return true
	})
	return s.out
}

func sizes(n, k int) []int {
	s := make([]int, n)
	for i := range s {
		s[i] = k
	}
	return s
}

// withTop returns the byte string of v (< 2^255) and, for X25519, the same with
// bit 255 set.
func (pp *Params) withTop(s *set, name string, v *big.Int) {
	b := pp.le(v)
	s.add(name, b)
	if pp.C.Bits == 255 && v.BitLen() <= 255 {
		c := append([]byte{}, b...)
		c[31] |= 0x80
		s.add(name+"|2^255", c)
	}
}

// PeersCore: the special peer values of DESIGN C06.
func (pp *Params) PeersCore(seed int64) []Named {
	var s set
	p := pp.C.P
	n := pp.C.Size
	for v := int64(0); v <= 9; v++ {
		pp.withTop(&s, fmt.Sprintf("%d", v), big.NewInt(v))
	}
	pp.withTop(&s, "p-2", addi(p, -2))
	pp.withTop(&s, "p-1", addi(p, -1))
	if pp.C.Bits == 255 {
		// the complete non-canonical range of X25519: p .. 2^255-1
		for j := int64(0); j < 19; j++ {
			pp.withTop(&s, fmt.Sprintf("p+%d", j), addi(p, j))
		}
	} else {
		// both ends of the non-canonical range p .. 2^448-1 (2^224+1 values);
		// every single-bit offset into it is in PeersNonCanonicalBits
		for j := int64(0); j < 32; j++ {
			pp.withTop(&s, fmt.Sprintf("p+%d", j), addi(p, j))
			pp.withTop(&s, fmt.Sprintf("2^448-1-%d", j), addi(pow2(448), -1-j))
		}
	}
	for i, l := range pp.LowOrder {
		pp.withTop(&s, fmt.Sprintf("low%d", i), l)
		pp.withTop(&s, fmt.Sprintf("low%d-1", i), new(big.Int).Mod(addi(l, -1), p))
		pp.withTop(&s, fmt.Sprintf("low%d+1", i), addi(l, 1))
		pp.withTop(&s, fmt.Sprintf("-low%d", i), new(big.Int).Mod(new(big.Int).Neg(l), p))
		// aliases l+p, l+2p as raw strings where they fit
		for m := int64(1); m <= 2; m++ {
			a := new(big.Int).Add(l, new(big.Int).Mul(p, big.NewInt(m)))
			if a.BitLen() <= 8*n {
				s.add(fmt.Sprintf("low%d+%dp", i, m), pp.le(a))
			}
		}
	}
	// base point and its aliases
	for m := int64(1); m <= 2; m++ {
		a := new(big.Int).Add(pp.C.BaseU, new(big.Int).Mul(p, big.NewInt(m)))
		if a.BitLen() <= 8*n {
			s.add(fmt.Sprintf("base+%dp", m), pp.le(a))
		}
	}
	s.add("all-ones", pp.le(addi(pow2(8*n), -1)))
	pp.withTop(&s, fmt.Sprintf("2^%d-1", pp.C.Bits), addi(pow2(pp.C.Bits), -1))
	for i, sd := range verifmc.Seeds(n, seed) {
		if i < 2 {
			continue // 00.. and FF.. are present already
		}
		s.add(fmt.Sprintf("seed%d", i), sd)
	}
	return s.out
}

// PeersSmall: five peers used against the wide scalar alphabets: base point, a
// twist point, a non-canonical value, a low-order value, one seed-derived value.
func (pp *Params) PeersSmall() []Named {
	var s set
	s.add("base", pp.le(pp.C.BaseU))
	for v := int64(2); ; v++ {
		if pp.Side(big.NewInt(v)) == "twist" {
			s.add(fmt.Sprintf("twist%d", v), pp.le(big.NewInt(v)))
			break
		}
	}
	s.add("p+3", pp.le(addi(pp.C.P, 3)))
	s.add("0", pp.le(big.NewInt(0)))
	s.add("seedU", verifmc.Shake("c06-uA", pp.C.Size))
	return s.out
}

// PeersNonCanonicalBits: X448 only, p+2^i for every i<224 (single-bit offsets
// into the non-canonical range). X25519's non-canonical range is complete in
// PeersCore.
func (pp *Params) PeersNonCanonicalBits() []Named {
	var s set
	if pp.C.Bits == 448 {
		for i := 0; i < 224; i++ {
			s.add(fmt.Sprintf("p+2^%d", i), pp.le(new(big.Int).Add(pp.C.P, pow2(i))))
		}
	}
	return s.out
}

// PeersBits: every single-bit peer value.
func (pp *Params) PeersBits() []Named {
	var s set
	for i := 0; i < 8*pp.C.Size; i++ {
		s.add(fmt.Sprintf("2^%d", i), pp.le(pow2(i)))
	}
	return s.out
}

// LimbAlphabets returns the 64-bit limb alphabets for structured peers and
// scalars in the given tier.
func (pp *Params) LimbAlphabets(thorough bool) (peer, scalar []uint64) {
	const ones = ^uint64(0)
	if pp.C.Bits == 255 {
		peer = []uint64{0, 1, 1 << 63, ones}
		scalar = []uint64{0, ones}
		if thorough {
			peer = []uint64{0, 1, 1 << 63, ones, 1<<63 - 1, ones - 18}
			scalar = []uint64{0, 1, 1 << 63, ones, 0x5555555555555555, 0xaaaaaaaaaaaaaaaa, 1<<63 - 1, 1 << 32}
		}
		return
	}
	// p448 = 2^448 - 2^224 - 1: limb 3 of p is fffffffeffffffff
	peer = []uint64{0, ones}
	scalar = []uint64{0, ones}
	if thorough {
		peer = []uint64{0, ones, 0xfffffffeffffffff, 1 << 32}
		scalar = []uint64{0, 1, 1 << 63, ones}
	}
	return
}

// PeersLimbs: structured peers. In the quick tier of X448 the limb that holds
// the 2^224 boundary additionally takes the two values around p's limb.
func (pp *Params) PeersLimbs(thorough bool) []Named {
	peer, _ := pp.LimbAlphabets(thorough)
	out := pp.Limbs("u", peer)
	if pp.C.Bits == 448 && !thorough {
		var s set
		for _, n := range out {
			s.add(n.Name, n.B)
		}
		for _, l3 := range []uint64{0xfffffffeffffffff, 0xffffffff00000000} {
			for m := 0; m < 64; m++ {
				limbs := make([]uint64, 7)
				k := 0
				for i := range limbs {
					if i == 3 {
						limbs[i] = l3
						continue
					}
					if m>>uint(k)&1 == 1 {
						limbs[i] = ^uint64(0)
					}
					k++
				}
				s.add(fmt.Sprintf("u[l3=%x,m=%02x]", l3, m), pp.le(limbValue(limbs)))
			}
		}
		out = s.out
	}
	return out
}

// ScalarsLimbs: structured scalars.
func (pp *Params) ScalarsLimbs(thorough bool) []Named {
	_, sc := pp.LimbAlphabets(thorough)
	return pp.Limbs("k", sc)
}
