//go:build verif

package verifc06

import (
	"bytes"
	"fmt"
	"sync"

	"github.com/cloudflare/circl/internal/verifmc"
	"github.com/cloudflare/circl/internal/verifref/xladder"
)

// Impl is the code under test, wrapped by the in-package harness.
type Impl struct {
	Name    string // "x25519" / "x448"
	P       *Params
	Shared  func(k, u []byte) (out []byte, ok bool)
	KeyGen  func(k []byte) []byte
	Backend string        // back-end actually selected: "generic", "asm-legacy", "asm-bmi2adx"
	Globals func() string // digest of the package's tables
}

// ExpectedBackend is the back-end a configuration label is meant to select.
func ExpectedBackend(config string) string {
	switch config {
	case "purego":
		return "generic"
	case "nobmi2", "noadx", "alloff":
		return "asm-legacy"
	}
	return "asm-bmi2adx"
}

// CheckBackend records the back-end in the evidence and marks the unit vacuous
// when the configuration did not switch to the back-end it stands for.
func CheckBackend(r *verifmc.Run, backend string) {
	r.Set("backend", backend)
	r.Set("backend_"+r.Config(), backend)
	r.Outcome("backend=" + backend)
	if want := ExpectedBackend(r.Config()); want != backend {
		r.Vacuous(fmt.Sprintf("config %s selected back-end %s, expected %s", r.Config(), backend, want))
	}
}

// memo caches the reference: RFC 7748's function depends on the byte strings
// only through decodeScalar(k) and decodeUCoordinate(u) mod p.
type memo struct {
	c  *xladder.Curve
	mu sync.Mutex
	m  map[string][]byte
	n  int
}

func newMemo(c *xladder.Curve) *memo { return &memo{c: c, m: map[string][]byte{}} }

func (m *memo) X(k, u []byte) []byte {
	ks := m.c.DecodeScalar(k)
	us := m.c.DecodeU(u)
	us.Mod(us, m.c.P)
	key := ks.Text(62) + "/" + us.Text(62)
	m.mu.Lock()
	v, ok := m.m[key]
	m.mu.Unlock()
	if ok {
		return v
	}
	v = m.c.X(k, u)
	m.mu.Lock()
	if _, dup := m.m[key]; !dup {
		m.m[key] = v
		m.n++
	}
	m.mu.Unlock()
	return v
}

type pair struct {
	k, u Named
	id   string
}

type pairSet struct {
	unit  string
	seen  map[string]bool
	pairs []pair
}

func (ps *pairSet) product(ks, us []Named) {
	if ps.seen == nil {
		ps.seen = map[string]bool{}
	}
	for _, k := range ks {
		for _, u := range us {
			key := string(k.B) + string(u.B)
			if ps.seen[key] {
				continue
			}
			ps.seen[key] = true
			ps.pairs = append(ps.pairs, pair{k, u, ps.unit + "/k=" + k.Name + "/u=" + u.Name})
		}
	}
}

type finding struct {
	key, what string
}

type result struct {
	out, want []byte
	ok        bool
	panicked  string
	uc        UClass
	kc        string
	find      []finding
	ran       bool
}

func hx(b []byte) string { return verifmc.FullHex(b) }

// evalShared runs one (k,u) pair on the real code and judges it.
func evalShared(im *Impl, m *memo, p *pair) result {
	var res result
	res.ran = true
	res.uc = im.P.ClassifyU(p.u.B)
	res.kc = im.P.ClassifyK(p.k.B)
	k := append([]byte{}, p.k.B...)
	u := append([]byte{}, p.u.B...)
	pan, what := verifmc.Try(func() { res.out, res.ok = im.Shared(k, u) })
	entry := im.Name + ".Shared"
	cls := "u=" + res.uc.String() + ",k=" + res.kc
	if pan {
		res.panicked = what
		res.find = append(res.find, finding{"C06|" + entry + "|panic-" + verifmc.PanicClass(what) + "|" + cls, "panic: " + what})
		return res
	}
	if !bytes.Equal(k, p.k.B) || !bytes.Equal(u, p.u.B) {
		res.find = append(res.find, finding{"C06|" + entry + "|input-modified|" + cls, "Shared modified its secret or public argument"})
	}
	res.want = m.X(p.k.B, p.u.B)
	if !bytes.Equal(res.out, res.want) {
		res.find = append(res.find, finding{"C06|" + entry + "|value-differs-from-rfc7748|" + cls,
			fmt.Sprintf("Shared(k=%s, u=%s) = %s, RFC 7748 gives %s", hx(p.k.B), hx(p.u.B), hx(res.out), hx(res.want))})
	}
	zero := xladder.IsZero(res.out)
	if zero && res.ok {
		res.find = append(res.find, finding{"C06|" + entry + "|flag-true-but-output-zero|" + cls,
			fmt.Sprintf("Shared(k=%s, u=%s) returned the all-zero value with flag true", hx(p.k.B), hx(p.u.B))})
	}
	if !zero && !res.ok {
		res.find = append(res.find, finding{"C06|" + entry + "|flag-false-but-output-nonzero|" + cls,
			fmt.Sprintf("Shared(k=%s, u=%s) = %s (non-zero) with flag false", hx(p.k.B), hx(p.u.B), hx(res.out))})
	}
	return res
}

// runPairs evaluates all pairs in parallel and reports sequentially in
// enumeration order, so that the recorded violation of every key is the first
// one in that order on every run.
func runPairs(r *verifmc.Run, im *Impl, m *memo, pairs []pair) {
	res := make([]result, len(pairs))
	verifmc.ParallelFor(len(pairs), func(i int) {
		if !r.Want(pairs[i].id) {
			return
		}
		res[i] = evalShared(im, m, &pairs[i])
	})
	nsample := 0
	for i := range pairs {
		x, p := &res[i], &pairs[i]
		if !x.ran {
			continue
		}
		r.Eval(1)
		r.Distinct(p.k.B, p.u.B)
		r.Count("pairs", 1)
		r.Count("u_"+x.uc.Side, 1)
		if x.uc.NonCanonical {
			r.Count("u_noncanonical", 1)
		}
		if x.uc.TopBit {
			r.Count("u_bit255_set", 1)
		}
		if x.uc.LowOrder {
			r.Count("u_low_order", 1)
		}
		if x.kc != "ordinary" {
			r.Count("k_"+x.kc, 1)
		}
		if x.panicked == "" {
			if !x.ok {
				r.Count("flag_false", 1)
			}
			if xladder.IsZero(x.want) {
				r.Count("reference_zero", 1)
				if !x.uc.LowOrder {
					r.Count("reference_zero_with_u_not_low_order", 1)
				}
			}
			r.Outcome(fmt.Sprintf("flag=%v,zero=%v", x.ok, xladder.IsZero(x.out)))
		}
		if nsample < 4 && (i%(len(pairs)/4+1) == 0) {
			nsample++
			r.Sample(map[string]interface{}{"case": p.id, "k": hx(p.k.B), "u": hx(p.u.B), "out": hx(x.out), "flag": x.ok, "u_class": x.uc.String()})
		}
		for _, f := range x.find {
			r.Violation(f.key, p.id, f.what, map[string]string{"k": hx(p.k.B), "u": hx(p.u.B), "backend": im.Backend})
		}
	}
}

func globalsGuard(r *verifmc.Run, im *Impl) func() {
	before := im.Globals()
	return func() {
		if after := im.Globals(); after != before {
			r.Violation("C06|"+im.Name+"|package-table-modified|any", "", "digest of package tables changed during the unit: "+before+" -> "+after, nil)
		}
	}
}

func names(ns []Named, max int) []string {
	var o []string
	for i, n := range ns {
		if i == max {
			o = append(o, fmt.Sprintf("... (%d in total)", len(ns)))
			break
		}
		o = append(o, n.Name)
	}
	return o
}

// RunShared: Shared(k,u) against RFC 7748 and flag <=> zero output, on the union
// of three complete products: core scalars x core peers, small scalars x wide
// peers (single bits, limb-structured), wide scalars (single bits, clamp space,
// limb-structured) x small peers.
func RunShared(r *verifmc.Run, im *Impl) {
	CheckBackend(r, im.Backend)
	defer globalsGuard(r, im)()
	pp := im.P
	th := r.Thorough()
	kCore, kSmall, kBits := pp.ScalarsCore(r.Seed()), pp.ScalarsSmall(), pp.ScalarsBits()
	uCore, uSmall, uBits, uLimbs := pp.PeersCore(r.Seed()), pp.PeersSmall(), pp.PeersBits(), pp.PeersLimbs(th)
	kLimbs := pp.ScalarsLimbs(th)
	ps := pairSet{unit: "shared"}
	ps.product(kCore, uCore)
	ps.product(kSmall, uBits)
	ps.product(kSmall, uLimbs)
	ps.product(kBits, uSmall)
	ps.product(kLimbs, uSmall)
	var kClamp []Named
	if th {
		kClamp = pp.ScalarsClampSpace()
		ps.product(kClamp, uSmall[:2])
	}
	r.Set("alphabet", map[string]interface{}{
		"k_core": names(kCore, 100), "u_core": names(uCore, 400),
		"k_small": names(kSmall, 10), "u_small": names(uSmall, 10),
		"k_bits": len(kBits), "u_bits": len(uBits), "k_limbs": len(kLimbs), "u_limbs": len(uLimbs), "k_clamp_space": len(kClamp),
	})
	peerL, scL := pp.LimbAlphabets(th)
	r.Set("limb_alphabets", map[string]interface{}{"peer": fmt.Sprintf("%x", peerL), "scalar": fmt.Sprintf("%x", scL)})
	r.Rule("distinct (scalar bytes, peer bytes) pairs of (k_core x u_core) U (k_small x (u_bits U u_limbs)) U ((k_bits U k_limbs [U clamp space in thorough]) x u_small); " +
		"each pair runs the real Shared once and is compared with the RFC 7748 big.Int ladder (value) and with output==0 (flag)")
	m := newMemo(pp.C)
	runPairs(r, im, m, ps.pairs)
	r.Count("reference_evaluations", m.n)
	if pp.C.Bits == 448 {
		r.NotExhaustive("X448 non-canonical range p..2^448-1 has 2^224+1 values; its two ends (32 each) and all single-bit offsets are enumerated, not the range")
	}
	r.RequireCounter("pairs", 5000)
	r.RequireCounter("flag_false", 50)
	r.RequireCounter("reference_zero", 50)
	r.RequireCounter("u_noncanonical", 200)
	r.RequireCounter("u_twist", 100)
	r.RequireCounter("u_curve", 100)
	if pp.C.Bits == 255 {
		r.RequireCounter("u_bit255_set", 500)
	}
}

// RunKeyGen: KeyGen(k) == X(k, base) on core, single-bit, limb-structured scalars
// and the complete (first byte, last byte) clamp space; and KeyGen(k) ==
// Shared(k, base) on the real code.
func RunKeyGen(r *verifmc.Run, im *Impl) {
	CheckBackend(r, im.Backend)
	defer globalsGuard(r, im)()
	pp := im.P
	var s set
	for _, l := range [][]Named{pp.ScalarsCore(r.Seed()), pp.ScalarsBits(), pp.ScalarsLimbs(r.Thorough()), pp.ScalarsClampSpace()} {
		for _, n := range l {
			s.add(n.Name, n.B)
		}
	}
	ks := s.out
	base := pp.C.LE(pp.C.BaseU)
	m := newMemo(pp.C)
	type kres struct {
		ran       bool
		pub, want []byte
		sh        []byte
		shok      bool
		pan       string
	}
	res := make([]kres, len(ks))
	verifmc.ParallelFor(len(ks), func(i int) {
		id := "keygen/k=" + ks[i].Name
		if !r.Want(id) {
			return
		}
		x := &res[i]
		x.ran = true
		k := append([]byte{}, ks[i].B...)
		pan, what := verifmc.Try(func() {
			x.pub = im.KeyGen(k)
			x.sh, x.shok = im.Shared(k, base)
		})
		if pan {
			x.pan = what
			return
		}
		x.want = m.X(ks[i].B, base)
	})
	entry := im.Name + ".KeyGen"
	distinctClamped := map[string]bool{}
	for i := range ks {
		x := &res[i]
		if !x.ran {
			continue
		}
		id := "keygen/k=" + ks[i].Name
		kc := pp.ClassifyK(ks[i].B)
		rp := map[string]string{"k": hx(ks[i].B), "backend": im.Backend}
		r.Eval(2)
		r.Distinct(ks[i].B)
		r.Count("scalars", 1)
		distinctClamped[pp.C.DecodeScalar(ks[i].B).Text(62)] = true
		if kc != "ordinary" {
			r.Count("k_"+kc, 1)
		}
		if x.pan != "" {
			r.Violation("C06|"+entry+"|panic-"+verifmc.PanicClass(x.pan)+"|k="+kc, id, "panic: "+x.pan, rp)
			continue
		}
		if i%(len(ks)/4+1) == 0 {
			r.Sample(map[string]interface{}{"case": id, "k": hx(ks[i].B), "public": hx(x.pub)})
		}
		if !bytes.Equal(x.pub, x.want) {
			r.Violation("C06|"+entry+"|value-differs-from-rfc7748|k="+kc, id,
				fmt.Sprintf("KeyGen(k=%s) = %s, RFC 7748 X(k, base) = %s", hx(ks[i].B), hx(x.pub), hx(x.want)), rp)
		}
		if !bytes.Equal(x.pub, x.sh) {
			r.Violation("C06|"+entry+"|differs-from-Shared-with-base-point|k="+kc, id,
				fmt.Sprintf("KeyGen(k=%s) = %s but Shared(k, base) = %s", hx(ks[i].B), hx(x.pub), hx(x.sh)), rp)
		}
		if xladder.IsZero(x.want) {
			r.Count("reference_zero", 1)
		}
	}
	r.Count("distinct_clamped_scalars", len(distinctClamped))
	r.Count("reference_evaluations", m.n)
	r.Set("alphabet", map[string]interface{}{"k_core": names(pp.ScalarsCore(r.Seed()), 100), "k_bits": len(pp.ScalarsBits()),
		"k_limbs": len(pp.ScalarsLimbs(r.Thorough())), "k_clamp_space": 1 << 16})
	r.Rule("distinct scalar byte strings: core U single-bit U limb-structured U all 2^16 (first byte, last byte) values around a fixed middle; " +
		"each runs the real KeyGen once (and Shared with the base point once) and is compared with X(k, base) of the RFC 7748 big.Int ladder")
	r.RequireCounter("scalars", 60000)
	want := int64(2048)
	if pp.C.Bits == 448 {
		want = 8192
	}
	r.RequireCounter("distinct_clamped_scalars", want)
}

// RunAgree: both parties derive the same secret, for every ordered pair of core
// scalars: Shared(a, KeyGen(b)) == Shared(b, KeyGen(a)) == X(a, X(b, base)).
func RunAgree(r *verifmc.Run, im *Impl) {
	CheckBackend(r, im.Backend)
	defer globalsGuard(r, im)()
	pp := im.P
	ks := pp.ScalarsCore(r.Seed())
	if r.Thorough() {
		var s set
		for _, l := range [][]Named{ks, pp.ScalarsLimbs(false), pp.ScalarsBits()[:64]} {
			for _, n := range l {
				s.add(n.Name, n.B)
			}
		}
		ks = s.out
	}
	m := newMemo(pp.C)
	base := pp.C.LE(pp.C.BaseU)
	pubs := make([][]byte, len(ks))
	verifmc.ParallelFor(len(ks), func(i int) {
		verifmc.Try(func() { pubs[i] = im.KeyGen(append([]byte{}, ks[i].B...)) })
	})
	for i := range pubs {
		if pubs[i] == nil {
			pubs[i] = m.X(ks[i].B, base) // a KeyGen panic is reported by the keygen unit
		}
	}
	n := len(ks)
	type ares struct {
		ran      bool
		s1, s2   []byte
		ok1, ok2 bool
		want     []byte
		pan      string
	}
	res := make([]ares, n*n)
	verifmc.ParallelFor(n*n, func(j int) {
		a, b := j/n, j%n
		if a > b {
			return
		}
		id := "agree/a=" + ks[a].Name + "/b=" + ks[b].Name
		if !r.Want(id) {
			return
		}
		x := &res[j]
		x.ran = true
		pan, what := verifmc.Try(func() {
			x.s1, x.ok1 = im.Shared(append([]byte{}, ks[a].B...), append([]byte{}, pubs[b]...))
			x.s2, x.ok2 = im.Shared(append([]byte{}, ks[b].B...), append([]byte{}, pubs[a]...))
		})
		if pan {
			x.pan = what
			return
		}
		x.want = m.X(ks[a].B, m.X(ks[b].B, base))
	})
	for j := range res {
		x := &res[j]
		if !x.ran {
			continue
		}
		a, b := j/n, j%n
		id := "agree/a=" + ks[a].Name + "/b=" + ks[b].Name
		rp := map[string]string{"a": hx(ks[a].B), "b": hx(ks[b].B), "backend": im.Backend}
		cls := "a=" + pp.ClassifyK(ks[a].B) + ",b=" + pp.ClassifyK(ks[b].B)
		r.Eval(2)
		r.Distinct(ks[a].B, ks[b].B)
		r.Count("scalar_pairs", 1)
		if x.pan != "" {
			r.Violation("C06|"+im.Name+".Shared|panic-"+verifmc.PanicClass(x.pan)+"|agree,"+cls, id, "panic: "+x.pan, rp)
			continue
		}
		if j%(len(res)/4+1) == 0 {
			r.Sample(map[string]interface{}{"case": id, "a": hx(ks[a].B), "b": hx(ks[b].B), "secret": hx(x.s1)})
		}
		if !bytes.Equal(x.s1, x.s2) {
			r.Violation("C06|"+im.Name+"|parties-disagree|"+cls, id,
				fmt.Sprintf("Shared(a, KeyGen(b)) = %s but Shared(b, KeyGen(a)) = %s", hx(x.s1), hx(x.s2)), rp)
		}
		if !bytes.Equal(x.s1, x.want) {
			r.Violation("C06|"+im.Name+"|agreed-secret-differs-from-rfc7748|"+cls, id,
				fmt.Sprintf("Shared(a, KeyGen(b)) = %s, RFC 7748 gives %s", hx(x.s1), hx(x.want)), rp)
		}
		for _, f := range []struct {
			ok  bool
			out []byte
			who string
		}{{x.ok1, x.s1, "a"}, {x.ok2, x.s2, "b"}} {
			z := xladder.IsZero(f.out)
			if z {
				r.Count("zero_secrets", 1)
			}
			if z == f.ok {
				cl := "flag-true-but-output-zero"
				if !z {
					cl = "flag-false-but-output-nonzero"
				}
				r.Violation("C06|"+im.Name+".Shared|"+cl+"|agree,"+cls, id,
					fmt.Sprintf("party %s: secret %s with flag %v", f.who, hx(f.out), f.ok), rp)
			}
		}
	}
	r.Count("reference_evaluations", m.n)
	r.Set("alphabet", map[string]interface{}{"scalars": names(ks, 100)})
	r.Rule("unordered pairs {a,b} (a<=b) of the scalar alphabet; each runs KeyGen for both and Shared in both directions on the real code; compared with each other and with X(a, X(b, base)) of the reference")
	r.RequireCounter("scalar_pairs", 400)
}
